import MqttVerif.Model.Step
import MqttVerif.Spec.Wire
/-
  Codec commands of the line-protocol driver: run the transcription of pdu.py and the reference
  wire format on one input each, print a canonical result.
-/
namespace Mqtt.Driver
open Mqtt

def hexDigit (c : Char) : Option Nat :=
  if '0' ≤ c ∧ c ≤ '9' then some (c.toNat - '0'.toNat)
  else if 'a' ≤ c ∧ c ≤ 'f' then some (c.toNat - 'a'.toNat + 10)
  else if 'A' ≤ c ∧ c ≤ 'F' then some (c.toNat - 'A'.toNat + 10)
  else none

partial def unhexAux : List Char → List Nat → Option (List Nat)
  | [], acc => some acc.reverse
  | a :: b :: r, acc => do
    let x ← hexDigit a
    let y ← hexDigit b
    unhexAux r ((x * 16 + y) :: acc)
  | _, _ => none

def unhex (s : String) : Option Bytes := if s == "-" then some [] else unhexAux s.toList []

def hexNib (n : Nat) : Char := "0123456789abcdef".toList.getD n '?'

def hex (bs : Bytes) : String :=
  if bs.isEmpty then "-" else String.ofList (bs.flatMap fun b => [hexNib ((b / 16) % 16), hexNib (b % 16)])

def parseStrHex (s : String) : Option String := do
  let bs ← unhex s
  fromUtf8? bs

def parsePyStr (tok : String) : PyStr :=
  if tok == "n" then .none
  else if tok.startsWith "s:" then
    match parseStrHex (tok.drop 2).toString with
    | some s => .str s
    | none => .other
  else .other

def parseOptStr (tok : String) : Option String :=
  match parsePyStr tok with
  | .str s => some s
  | _ => none

def parsePayload (tok : String) : Payload :=
  if tok.startsWith "s:" then
    match parseStrHex (tok.drop 2).toString with
    | some s => .str s
    | none => .other
  else if tok.startsWith "b:" then
    match unhex (tok.drop 2).toString with
    | some b => .bytearray b
    | none => .other
  else .other

def fmtExcept (r : Except Err Bytes) : String :=
  match r with
  | .ok bs => "ok " ++ hex bs
  | .error e => "err " ++ e.name

def fmtOpt (r : Option Bytes) : String :=
  match r with
  | some bs => "some " ++ hex bs
  | none => "none"

def strHex (s : String) : String := hex (utf8 s)
def optStrHex : Option String → String
  | none => "n"
  | some s => "s:" ++ strHex s
def optBytesHex : Option Bytes → String
  | none => "n"
  | some b => "b:" ++ hex b
def optNat : Option Nat → String
  | none => "n"
  | some n => toString n
def b01 (b : Bool) : String := if b then "1" else "0"

def parseTopicsQ (tok : String) : Option (List (String × Nat)) :=
  if tok == "l:" then some [] else
  ((tok.drop 2).toString.splitOn ";").mapM fun item =>
    match item.splitOn "," with
    | [a, b] => do
      let s ← parseStrHex a
      let q ← b.toNat?
      some (s, q)
    | _ => none

def parseTopics (tok : String) : Option (List String) :=
  if tok == "L:" then some [] else
  ((tok.drop 2).toString.splitOn ";").mapM parseStrHex

def parseGranted (tok : String) : Option (List (Nat × Bool)) :=
  if tok == "g" then some [] else
  ((tok.drop 1).toString.splitOn ",").mapM fun item =>
    match item.splitOn ":" with
    | [a, b] => do some (← a.toNat?, b == "1")
    | _ => none

def fmtTopicsQ (l : List (String × Nat)) : String :=
  "l:" ++ ";".intercalate (l.map fun (s, q) => s!"{strHex s},{q}")
def fmtTopics (l : List String) : String := "L:" ++ ";".intercalate (l.map strHex)
def fmtGranted (g : List (Nat × Bool)) : String := "g" ++ ",".intercalate (g.map fun (q, f) => s!"{q}:{b01 f}")

def parseConnect (t : List String) : Option ConnectF :=
  match t with
  | [cid, ka, ver, clean, wt, wm, wq, wr, user, pass] => do
    some { clientId := ← parseOptStr cid, keepalive := ← ka.toInt?,
           version := if ver == "31" then v31 else v311, cleanStart := clean == "1",
           willTopic := parseOptStr wt, willMessage := parseOptStr wm, willQoS := ← wq.toNat?,
           willRetain := wr == "1", username := parseOptStr user, password := parseOptStr pass }
  | _ => none

def specVerOf (s : String) : Spec.Ver := if s == "31" then .v31 else .v311

def fmtPacket : Spec.Packet → String
  | .connect cid ka clean will user pass =>
    let w := match will with
      | none => "n n 0 0"
      | some w => s!"s:{strHex w.topic} s:{strHex w.message} {w.qos} {b01 w.retain}"
    s!"connect s:{strHex cid} {ka} {b01 clean} {w} {optStrHex user} {optBytesHex pass}"
  | .connack sp rc => s!"connack {b01 sp} {rc}"
  | .publish dup qos retain topic pid payload => s!"publish {b01 dup} {qos} {b01 retain} s:{strHex topic} {optNat pid} {hex payload}"
  | .puback i => s!"puback {i}"
  | .pubrec i => s!"pubrec {i}"
  | .pubrel d i => s!"pubrel {b01 d} {i}"
  | .pubcomp i => s!"pubcomp {i}"
  | .subscribe d i fs => s!"subscribe {b01 d} {i} {fmtTopicsQ fs}"
  | .suback i codes => s!"suback {i} {",".intercalate (codes.map toString)}"
  | .unsubscribe d i fs => s!"unsubscribe {b01 d} {i} {fmtTopics fs}"
  | .unsuback i => s!"unsuback {i}"
  | .pingreq => "pingreq"
  | .pingresp => "pingresp"
  | .disconnect => "disconnect"

/-- one codec command → one output line -/
def codec (toks : List String) : String :=
  match toks with
  | ["e16", v] => match v.toInt? with
    | some i => fmtExcept (encode16Int i)
    | none => "bad"
  | ["d16", h] => match unhex h with
    | some b => match decode16Int b with | .ok n => s!"ok {n}" | .error e => "err " ++ e.name
    | none => "bad"
  | ["elen", v] => match v.toNat? with
    | some n => "ok " ++ hex (encodeLength n)
    | none => "bad"
  | ["dlen", h] => match unhex h with
    | some b => s!"ok {decodeLength b}"
    | none => "bad"
  | ["estr", s] => match parsePyStr s with
    | .str s => fmtExcept (encodeString s)
    | _ => "err TypeError"
  | ["dstr", h] => match unhex h with
    | some b => match decodeString b with
      | .ok (s, r) => s!"ok {strHex s} {hex r}"
      | .error e => "err " ++ e.name
    | none => "bad"
  | "enc" :: "connect" :: rest => match parseConnect rest with
    | some f => fmtExcept f.encode
    | none => "bad"
  | ["enc", "connack", s, rc] => match rc.toNat? with
    | some rc => fmtExcept (ConnackF.mk (s == "1") rc).encode
    | none => "bad"
  | ["enc", "publish", topic, payload, qos, dup, retain, mid] =>
    match parseOptStr topic, qos.toNat? with
    | some t, some q =>
      fmtExcept (PublishF.encode ⟨t, parsePayload payload, q, dup == "1", retain == "1", mid.toInt?⟩)
    | _, _ => "bad"
  | ["enc", "subscribe", mid, ts] => match mid.toInt?, parseTopicsQ ts with
    | some m, some l => fmtExcept (SubscribeF.mk m l).encode
    | _, _ => "bad"
  | ["enc", "unsubscribe", mid, ts] => match mid.toInt?, parseTopics ts with
    | some m, some l => fmtExcept (UnsubscribeF.mk m l).encode
    | _, _ => "bad"
  | ["enc", "suback", mid, g] => match mid.toInt?, parseGranted g with
    | some m, some l => fmtExcept (SubackF.mk m l).encode
    | _, _ => "bad"
  | ["enc", kind, mid] => match mid.toInt? with
    | some m =>
      if kind == "puback" then fmtExcept (encodePUBACK m)
      else if kind == "pubrec" then fmtExcept (encodePUBREC m)
      else if kind == "pubrel" then fmtExcept (encodePUBREL m)
      else if kind == "pubcomp" then fmtExcept (encodePUBCOMP m)
      else if kind == "unsuback" then fmtExcept (encodeUNSUBACK m)
      else "bad"
    | none => "bad"
  | ["enc", "pingreq"] => "ok " ++ hex encodePINGREQ
  | ["enc", "pingres"] => "ok " ++ hex encodePINGRES
  | ["enc", "disconnect"] => "ok " ++ hex encodeDISCONNECT
  | ["dec", kind, h] => match unhex h with
    | none => "bad"
    | some b =>
      if kind == "connect" then match ConnectD.decode b with
        | .ok d => s!"ok s:{strHex d.clientId} {d.keepalive} {d.version.level} {b01 d.cleanStart} {optStrHex d.willTopic} {optStrHex d.willMessage} {optNat d.willQoS} {match d.willRetain with | none => "n" | some r => b01 r} {optStrHex d.username} {optBytesHex d.password}"
        | .error e => "err " ++ e.name
      else if kind == "connack" then match ConnackF.decode b with
        | .ok d => s!"ok {b01 d.session} {d.resultCode}"
        | .error e => "err " ++ e.name
      else if kind == "publish" then match PublishD.decode b with
        | .ok d => s!"ok s:{strHex d.topic} {hex d.payload} {d.qos} {b01 d.dup} {b01 d.retain} {optNat d.msgId}"
        | .error e => "err " ++ e.name
      else if kind == "subscribe" then match SubscribeF.decode b with
        | .ok d => s!"ok {d.msgId} {fmtTopicsQ d.topics}"
        | .error e => "err " ++ e.name
      else if kind == "unsubscribe" then match UnsubscribeF.decode b with
        | .ok d => s!"ok {d.msgId} {fmtTopics d.topics}"
        | .error e => "err " ++ e.name
      else if kind == "suback" then match SubackF.decode b with
        | .ok d => s!"ok {d.msgId} {fmtGranted d.granted}"
        | .error e => "err " ++ e.name
      else if kind == "pubrel" then match decodePUBREL b with
        | .ok (m, d) => s!"ok {m} {b01 d}"
        | .error e => "err " ++ e.name
      else if kind == "puback" || kind == "pubrec" || kind == "pubcomp" || kind == "unsuback" then
        match decodeAck b with
        | .ok m => s!"ok {m}"
        | .error e => "err " ++ e.name
      else "bad"
  | ["split", h] => match unhex h with
    | none => "bad"
    | some b =>
      let (ps, r) := splitPackets b
      s!"ok {",".intercalate (ps.map hex)} | {hex r}"
  | ["specdec", ver, h] => match unhex h with
    | none => "bad"
    | some b => match Spec.decode (specVerOf ver) b with
      | some p => "some " ++ fmtPacket p
      | none => "none"
  | ["specstream", ver, h] => match unhex h with
    | none => "bad"
    | some b => match Spec.decodeStream (specVerOf ver) b with
      | some ps => "some " ++ " ; ".intercalate (ps.map fmtPacket)
      | none => "none"
  | "specenc" :: ver :: "connect" :: rest => match parseConnect rest with
    | some f =>
      let will := match f.willTopic, f.willMessage with
        | some t, some m => some (Spec.Will.mk t m f.willQoS f.willRetain)
        | _, _ => none
      fmtOpt (Spec.encode (specVerOf ver) (.connect f.clientId f.keepalive.toNat f.cleanStart will f.username (f.password.map utf8)))
    | none => "bad"
  | ["specenc", ver, "connack", s, rc] => match rc.toNat? with
    | some rc => fmtOpt (Spec.encode (specVerOf ver) (.connack (s == "1") rc))
    | none => "bad"
  | ["specenc", ver, "publish", topic, payload, qos, dup, retain, mid] =>
    match parseOptStr topic, qos.toNat? with
    | some t, some q =>
      fmtOpt (Spec.encode (specVerOf ver) (.publish (dup == "1") q (retain == "1") t mid.toNat? (parsePayload payload).bytes))
    | _, _ => "bad"
  | ["specenc", ver, "subscribe", dup, mid, ts] => match mid.toNat?, parseTopicsQ ts with
    | some m, some l => fmtOpt (Spec.encode (specVerOf ver) (.subscribe (dup == "1") m l))
    | _, _ => "bad"
  | ["specenc", ver, "unsubscribe", dup, mid, ts] => match mid.toNat?, parseTopics ts with
    | some m, some l => fmtOpt (Spec.encode (specVerOf ver) (.unsubscribe (dup == "1") m l))
    | _, _ => "bad"
  | ["specenc", ver, "suback", mid, codes] => match mid.toNat? with
    | some m =>
      let cs := if codes == "-" then some [] else (codes.splitOn ",").mapM String.toNat?
      match cs with
      | some cs => fmtOpt (Spec.encode (specVerOf ver) (.suback m cs))
      | none => "bad"
    | none => "bad"
  | ["specenc", ver, "pubrel", dup, mid] => match mid.toNat? with
    | some m => fmtOpt (Spec.encode (specVerOf ver) (.pubrel (dup == "1") m))
    | none => "bad"
  | ["specenc", ver, kind, mid] => match mid.toNat? with
    | some m =>
      let v := specVerOf ver
      if kind == "puback" then fmtOpt (Spec.encode v (.puback m))
      else if kind == "pubrec" then fmtOpt (Spec.encode v (.pubrec m))
      else if kind == "pubcomp" then fmtOpt (Spec.encode v (.pubcomp m))
      else if kind == "unsuback" then fmtOpt (Spec.encode v (.unsuback m))
      else "bad"
    | none => "bad"
  | ["specenc", ver, "pingreq"] => fmtOpt (Spec.encode (specVerOf ver) .pingreq)
  | ["specenc", ver, "pingresp"] => fmtOpt (Spec.encode (specVerOf ver) .pingresp)
  | ["specenc", ver, "disconnect"] => fmtOpt (Spec.encode (specVerOf ver) .disconnect)
  | _ => "bad"

end Mqtt.Driver
