/-
  The table C14 prescribes, written from the property text (not from the state classes):
  which operation / inbound packet is honoured in which protocol state of which profile.
  Profiles: 1 = subscriber, 2 = publisher, 3 = both. States: 0 IDLE, 1 CONNECTING, 2 CONNECTED.
  Operation numbers as in Generated/Config.lean.
-/
namespace Mqtt.Spec

def pubCap (profile : Nat) : Bool := profile == 2 || profile == 3
def subCap (profile : Nat) : Bool := profile == 1 || profile == 3

/-- connect() only on an idle protocol; publish() only in publisher-capable profiles while connecting or
    connected; subscribe()/unsubscribe() only in subscriber-capable profiles while connected; disconnect()
    (and ping) only while connected; each broker packet only where its role lives. -/
def honoured (profile state op : Nat) : Bool :=
  match op with
  | 0 => state == 0                                   -- connect
  | 1 => state == 2                                   -- disconnect
  | 2 => subCap profile && state == 2                 -- subscribe
  | 3 => subCap profile && state == 2                 -- unsubscribe
  | 4 => pubCap profile && (state == 1 || state == 2) -- publish
  | 5 => state == 2                                   -- ping
  | 6 => state == 1                                   -- CONNACK
  | 7 => state == 2                                   -- PINGRESP
  | 8 => subCap profile && state == 2                 -- SUBACK
  | 9 => subCap profile && state == 2                 -- UNSUBACK
  | 10 => subCap profile && state == 2                -- PUBLISH
  | 11 => pubCap profile && state == 2                -- PUBACK
  | 12 => pubCap profile && state == 2                -- PUBREC
  | 13 => subCap profile && state == 2                -- PUBREL
  | 14 => pubCap profile && state == 2                -- PUBCOMP
  | _ => false

def dispatchTable : List (List (List Bool)) :=
  [1, 2, 3].map fun profile => [0, 1, 2].map fun state => (List.range 15).map fun op => honoured profile state op

end Mqtt.Spec
