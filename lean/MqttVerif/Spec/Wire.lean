import MqttVerif.Model.Basic
/-
  Reference wire format of MQTT 3.1.1 (OASIS Standard, 29 October 2014) and MQTT 3.1, written
  from the text of the standard and organised by its sections -- NOT from pdu.py.
  Arithmetic only (`/`, `%`, `*`, `+`); no bit operators; no recursion in the remaining-length codec.
  `encode` is total on representable packets; `decode` is strict: it accepts exactly the
  encodings of well-formed packets (reserved flag bits as prescribed, remaining length equal to the
  bytes present, every length-prefixed field inside the packet, valid UTF-8, non-zero packet ids).
-/
namespace Mqtt.Spec

inductive Ver where
  | v31 | v311
  deriving DecidableEq, Repr, Inhabited

/-- Last Will of a CONNECT (§3.1.2.5-7, §3.1.3.2-3) -/
structure Will where
  topic : String
  message : String
  qos : Nat
  retain : Bool
  deriving DecidableEq, Repr

/-- MQTT control packets (§3.1-§3.14) -/
inductive Packet where
  | connect (clientId : String) (keepAlive : Nat) (cleanSession : Bool) (will : Option Will)
      (userName : Option String) (password : Option Bytes)
  | connack (sessionPresent : Bool) (returnCode : Nat)
  | publish (dup : Bool) (qos : Nat) (retain : Bool) (topic : String) (packetId : Option Nat) (payload : Bytes)
  | puback (packetId : Nat)
  | pubrec (packetId : Nat)
  | pubrel (dup : Bool) (packetId : Nat)          -- DUP only exists in 3.1
  | pubcomp (packetId : Nat)
  | subscribe (dup : Bool) (packetId : Nat) (filters : List (String × Nat))
  | suback (packetId : Nat) (returnCodes : List Nat)
  | unsubscribe (dup : Bool) (packetId : Nat) (filters : List String)
  | unsuback (packetId : Nat)
  | pingreq
  | pingresp
  | disconnect
  deriving DecidableEq, Repr

/-! ### §1.5.2 / §1.5.3 data representations -/

/-- §1.5.2: 16-bit big-endian: MSB then LSB -/
def u16 (n : Nat) : Bytes := [n / 256, n % 256]

/-- §1.5.3: UTF-8 encoded string prefixed with its byte length; at most 65535 bytes -/
def str (s : String) : Option Bytes :=
  let b := utf8 s
  if b.length ≤ 65535 then some (u16 b.length ++ b) else none

/-- binary data with a two byte length prefix (password, §3.1.3.5) -/
def bin (b : Bytes) : Option Bytes :=
  if b.length ≤ 65535 then some (u16 b.length ++ b) else none

/-! ### §2.2.3 Remaining Length: Table 2.4 -/

/-- one to four base-128 digits, least significant first, continuation bit (128) on all but the last -/
def remLen (x : Nat) : Option Bytes :=
  if x < 128 then some [x]
  else if x < 16384 then some [x % 128 + 128, x / 128]
  else if x < 2097152 then some [x % 128 + 128, (x / 128) % 128 + 128, x / 16384]
  else if x < 268435456 then some [x % 128 + 128, (x / 128) % 128 + 128, (x / 16384) % 128 + 128, x / 2097152]
  else none

/-- read a Remaining Length field: value and the bytes after it; at most four bytes -/
def readRemLen : Bytes → Option (Nat × Bytes)
  | a :: r =>
    if a < 128 then some (a, r) else
    match r with
    | b :: r =>
      if b < 128 then some ((a - 128) + b * 128, r) else
      match r with
      | c :: r =>
        if c < 128 then some ((a - 128) + (b - 128) * 128 + c * 16384, r) else
        match r with
        | d :: r => if d < 128 then some ((a - 128) + (b - 128) * 128 + (c - 128) * 16384 + d * 2097152, r) else none
        | [] => none
      | [] => none
    | [] => none
  | [] => none

/-! ### §2.2 fixed header: packet type and flags (Table 2.1, Table 2.2) -/

def bit (b : Bool) : Nat := if b then 1 else 0

/-- first byte = type * 16 + flags -/
def fixedHeader (type flags : Nat) (body : Bytes) : Option Bytes := do
  let rl ← remLen body.length
  pure ([type * 16 + flags] ++ rl ++ body)

/-- flags of PUBREL / SUBSCRIBE / UNSUBSCRIBE: 3.1.1 reserves 0010; 3.1 has DUP (bit 3) and QoS 1 -/
def ackFlags (v : Ver) (dup : Bool) : Option Nat :=
  match v with
  | .v311 => if dup then none else some 2
  | .v31 => some (bit dup * 8 + 2)

def protocolName : Ver → String
  | .v31 => "MQIsdp"
  | .v311 => "MQTT"

def protocolLevel : Ver → Nat
  | .v31 => 3
  | .v311 => 4

def optStr : Option String → Option Bytes
  | none => some []
  | some s => str s

def optBin : Option Bytes → Option Bytes
  | none => some []
  | some b => bin b

def filtersQ : List (String × Nat) → Option Bytes
  | [] => some []
  | (t, q) :: rest => do
    let e ← str t
    let r ← filtersQ rest
    if q ≤ 2 then pure (e ++ [q] ++ r) else none

def filters : List String → Option Bytes
  | [] => some []
  | t :: rest => do
    let e ← str t
    let r ← filters rest
    pure (e ++ r)

def validId (n : Nat) : Bool := 1 ≤ n && n ≤ 65535

/-- §3: the bytes of a control packet; `none` when the packet is not representable -/
def encode (v : Ver) : Packet → Option Bytes
  | .connect cid ka clean will user pass => do
    -- §3.1.2: protocol name, level, connect flags, keep alive
    let name ← str (protocolName v)
    if ka > 65535 then none else
    if user.isNone && pass.isSome then none else       -- [MQTT-3.1.2-22]
    let willBits ← match will with
      | none => some 0
      | some w => if w.qos ≤ 2 then some (4 + w.qos * 8 + bit w.retain * 32) else none
    let flags := bit clean * 2 + willBits + bit pass.isSome * 64 + bit user.isSome * 128
    -- §3.1.3 payload: client id, will topic, will message, user name, password
    let c ← str cid
    let wb ← match will with
      | none => some []
      | some w => do
        let t ← str w.topic
        let m ← str w.message
        pure (t ++ m)
    let u ← optStr user
    let p ← optBin pass
    fixedHeader 1 0 (name ++ [protocolLevel v] ++ [flags] ++ u16 ka ++ c ++ wb ++ u ++ p)
  | .connack sp rc => if rc < 256 then fixedHeader 2 0 [bit sp, rc] else none
  | .publish dup qos retain topic pid payload => do
    let t ← str topic
    if qos > 2 then none else
    let idb ← match qos, pid with
      | 0, none => if dup then none else some []       -- [MQTT-3.3.1-2], §2.3.1
      | 0, some _ => none
      | _, some i => if validId i then some (u16 i) else none
      | _, none => none
    fixedHeader 3 (bit dup * 8 + qos * 2 + bit retain) (t ++ idb ++ payload)
  | .puback i => if validId i then fixedHeader 4 0 (u16 i) else none
  | .pubrec i => if validId i then fixedHeader 5 0 (u16 i) else none
  | .pubrel dup i => do
    let f ← ackFlags v dup
    if validId i then fixedHeader 6 f (u16 i) else none
  | .pubcomp i => if validId i then fixedHeader 7 0 (u16 i) else none
  | .subscribe dup i fs => do
    let f ← ackFlags v dup
    let body ← filtersQ fs
    if validId i && !fs.isEmpty then fixedHeader 8 f (u16 i ++ body) else none      -- [MQTT-3.8.3-3]
  | .suback i codes =>
    if validId i && codes.all (fun c => c ≤ 2 || c == 128) then fixedHeader 9 0 (u16 i ++ codes) else none
  | .unsubscribe dup i fs => do
    let f ← ackFlags v dup
    let body ← filters fs
    if validId i && !fs.isEmpty then fixedHeader 10 f (u16 i ++ body) else none     -- [MQTT-3.10.3-2]
  | .unsuback i => if validId i then fixedHeader 11 0 (u16 i) else none
  | .pingreq => fixedHeader 12 0 []
  | .pingresp => fixedHeader 13 0 []
  | .disconnect => fixedHeader 14 0 []

/-! ### strict decoding -/

def readU16 : Bytes → Option (Nat × Bytes)
  | a :: b :: r => if a < 256 ∧ b < 256 then some (a * 256 + b, r) else none
  | _ => none

def readBin (bs : Bytes) : Option (Bytes × Bytes) := do
  let (n, r) ← readU16 bs
  if r.length < n then none else some (r.take n, r.drop n)

def readStr (bs : Bytes) : Option (String × Bytes) := do
  let (b, r) ← readBin bs
  let s ← fromUtf8? b
  pure (s, r)

def readId (bs : Bytes) : Option (Nat × Bytes) := do
  let (i, r) ← readU16 bs
  if validId i then some (i, r) else none

def readFiltersQ : Nat → Bytes → Option (List (String × Nat))
  | 0, _ => none
  | fuel + 1, bs =>
    if bs.isEmpty then some [] else do
      let (t, r) ← readStr bs
      match r with
      | q :: r => if q ≤ 2 then (readFiltersQ fuel r).map ((t, q) :: ·) else none
      | [] => none

def readFilters : Nat → Bytes → Option (List String)
  | 0, _ => none
  | fuel + 1, bs =>
    if bs.isEmpty then some [] else do
      let (t, r) ← readStr bs
      (readFilters fuel r).map (t :: ·)

/-- decode one packet from its first byte and its body (the bytes counted by the remaining length) -/
def decodeBody (v : Ver) (first : Nat) (body : Bytes) : Option Packet :=
  let type := first / 16
  let flags := first % 16
  let idOnly (mk : Nat → Packet) : Option Packet := do
    let (i, r) ← readId body
    if r.isEmpty then some (mk i) else none
  let dupOf : Option Bool :=
    match v with
    | .v311 => if flags == 2 then some false else none
    | .v31 => if flags == 2 then some false else if flags == 10 then some true else none
  if first ≥ 256 then none else
  match type with
  | 1 => do
    if flags != 0 then none else
    let (name, r) ← readStr body
    if name != protocolName v then none else
    match r with
    | level :: cf :: r =>
      if level != protocolLevel v || cf ≥ 256 || cf % 2 != 0 then none else
      let clean := (cf / 2) % 2 == 1
      let willFlag := (cf / 4) % 2 == 1
      let willQos := (cf / 8) % 4
      let willRetain := (cf / 32) % 2 == 1
      let passFlag := (cf / 64) % 2 == 1
      let userFlag := (cf / 128) % 2 == 1
      if !willFlag && (willQos != 0 || willRetain) then none else
      if willQos > 2 then none else
      if !userFlag && passFlag then none else do
      let (ka, r) ← readU16 r
      let (cid, r) ← readStr r
      let (will, r) ← if willFlag then do
          let (t, r) ← readStr r
          let (m, r) ← readStr r
          pure (some (Will.mk t m willQos willRetain), r)
        else pure (none, r)
      let (user, r) ← if userFlag then do
          let (u, r) ← readStr r
          pure (some u, r)
        else pure (none, r)
      let (pass, r) ← if passFlag then do
          let (p, r) ← readBin r
          pure (some p, r)
        else pure (none, r)
      if r.isEmpty then some (.connect cid ka clean will user pass) else none
    | _ => none
  | 2 =>
    match body with
    | [a, rc] => if flags == 0 && a ≤ 1 && rc < 256 then some (.connack (a == 1) rc) else none
    | _ => none
  | 3 => do
    let dup := flags / 8 == 1
    let qos := (flags / 2) % 4
    let retain := flags % 2 == 1
    if qos > 2 || (qos == 0 && dup) then none else
    let (topic, r) ← readStr body
    if qos == 0 then
      if r.all (· < 256) then some (.publish dup qos retain topic none r) else none
    else do
      let (i, r) ← readId r
      if r.all (· < 256) then some (.publish dup qos retain topic (some i) r) else none
  | 4 => if flags == 0 then idOnly .puback else none
  | 5 => if flags == 0 then idOnly .pubrec else none
  | 6 => do
    let d ← dupOf
    idOnly (.pubrel d)
  | 7 => if flags == 0 then idOnly .pubcomp else none
  | 8 => do
    let d ← dupOf
    let (i, r) ← readId body
    let fs ← readFiltersQ (r.length + 1) r
    if fs.isEmpty then none else some (.subscribe d i fs)
  | 9 => do
    if flags != 0 then none else
    let (i, r) ← readId body
    if r.all (fun c => c ≤ 2 || c == 128) then some (.suback i r) else none
  | 10 => do
    let d ← dupOf
    let (i, r) ← readId body
    let fs ← readFilters (r.length + 1) r
    if fs.isEmpty then none else some (.unsubscribe d i fs)
  | 11 => if flags == 0 then idOnly .unsuback else none
  | 12 => if flags == 0 && body.isEmpty then some .pingreq else none
  | 13 => if flags == 0 && body.isEmpty then some .pingresp else none
  | 14 => if flags == 0 && body.isEmpty then some .disconnect else none
  | _ => none

/-- the first packet of a byte stream: its first byte, its body, and the rest of the stream;
    `none` when the stream does not start with a complete packet -/
def splitFirst : Bytes → Option (Nat × Bytes × Bytes)
  | [] => none
  | first :: r => do
    let (n, r) ← readRemLen r
    if r.length < n then none else some (first, r.take n, r.drop n)

/-- strict decoder of exactly one packet -/
def decode (v : Ver) (bs : Bytes) : Option Packet := do
  let (first, body, rest) ← splitFirst bs
  if rest.isEmpty then decodeBody v first body else none

/-- split a complete byte stream into packets (fuel: a packet has at least two bytes) -/
def decodeStreamAux (v : Ver) : Nat → Bytes → Option (List Packet)
  | 0, bs => if bs.isEmpty then some [] else none
  | fuel + 1, bs =>
    if bs.isEmpty then some [] else do
      let (first, body, rest) ← splitFirst bs
      let p ← decodeBody v first body
      let ps ← decodeStreamAux v fuel rest
      pure (p :: ps)

/-- `some ps` iff the bytes are exactly a sequence of well-formed packets -/
def decodeStream (v : Ver) (bs : Bytes) : Option (List Packet) := decodeStreamAux v bs.length bs

/-- packets a client may send (Table 2.1, direction of flow) -/
def Packet.clientToServer : Packet → Bool
  | .connect .. | .publish .. | .puback .. | .pubrec .. | .pubrel .. | .pubcomp .. | .subscribe ..
  | .unsubscribe .. | .pingreq | .disconnect => true
  | _ => false

/-- packets a server may send -/
def Packet.serverToClient : Packet → Bool
  | .connack .. | .publish .. | .puback .. | .pubrec .. | .pubrel .. | .pubcomp .. | .suback ..
  | .unsuback .. | .pingresp => true
  | _ => false

end Mqtt.Spec
