import MqttVerif.Proofs.Heads
/-
  C18: "nothing is written before connect() is called, the first packet is CONNECT".  `Clean p w`: protocol `p` is idle and no
  pending DelayedCall of the table is a keepalive or retransmission callback of `p`.  From a clean state only `connect()` on `p` makes the
  client write on `p`'s transport, and the first thing it writes is the CONNECT; every other operation -- on `p` (refused or ignored by
  the idle state) or on any other protocol -- leaves `p` clean and writes nothing on `p`'s transport.  No invariant, no `Env`.
-/
namespace Mqtt

def onP (p : Nat) : Obs → Bool
  | .write q _ => q == p
  | _ => false
/-- no packet for `p`'s transport among these observations -/
def NoW (p : Nat) (l : List Obs) : Prop := ∀ o, o ∈ l → onP p o = false
/-- the first packet for `p`'s transport among these observations is a CONNECT -/
def FirstC (p : Nat) (l : List Obs) : Prop := ∃ pre bs post, l = pre ++ Obs.write p bs :: post ∧ NoW p pre ∧ isConnect bs = true

theorem NoW.nil (p : Nat) : NoW p [] := fun _ h => by cases h
theorem NoW.append {p : Nat} {a b : List Obs} (ha : NoW p a) (hb : NoW p b) : NoW p (a ++ b) := fun o ho =>
  (List.mem_append.mp ho).elim (ha o) (hb o)
theorem FirstC.append_right {p : Nat} {a : List Obs} (h : FirstC p a) (b : List Obs) : FirstC p (a ++ b) := by
  obtain ⟨pre, bs, post, rfl, h1, h2⟩ := h
  exact ⟨pre, bs, post ++ b, by simp, h1, h2⟩
theorem FirstC.append_left {p : Nat} {a b : List Obs} (ha : NoW p a) (h : FirstC p b) : FirstC p (a ++ b) := by
  obtain ⟨pre, bs, post, rfl, h1, h2⟩ := h
  exact ⟨a ++ pre, bs, post, by simp, ha.append h1, h2⟩

/-- a keepalive or retransmission callback of protocol `p` -/
def TKind.of (p : Nat) : TKind → Prop
  | .pingLoop q | .pingAlarm q | .retry q _ => q = p
  | _ => False

structure Clean (p : Nat) (w : World) : Prop where
  idle : (w.proto p).state = .idle
  noTimer : ∀ t tm, w.timers.get? t = some tm → tm.status = .pending → ¬ tm.kind.of p

/-- unconditionally nothing for `p`'s transport, and `p` stays clean if it was -/
def OA (p : Nat) (s : Step) : Prop := ∀ w, ∃ l, (s w).1.log = w.log ++ l ∧ NoW p l ∧ (Clean p w → Clean p (s w).1)

section oa
variable {p : Nat}

theorem oa_ok : OA p Step.ok := fun _ => ⟨[], by simp [Step.ok], NoW.nil p, fun h => h⟩
theorem oa_raise (e : Err) : OA p (Step.raise e) := fun _ => ⟨[], by simp [Step.raise], NoW.nil p, fun h => h⟩
theorem oa_seq {a b : Step} (ha : OA p a) (hb : OA p b) : OA p (a ;; b) := by
  intro w
  obtain ⟨l1, a1, a2, a3⟩ := ha w
  simp only [Step.seq]
  rcases hw : a w with ⟨w1, _ | e⟩
  · rw [hw] at a1 a3
    obtain ⟨l2, b1, b2, b3⟩ := hb w1
    exact ⟨l1 ++ l2, by rw [b1, a1, List.append_assoc], a2.append b2, fun h => b3 (a3 h)⟩
  · rw [hw] at a1 a3; exact ⟨l1, a1, a2, a3⟩
theorem oa_read {f : World → Step} (hf : ∀ w, OA p (f w)) : OA p (Step.read f) := fun w => hf w w
theorem oa_mod {f : World → World} (h1 : ∀ w, (f w).log = w.log) (h2 : ∀ w, (f w).protos = w.protos) (h3 : ∀ w, (f w).timers = w.timers) :
    OA p (Step.mod f) := fun w =>
  ⟨[], by simp [Step.mod, h1 w], NoW.nil p, fun h => ⟨by show ((f w).proto p).state = _; simp only [World.proto, h2]; exact h.idle,
    fun t tm ht => h.noTimer t tm (by have := ht; simp only [Step.mod] at this; rw [h3] at this; exact this)⟩⟩
theorem oa_emit (o : Obs) (ho : onP p o = false) : OA p (emit o) := fun w =>
  ⟨[o], rfl, fun o' h' => by rw [List.mem_singleton.mp h']; exact ho, fun h => ⟨h.idle, h.noTimer⟩⟩
theorem oa_write (q : Nat) (bs : Bytes) (hq : q ≠ p) : OA p (write q bs) := oa_emit _ (by simp [onP, hq])
theorem oa_abort (q : Nat) : OA p (abort q) := oa_emit _ rfl
theorem oa_setEnts (g : List Ent → List Ent) : OA p (setEnts g) := oa_mod (fun _ => rfl) (fun _ => rfl) (fun _ => rfl)
theorem oa_setReq (r : Nat) (g : Req → Req) : OA p (setReq r g) := oa_mod (fun _ => rfl) (fun _ => rfl) (fun _ => rfl)
/-- a protocol object is written: another one, or `p`'s without leaving the idle state -/
theorem oa_setProto (q : Nat) (g : Proto → Proto) (hg : q = p → ∀ pr, pr.state = .idle → (g pr).state = .idle) : OA p (setProto q g) := fun w =>
  ⟨[], by simp [setProto, Step.mod], NoW.nil p, fun h => ⟨by
    show (({ w with protos := w.protos.set q (g (w.proto q)) } : World).proto p).state = .idle
    simp only [World.proto, Dict.get?_set]
    split
    · rename_i he; subst he
      exact hg rfl _ h.idle
    · exact h.idle, h.noTimer⟩⟩
theorem oa_callLater (d : Rat) (k : TKind) (hk : ¬ k.of p) {f : Nat → Step} (hf : ∀ t, OA p (f t)) : OA p (callLater d k f) := by
  refine oa_read fun w0 => oa_seq (fun w => ?_) (hf _)
  refine ⟨[], by simp [Step.mod], NoW.nil p, fun h => ⟨h.idle, fun t tm ht => ?_⟩⟩
  have ht' : ((w.callLater d k).1).timers.get? t = some tm := ht
  simp only [callLater_timers, Dict.get?_set] at ht'
  split at ht'
  · injection ht' with ht'; subst ht'; exact fun _ => hk
  · exact h.noTimer t tm ht'
theorem oa_newDfd {f : Nat → Step} (hf : ∀ t, OA p (f t)) : OA p (newDfd f) :=
  oa_read fun _ => oa_seq (oa_mod (fun _ => rfl) (fun _ => rfl) (fun _ => rfl)) (hf _)
theorem oa_makeId {f : Nat → Step} (hf : ∀ t, OA p (f t)) : OA p (makeId f) :=
  oa_read fun _ => oa_seq (oa_mod (fun _ => rfl) (fun _ => rfl) (fun _ => rfl)) (hf _)
theorem oa_cancelTimer (t : Nat) : OA p (cancelTimer t) := by
  intro w
  show ∃ l, ((match w.timers.get? t with
    | none => Step.raise .attribute
    | some tm =>
      match tm.status with
      | .pending => Step.mod fun w => { w with timers := w.timers.set t { tm with status := .cancelled } }
      | .called => Step.raise .alreadyCalled
      | .cancelled => Step.raise .alreadyCancelled) w).1.log = w.log ++ l ∧ NoW p l ∧ (Clean p w → Clean p ((match w.timers.get? t with
    | none => Step.raise .attribute
    | some tm =>
      match tm.status with
      | .pending => Step.mod fun w => { w with timers := w.timers.set t { tm with status := .cancelled } }
      | .called => Step.raise .alreadyCalled
      | .cancelled => Step.raise .alreadyCancelled) w).1)
  cases ht : w.timers.get? t with
  | none => exact oa_raise _ w
  | some tm0 =>
    dsimp only
    cases hs : tm0.status with
    | pending =>
      refine ⟨[], by simp [Step.mod], NoW.nil p, fun h => ⟨h.idle, fun t' tm' ht' => ?_⟩⟩
      have ht'' : (w.timers.set t { tm0 with status := .cancelled }).get? t' = some tm' := ht'
      simp only [Dict.get?_set] at ht''
      split at ht''
      · injection ht'' with ht''; subst ht''
        intro hp; cases hp
      · exact h.noTimer t' tm' ht''
    | called => exact oa_raise _ w
    | cancelled => exact oa_raise _ w
theorem oa_cancelAlarm (a : Option Nat) : OA p (cancelAlarm a) := by
  cases a with
  | none => exact oa_raise _
  | some t => exact oa_cancelTimer t
theorem oa_fireDfd (d : Nat) (o : Outcome) : OA p (fireDfd d o) := by
  refine oa_read fun w => ?_
  split
  · exact oa_raise _
  · exact oa_seq (oa_mod (fun _ => rfl) (fun _ => rfl) (fun _ => rfl)) (oa_emit _ rfl)
theorem oa_fireReqDfd (d : Option Nat) (o : Outcome) : OA p (fireReqDfd d o) := by
  cases d with
  | none => exact oa_raise _
  | some d => exact oa_fireDfd d o
theorem oa_forEach {α : Type} (l : List α) {f : α → Step} (hf : ∀ a, OA p (f a)) : OA p (forEach l f) := by
  induction l with
  | nil => exact oa_ok
  | cons a r ih => exact oa_seq (hf a) ih
theorem oa_deliver (q : Nat) (m : RxMsg) : OA p (deliver q m) := by
  refine oa_read fun w => ?_
  split
  · exact oa_emit _ rfl
  · exact oa_ok

/-! ### the retransmission helpers, run by another protocol -/

def OAW (p : Nat) (f : World → World) : Prop := ∀ w, ∃ l, (f w).log = w.log ++ l ∧ NoW p l ∧ (Clean p w → Clean p (f w))
theorem OAW.id : OAW p (fun w => w) := fun _ => ⟨[], by simp, NoW.nil p, fun h => h⟩
theorem OAW.comp {f g : World → World} (hf : OAW p f) (hg : OAW p g) : OAW p (fun w => g (f w)) := by
  intro w
  obtain ⟨l1, a1, a2, a3⟩ := hf w
  obtain ⟨l2, b1, b2, b3⟩ := hg (f w)
  exact ⟨l1 ++ l2, by rw [b1, a1, List.append_assoc], a2.append b2, fun h => b3 (a3 h)⟩
theorem oa_modW {f : World → World} (hf : OAW p f) : OA p (Step.mod f) := fun w => hf w

theorem oaw_retry {q rid : Nat} (hq : q ≠ p) {f : World → World}
    (h1 : ∀ w, ∃ bs, (f w).log = w.log ++ [.write q bs]) (h2 : ∀ w, (f w).protos = w.protos)
    (h3 : ∀ w, (f w).timers = w.timers ∨ ∃ due, (f w).timers = w.timers.set w.nextTimer ⟨due, .retry q rid, .pending⟩) : OAW p f := by
  intro w
  obtain ⟨bs, hl⟩ := h1 w
  refine ⟨[.write q bs], hl, fun o ho => by rw [List.mem_singleton.mp ho]; simp [onP, hq], fun h => ⟨?_, fun t tm ht => ?_⟩⟩
  · simp only [World.proto, h2]; exact h.idle
  · rcases h3 w with h3 | ⟨due, h3⟩
    · exact h.noTimer t tm (by rw [← h3]; exact ht)
    · rw [h3, Dict.get?_set] at ht
      split at ht
      · injection ht with ht; subst ht; exact fun _ => hq
      · exact h.noTimer t tm ht
theorem retryPublishW_oaw (q rid : Nat) (dup : Bool) (hq : q ≠ p) : OAW p (retryPublishW q rid dup) :=
  oaw_retry (rid := rid) hq (fun w => by simp only [retryPublishW]; split <;> exact ⟨_, rfl⟩) (retryPublishW_protos q rid dup)
    (fun w => by simp only [retryPublishW]; split
                 · exact Or.inr ⟨_, rfl⟩
                 · exact Or.inl rfl)
theorem retryReleaseW_oaw (q rid : Nat) (dup : Bool) (hq : q ≠ p) : OAW p (retryReleaseW q rid dup) :=
  oaw_retry (rid := rid) hq (fun w => by simp only [retryReleaseW]; split <;> exact ⟨_, rfl⟩) (retryReleaseW_protos q rid dup)
    (fun w => by simp only [retryReleaseW]; split <;> exact Or.inr ⟨_, rfl⟩)
theorem retrySubUnsubW_oaw (q rid : Nat) (dup s : Bool) (hq : q ≠ p) : OAW p (retrySubUnsubW q rid dup s) :=
  oaw_retry (rid := rid) hq (fun w => by simp only [retrySubUnsubW]; split <;> exact ⟨_, rfl⟩) (retrySubUnsubW_protos q rid dup s)
    (fun w => by simp only [retrySubUnsubW]; split <;> exact Or.inr ⟨_, rfl⟩)
theorem refillW_oaw (q : Nat) (dup : Bool) (hq : q ≠ p) (fuel : Nat) : OAW p (refillW q dup fuel) := by
  induction fuel with
  | zero => exact OAW.id
  | succ f ih =>
    intro w
    simp only [refillW]
    split
    · exact OAW.id w
    · rename_i e _ _
      split
      · have h1 : OAW p (fun w' : World => if (w.req e.rid).msgId ≠ 0 then
            (w'.setEnts fun es => Ents.dropFirst es (w.paddr q) .queue).setEnts fun es => Ents.insert es (w.paddr q) .pub (w.req e.rid).msgId e.rid
            else w'.setEnts fun es => Ents.dropFirst es (w.paddr q) .queue) := by
          intro w'; split <;> exact ⟨[], by simp, NoW.nil p, fun h => ⟨h.idle, h.noTimer⟩⟩
        exact (h1.comp ((retryPublishW_oaw q e.rid dup hq).comp ih)) w
      · exact OAW.id w
theorem foldl_oaw (l : List Ent) (f : World → Ent → World) (hf : ∀ e, OAW p (fun w => f w e)) : OAW p (fun w => l.foldl f w) := by
  induction l with
  | nil => exact OAW.id
  | cons e r ih => exact (hf e).comp ih
theorem syncW_oaw (q : Nat) (hq : q ≠ p) : OAW p (syncW q) := by
  intro w
  simp only [syncW]
  have h1 := foldl_oaw (p := p) (Ents.items w.ents (w.paddr q) .rel)
    (fun w e => if (w.req e.rid).alarm = none then retryReleaseW q e.rid true w else w)
    (fun e w' => by
      by_cases hc : (w'.req e.rid).alarm = none
      · simp only [hc, ↓reduceIte]; exact retryReleaseW_oaw q e.rid true hq w'
      · simp only [hc, ↓reduceIte]; exact OAW.id w')
  obtain ⟨w1, hw1⟩ : ∃ w1, w1 = (Ents.items w.ents (w.paddr q) .rel).foldl
    (fun w e => if (w.req e.rid).alarm = none then retryReleaseW q e.rid true w else w) w := ⟨_, rfl⟩
  have h2 := foldl_oaw (p := p) (Ents.items w1.ents (w1.paddr q) .pub)
    (fun w e => if (w.req e.rid).alarm = none then retryPublishW q e.rid true w else w)
    (fun e w' => by
      by_cases hc : (w'.req e.rid).alarm = none
      · simp only [hc, ↓reduceIte]; exact retryPublishW_oaw q e.rid true hq w'
      · simp only [hc, ↓reduceIte]; exact OAW.id w')
  obtain ⟨l1, a1, a2, a3⟩ := h1 w
  dsimp only at a1 a3
  rw [← hw1] at a1 a3 ⊢
  obtain ⟨l2, b1, b2, b3⟩ := h2 w1
  exact ⟨l1 ++ l2, by rw [b1, a1, List.append_assoc], a2.append b2, fun h => b3 (a3 h)⟩


theorem oa_refill (q : Nat) (hq : q ≠ p) : OA p (refill q) := fun w => refillW_oaw q false hq _ w
theorem oa_syncSession (q : Nat) (hq : q ≠ p) : OA p (syncSession q) := oa_modW (syncW_oaw q hq)
theorem oa_retryPublish (q rid : Nat) (dup : Bool) (hq : q ≠ p) : OA p (retryPublish q rid dup) := oa_modW (retryPublishW_oaw q rid dup hq)
theorem oa_retryRelease (q rid : Nat) (dup : Bool) (hq : q ≠ p) : OA p (retryRelease q rid dup) := oa_modW (retryReleaseW_oaw q rid dup hq)
theorem oa_retrySubUnsub (q rid : Nat) (dup s : Bool) (hq : q ≠ p) : OA p (retrySubUnsub q rid dup s) := oa_modW (retrySubUnsubW_oaw q rid dup s hq)

macro "oa_step" : tactic => `(tactic| first
  | with_reducible exact oa_ok | with_reducible exact oa_raise _ | with_reducible exact oa_abort _
  | with_reducible exact oa_setEnts _ | with_reducible exact oa_setReq _ _
  | with_reducible exact oa_cancelTimer _ | with_reducible exact oa_cancelAlarm _
  | with_reducible exact oa_fireDfd _ _ | with_reducible exact oa_fireReqDfd _ _
  | with_reducible exact oa_deliver _ _
  | with_reducible exact oa_write _ _ ‹_ ≠ _›
  | with_reducible exact oa_setProto _ _ (fun h => absurd h ‹_ ≠ _›)
  | with_reducible exact oa_setProto _ _ (fun _ _ h => h)
  | with_reducible exact oa_refill _ ‹_ ≠ _› | with_reducible exact oa_syncSession _ ‹_ ≠ _›
  | with_reducible exact oa_retryPublish _ _ _ ‹_ ≠ _› | with_reducible exact oa_retryRelease _ _ _ ‹_ ≠ _›
  | with_reducible exact oa_retrySubUnsub _ _ _ _ ‹_ ≠ _›
  | ((with_reducible apply oa_emit); rfl)
  | ((with_reducible apply oa_mod) <;> (intro w; rfl))
  | with_reducible apply oa_seq | ((with_reducible apply oa_read); intro w)
  | ((with_reducible apply oa_callLater); (first | exact (fun h => h) | exact ‹_ ≠ _›); intro t)
  | ((with_reducible apply oa_newDfd); intro t) | ((with_reducible apply oa_makeId); intro t)
  | ((with_reducible apply oa_forEach); intro e)
  | split
  | dsimp only)
macro "oas" : tactic => `(tactic| repeat oa_step)

theorem oa_drainQueue (q : Nat) (r : Err) (fuel : Nat) : OA p (drainQueue q r fuel) := by
  induction fuel with
  | zero => exact oa_ok
  | succ f ih =>
    unfold drainQueue
    refine oa_read fun w => ?_
    split
    · exact oa_ok
    · apply oa_seq (oa_setEnts _)
      apply oa_seq
      · split
        · exact oa_fireReqDfd _ _
        · exact oa_ok
      · exact ih
theorem oa_loopStop (q : Nat) : OA p (loopStop q) := by unfold loopStop; oas
theorem oa_cancelWindowAlarms (l : List Ent) : OA p (cancelWindowAlarms l) := by unfold cancelWindowAlarms; oas
theorem oa_failWindow (q : Nat) (s : Bool) (r : Err) : OA p (failWindow q s r) := by unfold failWindow; oas
theorem oa_purgeSession (q : Nat) (r : Err) : OA p (purgeSession q r) := by unfold purgeSession purgeWindow; oas
theorem oa_doConnectionLost (q : Nat) (r : Err) : OA p (doConnectionLost q r) := by
  unfold doConnectionLost
  refine oa_read fun w => ?_
  refine oa_seq (oa_cancelWindowAlarms _) (oa_seq (oa_cancelWindowAlarms _) (oa_seq (oa_cancelWindowAlarms _) (oa_seq (oa_cancelWindowAlarms _)
    (oa_seq (oa_failWindow _ _ _) (oa_seq (oa_failWindow _ _ _) ?_)))))
  refine oa_read fun w' => ?_
  split
  · exact oa_seq (oa_purgeSession _ _) (oa_read fun _ => oa_drainQueue _ _ _)
  · exact oa_ok
/-- the report of a loss -- of `p`'s connection or any other -- writes nothing and leaves a clean `p` clean -/
theorem oa_connectionLost (q : Nat) (r : Err) : OA p (connectionLost q r) := by
  unfold connectionLost
  refine oa_read fun w => ?_
  apply oa_seq
  · split
    · exact oa_ok
    · exact oa_seq (oa_loopStop _) (oa_setProto _ _ (fun _ _ h => h))
  apply oa_seq
  · split
    · exact oa_ok
    · exact oa_seq (oa_cancelTimer _) (oa_setProto _ _ (fun _ _ h => h))
  apply oa_seq (oa_doConnectionLost q r)
  apply oa_seq (oa_setProto _ _ (fun _ _ _ => rfl))
  refine oa_read fun w' => ?_
  split
  · exact oa_callLater _ _ (by intro h; exact h) fun _ => oa_ok
  · exact oa_ok

set_option linter.unusedSectionVars false
section other
variable {q : Nat} (hq : q ≠ p)
include hq

theorem oa_doPingRequest : OA p (doPingRequest q) := by unfold doPingRequest; oas
theorem oa_loopRun : OA p (loopRun q) := by
  intro w
  have h1 : OA p (ping q) := by
    unfold ping
    refine oa_read fun w => ?_
    split
    · exact oa_doPingRequest hq
    · exact oa_raise _
  obtain ⟨l1, a1, a2, a3⟩ := h1 w
  unfold loopRun
  rcases hp : ping q w with ⟨w1, _ | e⟩
  · rw [hp] at a1 a3
    simp only
    have : OA p (Step.read fun w =>
      match (w.proto q).pingTimer with
      | some l =>
        if l.running then
          callLater l.interval (.pingLoop q) fun tid =>
            setProto q (fun pr => { pr with pingTimer := (pr.pingTimer.map fun l => { l with call := some tid }) })
        else Step.ok
      | none => Step.ok) := by oas
    obtain ⟨l2, b1, b2, b3⟩ := this w1
    exact ⟨l1 ++ l2, b1.trans (by rw [a1, List.append_assoc]), a2.append b2, fun h => b3 (a3 h)⟩
  · rw [hp] at a1 a3
    simp only
    obtain ⟨l2, b1, b2, b3⟩ := oa_setProto (p := p) q (fun pr => { pr with pingTimer := (pr.pingTimer.map fun l => { l with running := false, call := none }) })
      (fun h => absurd h hq) w1
    exact ⟨l1 ++ l2, b1.trans (by rw [a1, List.append_assoc]), a2.append b2, fun h => b3 (a3 h)⟩
theorem oa_mqttConnectionMade : OA p (mqttConnectionMade q) := by
  unfold mqttConnectionMade
  refine oa_read fun w => ?_
  refine oa_seq ?_ (oa_seq (oa_refill _ hq) ?_)
  · split
    · exact oa_purgeSession _ _
    · exact oa_syncSession _ hq
  · oas
theorem oa_handleCONNACK (session : Bool) (rc : Nat) : OA p (handleCONNACK q session rc) := by
  unfold handleCONNACK
  refine oa_read fun w => ?_
  split
  · exact oa_raise _
  · split
    · exact oa_raise _
    · split
      · exact oa_ok
      · refine oa_seq (oa_cancelTimer _) (oa_seq ?_ (oa_setProto _ _ (fun h => absurd h hq)))
        split
        · refine oa_seq (oa_setProto _ _ (fun h => absurd h hq)) (oa_seq (oa_mqttConnectionMade hq) (oa_seq ?_ (oa_fireDfd _ _)))
          split
          · exact oa_seq (oa_setProto _ _ (fun h => absurd h hq)) (oa_loopRun hq)
          · exact oa_ok
        · exact oa_seq (oa_setProto _ _ (fun h => absurd h hq)) (oa_fireDfd _ _)
theorem oa_handlePINGRESP : OA p (handlePINGRESP q) := by unfold handlePINGRESP; oas
theorem oa_handleSubUnsubAck (b : Bool) (m : Nat) (v : Val) : OA p (handleSubUnsubAck q b m v) := by unfold handleSubUnsubAck; oas
theorem oa_handlePUBACK (m : Nat) : OA p (handlePUBACK q m) := by unfold handlePUBACK; oas
theorem oa_handlePUBCOMP (m : Nat) : OA p (handlePUBCOMP q m) := by unfold handlePUBCOMP; oas
theorem oa_handlePUBLISH (m : RxMsg) : OA p (handlePUBLISH q m) := by
  unfold handlePUBLISH
  split
  · exact oa_deliver _ _
  · split
    · split
      · exact oa_seq (oa_write _ _ hq) (oa_deliver _ _)
      · exact oa_raise _
    · split
      · refine oa_seq (oa_mod (fun _ => rfl) (fun _ => rfl) (fun _ => rfl)) ?_
        split
        · exact oa_write _ _ hq
        · exact oa_raise _
      · exact oa_ok
theorem oa_handlePUBREL (m : Nat) : OA p (handlePUBREL q m) := by
  unfold handlePUBREL
  refine oa_read fun w => ?_
  refine oa_seq ?_ ?_
  · split
    · exact oa_ok
    · exact oa_seq (oa_mod (fun _ => rfl) (fun _ => rfl) (fun _ => rfl)) (oa_deliver _ _)
  · split
    · exact oa_write _ _ hq
    · exact oa_raise _
theorem oa_handlePUBREC (m : Nat) : OA p (handlePUBREC q m) := by
  unfold handlePUBREC
  generalize encodePUBREL (m : Int) = E
  refine oa_read fun w => ?_
  split
  · exact oa_ok
  · split
    · exact oa_ok
    · apply oa_seq (oa_cancelAlarm _)
      apply oa_seq (oa_setEnts _)
      cases E with
      | error e => exact oa_raise _
      | ok bs =>
        refine oa_read fun w' => ?_
        exact oa_seq (oa_mod (fun _ => rfl) (fun _ => rfl) (fun _ => rfl)) (oa_seq (oa_setEnts _) (oa_retryRelease _ _ _ hq))
theorem oa_processPacket (pkt : Bytes) : OA p (processPacket q pkt) := by
  unfold processPacket
  split
  · exact oa_raise _
  · dsimp only
    split
    · exact oa_abort _
    · split
      · exact oa_abort _
      · refine oa_read fun w => ?_
        split
        all_goals (try exact oa_abort _)
        all_goals (split <;> (try split) <;> first
          | exact oa_abort _ | exact oa_ok | exact oa_handleCONNACK hq _ _ | exact oa_handlePINGRESP hq
          | exact oa_handleSubUnsubAck hq _ _ _ | exact oa_handlePUBLISH hq _ | exact oa_handlePUBACK hq _
          | exact oa_handlePUBREC hq _ | exact oa_handlePUBREL hq _ | exact oa_handlePUBCOMP hq _)
theorem oa_accumulate (fuel : Nat) : OA p (accumulate q fuel) := by
  induction fuel with
  | zero => exact oa_ok
  | succ f ih =>
    unfold accumulate
    refine oa_read fun w => ?_
    split
    · exact oa_ok
    · exact oa_seq (oa_processPacket hq _) (oa_seq (oa_setProto _ _ (fun h => absurd h hq)) ih)
theorem oa_dataReceived (d : Bytes) : OA p (dataReceived q d) := by
  unfold dataReceived
  exact oa_seq (oa_setProto _ _ (fun h => absurd h hq)) (oa_read fun _ => oa_accumulate hq _)
theorem oa_registerSubUnsub (s : Bool) (i : Nat) (bs : Bytes) : OA p (registerSubUnsub q s i bs) := by unfold registerSubUnsub; oas
theorem oa_mkStep (pr : Proto) (qn m : Nat) (d : Option Nat) (bs : Bytes) : OA p (mkStep q pr qn m d bs) := by unfold mkStep; oas
end other

end oa

/-! ### what the idle state honours -/

theorem getD_default' {α : Type} (l : List α) (k : Nat) (d : α) (h : l.length ≤ k) : l.getD k d = d := by
  simp [List.getD_eq_getElem?_getD, List.getElem?_eq_none h]
theorem idle_row (i : Nat) : ∀ k, ((Spec.dispatchTable.getD i []).getD 0 []).getD k false = true → k = 0 := by
  have key : ∀ i, i < 3 → ∀ k, k < 15 → ((Spec.dispatchTable.getD i []).getD 0 []).getD k false = true → k = 0 := by decide
  have len : ∀ i, i < 3 → ((Spec.dispatchTable.getD i []).getD 0 []).length = 15 := by decide
  intro k h
  by_cases hi : i < 3
  · by_cases hk : k < 15
    · exact key i hi k hk h
    · rw [getD_default' _ _ _ (by rw [len i hi]; omega)] at h; cases h
  · have : Spec.dispatchTable.getD i [] = [] := by
      have : Spec.dispatchTable.length = 3 := by decide
      exact getD_default' _ _ _ (by omega)
    rw [this] at h; simp at h
/-- in the idle state the dispatch table honours `connect` and nothing else -- for every profile value -/
theorem idle_allows_connect_only (w : World) (p k : Nat) (hi : (w.proto p).state = .idle) (h : allowed w p k = true) : k = 0 := by
  unfold allowed at h
  rw [table_row, hi] at h
  exact idle_row _ k h

theorem idle_refuses {w : World} {p : Nat} (hi : (w.proto p).state = .idle) (k : Nat) (hk : k ≠ 0) : allowed w p k = false := by
  cases h : allowed w p k with
  | false => rfl
  | true => exact absurd (idle_allows_connect_only w p k hi h) hk

/-! ### operations of `p` itself, from a clean state -/

/-- from a clean state: nothing for `p`'s transport, and `p` stays clean -/
def CN (p : Nat) (s : Step) : Prop := ∀ w, Clean p w → ∃ l, (s w).1.log = w.log ++ l ∧ NoW p l ∧ Clean p (s w).1

section cn
variable {p : Nat}
theorem cn_of_oa {s : Step} (h : OA p s) : CN p s := fun w hc => by
  obtain ⟨l, a1, a2, a3⟩ := h w
  exact ⟨l, a1, a2, a3 hc⟩
theorem cn_seq {a b : Step} (ha : CN p a) (hb : CN p b) : CN p (a ;; b) := by
  intro w hc
  obtain ⟨l1, a1, a2, a3⟩ := ha w hc
  simp only [Step.seq]
  rcases hw : a w with ⟨w1, _ | e⟩
  · rw [hw] at a1 a3
    obtain ⟨l2, b1, b2, b3⟩ := hb w1 a3
    exact ⟨l1 ++ l2, by rw [b1, a1, List.append_assoc], a2.append b2, b3⟩
  · rw [hw] at a1 a3; exact ⟨l1, a1, a2, a3⟩
theorem cn_read {f : World → Step} (hf : ∀ w, Clean p w → CN p (f w)) : CN p (Step.read f) := fun w hc => hf w hc w hc

theorem cn_processPacket (pkt : Bytes) : CN p (processPacket p pkt) := by
  unfold processPacket
  split
  · exact cn_of_oa (oa_raise _)
  · dsimp only
    split
    · exact cn_of_oa (oa_abort _)
    · split
      · exact cn_of_oa (oa_abort _)
      · refine cn_read fun w hc => ?_
        have key := fun k hk => idle_refuses hc.idle k hk
        split
        all_goals (try exact cn_of_oa (oa_abort _))
        all_goals (split <;> (try split) <;> first
          | exact cn_of_oa (oa_abort _) | exact cn_of_oa oa_ok
          | (rename_i ha; rw [key _ (by decide)] at ha; cases ha))
theorem cn_accumulate (fuel : Nat) : CN p (accumulate p fuel) := by
  induction fuel with
  | zero => exact cn_of_oa oa_ok
  | succ f ih =>
    unfold accumulate
    refine cn_read fun w _ => ?_
    split
    · exact cn_of_oa oa_ok
    · exact cn_seq (cn_processPacket _) (cn_seq (cn_of_oa (oa_setProto _ _ (fun _ _ h => h))) ih)
/-- bytes received on an idle, clean protocol are ignored (or the connection is aborted): nothing is written -/
theorem cn_dataReceived (d : Bytes) : CN p (dataReceived p d) := by
  unfold dataReceived
  exact cn_seq (cn_of_oa (oa_setProto _ _ (fun _ _ h => h))) (cn_read fun _ _ => cn_accumulate _)
end cn

/-! ### API calls on another protocol -/

section api
variable {p q : Nat} (hq : q ≠ p)
include hq
theorem oa_apiConnect (a : ConnectArgs) : OA p (apiConnect q a) := by
  unfold apiConnect
  generalize a.toF.encode = E
  refine oa_read fun w => ?_
  split
  · exact oa_emit _ rfl
  · split
    · exact oa_emit _ rfl
    · cases E with
      | error e => dsimp only; oas
      | ok pdu => dsimp only; oas
theorem oa_apiDisconnect : OA p (apiDisconnect q) := by unfold apiDisconnect; oas
theorem oa_apiPublish (t : PyStr) (pl : Payload) (qs : Int) (r : Bool) : OA p (apiPublish q t pl qs r) := by
  intro w1
  rw [apiPublish_eq]
  split
  · exact oa_emit _ rfl w1
  · split
    · exact oa_emit _ rfl w1
    · split
      · cases encodePublishPy t pl 0 r none with
        | error e => exact oa_emit _ rfl w1
        | ok bs => exact oa_seq (oa_mkStep hq _ _ _ _ _) (oa_emit _ rfl) w1
      · refine oa_makeId (f := _) ?_ w1
        intro i
        cases encodePublishPy t pl qs.toNat r (some (i : Int)) with
        | error e => exact oa_emit _ rfl
        | ok bs => exact oa_newDfd fun d => oa_seq (oa_mkStep hq _ _ _ _ _) (oa_emit _ rfl)
theorem oa_apiSubscribe (a : SubArg) (qs : Int) : OA p (apiSubscribe q a qs) := by
  unfold apiSubscribe
  refine oa_read fun w => ?_
  cases a <;> dsimp only <;> (repeat' (first | ((with_reducible apply oa_emit); rfl) | split)) <;>
    (refine oa_makeId fun i => ?_
     generalize encodeWithId 0x82 _ _ = E
     cases E with
     | error e => exact oa_emit _ rfl
     | ok bs => exact oa_registerSubUnsub hq _ _ _)
theorem oa_apiUnsubscribe (a : UnsubArg) : OA p (apiUnsubscribe q a) := by
  unfold apiUnsubscribe
  refine oa_read fun w => ?_
  split
  · exact oa_emit _ rfl
  · refine oa_makeId fun _ => oa_read fun w1 => ?_
    cases a <;> dsimp only <;> (repeat' (first | ((with_reducible apply oa_emit); rfl) | split)) <;>
      (refine oa_makeId fun i => ?_
       generalize encodeWithId 0xA2 _ _ = E
       cases E with
       | error e => exact oa_emit _ rfl
       | ok bs => exact oa_registerSubUnsub hq _ _ _)
end api

/-- the callback of a DelayedCall that is not a keepalive or retransmission callback of `p` -/
theorem oa_runTimer {p : Nat} (k : TKind) (hk : ¬ k.of p) : OA p (runTimer k) := by
  cases k with
  | connack cr => unfold runTimer; oas
  | pingLoop q => exact oa_seq (oa_setProto _ _ (fun h => absurd h hk)) (oa_loopRun hk)
  | pingAlarm q => exact oa_seq (oa_setProto _ _ (fun h => absurd h hk)) (oa_abort _)
  | retry q rid =>
    have hq : q ≠ p := hk
    unfold runTimer; oas
  | onDisc q r => exact oa_emit _ rfl

theorem first_write {π : Pol} (p : Nat) (g : Proto → Proto) (pdu : Bytes) (R : Step) (hR : Emits π R) (hpdu : isConnect pdu = true) (w : World) :
    ∃ l, ((setProto p g ;; write p pdu ;; R) w).1.log = w.log ++ l ∧ FirstC p l := by
  obtain ⟨l', h1, _⟩ := hR (({ w with protos := w.protos.set p (g (w.proto p)) } : World).emit (.write p pdu))
  refine ⟨[.write p pdu] ++ l', ?_, ⟨[], pdu, l', rfl, NoW.nil p, hpdu⟩⟩
  have : ((setProto p g ;; write p pdu ;; R) w) = R (({ w with protos := w.protos.set p (g (w.proto p)) } : World).emit (.write p pdu)) := rfl
  rw [this, h1]
  simp [World.emit]

/-- `connect()` on a clean protocol: refused without a trace on the wire, or the CONNECT is the first thing written -/
theorem connect_clean (p : Nat) (a : ConnectArgs) (w : World) (hc : Clean p w) :
    ∃ l, (apiConnect p a w).1.log = w.log ++ l ∧ ((Clean p (apiConnect p a w).1 ∧ NoW p l) ∨ FirstC p l) := by
  have hE := connect_first a.toF
  unfold apiConnect
  generalize a.toF.encode = E at hE
  simp only [Step.read]
  have hsimple : ∀ (s : Step), OA p s → ∃ l, (s w).1.log = w.log ++ l ∧ ((Clean p (s w).1 ∧ NoW p l) ∨ FirstC p l) := by
    intro s hs
    obtain ⟨l, a1, a2, a3⟩ := hs w
    exact ⟨l, a1, Or.inl ⟨a3 hc, a2⟩⟩
  split
  · exact hsimple _ (oa_emit _ rfl)
  · split
    · exact hsimple _ (oa_emit _ rfl)
    · cases E with
      | error e =>
        dsimp only
        split
        · exact hsimple _ (oa_emit _ rfl)
        · exact hsimple _ (oa_raise _)
      | ok pdu =>
        dsimp only
        refine (first_write (π := ⟨fun _ => true, fun _ => true, true⟩) p _ pdu _ ?_ (hE pdu rfl) w).imp fun l h => ⟨h.1, Or.inr h.2⟩
        em


section gated
variable {p : Nat}
theorem cn_apiDisconnect : CN p (apiDisconnect p) := by
  unfold apiDisconnect
  refine cn_read fun w hc => ?_
  split
  · rename_i ha; rw [idle_refuses hc.idle 1 (by decide)] at ha; cases ha
  · exact cn_of_oa (oa_raise _)
theorem cn_apiPublish (t : PyStr) (pl : Payload) (qs : Int) (r : Bool) : CN p (apiPublish p t pl qs r) := by
  unfold apiPublish
  refine cn_read fun w hc => ?_
  split
  · exact cn_of_oa (oa_emit _ rfl)
  · rename_i ha; rw [idle_refuses hc.idle 4 (by decide)] at ha; exact absurd rfl ha
theorem cn_apiSubscribe (a : SubArg) (qs : Int) : CN p (apiSubscribe p a qs) := by
  unfold apiSubscribe
  refine cn_read fun w hc => ?_
  split
  · exact cn_of_oa (oa_emit _ rfl)
  · rename_i ha; rw [idle_refuses hc.idle 2 (by decide)] at ha; exact absurd rfl ha
theorem cn_apiUnsubscribe (a : UnsubArg) : CN p (apiUnsubscribe p a) := by
  unfold apiUnsubscribe
  refine cn_read fun w hc => ?_
  split
  · exact cn_of_oa (oa_emit _ rfl)
  · rename_i ha; rw [idle_refuses hc.idle 3 (by decide)] at ha; exact absurd rfl ha
theorem oa_apiSetWindow (q : Nat) (n : PyNum) : OA p (apiSetWindow q n) := by unfold apiSetWindow; oas
theorem oa_apiSetTimeout (q : Nat) (n : PyNum) : OA p (apiSetTimeout q n) := by unfold apiSetTimeout; oas
theorem oa_apiSetBandwith (q : Nat) (b f : Rat) : OA p (apiSetBandwith q b f) := by unfold apiSetBandwith; oas
end gated

/-- the handler of an operation, from a state where `p` is clean: `p` stays clean and nothing is written for it -- unless the
    operation is `connect()` on `p`, and then the first packet for `p` is the CONNECT -/
theorem clean_handler (p : Nat) (w : World) (hc : Clean p w) (op : Op) :
    ∃ l, (op.handler w).1.log = w.log ++ l ∧ ((Clean p (op.handler w).1 ∧ NoW p l) ∨ ((∃ a, op = .connect p a) ∧ FirstC p l)) := by
  have hoa : ∀ (s : Step), OA p s → ∃ l, (s w).1.log = w.log ++ l ∧ ((Clean p (s w).1 ∧ NoW p l) ∨ ((∃ a, op = .connect p a) ∧ FirstC p l)) := by
    intro s hs
    obtain ⟨l, a1, a2, a3⟩ := hs w
    exact ⟨l, a1, Or.inl ⟨a3 hc, a2⟩⟩
  have hcn : ∀ (s : Step), CN p s → ∃ l, (s w).1.log = w.log ++ l ∧ ((Clean p (s w).1 ∧ NoW p l) ∨ ((∃ a, op = .connect p a) ∧ FirstC p l)) := by
    intro s hs
    obtain ⟨l, a1, a2, a3⟩ := hs w hc
    exact ⟨l, a1, Or.inl ⟨a3, a2⟩⟩
  cases op with
  | build a =>
    refine ⟨[], by simp [Op.handler, buildProtocol, Step.mod], Or.inl ⟨⟨?_, hc.noTimer⟩, NoW.nil p⟩⟩
    show (({ w with protos := w.protos.set w.nextProto { addr := a }, nextProto := w.nextProto + 1 } : World).proto p).state = .idle
    simp only [World.proto, Dict.get?_set]
    split
    · rfl
    · exact hc.idle
  | jit v => exact hoa _ (oa_mod (fun _ => rfl) (fun _ => rfl) (fun _ => rfl))
  | setid v => exact hoa _ (oa_mod (fun _ => rfl) (fun _ => rfl) (fun _ => rfl))
  | sethandlers q m => exact hoa _ (oa_setProto _ _ (fun _ _ h => h))
  | connect q a =>
    by_cases hq : q = p
    · subst hq
      obtain ⟨l, h1, h2⟩ := connect_clean q a w hc
      exact ⟨l, h1, h2.imp id fun h => ⟨⟨a, rfl⟩, h⟩⟩
    · exact hoa _ (oa_apiConnect hq a)
  | disconnect q =>
    by_cases hq : q = p
    · subst hq; exact hcn _ cn_apiDisconnect
    · exact hoa _ (oa_apiDisconnect hq)
  | publish q t pl qs r =>
    by_cases hq : q = p
    · subst hq; exact hcn _ (cn_apiPublish t pl qs r)
    · exact hoa _ (oa_apiPublish hq t pl qs r)
  | subscribe q a qs =>
    by_cases hq : q = p
    · subst hq; exact hcn _ (cn_apiSubscribe a qs)
    · exact hoa _ (oa_apiSubscribe hq a qs)
  | unsubscribe q a =>
    by_cases hq : q = p
    · subst hq; exact hcn _ (cn_apiUnsubscribe a)
    · exact hoa _ (oa_apiUnsubscribe hq a)
  | setwin q n => exact hoa _ (oa_apiSetWindow q n)
  | settimeout q n => exact hoa _ (oa_apiSetTimeout q n)
  | setbw q b f => exact hoa _ (oa_apiSetBandwith q b f)
  | recv q d =>
    by_cases hq : q = p
    · subst hq; exact hcn _ (cn_dataReceived d)
    · exact hoa _ (oa_dataReceived hq d)
  | lost q r => exact hoa _ (oa_connectionLost q r)
  | fire t =>
    have hh : (Op.fire t).handler = fireTimer t := rfl
    rw [hh]
    cases ht : w.timers.get? t with
    | none =>
      have e : fireTimer t w = emit .nofire w := by simp only [fireTimer, Step.read, ht]
      rw [e]; exact hoa _ (oa_emit .nofire rfl)
    | some tm =>
      have e : fireTimer t w = (if tm.status = TStatus.pending then
          Step.mod (fun w => { w with now := max w.now tm.due, timers := w.timers.set t { tm with status := .called } }) ;; runTimer tm.kind
        else emit .nofire) w := by simp only [fireTimer, Step.read, ht]
      rw [e]
      split
      · -- the timer is marked as called: same callbacks in the table
        rename_i hpend
        have hk : ¬ tm.kind.of p := hc.noTimer t tm ht hpend
        have hc1 : Clean p { w with now := max w.now tm.due, timers := w.timers.set t { tm with status := .called } } :=
          ⟨hc.idle, fun t' tm' ht' => by
            have ht'' : (w.timers.set t { tm with status := .called }).get? t' = some tm' := ht'
            simp only [Dict.get?_set] at ht''
            split at ht''
            · injection ht'' with ht''; subst ht''; exact fun _ => hk
            · exact hc.noTimer t' tm' ht''⟩
        obtain ⟨l, a1, a2, a3⟩ := oa_runTimer tm.kind hk { w with now := max w.now tm.due, timers := w.timers.set t { tm with status := .called } }
        exact ⟨l, a1, Or.inl ⟨a3 hc1, a2⟩⟩
      · exact hoa _ (oa_emit .nofire rfl)


theorem Clean.log {p : Nat} {w : World} (h : Clean p w) (l : List Obs) : Clean p { w with log := l } := ⟨h.idle, h.noTimer⟩

theorem clean_step (p : Nat) (w : World) (hc : Clean p w) (op : Op) :
    ∃ l, (step w op).log = w.log ++ l ∧ ((Clean p (step w op) ∧ NoW p l) ∨ ((∃ a, op = .connect p a) ∧ FirstC p l)) := by
  obtain ⟨l, a1, a2⟩ := clean_handler p w hc op
  unfold step
  rcases hw : op.handler w with ⟨w', _ | e⟩
  · rw [hw] at a1 a2; exact ⟨l, a1, a2⟩
  · rw [hw] at a1 a2
    refine ⟨l ++ [if op.isReactor then Obs.esc e else Obs.raised e], by simp only; rw [a1, List.append_assoc], ?_⟩
    rcases a2 with ⟨c1, c2⟩ | ⟨c1, c2⟩
    · refine Or.inl ⟨c1.log _, c2.append fun o ho => ?_⟩
      rw [List.mem_singleton.mp ho]; split <;> rfl
    · exact Or.inr ⟨c1, c2.append_right _⟩

theorem step_log_append (w : World) (op : Op) : ∃ l, (step w op).log = w.log ++ l := by
  have : Emits ⟨fun _ => true, fun _ => true, true⟩ op.handler := by
    cases op with
    | build a => exact em_mod fun _ => rfl
    | sethandlers p m => exact em_setProto _ _
    | connect p a => exact em_apiConnect p a rfl
    | disconnect p => exact em_apiDisconnect p rfl
    | publish p t pl q r => exact em_apiPublish p t pl q r rfl
    | subscribe p a q => exact em_apiSubscribe p a q rfl
    | unsubscribe p a => exact em_apiUnsubscribe p a rfl
    | setwin p n => exact em_apiSetWindow p n
    | settimeout p n => exact em_apiSetTimeout p n
    | setbw p b f => exact em_apiSetBandwith p b f
    | jit v => exact em_mod fun _ => rfl
    | setid v => exact em_mod fun _ => rfl
    | recv p d => exact em_dataReceived p d rfl rfl rfl
    | lost p r => exact em_connectionLost p r
    | fire t => exact em_fireTimer t (fun _ => rfl) (fun _ => rfl)
  obtain ⟨l, h, _⟩ := this w
  unfold step
  rcases hw : op.handler w with ⟨w', _ | e⟩
  · rw [hw] at h; exact ⟨l, h⟩
  · rw [hw] at h; exact ⟨l ++ [_], by simp only; rw [h, List.append_assoc]⟩

/-- where protocol `p` stands: still clean with nothing on its wire, or the first packet on its wire is a CONNECT -/
def Started (p : Nat) (w : World) : Prop := (Clean p w ∧ NoW p w.log) ∨ FirstC p w.log

theorem started_step (p : Nat) (w : World) (h : Started p w) (op : Op) : Started p (step w op) := by
  rcases h with ⟨hc, hn⟩ | hf
  · obtain ⟨l, h1, h2⟩ := clean_step p w hc op
    rcases h2 with ⟨c1, c2⟩ | ⟨_, c2⟩
    · exact Or.inl ⟨c1, by rw [h1]; exact hn.append c2⟩
    · exact Or.inr (by rw [h1]; exact c2.append_left hn)
  · obtain ⟨l, h1⟩ := step_log_append w op
    exact Or.inr (by rw [h1]; exact hf.append_right l)
theorem started_run (p : Nat) : ∀ (ops : List Op) (w : World), Started p w → Started p (run w ops) := by
  intro ops
  induction ops with
  | nil => intro w h; exact h
  | cons op r ih => intro w h; exact ih _ (started_step p w h op)
theorem clean_init (p : Nat) (profile : Nat) : Clean p (World.init profile) ∧ NoW p (World.init profile).log :=
  ⟨⟨rfl, fun t tm h _ => by simp [World.init, Dict.get?] at h⟩, fun o ho => by simp [World.init] at ho⟩
theorem started_init (p : Nat) (profile : Nat) : Started p (World.init profile) := Or.inl (clean_init p profile)

/-- as long as `connect()` is not called on `p`, `p` stays clean and nothing is written for it -/
theorem quiet_until_connect (p : Nat) : ∀ (ops : List Op) (w : World), Clean p w → NoW p w.log → (∀ a, Op.connect p a ∉ ops) →
    Clean p (run w ops) ∧ NoW p (run w ops).log := by
  intro ops
  induction ops with
  | nil => intro w hc hn _; exact ⟨hc, hn⟩
  | cons op r ih =>
    intro w hc hn hno
    obtain ⟨l, h1, h2⟩ := clean_step p w hc op
    rcases h2 with ⟨c1, c2⟩ | ⟨⟨a, ha⟩, _⟩
    · exact ih (step w op) c1 (by rw [h1]; exact hn.append c2) fun a ha => hno a (List.mem_cons_of_mem _ ha)
    · exact absurd (by rw [ha]; exact List.mem_cons_self) (hno a)

/-- the same, about what the history appends: from ANY state where `p` is clean (e.g. after its loss has been reported) -/
theorem quiet_delta (p : Nat) : ∀ (ops : List Op) (w : World), Clean p w → (∀ a, Op.connect p a ∉ ops) →
    ∃ l, (run w ops).log = w.log ++ l ∧ NoW p l ∧ Clean p (run w ops) := by
  intro ops
  induction ops with
  | nil => intro w hc _; exact ⟨[], by simp [run], NoW.nil p, hc⟩
  | cons op r ih =>
    intro w hc hno
    obtain ⟨l, h1, h2⟩ := clean_step p w hc op
    rcases h2 with ⟨c1, c2⟩ | ⟨⟨a, ha⟩, _⟩
    · obtain ⟨l2, g1, g2, g3⟩ := ih (step w op) c1 fun a ha => hno a (List.mem_cons_of_mem _ ha)
      exact ⟨l ++ l2, by show (run (step w op) r).log = _; rw [g1, h1, List.append_assoc], c2.append g2, g3⟩
    · exact absurd (by rw [ha]; exact List.mem_cons_self) (hno a)

/-! ### C19 on the wire: an operation run by one protocol writes nothing to another protocol's transport -/

/-- whatever the state: the operation is run by protocol `q` (an API call on it, bytes received on it, its loss report, one of its
    timers) or by none (building a protocol, the factory's counters, a handshake timeout), and `p` is another protocol: nothing is
    written to `p`'s transport -/
theorem other_protocol_handler (p : Nat) (w : World) (op : Op) (hop : ∀ q, op.proto? w = some q → q ≠ p) :
    ∃ l, (op.handler w).1.log = w.log ++ l ∧ NoW p l := by
  have hoa : ∀ (s : Step), OA p s → ∃ l, (s w).1.log = w.log ++ l ∧ NoW p l := by
    intro s hs
    obtain ⟨l, a1, a2, _⟩ := hs w
    exact ⟨l, a1, a2⟩
  cases op with
  | build a => exact ⟨[], by simp [Op.handler, buildProtocol, Step.mod], NoW.nil p⟩
  | jit v => exact hoa _ (oa_mod (fun _ => rfl) (fun _ => rfl) (fun _ => rfl))
  | setid v => exact hoa _ (oa_mod (fun _ => rfl) (fun _ => rfl) (fun _ => rfl))
  | sethandlers q m => exact hoa _ (oa_setProto _ _ (fun _ _ h => h))
  | connect q a => exact hoa _ (oa_apiConnect (hop q rfl) a)
  | disconnect q => exact hoa _ (oa_apiDisconnect (hop q rfl))
  | publish q t pl qs r => exact hoa _ (oa_apiPublish (hop q rfl) t pl qs r)
  | subscribe q a qs => exact hoa _ (oa_apiSubscribe (hop q rfl) a qs)
  | unsubscribe q a => exact hoa _ (oa_apiUnsubscribe (hop q rfl) a)
  | setwin q n => exact hoa _ (oa_apiSetWindow q n)
  | settimeout q n => exact hoa _ (oa_apiSetTimeout q n)
  | setbw q b f => exact hoa _ (oa_apiSetBandwith q b f)
  | recv q d => exact hoa _ (oa_dataReceived (hop q rfl) d)
  | lost q r => exact hoa _ (oa_connectionLost q r)
  | fire t =>
    have hh : (Op.fire t).handler = fireTimer t := rfl
    rw [hh]
    cases ht : w.timers.get? t with
    | none =>
      have e : fireTimer t w = emit .nofire w := by simp only [fireTimer, Step.read, ht]
      rw [e]; exact hoa _ (oa_emit .nofire rfl)
    | some tm =>
      have e : fireTimer t w = (if tm.status = TStatus.pending then
          Step.mod (fun w => { w with now := max w.now tm.due, timers := w.timers.set t { tm with status := .called } }) ;; runTimer tm.kind
        else emit .nofire) w := by simp only [fireTimer, Step.read, ht]
      rw [e]
      split
      · have hk : ¬ tm.kind.of p := by
          intro hk
          cases hkind : tm.kind with
          | connack cr => rw [hkind] at hk; exact hk
          | onDisc q r => rw [hkind] at hk; exact hk
          | pingLoop q => rw [hkind] at hk; exact hop q (by simp only [Op.proto?, ht, hkind]) hk
          | pingAlarm q => rw [hkind] at hk; exact hop q (by simp only [Op.proto?, ht, hkind]) hk
          | retry q rid => rw [hkind] at hk; exact hop q (by simp only [Op.proto?, ht, hkind]) hk
        obtain ⟨l, a1, a2, _⟩ := oa_runTimer tm.kind hk { w with now := max w.now tm.due, timers := w.timers.set t { tm with status := .called } }
        exact ⟨l, a1, a2⟩
      · exact hoa _ (oa_emit .nofire rfl)

theorem other_protocol_step (p : Nat) (w : World) (op : Op) (hop : ∀ q, op.proto? w = some q → q ≠ p) :
    ∃ l, (step w op).log = w.log ++ l ∧ NoW p l := by
  obtain ⟨l, a1, a2⟩ := other_protocol_handler p w op hop
  unfold step
  rcases hw : op.handler w with ⟨w', _ | e⟩
  · rw [hw] at a1; exact ⟨l, a1, a2⟩
  · rw [hw] at a1
    refine ⟨l ++ [if op.isReactor then Obs.esc e else Obs.raised e], by simp only; rw [a1, List.append_assoc], a2.append fun o ho => ?_⟩
    rw [List.mem_singleton.mp ho]; split <;> rfl

end Mqtt
