import MqttVerif.Proofs.StepInv
/-
  Facts about the observation log that hold for every handler unconditionally (no invariant, no
  environment assumption): the log only grows; the only primitive that fires a Deferred is
  `fireDfd`, which refuses to fire twice; every handler run for protocol `p` touches only `p`'s
  transport.
-/
namespace Mqtt

/-! ### pure helpers: they write on `p` and fire nothing -/

/-- `f` appends only writes on `p`'s transport to the log and fires no Deferred -/
def WritesOn (p : Nat) (f : World → World) : Prop :=
  ∀ w, (f w).fired = w.fired ∧ ∃ l, (f w).log = w.log ++ l ∧ ∀ o ∈ l, ∃ bs, o = .write p bs

theorem WritesOn.id (p : Nat) : WritesOn p (fun w => w) := fun w => ⟨rfl, [], by simp, by simp⟩

theorem WritesOn.comp {p : Nat} {f g : World → World} (hf : WritesOn p f) (hg : WritesOn p g) : WritesOn p (fun w => g (f w)) := by
  intro w
  obtain ⟨f1, l1, f2, f3⟩ := hf w
  obtain ⟨g1, l2, g2, g3⟩ := hg (f w)
  refine ⟨by rw [g1, f1], l1 ++ l2, by rw [g2, f2, List.append_assoc], fun o ho => ?_⟩
  rcases List.mem_append.mp ho with ho | ho
  · exact f3 o ho
  · exact g3 o ho

theorem retryPublishW_writes (p rid : Nat) (dup : Bool) : WritesOn p (retryPublishW p rid dup) := by
  intro w
  refine ⟨by simp only [retryPublishW]; split <;> simp, ?_⟩
  simp only [retryPublishW]
  split <;> exact ⟨[_], rfl, fun o ho => ⟨_, List.mem_singleton.mp ho⟩⟩

theorem retryReleaseW_writes (p rid : Nat) (dup : Bool) : WritesOn p (retryReleaseW p rid dup) := by
  intro w
  refine ⟨by simp only [retryReleaseW]; split <;> simp, ?_⟩
  simp only [retryReleaseW]
  split <;> exact ⟨[_], rfl, fun o ho => ⟨_, List.mem_singleton.mp ho⟩⟩

theorem retrySubUnsubW_writes (p rid : Nat) (dup s : Bool) : WritesOn p (retrySubUnsubW p rid dup s) := by
  intro w
  refine ⟨by simp only [retrySubUnsubW]; split <;> simp, ?_⟩
  simp only [retrySubUnsubW]
  split <;> exact ⟨[_], rfl, fun o ho => ⟨_, List.mem_singleton.mp ho⟩⟩

theorem refillW_writes (p : Nat) (dup : Bool) (fuel : Nat) : WritesOn p (refillW p dup fuel) := by
  induction fuel with
  | zero => exact WritesOn.id p
  | succ f ih =>
    intro w
    simp only [refillW]
    split
    · exact WritesOn.id p w
    · rename_i e _ _
      split
      · have h1 : WritesOn p (fun w' : World => if (w.req e.rid).msgId ≠ 0 then
            (w'.setEnts fun es => Ents.dropFirst es (w.paddr p) .queue).setEnts fun es => Ents.insert es (w.paddr p) .pub (w.req e.rid).msgId e.rid
            else w'.setEnts fun es => Ents.dropFirst es (w.paddr p) .queue) := by
          intro w'; split <;> exact ⟨rfl, [], by simp, by simp⟩
        exact (h1.comp ((retryPublishW_writes p e.rid dup).comp ih)) w
      · exact WritesOn.id p w

theorem foldl_writes (p : Nat) (l : List Ent) (f : World → Ent → World) (hf : ∀ e, WritesOn p (fun w => f w e)) :
    WritesOn p (fun w => l.foldl f w) := by
  induction l with
  | nil => exact WritesOn.id p
  | cons e r ih => exact (hf e).comp ih

theorem syncW_writes (p : Nat) : WritesOn p (syncW p) := by
  intro w
  simp only [syncW]
  have h1 := foldl_writes p (Ents.items w.ents (w.paddr p) .rel)
    (fun w e => if (w.req e.rid).alarm = none then retryReleaseW p e.rid true w else w)
    (fun e w' => by
      by_cases hc : (w'.req e.rid).alarm = none
      · simp only [hc, ↓reduceIte]; exact retryReleaseW_writes p e.rid true w'
      · simp only [hc, ↓reduceIte]; exact ⟨trivial, [], by simp, by simp⟩)
  obtain ⟨w1, hw1⟩ : ∃ w1, w1 = (Ents.items w.ents (w.paddr p) .rel).foldl
    (fun w e => if (w.req e.rid).alarm = none then retryReleaseW p e.rid true w else w) w := ⟨_, rfl⟩
  have h2 := foldl_writes p (Ents.items w1.ents (w1.paddr p) .pub)
    (fun w e => if (w.req e.rid).alarm = none then retryPublishW p e.rid true w else w)
    (fun e w' => by
      by_cases hc : (w'.req e.rid).alarm = none
      · simp only [hc, ↓reduceIte]; exact retryPublishW_writes p e.rid true w'
      · simp only [hc, ↓reduceIte]; exact ⟨trivial, [], by simp, by simp⟩)
  have := (h1.comp (g := fun w' => (Ents.items w1.ents (w1.paddr p) .pub).foldl
    (fun w e => if (w.req e.rid).alarm = none then retryPublishW p e.rid true w else w) w') h2) w
  rw [hw1] at this
  exact this

/-! ### Deferreds fire at most once, and the log says exactly which have fired -/

/-- the Deferred ids of the `fired` observations of a log, oldest first -/
def firedIds (l : List Obs) : List Nat := l.filterMap fun o => match o with | .fired d _ => some d | _ => none

theorem firedIds_append (a b : List Obs) : firedIds (a ++ b) = firedIds a ++ firedIds b := by simp [firedIds]

/-- no Deferred has fired twice, and the `fired` observations of the log are exactly the fired Deferreds -/
def Good (w : World) : Prop := w.fired.Nodup ∧ firedIds w.log = w.fired.reverse

/-- `s` preserves `Good` -/
def FiresOk (s : Step) : Prop := ∀ w, Good w → Good (s w).1

theorem good_quiet {w w' : World} (hf : w'.fired = w.fired) (l : List Obs) (hl : w'.log = w.log ++ l) (hq : firedIds l = []) :
    Good w → Good w' := by
  intro ⟨g1, g2⟩
  exact ⟨by rw [hf]; exact g1, by rw [hl, firedIds_append, hq, List.append_nil, hf]; exact g2⟩

theorem fo_ok : FiresOk Step.ok := fun _ h => h
theorem fo_raise (e : Err) : FiresOk (Step.raise e) := fun _ h => h
theorem fo_seq {a b : Step} (ha : FiresOk a) (hb : FiresOk b) : FiresOk (a ;; b) := by
  intro w h
  have h1 := ha w h
  simp only [Step.seq]
  rcases hw : a w with ⟨w1, _ | e⟩
  · rw [hw] at h1; exact hb w1 h1
  · rw [hw] at h1; exact h1
theorem fo_read {f : World → Step} (hf : ∀ w, FiresOk (f w)) : FiresOk (Step.read f) := fun w => hf w w
theorem fo_mod {f : World → World} (hf : ∀ w, (f w).fired = w.fired ∧ (f w).log = w.log) : FiresOk (Step.mod f) := by
  intro w h
  exact good_quiet (hf w).1 [] (by simp [Step.mod, (hf w).2]) rfl h
theorem fo_writes {p : Nat} {f : World → World} (hf : WritesOn p f) : FiresOk (Step.mod f) := by
  intro w h
  obtain ⟨f1, l, f2, f3⟩ := hf w
  refine good_quiet f1 l f2 ?_ h
  simp only [firedIds, List.filterMap_eq_nil_iff]
  intro o ho
  obtain ⟨bs, rfl⟩ := f3 o ho
  rfl
def Obs.notFired : Obs → Bool
  | .fired _ _ => false
  | _ => true

theorem fo_emit (o : Obs) (ho : o.notFired = true) : FiresOk (emit o) := by
  intro w h
  refine good_quiet (w := w) (w' := (emit o w).1) rfl [o] rfl ?_ h
  cases o <;> first | rfl | cases ho
theorem fo_setProto (p : Nat) (f : Proto → Proto) : FiresOk (setProto p f) := fo_mod fun _ => ⟨rfl, rfl⟩
theorem fo_setEnts (f : List Ent → List Ent) : FiresOk (setEnts f) := fo_mod fun _ => ⟨rfl, rfl⟩
theorem fo_setReq (r : Nat) (f : Req → Req) : FiresOk (setReq r f) := fo_mod fun _ => ⟨rfl, rfl⟩
theorem fo_write (p : Nat) (b : Bytes) : FiresOk (write p b) := fo_emit _ rfl
theorem fo_callLater (d : Rat) (k : TKind) {c : Nat → Step} (hc : ∀ t, FiresOk (c t)) : FiresOk (callLater d k c) :=
  fo_read fun _ => fo_seq (fo_mod fun _ => ⟨rfl, rfl⟩) (hc _)
theorem fo_newDfd {c : Nat → Step} (hc : ∀ t, FiresOk (c t)) : FiresOk (newDfd c) :=
  fo_read fun _ => fo_seq (fo_mod fun _ => ⟨rfl, rfl⟩) (hc _)
theorem fo_makeId {c : Nat → Step} (hc : ∀ t, FiresOk (c t)) : FiresOk (makeId c) :=
  fo_read fun _ => fo_seq (fo_mod fun _ => ⟨rfl, rfl⟩) (hc _)
theorem fo_cancelTimer (t : Nat) : FiresOk (cancelTimer t) := by
  apply fo_read; intro w
  split
  · exact fo_raise _
  · split
    · exact fo_mod fun _ => ⟨rfl, rfl⟩
    · exact fo_raise _
    · exact fo_raise _
theorem fo_cancelAlarm (a : Option Nat) : FiresOk (cancelAlarm a) := by
  cases a with
  | none => exact fo_raise _
  | some t => exact fo_cancelTimer t
/-- the one primitive that fires: `Deferred.callback/errback` refuses a Deferred that has already fired -/
theorem fo_fireDfd (d : Nat) (o : Outcome) : FiresOk (fireDfd d o) := by
  intro w ⟨g1, g2⟩
  simp only [fireDfd, read_apply]
  by_cases hd : d ∈ w.fired
  · simp only [hd, ↓reduceIte]; exact ⟨g1, g2⟩
  · simp only [hd, ↓reduceIte]
    refine ⟨List.nodup_cons.mpr ⟨hd, g1⟩, ?_⟩
    show firedIds (w.log ++ [.fired d o]) = (d :: w.fired).reverse
    rw [firedIds_append, g2]; simp [firedIds]
theorem fo_fireReqDfd (d : Option Nat) (o : Outcome) : FiresOk (fireReqDfd d o) := by
  cases d with
  | none => exact fo_raise _
  | some d => exact fo_fireDfd d o
theorem fo_forEach {α : Type} (l : List α) {f : α → Step} (hf : ∀ a, FiresOk (f a)) : FiresOk (forEach l f) := by
  induction l with
  | nil => exact fo_ok
  | cons a r ih => exact fo_seq (hf a) ih
theorem fo_refill (p : Nat) : FiresOk (refill p) := by
  intro w h
  exact fo_writes (refillW_writes p false _) w h
theorem fo_retryPublish (p rid : Nat) (dup : Bool) : FiresOk (retryPublish p rid dup) := fo_writes (retryPublishW_writes p rid dup)
theorem fo_retryRelease (p rid : Nat) (dup : Bool) : FiresOk (retryRelease p rid dup) := fo_writes (retryReleaseW_writes p rid dup)
theorem fo_retrySubUnsub (p rid : Nat) (dup s : Bool) : FiresOk (retrySubUnsub p rid dup s) := fo_writes (retrySubUnsubW_writes p rid dup s)
theorem fo_syncSession (p : Nat) : FiresOk (syncSession p) := fo_writes (syncW_writes p)

macro "fo_step" : tactic => `(tactic| first
  | with_reducible exact fo_ok | with_reducible exact fo_raise _
  | with_reducible apply fo_emit
  | (show Obs.notFired _ = true; rfl)
  | with_reducible exact fo_write _ _ | with_reducible exact fo_setEnts _ | with_reducible exact fo_setReq _ _
  | with_reducible exact fo_setProto _ _
  | with_reducible exact fo_cancelTimer _ | with_reducible exact fo_cancelAlarm _ | with_reducible exact fo_fireDfd _ _
  | with_reducible exact fo_fireReqDfd _ _
  | with_reducible exact fo_refill _ | with_reducible exact fo_retryPublish _ _ _ | with_reducible exact fo_retryRelease _ _ _
  | with_reducible exact fo_retrySubUnsub _ _ _ _ | with_reducible exact fo_syncSession _
  | (with_reducible apply fo_mod; intro w; exact ⟨rfl, rfl⟩)
  | with_reducible apply fo_seq | (with_reducible apply fo_read; intro w) | (with_reducible apply fo_callLater; intro t)
  | (with_reducible apply fo_newDfd; intro t) | (with_reducible apply fo_makeId; intro t)
  | (with_reducible apply fo_forEach; intro e)
  | split
  | dsimp only)

macro "fo" : tactic => `(tactic| repeat fo_step)

theorem fo_deliver (p : Nat) (m : RxMsg) : FiresOk (deliver p m) := by unfold deliver; fo
theorem fo_purgeSession (p : Nat) (r : Err) : FiresOk (purgeSession p r) := by unfold purgeSession purgeWindow; fo
theorem fo_mqttConnectionMade (p : Nat) : FiresOk (mqttConnectionMade p) := by
  unfold mqttConnectionMade
  apply fo_read; intro w
  apply fo_seq
  · split
    · exact fo_purgeSession _ _
    · exact fo_syncSession _
  · fo
theorem fo_doPingRequest (p : Nat) : FiresOk (doPingRequest p) := by unfold doPingRequest; fo
theorem fo_ping (p : Nat) : FiresOk (ping p) := by
  unfold ping; apply fo_read; intro w; split
  · exact fo_doPingRequest p
  · exact fo_raise _
theorem fo_loopRun (p : Nat) : FiresOk (loopRun p) := by
  intro w h
  have h1 := fo_ping p w h
  simp only [loopRun]
  rcases hw : ping p w with ⟨w1, _ | e⟩
  · rw [hw] at h1
    have : FiresOk (Step.read fun w =>
      match (w.proto p).pingTimer with
      | some l =>
        if l.running then
          callLater l.interval (.pingLoop p) fun tid =>
            setProto p (fun pr => { pr with pingTimer := (pr.pingTimer.map fun l => { l with call := some tid }) })
        else Step.ok
      | none => Step.ok) := by fo
    exact this w1 h1
  · rw [hw] at h1
    exact fo_setProto _ _ w1 h1
theorem fo_loopStop (p : Nat) : FiresOk (loopStop p) := by unfold loopStop; fo
theorem fo_handleCONNACK (p : Nat) (s : Bool) (rc : Nat) : FiresOk (handleCONNACK p s rc) := by
  unfold handleCONNACK
  apply fo_read; intro w
  split
  · fo
  · split
    · fo
    · split
      · fo
      · apply fo_seq (fo_cancelTimer _)
        apply fo_seq
        · split
          · apply fo_seq (by fo)
            apply fo_seq (fo_mqttConnectionMade p)
            apply fo_seq
            · split
              · exact fo_seq (by fo) (fo_loopRun p)
              · exact fo_ok
            · fo
          · fo
        · fo
theorem fo_handlePINGRESP (p : Nat) : FiresOk (handlePINGRESP p) := by unfold handlePINGRESP; fo
theorem fo_handleSubUnsubAck (p : Nat) (b : Bool) (m : Nat) (v : Val) : FiresOk (handleSubUnsubAck p b m v) := by unfold handleSubUnsubAck; fo
theorem fo_handlePUBLISH (p : Nat) (m : RxMsg) : FiresOk (handlePUBLISH p m) := by
  unfold handlePUBLISH
  split
  · exact fo_deliver p m
  · split
    · split
      · exact fo_seq (fo_write _ _) (fo_deliver p m)
      · fo
    · fo
theorem fo_handlePUBREL (p : Nat) (m : Nat) : FiresOk (handlePUBREL p m) := by
  unfold handlePUBREL
  apply fo_read; intro w
  apply fo_seq
  · split
    · fo
    · exact fo_seq (by fo) (fo_deliver p _)
  · fo
theorem fo_handlePUBACK (p : Nat) (m : Nat) : FiresOk (handlePUBACK p m) := by unfold handlePUBACK; fo
theorem fo_handlePUBREC (p : Nat) (m : Nat) : FiresOk (handlePUBREC p m) := by unfold handlePUBREC; fo
theorem fo_handlePUBCOMP (p : Nat) (m : Nat) : FiresOk (handlePUBCOMP p m) := by unfold handlePUBCOMP; fo

theorem fo_processPacket (p : Nat) (pkt : Bytes) : FiresOk (processPacket p pkt) := by
  unfold processPacket abort
  split
  · fo
  · rename_i h0 rest
    dsimp only
    have ht := nibble_lt h0
    generalize (h0 &&& 0xF0) >>> 4 = t at ht ⊢
    split
    · fo
    · split
      · fo
      · apply fo_read; intro w
        have : t = 0 ∨ t = 1 ∨ t = 2 ∨ t = 3 ∨ t = 4 ∨ t = 5 ∨ t = 6 ∨ t = 7 ∨ t = 8 ∨ t = 9 ∨ t = 10 ∨ t = 11 ∨ t = 12 ∨
            t = 13 ∨ t = 14 ∨ t = 15 := by omega
        rcases this with rfl | rfl | rfl | rfl | rfl | rfl | rfl | rfl | rfl | rfl | rfl | rfl | rfl | rfl | rfl | rfl
        all_goals (try simp only [])
        all_goals (try (with_reducible split))
        all_goals (try (with_reducible split))
        all_goals with_reducible first
          | exact fo_ok | exact fo_emit _ rfl | exact fo_handleCONNACK _ _ _ | exact fo_handlePINGRESP _
          | exact fo_handleSubUnsubAck _ _ _ _
          | exact fo_handlePUBLISH _ _ | exact fo_handlePUBACK _ _ | exact fo_handlePUBREC _ _ | exact fo_handlePUBREL _ _ | exact fo_handlePUBCOMP _ _

theorem fo_accumulate (p : Nat) (fuel : Nat) : FiresOk (accumulate p fuel) := by
  induction fuel with
  | zero => exact fo_ok
  | succ f ih =>
    unfold accumulate
    apply fo_read; intro w
    split
    · exact fo_ok
    · exact fo_seq (fo_processPacket _ _) (fo_seq (by fo) ih)

theorem fo_dataReceived (p : Nat) (d : Bytes) : FiresOk (dataReceived p d) := by
  unfold dataReceived
  apply fo_seq (by fo)
  apply fo_read; intro w
  exact fo_accumulate _ _

theorem fo_drainQueue (p : Nat) (r : Err) (fuel : Nat) : FiresOk (drainQueue p r fuel) := by
  induction fuel with
  | zero => exact fo_ok
  | succ f ih =>
    unfold drainQueue
    apply fo_read; intro w
    split
    · exact fo_ok
    · exact fo_seq (by fo) (fo_seq (by fo) ih)

theorem fo_connectionLost (p : Nat) (r : Err) : FiresOk (connectionLost p r) := by
  unfold connectionLost
  apply fo_read; intro w
  apply fo_seq
  · split
    · exact fo_ok
    · exact fo_seq (fo_loopStop p) (by fo)
  apply fo_seq (by fo)
  apply fo_seq
  · unfold doConnectionLost cancelWindowAlarms failWindow
    apply fo_read; intro w
    apply fo_seq (by fo)
    apply fo_seq (by fo)
    apply fo_seq (by fo)
    apply fo_seq (by fo)
    apply fo_seq (by fo)
    apply fo_seq (by fo)
    apply fo_read; intro w
    split
    · apply fo_seq (fo_purgeSession _ _)
      apply fo_read; intro w
      exact fo_drainQueue _ _ _
    · exact fo_ok
  · fo

theorem fo_fireTimer (t : Nat) : FiresOk (fireTimer t) := by
  unfold fireTimer
  apply fo_read; intro w
  split
  · fo
  · split
    · apply fo_seq (by fo)
      rename_i tm _ _
      unfold runTimer
      cases tm.kind with
      | connack cr => simp only []; unfold abort; fo
      | pingLoop p => exact fo_seq (by fo) (fo_loopRun p)
      | pingAlarm p => simp only []; unfold abort; fo
      | retry p rid => simp only []; fo
      | onDisc p r => simp only []; fo
    · fo

theorem fo_apiConnect (p : Nat) (a : ConnectArgs) : FiresOk (apiConnect p a) := by
  unfold apiConnect
  generalize a.toF.encode = E
  fo
theorem fo_apiDisconnect (p : Nat) : FiresOk (apiDisconnect p) := by unfold apiDisconnect; fo
theorem fo_apiPublish (p : Nat) (t : PyStr) (pl : Payload) (q : Int) (r : Bool) : FiresOk (apiPublish p t pl q r) := by
  unfold apiPublish; fo
theorem fo_registerSubUnsub (p : Nat) (s : Bool) (i : Nat) (bs : Bytes) : FiresOk (registerSubUnsub p s i bs) := by
  unfold registerSubUnsub; fo
theorem fo_apiSubscribe (p : Nat) (a : SubArg) (q : Int) : FiresOk (apiSubscribe p a q) := by
  unfold apiSubscribe
  apply fo_read; intro w
  split
  · fo
  · dsimp only
    split
    · fo
    · split
      · fo
      · split
        · fo
        · split
          · fo
          · apply fo_makeId; intro i
            generalize encodeWithId _ i _ = E
            cases E with
            | error e => fo
            | ok bs => exact fo_registerSubUnsub _ _ _ _
theorem fo_apiUnsubscribe (p : Nat) (a : UnsubArg) : FiresOk (apiUnsubscribe p a) := by
  unfold apiUnsubscribe
  apply fo_read; intro w
  split
  · fo
  · apply fo_makeId; intro _
    apply fo_read; intro w
    dsimp only
    split
    · fo
    · split
      · fo
      · split
        · fo
        · apply fo_makeId; intro i
          generalize encodeWithId _ i _ = E
          cases E with
          | error e => fo
          | ok bs => exact fo_registerSubUnsub _ _ _ _
theorem fo_apiSetWindow (p : Nat) (n : PyNum) : FiresOk (apiSetWindow p n) := by unfold apiSetWindow; fo
theorem fo_apiSetTimeout (p : Nat) (n : PyNum) : FiresOk (apiSetTimeout p n) := by unfold apiSetTimeout; fo
theorem fo_apiSetBandwith (p : Nat) (b f : Rat) : FiresOk (apiSetBandwith p b f) := by unfold apiSetBandwith; fo
theorem fo_apiSetHandlers (p : Nat) (m : Nat) : FiresOk (apiSetHandlers p m) := fo_setProto _ _

theorem fo_handler (op : Op) : FiresOk op.handler := by
  cases op with
  | build a => exact fo_mod fun _ => ⟨rfl, rfl⟩
  | sethandlers p m => exact fo_apiSetHandlers p m
  | connect p a => exact fo_apiConnect p a
  | disconnect p => exact fo_apiDisconnect p
  | publish p t pl q r => exact fo_apiPublish p t pl q r
  | subscribe p a q => exact fo_apiSubscribe p a q
  | unsubscribe p a => exact fo_apiUnsubscribe p a
  | setwin p n => exact fo_apiSetWindow p n
  | settimeout p n => exact fo_apiSetTimeout p n
  | setbw p b f => exact fo_apiSetBandwith p b f
  | jit v => exact fo_mod fun _ => ⟨rfl, rfl⟩
  | setid v => exact fo_mod fun _ => ⟨rfl, rfl⟩
  | recv p d => exact fo_dataReceived p d
  | lost p r => exact fo_connectionLost p r
  | fire t => exact fo_fireTimer t

theorem good_step {w : World} (h : Good w) (op : Op) : Good (step w op) := by
  have h1 := fo_handler op w h
  simp only [step]
  rcases hr : op.handler w with ⟨w', _ | e⟩
  · rw [hr] at h1; exact h1
  · rw [hr] at h1
    refine good_quiet (w := w') rfl [_] rfl ?_ h1
    split <;> rfl

theorem good_run : ∀ (ops : List Op) {w : World}, Good w → Good (run w ops) := by
  intro ops
  induction ops with
  | nil => intro w h; exact h
  | cons op rest ih => intro w h; exact ih (good_step h op)

/-- **Every Deferred fires at most once** (C04, C05, C07, C11): in any history whatsoever -- no environment
    assumption is needed -- the `fired` observations of the log carry pairwise distinct Deferred ids. -/
theorem fires_at_most_once (profile : Nat) (ops : List Op) :
    (firedIds (run (World.init profile) ops).log).Nodup := by
  have h := good_run ops (w := World.init profile) ⟨List.nodup_nil, rfl⟩
  rw [h.2]
  have h1 := h.1
  simp only [List.Nodup, List.pairwise_reverse] at *
  exact h1.imp (fun hne hc => hne hc.symm)

end Mqtt
