import MqttVerif.Proofs.Deadline
/-
  C06 ("the client never emits these acknowledgements unprompted") and C18: what kind of packet each operation can write.
  `reqHead bs`: the first byte of `bs` has type nibble 3 (PUBLISH), 6 (PUBREL), 8 (SUBSCRIBE) or 10 (UNSUBSCRIBE).  `HeadInv`: the stored
  bytes of every request object have such a first byte -- they come from the four request encoders and only bit 3 (DUP) is ever patched.
  `HW B s`: `s` keeps `HeadInv` and every packet it writes satisfies `B`.
-/
namespace Mqtt

def nib (h : Nat) : Nat := h >>> 4

def reqHead : Bytes → Bool
  | [] => false
  | h :: _ => nib h == 3 || nib h == 6 || nib h == 8 || nib h == 10

/-- a packet only a client sends first: CONNECT, PUBLISH, PUBREL, SUBSCRIBE, UNSUBSCRIBE, PINGREQ, DISCONNECT -/
def clientHead : Bytes → Bool
  | [] => false
  | h :: _ => nib h == 1 || nib h == 3 || nib h == 6 || nib h == 8 || nib h == 10 || nib h == 12 || nib h == 14

theorem clientHead_of_reqHead {bs : Bytes} (h : reqHead bs = true) : clientHead bs = true := by
  cases bs with
  | nil => cases h
  | cons a r => simp only [reqHead, clientHead, Bool.or_eq_true] at h ⊢; rcases h with ((h | h) | h) | h <;> simp [h]

theorem nib_or8 (h : Nat) : nib (h ||| 8) = nib h := by
  simp only [nib, Nat.shiftRight_or_distrib]
  have : (8 : Nat) >>> 4 = 0 := by decide
  rw [this, Nat.or_zero]
theorem nib_orDup (h : Nat) (b : Bool) : nib (h ||| (b2n b <<< 3)) = nib h := by
  cases b
  · simp [b2n]
  · simpa [b2n] using nib_or8 h

theorem reqHead_patchDup (bs : Bytes) (dup : Bool) (h : reqHead bs = true) : reqHead (patchDup bs dup) = true := by
  cases bs with
  | nil => cases h
  | cons a r => simpa only [patchDup, reqHead, nib_orDup] using h

theorem nib_and_f7 (h : Nat) (hn : nib h < 16) : nib (h &&& 0xF7) = nib h := by
  simp only [nib, Nat.shiftRight_and_distrib] at hn ⊢
  have : (0xF7 : Nat) >>> 4 = 15 := by decide
  rw [this]
  have h15 : (15 : Nat) = 2 ^ 4 - 1 := by decide
  rw [h15, Nat.and_two_pow_sub_one_eq_mod]
  exact Nat.mod_eq_of_lt hn

theorem reqHead_clearDup (bs : Bytes) (h : reqHead bs = true) : reqHead (clearDup bs) = true := by
  cases bs with
  | nil => cases h
  | cons a r =>
    have hn : nib a < 16 := by
      simp only [reqHead, Bool.or_eq_true, beq_iff_eq] at h
      rcases h with ((h | h) | h) | h <;> omega
    simpa only [clearDup, reqHead, nib_and_f7 a hn] using h

theorem reqHead_cons (h : Nat) (r : Bytes) : reqHead ([h] ++ r) = (nib h == 3 || nib h == 6 || nib h == 8 || nib h == 10) := rfl
theorem publish_head (f : PublishF) (bs : Bytes) (h : f.encode = .ok bs) (hq : f.qos < 3) (hd : f.dup = false) : reqHead bs = true := by
  unfold PublishF.encode at h
  by_cases h0 : f.qos = 0
  · simp only [h0, bne_self_eq_false, Bool.false_eq_true, ↓reduceIte, bind, Except.bind] at h
    cases ht : encodeString f.topic with
    | error e => simp [ht] at h
    | ok t =>
      simp only [ht, pure, Except.pure] at h
      cases hp : f.payload.toBytes with
      | error e => simp [hp] at h
      | ok pl =>
        simp only [hp] at h
        split at h
        · cases h
        · injection h with h; subst h
          simp only [List.append_assoc, reqHead_cons]
          cases f.retain <;> decide
  · have hne : (f.qos != 0) = true := by simp [h0]
    simp only [hne, ↓reduceIte, bind, Except.bind] at h
    have hx : (0x30 ||| b2n f.retain ||| (f.qos <<< 1) ||| (b2n f.dup <<< 3)) < 256 ∧ nib (0x30 ||| b2n f.retain ||| (f.qos <<< 1) ||| (b2n f.dup <<< 3)) = 3 := by
      rw [hd]
      have : f.qos = 1 ∨ f.qos = 2 := by omega
      rcases this with hqq | hqq <;> rw [hqq] <;> cases f.retain <;> decide
    simp only [byte, hx.1, ↓reduceIte] at h
    cases ht : encodeString f.topic with
    | error e => simp [ht] at h
    | ok t =>
      simp only [ht] at h
      cases hm : f.msgId with
      | none => simp [hm] at h
      | some i =>
        simp only [hm] at h
        cases hi : encode16Int i with
        | error e => simp [hi] at h
        | ok m =>
          simp only [hi, pure, Except.pure] at h
          cases hp : f.payload.toBytes with
          | error e => simp [hp] at h
          | ok pl =>
            simp only [hp] at h
            split at h
            · cases h
            · injection h with h; subst h
              simp only [List.append_assoc, reqHead_cons, hx.2]
              decide

theorem publishPy_head (topic : PyStr) (payload : Payload) (qos : Nat) (retain : Bool) (msgId : Option Int) (bs : Bytes)
    (h : encodePublishPy topic payload qos retain msgId = .ok bs) (hq : qos < 3) : reqHead bs = true := by
  cases topic with
  | str s => exact publish_head ⟨s, payload, qos, false, retain, msgId⟩ bs h hq rfl
  | none => simp only [encodePublishPy] at h; split at h <;> simp [bind, Except.bind, byte] at h <;> (try split at h) <;> simp at h
  | other => simp only [encodePublishPy] at h; split at h <;> simp [bind, Except.bind, byte] at h <;> (try split at h) <;> simp at h

theorem withId_head (hdr msgId : Nat) (payload : Except Err Bytes) (bs : Bytes) (h : encodeWithId hdr msgId payload = .ok bs) :
    ∃ r, bs = [hdr] ++ r := by
  unfold encodeWithId at h
  generalize encode16Int (msgId : Int) = E1 at h
  cases E1 with
  | error e => cases h
  | ok v =>
    cases payload with
    | error e => cases h
    | ok pl =>
      have : (Except.ok ([hdr] ++ encodeLength (v.length + pl.length) ++ v ++ pl) : Except Err Bytes) = .ok bs := h
      injection this with this
      exact ⟨encodeLength (v.length + pl.length) ++ v ++ pl, by rw [← this]; simp only [List.append_assoc]⟩

theorem ack_head (hdr : Nat) (msgId : Int) (bs : Bytes) (h : encodeAck hdr msgId = .ok bs) : ∃ r, bs = [hdr] ++ r := by
  simp only [encodeAck, bind, Except.bind] at h
  cases h1 : encode16Int msgId with
  | error e => simp [h1] at h
  | ok v =>
    simp only [h1, pure, Except.pure] at h
    injection h with h
    exact ⟨encodeLength v.length ++ v, by rw [← h]; simp only [List.append_assoc]⟩


/-! ### the invariant and the step predicate -/

/-- bytes of a request object: none yet, or a request packet -/
def headOk (bs : Bytes) : Bool := bs.isEmpty || reqHead bs
/-- what may go to a transport outside the processing of received bytes: nothing, or a packet only a client originates -/
def clientPkt (bs : Bytes) : Bool := bs.isEmpty || clientHead bs

theorem clientPkt_of_headOk {bs : Bytes} (h : headOk bs = true) : clientPkt bs = true := by
  simp only [headOk, clientPkt, Bool.or_eq_true] at h ⊢
  rcases h with h | h
  · exact Or.inl h
  · exact Or.inr (clientHead_of_reqHead h)
theorem headOk_patchDup (bs : Bytes) (dup : Bool) (h : headOk bs = true) : headOk (patchDup bs dup) = true := by
  cases bs with
  | nil => rfl
  | cons a r =>
    simp only [headOk, List.isEmpty_cons, Bool.false_or] at h ⊢
    exact reqHead_patchDup (a :: r) dup h
theorem headOk_clearDup (bs : Bytes) (h : headOk bs = true) : headOk (clearDup bs) = true := by
  cases bs with
  | nil => rfl
  | cons a r =>
    simp only [headOk, List.isEmpty_cons, Bool.false_or] at h ⊢
    exact reqHead_clearDup (a :: r) h

def HeadInv (w : World) : Prop := ∀ rid r, w.reqs.get? rid = some r → headOk r.encoded = true

theorem HeadInv.req {w : World} (h : HeadInv w) (rid : Nat) : headOk (w.req rid).encoded = true := by
  cases hq : w.reqs.get? rid with
  | none => simp [World.req, hq]; rfl
  | some r => simp only [World.req, hq, Option.getD_some]; exact h rid r hq

/-- `s` keeps `HeadInv`, and every packet it writes satisfies `B` -/
def HW (B : Bytes → Bool) (s : Step) : Prop :=
  ∀ w, HeadInv w → HeadInv (s w).1 ∧ ∃ l, (s w).1.log = w.log ++ l ∧ ∀ q bs, Obs.write q bs ∈ l → B bs = true

section hw
variable {B : Bytes → Bool}

theorem hw_ok : HW B Step.ok := fun _ h => ⟨h, [], by simp [Step.ok], by simp⟩
theorem hw_raise (e : Err) : HW B (Step.raise e) := fun _ h => ⟨h, [], by simp [Step.raise], by simp⟩
theorem hw_seq {a b : Step} (ha : HW B a) (hb : HW B b) : HW B (a ;; b) := by
  intro w h
  obtain ⟨a0, l1, a1, a2⟩ := ha w h
  simp only [Step.seq]
  rcases hw : a w with ⟨w1, _ | e⟩
  · rw [hw] at a0 a1
    obtain ⟨b0, l2, b1, b2⟩ := hb w1 a0
    refine ⟨b0, l1 ++ l2, by rw [b1, a1, List.append_assoc], fun q bs ho => ?_⟩
    rcases List.mem_append.mp ho with ho | ho
    · exact a2 q bs ho
    · exact b2 q bs ho
  · rw [hw] at a0 a1; exact ⟨a0, l1, a1, a2⟩
theorem hw_read {f : World → Step} (hf : ∀ w, HeadInv w → HW B (f w)) : HW B (Step.read f) := fun w h => hf w h w h
theorem hw_mod {f : World → World} (h1 : ∀ w, (f w).reqs = w.reqs) (h2 : ∀ w, (f w).log = w.log) : HW B (Step.mod f) := fun w h =>
  ⟨fun rid r hr => h rid r (by have := hr; simp only [Step.mod] at this; rw [h1] at this; exact this), [], by simp [Step.mod, h2 w], by simp⟩
theorem hw_emit (o : Obs) (ho : ∀ q bs, o = .write q bs → B bs = true) : HW B (emit o) := fun w h =>
  ⟨h, [o], rfl, fun q bs hm => ho q bs (List.mem_singleton.mp hm).symm⟩
theorem hw_emit' (o : Obs) (ho : ∀ q bs, o ≠ .write q bs) : HW B (emit o) := hw_emit o fun q bs h => absurd h (ho q bs)
theorem hw_write (q : Nat) (bs : Bytes) (hb : B bs = true) : HW B (write q bs) :=
  hw_emit _ fun q' bs' h => by injection h with _ h2; rw [← h2]; exact hb
theorem hw_abort (q : Nat) : HW B (abort q) := hw_emit' _ (fun _ _ h => by cases h)
theorem hw_setProto (q : Nat) (g : Proto → Proto) : HW B (setProto q g) := hw_mod (fun _ => rfl) (fun _ => rfl)
theorem hw_setEnts (g : List Ent → List Ent) : HW B (setEnts g) := hw_mod (fun _ => rfl) (fun _ => rfl)
theorem headInv_set {w : World} (h : HeadInv w) (rid : Nat) (R : Req) (hR : headOk R.encoded = true) {w' : World} (hw : w'.reqs = w.reqs.set rid R) :
    HeadInv w' := by
  intro r0 r hr
  rw [hw, Dict.get?_set] at hr
  split at hr
  · injection hr with hr; rw [← hr]; exact hR
  · exact h r0 r hr
theorem hw_setReq (rid : Nat) (g : Req → Req) (hg : ∀ r, headOk r.encoded = true → headOk (g r).encoded = true) : HW B (setReq rid g) := fun w h =>
  ⟨headInv_set h rid (g (w.req rid)) (hg _ (h.req rid)) rfl, [], by simp [setReq, Step.mod, World.setReq], by simp⟩
theorem hw_callLater (d : Rat) (k : TKind) {c : Nat → Step} (hc : ∀ t, HW B (c t)) : HW B (callLater d k c) :=
  hw_read fun _ _ => hw_seq (hw_mod (fun _ => rfl) (fun _ => rfl)) (hc _)
theorem hw_newDfd {c : Nat → Step} (hc : ∀ t, HW B (c t)) : HW B (newDfd c) :=
  hw_read fun _ _ => hw_seq (hw_mod (fun _ => rfl) (fun _ => rfl)) (hc _)
theorem hw_makeId {c : Nat → Step} (hc : ∀ t, HW B (c t)) : HW B (makeId c) :=
  hw_read fun _ _ => hw_seq (hw_mod (fun _ => rfl) (fun _ => rfl)) (hc _)
theorem hw_cancelTimer (t : Nat) : HW B (cancelTimer t) := by
  refine hw_read fun w _ => ?_
  split
  · exact hw_raise _
  · split
    · exact hw_mod (fun _ => rfl) (fun _ => rfl)
    · exact hw_raise _
    · exact hw_raise _
theorem hw_cancelAlarm (a : Option Nat) : HW B (cancelAlarm a) := by
  cases a with
  | none => exact hw_raise _
  | some t => exact hw_cancelTimer t
theorem hw_fireDfd (d : Nat) (o : Outcome) : HW B (fireDfd d o) := by
  refine hw_read fun w _ => ?_
  split
  · exact hw_raise _
  · exact hw_seq (hw_mod (fun _ => rfl) (fun _ => rfl)) (hw_emit' _ (fun _ _ h => by cases h))
theorem hw_fireReqDfd (d : Option Nat) (o : Outcome) : HW B (fireReqDfd d o) := by
  cases d with
  | none => exact hw_raise _
  | some d => exact hw_fireDfd d o
theorem hw_forEach {α : Type} (l : List α) {f : α → Step} (hf : ∀ a, HW B (f a)) : HW B (forEach l f) := by
  induction l with
  | nil => exact hw_ok
  | cons a r ih => exact hw_seq (hf a) ih
theorem hw_deliver (q : Nat) (m : RxMsg) : HW B (deliver q m) := by
  refine hw_read fun w _ => ?_
  split
  · exact hw_emit' _ (fun _ _ h => by cases h)
  · exact hw_ok

end hw

/-! ### world-level helpers -/

def HWW (B : Bytes → Bool) (f : World → World) : Prop :=
  ∀ w, HeadInv w → HeadInv (f w) ∧ ∃ l, (f w).log = w.log ++ l ∧ ∀ q bs, Obs.write q bs ∈ l → B bs = true

section hww
variable {B : Bytes → Bool}
theorem HWW.id : HWW B (fun w => w) := fun _ h => ⟨h, [], by simp, by simp⟩
theorem HWW.comp {f g : World → World} (hf : HWW B f) (hg : HWW B g) : HWW B (fun w => g (f w)) := by
  intro w h
  obtain ⟨f0, l1, f1, f2⟩ := hf w h
  obtain ⟨g0, l2, g1, g2⟩ := hg (f w) f0
  refine ⟨g0, l1 ++ l2, by rw [g1, f1, List.append_assoc], fun q bs ho => ?_⟩
  rcases List.mem_append.mp ho with ho | ho
  · exact f2 q bs ho
  · exact g2 q bs ho
theorem hw_modW {f : World → World} (hf : HWW B f) : HW B (Step.mod f) := fun w h => hf w h

theorem retryPublishW_hww (hB : ∀ bs, headOk bs = true → B bs = true) (p rid : Nat) (dup : Bool) : HWW B (retryPublishW p rid dup) := by
  intro w h
  have h0 := headOk_patchDup _ dup (h.req rid)
  refine ⟨?_, [.write p (patchDup (w.req rid).encoded dup)], ?_, ?_⟩
  · intro r0 R hR
    simp only [retryPublishW] at hR
    split at hR <;> simp only [emit_reqs, setReq_reqs, callLater_reqs, Dict.get?_set, req_setReq, callLater_req, ↓reduceIte] at hR
    all_goals ((repeat' (split at hR)) <;> first | exact h r0 R hR | (injection hR with hR; rw [← hR]; exact h0))
  · simp only [retryPublishW]
    split <;> simp
  · intro q bs ho
    have := List.mem_singleton.mp ho
    injection this with _ h2
    rw [h2]; exact hB _ h0

theorem retryReleaseW_hww (hB : ∀ bs, headOk bs = true → B bs = true) (p rid : Nat) (dup : Bool) : HWW B (retryReleaseW p rid dup) := by
  intro w h
  have h0 := headOk_patchDup _ dup (h.req rid)
  have h1 := headOk_clearDup _ (h.req rid)
  refine ⟨?_, ?_⟩
  · intro r0 R hR
    simp only [retryReleaseW] at hR
    split at hR <;> simp only [emit_reqs, setReq_reqs, callLater_reqs, Dict.get?_set, req_setReq, callLater_req, ↓reduceIte] at hR
    all_goals ((repeat' (split at hR)) <;> first | exact h r0 R hR | (injection hR with hR; rw [← hR]; first | exact h0 | exact h1))
  · simp only [retryReleaseW]
    split
    · refine ⟨[.write p (patchDup (w.req rid).encoded dup)], by simp, fun q bs ho => ?_⟩
      have := List.mem_singleton.mp ho
      injection this with _ h2
      rw [h2]; exact hB _ h0
    · refine ⟨[.write p (clearDup (w.req rid).encoded)], by simp, fun q bs ho => ?_⟩
      have := List.mem_singleton.mp ho
      injection this with _ h2
      rw [h2]; exact hB _ h1
theorem retrySubUnsubW_hww (hB : ∀ bs, headOk bs = true → B bs = true) (p rid : Nat) (dup s : Bool) : HWW B (retrySubUnsubW p rid dup s) := by
  intro w h
  have h0 := headOk_patchDup _ dup (h.req rid)
  have h1 := h.req rid
  refine ⟨?_, ?_⟩
  · intro r0 R hR
    simp only [retrySubUnsubW] at hR
    split at hR <;> simp only [emit_reqs, setReq_reqs, callLater_reqs, Dict.get?_set, req_setReq, callLater_req, ↓reduceIte] at hR
    all_goals ((repeat' (split at hR)) <;> first | exact h r0 R hR | (injection hR with hR; rw [← hR]; first | exact h0 | exact h1))
  · simp only [retrySubUnsubW]
    split
    · refine ⟨[.write p (patchDup (w.req rid).encoded dup)], by simp, fun q bs ho => ?_⟩
      have := List.mem_singleton.mp ho
      injection this with _ h2
      rw [h2]; exact hB _ h0
    · refine ⟨[.write p (w.req rid).encoded], by simp, fun q bs ho => ?_⟩
      have := List.mem_singleton.mp ho
      injection this with _ h2
      rw [h2]; exact hB _ h1

theorem hww_setEnts (g : List Ent → List Ent) : HWW B (fun w => w.setEnts g) := fun _ h => ⟨h, [], by simp, by simp⟩
theorem refillW_hww (hB : ∀ bs, headOk bs = true → B bs = true) (p : Nat) (dup : Bool) (fuel : Nat) : HWW B (refillW p dup fuel) := by
  induction fuel with
  | zero => exact HWW.id
  | succ f ih =>
    intro w
    simp only [refillW]
    split
    · exact HWW.id w
    · rename_i e _ _
      split
      · have h1 : HWW B (fun w' : World => if (w.req e.rid).msgId ≠ 0 then
            (w'.setEnts fun es => Ents.dropFirst es (w.paddr p) .queue).setEnts fun es => Ents.insert es (w.paddr p) .pub (w.req e.rid).msgId e.rid
            else w'.setEnts fun es => Ents.dropFirst es (w.paddr p) .queue) := by
          intro w' hw'; split <;> exact ⟨hw', [], by simp, by simp⟩
        exact (h1.comp ((retryPublishW_hww hB p e.rid dup).comp ih)) w
      · exact HWW.id w
theorem foldl_hww (l : List Ent) (f : World → Ent → World) (hf : ∀ e, HWW B (fun w => f w e)) : HWW B (fun w => l.foldl f w) := by
  induction l with
  | nil => exact HWW.id
  | cons e r ih => exact (hf e).comp ih
theorem syncW_hww (hB : ∀ bs, headOk bs = true → B bs = true) (p : Nat) : HWW B (syncW p) := by
  intro w
  simp only [syncW]
  have h1 := foldl_hww (B := B) (Ents.items w.ents (w.paddr p) .rel)
    (fun w e => if (w.req e.rid).alarm = none then retryReleaseW p e.rid true w else w)
    (fun e w' => by
      by_cases hc : (w'.req e.rid).alarm = none
      · simp only [hc, ↓reduceIte]; exact retryReleaseW_hww hB p e.rid true w'
      · simp only [hc, ↓reduceIte]; exact HWW.id w')
  obtain ⟨w1, hw1⟩ : ∃ w1, w1 = (Ents.items w.ents (w.paddr p) .rel).foldl
    (fun w e => if (w.req e.rid).alarm = none then retryReleaseW p e.rid true w else w) w := ⟨_, rfl⟩
  have h2 := foldl_hww (B := B) (Ents.items w1.ents (w1.paddr p) .pub)
    (fun w e => if (w.req e.rid).alarm = none then retryPublishW p e.rid true w else w)
    (fun e w' => by
      by_cases hc : (w'.req e.rid).alarm = none
      · simp only [hc, ↓reduceIte]; exact retryPublishW_hww hB p e.rid true w'
      · simp only [hc, ↓reduceIte]; exact HWW.id w')
  intro h
  obtain ⟨a0, l1, a1, a2⟩ := h1 w h
  dsimp only at a0 a1
  rw [← hw1] at a0 a1 ⊢
  obtain ⟨b0, l2, b1, b2⟩ := h2 w1 a0
  refine ⟨b0, l1 ++ l2, by rw [b1, a1, List.append_assoc], fun q bs ho => ?_⟩
  rcases List.mem_append.mp ho with ho | ho
  · exact a2 q bs ho
  · exact b2 q bs ho

section handlers
variable (hB : ∀ bs, headOk bs = true → B bs = true)
include hB

theorem hw_retryPublish (q rid : Nat) (dup : Bool) : HW B (retryPublish q rid dup) := hw_modW (retryPublishW_hww hB q rid dup)
theorem hw_retryRelease (q rid : Nat) (dup : Bool) : HW B (retryRelease q rid dup) := hw_modW (retryReleaseW_hww hB q rid dup)
theorem hw_retrySubUnsub (q rid : Nat) (dup s : Bool) : HW B (retrySubUnsub q rid dup s) := hw_modW (retrySubUnsubW_hww hB q rid dup s)
theorem hw_refill (q : Nat) : HW B (refill q) := fun w h => refillW_hww hB q false _ w h
theorem hw_syncSession (q : Nat) : HW B (syncSession q) := hw_modW (syncW_hww hB q)
end handlers

end hww

/-! ### acknowledgements, handlers, operations -/

def ackHead : Bytes → Bool
  | [] => false
  | h :: _ => nib h == 4 || nib h == 5 || nib h == 7
theorem ackHead_cons (h : Nat) (r : Bytes) : ackHead ([h] ++ r) = ackHead [h] := rfl
def isConnect : Bytes → Bool
  | [] => false
  | h :: _ => nib h == 1
def isPing (bs : Bytes) : Bool := bs == encodePINGREQ
def isDisconnect (bs : Bytes) : Bool := bs == encodeDISCONNECT
/-- what may go to a transport while received bytes are processed -/
def recvPkt (bs : Bytes) : Bool := clientPkt bs || ackHead bs

theorem not_ack_of_clientPkt {bs : Bytes} (h : clientPkt bs = true) : ackHead bs = false := by
  cases bs with
  | nil => rfl
  | cons a r =>
    simp only [clientPkt, List.isEmpty_cons, Bool.false_or, clientHead, Bool.or_eq_true, beq_iff_eq] at h
    simp only [ackHead]
    rcases h with (((((h | h) | h) | h) | h) | h) | h <;> simp [h]

theorem connect_first (f : ConnectF) (bs : Bytes) (h : f.encode = .ok bs) : isConnect bs = true := by
  have : ∃ r, bs = [0x10] ++ r := by
    simp only [ConnectF.encode, bind, Except.bind, pure, Except.pure] at h
    repeat' (split at h)
    all_goals (cases h; try exact ⟨_, by rw [List.append_assoc, List.append_assoc]⟩)
  obtain ⟨r, rfl⟩ := this
  have : isConnect ([0x10] ++ r) = (nib 0x10 == 1) := rfl
  rw [this]; decide

theorem headOk_cons (h : Nat) (r : Bytes) (hh : (nib h == 3 || nib h == 6 || nib h == 8 || nib h == 10) = true) : headOk ([h] ++ r) = true := by
  simp only [headOk, reqHead_cons, hh, Bool.or_true]
theorem recvPkt_of_client {bs : Bytes} (h : clientPkt bs = true) : recvPkt bs = true := by simp only [recvPkt, h, Bool.true_or]
theorem recvPkt_of_ack {bs : Bytes} (h : ackHead bs = true) : recvPkt bs = true := by simp only [recvPkt, h, Bool.or_true]

macro "hw_step" : tactic => `(tactic| first
  | with_reducible exact hw_ok | with_reducible exact hw_raise _ | with_reducible exact hw_abort _
  | with_reducible exact hw_setProto _ _ | with_reducible exact hw_setEnts _
  | with_reducible exact hw_cancelTimer _ | with_reducible exact hw_cancelAlarm _
  | with_reducible exact hw_fireDfd _ _ | with_reducible exact hw_fireReqDfd _ _
  | with_reducible exact hw_deliver _ _
  | with_reducible exact hw_refill (by assumption) _ | with_reducible exact hw_syncSession (by assumption) _
  | with_reducible exact hw_retryPublish (by assumption) _ _ _ | with_reducible exact hw_retryRelease (by assumption) _ _ _
  | with_reducible exact hw_retrySubUnsub (by assumption) _ _ _ _
  | ((with_reducible apply hw_emit'); (intro q bs h; cases h))
  | ((with_reducible apply hw_mod); (intro w; rfl); (intro w; rfl))
  | ((with_reducible apply hw_setReq); (intro r h; exact h))
  | with_reducible apply hw_seq | ((with_reducible apply hw_read); intro w hw) | ((with_reducible apply hw_callLater); intro t)
  | ((with_reducible apply hw_newDfd); intro t) | ((with_reducible apply hw_makeId); intro t)
  | ((with_reducible apply hw_forEach); intro e)
  | split
  | dsimp only)
macro "hws" : tactic => `(tactic| repeat hw_step)

set_option linter.unusedSectionVars false
section handlers
variable {B : Bytes → Bool} (hB : ∀ bs, headOk bs = true → B bs = true)
include hB

theorem hw_drainQueue (p : Nat) (r : Err) (fuel : Nat) : HW B (drainQueue p r fuel) := by
  induction fuel with
  | zero => exact hw_ok
  | succ f ih =>
    unfold drainQueue
    refine hw_read fun w _ => ?_
    split
    · exact hw_ok
    · apply hw_seq (hw_setEnts _)
      apply hw_seq
      · split
        · exact hw_fireReqDfd _ _
        · exact hw_ok
      · exact ih
theorem hw_loopStop (p : Nat) : HW B (loopStop p) := by unfold loopStop; hws
theorem hw_cancelWindowAlarms (l : List Ent) : HW B (cancelWindowAlarms l) := by unfold cancelWindowAlarms; hws
theorem hw_failWindow (p : Nat) (s : Bool) (r : Err) : HW B (failWindow p s r) := by unfold failWindow; hws
theorem hw_purgeSession (p : Nat) (r : Err) : HW B (purgeSession p r) := by unfold purgeSession purgeWindow; hws
theorem hw_doConnectionLost (p : Nat) (r : Err) : HW B (doConnectionLost p r) := by
  unfold doConnectionLost
  refine hw_read fun w _ => ?_
  refine hw_seq (hw_cancelWindowAlarms hB _) (hw_seq (hw_cancelWindowAlarms hB _) (hw_seq (hw_cancelWindowAlarms hB _) (hw_seq (hw_cancelWindowAlarms hB _)
    (hw_seq (hw_failWindow hB _ _ _) (hw_seq (hw_failWindow hB _ _ _) ?_)))))
  refine hw_read fun w' _ => ?_
  split
  · exact hw_seq (hw_purgeSession hB _ _) (hw_read fun _ _ => hw_drainQueue hB _ _ _)
  · exact hw_ok
theorem hw_connectionLost (p : Nat) (r : Err) : HW B (connectionLost p r) := by
  unfold connectionLost
  refine hw_read fun w _ => ?_
  apply hw_seq
  · split
    · exact hw_ok
    · exact hw_seq (hw_loopStop hB _) (hw_setProto _ _)
  apply hw_seq
  · split
    · exact hw_ok
    · exact hw_seq (hw_cancelTimer _) (hw_setProto _ _)
  apply hw_seq (hw_doConnectionLost hB p r)
  apply hw_seq (hw_setProto _ _)
  hws
theorem hw_doPingRequest (hP : B encodePINGREQ = true) (p : Nat) : HW B (doPingRequest p) := by
  unfold doPingRequest
  refine hw_seq (hw_write _ _ hP) ?_
  hws
theorem hw_loopRun (hP : B encodePINGREQ = true) (p : Nat) : HW B (loopRun p) := by
  intro w h
  have h1 : HW B (ping p) := by
    unfold ping
    refine hw_read fun w _ => ?_
    split
    · exact hw_doPingRequest hB hP p
    · exact hw_raise _
  obtain ⟨a0, l1, a1, a2⟩ := h1 w h
  unfold loopRun
  rcases hp : ping p w with ⟨w1, _ | e⟩
  · rw [hp] at a0 a1
    simp only
    have : HW B (Step.read fun w =>
      match (w.proto p).pingTimer with
      | some l =>
        if l.running then
          callLater l.interval (.pingLoop p) fun tid =>
            setProto p (fun pr => { pr with pingTimer := (pr.pingTimer.map fun l => { l with call := some tid }) })
        else Step.ok
      | none => Step.ok) := by hws
    obtain ⟨b0, l2, b1, b2⟩ := this w1 a0
    refine ⟨b0, l1 ++ l2, b1.trans (by rw [a1, List.append_assoc]), fun q bs ho => ?_⟩
    rcases List.mem_append.mp ho with ho | ho
    · exact a2 q bs ho
    · exact b2 q bs ho
  · rw [hp] at a0 a1
    simp only
    obtain ⟨b0, l2, b1, b2⟩ := hw_setProto (B := B) p (fun pr => { pr with pingTimer := (pr.pingTimer.map fun l => { l with running := false, call := none }) }) w1 a0
    refine ⟨b0, l1 ++ l2, b1.trans (by rw [a1, List.append_assoc]), fun q bs ho => ?_⟩
    rcases List.mem_append.mp ho with ho | ho
    · exact a2 q bs ho
    · exact b2 q bs ho
theorem hw_mqttConnectionMade (p : Nat) : HW B (mqttConnectionMade p) := by
  unfold mqttConnectionMade
  refine hw_read fun w _ => ?_
  refine hw_seq ?_ (hw_seq (hw_refill hB _) ?_)
  · split
    · exact hw_purgeSession hB _ _
    · exact hw_syncSession hB _
  · hws
theorem hw_handleCONNACK (hP : B encodePINGREQ = true) (p : Nat) (session : Bool) (rc : Nat) : HW B (handleCONNACK p session rc) := by
  unfold handleCONNACK
  refine hw_read fun w _ => ?_
  split
  · exact hw_raise _
  · split
    · exact hw_raise _
    · split
      · exact hw_ok
      · refine hw_seq (hw_cancelTimer _) (hw_seq ?_ (hw_setProto _ _))
        split
        · refine hw_seq (hw_setProto _ _) (hw_seq (hw_mqttConnectionMade hB p) (hw_seq ?_ (hw_fireDfd _ _)))
          split
          · exact hw_seq (hw_setProto _ _) (hw_loopRun hB hP p)
          · exact hw_ok
        · exact hw_seq (hw_setProto _ _) (hw_fireDfd _ _)
theorem hw_handlePINGRESP (p : Nat) : HW B (handlePINGRESP p) := by unfold handlePINGRESP; hws
theorem hw_handleSubUnsubAck (p : Nat) (b : Bool) (m : Nat) (v : Val) : HW B (handleSubUnsubAck p b m v) := by unfold handleSubUnsubAck; hws
theorem hw_handlePUBACK (p m : Nat) : HW B (handlePUBACK p m) := by unfold handlePUBACK; hws
theorem hw_handlePUBCOMP (p m : Nat) : HW B (handlePUBCOMP p m) := by unfold handlePUBCOMP; hws
theorem hw_newReq (f : World → World) (R : World → Req) (hR : ∀ w, headOk (R w).encoded = true)
    (h1 : ∀ w, (f w).reqs = w.reqs.set w.nextReq (R w)) (h2 : ∀ w, (f w).log = w.log) : HW B (Step.mod f) := fun w h =>
  ⟨headInv_set h w.nextReq (R w) (hR w) (h1 w), [], by simp [Step.mod, h2 w], by simp⟩
theorem hw_handlePUBREC (p m : Nat) : HW B (handlePUBREC p m) := by
  unfold handlePUBREC
  have hE : ∀ bs, encodePUBREL (m : Int) = .ok bs → headOk bs = true := by
    intro bs h
    obtain ⟨r, rfl⟩ := ack_head _ _ _ h
    rfl
  generalize encodePUBREL (m : Int) = E at hE
  refine hw_read fun w _ => ?_
  split
  · exact hw_ok
  · split
    · exact hw_ok
    · apply hw_seq (hw_cancelAlarm _)
      apply hw_seq (hw_setEnts _)
      cases E with
      | error e => exact hw_raise _
      | ok bs =>
        refine hw_read fun w' _ => ?_
        refine hw_seq ?_ (hw_seq (hw_setEnts _) (hw_retryRelease hB _ _ _))
        intro w2 h2
        refine ⟨?_, [], by simp [Step.mod], by simp⟩
        exact headInv_set h2 w'.nextReq _ (hE bs rfl) rfl
theorem hw_registerSubUnsub (p : Nat) (s : Bool) (i : Nat) (bs : Bytes) (hbs : headOk bs = true) : HW B (registerSubUnsub p s i bs) := by
  unfold registerSubUnsub
  refine hw_read fun w _ => ?_
  refine hw_newDfd fun d => ?_
  refine hw_seq ?_ (hw_seq (hw_setEnts _) (hw_seq (hw_retrySubUnsub hB _ _ _ _) ?_))
  · intro w2 h2
    refine ⟨?_, [], by simp [Step.mod], by simp⟩
    exact headInv_set h2 w.nextReq _ hbs rfl
  · hws
theorem hw_mkStep (p : Nat) (pr : Proto) (qn m : Nat) (d : Option Nat) (bs : Bytes) (hbs : headOk bs = true) : HW B (mkStep p pr qn m d bs) := by
  unfold mkStep
  refine hw_read fun w _ => ?_
  refine hw_seq ?_ (hw_seq (hw_setEnts _) (hw_refill hB _))
  intro w2 h2
  refine ⟨?_, [], by simp [Step.mod], by simp⟩
  exact headInv_set h2 w.nextReq _ hbs rfl
theorem hw_runTimer (hP : B encodePINGREQ = true) (k : TKind) : HW B (runTimer k) := by
  cases k with
  | connack cr => unfold runTimer; hws
  | pingLoop q => exact hw_seq (hw_setProto _ _) (hw_loopRun hB hP q)
  | pingAlarm q => exact hw_seq (hw_setProto _ _) (hw_abort _)
  | retry q rid => unfold runTimer; hws
  | onDisc q r => exact hw_emit' _ (fun _ _ h => by cases h)

end handlers

section recv
variable {B : Bytes → Bool} (hB : ∀ bs, headOk bs = true → B bs = true) (hA : ∀ bs, ackHead bs = true → B bs = true) (hP : B encodePINGREQ = true)
include hB hA hP

theorem hw_handlePUBLISH (p : Nat) (m : RxMsg) : HW B (handlePUBLISH p m) := by
  unfold handlePUBLISH
  split
  · exact hw_deliver _ _
  · split
    · split
      · rename_i bs heq
        obtain ⟨r, rfl⟩ := ack_head 0x40 _ _ heq
        exact hw_seq (hw_write _ _ (hA _ ((ackHead_cons _ _).trans (by decide)))) (hw_deliver _ _)
      · exact hw_raise _
    · split
      · refine hw_seq (hw_mod (fun _ => rfl) (fun _ => rfl)) ?_
        split
        · rename_i bs heq
          obtain ⟨r, rfl⟩ := ack_head 0x50 _ _ heq
          exact hw_write _ _ (hA _ ((ackHead_cons _ _).trans (by decide)))
        · exact hw_raise _
      · exact hw_ok
theorem hw_handlePUBREL (p m : Nat) : HW B (handlePUBREL p m) := by
  unfold handlePUBREL
  refine hw_read fun w _ => ?_
  refine hw_seq ?_ ?_
  · split
    · exact hw_ok
    · exact hw_seq (hw_mod (fun _ => rfl) (fun _ => rfl)) (hw_deliver _ _)
  · split
    · rename_i bs heq
      obtain ⟨r, rfl⟩ := ack_head 0x70 _ _ heq
      exact hw_write _ _ (hA _ ((ackHead_cons _ _).trans (by decide)))
    · exact hw_raise _
theorem hw_processPacket (p : Nat) (pkt : Bytes) : HW B (processPacket p pkt) := by
  unfold processPacket
  split
  · exact hw_raise _
  · dsimp only
    split
    · exact hw_abort _
    · split
      · exact hw_abort _
      · refine hw_read fun w _ => ?_
        split
        all_goals (try exact hw_abort _)
        all_goals (split <;> (try split) <;> first
          | exact hw_abort _ | exact hw_ok | exact hw_handleCONNACK hB hP _ _ _ | exact hw_handlePINGRESP hB _
          | exact hw_handleSubUnsubAck hB _ _ _ _ | exact hw_handlePUBLISH hB hA hP _ _ | exact hw_handlePUBACK hB _ _
          | exact hw_handlePUBREC hB _ _ | exact hw_handlePUBREL hB hA hP _ _ | exact hw_handlePUBCOMP hB _ _)
theorem hw_accumulate (p : Nat) (fuel : Nat) : HW B (accumulate p fuel) := by
  induction fuel with
  | zero => exact hw_ok
  | succ f ih =>
    unfold accumulate
    refine hw_read fun w _ => ?_
    split
    · exact hw_ok
    · exact hw_seq (hw_processPacket hB hA hP _ _) (hw_seq (hw_setProto _ _) ih)
theorem hw_dataReceived (p : Nat) (d : Bytes) : HW B (dataReceived p d) := by
  unfold dataReceived
  exact hw_seq (hw_setProto _ _) (hw_read fun _ _ => hw_accumulate hB hA hP _ _)
end recv

/-- the packets operation `op` may write: request packets (PUBLISH, PUBREL, SUBSCRIBE, UNSUBSCRIBE -- stored requests, first sent or
    sent again) everywhere; CONNECT by `connect()` only, DISCONNECT by `disconnect()` only, PINGREQ by a timer or while received bytes
    are processed (the CONNACK starts the keepalive), PUBACK/PUBREC/PUBCOMP while received bytes are processed only -/
def Op.pkts : Op → Bytes → Bool
  | .recv _ _ => fun bs => headOk bs || ackHead bs || isPing bs
  | .fire _ => fun bs => headOk bs || isPing bs
  | .connect _ _ => isConnect
  | .disconnect _ => isDisconnect
  | _ => headOk

theorem hw_handler (op : Op) : HW op.pkts op.handler := by
  have hB : ∀ bs, headOk bs = true → headOk bs = true := fun _ h => h
  cases op with
  | build a => exact hw_mod (fun _ => rfl) (fun _ => rfl)
  | jit v => exact hw_mod (fun _ => rfl) (fun _ => rfl)
  | setid v => exact hw_mod (fun _ => rfl) (fun _ => rfl)
  | sethandlers p m => exact hw_setProto _ _
  | connect p a =>
    show HW isConnect (apiConnect p a)
    unfold apiConnect
    have hE := connect_first a.toF
    generalize a.toF.encode = E at hE
    refine hw_read fun w _ => ?_
    split
    · hws
    · split
      · hws
      · cases E with
        | error e => dsimp only; hws
        | ok pdu =>
          dsimp only
          refine hw_seq (hw_setProto _ _) (hw_seq (hw_write _ _ (hE pdu rfl)) ?_)
          hws
  | disconnect p =>
    show HW isDisconnect (apiDisconnect p)
    unfold apiDisconnect
    refine hw_read fun w _ => ?_
    split
    · refine hw_seq (hw_write _ _ (by decide)) ?_
      hws
    · exact hw_raise _
  | publish p t pl qs r =>
    show HW headOk (apiPublish p t pl qs r)
    intro w0
    rw [apiPublish_eq]
    split
    · exact hw_emit' _ (fun _ _ h => by cases h) w0
    · split
      · exact hw_emit' _ (fun _ _ h => by cases h) w0
      · rename_i _ hq
        have hq3 : qs.toNat < 3 := by omega
        split
        · have hE := publishPy_head t pl 0 r none
          generalize encodePublishPy t pl 0 r none = E at hE
          cases E with
          | error e => exact hw_emit' _ (fun _ _ h => by cases h) w0
          | ok bs =>
            have hb : headOk bs = true := by simp only [headOk, hE bs rfl (by omega), Bool.or_true]
            exact hw_seq (hw_mkStep hB _ _ _ _ _ _ hb) (hw_emit' _ (fun _ _ h => by cases h)) w0
        · refine hw_makeId (c := _) ?_ w0
          intro i
          have hE := publishPy_head t pl qs.toNat r (some (i : Int))
          generalize encodePublishPy t pl qs.toNat r (some (i : Int)) = E at hE
          cases E with
          | error e => exact hw_emit' _ (fun _ _ h => by cases h)
          | ok bs =>
            have hb : headOk bs = true := by simp only [headOk, hE bs rfl hq3, Bool.or_true]
            exact hw_newDfd fun d => hw_seq (hw_mkStep hB _ _ _ _ _ _ hb) (hw_emit' _ (fun _ _ h => by cases h))
  | subscribe p a qs =>
    show HW headOk (apiSubscribe p a qs)
    unfold apiSubscribe
    refine hw_read fun w _ => ?_
    cases a <;> dsimp only <;> (repeat' (first | ((with_reducible apply hw_emit'); (intro q bs h; cases h)) | split)) <;>
      (refine hw_makeId fun i => ?_
       generalize hEq : encodeWithId 0x82 _ _ = E
       cases E with
       | error e => exact hw_emit' _ (fun _ _ h => by cases h)
       | ok bs =>
         obtain ⟨r, rfl⟩ := withId_head _ _ _ _ hEq
         exact hw_registerSubUnsub hB _ _ _ _ (headOk_cons 0x82 r (by decide)))
  | unsubscribe p a =>
    show HW headOk (apiUnsubscribe p a)
    unfold apiUnsubscribe
    refine hw_read fun w _ => ?_
    split
    · exact hw_emit' _ (fun _ _ h => by cases h)
    · refine hw_makeId fun _ => hw_read fun w1 _ => ?_
      cases a <;> dsimp only <;> (repeat' (first | ((with_reducible apply hw_emit'); (intro q bs h; cases h)) | split)) <;>
        (refine hw_makeId fun i => ?_
         generalize hEq : encodeWithId 0xA2 _ _ = E
         cases E with
         | error e => exact hw_emit' _ (fun _ _ h => by cases h)
         | ok bs =>
           obtain ⟨r, rfl⟩ := withId_head _ _ _ _ hEq
           exact hw_registerSubUnsub hB _ _ _ _ (headOk_cons 0xA2 r (by decide)))
  | setwin p n => show HW headOk (apiSetWindow p n); unfold apiSetWindow; hws
  | settimeout p n => show HW headOk (apiSetTimeout p n); unfold apiSetTimeout; hws
  | setbw p b f => show HW headOk (apiSetBandwith p b f); unfold apiSetBandwith; hws
  | recv p d =>
    exact hw_dataReceived (B := fun bs => headOk bs || ackHead bs || isPing bs) (fun _ h => by simp only [h, Bool.true_or])
      (fun _ h => by simp only [h, Bool.or_true, Bool.true_or]) (by decide) p d
  | lost p r => exact hw_connectionLost hB p r
  | fire t =>
    have hB : ∀ bs, headOk bs = true → (headOk bs || isPing bs) = true := fun _ h => by simp only [h, Bool.true_or]
    show HW (fun bs => headOk bs || isPing bs) (fireTimer t)
    unfold fireTimer
    refine hw_read fun w _ => ?_
    split
    · exact hw_emit' _ (fun _ _ h => by cases h)
    · split
      · exact hw_seq (hw_mod (fun _ => rfl) (fun _ => rfl)) (hw_runTimer hB (by decide) _)
      · exact hw_emit' _ (fun _ _ h => by cases h)

/-- **what an operation may write**: from a state where every stored request starts with a request header, every operation keeps
    that, and each packet it hands to a transport is empty or a packet that only a client originates -- unless the operation is the
    processing of received bytes, which may also answer with PUBACK, PUBREC and PUBCOMP -/
theorem step_heads (w : World) (h : HeadInv w) (op : Op) :
    HeadInv (step w op) ∧ ∃ l, (step w op).log = w.log ++ l ∧ ∀ q bs, Obs.write q bs ∈ l → op.pkts bs = true := by
  obtain ⟨a0, l, a1, a2⟩ := hw_handler op w h
  unfold step
  rcases hw : op.handler w with ⟨w', _ | e⟩
  · rw [hw] at a0 a1; exact ⟨a0, l, a1, a2⟩
  · rw [hw] at a0 a1
    refine ⟨a0, l ++ [if op.isReactor then Obs.esc e else Obs.raised e], by simp only; rw [a1, List.append_assoc], fun q bs ho => ?_⟩
    rcases List.mem_append.mp ho with ho | ho
    · exact a2 q bs ho
    · have := List.mem_singleton.mp ho
      split at this <;> cases this

theorem HeadInv.init (profile : Nat) : HeadInv (World.init profile) := fun rid r h => by simp [World.init, Dict.get?] at h
theorem run_heads (ops : List Op) : ∀ w, HeadInv w → HeadInv (run w ops) := by
  induction ops with
  | nil => intro w h; exact h
  | cons op r ih => intro w h; exact ih _ (step_heads w h op).1


/-! ### which operation may write which packet type -/

/-- the type nibble of a packet (0 for no bytes at all) -/
def ptype : Bytes → Nat
  | [] => 0
  | h :: _ => nib h

def Op.ptypes : Op → List Nat
  | .recv _ _ => [0, 3, 6, 8, 10, 4, 5, 7, 12]
  | .fire _ => [0, 3, 6, 8, 10, 12]
  | .connect _ _ => [1]
  | .disconnect _ => [14]
  | _ => [0, 3, 6, 8, 10]

theorem headOk_ptype {bs : Bytes} (h : headOk bs = true) : ptype bs = 0 ∨ ptype bs = 3 ∨ ptype bs = 6 ∨ ptype bs = 8 ∨ ptype bs = 10 := by
  cases bs with
  | nil => exact Or.inl rfl
  | cons a r =>
    simp only [headOk, List.isEmpty_cons, Bool.false_or, reqHead, Bool.or_eq_true, beq_iff_eq] at h
    simp only [ptype]
    rcases h with ((h | h) | h) | h <;> simp [h]
theorem ackHead_ptype {bs : Bytes} (h : ackHead bs = true) : ptype bs = 4 ∨ ptype bs = 5 ∨ ptype bs = 7 := by
  cases bs with
  | nil => cases h
  | cons a r =>
    simp only [ackHead, Bool.or_eq_true, beq_iff_eq] at h
    simp only [ptype]
    rcases h with (h | h) | h <;> simp [h]
theorem isConnect_ptype {bs : Bytes} (h : isConnect bs = true) : ptype bs = 1 := by
  cases bs with
  | nil => cases h
  | cons a r => simpa [isConnect, ptype] using h
theorem isPing_ptype {bs : Bytes} (h : isPing bs = true) : ptype bs = 12 := by
  have : bs = encodePINGREQ := by simpa [isPing] using h
  subst this; decide
theorem isDisconnect_ptype {bs : Bytes} (h : isDisconnect bs = true) : ptype bs = 14 := by
  have : bs = encodeDISCONNECT := by simpa [isDisconnect] using h
  subst this; decide

/-- the type of a packet that `op` may write is one of `op.ptypes` -/
theorem pkts_ptype (op : Op) (bs : Bytes) (h : op.pkts bs = true) : ptype bs ∈ op.ptypes := by
  cases op <;> simp only [Op.pkts, Op.ptypes, Bool.or_eq_true] at h ⊢
  case connect => rw [isConnect_ptype h]; simp
  case disconnect => rw [isDisconnect_ptype h]; simp
  case recv =>
    rcases h with (h | h) | h
    · rcases headOk_ptype h with h | h | h | h | h <;> simp [h]
    · rcases ackHead_ptype h with h | h | h <;> simp [h]
    · simp [isPing_ptype h]
  case fire =>
    rcases h with h | h
    · rcases headOk_ptype h with h | h | h | h | h <;> simp [h]
    · simp [isPing_ptype h]
  all_goals (rcases headOk_ptype h with h | h | h | h | h <;> simp [h])

end Mqtt
