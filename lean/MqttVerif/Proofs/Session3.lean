import MqttVerif.Proofs.ProtoT
/-
  Session resumption (`mqttConnectionMade`): purge / sync of the inherited windows and the refill
  of the publish window, with the postcondition that every in-flight entry of the address is armed.
-/
namespace Mqtt

/-! ### facts about the retransmission helpers -/

theorem retryPublishW_ents (p rid : Nat) (dup : Bool) (w : World) : (retryPublishW p rid dup w).ents = w.ents := by
  simp only [retryPublishW]; split <;> simp
theorem retryReleaseW_ents (p rid : Nat) (dup : Bool) (w : World) : (retryReleaseW p rid dup w).ents = w.ents := by
  simp only [retryReleaseW]; split <;> simp
theorem retryReleaseW_protos (p rid : Nat) (dup : Bool) (w : World) : (retryReleaseW p rid dup w).protos = w.protos := by
  simp only [retryReleaseW]; split <;> simp
theorem retrySubUnsubW_ents (p rid : Nat) (dup s : Bool) (w : World) : (retrySubUnsubW p rid dup s w).ents = w.ents := by
  simp only [retrySubUnsubW]; split <;> simp
theorem retrySubUnsubW_protos (p rid : Nat) (dup s : Bool) (w : World) : (retrySubUnsubW p rid dup s w).protos = w.protos := by
  simp only [retrySubUnsubW]; split <;> simp

theorem retryPublishW_connReqs (p rid : Nat) (dup : Bool) (w : World) : (retryPublishW p rid dup w).connReqs = w.connReqs := by
  simp only [retryPublishW]; split <;> simp
theorem retryReleaseW_connReqs (p rid : Nat) (dup : Bool) (w : World) : (retryReleaseW p rid dup w).connReqs = w.connReqs := by
  simp only [retryReleaseW]; split <;> simp

/-- a retransmission helper keeps every alarm that is set and changes no other request's alarm -/
theorem retryPublishW_alarm (p rid : Nat) (dup : Bool) (w : World) (r : Nat) :
    ((w.req r).alarm ≠ none → ((retryPublishW p rid dup w).req r).alarm ≠ none) ∧
    (r ≠ rid → ((retryPublishW p rid dup w).req r).alarm = (w.req r).alarm) ∧
    ((w.req rid).msgId ≠ 0 → ((retryPublishW p rid dup w).req rid).alarm ≠ none) := by
  simp only [retryPublishW, req_setReq, ↓reduceIte]
  by_cases hm : (w.req rid).msgId = 0
  · simp only [hm, ne_eq, not_true_eq_false, ↓reduceIte, emit_req, req_setReq]
    refine ⟨?_, ?_, ?_⟩
    · by_cases hr : rid = r <;> simp [hr]
    · intro hr; have : ¬ rid = r := fun hc => hr hc.symm
      simp [this]
    · simp
  · simp only [hm, ne_eq, not_false_eq_true, ↓reduceIte, emit_req, req_setReq, callLater_req]
    refine ⟨?_, ?_, ?_⟩
    · by_cases hr : rid = r <;> simp [hr]
    · intro hr; have : ¬ rid = r := fun hc => hr hc.symm
      simp [this]
    · simp

theorem retryReleaseW_alarm (p rid : Nat) (dup : Bool) (w : World) (r : Nat) :
    ((w.req r).alarm ≠ none → ((retryReleaseW p rid dup w).req r).alarm ≠ none) ∧
    (r ≠ rid → ((retryReleaseW p rid dup w).req r).alarm = (w.req r).alarm) ∧
    ((retryReleaseW p rid dup w).req rid).alarm ≠ none := by
  simp only [retryReleaseW]
  split <;>
  · simp only [emit_req, req_setReq, callLater_req]
    refine ⟨?_, ?_, ?_⟩
    · by_cases hr : rid = r <;> simp [hr]
    · intro hr; have : ¬ rid = r := fun hc => hr hc.symm
      simp [this]
    · simp

/-- every in-flight entry of address `a` has a running retry timer -/
def Armed (w : World) (a : Nat) : Prop := ∀ e ∈ w.ents, e.addr = a → e.box ≠ .queue → (w.req e.rid).alarm ≠ none

/-! ### `_purgeSession` -/

/-- an entry whose alarm is not set leaves its window and its Deferred fires -/
theorem settleQuiet_inv {x : Option Nat} {w : World} (h : WInvX x w) {e : Ent} (he : e ∈ w.ents) (hq : e.box ≠ .queue)
    (hal : (w.req e.rid).alarm = none) {d : Nat} (hd : (w.req e.rid).dfd = some d) (o : Obs) :
    WInvX x (fireD (w.setEnts fun es => Ents.remove es e.addr e.box e.key) d o) := by
  have hmem := mem_remove_iff h he hq
  have h1 : WInvX x (w.setEnts fun es => Ents.remove es e.addr e.box e.key) :=
    dropQuiet_inv h hal _ (Ents.remove_nodup h.nodup _ _ _) hmem
  have hdf := h.dfdFresh e he d hd
  apply fireD_inv h1 hdf.1
  · intro y hy hc
    obtain ⟨hy1, hy2⟩ := (hmem y).mp hy
    exact hy2 (h.dfdInj y hy1 e he d hc hd)
  · intro t' cr c hp hc hcd
    have hp' : Pending w t' (.connack cr) := hp
    obtain ⟨c', d', a1, a2, a3, _⟩ := h.connackOwned t' cr hp'
    have hc' : w.connReqs.get? cr = some c := hc
    rw [a1] at hc'; injection hc' with hc'; subst hc'
    rw [a2] at hcd; injection hcd with hcd; subst hcd
    exact (h.connReq cr c' d' a1 a2 a3).2 e he hd
  · intro p pr cr c hp' hcq hc hcd
    have hnf := (h.connReqLive p pr cr c hp' hcq hc).2 d hcd
    exact (h.connReq cr c d hc hcd hnf).2 e he hd

/-- what the purge loops leave behind -/
structure Purged (w w' : World) (l : List Ent) : Prop where
  reqs : w'.reqs = w.reqs
  protos : w'.protos = w.protos
  timers : w'.timers = w.timers
  connReqs : w'.connReqs = w.connReqs
  mem : ∀ y, y ∈ w'.ents ↔ y ∈ w.ents ∧ ¬ (y ∈ l ∧ (w.req y.rid).alarm = none)
  nextDfd : w'.nextDfd = w.nextDfd
  fmono : ∀ d ∈ w.fired, d ∈ w'.fired
  /-- an entry that left its window has had its Deferred fired -/
  gone : ∀ y ∈ w.ents, y ∈ w'.ents ∨ ∀ d, (w.req y.rid).dfd = some d → d ∈ w'.fired

theorem purgeLoop_inv {x : Option Nat} (box : Box) (hbq : box ≠ .queue) (reason : Err) :
    ∀ (l : List Ent) {w : World}, WInvX x w → (∀ e ∈ l, e ∈ w.ents ∧ e.box = box) → l.Nodup →
    let r := forEach l (fun e => Step.read fun w =>
        if (w.req e.rid).alarm = none then
          setEnts (fun es => Ents.remove es e.addr box e.key) ;; fireReqDfd (w.req e.rid).dfd (.fail reason)
        else Step.ok) w
    r.2 = none ∧ WInvX x r.1 ∧ Purged w r.1 l := by
  intro l
  induction l with
  | nil => intro w h _ _; exact ⟨rfl, h, rfl, rfl, rfl, rfl, fun y => by show y ∈ w.ents ↔ _; simp, rfl, fun _ hd => hd, fun y hy => Or.inl hy⟩
  | cons e l ih =>
    intro w h hl hnd
    obtain ⟨he, heb⟩ := hl e (by simp)
    have hq : e.box ≠ .queue := by rw [heb]; exact hbq
    have hnd' := List.nodup_cons.mp hnd
    simp only [forEach]
    by_cases hal : (w.req e.rid).alarm = none
    · have hk := h.keyId e he hq
      obtain ⟨d, hd⟩ : ∃ d, (w.req e.rid).dfd = some d := by
        cases hdd : (w.req e.rid).dfd with
        | none => exact absurd hdd (h.dfdSome e he (by rw [hk.1]; exact hk.2))
        | some d => exact ⟨d, rfl⟩
      have hdf := h.dfdFresh e he d hd
      have hS := settleQuiet_inv h he hq hal hd (.fired d (.fail reason))
      have s1 : (Step.read fun w => if (w.req e.rid).alarm = none then
            setEnts (fun es => Ents.remove es e.addr box e.key) ;; fireReqDfd (w.req e.rid).dfd (.fail reason) else Step.ok) w
          = (fireD (w.setEnts fun es => Ents.remove es e.addr e.box e.key) d (.fired d (.fail reason)), none) := by
        simp only [read_apply, hal, ↓reduceIte, hd, heb]
        have s0 : setEnts (fun es => Ents.remove es e.addr box e.key) w = (w.setEnts fun es => Ents.remove es e.addr box e.key, none) := rfl
        rw [seq_ok s0]
        exact fireDfd_unfired _ d _ hdf.2
      rw [seq_ok s1]
      have hmem := mem_remove_iff h he hq
      have hl' : ∀ e' ∈ l, e' ∈ (fireD (w.setEnts fun es => Ents.remove es e.addr e.box e.key) d (.fired d (.fail reason))).ents ∧ e'.box = box := by
        intro e' he'
        obtain ⟨a, b⟩ := hl e' (by simp [he'])
        exact ⟨(hmem e').mpr ⟨a, fun hc => hnd'.1 (hc ▸ he')⟩, b⟩
      obtain ⟨r1, r2, r3⟩ := ih hS hl' hnd'.2
      refine ⟨r1, r2, ?_⟩
      have hreq : ∀ r0, (fireD (w.setEnts fun es => Ents.remove es e.addr e.box e.key) d (.fired d (.fail reason))).req r0 = w.req r0 := fun _ => rfl
      have hfd1 : ∀ d' ∈ w.fired, d' ∈ (fireD (w.setEnts fun es => Ents.remove es e.addr e.box e.key) d (.fired d (.fail reason))).fired := by
        intro d' hd'; simp only [fireD, List.mem_cons]; exact Or.inr hd'
      refine ⟨r3.reqs, r3.protos, r3.timers, r3.connReqs, fun y => ?_, r3.nextDfd, fun d' hd' => r3.fmono d' (hfd1 d' hd'), fun y hy => ?_⟩
      · rw [r3.mem y]
        simp only [hreq]
        have := hmem y
        simp only [fireD, setEnts_ents] at this ⊢
        rw [this]
        constructor
        · rintro ⟨⟨a, b⟩, c⟩
          refine ⟨a, fun hc => ?_⟩
          simp only [List.mem_cons] at hc
          rcases hc.1 with rfl | hc1
          · exact b rfl
          · exact c ⟨hc1, hc.2⟩
        · rintro ⟨a, b⟩
          refine ⟨⟨a, fun hc => b ⟨by simp [hc], by rw [hc]; exact hal⟩⟩, fun hc => b ⟨by simp [hc.1], hc.2⟩⟩
      · by_cases hye : y = e
        · subst hye
          right; intro d' hd'
          rw [hd] at hd'; injection hd' with hd'; subst hd'
          exact r3.fmono _ (by simp [fireD])
        · have hy1 : y ∈ (fireD (w.setEnts fun es => Ents.remove es e.addr e.box e.key) d (.fired d (.fail reason))).ents := (hmem y).mpr ⟨hy, hye⟩
          rcases r3.gone y hy1 with h1 | h1
          · exact Or.inl h1
          · exact Or.inr (fun d' hd' => h1 d' (by rw [hreq]; exact hd'))
    · have s1 : (Step.read fun w => if (w.req e.rid).alarm = none then
            setEnts (fun es => Ents.remove es e.addr box e.key) ;; fireReqDfd (w.req e.rid).dfd (.fail reason) else Step.ok) w
          = (w, none) := by simp only [read_apply, hal, ↓reduceIte]; rfl
      rw [seq_ok s1]
      obtain ⟨r1, r2, r3⟩ := ih h (fun e' he' => hl e' (by simp [he'])) hnd'.2
      refine ⟨r1, r2, r3.reqs, r3.protos, r3.timers, r3.connReqs, fun y => ?_, r3.nextDfd, r3.fmono, r3.gone⟩
      rw [r3.mem y]
      constructor
      · rintro ⟨a, b⟩
        refine ⟨a, fun hc => ?_⟩
        simp only [List.mem_cons] at hc
        rcases hc.1 with rfl | hc1
        · exact hal hc.2
        · exact b ⟨hc1, hc.2⟩
      · rintro ⟨a, b⟩
        exact ⟨a, fun hc => b ⟨by simp [hc.1], hc.2⟩⟩

/-- MQTTProtocol._purgeSession, one window -/
theorem purgeWindow_inv {x : Option Nat} {w : World} (h : WInvX x w) (p : Nat) (rel : Bool) (reason : Err) :
    (purgeWindow p rel reason w).2 = none ∧ WInvX x (purgeWindow p rel reason w).1 ∧
    Purged w (purgeWindow p rel reason w).1 (Ents.items w.ents (w.paddr p) (if rel then .rel else .pub)) := by
  have hbq : (if rel then Box.rel else Box.pub) ≠ .queue := by cases rel <;> simp
  exact purgeLoop_inv _ hbq reason _ h (fun e he => ⟨(Ents.mem_items.mp he).1, (Ents.mem_items.mp he).2.2⟩) (Ents.items_nodup h.nodup _ _)

/-- every entry of the boxes `B` at address `a` has a running retry timer -/
def ArmedIn (B : Box → Prop) (w : World) (a : Nat) : Prop := ∀ e ∈ w.ents, e.addr = a → B e.box → (w.req e.rid).alarm ≠ none

theorem ArmedIn.mono {B : Box → Prop} {w w' : World} {a : Nat} (h : ArmedIn B w a) (hsub : ∀ y ∈ w'.ents, y ∈ w.ents)
    (hal : ∀ r, (w.req r).alarm ≠ none → (w'.req r).alarm ≠ none) : ArmedIn B w' a :=
  fun e he ha hb => hal _ (h e (hsub e he) ha hb)

/-- MQTTProtocol._purgeSession: afterwards the publish and release windows of the address hold armed entries only -/
theorem purgeSession_inv {x : Option Nat} {w : World} (h : WInvX x w) (p : Nat) (reason : Err) :
    (purgeSession p reason w).2 = none ∧ WInvX x (purgeSession p reason w).1 ∧
    (purgeSession p reason w).1.reqs = w.reqs ∧ (purgeSession p reason w).1.protos = w.protos ∧
    (purgeSession p reason w).1.timers = w.timers ∧ (purgeSession p reason w).1.connReqs = w.connReqs ∧
    (∀ y ∈ (purgeSession p reason w).1.ents, y ∈ w.ents) ∧
    (∀ y ∈ w.ents, y.box = .queue ∨ y.box = .sub ∨ y.box = .unsub ∨ y.addr ≠ w.paddr p → y ∈ (purgeSession p reason w).1.ents) ∧
    ArmedIn (fun b => b = .pub ∨ b = .rel) (purgeSession p reason w).1 (w.paddr p) ∧
    (purgeSession p reason w).1.nextDfd = w.nextDfd ∧ (∀ d ∈ w.fired, d ∈ (purgeSession p reason w).1.fired) ∧
    (∀ y ∈ w.ents, y ∈ (purgeSession p reason w).1.ents ∨ ∀ d, (w.req y.rid).dfd = some d → d ∈ (purgeSession p reason w).1.fired) := by
  obtain ⟨a1, a2, a3⟩ := purgeWindow_inv h p false reason
  have s1 : purgeWindow p false reason w = ((purgeWindow p false reason w).1, none) := Prod.ext rfl a1
  obtain ⟨w1, hw1⟩ : ∃ w1, w1 = (purgeWindow p false reason w).1 := ⟨_, rfl⟩
  rw [← hw1] at s1 a2 a3
  obtain ⟨b1, b2, b3⟩ := purgeWindow_inv a2 p true reason
  have hpa : w1.paddr p = w.paddr p := by simp [World.paddr, World.proto, a3.protos]
  have hreq : ∀ r, w1.req r = w.req r := req_of_reqs a3.reqs
  have hreq2 : ∀ r, (purgeWindow p true reason w1).1.req r = w.req r := fun r => by rw [req_of_reqs b3.reqs, hreq]
  simp only [purgeSession]
  rw [seq_ok s1]
  refine ⟨b1, b2, by rw [b3.reqs, a3.reqs], by rw [b3.protos, a3.protos], by rw [b3.timers, a3.timers], by rw [b3.connReqs, a3.connReqs], ?_, ?_, ?_,
    by rw [b3.nextDfd, a3.nextDfd], fun d hd => b3.fmono d (a3.fmono d hd), fun y hy => ?_⟩
  rotate_left 3
  · rcases a3.gone y hy with h1 | h1
    · rcases b3.gone y h1 with h2 | h2
      · exact Or.inl h2
      · exact Or.inr (fun d hd => h2 d (by rw [hreq]; exact hd))
    · exact Or.inr (fun d hd => b3.fmono d (h1 d hd))
  · intro y hy; exact ((a3.mem y).mp ((b3.mem y).mp hy).1).1
  · intro y hy hb
    refine (b3.mem y).mpr ⟨(a3.mem y).mpr ⟨hy, fun hc => ?_⟩, fun hc => ?_⟩
    · have := Ents.mem_items.mp hc.1
      rcases hb with hb | hb | hb | hb
      · rw [this.2.2] at hb; cases hb
      · rw [this.2.2] at hb; cases hb
      · rw [this.2.2] at hb; cases hb
      · exact hb this.2.1
    · have := Ents.mem_items.mp hc.1
      rw [hpa] at this
      rcases hb with hb | hb | hb | hb
      · rw [this.2.2] at hb; cases hb
      · rw [this.2.2] at hb; cases hb
      · rw [this.2.2] at hb; cases hb
      · exact hb this.2.1
  · intro y hy hya hyb
    rw [hreq2]
    have hy2 := (b3.mem y).mp hy
    have hy1 := (a3.mem y).mp hy2.1
    rcases hyb with hyb | hyb
    · intro hc
      exact hy1.2 ⟨Ents.mem_items.mpr ⟨hy1.1, hya, hyb⟩, hc⟩
    · intro hc
      exact hy2.2 ⟨Ents.mem_items.mpr ⟨hy2.1, by rw [hpa]; exact hya, hyb⟩, by rw [hreq]; exact hc⟩

/-! ### `_syncSession` -/

/-- one resumption loop: every listed entry whose alarm is not set is transmitted again and armed -/
theorem syncLoop_inv {x : Option Nat} (p : Nat) (ppr : Proto) (hlive : ppr.lost = false) (isRel : Bool) :
    ∀ (l : List Ent) {w : World}, WInvX x w → w.protos.get? p = some ppr →
    (∀ e ∈ l, e ∈ w.ents ∧ e.box ≠ .queue ∧ e.addr = ppr.addr) →
    let w' := l.foldl (fun w e => if (w.req e.rid).alarm = none then
        (if isRel then retryReleaseW p e.rid true w else retryPublishW p e.rid true w) else w) w
    WInvX x w' ∧ w'.protos = w.protos ∧ w'.ents = w.ents ∧ (∀ r, (w.req r).alarm ≠ none → (w'.req r).alarm ≠ none) ∧
    (∀ e ∈ l, (w'.req e.rid).alarm ≠ none) ∧ w'.connReqs = w.connReqs := by
  intro l
  induction l with
  | nil => intro w h _ _; exact ⟨h, rfl, rfl, fun _ a => a, fun _ he => (by cases he), rfl⟩
  | cons e l ih =>
    intro w h hpp hl
    obtain ⟨he, hq, hea⟩ := hl e (by simp)
    simp only [List.foldl_cons]
    by_cases hal : (w.req e.rid).alarm = none
    · simp only [hal, ↓reduceIte]
      have hk := h.keyId e he hq
      have hm0 : (w.req e.rid).msgId ≠ 0 := by rw [hk.1]; exact hk.2
      obtain ⟨w1, hw1⟩ : ∃ w1, w1 = (if isRel then retryReleaseW p e.rid true w else retryPublishW p e.rid true w) := ⟨_, rfl⟩
      have hw1i : WInvX x w1 := by
        rw [hw1]
        cases isRel with
        | true => exact retryReleaseW_inv h he hq p true none w.now hal ppr hpp hea.symm hlive
        | false => exact retryPublishW_inv h he hq p true none w.now hal ppr hpp hea.symm hlive
      have hw1p : w1.protos = w.protos := by
        rw [hw1]; cases isRel <;> simp [retryReleaseW_protos, retryPublishW_protos]
      have hw1e : w1.ents = w.ents := by
        rw [hw1]; cases isRel <;> simp [retryReleaseW_ents, retryPublishW_ents]
      have hw1a : ∀ r, ((w.req r).alarm ≠ none → (w1.req r).alarm ≠ none) ∧ (w1.req e.rid).alarm ≠ none := by
        intro r; rw [hw1]
        cases isRel with
        | true => exact ⟨(retryReleaseW_alarm p e.rid true w r).1, (retryReleaseW_alarm p e.rid true w r).2.2⟩
        | false => exact ⟨(retryPublishW_alarm p e.rid true w r).1, (retryPublishW_alarm p e.rid true w r).2.2 hm0⟩
      rw [← hw1]
      have hw1c : w1.connReqs = w.connReqs := by
        rw [hw1]; cases isRel <;> simp [retryReleaseW_connReqs, retryPublishW_connReqs]
      obtain ⟨r1, r2, r3, r4, r5, r6⟩ := ih hw1i (by rw [hw1p]; exact hpp)
        (fun e' he' => by rw [hw1e]; exact hl e' (by simp [he']))
      refine ⟨r1, by rw [r2, hw1p], by rw [r3, hw1e], fun r hr => r4 r ((hw1a r).1 hr), fun e' he' => ?_, by rw [r6, hw1c]⟩
      simp only [List.mem_cons] at he'
      rcases he' with rfl | he'
      · exact r4 _ (hw1a e'.rid).2
      · exact r5 e' he'
    · simp only [hal, ↓reduceIte]
      obtain ⟨r1, r2, r3, r4, r5, r6⟩ := ih h hpp (fun e' he' => hl e' (by simp [he']))
      refine ⟨r1, r2, r3, r4, fun e' he' => ?_, r6⟩
      simp only [List.mem_cons] at he'
      rcases he' with rfl | he'
      · exact r4 _ hal
      · exact r5 e' he'

/-- MQTTProtocol._syncSession -/
theorem syncW_inv {x : Option Nat} {w : World} (h : WInvX x w) (p : Nat) (ppr : Proto) (hpp : w.protos.get? p = some ppr)
    (hlive : ppr.lost = false) :
    WInvX x (syncW p w) ∧ (syncW p w).protos = w.protos ∧ (syncW p w).ents = w.ents ∧
    (∀ r, (w.req r).alarm ≠ none → ((syncW p w).req r).alarm ≠ none) ∧
    ArmedIn (fun b => b = .pub ∨ b = .rel) (syncW p w) ppr.addr ∧ (syncW p w).connReqs = w.connReqs := by
  have hpa : w.paddr p = ppr.addr := by simp [World.paddr, getD_of_get? hpp]
  have A := syncLoop_inv (x := x) p ppr hlive true (Ents.items w.ents ppr.addr .rel) h hpp
    (fun e he => ⟨(Ents.mem_items.mp he).1, by rw [(Ents.mem_items.mp he).2.2]; simp, (Ents.mem_items.mp he).2.1⟩)
  simp only [↓reduceIte] at A
  obtain ⟨w1, hw1⟩ : ∃ w1, w1 = (Ents.items w.ents ppr.addr .rel).foldl (fun w e => if (w.req e.rid).alarm = none then
        retryReleaseW p e.rid true w else w) w := ⟨_, rfl⟩
  rw [← hw1] at A
  obtain ⟨a1, a2, a3, a4, a5, a6⟩ := A
  have hpa1 : w1.paddr p = ppr.addr := by simp [World.paddr, World.proto, a2, hpp]
  have B := syncLoop_inv (x := x) p ppr hlive false (Ents.items w1.ents ppr.addr .pub) a1 (by rw [a2]; exact hpp)
    (fun e he => ⟨(Ents.mem_items.mp he).1, by rw [(Ents.mem_items.mp he).2.2]; simp, (Ents.mem_items.mp he).2.1⟩)
  simp only [Bool.false_eq_true, ↓reduceIte] at B
  have hs : syncW p w = (Ents.items w1.ents ppr.addr .pub).foldl (fun w e => if (w.req e.rid).alarm = none then
        retryPublishW p e.rid true w else w) w1 := by
    simp only [syncW, hpa]
    rw [← hw1, hpa1]
  rw [hs]
  obtain ⟨b1, b2, b3, b4, b5, b6⟩ := B
  refine ⟨b1, by rw [b2, a2], by rw [b3, a3], fun r hr => b4 r (a4 r hr), ?_, by rw [b6, a6]⟩
  intro y hy hya hyb
  rw [b3] at hy
  rcases hyb with hyb | hyb
  · exact b5 y (Ents.mem_items.mpr ⟨hy, hya, hyb⟩)
  · rw [a3] at hy
    exact b4 _ (a5 y (Ents.mem_items.mpr ⟨hy, hya, hyb⟩))

/-! ### `_refillPublish` keeps every in-flight entry armed -/

theorem Ents.mem_insert {es : List Ent} {a : Nat} {b : Box} {k rid : Nat} {y : Ent} (h : y ∈ Ents.insert es a b k rid) :
    y ∈ es ∨ y = ⟨a, b, k, rid⟩ := by
  induction es with
  | nil => simp [Ents.insert] at h; exact Or.inr h
  | cons e r ih =>
    simp only [Ents.insert] at h
    split at h
    · simp only [List.mem_cons] at h
      rcases h with rfl | h
      · exact Or.inr rfl
      · exact Or.inl (List.mem_cons_of_mem _ h)
    · simp only [List.mem_cons] at h
      rcases h with rfl | h
      · exact Or.inl (by simp)
      · rcases ih h with h | h
        · exact Or.inl (List.mem_cons_of_mem _ h)
        · exact Or.inr h

theorem refillW_armed (p : Nat) (dup : Bool) (a : Nat) (fuel : Nat) :
    ∀ {w : World}, Armed w a → Armed (refillW p dup fuel w) a := by
  induction fuel with
  | zero => intro w h; exact h
  | succ f ih =>
    intro w h
    simp only [refillW]
    cases hit : Ents.items w.ents (w.paddr p) .queue with
    | nil => exact h
    | cons e rest =>
      simp only
      split
      · apply ih
        obtain ⟨w2, hw2⟩ : ∃ w2, w2 = (if (w.req e.rid).msgId ≠ 0 then
            (w.setEnts fun es => Ents.dropFirst es (w.paddr p) Box.queue).setEnts fun es =>
              Ents.insert es (w.paddr p) Box.pub (w.req e.rid).msgId e.rid
          else w.setEnts fun es => Ents.dropFirst es (w.paddr p) Box.queue) := ⟨_, rfl⟩
        rw [← hw2]
        have hreq2 : ∀ r, w2.req r = w.req r := by intro r; rw [hw2]; split <;> rfl
        intro y hy hya hyq
        rw [retryPublishW_ents] at hy
        by_cases hm0 : (w.req e.rid).msgId = 0
        · simp only [hw2, hm0, ne_eq, not_true_eq_false, ↓reduceIte, setEnts_ents] at hy
          refine (retryPublishW_alarm p e.rid dup _ y.rid).1 ?_
          rw [hreq2]
          exact h y (Ents.mem_dropFirst hy) hya hyq
        · simp only [hw2, ne_eq, hm0, not_false_eq_true, ↓reduceIte, setEnts_ents] at hy
          rcases Ents.mem_insert hy with hy | hy
          · refine (retryPublishW_alarm p e.rid dup _ y.rid).1 ?_
            rw [hreq2]
            exact h y (Ents.mem_dropFirst hy) hya hyq
          · subst hy
            exact (retryPublishW_alarm p e.rid dup _ e.rid).2.2 (by rw [hreq2]; exact hm0)
      · exact h

theorem refillW_connReqs (p : Nat) (dup : Bool) (fuel : Nat) : ∀ (w : World), (refillW p dup fuel w).connReqs = w.connReqs := by
  induction fuel with
  | zero => intro w; rfl
  | succ f ih =>
    intro w
    simp only [refillW]
    split
    · rfl
    · split
      · rw [ih, retryPublishW_connReqs]; split <;> rfl
      · rfl

end Mqtt
