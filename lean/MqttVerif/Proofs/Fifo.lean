import MqttVerif.Proofs.Session3
/-
  FIFO order of the queue of held-back publishes (C10): the sequence numbers (order of the publish() calls) of the messages
  held back for an address are strictly increasing along the queue and below the counter, so the head -- which is what
  `_refillPublish` launches -- is the oldest, and everything published later is younger than everything queued.
  `QStep w w'` summarises what a transition may do to the queues: drop elements and append freshly numbered ones.
-/
namespace Mqtt

/-- the publish() sequence numbers of the messages held back for address `a`, in queue order -/
def QSeqs (w : World) (a : Nat) : List Nat := (Ents.items w.ents a .queue).map fun e => (w.req e.rid).seq

def Fifo (w : World) : Prop := ∀ a, (QSeqs w a).Pairwise (· < ·) ∧ ∀ s ∈ QSeqs w a, s < w.nextSeq

structure QStep (w w' : World) : Prop where
  mono : w.nextSeq ≤ w'.nextSeq
  sub : ∀ a, (QSeqs w' a).Sublist (QSeqs w a ++ List.range' w.nextSeq (w'.nextSeq - w.nextSeq))

theorem QStep.refl (w : World) : QStep w w := ⟨Nat.le_refl _, fun a => by simp⟩

theorem range'_append_sub (a b c : Nat) (h1 : a ≤ b) (h2 : b ≤ c) :
    List.range' a (b - a) ++ List.range' b (c - b) = List.range' a (c - a) := by
  have : c - a = (b - a) + (c - b) := by omega
  rw [this, ← List.range'_append_1]
  congr 2
  omega

theorem QStep.trans {w1 w2 w3 : World} (x : QStep w1 w2) (y : QStep w2 w3) : QStep w1 w3 := by
  refine ⟨Nat.le_trans x.mono y.mono, fun a => ?_⟩
  have h1 := y.sub a
  have h2 := (x.sub a).append_right (List.range' w2.nextSeq (w3.nextSeq - w2.nextSeq))
  rw [List.append_assoc, range'_append_sub _ _ _ x.mono y.mono] at h2
  exact h1.trans h2

theorem Fifo.step {w w' : World} (h : Fifo w) (q : QStep w w') : Fifo w' := by
  intro a
  obtain ⟨hs, hb⟩ := h a
  have hbig : (QSeqs w a ++ List.range' w.nextSeq (w'.nextSeq - w.nextSeq)).Pairwise (· < ·) := by
    rw [List.pairwise_append]
    refine ⟨hs, List.pairwise_lt_range', fun x hx y hy => ?_⟩
    have := hb x hx
    have := (List.mem_range'_1.mp hy).1
    omega
  refine ⟨hbig.sublist (q.sub a), fun s hs' => ?_⟩
  have hm := (q.sub a).subset hs'
  rcases List.mem_append.mp hm with hm | hm
  · exact Nat.lt_of_lt_of_le (hb s hm) q.mono
  · have := (List.mem_range'_1.mp hm).2
    have := q.mono
    omega

/-- the queues and their numbering are untouched -/
theorem qstep_same {w w' : World} (hn : w'.nextSeq = w.nextSeq) (hq : ∀ a, QSeqs w' a = QSeqs w a) : QStep w w' :=
  ⟨by rw [hn]; exact Nat.le_refl _, fun a => by rw [hq a, hn]; simp⟩

/-! ### the queue projection under the list operations of the model -/

theorem Ents.items_append (es : List Ent) (e : Ent) (a : Nat) (b : Box) :
    Ents.items (es ++ [e]) a b = Ents.items es a b ++ (if e.addr = a ∧ e.box = b then [e] else []) := by
  induction es with
  | nil => simp [Ents.items]
  | cons x r ih =>
    simp only [List.cons_append, Ents.items]
    split <;> simp [ih]

theorem Ents.items_remove_other (es : List Ent) (a : Nat) (b : Box) (k : Nat) (a' : Nat) (b' : Box) (hb : b ≠ b') :
    Ents.items (Ents.remove es a b k) a' b' = Ents.items es a' b' := by
  induction es with
  | nil => rfl
  | cons x r ih =>
    simp only [Ents.remove]
    split
    · rename_i hx
      simp only [Ents.items]
      rw [if_neg (fun hc => hb (hx.2.1.symm.trans hc.2))]
    · simp only [Ents.items, ih]

theorem Ents.items_insert_other (es : List Ent) (a : Nat) (b : Box) (k rid : Nat) (a' : Nat) (b' : Box) (hb : b ≠ b') :
    Ents.items (Ents.insert es a b k rid) a' b' = Ents.items es a' b' := by
  induction es with
  | nil => simp [Ents.insert, Ents.items, hb]
  | cons x r ih =>
    simp only [Ents.insert]
    split
    · rename_i hx
      simp only [Ents.items]
      rw [if_neg (fun hc => hb hc.2), if_neg (fun hc => hb (hx.2.1.symm.trans hc.2))]
    · simp only [Ents.items, ih]

theorem Ents.items_dropFirst (es : List Ent) (a : Nat) (b : Box) (a' : Nat) (b' : Box) :
    Ents.items (Ents.dropFirst es a b) a' b' = if a = a' ∧ b = b' then (Ents.items es a' b').tail else Ents.items es a' b' := by
  induction es with
  | nil => simp [Ents.dropFirst, Ents.items]
  | cons x r ih =>
    simp only [Ents.dropFirst]
    split
    · rename_i hx
      simp only [Ents.items]
      by_cases hc : a = a' ∧ b = b'
      · obtain ⟨rfl, rfl⟩ := hc
        simp [hx]
      · rw [if_neg hc, if_neg (fun h2 => hc ⟨hx.1.symm.trans h2.1, hx.2.symm.trans h2.2⟩)]
    · rename_i hx
      simp only [Ents.items, ih]
      by_cases hc : a = a' ∧ b = b'
      · obtain ⟨rfl, rfl⟩ := hc
        simp [hx]
      · simp only [hc, ↓reduceIte]

theorem Ents.items_remove_sublist (es : List Ent) (a : Nat) (b : Box) (k : Nat) (a' : Nat) (b' : Box) :
    (Ents.items (Ents.remove es a b k) a' b').Sublist (Ents.items es a' b') := by
  induction es with
  | nil => exact List.Sublist.refl _
  | cons x r ih =>
    simp only [Ents.remove]
    split
    · simp only [Ents.items]
      split
      · exact List.sublist_cons_self _ _
      · exact List.Sublist.refl _
    · simp only [Ents.items]
      split
      · exact ih.cons₂ _
      · exact ih

/-! ### transitions that leave the queues and their numbering alone, or only shorten them -/

/-- same entries, same sequence numbers, same counter -/
structure QSame (w w' : World) : Prop where
  ents : w'.ents = w.ents
  nextSeq : w'.nextSeq = w.nextSeq
  seq : ∀ r, (w'.req r).seq = (w.req r).seq

theorem QSame.refl (w : World) : QSame w w := ⟨rfl, rfl, fun _ => rfl⟩
theorem QSame.trans {a b c : World} (x : QSame a b) (y : QSame b c) : QSame a c :=
  ⟨by rw [y.ents, x.ents], by rw [y.nextSeq, x.nextSeq], fun r => by rw [y.seq, x.seq]⟩
theorem QSame.qseqs {w w' : World} (h : QSame w w') (a : Nat) : QSeqs w' a = QSeqs w a := by
  simp only [QSeqs, h.ents, h.seq]
theorem QSame.qstep {w w' : World} (h : QSame w w') : QStep w w' := qstep_same h.nextSeq h.qseqs

/-- entries are removed (any container), requests and counter untouched -/
theorem qstep_sublist {w w' : World} (hr : w'.reqs = w.reqs) (hn : w'.nextSeq = w.nextSeq)
    (hs : ∀ a, (Ents.items w'.ents a .queue).Sublist (Ents.items w.ents a .queue)) : QStep w w' := by
  refine ⟨by rw [hn]; exact Nat.le_refl _, fun a => ?_⟩
  rw [hn]; simp only [Nat.sub_self, List.range'_zero, List.append_nil]
  have : ∀ r, w'.req r = w.req r := fun r => by simp [World.req, hr]
  simp only [QSeqs, this]
  exact (hs a).map _

/-- `s` only ever drops queue elements / appends freshly numbered ones -/
def QS (s : Step) : Prop := ∀ w, QStep w (s w).1

theorem qs_ok : QS Step.ok := fun w => QStep.refl w
theorem qs_raise (e : Err) : QS (Step.raise e) := fun w => QStep.refl w
theorem qs_seq {a b : Step} (ha : QS a) (hb : QS b) : QS (a ;; b) := by
  intro w
  simp only [Step.seq]
  rcases hw : a w with ⟨w1, _ | e⟩
  · have := ha w; rw [hw] at this
    exact this.trans (hb w1)
  · have := ha w; rw [hw] at this; exact this
theorem qs_read {f : World → Step} (hf : ∀ w, QS (f w)) : QS (Step.read f) := fun w => hf w w
theorem qs_mod {f : World → World} (hf : ∀ w, QSame w (f w)) : QS (Step.mod f) := fun w => (hf w).qstep
theorem qs_setProto (p : Nat) (f : Proto → Proto) : QS (setProto p f) := qs_mod fun _ => ⟨rfl, rfl, fun _ => rfl⟩
theorem qs_emit (o : Obs) : QS (emit o) := qs_mod fun _ => ⟨rfl, rfl, fun _ => rfl⟩
theorem qs_write (p : Nat) (b : Bytes) : QS (write p b) := qs_mod fun _ => ⟨rfl, rfl, fun _ => rfl⟩
theorem qs_callLater (d : Rat) (k : TKind) {c : Nat → Step} (hc : ∀ t, QS (c t)) : QS (callLater d k c) :=
  qs_read fun _ => qs_seq (qs_mod fun _ => ⟨rfl, rfl, fun _ => rfl⟩) (hc _)
theorem qs_newDfd {c : Nat → Step} (hc : ∀ t, QS (c t)) : QS (newDfd c) :=
  qs_read fun _ => qs_seq (qs_mod fun _ => ⟨rfl, rfl, fun _ => rfl⟩) (hc _)
theorem qs_cancelTimer (t : Nat) : QS (cancelTimer t) := by
  apply qs_read; intro w
  split
  · exact qs_raise _
  · split
    · exact qs_mod fun _ => ⟨rfl, rfl, fun _ => rfl⟩
    · exact qs_raise _
    · exact qs_raise _
theorem qs_cancelAlarm (a : Option Nat) : QS (cancelAlarm a) := by
  cases a with
  | none => exact qs_raise _
  | some t => exact qs_cancelTimer t
theorem qs_fireDfd (d : Nat) (o : Outcome) : QS (fireDfd d o) := by
  apply qs_read; intro w
  split
  · exact qs_raise _
  · exact qs_seq (qs_mod fun _ => ⟨rfl, rfl, fun _ => rfl⟩) (qs_emit _)
theorem qs_fireReqDfd (d : Option Nat) (o : Outcome) : QS (fireReqDfd d o) := by
  cases d with
  | none => exact qs_raise _
  | some d => exact qs_fireDfd d o
theorem qs_forEach {α : Type} (l : List α) {f : α → Step} (hf : ∀ a, QS (f a)) : QS (forEach l f) := by
  induction l with
  | nil => exact qs_ok
  | cons a r ih => exact qs_seq (hf a) ih
theorem qs_setEnts_remove (a : Nat) (b : Box) (k : Nat) : QS (setEnts fun es => Ents.remove es a b k) :=
  fun w => qstep_sublist rfl rfl fun a' => Ents.items_remove_sublist w.ents a b k a' .queue
theorem qs_setEnts_dropFirst (a : Nat) (b : Box) : QS (setEnts fun es => Ents.dropFirst es a b) := by
  intro w
  refine qstep_sublist rfl rfl fun a' => ?_
  show (Ents.items (Ents.dropFirst w.ents a b) a' .queue).Sublist _
  rw [Ents.items_dropFirst]
  split
  · exact List.tail_sublist _
  · exact List.Sublist.refl _
theorem qs_setReq (r : Nat) (f : Req → Req) (hf : ∀ x, (f x).seq = x.seq) : QS (setReq r f) := by
  apply qs_mod; intro w
  refine ⟨rfl, rfl, fun r' => ?_⟩
  rw [req_setReq]
  split
  · rename_i h; subst h; exact hf _
  · rfl

theorem retryPublishW_qsame (p rid : Nat) (dup : Bool) (w : World) : QSame w (retryPublishW p rid dup w) := by
  refine ⟨retryPublishW_ents p rid dup w, ?_, fun r => ?_⟩
  · simp only [retryPublishW]; split <;> simp
  · simp only [retryPublishW, req_setReq, ↓reduceIte]
    split <;> (simp only [emit_req, req_setReq, callLater_req]; by_cases hr : rid = r <;> simp [hr])
theorem retryReleaseW_qsame (p rid : Nat) (dup : Bool) (w : World) : QSame w (retryReleaseW p rid dup w) := by
  refine ⟨retryReleaseW_ents p rid dup w, ?_, fun r => ?_⟩
  · simp only [retryReleaseW]; split <;> simp
  · simp only [retryReleaseW]
    split <;> (simp only [emit_req, req_setReq, callLater_req]; by_cases hr : rid = r <;> simp [hr])
theorem retrySubUnsubW_qsame (p rid : Nat) (dup s : Bool) (w : World) : QSame w (retrySubUnsubW p rid dup s w) := by
  refine ⟨retrySubUnsubW_ents p rid dup s w, ?_, fun r => ?_⟩
  · simp only [retrySubUnsubW]; split <;> simp
  · simp only [retrySubUnsubW]
    split <;> (simp only [emit_req, req_setReq, callLater_req]; by_cases hr : rid = r <;> simp [hr])
theorem qs_retryPublish (p rid : Nat) (dup : Bool) : QS (retryPublish p rid dup) := qs_mod fun w => retryPublishW_qsame p rid dup w
theorem qs_retryRelease (p rid : Nat) (dup : Bool) : QS (retryRelease p rid dup) := qs_mod fun w => retryReleaseW_qsame p rid dup w
theorem qs_retrySubUnsub (p rid : Nat) (dup s : Bool) : QS (retrySubUnsub p rid dup s) := qs_mod fun w => retrySubUnsubW_qsame p rid dup s w

theorem foldl_qsame (l : List Ent) (f : World → Ent → World) (hf : ∀ w e, QSame w (f w e)) (w : World) : QSame w (l.foldl f w) := by
  induction l generalizing w with
  | nil => exact QSame.refl w
  | cons e r ih => exact (hf w e).trans (ih _)
theorem syncW_qsame (p : Nat) (w : World) : QSame w (syncW p w) := by
  simp only [syncW]
  refine (foldl_qsame _ _ (fun w e => ?_) w).trans (foldl_qsame _ _ (fun w e => ?_) _)
  · split
    · exact retryReleaseW_qsame _ _ _ _
    · exact QSame.refl _
  · split
    · exact retryPublishW_qsame _ _ _ _
    · exact QSame.refl _
theorem qs_syncSession (p : Nat) : QS (syncSession p) := qs_mod fun w => syncW_qsame p w

/-- `_refillPublish`: the head of the queue leaves it (into the publish window, or just onto the wire) -/
theorem refillW_qstep (p : Nat) (dup : Bool) (fuel : Nat) : ∀ (w : World), QStep w (refillW p dup fuel w) := by
  induction fuel with
  | zero => intro w; exact QStep.refl w
  | succ f ih =>
    intro w
    simp only [refillW]
    split
    · exact QStep.refl w
    · split
      · refine QStep.trans ?_ (ih _)
        refine QStep.trans (w2 := (if (w.req _).msgId ≠ 0 then
            (w.setEnts fun es => Ents.dropFirst es (w.paddr p) .queue).setEnts fun es => Ents.insert es (w.paddr p) .pub (w.req _).msgId _
          else w.setEnts fun es => Ents.dropFirst es (w.paddr p) .queue)) ?_ (retryPublishW_qsame _ _ _ _).qstep
        have hd := qs_setEnts_dropFirst (w.paddr p) .queue w
        split
        · refine hd.trans (qstep_sublist rfl rfl fun a' => ?_)
          show (Ents.items (Ents.insert _ _ _ _ _) a' .queue).Sublist _
          rw [Ents.items_insert_other _ _ _ _ _ _ _ (by simp)]
          exact List.Sublist.refl _
        · exact hd
      · exact QStep.refl w
theorem qs_refill (p : Nat) : QS (refill p) := fun w => refillW_qstep p false _ w

macro "qs_step" : tactic => `(tactic| first
  | with_reducible exact qs_ok | with_reducible exact qs_raise _ | with_reducible exact qs_emit _
  | with_reducible exact qs_write _ _ | with_reducible exact qs_setProto _ _
  | with_reducible exact qs_cancelTimer _ | with_reducible exact qs_cancelAlarm _
  | with_reducible exact qs_fireDfd _ _ | with_reducible exact qs_fireReqDfd _ _
  | with_reducible exact qs_setEnts_remove _ _ _ | with_reducible exact qs_setEnts_dropFirst _ _
  | with_reducible exact qs_refill _ | with_reducible exact qs_syncSession _
  | with_reducible exact qs_retryPublish _ _ _ | with_reducible exact qs_retryRelease _ _ _
  | with_reducible exact qs_retrySubUnsub _ _ _ _
  | (with_reducible apply qs_setReq; intro x; rfl)
  | (with_reducible apply qs_mod; intro w; exact ⟨rfl, rfl, fun _ => rfl⟩)
  | with_reducible apply qs_seq | (with_reducible apply qs_read; intro w) | (with_reducible apply qs_callLater; intro t)
  | (with_reducible apply qs_newDfd; intro t)
  | (with_reducible apply qs_forEach; intro e)
  | split
  | dsimp only)

macro "qs" : tactic => `(tactic| repeat qs_step)

theorem qs_deliver (p : Nat) (m : RxMsg) : QS (deliver p m) := by unfold deliver; qs
theorem qs_purgeSession (p : Nat) (r : Err) : QS (purgeSession p r) := by unfold purgeSession purgeWindow; qs
theorem qs_mqttConnectionMade (p : Nat) : QS (mqttConnectionMade p) := by
  unfold mqttConnectionMade
  apply qs_read; intro w
  apply qs_seq
  · split
    · exact qs_purgeSession _ _
    · exact qs_syncSession _
  · qs

end Mqtt
