import MqttVerif.Proofs.Conn
import MqttVerif.Proofs.Keeps
import MqttVerif.Props.C14
/-
  CONNACK: `mqttConnectionMade`, the start of the keepalive loop, and the handler as a whole.
-/
namespace Mqtt

theorem armed_of_parts {w : World} {a : Nat} (h1 : ArmedIn (fun b => b = .pub ∨ b = .rel) w a)
    (h2 : ArmedIn (fun b => b = .sub ∨ b = .unsub) w a) : Armed w a := by
  intro e he hea hq
  cases hb : e.box with
  | queue => exact absurd hb hq
  | pub => exact h1 e he hea (Or.inl hb)
  | rel => exact h1 e he hea (Or.inr hb)
  | sub => exact h2 e he hea (Or.inl hb)
  | unsub => exact h2 e he hea (Or.inr hb)

/-- MQTTProtocol.mqttConnectionMade: the inherited session is purged or resumed, the window refilled -/
theorem mqttConnectionMade_inv {x : Option Nat} {w : World} (h : WInvX x w) (p : Nat) (ppr : Proto) (hpp : w.protos.get? p = some ppr)
    (hlive : ppr.lost = false) (hsub : ArmedIn (fun b => b = .sub ∨ b = .unsub) w ppr.addr) :
    (mqttConnectionMade p w).2 = none ∧ WInvX x (mqttConnectionMade p w).1 ∧ (mqttConnectionMade p w).1.protos = w.protos ∧
    (mqttConnectionMade p w).1.connReqs = w.connReqs ∧ Armed (mqttConnectionMade p w).1 ppr.addr ∧
    (Q0 w → Keeps w (mqttConnectionMade p w).1 ∧ Q0 (mqttConnectionMade p w).1) := by
  have hpa : w.paddr p = ppr.addr := by simp [World.paddr, getD_of_get? hpp]
  -- the first phase
  obtain ⟨w1, hw1, hi1, hp1, hc1, ha1, hk1⟩ : ∃ w1, (if (w.proto p).cleanStart then purgeSession p .sessionCleared else syncSession p) w = (w1, none) ∧
      WInvX x w1 ∧ w1.protos = w.protos ∧ w1.connReqs = w.connReqs ∧ Armed w1 ppr.addr ∧ (Q0 w → Keeps w w1 ∧ Q0 w1) := by
    by_cases hcs : (w.proto p).cleanStart = true
    · simp only [hcs, ↓reduceIte]
      obtain ⟨a1, a2, a3, a4, a5, a6, a7, a8, a9, a10, a11, a12⟩ := purgeSession_inv h p .sessionCleared
      refine ⟨_, Prod.ext rfl a1, a2, a4, a6, armed_of_parts (hpa ▸ a9) ?_, fun hq0 => ?_⟩
      · exact hsub.mono a7 (fun r hr => by rw [req_of_reqs a3]; exact hr)
      · exact ⟨keeps_removed (fun r => by rw [req_of_reqs a3]) a6 a10 a11 a12,
          q0_removed (fun r => by rw [req_of_reqs a3]; exact ⟨rfl, rfl, rfl⟩) a7 hq0⟩
    · simp only [hcs, Bool.false_eq_true, ↓reduceIte]
      obtain ⟨a1, a2, a3, a4, a5, a6⟩ := syncW_inv h p ppr hpp hlive
      refine ⟨_, rfl, a1, a2, a6, armed_of_parts a5 ?_, fun hq0 => ⟨(syncW_same p w).keeps, (syncW_same p w).q0 hq0⟩⟩
      exact hsub.mono (fun y hy => a3 ▸ hy) a4
  simp only [mqttConnectionMade, read_apply]
  rw [seq_ok hw1]
  have hpp1 : w1.protos.get? p = some ppr := by rw [hp1]; exact hpp
  obtain ⟨hi2, hp2⟩ := refillW_inv (x := x) p false ppr (Ents.count w1.ents (w1.paddr p) .queue) hi1 hpp1 hlive
  have s2 : refill p w1 = (refillW p false (Ents.count w1.ents (w1.paddr p) .queue) w1, none) := rfl
  rw [seq_ok s2, read_apply]
  have ha2 := refillW_armed p false ppr.addr (Ents.count w1.ents (w1.paddr p) .queue) ha1
  have hc2 := refillW_connReqs p false (Ents.count w1.ents (w1.paddr p) .queue) w1
  have hkq : Q0 w → Keeps w (refillW p false (Ents.count w1.ents (w1.paddr p) .queue) w1) ∧ Q0 (refillW p false (Ents.count w1.ents (w1.paddr p) .queue) w1) := by
    intro hq0
    obtain ⟨k1, q1⟩ := hk1 hq0
    obtain ⟨k2, q2⟩ := refillW_keeps (x := x) p false ppr hlive (Ents.count w1.ents (w1.paddr p) .queue) hi1 hpp1 q1
    exact ⟨k1.trans k2, q2⟩
  split
  · refine ⟨rfl, emit_inv hi2 _, by rw [← hp1, ← hp2]; rfl, by rw [← hc1, ← hc2]; rfl, ha2, fun hq0 => ?_⟩
    obtain ⟨k, q⟩ := hkq hq0
    exact ⟨k.trans (emit_same _ _).keeps, (emit_same _ _).q0 q⟩
  · exact ⟨rfl, hi2, by rw [← hp1, ← hp2]; rfl, by rw [← hc1, ← hc2]; rfl, ha2, hkq⟩

theorem allowed_connected {x : Option Nat} {w : World} (h : WInvX x w) (p : Nat) (ppr : Proto) (hpp : w.protos.get? p = some ppr)
    (hs : ppr.state = .connected) : allowed w p 5 = true ∧ allowed w p 1 = true ∧ allowed w p 7 = true := by
  have e := fun op hop => C14.allowed_eq_honoured w p op h.profileOk hop
  simp only [getD_of_get? hpp, hs] at e
  refine ⟨?_, ?_, ?_⟩
  · rw [e 5 (by omega)]; rfl
  · rw [e 1 (by omega)]; rfl
  · rw [e 7 (by omega)]; rfl

/-- what the keepalive transitions leave alone -/
structure PingFrame (w w' : World) (p : Nat) (ppr : Proto) : Prop where
  ents : w'.ents = w.ents
  reqs : w'.reqs = w.reqs
  connReqs : w'.connReqs = w.connReqs
  fired : w'.fired = w.fired
  nextDfd : w'.nextDfd = w.nextDfd
  proto : ∃ ppr', w'.protos.get? p = some ppr' ∧ ppr'.addr = ppr.addr ∧ ppr'.state = ppr.state ∧ ppr'.lost = ppr.lost ∧
    ppr'.connReq = ppr.connReq ∧ ppr'.onDisc = ppr.onDisc ∧ ppr'.cleanStart = ppr.cleanStart

/-- MQTTBaseProtocol.doPingRequest via `ping()` on a connected protocol with a keepalive -/
theorem ping_inv {x : Option Nat} {w : World} (h : WInvX x w) (p : Nat) (ppr : Proto) (hpp : w.protos.get? p = some ppr)
    (hs : ppr.state = .connected) (hnl : ppr.lost = false) (k : Nat) (hk : ppr.pingKeepalive = some k) :
    (ping p w).2 = none ∧ WInvX x (ping p w).1 ∧ PingFrame w (ping p w).1 p ppr ∧
    ∃ ppr', (ping p w).1.protos.get? p = some ppr' ∧ ppr'.pingTimer = ppr.pingTimer := by
  have hal := (allowed_connected h p ppr hpp hs).1
  simp only [ping, read_apply, hal, ↓reduceIte, doPingRequest]
  rw [seq_ok (write_apply p encodePINGREQ w), read_apply]
  have hp1 : (w.emit (.write p encodePINGREQ)).proto p = ppr := getD_of_get? hpp
  rw [hp1]
  cases hpa : ppr.pingAlarm with
  | some t =>
    simp only [reduceCtorEq, ↓reduceIte]
    exact ⟨rfl, emit_inv h _, ⟨rfl, rfl, rfl, rfl, rfl, ppr, hpp, rfl, rfl, rfl, rfl, rfl, rfl⟩, ppr, hpp, rfl⟩
  | none =>
    simp only [↓reduceIte, hk]
    have hA := pingArm_inv h p ppr hpp hpa hnl (w.now + ticks k) (w.log ++ [.write p encodePINGREQ])
    have s1 : callLater (k : Rat) (.pingAlarm p) (fun tid => setProto p (fun pr => { pr with pingAlarm := some tid })) (w.emit (.write p encodePINGREQ))
        = (pingArmW w p ppr (w.now + ticks k) (w.log ++ [.write p encodePINGREQ]), none) := by
      simp only [callLater, read_apply, Step.seq, Step.mod, setProto]
      have : ((w.emit (.write p encodePINGREQ)).callLater (k : Rat) (.pingAlarm p)).1.proto p = ppr := getD_of_get? hpp
      rw [this]
      rfl
    rw [s1]
    refine ⟨rfl, hA, ⟨rfl, rfl, rfl, rfl, rfl, { ppr with pingAlarm := some w.nextTimer }, ?_, rfl, rfl, rfl, rfl, rfl, rfl⟩,
      { ppr with pingAlarm := some w.nextTimer }, ?_, rfl⟩
    · simp [pingArmW, Dict.get?_set]
    · simp [pingArmW, Dict.get?_set]

/-- one run of the LoopingCall body -/
theorem loopRun_inv {x : Option Nat} {w : World} (h : WInvX x w) (p : Nat) (ppr : Proto) (hpp : w.protos.get? p = some ppr)
    (hnl : ppr.lost = false) (l : Loop) (hl : ppr.pingTimer = some l) (hcall : l.call = none) :
    (loopRun p w).2 = none ∧ WInvX x (loopRun p w).1 ∧ PingFrame w (loopRun p w).1 p ppr := by
  obtain ⟨b1, b2, b3, _⟩ := h.pingTimer p ppr l hpp hl
  obtain ⟨k, hk⟩ : ∃ k, ppr.pingKeepalive = some k := by
    cases hkk : ppr.pingKeepalive with
    | none => exact absurd hkk b3
    | some k => exact ⟨k, rfl⟩
  obtain ⟨a1, a2, a3, ppr1, a4, a5⟩ := ping_inv h p ppr hpp b2 hnl k hk
  obtain ⟨w1, hw1⟩ : ∃ w1, w1 = (ping p w).1 := ⟨_, rfl⟩
  have hping : ping p w = (w1, none) := by rw [hw1]; exact Prod.ext rfl a1
  rw [← hw1] at a2 a3 a4
  simp only [loopRun, hping, read_apply, getD_of_get? a4, a5, hl, b1, ↓reduceIte]
  have hl1 : ppr1.pingTimer = some l := by rw [a5, hl]
  have hS := loopSched_inv a2 p ppr1 a4 l hl1 hcall (w1.now + ticks l.interval)
  have s1 : callLater (l.interval : Rat) (.pingLoop p)
      (fun tid => setProto p (fun pr => { pr with pingTimer := (pr.pingTimer.map fun l => { l with call := some tid }) })) w1
      = (loopSchedW w1 p ppr1 l (w1.now + ticks l.interval), none) := by
    simp only [callLater, read_apply, Step.seq, Step.mod, setProto]
    have : (w1.callLater (l.interval : Rat) (.pingLoop p)).1.proto p = ppr1 := getD_of_get? a4
    rw [this, hl1]
    rfl
  rw [s1]
  obtain ⟨ppr', c1, c2, c3, c4, c5, c6, c7⟩ := a3.proto
  rw [a4] at c1; injection c1 with c1; subst c1
  refine ⟨rfl, hS, ⟨a3.ents, a3.reqs, a3.connReqs, a3.fired, a3.nextDfd, { ppr1 with pingTimer := some { l with call := some w1.nextTimer } }, ?_, c2, c3, c4, c5, c6, c7⟩⟩
  simp [loopSchedW, Dict.get?_set]

theorem seq_assoc (a b c : Step) : ((a ;; b) ;; c) = (a ;; (b ;; c)) := by
  funext w
  simp only [Step.seq]
  rcases h : a w with ⟨w1, _ | e⟩ <;> simp

theorem cancelTimer_at (w : World) (t : Nat) (tm : Timer) (htm : w.timers.get? t = some tm) (hs : tm.status = .pending) :
    cancelTimer t w = ({ w with timers := w.timers.set t { tm with status := .cancelled } }, none) := by
  simp only [cancelTimer, read_apply, htm, hs]; rfl

/-- the tail of handleCONNACK: the connect Deferred fires and the request is forgotten -/
theorem connTail {x : Option Nat} {w : World} (h : WInvX x w) (p : Nat) (ppr : Proto) (hpp : w.protos.get? p = some ppr)
    (hs : ppr.state ≠ .connecting) (cr : Nat) (c : ConnReq) (hcq : ppr.connReq = some cr) (hc : w.connReqs.get? cr = some c)
    (d : Nat) (hd : c.dfd = some d) (hnl : ppr.lost = false) (o : Outcome) :
    (fireDfd d o ;; setProto p (fun pr => { pr with connReq := none })) w = (connDoneW w p ppr d (.fired d o), none) ∧
    WInvX x (connDoneW w p ppr d (.fired d o)) := by
  obtain ⟨hnf, hD⟩ := connDone_inv h p ppr hpp hs cr c hcq hc d hd hnl (.fired d o)
  refine ⟨?_, hD⟩
  rw [seq_ok (fireDfd_unfired w d o hnf), setProto_apply]
  have : (fireD w d (.fired d o)).proto p = ppr := getD_of_get? hpp
  rw [this]; rfl

/-- MQTTBaseProtocol.handleCONNACK on a live connecting protocol -/
theorem handleCONNACK_full {w : World} (h : WInv w) (p : Nat) (ppr : Proto) (hpp : w.protos.get? p = some ppr)
    (hnl : ppr.lost = false) (hs : ppr.state = .connecting) (session : Bool) (rc : Nat) :
    (handleCONNACK p session rc w).2 = none ∧ WInv (handleCONNACK p session rc w).1 ∧
    (Q0 w → Keeps w (handleCONNACK p session rc w).1 ∧ Q0 (handleCONNACK p session rc w).1) := by
  obtain ⟨cr, c, i1, i2, ip, i3⟩ := h.connecting p ppr hpp hs
  simp only [handleCONNACK, read_apply, getD_of_get? hpp, i1, i2]
  cases hd : c.dfd with
  | none => exact ⟨rfl, h, fun hq => ⟨Keeps.refl w, hq⟩⟩
  | some d =>
    simp only
    have hsubAll : ArmedIn (fun b => b = .sub ∨ b = .unsub) w ppr.addr := by
      intro e he _ hb ha
      obtain ⟨q, _, hx, _⟩ := h.subArmed e he hb ha
      cases hx
    have hpt : ppr.pingTimer = none := by
      cases hl : ppr.pingTimer with
      | none => rfl
      | some l => have := (h.pingTimer p ppr l hpp hl).2.1; rw [hs] at this; cases this
    by_cases hrc : rc = 0
    · simp only [hrc, ↓reduceIte, seq_assoc]
      obtain ⟨tm, htm, hts, hA⟩ := accept_inv (WInvX.weaken (x := some p) h) p ppr hpp hs .connected (Or.inr ⟨rfl, rfl⟩) cr c i1 i2 d hd
      rw [seq_ok (cancelTimer_at w c.alarm tm htm hts)]
      have s1 : setProto p (fun pr => { pr with state := .connected }) { w with timers := w.timers.set c.alarm { tm with status := .cancelled } }
          = (acceptW w p ppr c.alarm tm .connected, none) := by
        rw [setProto_apply]
        have : ({ w with timers := w.timers.set c.alarm { tm with status := .cancelled } } : World).proto p = ppr := getD_of_get? hpp
        rw [this]; rfl
      have hppA : (acceptW w p ppr c.alarm tm .connected).protos.get? p = some { ppr with state := .connected } := by
        simp [acceptW, Dict.get?_set]
      obtain ⟨m1, m2, m3, m4, m5, m6⟩ := mqttConnectionMade_inv hA p { ppr with state := .connected } hppA hnl hsubAll
      have hsA : CoreSame w (acceptW w p ppr c.alarm tm .connected) := ⟨rfl, rfl, rfl, rfl, fun _ => ⟨rfl, rfl, rfl⟩⟩
      obtain ⟨wM, hwM⟩ : ∃ wM, wM = (mqttConnectionMade p (acceptW w p ppr c.alarm tm .connected)).1 := ⟨_, rfl⟩
      have sM : mqttConnectionMade p (acceptW w p ppr c.alarm tm .connected) = (wM, none) := by rw [hwM]; exact Prod.ext rfl m1
      rw [← hwM] at m2 m3 m4 m5 m6
      have hppM : wM.protos.get? p = some { ppr with state := .connected } := by rw [m3]; exact hppA
      have hcM : wM.connReqs.get? cr = some c := by rw [m4]; exact i2
      -- the keepalive part
      obtain ⟨wR, pprR, sR, hR, hppR, r1, r2, r3, r4, hcR, haR, hsR⟩ : ∃ wR pprR,
          (if c.keepalive ≠ 0 then
            setProto p (fun pr => { pr with pingKeepalive := some c.keepalive, pingTimer := some ⟨true, c.keepalive, none⟩ }) ;; loopRun p
           else Step.ok) wM = (wR, none) ∧ WInvX (some p) wR ∧ wR.protos.get? p = some pprR ∧ pprR.addr = ppr.addr ∧
          pprR.state = .connected ∧ pprR.lost = false ∧ pprR.connReq = some cr ∧ wR.connReqs.get? cr = some c ∧ Armed wR ppr.addr ∧
          CoreSame wM wR := by
        by_cases hka : c.keepalive = 0
        · simp only [hka, ne_eq, not_true_eq_false, ↓reduceIte]
          exact ⟨wM, _, rfl, m2, hppM, rfl, rfl, hnl, i1, hcM, m5, CoreSame.refl wM⟩
        · simp only [ne_eq, hka, not_false_eq_true, ↓reduceIte]
          have hL := loopOn_inv m2 p { ppr with state := .connected } hppM rfl hpt c.keepalive
          have s2 : setProto p (fun pr => { pr with pingKeepalive := some c.keepalive, pingTimer := some ⟨true, c.keepalive, none⟩ }) wM
              = (loopOnW wM p { ppr with state := .connected } c.keepalive, none) := by
            rw [setProto_apply, getD_of_get? hppM]; rfl
          rw [seq_ok s2]
          have hppL : (loopOnW wM p { ppr with state := .connected } c.keepalive).protos.get? p =
              some { ppr with state := .connected, pingKeepalive := some c.keepalive, pingTimer := some ⟨true, c.keepalive, none⟩ } := by
            simp [loopOnW, Dict.get?_set]
          obtain ⟨q1, q2, q3⟩ := loopRun_inv hL p _ hppL hnl ⟨true, c.keepalive, none⟩ rfl rfl
          obtain ⟨pprR, f1, f2, f3, f4, f5, _⟩ := q3.proto
          refine ⟨_, pprR, Prod.ext rfl q1, q2, f1, f2, f3, by rw [f4]; exact hnl, by rw [f5]; exact i1, by rw [q3.connReqs]; exact hcM, ?_,
            ⟨q3.ents, q3.fired, q3.connReqs, q3.nextDfd, fun r => by rw [req_of_reqs q3.reqs]; exact ⟨rfl, rfl, rfl⟩⟩⟩
          intro e he hea hq
          rw [q3.ents] at he
          rw [req_of_reqs q3.reqs]
          exact m5 e he hea hq
      rw [seq_ok s1, seq_ok sM, seq_ok sR]
      obtain ⟨t1, t2⟩ := connTail hR p pprR hppR (by rw [r2]; simp) cr c r4 hcR d hd r3 (.ok (.bool session))
      rw [t1]
      have hsD : ∀ (w0 : World) (pr0 : Proto) (o : Obs), Keeps w0 (connDoneW w0 p pr0 d o) ∧ (Q0 w0 → Q0 (connDoneW w0 p pr0 d o)) := fun w0 pr0 o =>
        ⟨keeps_fire rfl (fun _ => rfl) rfl rfl (fun d' hd' => by simp only [connDoneW, List.mem_cons]; exact Or.inr hd'),
         fun hq => q0_core (w := w0) rfl (fun _ => ⟨rfl, rfl, rfl⟩) hq⟩
      refine ⟨rfl, WInvX.close t2 ?_ ?_, fun hq0 => ?_⟩
      rotate_left 2
      · obtain ⟨k1, q1⟩ := m6 (hsA.q0 hq0)
        exact ⟨((hsA.keeps.trans k1).trans hsR.keeps).trans (hsD wR pprR _).1, (hsD wR pprR _).2 (hsR.q0 q1)⟩
      · intro pr hpr _ _ e he hea hq
        have hpr' : (connDoneW wR p pprR d (.fired d (.ok (.bool session)))).protos.get? p = some { pprR with connReq := none } := by
          simp [connDoneW, Dict.get?_set]
        rw [hpr'] at hpr; injection hpr with hpr; subst hpr
        exact haR e he (by rw [hea]; exact r1) hq
      · intro pr hpr e he hb hea
        have hpr' : (connDoneW wR p pprR d (.fired d (.ok (.bool session)))).protos.get? p = some { pprR with connReq := none } := by
          simp [connDoneW, Dict.get?_set]
        rw [hpr'] at hpr; injection hpr with hpr; subst hpr
        exact haR e he (by rw [hea]; exact r1) (by rcases hb with hb | hb <;> rw [hb] <;> simp)
    · simp only [hrc, ↓reduceIte, seq_assoc]
      obtain ⟨tm, htm, hts, hA⟩ := accept_inv h p ppr hpp hs .idle (Or.inl rfl) cr c i1 i2 d hd
      rw [seq_ok (cancelTimer_at w c.alarm tm htm hts)]
      have s1 : setProto p (fun pr => { pr with state := .idle }) { w with timers := w.timers.set c.alarm { tm with status := .cancelled } }
          = (acceptW w p ppr c.alarm tm .idle, none) := by
        rw [setProto_apply]
        have : ({ w with timers := w.timers.set c.alarm { tm with status := .cancelled } } : World).proto p = ppr := getD_of_get? hpp
        rw [this]; rfl
      have hppA : (acceptW w p ppr c.alarm tm .idle).protos.get? p = some { ppr with state := .idle } := by
        simp [acceptW, Dict.get?_set]
      obtain ⟨t1, t2⟩ := connTail hA p { ppr with state := .idle } hppA (by simp) cr c i1 i2 d hd hnl (.fail .state)
      rw [seq_ok s1, t1]
      have hsA : CoreSame w (acceptW w p ppr c.alarm tm .idle) := ⟨rfl, rfl, rfl, rfl, fun _ => ⟨rfl, rfl, rfl⟩⟩
      refine ⟨rfl, t2, fun hq0 => ⟨hsA.keeps.trans (keeps_fire rfl (fun _ => rfl) rfl rfl
        (fun d' hd' => by simp only [connDoneW, List.mem_cons]; exact Or.inr hd')), q0_core (w := acceptW w p ppr c.alarm tm .idle) rfl (fun _ => ⟨rfl, rfl, rfl⟩) (hsA.q0 hq0)⟩⟩

theorem handleCONNACK_inv {w : World} (h : WInv w) (p : Nat) (ppr : Proto) (hpp : w.protos.get? p = some ppr)
    (hnl : ppr.lost = false) (hs : ppr.state = .connecting) (session : Bool) (rc : Nat) :
    (handleCONNACK p session rc w).2 = none ∧ WInv (handleCONNACK p session rc w).1 :=
  ⟨(handleCONNACK_full h p ppr hpp hnl hs session rc).1, (handleCONNACK_full h p ppr hpp hnl hs session rc).2.1⟩

end Mqtt
