import MqttVerif.Proofs.TimerFrame
/-
  C15, periodicity.  `KAInv`: in every state between operations
    * a keepalive loop that is running has its next run scheduled (`armed`),
    * that run is due at most `interval` seconds from now (`loopDue`): it was scheduled `interval` seconds ahead when the previous run
      (or the CONNACK) happened, the clock only moves forward, and a timer's due time is never changed,
    * the loop's period is the keepalive of the accepted connect() (`period`).
  Purely structural: no `WInv`, no `Env`.  Two places break `armed` for one protocol for a moment and restore it at once -- CONNACK creates
  the loop object and runs it, the loop timer clears `call` and runs the body: `KAInvX (some p)` suspends the clause for `p`, `loopRun p`
  reinstates it.
-/
namespace Mqtt

structure KAInvX (x : Option Nat) (w : World) : Prop where
  tf : TF w
  callExists : ∀ p pr l t, w.protos.get? p = some pr → pr.pingTimer = some l → l.call = some t → ∃ tm, w.timers.get? t = some tm
  loopDue : ∀ p pr l t tm, w.protos.get? p = some pr → pr.pingTimer = some l → l.call = some t → w.timers.get? t = some tm →
    tm.due ≤ w.now + ticks l.interval
  armed : ∀ p pr l, w.protos.get? p = some pr → some p ≠ x → pr.pingTimer = some l → l.running = true → l.call ≠ none
  period : ∀ p pr l k, w.protos.get? p = some pr → pr.pingTimer = some l → pr.pingKeepalive = some k → (l.interval : Nat) = k

abbrev KAInv (w : World) : Prop := KAInvX none w

theorem KAInvX.weaken {x : Option Nat} {w : World} (h : KAInv w) : KAInvX x w :=
  { h with armed := fun p pr l hp _ hl hr => h.armed p pr l hp (by simp) hl hr }

def KAS (x : Option Nat) (s : Step) : Prop := ∀ w, KAInvX x w → KAInvX x (s w).1

section kas
variable {x : Option Nat}

theorem kas_ok : KAS x Step.ok := fun _ h => h
theorem kas_raise (e : Err) : KAS x (Step.raise e) := fun _ h => h
theorem kas_seq {a b : Step} (ha : KAS x a) (hb : KAS x b) : KAS x (a ;; b) := by
  intro w h
  have h1 := ha w h
  simp only [Step.seq]
  rcases hw : a w with ⟨w1, _ | e⟩
  · rw [hw] at h1; exact hb w1 h1
  · rw [hw] at h1; exact h1
theorem kas_read {f : World → Step} (hf : ∀ w, KAS x (f w)) : KAS x (Step.read f) := fun w => hf w w

/-- a step that leaves protocol objects alone, keeps every timer's due time, and does not turn the clock back -/
theorem kas_world {w w' : World} (h : KAInvX x w) (h1 : w'.protos = w.protos) (hk : TKeep w w') (h4 : w.now ≤ w'.now) : KAInvX x w' := by
  refine ⟨hk.tf, fun p pr l t hp hl hc => ?_, fun p pr l t tm hp hl hc ht => ?_, fun p pr l hp hx hl hr => ?_, fun p pr l k hp hl hk => ?_⟩
  · rw [h1] at hp
    obtain ⟨tm0, ht0⟩ := h.callExists p pr l t hp hl hc
    obtain ⟨tm', ht', _, _⟩ := hk.keep t tm0 ht0
    exact ⟨tm', ht'⟩
  · rw [h1] at hp
    obtain ⟨tm0, ht0⟩ := h.callExists p pr l t hp hl hc
    obtain ⟨tm', ht', hd, _⟩ := hk.keep t tm0 ht0
    rw [ht] at ht'; injection ht' with ht'; subst ht'
    have := h.loopDue p pr l t tm0 hp hl hc ht0
    omega
  · rw [h1] at hp; exact h.armed p pr l hp hx hl hr
  · rw [h1] at hp; exact h.period p pr l k hp hl hk

theorem kas_mod {f : World → World} (h1 : ∀ w, (f w).protos = w.protos) (h2 : ∀ w, (f w).timers = w.timers) (h3 : ∀ w, (f w).nextTimer = w.nextTimer)
    (h4 : ∀ w, (f w).now = w.now) : KAS x (Step.mod f) := fun w h =>
  kas_world (w' := f w) h (h1 w) (tkeep_same h.tf (h2 w) (h3 w)) (by rw [h4 w])

theorem kas_emit (o : Obs) : KAS x (emit o) := kas_mod (fun _ => rfl) (fun _ => rfl) (fun _ => rfl) (fun _ => rfl)
theorem kas_write (p : Nat) (b : Bytes) : KAS x (write p b) := kas_emit _
theorem kas_abort (p : Nat) : KAS x (abort p) := kas_emit _
theorem kas_setEnts (f : List Ent → List Ent) : KAS x (setEnts f) := kas_mod (fun _ => rfl) (fun _ => rfl) (fun _ => rfl) (fun _ => rfl)
theorem kas_setReq (r : Nat) (f : Req → Req) : KAS x (setReq r f) := kas_mod (fun _ => rfl) (fun _ => rfl) (fun _ => rfl) (fun _ => rfl)

/-- what a write to a protocol object may do to its keepalive loop without disturbing `KAInvX`: nothing; drop it; stop it -/
def LoopOk (pr pr' : Proto) : Prop :=
  (pr'.pingTimer = pr.pingTimer ∧ pr'.pingKeepalive = pr.pingKeepalive) ∨ pr'.pingTimer = none ∨
  (pr'.pingKeepalive = pr.pingKeepalive ∧ ∃ l l', pr.pingTimer = some l ∧ pr'.pingTimer = some l' ∧ l'.interval = l.interval ∧ l'.running = false ∧
    (l'.call = l.call ∨ l'.call = none))

theorem kas_setProto (q : Nat) (g : Proto → Proto) (hg : ∀ pr, LoopOk pr (g pr)) : KAS x (setProto q g) := by
  intro w h
  have hdef : ∀ p, w.protos.get? p = none → (w.proto p).pingTimer = none := by
    intro p hp; simp [World.proto, hp]; rfl
  -- every protocol object afterwards is an old one, or `g` of the old one at `q` (of the default one, which has no loop, if `q` is new)
  have hget : ∀ p pr, (setProto q g w).1.protos.get? p = some pr →
      w.protos.get? p = some pr ∨ (p = q ∧ pr = g (w.proto q)) := by
    intro p pr hp
    simp only [setProto, Step.mod, Dict.get?_set] at hp
    split at hp
    · rename_i he; subst he; injection hp with hp; exact Or.inr ⟨rfl, hp.symm⟩
    · exact Or.inl hp
  have hold : ∀ pr0, w.protos.get? q = some pr0 → w.proto q = pr0 := fun pr0 h0 => by simp [World.proto, h0]
  have hkeep : TKeep w (setProto q g w).1 := tkeep_same h.tf rfl rfl
  refine ⟨h.tf, fun p pr l t hp hl hc => ?_, fun p pr l t tm hp hl hc ht => ?_, fun p pr l hp hx hl hr => ?_, fun p pr l k hp hl hk => ?_⟩
  all_goals (rcases hget p pr hp with h0 | ⟨hpq, hpr⟩)
  · exact h.callExists p pr l t h0 hl hc
  · subst hpq; subst hpr
    by_cases hex : ∃ pr0, w.protos.get? p = some pr0
    · obtain ⟨pr0, h0⟩ := hex
      rw [hold pr0 h0] at hl
      rcases hg pr0 with ⟨e1, _⟩ | e1 | ⟨_, l0, l', e0, e1, _, _, e4⟩
      · exact h.callExists p pr0 l t h0 (e1 ▸ hl) hc
      · rw [e1] at hl; cases hl
      · rw [e1] at hl; injection hl with hl; subst hl
        rcases e4 with e4 | e4
        · exact h.callExists p pr0 l0 t h0 e0 (e4 ▸ hc)
        · rw [e4] at hc; cases hc
    · have hn : w.protos.get? p = none := by
        cases hq : w.protos.get? p with
        | none => rfl
        | some y => exact absurd ⟨y, hq⟩ hex
      rcases hg (w.proto p) with ⟨e1, _⟩ | e1 | ⟨_, l0, l', e0, _⟩
      · rw [e1, hdef p hn] at hl; cases hl
      · rw [e1] at hl; cases hl
      · rw [hdef p hn] at e0; cases e0
  · exact h.loopDue p pr l t tm h0 hl hc ht
  · subst hpq; subst hpr
    by_cases hex : ∃ pr0, w.protos.get? p = some pr0
    · obtain ⟨pr0, h0⟩ := hex
      rw [hold pr0 h0] at hl
      rcases hg pr0 with ⟨e1, _⟩ | e1 | ⟨_, l0, l', e0, e1, e2, _, e4⟩
      · exact h.loopDue p pr0 l t tm h0 (e1 ▸ hl) hc ht
      · rw [e1] at hl; cases hl
      · rw [e1] at hl; injection hl with hl; subst hl
        rcases e4 with e4 | e4
        · rw [e2]; exact h.loopDue p pr0 l0 t tm h0 e0 (e4 ▸ hc) ht
        · rw [e4] at hc; cases hc
    · have hn : w.protos.get? p = none := by
        cases hq : w.protos.get? p with
        | none => rfl
        | some y => exact absurd ⟨y, hq⟩ hex
      rcases hg (w.proto p) with ⟨e1, _⟩ | e1 | ⟨_, l0, l', e0, _⟩
      · rw [e1, hdef p hn] at hl; cases hl
      · rw [e1] at hl; cases hl
      · rw [hdef p hn] at e0; cases e0
  · exact h.armed p pr l h0 hx hl hr
  · subst hpq; subst hpr
    by_cases hex : ∃ pr0, w.protos.get? p = some pr0
    · obtain ⟨pr0, h0⟩ := hex
      rw [hold pr0 h0] at hl
      rcases hg pr0 with ⟨e1, _⟩ | e1 | ⟨_, l0, l', e0, e1, _, e3, _⟩
      · exact h.armed p pr0 l h0 hx (e1 ▸ hl) hr
      · rw [e1] at hl; cases hl
      · rw [e1] at hl; injection hl with hl; subst hl
        rw [e3] at hr; cases hr
    · have hn : w.protos.get? p = none := by
        cases hq : w.protos.get? p with
        | none => rfl
        | some y => exact absurd ⟨y, hq⟩ hex
      rcases hg (w.proto p) with ⟨e1, _⟩ | e1 | ⟨_, l0, l', e0, _⟩
      · rw [e1, hdef p hn] at hl; cases hl
      · rw [e1] at hl; cases hl
      · rw [hdef p hn] at e0; cases e0
  · exact h.period p pr l k h0 hl hk
  · subst hpq; subst hpr
    by_cases hex : ∃ pr0, w.protos.get? p = some pr0
    · obtain ⟨pr0, h0⟩ := hex
      rw [hold pr0 h0] at hl hk
      rcases hg pr0 with ⟨e1, e2⟩ | e1 | ⟨e2, l0, l', e0, e1, e3, _, _⟩
      · exact h.period p pr0 l k h0 (e1 ▸ hl) (e2 ▸ hk)
      · rw [e1] at hl; cases hl
      · rw [e1] at hl; injection hl with hl; subst hl
        rw [e3]; exact h.period p pr0 l0 k h0 e0 (e2 ▸ hk)
    · have hn : w.protos.get? p = none := by
        cases hq : w.protos.get? p with
        | none => rfl
        | some y => exact absurd ⟨y, hq⟩ hex
      rcases hg (w.proto p) with ⟨e1, _⟩ | e1 | ⟨_, l0, l', e0, _⟩
      · rw [e1, hdef p hn] at hl; cases hl
      · rw [e1] at hl; cases hl
      · rw [hdef p hn] at e0; cases e0


theorem kas_callLater (d : Rat) (k : TKind) {c : Nat → Step} (hc : ∀ t, KAS x (c t)) : KAS x (callLater d k c) := by
  refine kas_read fun w0 => kas_seq (fun w h => ?_) (hc _)
  exact kas_world (w' := (w.callLater d k).1) h rfl (tkeep_callLater w h.tf d k) (Nat.le_refl _)
theorem kas_newDfd {c : Nat → Step} (hc : ∀ t, KAS x (c t)) : KAS x (newDfd c) :=
  kas_read fun _ => kas_seq (kas_mod (fun _ => rfl) (fun _ => rfl) (fun _ => rfl) (fun _ => rfl)) (hc _)
theorem kas_makeId {c : Nat → Step} (hc : ∀ t, KAS x (c t)) : KAS x (makeId c) :=
  kas_read fun _ => kas_seq (kas_mod (fun _ => rfl) (fun _ => rfl) (fun _ => rfl) (fun _ => rfl)) (hc _)
theorem kas_of_ts {s : Step} (hts : TS s) (hp : ∀ w, (s w).1.protos = w.protos) (hn : ∀ w, (s w).1.now = w.now) : KAS x s := fun w h =>
  kas_world h (hp w) (hts w h.tf) (by rw [hn w])
theorem cancelTimer_frame (t : Nat) (w : World) : (cancelTimer t w).1.protos = w.protos ∧ (cancelTimer t w).1.now = w.now := by
  cases ht : w.timers.get? t with
  | none => simp only [cancelTimer, Step.read, ht]; exact ⟨rfl, rfl⟩
  | some tm =>
    cases hs : tm.status <;> (simp only [cancelTimer, Step.read, ht, hs]; exact ⟨rfl, rfl⟩)
theorem kas_cancelTimer (t : Nat) : KAS x (cancelTimer t) :=
  kas_of_ts (ts_cancelTimer t) (fun w => (cancelTimer_frame t w).1) (fun w => (cancelTimer_frame t w).2)
theorem kas_cancelAlarm (a : Option Nat) : KAS x (cancelAlarm a) := by
  cases a with
  | none => exact kas_raise _
  | some t => exact kas_cancelTimer t
theorem kas_fireDfd (d : Nat) (o : Outcome) : KAS x (fireDfd d o) := by
  refine kas_read fun w => ?_
  split
  · exact kas_raise _
  · exact kas_seq (kas_mod (fun _ => rfl) (fun _ => rfl) (fun _ => rfl) (fun _ => rfl)) (kas_emit _)
theorem kas_fireReqDfd (d : Option Nat) (o : Outcome) : KAS x (fireReqDfd d o) := by
  cases d with
  | none => exact kas_raise _
  | some d => exact kas_fireDfd d o
theorem kas_forEach {α : Type} (l : List α) {f : α → Step} (hf : ∀ a, KAS x (f a)) : KAS x (forEach l f) := by
  induction l with
  | nil => exact kas_ok
  | cons a r ih => exact kas_seq (hf a) ih

theorem retryPublishW_now (p rid : Nat) (dup : Bool) (w : World) : (retryPublishW p rid dup w).now = w.now := by
  simp only [retryPublishW]; split <;> rfl
theorem retryReleaseW_now (p rid : Nat) (dup : Bool) (w : World) : (retryReleaseW p rid dup w).now = w.now := by
  simp only [retryReleaseW]; split <;> rfl
theorem retrySubUnsubW_now (p rid : Nat) (dup s : Bool) (w : World) : (retrySubUnsubW p rid dup s w).now = w.now := by
  simp only [retrySubUnsubW]; split <;> rfl
theorem refillW_now (p : Nat) (dup : Bool) (fuel : Nat) : ∀ (w : World), (refillW p dup fuel w).now = w.now := by
  induction fuel with
  | zero => intro w; rfl
  | succ f ih =>
    intro w
    simp only [refillW]
    split
    · rfl
    · split
      · rw [ih, retryPublishW_now]; split <;> rfl
      · rfl
theorem foldRel_now (p : Nat) (l : List Ent) : ∀ (w : World),
    (l.foldl (fun w e => if (w.req e.rid).alarm = none then retryReleaseW p e.rid true w else w) w).now = w.now := by
  induction l with
  | nil => intro w; rfl
  | cons e r ih =>
    intro w
    simp only [List.foldl]
    rw [ih]
    split
    · exact retryReleaseW_now _ _ _ _
    · rfl
theorem foldPub_now (p : Nat) (l : List Ent) : ∀ (w : World),
    (l.foldl (fun w e => if (w.req e.rid).alarm = none then retryPublishW p e.rid true w else w) w).now = w.now := by
  induction l with
  | nil => intro w; rfl
  | cons e r ih =>
    intro w
    simp only [List.foldl]
    rw [ih]
    split
    · exact retryPublishW_now _ _ _ _
    · rfl

theorem kas_retryPublish (p rid : Nat) (dup : Bool) : KAS x (retryPublish p rid dup) :=
  kas_of_ts (ts_retryPublish p rid dup) (fun w => retryPublishW_protos p rid dup w) (fun w => retryPublishW_now p rid dup w)
theorem kas_retryRelease (p rid : Nat) (dup : Bool) : KAS x (retryRelease p rid dup) :=
  kas_of_ts (ts_retryRelease p rid dup) (fun w => retryReleaseW_protos p rid dup w) (fun w => retryReleaseW_now p rid dup w)
theorem kas_retrySubUnsub (p rid : Nat) (dup s : Bool) : KAS x (retrySubUnsub p rid dup s) :=
  kas_of_ts (ts_retrySubUnsub p rid dup s) (fun w => retrySubUnsubW_protos p rid dup s w) (fun w => retrySubUnsubW_now p rid dup s w)
theorem kas_refill (p : Nat) : KAS x (refill p) :=
  kas_of_ts (ts_refill p) (fun w => refillW_protos p false _ w) (fun w => refillW_now p false _ w)
theorem kas_syncSession (p : Nat) : KAS x (syncSession p) :=
  kas_of_ts (ts_syncSession p) (fun w => by show (syncW p w).protos = _; simp only [syncW]; rw [foldPub_protos, foldRel_protos])
    (fun w => by show (syncW p w).now = _; simp only [syncW]; rw [foldPub_now, foldRel_now])


end kas

/-! ### the two places where the loop is (re)started, and the one where it is stopped -/

theorem protos_setProto (w : World) (q : Nat) (g : Proto → Proto) (p : Nat) (pr : Proto) (hp : (setProto q g w).1.protos.get? p = some pr) :
    (p ≠ q ∧ w.protos.get? p = some pr) ∨ (p = q ∧ pr = g (w.proto q)) := by
  simp only [setProto, Step.mod, Dict.get?_set] at hp
  split at hp
  · rename_i he; subst he; injection hp with hp; exact Or.inr ⟨rfl, hp.symm⟩
  · rename_i he; exact Or.inl ⟨fun h => he h.symm, hp⟩

/-- what the write that precedes a run of the loop body does to the loop of `p`: a new loop object whose period is the new keepalive, or
    the old one with `call` cleared -/
def LoopNew (pr pr' : Proto) : Prop :=
  pr'.pingTimer = none ∨ ∃ l', pr'.pingTimer = some l' ∧ l'.call = none ∧
    ((pr'.pingKeepalive = pr.pingKeepalive ∧ ∃ l, pr.pingTimer = some l ∧ l'.interval = l.interval) ∨ pr'.pingKeepalive = some l'.interval)

theorem suspend_setProto {w : World} (h : KAInvX none w) (p : Nat) (g : Proto → Proto) (hg : ∀ pr, LoopNew pr (g pr)) :
    KAInvX (some p) (setProto p g w).1 := by
  refine ⟨h.tf, fun q pr l t hq hl hc => ?_, fun q pr l t tm hq hl hc ht => ?_, fun q pr l hq hx hl hr => ?_, fun q pr l k hq hl hk => ?_⟩
  all_goals (rcases protos_setProto w p g q pr hq with ⟨hne, h0⟩ | ⟨he, hpr⟩)
  · exact h.callExists q pr l t h0 hl hc
  · subst hpr
    rcases hg (w.proto p) with e | ⟨l', e1, e2, _⟩
    · rw [e] at hl; cases hl
    · rw [e1] at hl; injection hl with hl; subst hl; rw [e2] at hc; cases hc
  · exact h.loopDue q pr l t tm h0 hl hc ht
  · subst hpr
    rcases hg (w.proto p) with e | ⟨l', e1, e2, _⟩
    · rw [e] at hl; cases hl
    · rw [e1] at hl; injection hl with hl; subst hl; rw [e2] at hc; cases hc
  · exact h.armed q pr l h0 (by simp) hl hr
  · subst he; exact absurd rfl hx
  · exact h.period q pr l k h0 hl hk
  · subst he; subst hpr
    rcases hg (w.proto q) with e | ⟨l', e1, _, e3⟩
    · rw [e] at hl; cases hl
    · rw [e1] at hl; injection hl with hl; subst hl
      rcases e3 with ⟨e4, l0, e5, e6⟩ | e4
      · rw [e6]
        by_cases hex : ∃ pr0, w.protos.get? q = some pr0
        · obtain ⟨pr0, h0⟩ := hex
          have hpq : w.proto q = pr0 := by simp [World.proto, h0]
          rw [hpq] at e4 e5 hk
          exact h.period q pr0 l0 k h0 e5 (e4 ▸ hk)
        · have hn : w.protos.get? q = none := by
            cases hq' : w.protos.get? q with
            | none => rfl
            | some y => exact absurd ⟨y, hq'⟩ hex
          have : (w.proto q).pingTimer = none := by simp [World.proto, hn]; rfl
          rw [this] at e5; cases e5
      · rw [e4] at hk; injection hk


theorem close_of {w : World} {p : Nat} (h : KAInvX (some p) w)
    (hp : ∀ pr l, w.protos.get? p = some pr → pr.pingTimer = some l → l.running = true → l.call ≠ none) : KAInv w :=
  ⟨h.tf, h.callExists, h.loopDue, fun q pr l hq _ hl hr => by
    by_cases hqp : q = p
    · subst hqp; exact hp pr l hq hl hr
    · exact h.armed q pr l hq (by simpa using hqp) hl hr, h.period⟩

theorem kas_doPingRequest (x : Option Nat) (p : Nat) : KAS x (doPingRequest p) := by
  unfold doPingRequest
  refine kas_seq (kas_write _ _) (kas_read fun w => ?_)
  split
  · split
    · exact kas_raise _
    · exact kas_callLater _ _ fun tid => kas_setProto _ _ fun pr => Or.inl ⟨rfl, rfl⟩
  · exact kas_ok
theorem kas_ping (x : Option Nat) (p : Nat) : KAS x (ping p) := by
  unfold ping
  refine kas_read fun w => ?_
  split
  · exact kas_doPingRequest x p
  · exact kas_raise _

theorem option_map_some {α β : Type} (f : α → β) (o : Option α) (b : β) (h : o.map f = some b) : ∃ a, o = some a ∧ f a = b := by
  cases o with
  | none => cases h
  | some a => exact ⟨a, rfl, by simpa using h⟩

/-- running the loop body reinstates `armed` for its protocol: the loop is re-armed `interval` seconds ahead, or it has stopped -/
theorem loopRun_close {w : World} {p : Nat} (h : KAInvX (some p) w) : KAInv (loopRun p w).1 := by
  have h1 := kas_ping (some p) p w h
  unfold loopRun
  rcases hpg : ping p w with ⟨w1, _ | e⟩
  · rw [hpg] at h1
    simp only at h1 ⊢
    show KAInv ((match (w1.proto p).pingTimer with
      | some l =>
        if l.running then
          callLater l.interval (.pingLoop p) fun tid =>
            setProto p (fun pr => { pr with pingTimer := (pr.pingTimer.map fun (l : Loop) => { l with call := some tid }) })
        else Step.ok
      | none => Step.ok) w1).1
    cases hl : (w1.proto p).pingTimer with
    | none =>
      show KAInv w1
      refine close_of h1 fun pr l hq hpt _ => ?_
      have : w1.proto p = pr := by simp [World.proto, hq]
      rw [this, hpt] at hl; cases hl
    | some l =>
      dsimp only
      by_cases hr : l.running = true
      · rw [if_pos hr]
        -- the protocol object exists (the default one has no loop)
        obtain ⟨pr0, hp0⟩ : ∃ pr0, w1.protos.get? p = some pr0 := by
          cases hq : w1.protos.get? p with
          | some y => exact ⟨y, rfl⟩
          | none =>
            have hnone : (w1.proto p).pingTimer = none := by
              simp [World.proto, hq]; rfl
            rw [hnone] at hl; cases hl
        have hpr0 : w1.proto p = pr0 := by simp [World.proto, hp0]
        rw [hpr0] at hl
        have hk := tkeep_callLater w1 h1.tf (l.interval : Rat) (.pingLoop p)
        -- the resulting world, explicitly
        have hres : (callLater (l.interval : Rat) (.pingLoop p) (fun tid =>
            setProto p (fun pr => { pr with pingTimer := (pr.pingTimer.map fun l => { l with call := some tid }) })) w1).1
            = (setProto p (fun pr => { pr with pingTimer := (pr.pingTimer.map fun l => { l with call := some w1.nextTimer }) }) (w1.callLater (l.interval : Rat) (.pingLoop p)).1).1 := rfl
        rw [hres]
        generalize hwc : (w1.callLater (l.interval : Rat) (.pingLoop p)).1 = wc at hk ⊢
        have hcp : wc.protos = w1.protos := by rw [← hwc]; rfl
        have hcn : wc.now = w1.now := by rw [← hwc]; rfl
        have hct : wc.timers.get? w1.nextTimer = some ⟨w1.now + ticks (l.interval : Rat), .pingLoop p, .pending⟩ := by
          rw [← hwc]; simp [Dict.get?_set]
        have hc1 : KAInvX (some p) wc := kas_world h1 hcp hk (by rw [hcn])
        have hwp : wc.proto p = pr0 := by simp [World.proto, hcp, hp0]
        refine ⟨hc1.tf, fun q pr l' t hq hl' hc => ?_, fun q pr l' t tm hq hl' hc ht => ?_, fun q pr l' hq _ hl' hr' => ?_, fun q pr l' k hq hl' hk' => ?_⟩
        all_goals (rcases protos_setProto wc p _ q pr hq with ⟨hne, h0⟩ | ⟨he, hpr⟩)
        · exact hc1.callExists q pr l' t h0 hl' hc
        · subst hpr; rw [hwp] at hl'
          simp only [hl, Option.map_some] at hl'
          injection hl' with hl'; subst hl'
          simp only at hc; injection hc with hc; subst hc
          exact ⟨_, hct⟩
        · exact hc1.loopDue q pr l' t tm h0 hl' hc ht
        · subst hpr; rw [hwp] at hl'
          simp only [hl, Option.map_some] at hl'
          injection hl' with hl'; subst hl'
          simp only at hc; injection hc with hc; subst hc
          have : tm = ⟨w1.now + ticks (l.interval : Rat), .pingLoop p, .pending⟩ := by
            have := ht; simp only [setProto, Step.mod] at this; rw [hct] at this; injection this with this; exact this.symm
          rw [this]; simp only
          show w1.now + ticks (l.interval : Rat) ≤ wc.now + ticks (l.interval : Rat)
          rw [hcn]
        · exact hc1.armed q pr l' h0 (by simpa using hne) hl' hr'
        · subst hpr; rw [hwp] at hl'
          simp only [hl, Option.map_some] at hl'
          injection hl' with hl'; subst hl'
          simp
        · exact hc1.period q pr l' k h0 hl' hk'
        · subst he; subst hpr; rw [hwp] at hl' hk'
          simp only [hl, Option.map_some] at hl'
          injection hl' with hl'; subst hl'
          exact h1.period q pr0 l k hp0 hl hk'
      · rw [if_neg hr]
        show KAInv w1
        refine close_of h1 fun pr l' hq hpt hr' => ?_
        have : w1.proto p = pr := by simp [World.proto, hq]
        rw [this, hpt] at hl; injection hl with hl; subst hl
        exact absurd hr' hr
  · rw [hpg] at h1
    simp only at h1 ⊢
    have h2 : KAInvX (some p) (setProto p (fun pr => { pr with pingTimer := (pr.pingTimer.map fun l => { l with running := false, call := none }) }) w1).1 := by
      refine kas_setProto p _ (fun pr => ?_) w1 h1
      cases hpt : pr.pingTimer with
      | none => exact Or.inr (Or.inl (by simp [hpt]))
      | some l => exact Or.inr (Or.inr ⟨rfl, l, { l with running := false, call := none }, hpt, by simp [hpt], rfl, rfl, Or.inr rfl⟩)
    refine close_of h2 fun pr l hq hpt hr => ?_
    rcases protos_setProto w1 p _ p pr hq with ⟨hne, _⟩ | ⟨_, hpr⟩
    · exact absurd rfl hne
    · subst hpr
      simp only at hpt
      obtain ⟨l0, _, hl0⟩ := option_map_some _ _ _ hpt
      rw [← hl0] at hr; cases hr


theorem kas_unit {p : Nat} {g : Proto → Proto} (hg : ∀ pr, LoopNew pr (g pr)) : KAS none (setProto p g ;; loopRun p) := by
  intro w h
  have e : (setProto p g ;; loopRun p) w = loopRun p (setProto p g w).1 := rfl
  rw [e]
  exact loopRun_close (suspend_setProto h p g hg)

/-- `{l with call := none}` on a loop whose armed-ness is suspended -/
theorem kasx_clearCall (p : Nat) : KAS (some p) (setProto p (fun pr => { pr with pingTimer := (pr.pingTimer.map fun (l : Loop) => { l with call := none }) })) := by
  intro w h
  refine ⟨h.tf, fun q pr l t hq hl hc => ?_, fun q pr l t tm hq hl hc ht => ?_, fun q pr l hq hx hl hr => ?_, fun q pr l k hq hl hk => ?_⟩
  all_goals (rcases protos_setProto w p _ q pr hq with ⟨hne, h0⟩ | ⟨he, hpr⟩)
  · exact h.callExists q pr l t h0 hl hc
  · subst hpr; simp only at hl
    obtain ⟨l0, _, hl0⟩ := option_map_some _ _ _ hl
    rw [← hl0] at hc; cases hc
  · exact h.loopDue q pr l t tm h0 hl hc ht
  · subst hpr; simp only at hl
    obtain ⟨l0, _, hl0⟩ := option_map_some _ _ _ hl
    rw [← hl0] at hc; cases hc
  · exact h.armed q pr l h0 hx hl hr
  · subst he; exact absurd rfl hx
  · exact h.period q pr l k h0 hl hk
  · subst he; subst hpr; simp only at hl hk
    obtain ⟨l0, hl0, hl1⟩ := option_map_some _ _ _ hl
    rw [← hl1]; simp only
    by_cases hex : ∃ pr0, w.protos.get? q = some pr0
    · obtain ⟨pr0, h0⟩ := hex
      have hpq : w.proto q = pr0 := by simp [World.proto, h0]
      rw [hpq] at hl0 hk
      exact h.period q pr0 l0 k h0 hl0 hk
    · have hn : w.protos.get? q = none := by
        cases hq' : w.protos.get? q with
        | none => rfl
        | some y => exact absurd ⟨y, hq'⟩ hex
      have : (w.proto q).pingTimer = none := by
        simp [World.proto, hn]; rfl
      rw [this] at hl0; cases hl0

theorem kasx_loopStop (p : Nat) : KAS (some p) (loopStop p) := by
  unfold loopStop
  refine kas_read fun w => ?_
  split
  · exact kas_ok
  · split
    · exact kas_raise _
    · refine kas_seq (kas_setProto p _ fun pr => ?_) ?_
      · cases hpt : pr.pingTimer with
        | none => exact Or.inr (Or.inl (by simp [hpt]))
        | some l => exact Or.inr (Or.inr ⟨rfl, l, { l with running := false }, hpt, by simp [hpt], rfl, rfl, Or.inl rfl⟩)
      · split
        · exact kas_ok
        · exact kas_seq (kas_cancelTimer _) (kasx_clearCall p)

/-- `LoopingCall.stop()`: the loop object ends up not running (so nothing is demanded of its `call`) -/
theorem kas_loopStop (p : Nat) : KAS none (loopStop p) := by
  intro w h
  have hstop : KAS none (setProto p (fun pr => { pr with pingTimer := (pr.pingTimer.map fun (l : Loop) => { l with running := false }) })) := by
    refine kas_setProto p _ fun pr => ?_
    cases hpt : pr.pingTimer with
    | none => exact Or.inr (Or.inl (by simp [hpt]))
    | some l => exact Or.inr (Or.inr ⟨rfl, l, { l with running := false }, hpt, by simp [hpt], rfl, rfl, Or.inl rfl⟩)
  unfold loopStop
  show KAInv ((match (w.proto p).pingTimer with
    | none => Step.ok
    | some l =>
      if !l.running then Step.raise .assertion
      else
        setProto p (fun pr => { pr with pingTimer := (pr.pingTimer.map fun (l : Loop) => { l with running := false }) }) ;;
        match l.call with
        | none => Step.ok
        | some tid => cancelTimer tid ;;
            setProto p (fun pr => { pr with pingTimer := (pr.pingTimer.map fun (l : Loop) => { l with call := none }) })) w).1
  cases hl : (w.proto p).pingTimer with
  | none => exact h
  | some l =>
    dsimp only
    split
    · exact h
    · cases hc : l.call with
      | none => exact kas_seq hstop kas_ok w h
      | some tid =>
        dsimp only
        -- after `running := false` and the cancel, clearing `call` cannot break `armed`
        generalize hw1 : (setProto p (fun pr => { pr with pingTimer := (pr.pingTimer.map fun (l : Loop) => { l with running := false }) }) w).1 = w1
        have h1 : KAInv w1 := by rw [← hw1]; exact hstop w h
        have hrun : ∀ pr l', w1.protos.get? p = some pr → pr.pingTimer = some l' → l'.running = false := by
          intro pr l' hq hpt
          rw [← hw1] at hq
          rcases protos_setProto w p _ p pr hq with ⟨hne, _⟩ | ⟨_, hpr⟩
          · exact absurd rfl hne
          · subst hpr; simp only at hpt
            obtain ⟨l0, _, hl0⟩ := option_map_some _ _ _ hpt
            rw [← hl0]
        have e : ((setProto p (fun pr => { pr with pingTimer := (pr.pingTimer.map fun (l : Loop) => { l with running := false }) }) ;;
            (cancelTimer tid ;; setProto p (fun pr => { pr with pingTimer := (pr.pingTimer.map fun (l : Loop) => { l with call := none }) }))) w)
            = (cancelTimer tid ;; setProto p (fun pr => { pr with pingTimer := (pr.pingTimer.map fun (l : Loop) => { l with call := none }) })) w1 := by
          rw [← hw1]; rfl
        rw [e]
        have h2 := kas_cancelTimer (x := none) tid w1 h1
        have hp2 := (cancelTimer_frame tid w1).1
        simp only [Step.seq]
        rcases hct : cancelTimer tid w1 with ⟨w2, _ | err⟩
        · rw [hct] at h2 hp2
          simp only at h2 hp2 ⊢
          have h3 := kasx_clearCall p w2 (KAInvX.weaken h2)
          refine close_of h3 fun pr l' hq hpt hr' => ?_
          rcases protos_setProto w2 p _ p pr hq with ⟨hne, _⟩ | ⟨_, hpr⟩
          · exact absurd rfl hne
          · subst hpr; simp only at hpt
            obtain ⟨l0, hl0, hl1⟩ := option_map_some _ _ _ hpt
            rw [← hl1] at hr'; simp only at hr'
            -- `l0` is the loop of `p` in `w2`, i.e. in `w1`: not running
            by_cases hex : ∃ pr0, w2.protos.get? p = some pr0
            · obtain ⟨pr0, h0⟩ := hex
              have hpq : w2.proto p = pr0 := by simp [World.proto, h0]
              rw [hpq] at hl0
              rw [hp2] at h0
              rw [hrun pr0 l0 h0 hl0] at hr'; cases hr'
            · have hn : w2.protos.get? p = none := by
                cases hq' : w2.protos.get? p with
                | none => rfl
                | some y => exact absurd ⟨y, hq'⟩ hex
              have : (w2.proto p).pingTimer = none := by
                simp [World.proto, hn]; rfl
              rw [this] at hl0; cases hl0
        · rw [hct] at h2; exact h2


theorem KAInvX.congr {x : Option Nat} {w w' : World} (h : KAInvX x w) (h1 : w'.protos = w.protos) (h2 : w'.timers = w.timers)
    (h3 : w'.nextTimer = w.nextTimer) (h4 : w'.now = w.now) : KAInvX x w' :=
  kas_world h h1 (tkeep_same h.tf h2 h3) (by rw [h4])

macro "kas_step" : tactic => `(tactic| first
  | with_reducible exact kas_ok | with_reducible exact kas_raise _ | with_reducible exact kas_emit _
  | with_reducible exact kas_write _ _ | with_reducible exact kas_abort _ | with_reducible exact kas_setEnts _
  | with_reducible exact kas_setReq _ _
  | ((with_reducible apply kas_setProto); (intro pr; exact Or.inl ⟨rfl, rfl⟩))
  | with_reducible exact kas_cancelTimer _ | with_reducible exact kas_cancelAlarm _
  | with_reducible exact kas_fireDfd _ _ | with_reducible exact kas_fireReqDfd _ _
  | with_reducible exact kas_refill _ | with_reducible exact kas_syncSession _
  | with_reducible exact kas_retryPublish _ _ _ | with_reducible exact kas_retryRelease _ _ _
  | with_reducible exact kas_retrySubUnsub _ _ _ _
  | ((with_reducible refine kas_mod (fun w => ?h1) (fun w => ?h2) (fun w => ?h3) (fun w => ?h4)); (case h1 => rfl); (case h2 => rfl); (case h3 => rfl); (case h4 => rfl))
  | with_reducible apply kas_seq | ((with_reducible apply kas_read); intro w) | ((with_reducible apply kas_callLater); intro t)
  | ((with_reducible apply kas_newDfd); intro t) | ((with_reducible apply kas_makeId); intro t)
  | ((with_reducible apply kas_forEach); intro e)
  | split
  | dsimp only)
macro "kass" : tactic => `(tactic| repeat kas_step)

section handlers
variable {x : Option Nat}

theorem kas_deliver (p : Nat) (m : RxMsg) : KAS x (deliver p m) := by unfold deliver; kass
theorem kas_drainQueue (p : Nat) (r : Err) (fuel : Nat) : KAS x (drainQueue p r fuel) := by
  induction fuel with
  | zero => exact kas_ok
  | succ f ih =>
    unfold drainQueue
    apply kas_read; intro w
    split
    · exact kas_ok
    · apply kas_seq (kas_setEnts _)
      apply kas_seq
      · split
        · exact kas_fireReqDfd _ _
        · exact kas_ok
      · exact ih
theorem kas_cancelWindowAlarms (l : List Ent) : KAS x (cancelWindowAlarms l) := by unfold cancelWindowAlarms; kass
theorem kas_failWindow (p : Nat) (s : Bool) (r : Err) : KAS x (failWindow p s r) := by unfold failWindow; kass
theorem kas_purgeSession (p : Nat) (r : Err) : KAS x (purgeSession p r) := by unfold purgeSession purgeWindow; kass
theorem kas_doConnectionLost (p : Nat) (r : Err) : KAS x (doConnectionLost p r) := by
  unfold doConnectionLost
  apply kas_read; intro w
  refine kas_seq (kas_cancelWindowAlarms _) (kas_seq (kas_cancelWindowAlarms _) (kas_seq (kas_cancelWindowAlarms _) (kas_seq (kas_cancelWindowAlarms _)
    (kas_seq (kas_failWindow _ _ _) (kas_seq (kas_failWindow _ _ _) ?_)))))
  apply kas_read; intro w'
  split
  · exact kas_seq (kas_purgeSession _ _) (kas_read fun _ => kas_drainQueue _ _ _)
  · exact kas_ok
theorem kas_mqttConnectionMade (p : Nat) : KAS x (mqttConnectionMade p) := by
  unfold mqttConnectionMade
  apply kas_read; intro w
  refine kas_seq ?_ (kas_seq (kas_refill _) ?_)
  · split
    · exact kas_purgeSession _ _
    · exact kas_syncSession _
  · kass
theorem kas_handlePINGRESP (p : Nat) : KAS x (handlePINGRESP p) := by unfold handlePINGRESP; kass
theorem kas_handleSubUnsubAck (p : Nat) (b : Bool) (m : Nat) (v : Val) : KAS x (handleSubUnsubAck p b m v) := by unfold handleSubUnsubAck; kass
theorem kas_handlePUBLISH (p : Nat) (m : RxMsg) : KAS x (handlePUBLISH p m) := by
  unfold handlePUBLISH
  split
  · exact kas_deliver _ _
  · split
    · split
      · exact kas_seq (kas_write _ _) (kas_deliver _ _)
      · exact kas_raise _
    · split
      · refine kas_seq (kas_mod (fun _ => rfl) (fun _ => rfl) (fun _ => rfl) (fun _ => rfl)) ?_
        split
        · exact kas_write _ _
        · exact kas_raise _
      · exact kas_ok
theorem kas_handlePUBREL (p : Nat) (m : Nat) : KAS x (handlePUBREL p m) := by
  unfold handlePUBREL
  apply kas_read; intro w
  refine kas_seq ?_ ?_
  · split
    · exact kas_ok
    · exact kas_seq (kas_mod (fun _ => rfl) (fun _ => rfl) (fun _ => rfl) (fun _ => rfl)) (kas_deliver _ _)
  · split
    · exact kas_write _ _
    · exact kas_raise _
theorem kas_handlePUBACK (p : Nat) (m : Nat) : KAS x (handlePUBACK p m) := by unfold handlePUBACK; kass
theorem kas_handlePUBREC (p : Nat) (m : Nat) : KAS x (handlePUBREC p m) := by
  unfold handlePUBREC
  generalize encodePUBREL (m : Int) = E
  apply kas_read; intro w
  split
  · exact kas_ok
  · split
    · exact kas_ok
    · apply kas_seq (kas_cancelAlarm _)
      apply kas_seq (kas_setEnts _)
      cases E with
      | error e => exact kas_raise _
      | ok bs =>
        refine kas_read fun w' => ?_
        exact kas_seq (kas_mod (fun _ => rfl) (fun _ => rfl) (fun _ => rfl) (fun _ => rfl)) (kas_seq (kas_setEnts _) (kas_retryRelease _ _ _))
theorem kas_handlePUBCOMP (p : Nat) (m : Nat) : KAS x (handlePUBCOMP p m) := by unfold handlePUBCOMP; kass
theorem kas_registerSubUnsub (p : Nat) (s : Bool) (i : Nat) (bs : Bytes) : KAS x (registerSubUnsub p s i bs) := by unfold registerSubUnsub; kass
end handlers

/-- CONNACK: on acceptance with a keepalive the loop object is created with that period and run at once -/
theorem kas_handleCONNACK (p : Nat) (session : Bool) (rc : Nat) : KAS none (handleCONNACK p session rc) := by
  unfold handleCONNACK
  apply kas_read; intro w
  split
  · exact kas_raise _
  · split
    · exact kas_raise _
    · split
      · exact kas_ok
      · rename_i c _ _ _
        refine kas_seq (kas_cancelTimer _) (kas_seq ?_ (kas_setProto _ _ fun _ => Or.inl ⟨rfl, rfl⟩))
        split
        · refine kas_seq (kas_setProto _ _ fun _ => Or.inl ⟨rfl, rfl⟩) (kas_seq (kas_mqttConnectionMade p) (kas_seq ?_ (kas_fireDfd _ _)))
          split
          · exact kas_unit fun pr => Or.inr ⟨⟨true, _, none⟩, rfl, rfl, Or.inr rfl⟩
          · exact kas_ok
        · exact kas_seq (kas_setProto _ _ fun _ => Or.inl ⟨rfl, rfl⟩) (kas_fireDfd _ _)

theorem kas_processPacket (p : Nat) (pkt : Bytes) : KAS none (processPacket p pkt) := by
  unfold processPacket
  split
  · exact kas_raise _
  · dsimp only
    split
    · exact kas_abort _
    · split
      · exact kas_abort _
      · apply kas_read; intro w
        split
        all_goals (try exact kas_abort _)
        all_goals (split <;> (try split) <;> first
          | exact kas_abort _ | exact kas_ok | exact kas_handleCONNACK _ _ _ | exact kas_handlePINGRESP _
          | exact kas_handleSubUnsubAck _ _ _ _ | exact kas_handlePUBLISH _ _ | exact kas_handlePUBACK _ _
          | exact kas_handlePUBREC _ _ | exact kas_handlePUBREL _ _ | exact kas_handlePUBCOMP _ _)
theorem kas_accumulate (p : Nat) (fuel : Nat) : KAS none (accumulate p fuel) := by
  induction fuel with
  | zero => exact kas_ok
  | succ f ih =>
    unfold accumulate
    apply kas_read; intro w
    split
    · exact kas_ok
    · exact kas_seq (kas_processPacket _ _) (kas_seq (kas_setProto _ _ fun _ => Or.inl ⟨rfl, rfl⟩) ih)
theorem kas_dataReceived (p : Nat) (d : Bytes) : KAS none (dataReceived p d) := by
  unfold dataReceived
  exact kas_seq (kas_setProto _ _ fun _ => Or.inl ⟨rfl, rfl⟩) (kas_read fun _ => kas_accumulate _ _)

theorem kas_connectionLost (p : Nat) (r : Err) : KAS none (connectionLost p r) := by
  unfold connectionLost
  apply kas_read; intro w
  apply kas_seq
  · split
    · exact kas_ok
    · exact kas_seq (kas_loopStop p) (kas_setProto _ _ fun _ => Or.inr (Or.inl rfl))
  apply kas_seq
  · split
    · exact kas_ok
    · exact kas_seq (kas_cancelTimer _) (kas_setProto _ _ fun _ => Or.inl ⟨rfl, rfl⟩)
  apply kas_seq (kas_doConnectionLost p r)
  refine kas_seq (kas_setProto _ _ fun _ => Or.inl ⟨rfl, rfl⟩) ?_
  kass

theorem kas_runTimer (k : TKind) : KAS none (runTimer k) := by
  cases k with
  | connack cr => unfold runTimer; kass
  | pingLoop q =>
    show KAS none (setProto q (fun pr => { pr with pingTimer := (pr.pingTimer.map fun (l : Loop) => { l with call := none }) }) ;; loopRun q)
    refine kas_unit fun pr => ?_
    cases hpt : pr.pingTimer with
    | none => exact Or.inl (by simp [hpt])
    | some l => exact Or.inr ⟨{ l with call := none }, by simp [hpt], rfl, Or.inl ⟨rfl, l, hpt, rfl⟩⟩
  | pingAlarm q => exact kas_seq (kas_setProto _ _ fun _ => Or.inl ⟨rfl, rfl⟩) (kas_abort _)
  | retry q rid => unfold runTimer; kass
  | onDisc q r => exact kas_emit _

theorem kas_fireTimer (t : Nat) : KAS none (fireTimer t) := by
  intro w h
  cases ht : w.timers.get? t with
  | none =>
    have e : fireTimer t w = emit .nofire w := by simp only [fireTimer, Step.read, ht]
    rw [e]; exact kas_emit _ w h
  | some tm =>
    have e : fireTimer t w = (if tm.status = TStatus.pending then
        Step.mod (fun w => { w with now := max w.now tm.due, timers := w.timers.set t { tm with status := .called } }) ;; runTimer tm.kind
      else emit .nofire) w := by simp only [fireTimer, Step.read, ht]
    rw [e]
    by_cases hs : tm.status = .pending
    · rw [if_pos hs]
      have k1 : KAInv { w with now := max w.now tm.due, timers := w.timers.set t { tm with status := .called } } := by
        have hk := tkeep_status w h.tf t tm ht .called
        exact kas_world (w' := { w with now := max w.now tm.due, timers := w.timers.set t { tm with status := .called } }) h rfl
          ⟨hk.tf, hk.keep⟩ (Nat.le_max_left _ _)
      simp only [Step.seq, Step.mod]
      exact kas_runTimer tm.kind _ k1
    · rw [if_neg hs]; exact kas_emit _ w h

/-- **every operation keeps `KAInv`** -- no `Env`, no `WInv` -/
theorem ka_step (w : World) (h : KAInv w) (op : Op) : KAInv (step w op) := by
  have hstep : ∀ (s : Step), KAS none s → KAInv (match s w with
      | (w', none) => w'
      | (w', some e) => { w' with log := w'.log ++ [if op.isReactor then Obs.esc e else Obs.raised e] }) := by
    intro s hs
    have := hs w h
    rcases hw : s w with ⟨w', _ | e⟩
    · rw [hw] at this; exact this
    · rw [hw] at this; exact this.congr rfl rfl rfl rfl
  unfold step
  cases op with
  | build a =>
    refine hstep (buildProtocol a) fun w h => ?_
    have h1 := kas_setProto (x := none) w.nextProto (fun _ => ({ addr := a } : Proto)) (fun _ => Or.inr (Or.inl rfl)) w h
    exact h1.congr rfl rfl rfl rfl
  | sethandlers p m => exact hstep (apiSetHandlers p m) (kas_setProto _ _ fun _ => Or.inl ⟨rfl, rfl⟩)
  | connect p a =>
    refine hstep (apiConnect p a) ?_
    unfold apiConnect
    generalize a.toF.encode = E
    apply kas_read; intro w
    split
    · exact kas_emit _
    · split
      · exact kas_emit _
      · cases E with
        | error e =>
          dsimp only
          split
          · exact kas_emit _
          · exact kas_raise _
        | ok pdu => dsimp only; kass
  | disconnect p => refine hstep (apiDisconnect p) ?_; unfold apiDisconnect; kass
  | publish p t pl qs r =>
    refine hstep (apiPublish p t pl qs r) ?_
    intro w0
    rw [apiPublish_eq]
    have hmk : ∀ pr qn m d bs, KAS none (mkStep p pr qn m d bs) := by intro pr qn m d bs; unfold mkStep; kass
    split
    · exact kas_emit _ w0
    · split
      · exact kas_emit _ w0
      · split
        · cases encodePublishPy t pl 0 r none with
          | error e => exact kas_emit _ w0
          | ok bs => exact kas_seq (hmk _ _ _ _ _) (kas_emit _) w0
        · apply kas_makeId (c := _) ?_ w0
          intro i
          cases encodePublishPy t pl qs.toNat r (some (i : Int)) with
          | error e => exact kas_emit _
          | ok bs => exact kas_newDfd fun d => kas_seq (hmk _ _ _ _ _) (kas_emit _)
  | subscribe p a qs =>
    refine hstep (apiSubscribe p a qs) ?_
    unfold apiSubscribe
    apply kas_read; intro w
    cases a <;> dsimp only <;> (repeat' (first | with_reducible exact kas_emit _ | split)) <;>
      (refine kas_makeId fun i => ?_
       generalize encodeWithId 0x82 _ _ = E
       cases E with
       | error e => exact kas_emit _
       | ok bs => exact kas_registerSubUnsub _ _ _ _)
  | unsubscribe p a =>
    refine hstep (apiUnsubscribe p a) ?_
    unfold apiUnsubscribe
    apply kas_read; intro w
    split
    · exact kas_emit _
    · refine kas_makeId fun _ => kas_read fun w1 => ?_
      cases a <;> dsimp only <;> (repeat' (first | with_reducible exact kas_emit _ | split)) <;>
        (refine kas_makeId fun i => ?_
         generalize encodeWithId 0xA2 _ _ = E
         cases E with
         | error e => exact kas_emit _
         | ok bs => exact kas_registerSubUnsub _ _ _ _)
  | setwin p n => refine hstep (apiSetWindow p n) ?_; unfold apiSetWindow; kass
  | settimeout p n => refine hstep (apiSetTimeout p n) ?_; unfold apiSetTimeout; kass
  | setbw p b f => refine hstep (apiSetBandwith p b f) ?_; unfold apiSetBandwith; kass
  | jit v => exact hstep (Step.mod fun w => { w with jitter := v }) (kas_mod (fun _ => rfl) (fun _ => rfl) (fun _ => rfl) (fun _ => rfl))
  | setid v => exact hstep (Step.mod fun w => { w with nextId := v }) (kas_mod (fun _ => rfl) (fun _ => rfl) (fun _ => rfl) (fun _ => rfl))
  | recv p d => exact hstep (dataReceived p d) (kas_dataReceived p d)
  | lost p r => exact hstep (connectionLost p r) (kas_connectionLost p r)
  | fire t => exact hstep (fireTimer t) (kas_fireTimer t)

theorem KAInv.init (profile : Nat) : KAInv (World.init profile) :=
  ⟨fun t tm h => by simp [World.init, Dict.get?] at h, fun p pr l t h => by simp [World.init, Dict.get?] at h,
   fun p pr l t tm h => by simp [World.init, Dict.get?] at h, fun p pr l h => by simp [World.init, Dict.get?] at h,
   fun p pr l k h => by simp [World.init, Dict.get?] at h⟩

theorem run_ka (ops : List Op) : ∀ w, KAInv w → KAInv (run w ops) := by
  induction ops with
  | nil => intro w h; exact h
  | cons op r ih => intro w h; exact ih _ (ka_step w h op)

end Mqtt
