import MqttVerif.Proofs.EnvOk
import MqttVerif.Props.C08s
/-
  C04, the notification half: `onDisconnection` is called at most once per protocol object.
  The handler is called by the timer that `connectionLost` schedules (0.1 s later) and by nothing else; a timer runs at most once;
  `connectionLost` is delivered at most once per protocol (`Env`). Counting argument over the timer table and the log:
      #(onDisc p observations) ≤ #(onDisc p timers that have run) ≤ #(onDisc p timers ever created) ≤ 1.
-/
namespace Mqtt

def isOD (p : Nat) : TKind → Bool
  | .onDisc q _ => q == p
  | _ => false

def isODObs (p : Nat) : Obs → Bool
  | .onDisc q _ => q == p
  | _ => false

/-- number of entries of a timer table satisfying `P` -/
def cnt (P : Timer → Bool) (d : Dict Timer) : Nat := (d.filter fun kt => P kt.2).length

def odTotal (w : World) (p : Nat) : Nat := cnt (fun tm => isOD p tm.kind) w.timers
def odCalled (w : World) (p : Nat) : Nat := cnt (fun tm => isOD p tm.kind && tm.status == .called) w.timers
def odObs (w : World) (p : Nat) : Nat := (w.log.filter (isODObs p)).length

/-- timer identifiers are below the counter -/
def TF (w : World) : Prop := ∀ t tm, w.timers.get? t = some tm → t < w.nextTimer

theorem cnt_set_fresh (P : Timer → Bool) (d : Dict Timer) (k : Nat) (v : Timer) (h : d.get? k = none) :
    cnt P (d.set k v) = cnt P d + (if P v then 1 else 0) := by
  induction d with
  | nil => simp [Dict.set, cnt]; split <;> simp_all
  | cons x r ih =>
    obtain ⟨k', u⟩ := x
    simp only [Dict.get?] at h
    split at h
    · cases h
    · rename_i hne
      simp only [Dict.set, hne, ↓reduceIte]
      have := ih h
      simp only [cnt, List.filter_cons] at this ⊢
      split <;> simp_all <;> omega

theorem cnt_set_same (P : Timer → Bool) (d : Dict Timer) (k : Nat) (u v : Timer) (h : d.get? k = some u) (hP : P v = P u) :
    cnt P (d.set k v) = cnt P d := by
  induction d with
  | nil => simp [Dict.get?] at h
  | cons x r ih =>
    obtain ⟨k', u'⟩ := x
    simp only [Dict.get?] at h
    split at h
    · rename_i heq
      injection h with h; subst h
      simp only [Dict.set, heq, ↓reduceIte, cnt, List.filter_cons, hP]
      split <;> simp
    · rename_i hne
      simp only [Dict.set, hne, ↓reduceIte]
      have := ih h
      simp only [cnt, List.filter_cons] at this ⊢
      split <;> simp_all

theorem cnt_set_gain (P : Timer → Bool) (d : Dict Timer) (k : Nat) (u v : Timer) (h : d.get? k = some u) (hu : P u = false) :
    cnt P (d.set k v) = cnt P d + (if P v then 1 else 0) := by
  induction d with
  | nil => simp [Dict.get?] at h
  | cons x r ih =>
    obtain ⟨k', u'⟩ := x
    simp only [Dict.get?] at h
    split at h
    · rename_i heq
      injection h with h; subst h
      simp only [Dict.set, heq, ↓reduceIte, cnt, List.filter_cons, hu]
      split <;> simp_all
    · rename_i hne
      simp only [Dict.set, hne, ↓reduceIte]
      have := ih h
      simp only [cnt, List.filter_cons] at this ⊢
      split <;> simp_all <;> omega

theorem get?_set_tf (d : Dict Timer) (k : Nat) (v : Timer) (t : Nat) : (d.set k v).get? t = if k = t then some v else d.get? t := Dict.get?_set d k t v

/-! ### transitions that leave the notification bookkeeping alone -/

structure ODSame (w w' : World) : Prop where
  tf : TF w'
  obs : ∀ p, odObs w' p = odObs w p
  total : ∀ p, odTotal w' p = odTotal w p
  called : ∀ p, odCalled w' p = odCalled w p

theorem ODSame.refl {w : World} (h : TF w) : ODSame w w := ⟨h, fun _ => rfl, fun _ => rfl, fun _ => rfl⟩
theorem ODSame.trans {a b c : World} (x : ODSame a b) (y : ODSame b c) : ODSame a c :=
  ⟨y.tf, fun p => by rw [y.obs, x.obs], fun p => by rw [y.total, x.total], fun p => by rw [y.called, x.called]⟩

/-- `s` schedules no notification, runs none, reports none (given that timer identifiers are fresh) -/
def ODS (s : Step) : Prop := ∀ w, TF w → ODSame w (s w).1

theorem ods_ok : ODS Step.ok := fun _ h => ODSame.refl h
theorem ods_raise (e : Err) : ODS (Step.raise e) := fun _ h => ODSame.refl h
theorem ods_seq {a b : Step} (ha : ODS a) (hb : ODS b) : ODS (a ;; b) := by
  intro w h
  simp only [Step.seq]
  rcases hw : a w with ⟨w1, _ | e⟩
  · have := ha w h; rw [hw] at this
    exact this.trans (hb w1 this.tf)
  · have := ha w h; rw [hw] at this; exact this
theorem ods_read {f : World → Step} (hf : ∀ w, ODS (f w)) : ODS (Step.read f) := fun w => hf w w
/-- anything that touches neither the timer table, nor its counter, nor the log -/
theorem ods_mod {f : World → World} (hf : ∀ w, (f w).timers = w.timers ∧ (f w).nextTimer = w.nextTimer ∧ (f w).log = w.log) : ODS (Step.mod f) := by
  intro w h
  obtain ⟨a, b, c⟩ := hf w
  refine ⟨fun t tm ht => ?_, fun p => ?_, fun p => ?_, fun p => ?_⟩
  · show t < (f w).nextTimer; rw [b]; exact h t tm (by rw [← a]; exact ht)
  · show ((f w).log.filter _).length = _; rw [c]; rfl
  · show cnt _ (f w).timers = _; rw [a]; rfl
  · show cnt _ (f w).timers = _; rw [a]; rfl
theorem ods_setProto (p : Nat) (f : Proto → Proto) : ODS (setProto p f) := ods_mod fun _ => ⟨rfl, rfl, rfl⟩
theorem ods_setEnts (f : List Ent → List Ent) : ODS (setEnts f) := ods_mod fun _ => ⟨rfl, rfl, rfl⟩
theorem ods_setReq (r : Nat) (f : Req → Req) : ODS (setReq r f) := ods_mod fun _ => ⟨rfl, rfl, rfl⟩

/-- the world with one more observation that is not a notification -/
theorem odsame_emit (w : World) (o : Obs) (ho : ∀ p, isODObs p o = false) (h : TF w) : ODSame w (w.emit o) := by
  refine ⟨h, fun p => ?_, fun _ => rfl, fun _ => rfl⟩
  simp [odObs, World.emit, List.filter_append, ho p]
theorem ods_emit (o : Obs) (ho : ∀ p, isODObs p o = false) : ODS (emit o) := fun w h => odsame_emit w o ho h
theorem ods_write (p : Nat) (b : Bytes) : ODS (write p b) := ods_emit _ fun _ => rfl

/-- the world with one more timer whose kind is not a notification -/
theorem odsame_callLater (w : World) (d : Rat) (k : TKind) (hk : ∀ p, isOD p k = false) (h : TF w) : ODSame w (w.callLater d k).1 := by
  have hfresh : w.timers.get? w.nextTimer = none := by
    cases hg : w.timers.get? w.nextTimer with
    | none => rfl
    | some tm => exact absurd (h _ _ hg) (Nat.lt_irrefl _)
  refine ⟨fun t tm ht => ?_, fun _ => rfl, fun p => ?_, fun p => ?_⟩
  · simp only [World.callLater, get?_set_tf] at ht
    show t < w.nextTimer + 1
    split at ht
    · omega
    · have := h t tm ht; omega
  · simp only [odTotal, World.callLater]
    rw [cnt_set_fresh _ _ _ _ hfresh]; simp [hk p]
  · simp only [odCalled, World.callLater]
    rw [cnt_set_fresh _ _ _ _ hfresh]; simp [hk p]
theorem ods_callLater (d : Rat) (k : TKind) (hk : ∀ p, isOD p k = false) {c : Nat → Step} (hc : ∀ t, ODS (c t)) : ODS (callLater d k c) := by
  apply ods_read; intro w0
  apply ods_seq
  · intro w h; exact odsame_callLater w d k hk h
  · exact hc _
theorem ods_newDfd {c : Nat → Step} (hc : ∀ t, ODS (c t)) : ODS (newDfd c) :=
  ods_read fun _ => ods_seq (ods_mod fun _ => ⟨rfl, rfl, rfl⟩) (hc _)
theorem ods_makeId {c : Nat → Step} (hc : ∀ t, ODS (c t)) : ODS (makeId c) :=
  ods_read fun _ => ods_seq (ods_mod fun _ => ⟨rfl, rfl, rfl⟩) (hc _)

/-- cancelling turns a pending timer into a cancelled one: neither total nor `called` count moves -/
theorem ods_cancelTimer (t : Nat) : ODS (cancelTimer t) := by
  intro w h
  simp only [cancelTimer, read_apply]
  cases hg : w.timers.get? t with
  | none => exact ODSame.refl h
  | some tm =>
    simp only
    cases hs : tm.status with
    | called => exact ODSame.refl h
    | cancelled => exact ODSame.refl h
    | pending =>
      simp only [mod_apply]
      refine ⟨fun t' tm' ht' => ?_, fun _ => rfl, fun p => ?_, fun p => ?_⟩
      · simp only [get?_set_tf] at ht'
        split at ht'
        · rename_i heq; subst heq; exact h _ _ hg
        · exact h _ _ ht'
      · exact cnt_set_same _ _ _ tm _ hg rfl
      · refine cnt_set_same _ _ _ tm _ hg ?_
        simp only [hs]
        have h1 : (TStatus.cancelled == TStatus.called) = false := by decide
        have h2 : (TStatus.pending == TStatus.called) = false := by decide
        rw [h1, h2]
theorem ods_cancelAlarm (a : Option Nat) : ODS (cancelAlarm a) := by
  cases a with
  | none => exact ods_raise _
  | some t => exact ods_cancelTimer t
theorem ods_fireDfd (d : Nat) (o : Outcome) : ODS (fireDfd d o) := by
  apply ods_read; intro w
  split
  · exact ods_raise _
  · exact ods_seq (ods_mod fun _ => ⟨rfl, rfl, rfl⟩) (ods_emit _ fun _ => rfl)
theorem ods_fireReqDfd (d : Option Nat) (o : Outcome) : ODS (fireReqDfd d o) := by
  cases d with
  | none => exact ods_raise _
  | some d => exact ods_fireDfd d o
theorem ods_forEach {α : Type} (l : List α) {f : α → Step} (hf : ∀ a, ODS (f a)) : ODS (forEach l f) := by
  induction l with
  | nil => exact ods_ok
  | cons a r ih => exact ods_seq (hf a) ih

/-- a world-to-world helper that appends one write and at most one timer of a kind that is not a notification -/
theorem odsame_of_shape {w w' : World} (h : TF w) (bs : Bytes) (q : Nat) (hl : w'.log = w.log ++ [.write q bs])
    (ht : (w'.timers = w.timers ∧ w'.nextTimer = w.nextTimer) ∨
      (∃ due k, (∀ p, isOD p k = false) ∧ w'.timers = w.timers.set w.nextTimer ⟨due, k, .pending⟩ ∧ w'.nextTimer = w.nextTimer + 1)) :
    ODSame w w' := by
  have hobs : ∀ p, odObs w' p = odObs w p := fun p => by simp [odObs, hl, List.filter_append, isODObs]
  rcases ht with ⟨a, b⟩ | ⟨due, k, hk, a, b⟩
  · refine ⟨fun t tm ht' => ?_, hobs, fun p => ?_, fun p => ?_⟩
    · rw [b]; exact h t tm (by rw [← a]; exact ht')
    · simp only [odTotal, a]
    · simp only [odCalled, a]
  · have hfresh : w.timers.get? w.nextTimer = none := by
      cases hg : w.timers.get? w.nextTimer with
      | none => rfl
      | some tm => exact absurd (h _ _ hg) (Nat.lt_irrefl _)
    refine ⟨fun t tm ht' => ?_, hobs, fun p => ?_, fun p => ?_⟩
    · rw [a, get?_set_tf] at ht'
      rw [b]
      split at ht'
      · omega
      · have := h t tm ht'; omega
    · simp only [odTotal, a]; rw [cnt_set_fresh _ _ _ _ hfresh]; simp [hk p]
    · simp only [odCalled, a]; rw [cnt_set_fresh _ _ _ _ hfresh]; simp [hk p]

theorem retryPublishW_od (p rid : Nat) (dup : Bool) (w : World) (h : TF w) : ODSame w (retryPublishW p rid dup w) := by
  refine odsame_of_shape h _ p (C08.retryPublish_writes p rid dup w).1 ?_
  simp only [retryPublishW]
  split
  · right; exact ⟨_, .retry p rid, fun _ => rfl, by (simp; rfl), by simp⟩
  · left; exact ⟨by simp, by simp⟩
theorem retryReleaseW_od (p rid : Nat) (dup : Bool) (w : World) (h : TF w) : ODSame w (retryReleaseW p rid dup w) := by
  refine odsame_of_shape h _ p (C08.retryRelease_writes p rid dup w) ?_
  right
  simp only [retryReleaseW]
  split <;> exact ⟨_, .retry p rid, fun _ => rfl, by (simp; rfl), by simp⟩
theorem retrySubUnsubW_od (p rid : Nat) (dup s : Bool) (w : World) (h : TF w) : ODSame w (retrySubUnsubW p rid dup s w) := by
  refine odsame_of_shape h _ p (C08.retrySubUnsub_writes p rid dup s w) ?_
  right
  simp only [retrySubUnsubW]
  split <;> exact ⟨_, .retry p rid, fun _ => rfl, by (simp; rfl), by simp⟩
theorem ods_retryPublish (p rid : Nat) (dup : Bool) : ODS (retryPublish p rid dup) := fun w h => retryPublishW_od p rid dup w h
theorem ods_retryRelease (p rid : Nat) (dup : Bool) : ODS (retryRelease p rid dup) := fun w h => retryReleaseW_od p rid dup w h
theorem ods_retrySubUnsub (p rid : Nat) (dup s : Bool) : ODS (retrySubUnsub p rid dup s) := fun w h => retrySubUnsubW_od p rid dup s w h

theorem odsame_setEnts (w : World) (f : List Ent → List Ent) (h : TF w) : ODSame w (w.setEnts f) := ⟨h, fun _ => rfl, fun _ => rfl, fun _ => rfl⟩

theorem refillW_od (p : Nat) (dup : Bool) (fuel : Nat) : ∀ (w : World), TF w → ODSame w (refillW p dup fuel w) := by
  induction fuel with
  | zero => intro w h; exact ODSame.refl h
  | succ f ih =>
    intro w h
    simp only [refillW]
    split
    · exact ODSame.refl h
    · rename_i e rest hit
      split
      · have h1 : ODSame w (if (w.req e.rid).msgId ≠ 0 then
            (w.setEnts fun es => Ents.dropFirst es (w.paddr p) .queue).setEnts fun es => Ents.insert es (w.paddr p) .pub (w.req e.rid).msgId e.rid
          else w.setEnts fun es => Ents.dropFirst es (w.paddr p) .queue) := by
          split
          · exact (odsame_setEnts w _ h).trans (odsame_setEnts _ _ h)
          · exact odsame_setEnts w _ h
        have h2 := retryPublishW_od p e.rid dup _ h1.tf
        exact (h1.trans h2).trans (ih _ h2.tf)
      · exact ODSame.refl h
theorem ods_refill (p : Nat) : ODS (refill p) := fun w h => refillW_od p false _ w h

theorem foldl_od (l : List Ent) (f : World → Ent → World) (hf : ∀ w e, TF w → ODSame w (f w e)) (w : World) (h : TF w) : ODSame w (l.foldl f w) := by
  induction l generalizing w with
  | nil => exact ODSame.refl h
  | cons e r ih => exact (hf w e h).trans (ih _ (hf w e h).tf)
theorem ods_syncSession (p : Nat) : ODS (syncSession p) := by
  intro w h
  show ODSame w (syncW p w)
  simp only [syncW]
  have h1 := foldl_od (Ents.items w.ents (w.paddr p) .rel) (fun w e => if (w.req e.rid).alarm = none then retryReleaseW p e.rid true w else w)
    (fun w e hw => by
      split
      · exact retryReleaseW_od _ _ _ _ hw
      · exact ODSame.refl hw) w h
  exact h1.trans (foldl_od _ _ (fun w e hw => by
    split
    · exact retryPublishW_od _ _ _ _ hw
    · exact ODSame.refl hw) _ h1.tf)

macro "ods_step" : tactic => `(tactic| first
  | with_reducible exact ods_ok | with_reducible exact ods_raise _
  | with_reducible exact ods_write _ _ | with_reducible exact ods_setProto _ _ | with_reducible exact ods_setEnts _
  | with_reducible exact ods_setReq _ _
  | with_reducible exact ods_cancelTimer _ | with_reducible exact ods_cancelAlarm _
  | with_reducible exact ods_fireDfd _ _ | with_reducible exact ods_fireReqDfd _ _
  | with_reducible exact ods_refill _ | with_reducible exact ods_syncSession _
  | with_reducible exact ods_retryPublish _ _ _ | with_reducible exact ods_retryRelease _ _ _
  | with_reducible exact ods_retrySubUnsub _ _ _ _
  | ((with_reducible apply ods_emit); (intro p; rfl))
  | ((with_reducible apply ods_mod); (intro w; exact ⟨rfl, rfl, rfl⟩))
  | with_reducible apply ods_seq | (with_reducible apply ods_read; intro w)
  | ((with_reducible apply ods_callLater); (· intro p; rfl); intro t)
  | (with_reducible apply ods_newDfd; intro t) | (with_reducible apply ods_makeId; intro t)
  | (with_reducible apply ods_forEach; intro e)
  | split
  | dsimp only)
macro "odsm" : tactic => `(tactic| repeat ods_step)

theorem ods_deliver (p : Nat) (m : RxMsg) : ODS (deliver p m) := by unfold deliver; odsm
theorem ods_purgeSession (p : Nat) (r : Err) : ODS (purgeSession p r) := by unfold purgeSession purgeWindow; odsm

theorem ods_mqttConnectionMade (p : Nat) : ODS (mqttConnectionMade p) := by
  unfold mqttConnectionMade
  apply ods_read; intro w
  apply ods_seq
  · split
    · exact ods_purgeSession _ _
    · exact ods_syncSession _
  · odsm
theorem ods_doPingRequest (p : Nat) : ODS (doPingRequest p) := by unfold doPingRequest; odsm
theorem ods_ping (p : Nat) : ODS (ping p) := by
  unfold ping
  apply ods_read; intro w
  split
  · exact ods_doPingRequest p
  · exact ods_raise _
theorem ods_loopRun (p : Nat) : ODS (loopRun p) := by
  intro w h
  have h1 := ods_ping p w h
  unfold loopRun
  rcases hp : ping p w with ⟨w1, _ | e⟩
  · rw [hp] at h1
    simp only
    have : ODS (Step.read fun w =>
      match (w.proto p).pingTimer with
      | some l =>
        if l.running then
          callLater l.interval (.pingLoop p) fun tid =>
            setProto p (fun pr => { pr with pingTimer := (pr.pingTimer.map fun l => { l with call := some tid }) })
        else Step.ok
      | none => Step.ok) := by odsm
    exact h1.trans (this w1 h1.tf)
  · rw [hp] at h1
    simp only
    exact h1.trans (ods_setProto _ _ w1 h1.tf)
theorem ods_loopStop (p : Nat) : ODS (loopStop p) := by unfold loopStop; odsm
theorem ods_handleCONNACK (p : Nat) (session : Bool) (rc : Nat) : ODS (handleCONNACK p session rc) := by
  unfold handleCONNACK
  apply ods_read; intro w
  split
  · exact ods_raise _
  · split
    · exact ods_raise _
    · split
      · exact ods_ok
      · apply ods_seq (ods_cancelTimer _)
        apply ods_seq
        · split
          · apply ods_seq (ods_setProto _ _)
            apply ods_seq (ods_mqttConnectionMade p)
            apply ods_seq
            · split
              · exact ods_seq (ods_setProto _ _) (ods_loopRun p)
              · exact ods_ok
            · exact ods_fireDfd _ _
          · exact ods_seq (ods_setProto _ _) (ods_fireDfd _ _)
        · exact ods_setProto _ _
theorem ods_handlePUBLISH (p : Nat) (m : RxMsg) : ODS (handlePUBLISH p m) := by
  unfold handlePUBLISH
  split
  · exact ods_deliver p m
  · split
    · split
      · exact ods_seq (ods_write _ _) (ods_deliver p m)
      · exact ods_raise _
    · odsm
theorem ods_handlePUBREL (p m : Nat) : ODS (handlePUBREL p m) := by
  unfold handlePUBREL
  apply ods_read; intro w
  apply ods_seq
  · split
    · exact ods_ok
    · exact ods_seq (ods_mod fun _ => ⟨rfl, rfl, rfl⟩) (ods_deliver p _)
  · odsm
theorem ods_handlePINGRESP (p : Nat) : ODS (handlePINGRESP p) := by unfold handlePINGRESP; odsm
theorem ods_handlePUBACK (p m : Nat) : ODS (handlePUBACK p m) := by unfold handlePUBACK; odsm
theorem ods_handlePUBCOMP (p m : Nat) : ODS (handlePUBCOMP p m) := by unfold handlePUBCOMP; odsm
theorem ods_handleSubUnsubAck (p : Nat) (s : Bool) (m : Nat) (v : Val) : ODS (handleSubUnsubAck p s m v) := by unfold handleSubUnsubAck; odsm
theorem ods_handlePUBREC (p m : Nat) : ODS (handlePUBREC p m) := by
  unfold handlePUBREC
  generalize encodePUBREL (m : Int) = E
  apply ods_read; intro w
  split
  · exact ods_ok
  · split
    · exact ods_ok
    · apply ods_seq (ods_cancelAlarm _)
      apply ods_seq (ods_setEnts _)
      cases E with
      | error e => exact ods_raise _
      | ok bs => dsimp only; odsm

theorem ods_processPacket (p : Nat) (pkt : Bytes) : ODS (processPacket p pkt) := by
  unfold processPacket abort
  split
  · exact ods_raise _
  · dsimp only
    split
    · exact ods_emit _ fun _ => rfl
    · split
      · exact ods_emit _ fun _ => rfl
      · apply ods_read; intro w
        split
        all_goals (try exact ods_emit _ fun _ => rfl)
        all_goals (first
          | (split
             · exact ods_emit _ fun _ => rfl
             · split
               · first | exact ods_handleCONNACK _ _ _ | exact ods_handleSubUnsubAck _ _ _ _ | exact ods_handlePUBLISH _ _ | exact ods_handlePUBACK _ _
                       | exact ods_handlePUBREC _ _ | exact ods_handlePUBREL _ _ | exact ods_handlePUBCOMP _ _
               · exact ods_ok)
          | (split
             · exact ods_handlePINGRESP _
             · exact ods_ok))

theorem ods_accumulate (p : Nat) (fuel : Nat) : ODS (accumulate p fuel) := by
  induction fuel with
  | zero => exact ods_ok
  | succ f ih =>
    unfold accumulate
    apply ods_read; intro w
    split
    · exact ods_ok
    · exact ods_seq (ods_processPacket _ _) (ods_seq (ods_setProto _ _) ih)
theorem ods_dataReceived (p : Nat) (d : Bytes) : ODS (dataReceived p d) := by
  unfold dataReceived
  exact ods_seq (ods_setProto _ _) (ods_read fun _ => ods_accumulate _ _)

/-! ### the remaining handlers: API calls -/

theorem ods_mkStep (p : Nat) (pr : Proto) (q m : Nat) (d : Option Nat) (bs : Bytes) : ODS (mkStep p pr q m d bs) := by unfold mkStep; odsm
theorem ods_apiPublish (p : Nat) (t : PyStr) (pl : Payload) (q : Int) (r : Bool) : ODS (apiPublish p t pl q r) := by
  intro w0 h0
  rw [apiPublish_eq]
  split
  · exact ods_emit _ (fun _ => rfl) w0 h0
  · split
    · exact ods_emit _ (fun _ => rfl) w0 h0
    · split
      · cases encodePublishPy t pl 0 r none with
        | error e => exact ods_emit _ (fun _ => rfl) w0 h0
        | ok bs => exact ods_seq (ods_mkStep _ _ _ _ _ _) (ods_emit _ fun _ => rfl) w0 h0
      · refine ods_makeId (c := _) ?_ w0 h0
        intro i
        cases encodePublishPy t pl q.toNat r (some (i : Int)) with
        | error e => exact ods_emit _ fun _ => rfl
        | ok bs => exact ods_newDfd fun d => ods_seq (ods_mkStep _ _ _ _ _ _) (ods_emit _ fun _ => rfl)
theorem ods_registerSubUnsub (p : Nat) (s : Bool) (i : Nat) (bs : Bytes) : ODS (registerSubUnsub p s i bs) := by unfold registerSubUnsub; odsm
theorem ods_apiSubscribe (p : Nat) (a : SubArg) (q : Int) : ODS (apiSubscribe p a q) := by
  unfold apiSubscribe
  apply ods_read; intro w
  split
  · exact ods_emit _ fun _ => rfl
  · dsimp only
    split
    · exact ods_emit _ fun _ => rfl
    · split
      · exact ods_emit _ fun _ => rfl
      · split
        · exact ods_emit _ fun _ => rfl
        · split
          · exact ods_emit _ fun _ => rfl
          · apply ods_makeId; intro i
            generalize encodeWithId _ i _ = E
            cases E with
            | error e => exact ods_emit _ fun _ => rfl
            | ok bs => exact ods_registerSubUnsub _ _ _ _
theorem ods_apiUnsubscribe (p : Nat) (a : UnsubArg) : ODS (apiUnsubscribe p a) := by
  unfold apiUnsubscribe
  apply ods_read; intro w
  split
  · exact ods_emit _ fun _ => rfl
  · apply ods_makeId; intro _
    apply ods_read; intro w
    dsimp only
    split
    · exact ods_emit _ fun _ => rfl
    · split
      · exact ods_emit _ fun _ => rfl
      · split
        · exact ods_emit _ fun _ => rfl
        · apply ods_makeId; intro i
          generalize encodeWithId _ i _ = E
          cases E with
          | error e => exact ods_emit _ fun _ => rfl
          | ok bs => exact ods_registerSubUnsub _ _ _ _
theorem ods_apiConnect (p : Nat) (a : ConnectArgs) : ODS (apiConnect p a) := by
  unfold apiConnect
  generalize a.toF.encode = E
  apply ods_read; intro w
  split
  · exact ods_emit _ fun _ => rfl
  · split
    · exact ods_emit _ fun _ => rfl
    · cases E with
      | error e =>
        dsimp only
        split
        · exact ods_emit _ fun _ => rfl
        · exact ods_raise _
      | ok pdu => dsimp only; odsm
theorem ods_apiDisconnect (p : Nat) : ODS (apiDisconnect p) := by unfold apiDisconnect; odsm
theorem ods_apiSetWindow (p : Nat) (n : PyNum) : ODS (apiSetWindow p n) := by unfold apiSetWindow; odsm
theorem ods_apiSetTimeout (p : Nat) (n : PyNum) : ODS (apiSetTimeout p n) := by unfold apiSetTimeout; odsm
theorem ods_apiSetBandwith (p : Nat) (a b : Rat) : ODS (apiSetBandwith p a b) := by unfold apiSetBandwith; odsm
theorem ods_apiSetHandlers (p m : Nat) : ODS (apiSetHandlers p m) := by unfold apiSetHandlers; odsm

/-! ### connection loss: everything but the last step leaves the bookkeeping alone; the last one schedules the one notification -/

theorem ods_cancelWindowAlarms (l : List Ent) : ODS (cancelWindowAlarms l) := by unfold cancelWindowAlarms; odsm
theorem ods_failWindow (p : Nat) (s : Bool) (r : Err) : ODS (failWindow p s r) := by unfold failWindow; odsm
theorem ods_drainQueue (p : Nat) (r : Err) (fuel : Nat) : ODS (drainQueue p r fuel) := by
  induction fuel with
  | zero => exact ods_ok
  | succ f ih =>
    unfold drainQueue
    apply ods_read; intro w
    split
    · exact ods_ok
    · apply ods_seq (ods_setEnts _)
      apply ods_seq
      · split
        · exact ods_fireReqDfd _ _
        · exact ods_ok
      · exact ih
theorem ods_doConnectionLost (p : Nat) (r : Err) : ODS (doConnectionLost p r) := by
  unfold doConnectionLost
  apply ods_read; intro w
  refine ods_seq (ods_cancelWindowAlarms _) (ods_seq (ods_cancelWindowAlarms _) (ods_seq (ods_cancelWindowAlarms _) (ods_seq (ods_cancelWindowAlarms _)
    (ods_seq (ods_failWindow _ _ _) (ods_seq (ods_failWindow _ _ _) ?_)))))
  apply ods_read; intro w'
  split
  · exact ods_seq (ods_purgeSession _ _) (ods_read fun _ => ods_drainQueue _ _ _)
  · exact ods_ok

/-- the part of `connectionLost` before the notification is scheduled -/
def lostPrefix (p : Nat) (reason : Err) : Step :=
  Step.read fun w =>
    (match (w.proto p).pingTimer with
     | none => Step.ok
     | some _ => loopStop p ;; setProto p (fun pr => { pr with pingTimer := none })) ;;
    (match (w.proto p).pingAlarm with
     | none => Step.ok
     | some tid => cancelTimer tid ;; setProto p (fun pr => { pr with pingAlarm := none })) ;;
    doConnectionLost p reason ;;
    setProto p (fun pr => { pr with state := .idle, lost := true })
theorem ods_lostPrefix (p : Nat) (r : Err) : ODS (lostPrefix p r) := by
  unfold lostPrefix
  apply ods_read; intro w
  apply ods_seq
  · split
    · exact ods_ok
    · exact ods_seq (ods_loopStop p) (ods_setProto _ _)
  apply ods_seq
  · split
    · exact ods_ok
    · exact ods_seq (ods_cancelTimer _) (ods_setProto _ _)
  exact ods_seq (ods_doConnectionLost p r) (ods_setProto _ _)

/-! ### a protocol reported lost stays lost -/

def LM (s : Step) : Prop :=
  ∀ w q qr, w.protos.get? q = some qr → qr.lost = true → ∃ qr', (s w).1.protos.get? q = some qr' ∧ qr'.lost = true

theorem lm_of_kl {s : Step} (h : KL s) : LM s := by
  intro w q qr hq hl
  obtain ⟨qr', a, b, _⟩ := h w q qr hq
  exact ⟨qr', a, by rw [b]; exact hl⟩
theorem lm_seq {a b : Step} (ha : LM a) (hb : LM b) : LM (a ;; b) := by
  intro w q qr hq hl
  obtain ⟨qr1, h1, l1⟩ := ha w q qr hq hl
  simp only [Step.seq]
  rcases hw : a w with ⟨w1, _ | e⟩
  · rw [hw] at h1; exact hb w1 q qr1 h1 l1
  · rw [hw] at h1; exact ⟨qr1, h1, l1⟩
theorem lm_read {f : World → Step} (hf : ∀ w, LM (f w)) : LM (Step.read f) := fun w => hf w w
theorem lm_setProto (p : Nat) (f : Proto → Proto) (hf : ∀ pr, pr.lost = true → (f pr).lost = true) : LM (setProto p f) := by
  intro w q qr hq hl
  simp only [setProto, Step.mod, Dict.get?_set]
  by_cases hpq : p = q
  · subst hpq
    simp only [↓reduceIte, World.proto, hq, Option.getD_some]
    exact ⟨_, rfl, hf qr hl⟩
  · simp only [hpq, ↓reduceIte]; exact ⟨qr, hq, hl⟩

theorem kl_makeId {c : Nat → Step} (hc : ∀ t, KL (c t)) : KL (makeId c) :=
  kl_read fun _ => kl_seq (kl_mod fun _ => rfl) (hc _)
theorem kl_mkStep (p : Nat) (pr : Proto) (q m : Nat) (d : Option Nat) (bs : Bytes) : KL (mkStep p pr q m d bs) := by unfold mkStep; kl
theorem kl_apiPublish (p : Nat) (t : PyStr) (pl : Payload) (q : Int) (r : Bool) : KL (apiPublish p t pl q r) := by
  intro w0
  rw [apiPublish_eq]
  split
  · exact kl_emit _ w0
  · split
    · exact kl_emit _ w0
    · split
      · cases encodePublishPy t pl 0 r none with
        | error e => exact kl_emit _ w0
        | ok bs => exact kl_seq (kl_mkStep _ _ _ _ _ _) (kl_emit _) w0
      · refine kl_makeId (c := _) ?_ w0
        intro i
        cases encodePublishPy t pl q.toNat r (some (i : Int)) with
        | error e => exact kl_emit _
        | ok bs => exact kl_newDfd fun d => kl_seq (kl_mkStep _ _ _ _ _ _) (kl_emit _)
theorem kl_registerSubUnsub (p : Nat) (s : Bool) (i : Nat) (bs : Bytes) : KL (registerSubUnsub p s i bs) := by unfold registerSubUnsub; kl
theorem kl_apiSubscribe (p : Nat) (a : SubArg) (q : Int) : KL (apiSubscribe p a q) := by
  unfold apiSubscribe
  apply kl_read; intro w
  split
  · exact kl_emit _
  · dsimp only
    split
    · exact kl_emit _
    · split
      · exact kl_emit _
      · split
        · exact kl_emit _
        · split
          · exact kl_emit _
          · apply kl_makeId; intro i
            generalize encodeWithId _ i _ = E
            cases E with
            | error e => exact kl_emit _
            | ok bs => exact kl_registerSubUnsub _ _ _ _
theorem kl_apiUnsubscribe (p : Nat) (a : UnsubArg) : KL (apiUnsubscribe p a) := by
  unfold apiUnsubscribe
  apply kl_read; intro w
  split
  · exact kl_emit _
  · apply kl_makeId; intro _
    apply kl_read; intro w
    dsimp only
    split
    · exact kl_emit _
    · split
      · exact kl_emit _
      · split
        · exact kl_emit _
        · apply kl_makeId; intro i
          generalize encodeWithId _ i _ = E
          cases E with
          | error e => exact kl_emit _
          | ok bs => exact kl_registerSubUnsub _ _ _ _
theorem kl_apiConnect (p : Nat) (a : ConnectArgs) : KL (apiConnect p a) := by
  unfold apiConnect
  generalize a.toF.encode = E
  apply kl_read; intro w
  split
  · exact kl_emit _
  · split
    · exact kl_emit _
    · cases E with
      | error e =>
        dsimp only
        split
        · exact kl_emit _
        · exact kl_raise _
      | ok pdu => dsimp only; kl
theorem kl_loopStop (p : Nat) : KL (loopStop p) := by unfold loopStop; kl
theorem kl_runTimer (k : TKind) : KL (runTimer k) := by
  cases k with
  | connack cr => unfold runTimer abort; kl
  | pingLoop p => exact kl_seq (by kl) (kl_loopRun p)
  | pingAlarm p => unfold runTimer abort; kl
  | retry p rid => unfold runTimer; kl
  | onDisc p r => exact kl_emit _
theorem kl_fireTimer (t : Nat) : KL (fireTimer t) := by
  unfold fireTimer
  apply kl_read; intro w
  split
  · exact kl_emit _
  · split
    · exact kl_seq (kl_mod fun _ => rfl) (kl_runTimer _)
    · exact kl_emit _
theorem kl_cancelWindowAlarms (l : List Ent) : KL (cancelWindowAlarms l) := by unfold cancelWindowAlarms; kl
theorem kl_failWindow (p : Nat) (s : Bool) (r : Err) : KL (failWindow p s r) := by unfold failWindow; kl
theorem kl_drainQueue (p : Nat) (r : Err) (fuel : Nat) : KL (drainQueue p r fuel) := by
  induction fuel with
  | zero => exact kl_ok
  | succ f ih =>
    unfold drainQueue
    apply kl_read; intro w
    split
    · exact kl_ok
    · apply kl_seq (kl_setEnts _)
      apply kl_seq
      · split
        · exact kl_fireReqDfd _ _
        · exact kl_ok
      · exact ih
theorem kl_doConnectionLost (p : Nat) (r : Err) : KL (doConnectionLost p r) := by
  unfold doConnectionLost
  apply kl_read; intro w
  refine kl_seq (kl_cancelWindowAlarms _) (kl_seq (kl_cancelWindowAlarms _) (kl_seq (kl_cancelWindowAlarms _) (kl_seq (kl_cancelWindowAlarms _)
    (kl_seq (kl_failWindow _ _ _) (kl_seq (kl_failWindow _ _ _) ?_)))))
  apply kl_read; intro w'
  split
  · exact kl_seq (kl_purgeSession _ _) (kl_read fun _ => kl_drainQueue _ _ _)
  · exact kl_ok

theorem lm_connectionLost (p : Nat) (r : Err) : LM (connectionLost p r) := by
  unfold connectionLost
  apply lm_read; intro w
  apply lm_seq
  · apply lm_of_kl
    split
    · exact kl_ok
    · exact kl_seq (kl_loopStop p) (by kl)
  apply lm_seq
  · apply lm_of_kl
    split
    · exact kl_ok
    · exact kl_seq (kl_cancelTimer _) (by kl)
  apply lm_seq (lm_of_kl (kl_doConnectionLost p r))
  apply lm_seq (lm_setProto _ _ fun _ _ => rfl)
  apply lm_of_kl
  kl

/-! ### the invariant and the theorem -/

theorem cnt_mono (P Q : Timer → Bool) (h : ∀ t, P t = true → Q t = true) (d : Dict Timer) : cnt P d ≤ cnt Q d := by
  induction d with
  | nil => simp [cnt]
  | cons x r ih =>
    simp only [cnt, List.filter_cons] at ih ⊢
    cases hp : P x.2 <;> cases hq : Q x.2
    · simpa using ih
    · simp only [Bool.false_eq_true, ↓reduceIte, List.length_cons]; omega
    · have := h _ hp; rw [hq] at this; cases this
    · simp only [↓reduceIte, List.length_cons]; omega

structure ODInv (w : World) : Prop where
  tf : TF w
  le : ∀ p, odObs w p ≤ odCalled w p
  one : ∀ p, odTotal w p ≤ 1
  lost : ∀ p, 0 < odTotal w p → ∃ pr, w.protos.get? p = some pr ∧ pr.lost = true

theorem ODInv.init (profile : Nat) : ODInv (World.init profile) :=
  ⟨fun t tm h => by simp [World.init, Dict.get?] at h, fun p => by simp [odObs, odCalled, cnt, World.init], fun p => by simp [odTotal, cnt, World.init],
   fun p h => by simp [odTotal, cnt, World.init] at h⟩

theorem ODInv.same {w w' : World} (h : ODInv w) (s : ODSame w w')
    (hl : ∀ q qr, w.protos.get? q = some qr → qr.lost = true → ∃ qr', w'.protos.get? q = some qr' ∧ qr'.lost = true) : ODInv w' :=
  ⟨s.tf, fun p => by rw [s.obs, s.called]; exact h.le p, fun p => by rw [s.total]; exact h.one p,
   fun p hp => by
     rw [s.total] at hp
     obtain ⟨pr, a, b⟩ := h.lost p hp
     exact hl p pr a b⟩

/-- the observation appended for an escaping exception is not a notification -/
theorem odsame_log (w : World) (o : Obs) (ho : ∀ p, isODObs p o = false) (h : TF w) : ODSame w { w with log := w.log ++ [o] } :=
  odsame_emit w o ho h

theorem connectionLost_split (p : Nat) (r : Err) (w : World) :
    connectionLost p r w = (lostPrefix p r ;; Step.read fun w =>
      if (w.proto p).onDisc then callLater (1 / 10 : Rat) (.onDisc p r) fun _ => Step.ok else Step.ok) w := by
  show _ = (((match (w.proto p).pingTimer with
     | none => Step.ok
     | some _ => loopStop p ;; setProto p (fun pr => { pr with pingTimer := none })) ;;
    (match (w.proto p).pingAlarm with
     | none => Step.ok
     | some tid => cancelTimer tid ;; setProto p (fun pr => { pr with pingAlarm := none })) ;;
    doConnectionLost p r ;;
    setProto p (fun pr => { pr with state := .idle, lost := true })) ;; Step.read fun w =>
      if (w.proto p).onDisc then callLater (1 / 10 : Rat) (.onDisc p r) fun _ => Step.ok else Step.ok) w
  simp only [seq_assoc]
  rfl

/-- scheduling the notification: one more `onDisc p` timer, nothing else -/
theorem od_schedule {w : World} (h : TF w) (p : Nat) (r : Err) (d : Rat) :
    TF (w.callLater d (.onDisc p r)).1 ∧ (∀ q, odObs (w.callLater d (.onDisc p r)).1 q = odObs w q) ∧
    (∀ q, odCalled (w.callLater d (.onDisc p r)).1 q = odCalled w q) ∧
    (∀ q, odTotal (w.callLater d (.onDisc p r)).1 q = odTotal w q + (if q = p then 1 else 0)) := by
  have hfresh : w.timers.get? w.nextTimer = none := by
    cases hg : w.timers.get? w.nextTimer with
    | none => rfl
    | some tm => exact absurd (h _ _ hg) (Nat.lt_irrefl _)
  refine ⟨fun t tm ht => ?_, fun _ => rfl, fun q => ?_, fun q => ?_⟩
  · simp only [World.callLater, get?_set_tf] at ht
    show t < w.nextTimer + 1
    split at ht
    · omega
    · have := h t tm ht; omega
  · simp only [odCalled, World.callLater]
    rw [cnt_set_fresh _ _ _ _ hfresh]
    have : (TStatus.pending == TStatus.called) = false := by decide
    simp [this]
  · simp only [odTotal, World.callLater]
    rw [cnt_set_fresh _ _ _ _ hfresh]
    by_cases hq : q = p
    · subst hq; simp [isOD]
    · have : (p == q) = false := by simp; exact fun hc => hq hc.symm
      simp [isOD, this, hq]

/-- running a pending timer that is not a notification -/
theorem fireTimer_plain {w : World} (h : TF w) (t : Nat)
    (hk : ∀ tm, w.timers.get? t = some tm → tm.status = .pending → ∀ q, isOD q tm.kind = false) : ODSame w (fireTimer t w).1 := by
  simp only [fireTimer, read_apply]
  cases hg : w.timers.get? t with
  | none => exact ods_emit _ (fun _ => rfl) w h
  | some tm =>
    simp only
    by_cases hs : tm.status = .pending
    · simp only [hs, ↓reduceIte]
      have hkq := hk tm hg hs
      have hmark : ODSame w { w with now := max w.now tm.due, timers := w.timers.set t { tm with status := .called } } := by
        refine ⟨fun t' tm' ht' => ?_, fun _ => rfl, fun q => ?_, fun q => ?_⟩
        · simp only [get?_set_tf] at ht'
          split at ht'
          · rename_i heq; subst heq; exact h _ _ hg
          · exact h _ _ ht'
        · exact cnt_set_same _ _ _ tm _ hg rfl
        · exact cnt_set_same _ _ _ tm _ hg (by simp [hkq q])
      have hrun : ODS (runTimer tm.kind) := by
        cases hkind : tm.kind with
        | connack cr => unfold runTimer abort; odsm
        | pingLoop p => exact ods_seq (ods_setProto _ _) (ods_loopRun p)
        | pingAlarm p => unfold runTimer abort; odsm
        | retry p rid => unfold runTimer; odsm
        | onDisc p r => have := hkq p; rw [hkind] at this; simp [isOD] at this
      simp only [Step.seq, mod_apply]
      exact hmark.trans (hrun _ hmark.tf)
    · simp only [hs, ↓reduceIte]
      exact ods_emit _ (fun _ => rfl) w h

/-- running the notification timer of `p`: it becomes `called` and the one observation appears -/
theorem fireTimer_notify {w : World} (h : TF w) (t : Nat) (tm : Timer) (hg : w.timers.get? t = some tm) (hs : tm.status = .pending)
    (p : Nat) (r : Err) (hk : tm.kind = .onDisc p r) :
    TF (fireTimer t w).1 ∧ (∀ q, odTotal (fireTimer t w).1 q = odTotal w q) ∧
    (∀ q, odObs (fireTimer t w).1 q = odObs w q + (if q = p then 1 else 0)) ∧
    (∀ q, odCalled (fireTimer t w).1 q = odCalled w q + (if q = p then 1 else 0)) ∧ (fireTimer t w).1.protos = w.protos := by
  obtain ⟨due, kind, st⟩ := tm
  simp only at hs hk; subst hs; subst hk
  have hrun : fireTimer t w = (({ w with now := max w.now due, timers := w.timers.set t ⟨due, .onDisc p r, .called⟩ } : World).emit (.onDisc p r), none) := by
    simp only [fireTimer, read_apply, hg, ↓reduceIte, Step.seq, mod_apply, runTimer, emit]
  rw [hrun]
  have hpc : (TStatus.pending == TStatus.called) = false := by decide
  refine ⟨fun t' tm' ht' => ?_, fun q => ?_, fun q => ?_, fun q => ?_, rfl⟩
  · simp only [World.emit, get?_set_tf] at ht'
    split at ht'
    · rename_i heq; subst heq; exact h _ _ hg
    · exact h _ _ ht'
  · exact cnt_set_same _ _ _ _ _ hg rfl
  · simp only [odObs, World.emit, List.filter_append, List.length_append]
    by_cases hq : q = p
    · subst hq; simp [isODObs]
    · have : (p == q) = false := by simp; exact fun hc => hq hc.symm
      simp [isODObs, this, hq]
  · simp only [odCalled, World.emit]
    rw [cnt_set_gain _ _ _ _ _ hg (by simp [hpc])]
    by_cases hq : q = p
    · subst hq; simp [isOD]
    · have : (p == q) = false := by simp; exact fun hc => hq hc.symm
      simp [isOD, this, hq]

theorem od_step {w : World} (hw : WInv w) (h : ODInv w) (op : Op) (henv : Env w op) : ODInv (step w op) := by
  -- an escaping exception adds an observation that is not a notification
  have wrap : ∀ (s : Step), op.handler = s → ODInv (s w).1 → ODInv (step w op) := by
    intro s hs hi
    unfold step
    rw [hs]
    rcases hsw : s w with ⟨w', _ | e⟩
    · rw [hsw] at hi; exact hi
    · rw [hsw] at hi
      exact hi.same (odsame_log w' _ (fun _ => by split <;> rfl) hi.tf) (fun q qr a b => ⟨qr, a, b⟩)
  -- the generic case: the handler leaves the bookkeeping alone and keeps lost protocols lost
  have generic : ∀ (s : Step), op.handler = s → ODS s →
      (∀ q qr, w.protos.get? q = some qr → qr.lost = true → ∃ qr', (s w).1.protos.get? q = some qr' ∧ qr'.lost = true) → ODInv (step w op) :=
    fun s hs hods h2 => wrap s hs (h.same (hods w h.tf) h2)
  cases op with
  | build a =>
    refine generic _ rfl (ods_mod fun _ => ⟨rfl, rfl, rfl⟩) ?_
    intro q qr hq hl
    have hlt := hw.protoFresh q qr hq
    refine ⟨qr, ?_, hl⟩
    show (w.protos.set w.nextProto { addr := a }).get? q = some qr
    rw [Dict.get?_set, if_neg (by omega)]; exact hq
  | sethandlers p m => exact generic _ rfl (ods_apiSetHandlers p m) (lm_of_kl (show KL (apiSetHandlers p m) by unfold apiSetHandlers; kl) w)
  | connect p a => exact generic _ rfl (ods_apiConnect p a) (lm_of_kl (kl_apiConnect p a) w)
  | disconnect p => exact generic _ rfl (ods_apiDisconnect p) (lm_of_kl (show KL (apiDisconnect p) by unfold apiDisconnect; kl) w)
  | publish p t pl q r => exact generic _ rfl (ods_apiPublish p t pl q r) (lm_of_kl (kl_apiPublish p t pl q r) w)
  | subscribe p a q => exact generic _ rfl (ods_apiSubscribe p a q) (lm_of_kl (kl_apiSubscribe p a q) w)
  | unsubscribe p a => exact generic _ rfl (ods_apiUnsubscribe p a) (lm_of_kl (kl_apiUnsubscribe p a) w)
  | setwin p n => exact generic _ rfl (ods_apiSetWindow p n) (lm_of_kl (show KL (apiSetWindow p n) by unfold apiSetWindow; kl) w)
  | settimeout p n => exact generic _ rfl (ods_apiSetTimeout p n) (lm_of_kl (show KL (apiSetTimeout p n) by unfold apiSetTimeout; kl) w)
  | setbw p b f => exact generic _ rfl (ods_apiSetBandwith p b f) (lm_of_kl (show KL (apiSetBandwith p b f) by unfold apiSetBandwith; kl) w)
  | jit v => exact generic _ rfl (ods_mod fun _ => ⟨rfl, rfl, rfl⟩) (fun q qr hq hl => ⟨qr, hq, hl⟩)
  | setid v => exact henv.elim
  | recv p d => exact generic _ rfl (ods_dataReceived p d) (lm_of_kl (kl_dataReceived p d) w)
  | fire t =>
    refine wrap (fireTimer t) rfl ?_
    have hlm := lm_of_kl (kl_fireTimer t) w
    by_cases hod : ∃ tm p r, w.timers.get? t = some tm ∧ tm.status = .pending ∧ tm.kind = .onDisc p r
    · obtain ⟨tm, p, r, hg, hs, hk⟩ := hod
      obtain ⟨a1, a2, a3, a4, a5⟩ := fireTimer_notify h.tf t tm hg hs p r hk
      refine ⟨a1, fun q => ?_, fun q => by rw [a2]; exact h.one q, fun q hq => ?_⟩
      · rw [a3, a4]; have := h.le q; omega
      · rw [a2] at hq; rw [a5]; exact h.lost q hq
    · refine h.same (fireTimer_plain h.tf t ?_) hlm
      intro tm hg hs q
      cases hkind : tm.kind with
      | onDisc p r => exact absurd ⟨tm, p, r, hg, hs, hkind⟩ hod
      | _ => rfl
  | lost p r =>
    obtain ⟨ppr, hpp, hnl⟩ := henv
    refine wrap (connectionLost p r) rfl ?_
    obtain ⟨f1, _, f3⟩ := connectionLost_full hw p ppr hpp hnl r
    have hlm := lm_connectionLost p r w
    have h0 : odTotal w p = 0 := by
      cases hc : odTotal w p with
      | zero => rfl
      | succ n =>
        obtain ⟨pr, a, b⟩ := h.lost p (by omega)
        rw [hpp] at a; injection a with a; subst a; rw [hnl] at b; cases b
    have hpre := ods_lostPrefix p r w h.tf
    have hsplit := connectionLost_split p r w
    -- the two shapes of the result: the notification is scheduled or not
    have key : TF (connectionLost p r w).1 ∧ (∀ q, odObs (connectionLost p r w).1 q = odObs w q) ∧
        (∀ q, odCalled (connectionLost p r w).1 q = odCalled w q) ∧
        (∀ q, odTotal (connectionLost p r w).1 q ≤ odTotal w q + (if q = p then 1 else 0)) := by
      rw [hsplit]
      simp only [Step.seq]
      rcases hp1 : lostPrefix p r w with ⟨w1, _ | e⟩
      · rw [hp1] at hpre
        simp only [read_apply]
        split
        · obtain ⟨b1, b2, b3, b4⟩ := od_schedule hpre.tf p r (1 / 10)
          refine ⟨b1, fun q => by rw [← hpre.obs q]; exact b2 q, fun q => by rw [← hpre.called q]; exact b3 q, fun q => ?_⟩
          have := b4 q; rw [hpre.total q] at this
          exact Nat.le_of_eq this
        · exact ⟨hpre.tf, hpre.obs, hpre.called, fun q => by have := hpre.total q; show odTotal w1 q ≤ _; simp only at this; omega⟩
      · rw [hp1] at hpre
        exact ⟨hpre.tf, hpre.obs, hpre.called, fun q => by have := hpre.total q; show odTotal w1 q ≤ _; simp only at this; omega⟩
    obtain ⟨k1, k2, k3, k4⟩ := key
    refine ⟨k1, fun q => by rw [k2, k3]; exact h.le q, fun q => ?_, fun q hq => ?_⟩
    · have := k4 q
      by_cases hqp : q = p
      · subst hqp; rw [h0] at this; simpa using this
      · simp only [hqp, ↓reduceIte, Nat.add_zero] at this; exact Nat.le_trans this (h.one q)
    · by_cases hqp : q = p
      · subst hqp
        obtain ⟨pr', c1, _, c3, _⟩ := f3.proto
        exact ⟨pr', c1, c3⟩
      · have := k4 q
        simp only [hqp, ↓reduceIte, Nat.add_zero] at this
        obtain ⟨pr, a, b⟩ := h.lost q (by omega)
        exact hlm q pr a b

theorem run_od : ∀ (ops : List Op) {w : World}, WInv w → ODInv w → EnvRun w ops → ODInv (run w ops) := by
  intro ops
  induction ops with
  | nil => intro w _ h _; exact h
  | cons op rest ih => intro w hw h henv; exact ih (step_inv hw op henv.1) (od_step hw h op henv.1) henv.2

/-- **`onDisconnection` is called at most once per protocol object**, in every history that respects `Env` -/
theorem notified_at_most_once (profile : Nat) (hp : profile = 1 ∨ profile = 2 ∨ profile = 3) (ops : List Op)
    (henv : EnvRun (World.init profile) ops) (p : Nat) :
    ((run (World.init profile) ops).log.filter (isODObs p)).length ≤ 1 := by
  have h := run_od ops (WInv.init profile hp) (ODInv.init profile) henv
  have h1 := h.le p
  have h2 := cnt_mono (fun tm => isOD p tm.kind && tm.status == .called) (fun tm => isOD p tm.kind) (fun t ht => by simp at ht; exact ht.1)
    (run (World.init profile) ops).timers
  have h3 := h.one p
  show odObs _ p ≤ 1
  simp only [odCalled, odTotal] at h1 h2 h3 ⊢
  omega

/-- ... and only after the loss of that protocol has been reported -/
theorem notified_only_after_loss (profile : Nat) (hp : profile = 1 ∨ profile = 2 ∨ profile = 3) (ops : List Op)
    (henv : EnvRun (World.init profile) ops) (p : Nat)
    (hn : 0 < ((run (World.init profile) ops).log.filter (isODObs p)).length) :
    ∃ pr, (run (World.init profile) ops).protos.get? p = some pr ∧ pr.lost = true := by
  have h := run_od ops (WInv.init profile hp) (ODInv.init profile) henv
  have h1 := h.le p
  have h2 := cnt_mono (fun tm => isOD p tm.kind && tm.status == .called) (fun tm => isOD p tm.kind) (fun t ht => by simp at ht; exact ht.1)
    (run (World.init profile) ops).timers
  apply h.lost p
  simp only [odObs, odCalled, odTotal] at hn h1 h2 ⊢
  omega

end Mqtt
