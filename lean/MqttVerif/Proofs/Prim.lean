import MqttVerif.Model.Prim
namespace Mqtt

/-! ## UTF-8 text -/

theorem ofNat_toNat_map (l : List UInt8) : (l.map UInt8.toNat).map UInt8.ofNat = l := by
  induction l with
  | nil => rfl
  | cons a t ih => simp [ih]

theorem toByteArray_utf8 (s : String) : toByteArray (utf8 s) = s.toByteArray := by
  unfold toByteArray utf8
  rw [ofNat_toNat_map]

theorem fromUtf8_utf8 (s : String) : fromUtf8? (utf8 s) = some s := by
  unfold fromUtf8?
  rw [toByteArray_utf8]
  unfold String.fromUTF8?
  rw [dif_pos s.isValidUTF8]
  rfl

theorem utf8_WF (s : String) : (utf8 s).WF := by
  intro b hb
  unfold utf8 at hb
  simp at hb
  obtain ⟨x, _, rfl⟩ := hb
  exact x.toNat_lt

theorem utf8_length (s : String) : (utf8 s).length = s.utf8ByteSize := by
  unfold utf8
  rw [← String.size_toByteArray]
  cases s.toByteArray with
  | mk d => simp only [List.length_map, Array.length_toList]; rfl

end Mqtt

namespace Mqtt

/-! ## bit facts on `Nat` used by the codecs -/

theorem shr8 (n : Nat) : n >>> 8 = n / 256 := by
  simp [Nat.shiftRight_eq_div_pow]

theorem and255 (n : Nat) : n &&& 0xFF = n % 256 := by
  have : (0xFF : Nat) = 2 ^ 8 - 1 := by decide
  rw [this, Nat.and_two_pow_sub_one_eq_mod]

theorem and127 (n : Nat) : n &&& 0x7F = n % 128 := by
  have : (0x7F : Nat) = 2 ^ 7 - 1 := by decide
  rw [this, Nat.and_two_pow_sub_one_eq_mod]

theorem or128 (d : Nat) (h : d < 128) : d ||| 128 = d + 128 := by
  have : ∀ x : Fin 128, x.val ||| 128 = x.val + 128 := by decide
  exact this ⟨d, h⟩

theorem and128_small (d : Nat) (h : d < 128) : d &&& 0x80 = 0 := by
  have : ∀ x : Fin 128, x.val &&& 0x80 = 0 := by decide
  exact this ⟨d, h⟩

theorem and128_big (d : Nat) (h : d < 128) : (d + 128) &&& 0x80 = 0x80 := by
  have : ∀ x : Fin 128, (x.val + 128) &&& 0x80 = 0x80 := by decide
  exact this ⟨d, h⟩

theorem and127_big (d : Nat) (h : d < 128) : (d + 128) &&& 0x7F = d := by
  rw [and127]; omega

/-! ## 16-bit integers -/

/-- `decode16Int` inverts `encode16Int` on the whole domain 0..65535 (any trailing bytes). -/
theorem decode16_encode16 (v : Nat) (h : v < 65536) (rest : Bytes) :
    ∃ bs, encode16Int (v : Int) = .ok bs ∧ bs.length = 2 ∧ bs.WF ∧ decode16Int (bs ++ rest) = .ok v := by
  refine ⟨[v >>> 8, v &&& 0xFF], ?_, rfl, ?_, ?_⟩
  · unfold encode16Int
    have : (0 : Int) ≤ v ∧ (v : Int) < 65536 := by omega
    simp [this]
  · intro b hb
    simp at hb
    rw [shr8, and255] at hb
    omega
  · simp only [List.cons_append, decode16Int, shr8, and255]
    congr 1; omega

/-- outside 0..65535 the store into the bytearray raises ValueError -/
theorem encode16_range (v : Int) (h : ¬ (0 ≤ v ∧ v < 65536)) : encode16Int v = .error .value := by
  unfold encode16Int; simp [h]

/-- and `encode16Int` inverts `decode16Int` on byte pairs -/
theorem encode16_decode16 (a b : Nat) (ha : a < 256) (hb : b < 256) :
    encode16Int ((a * 256 + b : Nat) : Int) = .ok [a, b] := by
  unfold encode16Int
  have : (0 : Int) ≤ ((a * 256 + b : Nat) : Int) ∧ ((a * 256 + b : Nat) : Int) < 65536 := by omega
  simp only [this, and_self, ↓reduceIte, Int.toNat_natCast, shr8, and255]
  have h1 : (a * 256 + b) / 256 = a := by omega
  have h2 : (a * 256 + b) % 256 = b := by omega
  rw [h1, h2]

/-! ## remaining length (base-128 varint) -/

theorem encodeLengthF_WF (f n : Nat) : (encodeLengthF f n).WF := by
  induction f generalizing n with
  | zero => intro b hb; simp [encodeLengthF] at hb; omega
  | succ f ih =>
    unfold encodeLengthF
    split
    · intro b hb
      simp at hb
      rcases hb with rfl | hb
      · rw [or128 _ (Nat.mod_lt _ (by decide))]; omega
      · exact ih (n / 128) b hb
    · intro b hb; simp at hb; omega

theorem encodeLength_WF (n : Nat) : (encodeLength n).WF := encodeLengthF_WF n n

theorem decodeLengthAux_encodeLengthF (f n value mult : Nat) (hf : n ≤ f) (rest : Bytes) :
    decodeLengthAux value mult (encodeLengthF f n ++ rest) = value + n * mult := by
  induction f generalizing n value mult with
  | zero =>
    have : n = 0 := by omega
    subst this
    simp [encodeLengthF, decodeLengthAux]
  | succ f ih =>
    unfold encodeLengthF
    split
    · rename_i h
      have hd : n % 128 < 128 := Nat.mod_lt _ (by decide)
      rw [or128 _ hd]
      simp only [List.cons_append, decodeLengthAux, and128_big _ hd, and127_big _ hd, bne_self_eq_false,
        Bool.false_eq_true, ↓reduceIte]
      rw [ih (n / 128) _ _ (by omega)]
      have : n = n / 128 * 128 + n % 128 := by omega
      generalize n / 128 = q at *
      generalize n % 128 = r at *
      subst this
      rw [Nat.add_mul, Nat.mul_assoc, Nat.mul_comm mult 128]; omega
    · rename_i h
      have hn : n < 128 := by omega
      have hm : n % 128 = n := Nat.mod_eq_of_lt hn
      simp only [hm, List.cons_append, List.nil_append, decodeLengthAux, and128_small _ hn, and127]
      simp

/-- `decodeLength` inverts `encodeLength` for every natural number, whatever follows. -/
theorem decodeLength_encodeLength (n : Nat) (rest : Bytes) :
    decodeLength (encodeLength n ++ rest) = n := by
  unfold decodeLength encodeLength
  rw [decodeLengthAux_encodeLengthF _ _ _ _ (Nat.le_refl n)]; simp

theorem encodeLengthF_length_le (f n : Nat) (k : Nat) (h : n < 128 ^ (k + 1)) :
    (encodeLengthF f n).length ≤ k + 1 := by
  induction k generalizing n f with
  | zero =>
    have : ¬ n / 128 > 0 := by simp at h; omega
    cases f <;> simp [encodeLengthF, this]
  | succ k ih =>
    cases f with
    | zero => simp [encodeLengthF]
    | succ f =>
      unfold encodeLengthF
      split
      · simp only [List.length_cons]
        have : n / 128 < 128 ^ (k + 1) := by
          rw [Nat.div_lt_iff_lt_mul (by decide)]
          rw [Nat.pow_succ] at h; exact h
        have := ih f (n / 128) this
        omega
      · simp

/-- on the MQTT domain 0..268435455 the field is 1 to 4 bytes long -/
theorem encodeLength_length (n : Nat) (h : n ≤ 268435455) :
    1 ≤ (encodeLength n).length ∧ (encodeLength n).length ≤ 4 := by
  constructor
  · unfold encodeLength; cases n with
    | zero => simp [encodeLengthF]
    | succ m => unfold encodeLengthF; split <;> simp
  · have hp : (128 : Nat) ^ (3 + 1) = 268435456 := by decide
    exact encodeLengthF_length_le n n 3 (by omega)

/-- the encoded field ends at its first byte without continuation bit -/
theorem encodeLengthF_last (f n : Nat) :
    ∃ pre d, encodeLengthF f n = pre ++ [d] ∧ d < 128 ∧ ∀ b ∈ pre, 128 ≤ b ∧ b < 256 := by
  induction f generalizing n with
  | zero => exact ⟨[], n % 128, by simp [encodeLengthF], Nat.mod_lt _ (by decide), by simp⟩
  | succ f ih =>
    unfold encodeLengthF
    split
    · obtain ⟨pre, d, he, hd, hp⟩ := ih (n / 128)
      refine ⟨(n % 128 ||| 128) :: pre, d, by simp [he], hd, ?_⟩
      intro b hb
      simp at hb
      rcases hb with rfl | hb
      · rw [or128 _ (Nat.mod_lt _ (by decide))]; omega
      · exact hp b hb
    · exact ⟨[], n % 128, by simp, Nat.mod_lt _ (by decide), by simp⟩

theorem encodeLength_last (n : Nat) :
    ∃ pre d, encodeLength n = pre ++ [d] ∧ d < 128 ∧ ∀ b ∈ pre, 128 ≤ b ∧ b < 256 :=
  encodeLengthF_last n n

example : encodeLength 0 = [0] ∧ encodeLength 127 = [127] ∧ encodeLength 128 = [128, 1] ∧
    encodeLength 16384 = [128, 128, 1] ∧ encodeLength 268435455 = [255, 255, 255, 127] := by decide

/-! ## length-prefixed strings -/

theorem take_append_self {α} (a b : List α) : (a ++ b).take a.length = a := by simp
theorem drop_append_self {α} (a b : List α) : (a ++ b).drop a.length = b := by simp

/-- `decodeString` inverts `encodeString` for every string of at most 65535 UTF-8 bytes,
    returning exactly the bytes that follow. -/
theorem decodeString_encodeString (s : String) (h : s.utf8ByteSize ≤ 65535) (rest : Bytes) :
    ∃ bs, encodeString s = .ok bs ∧ bs.WF ∧ bs.length = 2 + s.utf8ByteSize ∧
      decodeString (bs ++ rest) = .ok (s, rest) := by
  have hl := utf8_length s
  refine ⟨((utf8 s).length >>> 8) :: ((utf8 s).length &&& 0xFF) :: utf8 s, ?_, ?_, ?_, ?_⟩
  · unfold encodeString
    have : ¬ (utf8 s).length > 65535 := by omega
    simp [this]
  · intro b hb
    simp at hb
    rcases hb with rfl | rfl | hb
    · rw [shr8]; omega
    · rw [and255]; omega
    · exact utf8_WF s b hb
  · simp [hl]; omega
  · simp only [List.cons_append, decodeString, shr8, and255]
    have e : (utf8 s).length / 256 * 256 + (utf8 s).length % 256 = (utf8 s).length := by omega
    rw [e]
    have : ¬ (utf8 s ++ rest).length < (utf8 s).length := by simp
    simp only [this, ↓reduceIte, take_append_self, drop_append_self, fromUtf8_utf8]

/-- an over-long string is refused with ValueError -/
theorem encodeString_too_long (s : String) (h : 65535 < s.utf8ByteSize) :
    encodeString s = .error .value := by
  unfold encodeString
  have : (utf8 s).length > 65535 := by rw [utf8_length]; exact h
  simp [this]

end Mqtt

namespace Mqtt

/-! ## explicit forms, convenient for the packet-level proofs -/

@[simp] theorem ok_bind {α β} (a : α) (f : α → Except Err β) : (Except.ok a >>= f) = f a := rfl
@[simp] theorem error_bind {α β} (e : Err) (f : α → Except Err β) : (Except.error e >>= f) = .error e := rfl
@[simp] theorem pure_ok {α} (a : α) : (pure a : Except Err α) = .ok a := rfl

/-- the two bytes `encode16Int` produces -/
def enc16 (v : Nat) : Bytes := [v >>> 8, v &&& 0xFF]

/-- the bytes `encodeString` produces -/
def encS (s : String) : Bytes := ((utf8 s).length >>> 8) :: ((utf8 s).length &&& 0xFF) :: utf8 s

theorem encode16_ok (v : Nat) (h : v < 65536) : encode16Int (v : Int) = .ok (enc16 v) := by
  unfold encode16Int enc16
  have : (0 : Int) ≤ v ∧ (v : Int) < 65536 := by omega
  simp [this]

theorem encode16_ok' (v : Int) (h0 : 0 ≤ v) (h : v < 65536) : encode16Int v = .ok (enc16 v.toNat) := by
  unfold encode16Int enc16
  simp [h0, h]

@[simp] theorem enc16_length (v : Nat) : (enc16 v).length = 2 := rfl

theorem enc16_WF (v : Nat) (h : v < 65536) : (enc16 v).WF := by
  intro b hb
  simp [enc16] at hb
  rw [shr8, and255] at hb
  omega

theorem decode16_enc16 (v : Nat) (h : v < 65536) (rest : Bytes) : decode16Int (enc16 v ++ rest) = .ok v := by
  simp only [enc16, List.cons_append, decode16Int, shr8, and255]
  congr 1; omega

theorem encodeString_ok (s : String) (h : s.utf8ByteSize ≤ 65535) : encodeString s = .ok (encS s) := by
  unfold encodeString encS
  have : ¬ (utf8 s).length > 65535 := by rw [utf8_length]; omega
  simp [this]

@[simp] theorem encS_length (s : String) : (encS s).length = 2 + s.utf8ByteSize := by
  simp [encS, utf8_length]; omega

theorem encS_WF (s : String) (h : s.utf8ByteSize ≤ 65535) : (encS s).WF := by
  have hl := utf8_length s
  intro b hb
  simp [encS] at hb
  rcases hb with rfl | rfl | hb
  · rw [shr8]; omega
  · rw [and255]; omega
  · exact utf8_WF s b hb

theorem prefix_value (s : String) (h : s.utf8ByteSize ≤ 65535) :
    ((utf8 s).length >>> 8) * 256 + ((utf8 s).length &&& 0xFF) = s.utf8ByteSize := by
  rw [shr8, and255, ← utf8_length]; omega

theorem decodeString_encS (s : String) (h : s.utf8ByteSize ≤ 65535) (rest : Bytes) :
    decodeString (encS s ++ rest) = .ok (s, rest) := by
  simp only [encS, List.cons_append, decodeString]
  rw [prefix_value s h, ← utf8_length]
  have : ¬ (utf8 s ++ rest).length < (utf8 s).length := by simp
  simp only [this, ↓reduceIte, take_append_self, drop_append_self, fromUtf8_utf8]

theorem decode16_encS (s : String) (h : s.utf8ByteSize ≤ 65535) (rest : Bytes) :
    decode16Int (encS s ++ rest) = .ok s.utf8ByteSize := by
  simp only [encS, List.cons_append, decode16Int]
  rw [prefix_value s h]

end Mqtt
