import MqttVerif.Proofs.Session2
/-
  Transitions that change one protocol object and the timers it owns (keepalive, state changes,
  loss), leaving every request, entry and handshake record alone: the entry-related clauses of the
  invariant carry over, the clauses local to the protocol are obligations of the caller.
-/
namespace Mqtt

theorem req_of_reqs {w w' : World} (h : w'.reqs = w.reqs) (r : Nat) : w'.req r = w.req r := by simp [World.req, h]

/-- one protocol object `p` is replaced by `npr` and only timers that are not retry or handshake timers change -/
theorem protoStep_inv {x : Option Nat} {w : World} (h : WInvX x w) (w' : World) (p : Nat) (ppr npr : Proto)
    (hpp : w.protos.get? p = some ppr)
    (he : w'.ents = w.ents) (hr : w'.reqs = w.reqs) (hf : w'.fired = w.fired) (hc : w'.connReqs = w.connReqs)
    (hid : w'.nextId = w.nextId) (hnr : w'.nextReq = w.nextReq) (hnd : w'.nextDfd = w.nextDfd) (hncr : w'.nextCR = w.nextCR)
    (hnp : w'.nextProto = w.nextProto) (hprofile : w'.profile = w.profile)
    (hprot : ∀ q, w'.protos.get? q = if p = q then some npr else w.protos.get? q)
    (hretryT : ∀ t q rid, Pending w' t (.retry q rid) ↔ Pending w t (.retry q rid))
    (hconnackT : ∀ t cr, Pending w' t (.connack cr) → Pending w t (.connack cr))
    (hconnackK : ∀ t cr c, w.connReqs.get? cr = some c → c.proto ≠ p → Pending w t (.connack cr) → Pending w' t (.connack cr))
    (hotherA : ∀ t q, q ≠ p → (Pending w' t (.pingAlarm q) ↔ Pending w t (.pingAlarm q)))
    (hotherL : ∀ t q, q ≠ p → (Pending w' t (.pingLoop q) ↔ Pending w t (.pingLoop q)))
    (htf : ∀ t tm, w'.timers.get? t = some tm → t < w'.nextTimer)
    (haddr : npr.addr = ppr.addr)
    (hlive : npr.lost = false → ppr.lost = false)
    (hdead : npr.lost = true → (∀ t rid, ¬ Pending w t (.retry p rid)) ∧ npr.state = .idle ∧ npr.pingTimer = none ∧ npr.pingAlarm = none)
    (hconn : npr.state = .connected → some p ≠ x → npr.lost = false →
      ∀ e ∈ w.ents, e.addr = npr.addr → e.box ≠ .queue → (w.req e.rid).alarm ≠ none)
    (hpa : ∀ t, npr.pingAlarm = some t → Pending w' t (.pingAlarm p))
    (hpt : ∀ l, npr.pingTimer = some l → l.running = true ∧ npr.state = .connected ∧ npr.pingKeepalive ≠ none ∧
      ∀ t, l.call = some t → Pending w' t (.pingLoop p))
    (hpao : ∀ t, Pending w' t (.pingAlarm p) → npr.pingAlarm = some t)
    (hplo : ∀ t, Pending w' t (.pingLoop p) → ∃ l, npr.pingTimer = some l ∧ l.call = some t)
    (hcing : npr.state = .connecting → ∃ cr c, npr.connReq = some cr ∧ w.connReqs.get? cr = some c ∧ c.proto = p ∧
      ∀ d, c.dfd = some d → d ∉ w.fired ∧ Pending w' c.alarm (.connack cr))
    (hcko : ∀ t cr c, Pending w' t (.connack cr) → w.connReqs.get? cr = some c → c.proto = p →
      npr.lost = true ∨ (npr.state = .connecting ∧ npr.connReq = some cr))
    (hcrl : ∀ cr c, npr.connReq = some cr → w.connReqs.get? cr = some c → c.proto = p ∧ ∀ d, c.dfd = some d → d ∉ w.fired)
    (hcrr : ∀ cr, npr.connReq = some cr → cr < w.nextCR)
    (hbuf : Bytes.WF npr.buffer) : WInvX x w' := by
  have hreq := req_of_reqs hr
  have hid' : ∀ e, idOf w' e = idOf w e := by intro e; simp [idOf, hreq]
  constructor
  case nodup => rw [he]; exact h.nodup
  case ridFresh => rw [he, hnr]; exact h.ridFresh
  case ridUnique => rw [he]; exact h.ridUnique
  case idUnique => rw [he]; simp only [hid']; exact h.idUnique
  case keyId => rw [he]; simp only [hreq]; exact h.keyId
  case queueNoAlarm => rw [he]; simp only [hreq]; exact h.queueNoAlarm
  case idCounter => rw [hid]; exact h.idCounter
  case timerFresh => exact htf
  case firedFresh => rw [hf, hnd]; exact h.firedFresh
  case crFresh => rw [hc, hncr]; exact h.crFresh
  case protoFresh =>
    rw [hnp]; simp only [hprot]
    have := h.protoFresh
    grind
  case dfdFresh => rw [he, hf, hnd]; simp only [hreq]; exact h.dfdFresh
  case dfdSome => rw [he]; simp only [hreq]; exact h.dfdSome
  case dfdInj => rw [he]; simp only [hreq]; exact h.dfdInj
  case alarm =>
    rw [he]; simp only [hreq, hprot, hretryT]
    intro e he' t ht
    obtain ⟨a1, q, qr, a2, a3, a4⟩ := h.alarm e he' t ht
    refine ⟨a1, q, ?_⟩
    grind
  case noStale => rw [he]; simp only [hreq, hretryT]; exact h.noStale
  case connected =>
    rw [he]; simp only [hreq, hprot]
    have := h.connected
    grind
  case oneLive =>
    simp only [hprot]
    have := h.oneLive
    grind
  case lostIdle =>
    simp only [hprot]
    have := h.lostIdle
    grind
  case pingAlarm =>
    simp only [hprot]
    have := h.pingAlarm
    grind
  case pingTimer =>
    simp only [hprot]
    intro q qr l hq hl
    by_cases hqp : p = q
    · subst hqp
      simp only [↓reduceIte] at hq; injection hq with hq; subst hq
      exact hpt l hl
    · simp only [hqp, ↓reduceIte] at hq
      obtain ⟨a1, a2, a3, a4⟩ := h.pingTimer q qr l hq hl
      exact ⟨a1, a2, a3, fun t ht => (hotherL t q (fun hc => hqp hc.symm)).mpr (a4 t ht)⟩
  case pingAlarmOwned =>
    simp only [hprot]
    have := h.pingAlarmOwned
    grind
  case pingLoopOwned =>
    simp only [hprot]
    intro t q hpd
    by_cases hqp : p = q
    · subst hqp
      obtain ⟨l, a, b⟩ := hplo t hpd
      exact ⟨npr, l, by simp, a, b⟩
    · obtain ⟨qr, l, a, b, c⟩ := h.pingLoopOwned t q ((hotherL t q (fun hc => hqp hc.symm)).mp hpd)
      exact ⟨qr, l, by simp [hqp, a], b, c⟩
  case connecting =>
    rw [hc, hf]; simp only [hprot]
    intro q qr hq hs
    by_cases hqp : p = q
    · subst hqp
      simp only [↓reduceIte] at hq; injection hq with hq; subst hq
      exact hcing hs
    · simp only [hqp, ↓reduceIte] at hq
      obtain ⟨cr, c, i1, i2, ip, i3⟩ := h.connecting q qr hq hs
      exact ⟨cr, c, i1, i2, ip, fun d hd => ⟨(i3 d hd).1, hconnackK _ cr c i2 (by rw [ip]; exact fun hc => hqp hc.symm) (i3 d hd).2⟩⟩
  case connReq => rw [hc, hf, hnd, he]; simp only [hreq]; exact h.connReq
  case connReqInj => rw [hc]; exact h.connReqInj
  case connReqFresh => rw [hc, hnd]; exact h.connReqFresh
  case connackOwned =>
    rw [hc, hf]; intro t cr hpd
    obtain ⟨c, d, a1, a2, a3, a4, pr, a5, a6⟩ := h.connackOwned t cr (hconnackT t cr hpd)
    refine ⟨c, d, a1, a2, a3, a4, ?_⟩
    simp only [hprot]
    by_cases hqp : p = c.proto
    · exact ⟨npr, by simp [hqp], hcko t cr c hpd a1 hqp.symm⟩
    · exact ⟨pr, by simp [hqp, a5], a6⟩
  case retryLive =>
    simp only [hprot, hretryT]
    have := h.retryLive
    intro t q rid hpd
    obtain ⟨qr, a, b⟩ := h.retryLive t q rid hpd
    by_cases hqp : p = q
    · subst hqp
      refine ⟨npr, by simp, ?_⟩
      cases hl : npr.lost with
      | false => rfl
      | true => exact absurd hpd ((hdead hl).1 t rid)
    · exact ⟨qr, by simp [hqp, a], b⟩
  case connReqLive =>
    rw [hc, hf]; simp only [hprot]
    have := h.connReqLive
    grind
  case connReqRef =>
    rw [hncr]; simp only [hprot]
    have := h.connReqRef
    grind
  case subArmed =>
    rw [he]; simp only [hreq, hprot]
    intro e he' hb ha
    obtain ⟨q, qr, a, b, c⟩ := h.subArmed e he' hb ha
    refine ⟨q, ?_⟩
    grind
  case profileOk => rw [hprofile]; exact h.profileOk
  case bufOk =>
    simp only [hprot]
    have := h.bufOk
    grind

/-! ### timers dying and being born -/

/-- a pending timer is cancelled or has run -/
theorem kill_pending {w w' : World} {t : Nat} {tm : Timer} (htm : w.timers.get? t = some tm) (st : TStatus) (hst : st ≠ .pending)
    (hw : w'.timers = w.timers.set t { tm with status := st }) (t' : Nat) (k : TKind) :
    Pending w' t' k ↔ (Pending w t' k ∧ t' ≠ t) := by
  simp only [Pending, hw, Dict.get?_set]
  by_cases htt : t = t'
  · subst htt; simp [hst]
  · simp [htt]; intro _ _ _ _; exact fun hc => htt hc.symm

/-- timers of any other kind are unaffected -/
theorem kill_other {w w' : World} {t : Nat} {tm : Timer} (htm : w.timers.get? t = some tm) (st : TStatus) (hst : st ≠ .pending)
    (hw : w'.timers = w.timers.set t { tm with status := st }) {k0 : TKind} (hp0 : Pending w t k0) (t' : Nat) (k : TKind) (hk : k ≠ k0) :
    Pending w' t' k ↔ Pending w t' k := by
  rw [kill_pending htm st hst hw]
  constructor
  · exact fun h => h.1
  · intro h; exact ⟨h, fun hc => by subst hc; exact hk (pending_kind h hp0)⟩

theorem kill_fresh {x : Option Nat} {w w' : World} (h : WInvX x w) {t : Nat} {tm : Timer} (htm : w.timers.get? t = some tm) (tm' : Timer)
    (hw : w'.timers = w.timers.set t tm') (hn : w'.nextTimer = w.nextTimer) :
    ∀ t' tm'', w'.timers.get? t' = some tm'' → t' < w'.nextTimer := by
  intro t' tm'' ht'
  rw [hn]; rw [hw, Dict.get?_set] at ht'
  split at ht'
  · rename_i heq; subst heq; exact h.timerFresh _ _ htm
  · exact h.timerFresh _ _ ht'

/-- `callLater`: a new pending timer -/
theorem add_pending {x : Option Nat} {w w' : World} (h : WInvX x w) (due : Nat) (k0 : TKind)
    (hw : w'.timers = w.timers.set w.nextTimer ⟨due, k0, .pending⟩) (t' : Nat) (k : TKind) :
    Pending w' t' k ↔ (Pending w t' k ∨ (t' = w.nextTimer ∧ k = k0)) := by
  have hfresh : w.timers.get? w.nextTimer = none := by
    cases hg : w.timers.get? w.nextTimer with
    | none => rfl
    | some tm => exact absurd (h.timerFresh _ _ hg) (Nat.lt_irrefl _)
  simp only [Pending, hw, Dict.get?_set]
  by_cases h1 : w.nextTimer = t'
  · subst h1
    simp only [↓reduceIte, hfresh]
    constructor
    · rintro ⟨tm, a, b, c⟩; injection a with a; subst a; exact Or.inr ⟨trivial, c.symm⟩
    · rintro (⟨tm, a, _⟩ | ⟨_, c⟩)
      · cases a
      · exact ⟨_, rfl, rfl, c.symm⟩
  · simp only [h1, ↓reduceIte]
    constructor
    · intro hh; exact Or.inl hh
    · rintro (hh | ⟨hc, _⟩)
      · exact hh
      · exact absurd hc.symm h1

theorem add_other {x : Option Nat} {w w' : World} (h : WInvX x w) (due : Nat) (k0 : TKind)
    (hw : w'.timers = w.timers.set w.nextTimer ⟨due, k0, .pending⟩) (t' : Nat) (k : TKind) (hk : k ≠ k0) :
    Pending w' t' k ↔ Pending w t' k := by
  rw [add_pending h due k0 hw]
  constructor
  · rintro (h' | ⟨_, h'⟩)
    · exact h'
    · exact absurd h' hk
  · exact Or.inl

theorem add_fresh {x : Option Nat} {w w' : World} (h : WInvX x w) (tm' : Timer)
    (hw : w'.timers = w.timers.set w.nextTimer tm') (hn : w'.nextTimer = w.nextTimer + 1) :
    ∀ t' tm'', w'.timers.get? t' = some tm'' → t' < w'.nextTimer := by
  intro t' tm'' ht'
  rw [hn]; rw [hw, Dict.get?_set] at ht'
  split at ht'
  · omega
  · exact Nat.lt_succ_of_lt (h.timerFresh _ _ ht')

/-! ### keepalive -/

def pingOffW (w : World) (p : Nat) (ppr : Proto) (t : Nat) (tm : Timer) (st : TStatus) (now' : Nat) (log' : List Obs) : World :=
  { w with timers := w.timers.set t { tm with status := st }, protos := w.protos.set p { ppr with pingAlarm := none },
           now := now', log := log' }

/-- the ping alarm of `p` is cancelled (PINGRESP, connection loss) or has run (`doPingError`), and forgotten -/
theorem pingOff_inv {x : Option Nat} {w : World} (h : WInvX x w) (p : Nat) (ppr : Proto) (hpp : w.protos.get? p = some ppr)
    (t : Nat) (ht : ppr.pingAlarm = some t) (st : TStatus) (hst : st ≠ .pending) (now' : Nat) (log' : List Obs) :
    ∃ tm, w.timers.get? t = some tm ∧ tm.status = .pending ∧
    WInvX x (pingOffW w p ppr t tm st now' log') := by
  have hpe := h.pingAlarm p ppr t hpp ht
  obtain ⟨tm, htm, hs, hk⟩ := hpe
  refine ⟨tm, htm, hs, ?_⟩
  have hpe : Pending w t (.pingAlarm p) := ⟨tm, htm, hs, hk⟩
  apply protoStep_inv h (pingOffW w p ppr t tm st now' log') p ppr { ppr with pingAlarm := none } hpp rfl rfl rfl rfl rfl rfl rfl rfl rfl rfl
  · intro q; simp only [pingOffW, Dict.get?_set]
  · intro t' q rid; exact kill_other htm st hst rfl hpe _ _ (by simp)
  · intro t' cr; exact (kill_other htm st hst rfl hpe _ _ (by simp)).mp
  · intro t' cr c _ _; exact (kill_other htm st hst rfl hpe _ _ (by simp)).mpr
  · intro t' q hq; exact kill_other htm st hst rfl hpe _ _ (by simp; exact hq)
  · intro t' q hq; exact kill_other htm st hst rfl hpe _ _ (by simp)
  · exact kill_fresh h htm _ rfl rfl
  · rfl
  · exact id
  · intro hl
    have := h.lostIdle p ppr hpp hl
    have hr := h.retryLive
    grind
  · intro hs' hx hl; exact h.connected p ppr hpp hx hl hs'
  · intro t' ht'; cases ht'
  · intro l hl
    obtain ⟨a1, a2, a3, a4⟩ := h.pingTimer p ppr l hpp hl
    exact ⟨a1, a2, a3, fun t' ht' => (kill_other htm st hst rfl hpe _ _ (by simp)).mpr (a4 t' ht')⟩
  · intro t' hp'
    have hp2 := (kill_pending htm st hst rfl t' _).mp hp'
    obtain ⟨pr, a, b⟩ := h.pingAlarmOwned t' p hp2.1
    rw [hpp] at a; injection a with a; subst a
    rw [ht] at b; injection b with b
    exact absurd b.symm hp2.2
  · intro t' hp'
    obtain ⟨pr, l, a, b, c⟩ := h.pingLoopOwned t' p ((kill_other htm st hst rfl hpe _ _ (by simp)).mp hp')
    rw [hpp] at a; injection a with a; subst a
    exact ⟨l, b, c⟩
  · intro hs'
    obtain ⟨cr, c, i1, i2, ip, i3⟩ := h.connecting p ppr hpp hs'
    exact ⟨cr, c, i1, i2, ip, fun d hd => ⟨(i3 d hd).1, (kill_other htm st hst rfl hpe _ _ (by simp)).mpr (i3 d hd).2⟩⟩
  · intro t' cr c hp' hc' hown
    obtain ⟨c2, d, a1, a2, a3, a4, pr, a5, a6⟩ := h.connackOwned t' cr ((kill_other htm st hst rfl hpe _ _ (by simp)).mp hp')
    rw [hc'] at a1; injection a1 with a1; subst a1
    rw [hown, hpp] at a5; injection a5 with a5; subst a5
    exact a6
  · intro cr c hcq; exact h.connReqLive p ppr cr c hpp hcq
  · intro cr hcq; exact h.connReqRef p ppr cr hpp hcq
  · exact h.bufOk p ppr hpp

/-- MQTTBaseProtocol.handlePINGRESP -/
theorem handlePINGRESP_inv {x : Option Nat} {w : World} (h : WInvX x w) (p : Nat) (ppr : Proto) (hpp : w.protos.get? p = some ppr) :
    (handlePINGRESP p w).2 = none ∧ WInvX x (handlePINGRESP p w).1 := by
  simp only [handlePINGRESP, read_apply, getD_of_get? hpp]
  cases hpa : ppr.pingAlarm with
  | none => exact ⟨rfl, h⟩
  | some t =>
    simp only
    obtain ⟨tm, htm, hs, hw⟩ := pingOff_inv h p ppr hpp t hpa .cancelled (by simp) w.now w.log
    have s1 : cancelTimer t w = ({ w with timers := w.timers.set t { tm with status := .cancelled } }, none) := by
      simp only [cancelTimer, read_apply, htm, hs]; rfl
    rw [seq_ok s1, setProto_apply]
    refine ⟨rfl, ?_⟩
    have : ({ w with timers := w.timers.set t { tm with status := .cancelled } } : World).proto p = ppr := getD_of_get? hpp
    rw [this]
    exact hw

end Mqtt
