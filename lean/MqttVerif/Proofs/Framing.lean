import MqttVerif.Model.Framing
import MqttVerif.Proofs.Pdu
/-
  C03 (pure part): stream reassembly does not depend on how the byte stream is cut into chunks.
-/
namespace Mqtt

theorem and128_mod (b : Nat) : b &&& 0x80 = (b % 256) &&& 0x80 := by
  have h1 : (b &&& 128) % 2^8 = (b % 2^8) &&& (128 % 2^8) := Nat.and_mod_two_pow ..
  have h2 : b &&& 128 ≤ 128 := Nat.and_le_right
  have : (b &&& 128) % 2^8 = b &&& 128 := Nat.mod_eq_of_lt (by omega)
  rw [this] at h1
  simpa using h1

/-- the continuation bit of any Python int is 0 or 0x80 -/
theorem and128_cases (b : Nat) : b &&& 0x80 = 0 ∨ b &&& 0x80 = 0x80 := by
  rw [and128_mod]
  have hlt : b % 256 < 256 := Nat.mod_lt _ (by decide)
  by_cases h : b % 256 < 128
  · left; exact and128_small _ h
  · right; exact and128_of_ge _ (by omega) hlt

/-- the two tests on the continuation bit used by `_accumulatePacket` and `decodeLength` agree -/
theorem cont_tests (b : Nat) : ((b &&& 0x80) != 0x80) = !((b &&& 0x80) != 0) := by
  rcases and128_cases b with h | h <;> simp [h]

theorem scanLen_le (l : Bytes) : scanLen l ≤ l.length := by
  induction l with
  | nil => simp [scanLen]
  | cons b r ih => simp only [scanLen]; split <;> simp <;> omega

/-- a length field that ends inside the buffer is not changed by bytes arriving later -/
theorem scanLen_append (l c : Bytes) (h : scanLen l < l.length) : scanLen (l ++ c) = scanLen l := by
  induction l with
  | nil => simp [scanLen] at h
  | cons b r ih =>
    simp only [List.cons_append, scanLen]
    split
    · rename_i hb
      simp only [scanLen, hb, ↓reduceIte, List.length_cons] at h
      rw [ih (by omega)]
    · rfl

theorem decodeLengthAux_append (l c : Bytes) (v m : Nat) (h : scanLen l < l.length) :
    decodeLengthAux v m (l ++ c) = decodeLengthAux v m l := by
  induction l generalizing v m with
  | nil => simp [scanLen] at h
  | cons b r ih =>
    simp only [List.cons_append, decodeLengthAux]
    rw [cont_tests]
    by_cases hb : (b &&& 0x80 != 0) = true
    · simp only [hb, Bool.not_true, Bool.false_eq_true, ↓reduceIte]
      simp only [scanLen, hb, ↓reduceIte, List.length_cons] at h
      exact ih _ _ (by omega)
    · simp [hb]

theorem firstPacket_eq (buf : Bytes) :
    firstPacket buf =
      if buf.length < 2 then none
      else if contAt buf (1 + scanLen (buf.drop 1)) then none
      else if buf.length ≥ decodeLength (buf.drop 1) + (1 + scanLen (buf.drop 1)) + 1 then
        some (buf.take (decodeLength (buf.drop 1) + (1 + scanLen (buf.drop 1)) + 1),
              buf.drop (decodeLength (buf.drop 1) + (1 + scanLen (buf.drop 1)) + 1))
      else none := rfl

/-- stability: a complete first packet stays the first packet when more bytes are appended -/
theorem firstPacket_append (buf c p r : Bytes) (h : firstPacket buf = some (p, r)) :
    firstPacket (buf ++ c) = some (p, r ++ c) := by
  rw [firstPacket_eq] at h ⊢
  generalize hk : decodeLength (buf.drop 1) + (1 + scanLen (buf.drop 1)) + 1 = k at h
  by_cases h2 : buf.length < 2
  · rw [if_pos h2] at h; exact absurd h (by simp)
  · rw [if_neg h2] at h
    by_cases hc : contAt buf (1 + scanLen (buf.drop 1)) = true
    · rw [if_pos hc] at h; exact absurd h (by simp)
    · rw [if_neg hc] at h
      by_cases hlen : buf.length ≥ k
      · rw [if_pos hlen] at h
        injection h with h
        injection h with hp hr
        have h2' : ¬ (buf ++ c).length < 2 := by rw [List.length_append]; omega
        have hdl : (buf.drop 1).length = buf.length - 1 := List.length_drop
        have hd1 : (buf ++ c).drop 1 = buf.drop 1 ++ c := List.drop_append_of_le_length (by omega)
        have hscan : scanLen (buf.drop 1) < (buf.drop 1).length := by omega
        have hidx : 1 + scanLen (buf.drop 1) < buf.length := by omega
        have hget : contAt (buf ++ c) (1 + scanLen (buf.drop 1)) = contAt buf (1 + scanLen (buf.drop 1)) := by
          unfold contAt; rw [List.getElem?_append_left hidx]
        have hdec : decodeLength (buf.drop 1 ++ c) = decodeLength (buf.drop 1) := by
          unfold decodeLength; exact decodeLengthAux_append _ _ _ _ hscan
        rw [if_neg h2', hd1, scanLen_append _ _ hscan, hget, if_neg hc, hdec, hk]
        have hlen' : (buf ++ c).length ≥ k := by rw [List.length_append]; omega
        rw [if_pos hlen', List.take_append_of_le_length hlen, List.drop_append_of_le_length hlen, hp, hr]
      · rw [if_neg hlen] at h; exact absurd h (by simp)

/-- a packet cut out of the buffer is a prefix of it and has at least two bytes -/
theorem firstPacket_some (buf p r : Bytes) (h : firstPacket buf = some (p, r)) :
    buf = p ++ r ∧ 2 ≤ p.length := by
  rw [firstPacket_eq] at h
  generalize hk : decodeLength (buf.drop 1) + (1 + scanLen (buf.drop 1)) + 1 = k at h
  by_cases h2 : buf.length < 2
  · rw [if_pos h2] at h; exact absurd h (by simp)
  · rw [if_neg h2] at h
    by_cases hc : contAt buf (1 + scanLen (buf.drop 1)) = true
    · rw [if_pos hc] at h; exact absurd h (by simp)
    · rw [if_neg hc] at h
      by_cases hlen : buf.length ≥ k
      · rw [if_pos hlen] at h
        injection h with h
        injection h with hp hr
        subst hp hr
        refine ⟨(List.take_append_drop _ _).symm, ?_⟩
        rw [List.length_take]; omega
      · rw [if_neg hlen] at h; exact absurd h (by simp)

theorem firstPacket_nil : firstPacket [] = none := by simp [firstPacket]

/-- enough fuel is enough -/
theorem splitAux_fuel (f g : Nat) (buf : Bytes) (hf : buf.length ≤ f) (hg : buf.length ≤ g) :
    splitAux f buf = splitAux g buf := by
  induction f generalizing g buf with
  | zero =>
    have : buf = [] := by cases buf <;> simp_all
    subst this
    cases g <;> simp [splitAux, firstPacket_nil]
  | succ f ih =>
    cases g with
    | zero =>
      have : buf = [] := by cases buf <;> simp_all
      subst this
      simp [splitAux, firstPacket_nil]
    | succ g =>
      simp only [splitAux]
      cases hfp : firstPacket buf with
      | none => rfl
      | some pr =>
        obtain ⟨p, r⟩ := pr
        obtain ⟨hb, hp⟩ := firstPacket_some buf p r hfp
        have : r.length + 2 ≤ buf.length := by rw [hb]; simp; omega
        simp only
        rw [ih g r (by omega) (by omega)]

/-- splitting a concatenation = splitting the first part, then continuing with what it left over -/
theorem splitPackets_append (a b : Bytes) :
    splitPackets (a ++ b) =
      ((splitPackets a).1 ++ (splitPackets ((splitPackets a).2 ++ b)).1,
       (splitPackets ((splitPackets a).2 ++ b)).2) := by
  generalize hn : a.length = n
  induction n using Nat.strongRecOn generalizing a with
  | ind n ih =>
    cases hfp : firstPacket a with
    | none =>
      have : splitPackets a = ([], a) := by
        unfold splitPackets
        cases a.length <;> simp [splitAux, hfp]
      rw [this]
      simp
    | some pr =>
      obtain ⟨p, r⟩ := pr
      obtain ⟨hb, hp⟩ := firstPacket_some a p r hfp
      have hfp' := firstPacket_append a b p r hfp
      have hra : r.length < a.length := by rw [hb]; simp; omega
      have hsa : splitPackets a = (p :: (splitPackets r).1, (splitPackets r).2) := by
        unfold splitPackets
        obtain ⟨k, hk⟩ : ∃ k, a.length = k + 1 := ⟨a.length - 1, by omega⟩
        rw [hk]
        simp only [splitAux, hfp]
        rw [splitAux_fuel k r.length r (by omega) (Nat.le_refl _)]
      have hsab : splitPackets (a ++ b) = (p :: (splitPackets (r ++ b)).1, (splitPackets (r ++ b)).2) := by
        unfold splitPackets
        obtain ⟨k, hk⟩ : ∃ k, (a ++ b).length = k + 1 := ⟨(a ++ b).length - 1, by simp; omega⟩
        rw [hk]
        simp only [splitAux, hfp']
        rw [splitAux_fuel k (r ++ b).length (r ++ b) (by simp at hk ⊢; omega) (Nat.le_refl _)]
      rw [hsab, hsa, ih r.length (by omega) r rfl]
      simp

/-- state of the reassembly: bytes still buffered, packets delivered so far (in order) -/
def feed (st : Bytes × List Bytes) (chunk : Bytes) : Bytes × List Bytes :=
  let res := splitPackets (st.1 ++ chunk)
  (res.2, st.2 ++ res.1)

/-- C03 (pure): for ANY bytes and ANY way of cutting them into chunks, the packets delivered and
    the bytes left buffered are those of delivering the concatenation in one piece. -/
theorem splitAux_residual (f : Nat) (buf : Bytes) (h : buf.length ≤ f) :
    firstPacket (splitAux f buf).2 = none := by
  induction f generalizing buf with
  | zero =>
    have : buf = [] := by cases buf <;> simp_all
    subst this; simp [splitAux, firstPacket_nil]
  | succ f ih =>
    simp only [splitAux]
    cases hfp : firstPacket buf with
    | none => exact hfp
    | some pr =>
      obtain ⟨p, r⟩ := pr
      obtain ⟨hb, hp⟩ := firstPacket_some buf p r hfp
      have : r.length + 2 ≤ buf.length := by rw [hb]; simp; omega
      exact ih r (by omega)

/-- what `_accumulatePacket` leaves in `_buffer` holds no complete packet -/
theorem splitPackets_residual (buf : Bytes) : firstPacket (splitPackets buf).2 = none :=
  splitAux_residual _ _ (Nat.le_refl _)

theorem splitPackets_of_residual (buf : Bytes) (h : firstPacket buf = none) : splitPackets buf = ([], buf) := by
  unfold splitPackets
  cases buf.length <;> simp [splitAux, h]

/-- C03 (pure): for ANY bytes and ANY way of cutting them into chunks, the packets delivered and
    the bytes left buffered are those of delivering the concatenation in one piece. (`buf` holds
    no complete packet: the state `_accumulatePacket` always leaves behind.) -/
theorem feed_chunks (buf : Bytes) (done : List Bytes) (chunks : List Bytes) (hres : firstPacket buf = none) :
    chunks.foldl feed (buf, done) = feed (buf, done) chunks.flatten := by
  induction chunks generalizing buf done with
  | nil =>
    simp only [List.foldl_nil, List.flatten_nil, feed, List.append_nil, splitPackets_of_residual buf hres]
  | cons c cs ih =>
    simp only [List.foldl_cons, List.flatten_cons]
    have hr : firstPacket (feed (buf, done) c).1 = none := splitPackets_residual _
    rw [ih _ _ hr]
    simp only [feed]
    rw [← List.append_assoc, splitPackets_append (buf ++ c) cs.flatten]
    simp

/-- and the packets delivered, concatenated with the bytes still buffered, are the bytes received:
    nothing dropped, duplicated, merged, truncated or reordered -/
theorem splitAux_concat (f : Nat) (buf : Bytes) :
    (splitAux f buf).1.flatten ++ (splitAux f buf).2 = buf := by
  induction f generalizing buf with
  | zero => simp [splitAux]
  | succ f ih =>
    simp only [splitAux]
    cases hfp : firstPacket buf with
    | none => simp
    | some pr =>
      obtain ⟨p, r⟩ := pr
      obtain ⟨hb, _⟩ := firstPacket_some buf p r hfp
      simp only [List.flatten_cons, List.append_assoc, ih r]
      exact hb.symm

theorem splitPackets_concat (buf : Bytes) : (splitPackets buf).1.flatten ++ (splitPackets buf).2 = buf :=
  splitAux_concat _ _

theorem scanLen_pre (pre : Bytes) (d : Nat) (rest : Bytes) (hd : d < 128)
    (hp : ∀ b ∈ pre, 128 ≤ b ∧ b < 256) : scanLen (pre ++ d :: rest) = pre.length := by
  induction pre with
  | nil => simp [scanLen, and128_small d hd]
  | cons a t ih =>
    have ha := hp a (by simp)
    simp only [List.cons_append, scanLen, and128_of_ge a ha.1 ha.2, List.length_cons]
    rw [ih (fun b hb => hp b (by simp [hb]))]
    simp

/-- every packet in the standard's layout (first byte, remaining length, that many bytes) is cut
    out of the stream exactly, whatever follows it -/
theorem firstPacket_encoded (h n : Nat) (body rest : Bytes) (hb : body.length = n) :
    firstPacket ([h] ++ encodeLength n ++ body ++ rest) = some ([h] ++ encodeLength n ++ body, rest) := by
  obtain ⟨pre, d, he, hd, hp⟩ := encodeLength_last n
  have hdec := decodeLength_encodeLength n (body ++ rest)
  rw [firstPacket_eq]
  have hdrop : ([h] ++ encodeLength n ++ body ++ rest).drop 1 = encodeLength n ++ (body ++ rest) := by simp
  have hscan : scanLen (encodeLength n ++ (body ++ rest)) = pre.length := by
    rw [he]; simpa using scanLen_pre pre d (body ++ rest) hd hp
  have hlen : ([h] ++ encodeLength n ++ body ++ rest).length = 1 + (pre.length + 1) + n + rest.length := by
    simp [he, hb]; omega
  have h2 : ¬ ([h] ++ encodeLength n ++ body ++ rest).length < 2 := by omega
  have hc : contAt ([h] ++ encodeLength n ++ body ++ rest) (1 + pre.length) = false := by
    unfold contAt
    have : ([h] ++ encodeLength n ++ body ++ rest)[1 + pre.length]? = some d := by
      rw [he]; simp [Nat.add_comm]
    rw [this]; simp [and128_small d hd]
  rw [if_neg h2, hdrop, hscan, hc, hdec]
  have hk : n + (1 + pre.length) + 1 = ([h] ++ encodeLength n ++ body).length := by simp [he, hb]; omega
  have hge : ([h] ++ encodeLength n ++ body ++ rest).length ≥ n + (1 + pre.length) + 1 := by omega
  simp only [Bool.false_eq_true, ↓reduceIte, hge]
  rw [hk, take_append_self, drop_append_self]

end Mqtt
