import MqttVerif.Proofs.Conn2
/-
  Frame property of the reactor-side handlers: protocol objects persist, and nothing but
  `connectionLost` touches their address or their `lost` flag.
-/
namespace Mqtt

/-- `s` keeps every protocol object, with its address and `lost` flag -/
def KL (s : Step) : Prop :=
  ∀ w q qr, w.protos.get? q = some qr → ∃ qr', (s w).1.protos.get? q = some qr' ∧ qr'.lost = qr.lost ∧ qr'.addr = qr.addr

theorem kl_ok : KL Step.ok := fun _ _ qr h => ⟨qr, h, rfl, rfl⟩
theorem kl_raise (e : Err) : KL (Step.raise e) := fun _ _ qr h => ⟨qr, h, rfl, rfl⟩

theorem kl_seq {a b : Step} (ha : KL a) (hb : KL b) : KL (a ;; b) := by
  intro w q qr h
  obtain ⟨qr1, h1, l1, a1⟩ := ha w q qr h
  simp only [Step.seq]
  rcases hw : a w with ⟨w1, _ | e⟩
  · rw [hw] at h1
    obtain ⟨qr2, h2, l2, a2⟩ := hb w1 q qr1 h1
    exact ⟨qr2, h2, by rw [l2, l1], by rw [a2, a1]⟩
  · rw [hw] at h1
    exact ⟨qr1, h1, l1, a1⟩

theorem kl_read {f : World → Step} (hf : ∀ w, KL (f w)) : KL (Step.read f) := fun w => hf w w

theorem kl_mod {f : World → World} (hf : ∀ w, (f w).protos = w.protos) : KL (Step.mod f) := by
  intro w q qr h
  exact ⟨qr, by show (f w).protos.get? q = some qr; rw [hf]; exact h, rfl, rfl⟩

theorem kl_setProto (p : Nat) (f : Proto → Proto) (hf : ∀ pr, (f pr).lost = pr.lost ∧ (f pr).addr = pr.addr) : KL (setProto p f) := by
  intro w q qr h
  simp only [setProto, Step.mod, Dict.get?_set]
  by_cases hq : p = q
  · subst hq
    simp only [↓reduceIte, World.proto, h, Option.getD_some]
    exact ⟨_, rfl, (hf qr).1, (hf qr).2⟩
  · simp only [hq, ↓reduceIte]
    exact ⟨qr, h, rfl, rfl⟩

theorem kl_emit (o : Obs) : KL (emit o) := kl_mod fun _ => rfl
theorem kl_write (p : Nat) (b : Bytes) : KL (write p b) := kl_mod fun _ => rfl
theorem kl_setEnts (f : List Ent → List Ent) : KL (setEnts f) := kl_mod fun _ => rfl
theorem kl_setReq (r : Nat) (f : Req → Req) : KL (setReq r f) := kl_mod fun _ => rfl

theorem kl_callLater (d : Rat) (k : TKind) {c : Nat → Step} (hc : ∀ t, KL (c t)) : KL (callLater d k c) :=
  kl_read fun _ => kl_seq (kl_mod fun _ => rfl) (hc _)

theorem kl_newDfd {c : Nat → Step} (hc : ∀ t, KL (c t)) : KL (newDfd c) :=
  kl_read fun _ => kl_seq (kl_mod fun _ => rfl) (hc _)

theorem kl_cancelTimer (t : Nat) : KL (cancelTimer t) := by
  apply kl_read; intro w
  split
  · exact kl_raise _
  · split
    · exact kl_mod fun _ => rfl
    · exact kl_raise _
    · exact kl_raise _

theorem kl_cancelAlarm (a : Option Nat) : KL (cancelAlarm a) := by
  cases a with
  | none => exact kl_raise _
  | some t => exact kl_cancelTimer t

theorem kl_fireDfd (d : Nat) (o : Outcome) : KL (fireDfd d o) := by
  apply kl_read; intro w
  split
  · exact kl_raise _
  · exact kl_seq (kl_mod fun _ => rfl) (kl_emit _)

theorem kl_fireReqDfd (d : Option Nat) (o : Outcome) : KL (fireReqDfd d o) := by
  cases d with
  | none => exact kl_raise _
  | some d => exact kl_fireDfd d o

theorem kl_forEach {α : Type} (l : List α) {f : α → Step} (hf : ∀ a, KL (f a)) : KL (forEach l f) := by
  induction l with
  | nil => exact kl_ok
  | cons a r ih => exact kl_seq (hf a) ih

theorem refillW_protos (p : Nat) (dup : Bool) (fuel : Nat) : ∀ (w : World), (refillW p dup fuel w).protos = w.protos := by
  induction fuel with
  | zero => intro w; rfl
  | succ f ih =>
    intro w
    simp only [refillW]
    split
    · rfl
    · split
      · rw [ih, retryPublishW_protos]; split <;> rfl
      · rfl

theorem kl_refill (p : Nat) : KL (refill p) := kl_mod fun w => refillW_protos p false _ w
theorem kl_retryPublish (p rid : Nat) (dup : Bool) : KL (retryPublish p rid dup) := kl_mod fun w => retryPublishW_protos p rid dup w
theorem kl_retryRelease (p rid : Nat) (dup : Bool) : KL (retryRelease p rid dup) := kl_mod fun w => retryReleaseW_protos p rid dup w
theorem kl_retrySubUnsub (p rid : Nat) (dup s : Bool) : KL (retrySubUnsub p rid dup s) := kl_mod fun w => retrySubUnsubW_protos p rid dup s w

/-- structural descent through a handler -/
macro "kl_step" : tactic => `(tactic| first
  | with_reducible exact kl_ok | with_reducible exact kl_raise _ | with_reducible exact kl_emit _
  | with_reducible exact kl_write _ _ | with_reducible exact kl_setEnts _ | with_reducible exact kl_setReq _ _
  | with_reducible exact kl_cancelTimer _ | with_reducible exact kl_cancelAlarm _ | with_reducible exact kl_fireDfd _ _
  | with_reducible exact kl_fireReqDfd _ _
  | with_reducible exact kl_refill _ | with_reducible exact kl_retryPublish _ _ _ | with_reducible exact kl_retryRelease _ _ _
  | with_reducible exact kl_retrySubUnsub _ _ _ _
  | (with_reducible apply kl_setProto; intro pr; exact ⟨rfl, rfl⟩)
  | (with_reducible apply kl_mod; intro w; rfl)
  | with_reducible apply kl_seq | (with_reducible apply kl_read; intro w) | (with_reducible apply kl_callLater; intro t)
  | (with_reducible apply kl_newDfd; intro t)
  | (with_reducible apply kl_forEach; intro e)
  | split
  | dsimp only)

macro "kl" : tactic => `(tactic| repeat kl_step)

theorem kl_deliver (p : Nat) (m : RxMsg) : KL (deliver p m) := by unfold deliver; kl
theorem kl_purgeSession (p : Nat) (r : Err) : KL (purgeSession p r) := by unfold purgeSession purgeWindow; kl
theorem kl_syncSession (p : Nat) : KL (syncSession p) := by
  apply kl_mod; intro w
  simp only [syncW]
  have key : ∀ (l : List Ent) (f : World → Ent → World) (hf : ∀ w e, (f w e).protos = w.protos) (w : World), (l.foldl f w).protos = w.protos := by
    intro l f hf
    induction l with
    | nil => intro w; rfl
    | cons e r ih => intro w; simp only [List.foldl_cons]; rw [ih, hf]
  rw [key, key]
  · intro w e; split
    · exact retryReleaseW_protos _ _ _ _
    · rfl
  · intro w e; split
    · exact retryPublishW_protos _ _ _ _
    · rfl
theorem kl_mqttConnectionMade (p : Nat) : KL (mqttConnectionMade p) := by
  unfold mqttConnectionMade
  apply kl_read; intro w
  apply kl_seq
  · split
    · exact kl_purgeSession _ _
    · exact kl_syncSession _
  · kl
theorem kl_doPingRequest (p : Nat) : KL (doPingRequest p) := by unfold doPingRequest; kl
theorem kl_ping (p : Nat) : KL (ping p) := by
  unfold ping; apply kl_read; intro w; split
  · exact kl_doPingRequest p
  · exact kl_raise _
theorem kl_loopRun (p : Nat) : KL (loopRun p) := by
  intro w q qr h
  obtain ⟨qr1, h1, l1, a1⟩ := kl_ping p w q qr h
  simp only [loopRun]
  rcases hw : ping p w with ⟨w1, _ | e⟩
  · rw [hw] at h1
    have : KL (Step.read fun w =>
      match (w.proto p).pingTimer with
      | some l =>
        if l.running then
          callLater l.interval (.pingLoop p) fun tid =>
            setProto p (fun pr => { pr with pingTimer := (pr.pingTimer.map fun l => { l with call := some tid }) })
        else Step.ok
      | none => Step.ok) := by kl
    obtain ⟨qr2, h2, l2, a2⟩ := this w1 q qr1 h1
    exact ⟨qr2, h2, by rw [l2, l1], by rw [a2, a1]⟩
  · rw [hw] at h1
    have : KL (setProto p (fun pr => { pr with pingTimer := (pr.pingTimer.map fun l => { l with running := false, call := none }) })) := by kl
    obtain ⟨qr2, h2, l2, a2⟩ := this w1 q qr1 h1
    exact ⟨qr2, h2, by rw [l2, l1], by rw [a2, a1]⟩
theorem kl_handleCONNACK (p : Nat) (s : Bool) (rc : Nat) : KL (handleCONNACK p s rc) := by
  unfold handleCONNACK
  apply kl_read; intro w
  split
  · kl
  · split
    · kl
    · split
      · kl
      · apply kl_seq (kl_cancelTimer _)
        apply kl_seq
        · split
          · apply kl_seq (by kl)
            apply kl_seq (kl_mqttConnectionMade p)
            apply kl_seq
            · split
              · exact kl_seq (by kl) (kl_loopRun p)
              · exact kl_ok
            · kl
          · kl
        · kl
theorem kl_handlePINGRESP (p : Nat) : KL (handlePINGRESP p) := by unfold handlePINGRESP; kl
theorem kl_handleSubUnsubAck (p : Nat) (b : Bool) (m : Nat) (v : Val) : KL (handleSubUnsubAck p b m v) := by unfold handleSubUnsubAck; kl
theorem kl_handlePUBLISH (p : Nat) (m : RxMsg) : KL (handlePUBLISH p m) := by
  unfold handlePUBLISH
  split
  · exact kl_deliver p m
  · split
    · split
      · exact kl_seq (kl_write _ _) (kl_deliver p m)
      · kl
    · kl
theorem kl_handlePUBREL (p : Nat) (m : Nat) : KL (handlePUBREL p m) := by
  unfold handlePUBREL
  apply kl_read; intro w
  apply kl_seq
  · split
    · kl
    · exact kl_seq (by kl) (kl_deliver p _)
  · kl
theorem kl_handlePUBACK (p : Nat) (m : Nat) : KL (handlePUBACK p m) := by unfold handlePUBACK; kl
theorem kl_handlePUBREC (p : Nat) (m : Nat) : KL (handlePUBREC p m) := by unfold handlePUBREC; kl
theorem kl_handlePUBCOMP (p : Nat) (m : Nat) : KL (handlePUBCOMP p m) := by unfold handlePUBCOMP; kl

theorem nibble_lt (h : Nat) : (h &&& 0xF0) >>> 4 < 16 := by
  have : h &&& 0xF0 ≤ 0xF0 := Nat.and_le_right
  rw [Nat.shiftRight_eq_div_pow]; omega

theorem kl_processPacket (p : Nat) (pkt : Bytes) : KL (processPacket p pkt) := by
  unfold processPacket abort
  split
  · kl
  · rename_i h0 rest
    dsimp only
    have ht := nibble_lt h0
    generalize (h0 &&& 0xF0) >>> 4 = t at ht ⊢
    split
    · kl
    · split
      · kl
      · apply kl_read; intro w
        have : t = 0 ∨ t = 1 ∨ t = 2 ∨ t = 3 ∨ t = 4 ∨ t = 5 ∨ t = 6 ∨ t = 7 ∨ t = 8 ∨ t = 9 ∨ t = 10 ∨ t = 11 ∨ t = 12 ∨
            t = 13 ∨ t = 14 ∨ t = 15 := by omega
        rcases this with rfl | rfl | rfl | rfl | rfl | rfl | rfl | rfl | rfl | rfl | rfl | rfl | rfl | rfl | rfl | rfl
        all_goals (try simp only [])
        all_goals (try (with_reducible exact kl_emit _))
        all_goals (try (with_reducible split))
        all_goals (try (with_reducible exact kl_emit _))
        all_goals (try (with_reducible split))
        all_goals with_reducible first
          | exact kl_ok | exact kl_emit _ | exact kl_handleCONNACK _ _ _ | exact kl_handlePINGRESP _ | exact kl_handleSubUnsubAck _ _ _ _
          | exact kl_handlePUBLISH _ _ | exact kl_handlePUBACK _ _ | exact kl_handlePUBREC _ _ | exact kl_handlePUBREL _ _ | exact kl_handlePUBCOMP _ _

theorem kl_accumulate (p : Nat) (fuel : Nat) : KL (accumulate p fuel) := by
  induction fuel with
  | zero => exact kl_ok
  | succ f ih =>
    unfold accumulate
    apply kl_read; intro w
    split
    · exact kl_ok
    · exact kl_seq (kl_processPacket _ _) (kl_seq (by kl) ih)

theorem kl_dataReceived (p : Nat) (d : Bytes) : KL (dataReceived p d) := by
  unfold dataReceived
  apply kl_seq (by kl)
  apply kl_read; intro w
  exact kl_accumulate _ _

end Mqtt
