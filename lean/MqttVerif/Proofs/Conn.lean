import MqttVerif.Proofs.Session3
/-
  Handshake and keepalive transitions of one protocol object, as instances of `protoStep_inv`.
-/
namespace Mqtt

/-! ### CONNACK: the handshake timer is cancelled and the state changes -/

def acceptW (w : World) (p : Nat) (ppr : Proto) (t : Nat) (tm : Timer) (st : PState) : World :=
  { w with timers := w.timers.set t { tm with status := .cancelled }, protos := w.protos.set p { ppr with state := st } }

theorem accept_inv {x : Option Nat} {w : World} (h : WInvX x w) (p : Nat) (ppr : Proto) (hpp : w.protos.get? p = some ppr)
    (hs : ppr.state = .connecting) (st : PState) (hst : st = .idle ∨ (st = .connected ∧ x = some p))
    (cr : Nat) (c : ConnReq) (hcq : ppr.connReq = some cr) (hc : w.connReqs.get? cr = some c) (d : Nat) (hd : c.dfd = some d) :
    ∃ tm, w.timers.get? c.alarm = some tm ∧ tm.status = .pending ∧ WInvX x (acceptW w p ppr c.alarm tm st) := by
  obtain ⟨cr', c', i1, i2, ip, i3⟩ := h.connecting p ppr hpp hs
  rw [hcq] at i1; injection i1 with i1; subst i1
  rw [hc] at i2; injection i2 with i2; subst i2
  obtain ⟨hnf, tm, htm, hts, hk⟩ := i3 d hd
  have hpe : Pending w c.alarm (.connack cr) := ⟨tm, htm, hts, hk⟩
  refine ⟨tm, htm, hts, ?_⟩
  have hnl : ppr.lost = false := by
    cases hl : ppr.lost with
    | false => rfl
    | true => have := (h.lostIdle p ppr hpp hl).1; rw [hs] at this; cases this
  have hpt : ppr.pingTimer = none := by
    cases hl : ppr.pingTimer with
    | none => rfl
    | some l => have := (h.pingTimer p ppr l hpp hl).2.1; rw [hs] at this; cases this
  have hko := fun t' k hk' => kill_other htm .cancelled (by simp) (w' := acceptW w p ppr c.alarm tm st) rfl hpe t' k hk'
  apply protoStep_inv h (acceptW w p ppr c.alarm tm st) p ppr { ppr with state := st } hpp rfl rfl rfl rfl rfl rfl rfl rfl rfl rfl
  · intro q; simp only [acceptW, Dict.get?_set]
  · intro t' q rid; exact hko _ _ (by simp)
  · intro t' cr'; exact fun hp' => ((kill_pending htm .cancelled (by simp) rfl t' _).mp hp').1
  · intro t' cr' c' hc' hpr' hp'
    by_cases hcc : cr' = cr
    · subst hcc; rw [hc] at hc'; injection hc' with hc'; subst hc'; exact absurd ip hpr'
    · exact (hko _ _ (by simp [hcc])).mpr hp'
  · intro t' q _; exact hko _ _ (by simp)
  · intro t' q _; exact hko _ _ (by simp)
  · exact kill_fresh h htm _ rfl rfl
  · rfl
  · exact id
  · intro hl; rw [hnl] at hl; cases hl
  · intro hs' hx _
    rcases hst with hst | ⟨_, hst⟩
    · rw [hst] at hs'; cases hs'
    · exact absurd hst.symm hx
  · intro t' ht'; exact (hko _ _ (by simp)).mpr (h.pingAlarm p ppr t' hpp ht')
  · intro l hl; rw [hpt] at hl; cases hl
  · intro t' hp'
    obtain ⟨pr, a, b⟩ := h.pingAlarmOwned t' p ((hko _ _ (by simp)).mp hp')
    rw [hpp] at a; injection a with a; subst a; exact b
  · intro t' hp'
    obtain ⟨pr, l, a, b, _⟩ := h.pingLoopOwned t' p ((hko _ _ (by simp)).mp hp')
    rw [hpp] at a; injection a with a; subst a
    rw [hpt] at b; cases b
  · intro hs'
    rcases hst with hst | ⟨hst, _⟩ <;> · rw [hst] at hs'; cases hs'
  · intro t' cr' c' hp' hc' hown
    have hp2 := (kill_pending htm .cancelled (by simp) rfl t' _).mp hp'
    obtain ⟨c2, d2, a1, a2, a3, a4, pr, a5, a6⟩ := h.connackOwned t' cr' hp2.1
    rw [hc'] at a1; injection a1 with a1; subst a1
    rw [hown, hpp] at a5; injection a5 with a5; subst a5
    rcases a6 with a6 | ⟨_, a6⟩
    · rw [hnl] at a6; cases a6
    · rw [hcq] at a6; injection a6 with a6; subst a6
      rw [hc] at hc'; injection hc' with hc'; subst hc'
      exact absurd a4.symm hp2.2
  · intro cr' c' hcq'; exact h.connReqLive p ppr cr' c' hpp hcq'
  · intro cr' hcq'; exact h.connReqRef p ppr cr' hpp hcq'
  · exact h.bufOk p ppr hpp

/-! ### keepalive -/

def loopOnW (w : World) (p : Nat) (ppr : Proto) (ka : Nat) : World :=
  { w with protos := w.protos.set p { ppr with pingKeepalive := some ka, pingTimer := some ⟨true, ka, none⟩ } }

/-- the LoopingCall is created (CONNACK with a keepalive) -/
theorem loopOn_inv {x : Option Nat} {w : World} (h : WInvX x w) (p : Nat) (ppr : Proto) (hpp : w.protos.get? p = some ppr)
    (hs : ppr.state = .connected) (hpt : ppr.pingTimer = none) (ka : Nat) : WInvX x (loopOnW w p ppr ka) := by
  have hnl : ppr.lost = false := by
    cases hl : ppr.lost with
    | false => rfl
    | true => have := (h.lostIdle p ppr hpp hl).1; rw [hs] at this; cases this
  apply protoStep_inv h (loopOnW w p ppr ka) p ppr { ppr with pingKeepalive := some ka, pingTimer := some ⟨true, ka, none⟩ } hpp
    rfl rfl rfl rfl rfl rfl rfl rfl rfl rfl
  · intro q; simp only [loopOnW, Dict.get?_set]
  · intro _ _ _; exact Iff.rfl
  · intro _ _; exact id
  · intro _ _ _ _ _; exact id
  · intro _ _ _; exact Iff.rfl
  · intro _ _ _; exact Iff.rfl
  · exact h.timerFresh
  · rfl
  · exact id
  · intro hl; rw [hnl] at hl; cases hl
  · intro hs' hx hl; exact h.connected p ppr hpp hx hl hs
  · intro t' ht'; exact h.pingAlarm p ppr t' hpp ht'
  · intro l hl
    injection hl with hl; subst hl
    exact ⟨rfl, hs, by simp, fun t ht => by cases ht⟩
  · intro t' hp'
    obtain ⟨pr, a, b⟩ := h.pingAlarmOwned t' p hp'
    rw [hpp] at a; injection a with a; subst a; exact b
  · intro t' hp'
    obtain ⟨pr, l, a, b, _⟩ := h.pingLoopOwned t' p hp'
    rw [hpp] at a; injection a with a; subst a
    rw [hpt] at b; cases b
  · intro hs'; rw [hs] at hs'; cases hs'
  · intro t' cr' c' hp' hc' hown
    obtain ⟨c2, d2, a1, a2, a3, a4, pr, a5, a6⟩ := h.connackOwned t' cr' (hp')
    rw [hc'] at a1; injection a1 with a1; subst a1
    rw [hown, hpp] at a5; injection a5 with a5; subst a5
    exact a6
  · intro cr' c' hcq'; exact h.connReqLive p ppr cr' c' hpp hcq'
  · intro cr' hcq'; exact h.connReqRef p ppr cr' hpp hcq'
  · exact h.bufOk p ppr hpp

def pingArmW (w : World) (p : Nat) (ppr : Proto) (due : Nat) (log' : List Obs) : World :=
  { w with timers := w.timers.set w.nextTimer ⟨due, .pingAlarm p, .pending⟩, nextTimer := w.nextTimer + 1,
           protos := w.protos.set p { ppr with pingAlarm := some w.nextTimer }, log := log' }

/-- `doPingRequest` arms the PINGRESP alarm -/
theorem pingArm_inv {x : Option Nat} {w : World} (h : WInvX x w) (p : Nat) (ppr : Proto) (hpp : w.protos.get? p = some ppr)
    (hpa : ppr.pingAlarm = none) (hnl : ppr.lost = false) (due : Nat) (log' : List Obs) : WInvX x (pingArmW w p ppr due log') := by
  have hao := fun t' k hk' => add_other h due (.pingAlarm p) (w' := pingArmW w p ppr due log') rfl t' k hk'
  have hap := add_pending h due (.pingAlarm p) (w' := pingArmW w p ppr due log') rfl
  apply protoStep_inv h (pingArmW w p ppr due log') p ppr { ppr with pingAlarm := some w.nextTimer } hpp rfl rfl rfl rfl rfl rfl rfl rfl rfl rfl
  · intro q; simp only [pingArmW, Dict.get?_set]
  · intro t' q rid; exact hao _ _ (by simp)
  · intro t' cr'; exact (hao _ _ (by simp)).mp
  · intro t' cr' _ _ _; exact (hao _ _ (by simp)).mpr
  · intro t' q hq; exact hao _ _ (by simp; exact hq)
  · intro t' q _; exact hao _ _ (by simp)
  · exact add_fresh h _ rfl rfl
  · rfl
  · exact id
  · intro hl; rw [hnl] at hl; cases hl
  · intro hs' hx hl; exact h.connected p ppr hpp hx hl hs'
  · intro t' ht'; injection ht' with ht'; subst ht'; exact (hap _ _).mpr (Or.inr ⟨rfl, rfl⟩)
  · intro l hl
    obtain ⟨a1, a2, a3, a4⟩ := h.pingTimer p ppr l hpp hl
    exact ⟨a1, a2, a3, fun t' ht' => (hao _ _ (by simp)).mpr (a4 t' ht')⟩
  · intro t' hp'
    rcases (hap _ _).mp hp' with hp1 | ⟨hp1, _⟩
    · obtain ⟨pr, a, b⟩ := h.pingAlarmOwned t' p hp1
      rw [hpp] at a; injection a with a; subst a
      rw [hpa] at b; cases b
    · rw [hp1]
  · intro t' hp'
    obtain ⟨pr, l, a, b, c⟩ := h.pingLoopOwned t' p ((hao _ _ (by simp)).mp hp')
    rw [hpp] at a; injection a with a; subst a
    exact ⟨l, b, c⟩
  · intro hs'
    obtain ⟨cr, c, i1, i2, ip, i3⟩ := h.connecting p ppr hpp hs'
    exact ⟨cr, c, i1, i2, ip, fun d hd => ⟨(i3 d hd).1, (hao _ _ (by simp)).mpr (i3 d hd).2⟩⟩
  · intro t' cr' c' hp' hc' hown
    obtain ⟨c2, d2, a1, a2, a3, a4, pr, a5, a6⟩ := h.connackOwned t' cr' ((hao _ _ (by simp)).mp hp')
    rw [hc'] at a1; injection a1 with a1; subst a1
    rw [hown, hpp] at a5; injection a5 with a5; subst a5
    exact a6
  · intro cr' c' hcq'; exact h.connReqLive p ppr cr' c' hpp hcq'
  · intro cr' hcq'; exact h.connReqRef p ppr cr' hpp hcq'
  · exact h.bufOk p ppr hpp

def loopSchedW (w : World) (p : Nat) (ppr : Proto) (l : Loop) (due : Nat) : World :=
  { w with timers := w.timers.set w.nextTimer ⟨due, .pingLoop p, .pending⟩, nextTimer := w.nextTimer + 1,
           protos := w.protos.set p { ppr with pingTimer := some { l with call := some w.nextTimer } } }

/-- the LoopingCall schedules its next run -/
theorem loopSched_inv {x : Option Nat} {w : World} (h : WInvX x w) (p : Nat) (ppr : Proto) (hpp : w.protos.get? p = some ppr)
    (l : Loop) (hl : ppr.pingTimer = some l) (hcall : l.call = none) (due : Nat) : WInvX x (loopSchedW w p ppr l due) := by
  obtain ⟨b1, b2, b3, _⟩ := h.pingTimer p ppr l hpp hl
  have hnl : ppr.lost = false := by
    cases hl' : ppr.lost with
    | false => rfl
    | true => have := (h.lostIdle p ppr hpp hl').1; rw [b2] at this; cases this
  have hao := fun t' k hk' => add_other h due (.pingLoop p) (w' := loopSchedW w p ppr l due) rfl t' k hk'
  have hap := add_pending h due (.pingLoop p) (w' := loopSchedW w p ppr l due) rfl
  apply protoStep_inv h (loopSchedW w p ppr l due) p ppr { ppr with pingTimer := some { l with call := some w.nextTimer } } hpp
    rfl rfl rfl rfl rfl rfl rfl rfl rfl rfl
  · intro q; simp only [loopSchedW, Dict.get?_set]
  · intro t' q rid; exact hao _ _ (by simp)
  · intro t' cr'; exact (hao _ _ (by simp)).mp
  · intro t' cr' _ _ _; exact (hao _ _ (by simp)).mpr
  · intro t' q _; exact hao _ _ (by simp)
  · intro t' q hq; exact hao _ _ (by simp; exact hq)
  · exact add_fresh h _ rfl rfl
  · rfl
  · exact id
  · intro hl'; rw [hnl] at hl'; cases hl'
  · intro hs' hx hl'; exact h.connected p ppr hpp hx hl' hs'
  · intro t' ht'; exact (hao _ _ (by simp)).mpr (h.pingAlarm p ppr t' hpp ht')
  · intro l' hl'
    injection hl' with hl'; subst hl'
    exact ⟨b1, b2, b3, fun t ht => by injection ht with ht; subst ht; exact (hap _ _).mpr (Or.inr ⟨rfl, rfl⟩)⟩
  · intro t' hp'
    obtain ⟨pr, a, b⟩ := h.pingAlarmOwned t' p ((hao _ _ (by simp)).mp hp')
    rw [hpp] at a; injection a with a; subst a; exact b
  · intro t' hp'
    rcases (hap _ _).mp hp' with hp1 | ⟨hp1, _⟩
    · obtain ⟨pr, l', a, b, c⟩ := h.pingLoopOwned t' p hp1
      rw [hpp] at a; injection a with a; subst a
      rw [hl] at b; injection b with b; subst b
      rw [hcall] at c; cases c
    · exact ⟨_, rfl, by rw [hp1]⟩
  · intro hs'; rw [b2] at hs'; cases hs'
  · intro t' cr' c' hp' hc' hown
    obtain ⟨c2, d2, a1, a2, a3, a4, pr, a5, a6⟩ := h.connackOwned t' cr' ((hao _ _ (by simp)).mp hp')
    rw [hc'] at a1; injection a1 with a1; subst a1
    rw [hown, hpp] at a5; injection a5 with a5; subst a5
    exact a6
  · intro cr' c' hcq'; exact h.connReqLive p ppr cr' c' hpp hcq'
  · intro cr' hcq'; exact h.connReqRef p ppr cr' hpp hcq'
  · exact h.bufOk p ppr hpp

def loopKillW (w : World) (p : Nat) (ppr : Proto) (t : Nat) (tm : Timer) (st : TStatus) (pt : Option Loop) (now' : Nat) : World :=
  { w with timers := w.timers.set t { tm with status := st }, protos := w.protos.set p { ppr with pingTimer := pt }, now := now' }

/-- the scheduled run of the LoopingCall has fired (`call := none`) or the loop is stopped and dropped (`pingTimer := none`) -/
theorem loopKill_inv {x : Option Nat} {w : World} (h : WInvX x w) (p : Nat) (ppr : Proto) (hpp : w.protos.get? p = some ppr)
    (l : Loop) (hl : ppr.pingTimer = some l) (t : Nat) (hcall : l.call = some t) (st : TStatus) (hst : st ≠ .pending)
    (pt : Option Loop) (hptv : pt = none ∨ pt = some { l with call := none }) (now' : Nat) :
    ∃ tm, w.timers.get? t = some tm ∧ tm.status = .pending ∧ WInvX x (loopKillW w p ppr t tm st pt now') := by
  obtain ⟨b1, b2, b3, b4⟩ := h.pingTimer p ppr l hpp hl
  obtain ⟨tm, htm, hts, hk⟩ := b4 t hcall
  have hpe : Pending w t (.pingLoop p) := ⟨tm, htm, hts, hk⟩
  refine ⟨tm, htm, hts, ?_⟩
  have hnl : ppr.lost = false := by
    cases hl' : ppr.lost with
    | false => rfl
    | true => have := (h.lostIdle p ppr hpp hl').1; rw [b2] at this; cases this
  have hko := fun t' k hk' => kill_other htm st hst (w' := loopKillW w p ppr t tm st pt now') rfl hpe t' k hk'
  apply protoStep_inv h (loopKillW w p ppr t tm st pt now') p ppr { ppr with pingTimer := pt } hpp rfl rfl rfl rfl rfl rfl rfl rfl rfl rfl
  · intro q; simp only [loopKillW, Dict.get?_set]
  · intro t' q rid; exact hko _ _ (by simp)
  · intro t' cr'; exact (hko _ _ (by simp)).mp
  · intro t' cr' _ _ _; exact (hko _ _ (by simp)).mpr
  · intro t' q _; exact hko _ _ (by simp)
  · intro t' q hq; exact hko _ _ (by simp; exact hq)
  · exact kill_fresh h htm _ rfl rfl
  · rfl
  · exact id
  · intro hl'; rw [hnl] at hl'; cases hl'
  · intro hs' hx hl'; exact h.connected p ppr hpp hx hl' hs'
  · intro t' ht'; exact (hko _ _ (by simp)).mpr (h.pingAlarm p ppr t' hpp ht')
  · intro l' hl'
    rcases hptv with hptv | hptv
    · rw [hptv] at hl'; cases hl'
    · rw [hptv] at hl'; injection hl' with hl'; subst hl'
      exact ⟨b1, b2, b3, fun t' ht' => by cases ht'⟩
  · intro t' hp'
    obtain ⟨pr, a, b⟩ := h.pingAlarmOwned t' p ((hko _ _ (by simp)).mp hp')
    rw [hpp] at a; injection a with a; subst a; exact b
  · intro t' hp'
    have hp2 := (kill_pending htm st hst rfl t' _).mp hp'
    obtain ⟨pr, l', a, b, c⟩ := h.pingLoopOwned t' p hp2.1
    rw [hpp] at a; injection a with a; subst a
    rw [hl] at b; injection b with b; subst b
    rw [hcall] at c; injection c with c
    exact absurd c.symm hp2.2
  · intro hs'; rw [b2] at hs'; cases hs'
  · intro t' cr' c' hp' hc' hown
    obtain ⟨c2, d2, a1, a2, a3, a4, pr, a5, a6⟩ := h.connackOwned t' cr' ((hko _ _ (by simp)).mp hp')
    rw [hc'] at a1; injection a1 with a1; subst a1
    rw [hown, hpp] at a5; injection a5 with a5; subst a5
    exact a6
  · intro cr' c' hcq'; exact h.connReqLive p ppr cr' c' hpp hcq'
  · intro cr' hcq'; exact h.connReqRef p ppr cr' hpp hcq'
  · exact h.bufOk p ppr hpp

def loopDropW (w : World) (p : Nat) (ppr : Proto) : World :=
  { w with protos := w.protos.set p { ppr with pingTimer := none } }

/-- a LoopingCall that has nothing scheduled is dropped -/
theorem loopDrop_inv {x : Option Nat} {w : World} (h : WInvX x w) (p : Nat) (ppr : Proto) (hpp : w.protos.get? p = some ppr)
    (hidle : ∀ l, ppr.pingTimer = some l → l.call = none) : WInvX x (loopDropW w p ppr) := by
  apply protoStep_inv h (loopDropW w p ppr) p ppr { ppr with pingTimer := none } hpp rfl rfl rfl rfl rfl rfl rfl rfl rfl rfl
  · intro q; simp only [loopDropW, Dict.get?_set]
  · intro _ _ _; exact Iff.rfl
  · intro _ _; exact id
  · intro _ _ _ _ _; exact id
  · intro _ _ _; exact Iff.rfl
  · intro _ _ _; exact Iff.rfl
  · exact h.timerFresh
  · rfl
  · exact id
  · intro hl
    have := h.lostIdle p ppr hpp hl
    have hr := h.retryLive
    grind
  · intro hs' hx hl; exact h.connected p ppr hpp hx hl hs'
  · intro t' ht'; exact h.pingAlarm p ppr t' hpp ht'
  · intro l hl; cases hl
  · intro t' hp'
    obtain ⟨pr, a, b⟩ := h.pingAlarmOwned t' p hp'
    rw [hpp] at a; injection a with a; subst a; exact b
  · intro t' hp'
    obtain ⟨pr, l, a, b, c⟩ := h.pingLoopOwned t' p hp'
    rw [hpp] at a; injection a with a; subst a
    rw [hidle l b] at c; cases c
  · intro hs'; exact h.connecting p ppr hpp hs'
  · intro t' cr' c' hp' hc' hown
    obtain ⟨c2, d2, a1, a2, a3, a4, pr, a5, a6⟩ := h.connackOwned t' cr' (hp')
    rw [hc'] at a1; injection a1 with a1; subst a1
    rw [hown, hpp] at a5; injection a5 with a5; subst a5
    exact a6
  · intro cr' c' hcq'; exact h.connReqLive p ppr cr' c' hpp hcq'
  · intro cr' hcq'; exact h.connReqRef p ppr cr' hpp hcq'
  · exact h.bufOk p ppr hpp

def connDoneW (w : World) (p : Nat) (ppr : Proto) (d : Nat) (o : Obs) : World :=
  { w with fired := d :: w.fired, log := w.log ++ [o], protos := w.protos.set p { ppr with connReq := none } }

/-- the Deferred of the handshake fires and the protocol forgets the request -/
theorem connDone_inv {x : Option Nat} {w : World} (h : WInvX x w) (p : Nat) (ppr : Proto) (hpp : w.protos.get? p = some ppr)
    (hs : ppr.state ≠ .connecting) (cr : Nat) (c : ConnReq) (hcq : ppr.connReq = some cr) (hc : w.connReqs.get? cr = some c)
    (d : Nat) (hd : c.dfd = some d) (hnl : ppr.lost = false) (o : Obs) :
    d ∉ w.fired ∧ WInvX x (connDoneW w p ppr d o) := by
  obtain ⟨hown, hnf⟩ := h.connReqLive p ppr cr c hpp hcq hc
  have hnp : ∀ t, ¬ Pending w t (.connack cr) := by
    intro t hp'
    obtain ⟨c2, d2, a1, a2, a3, a4, pr, a5, a6⟩ := h.connackOwned t cr hp'
    rw [hc] at a1; injection a1 with a1; subst a1
    rw [hown, hpp] at a5; injection a5 with a5; subst a5
    rcases a6 with a6 | ⟨a6, _⟩
    · rw [hnl] at a6; cases a6
    · exact hs a6
  have hnf := hnf d hd
  refine ⟨hnf, ?_⟩
  have h1 : WInvX x { w with protos := w.protos.set p { ppr with connReq := none } } := by
    apply protoStep_inv h ({ w with protos := w.protos.set p { ppr with connReq := none } } : World) p ppr { ppr with connReq := none } hpp
      rfl rfl rfl rfl rfl rfl rfl rfl rfl rfl
    · intro q; simp only [Dict.get?_set]
    · intro _ _ _; exact Iff.rfl
    · intro _ _; exact id
    · intro _ _ _ _ _; exact id
    · intro _ _ _; exact Iff.rfl
    · intro _ _ _; exact Iff.rfl
    · exact h.timerFresh
    · rfl
    · exact id
    · intro hl
      have := h.lostIdle p ppr hpp hl
      have hr := h.retryLive
      grind
    · intro hs' hx hl; exact h.connected p ppr hpp hx hl hs'
    · intro t' ht'; exact h.pingAlarm p ppr t' hpp ht'
    · intro l hl; exact h.pingTimer p ppr l hpp hl
    · intro t' hp'
      obtain ⟨pr, a, b⟩ := h.pingAlarmOwned t' p hp'
      rw [hpp] at a; injection a with a; subst a; exact b
    · intro t' hp'
      obtain ⟨pr, l, a, b, c⟩ := h.pingLoopOwned t' p hp'
      rw [hpp] at a; injection a with a; subst a
      exact ⟨l, b, c⟩
    · intro hs'; exact absurd hs' hs
    · intro t' cr' c' hp' hc' hown
      obtain ⟨c2, d2, a1, a2, a3, a4, pr, a5, a6⟩ := h.connackOwned t' cr' hp'
      rw [hc'] at a1; injection a1 with a1; subst a1
      rw [hown, hpp] at a5; injection a5 with a5; subst a5
      rcases a6 with a6 | ⟨a6, _⟩
      · exact Or.inl a6
      · exact absurd a6 hs
    · intro cr' c' hcq'; cases hcq'
    · intro cr' hcq'; cases hcq'
    · exact h.bufOk p ppr hpp
  have hd1 := (h.connReq cr c d hc hd hnf)
  have h2 := fireD_inv h1 (d := d) hd1.1 hd1.2
    (by
      intro t cr' c' hp' hc' hcd
      have hp'' : Pending w t (.connack cr') := hp'
      have hc'' : w.connReqs.get? cr' = some c' := hc'
      have := h.connReqInj cr cr' c c' d hc hc'' hd hcd
      subst this
      exact hnp t hp'')
    (by
      intro q qr cr' c' hq hcq' hc' hcd
      have hc'' : w.connReqs.get? cr' = some c' := hc'
      have hcc := h.connReqInj cr cr' c c' d hc hc'' hd hcd
      subst hcc
      rw [hc] at hc''; injection hc'' with hc''; subst hc''
      simp only [Dict.get?_set] at hq
      by_cases hqp : p = q
      · subst hqp; simp only [↓reduceIte] at hq; injection hq with hq; subst hq; cases hcq'
      · simp only [hqp, ↓reduceIte] at hq
        have := (h.connReqLive q qr cr c hq hcq' hc).1
        rw [hown] at this; exact hqp this)
    o
  exact h2

end Mqtt
