import MqttVerif.Proofs.Addr
/-
  C19 / C14: a handler writes to no protocol object but the one that runs it.  `PF p s`: every protocol object other than `p`
  (state, version, buffer, window, session mode, keepalive objects, handlers, handshake reference, `lost`) is the same after `s`.
  Closed under the `Step` combinators; the only primitive that writes a protocol object is `setProto`, and every handler of `p`
  calls it with `p`.  No invariant, no `Env`.
-/
namespace Mqtt

/-- `s` leaves every protocol object other than `p` exactly as it is -/
def PF (p : Nat) (s : Step) : Prop := ∀ w q, q ≠ p → (s w).1.protos.get? q = w.protos.get? q

section pf
variable {p : Nat}

theorem pf_ok : PF p Step.ok := fun _ _ _ => rfl
theorem pf_raise (e : Err) : PF p (Step.raise e) := fun _ _ _ => rfl
theorem pf_seq {a b : Step} (ha : PF p a) (hb : PF p b) : PF p (a ;; b) := by
  intro w q hq
  simp only [Step.seq]
  rcases hw : a w with ⟨w1, _ | e⟩
  · have := ha w q hq; rw [hw] at this
    simp only; rw [hb w1 q hq]; exact this
  · have := ha w q hq; rw [hw] at this; exact this
theorem pf_read {f : World → Step} (hf : ∀ w, PF p (f w)) : PF p (Step.read f) := fun w => hf w w
theorem pf_mod {f : World → World} (hf : ∀ w, (f w).protos = w.protos) : PF p (Step.mod f) := fun w q _ => by
  show (f w).protos.get? q = _; rw [hf]
theorem pf_setProto (f : Proto → Proto) : PF p (setProto p f) := by
  intro w q hq
  simp only [setProto, Step.mod, Dict.get?_set]
  rw [if_neg (fun h => hq h.symm)]
theorem pf_emit (o : Obs) : PF p (emit o) := pf_mod fun _ => rfl
theorem pf_write (q : Nat) (b : Bytes) : PF p (write q b) := pf_mod fun _ => rfl
theorem pf_abort (q : Nat) : PF p (abort q) := pf_mod fun _ => rfl
theorem pf_setEnts (f : List Ent → List Ent) : PF p (setEnts f) := pf_mod fun _ => rfl
theorem pf_setReq (r : Nat) (f : Req → Req) : PF p (setReq r f) := pf_mod fun _ => rfl
theorem pf_callLater (d : Rat) (k : TKind) {c : Nat → Step} (hc : ∀ t, PF p (c t)) : PF p (callLater d k c) :=
  pf_read fun _ => pf_seq (pf_mod fun _ => rfl) (hc _)
theorem pf_newDfd {c : Nat → Step} (hc : ∀ t, PF p (c t)) : PF p (newDfd c) :=
  pf_read fun _ => pf_seq (pf_mod fun _ => rfl) (hc _)
theorem pf_makeId {c : Nat → Step} (hc : ∀ t, PF p (c t)) : PF p (makeId c) :=
  pf_read fun _ => pf_seq (pf_mod fun _ => rfl) (hc _)
theorem pf_cancelTimer (t : Nat) : PF p (cancelTimer t) := by
  apply pf_read; intro w
  split
  · exact pf_raise _
  · split
    · exact pf_mod fun _ => rfl
    · exact pf_raise _
    · exact pf_raise _
theorem pf_cancelAlarm (a : Option Nat) : PF p (cancelAlarm a) := by
  cases a with
  | none => exact pf_raise _
  | some t => exact pf_cancelTimer t
theorem pf_fireDfd (d : Nat) (o : Outcome) : PF p (fireDfd d o) := by
  apply pf_read; intro w
  split
  · exact pf_raise _
  · exact pf_seq (pf_mod fun _ => rfl) (pf_emit _)
theorem pf_fireReqDfd (d : Option Nat) (o : Outcome) : PF p (fireReqDfd d o) := by
  cases d with
  | none => exact pf_raise _
  | some d => exact pf_fireDfd d o
theorem pf_forEach {α : Type} (l : List α) {f : α → Step} (hf : ∀ a, PF p (f a)) : PF p (forEach l f) := by
  induction l with
  | nil => exact pf_ok
  | cons a r ih => exact pf_seq (hf a) ih
theorem pf_retryPublish (q rid : Nat) (dup : Bool) : PF p (retryPublish q rid dup) := pf_mod fun w => retryPublishW_protos q rid dup w
theorem pf_retryRelease (q rid : Nat) (dup : Bool) : PF p (retryRelease q rid dup) := pf_mod fun w => retryReleaseW_protos q rid dup w
theorem pf_retrySubUnsub (q rid : Nat) (dup s : Bool) : PF p (retrySubUnsub q rid dup s) := pf_mod fun w => retrySubUnsubW_protos q rid dup s w
theorem pf_refill (q : Nat) : PF p (refill q) := pf_mod fun w => refillW_protos q false _ w
theorem foldRel_protos (q : Nat) (l : List Ent) : ∀ (w : World),
    (l.foldl (fun w e => if (w.req e.rid).alarm = none then retryReleaseW q e.rid true w else w) w).protos = w.protos := by
  induction l with
  | nil => intro w; rfl
  | cons e r ih =>
    intro w
    simp only [List.foldl]
    rw [ih]
    split
    · exact retryReleaseW_protos _ _ _ _
    · rfl
theorem foldPub_protos (q : Nat) (l : List Ent) : ∀ (w : World),
    (l.foldl (fun w e => if (w.req e.rid).alarm = none then retryPublishW q e.rid true w else w) w).protos = w.protos := by
  induction l with
  | nil => intro w; rfl
  | cons e r ih =>
    intro w
    simp only [List.foldl]
    rw [ih]
    split
    · exact retryPublishW_protos _ _ _ _
    · rfl
theorem pf_syncSession (q : Nat) : PF p (syncSession q) := pf_mod fun w => by simp only [syncW]; rw [foldPub_protos, foldRel_protos]

macro "pf_step" : tactic => `(tactic| first
  | with_reducible exact pf_ok | with_reducible exact pf_raise _ | with_reducible exact pf_emit _
  | with_reducible exact pf_write _ _ | with_reducible exact pf_abort _ | with_reducible exact pf_setProto _ | with_reducible exact pf_setEnts _
  | with_reducible exact pf_setReq _ _
  | with_reducible exact pf_cancelTimer _ | with_reducible exact pf_cancelAlarm _
  | with_reducible exact pf_fireDfd _ _ | with_reducible exact pf_fireReqDfd _ _
  | with_reducible exact pf_refill _ | with_reducible exact pf_syncSession _
  | with_reducible exact pf_retryPublish _ _ _ | with_reducible exact pf_retryRelease _ _ _
  | with_reducible exact pf_retrySubUnsub _ _ _ _
  | ((with_reducible apply pf_mod); (intro w; rfl))
  | with_reducible apply pf_seq | ((with_reducible apply pf_read); intro w) | ((with_reducible apply pf_callLater); intro t)
  | ((with_reducible apply pf_newDfd); intro t) | ((with_reducible apply pf_makeId); intro t)
  | ((with_reducible apply pf_forEach); intro e)
  | split
  | dsimp only)
macro "pfs" : tactic => `(tactic| repeat pf_step)

theorem pf_deliver (m : RxMsg) : PF p (deliver p m) := by unfold deliver; pfs
theorem pf_drainQueue (r : Err) (fuel : Nat) : PF p (drainQueue p r fuel) := by
  induction fuel with
  | zero => exact pf_ok
  | succ f ih =>
    unfold drainQueue
    apply pf_read; intro w
    split
    · exact pf_ok
    · apply pf_seq (pf_setEnts _)
      apply pf_seq
      · split
        · exact pf_fireReqDfd _ _
        · exact pf_ok
      · exact ih
theorem pf_loopStop : PF p (loopStop p) := by unfold loopStop; pfs
theorem pf_cancelWindowAlarms (l : List Ent) : PF p (cancelWindowAlarms l) := by unfold cancelWindowAlarms; pfs
theorem pf_failWindow (s : Bool) (r : Err) : PF p (failWindow p s r) := by unfold failWindow; pfs
theorem pf_purgeSession (r : Err) : PF p (purgeSession p r) := by unfold purgeSession purgeWindow; pfs
theorem pf_doConnectionLost (r : Err) : PF p (doConnectionLost p r) := by
  unfold doConnectionLost
  apply pf_read; intro w
  refine pf_seq (pf_cancelWindowAlarms _) (pf_seq (pf_cancelWindowAlarms _) (pf_seq (pf_cancelWindowAlarms _) (pf_seq (pf_cancelWindowAlarms _)
    (pf_seq (pf_failWindow _ _) (pf_seq (pf_failWindow _ _) ?_)))))
  apply pf_read; intro w'
  split
  · exact pf_seq (pf_purgeSession _) (pf_read fun _ => pf_drainQueue _ _)
  · exact pf_ok
theorem pf_connectionLost (r : Err) : PF p (connectionLost p r) := by
  unfold connectionLost
  apply pf_read; intro w
  apply pf_seq
  · split
    · exact pf_ok
    · exact pf_seq pf_loopStop (pf_setProto _)
  apply pf_seq
  · split
    · exact pf_ok
    · exact pf_seq (pf_cancelTimer _) (pf_setProto _)
  apply pf_seq (pf_doConnectionLost r)
  apply pf_seq (pf_setProto _)
  pfs

theorem pf_doPingRequest : PF p (doPingRequest p) := by unfold doPingRequest; pfs
theorem pf_loopRun : PF p (loopRun p) := by
  intro w q hq
  have h1 : PF p (ping p) := by
    unfold ping
    apply pf_read; intro w
    split
    · exact pf_doPingRequest
    · exact pf_raise _
  have h1w := h1 w q hq
  unfold loopRun
  rcases hp : ping p w with ⟨w1, _ | e⟩
  · rw [hp] at h1w
    simp only
    have : PF p (Step.read fun w =>
      match (w.proto p).pingTimer with
      | some l =>
        if l.running then
          callLater l.interval (.pingLoop p) fun tid =>
            setProto p (fun pr => { pr with pingTimer := (pr.pingTimer.map fun l => { l with call := some tid }) })
        else Step.ok
      | none => Step.ok) := by pfs
    exact (this w1 q hq).trans h1w
  · rw [hp] at h1w
    simp only
    exact (pf_setProto _ w1 q hq).trans h1w
theorem pf_mqttConnectionMade : PF p (mqttConnectionMade p) := by
  unfold mqttConnectionMade
  apply pf_read; intro w
  refine pf_seq ?_ (pf_seq (pf_refill _) ?_)
  · split
    · exact pf_purgeSession _
    · exact pf_syncSession _
  · pfs
theorem pf_handleCONNACK (session : Bool) (rc : Nat) : PF p (handleCONNACK p session rc) := by
  unfold handleCONNACK
  apply pf_read; intro w
  split
  · exact pf_raise _
  · split
    · exact pf_raise _
    · split
      · exact pf_ok
      · refine pf_seq (pf_cancelTimer _) (pf_seq ?_ (pf_setProto _))
        split
        · refine pf_seq (pf_setProto _) (pf_seq pf_mqttConnectionMade (pf_seq ?_ (pf_fireDfd _ _)))
          split
          · exact pf_seq (pf_setProto _) pf_loopRun
          · exact pf_ok
        · exact pf_seq (pf_setProto _) (pf_fireDfd _ _)
theorem pf_handlePINGRESP : PF p (handlePINGRESP p) := by unfold handlePINGRESP; pfs
theorem pf_handleSubUnsubAck (b : Bool) (m : Nat) (v : Val) : PF p (handleSubUnsubAck p b m v) := by unfold handleSubUnsubAck; pfs
theorem pf_handlePUBLISH (m : RxMsg) : PF p (handlePUBLISH p m) := by
  unfold handlePUBLISH
  split
  · exact pf_deliver _
  · split
    · split
      · exact pf_seq (pf_write _ _) (pf_deliver _)
      · exact pf_raise _
    · split
      · refine pf_seq (pf_mod fun _ => rfl) ?_
        split
        · exact pf_write _ _
        · exact pf_raise _
      · exact pf_ok
theorem pf_handlePUBREL (m : Nat) : PF p (handlePUBREL p m) := by
  unfold handlePUBREL
  apply pf_read; intro w
  refine pf_seq ?_ ?_
  · split
    · exact pf_ok
    · exact pf_seq (pf_mod fun _ => rfl) (pf_deliver _)
  · split
    · exact pf_write _ _
    · exact pf_raise _
theorem pf_handlePUBACK (m : Nat) : PF p (handlePUBACK p m) := by unfold handlePUBACK; pfs
theorem pf_handlePUBREC (m : Nat) : PF p (handlePUBREC p m) := by
  unfold handlePUBREC
  generalize encodePUBREL (m : Int) = E
  apply pf_read; intro w
  split
  · exact pf_ok
  · split
    · exact pf_ok
    · apply pf_seq (pf_cancelAlarm _)
      apply pf_seq (pf_setEnts _)
      cases E with
      | error e => exact pf_raise _
      | ok bs =>
        refine pf_read fun w' => ?_
        exact pf_seq (pf_mod fun _ => rfl) (pf_seq (pf_setEnts _) (pf_retryRelease _ _ _))
theorem pf_handlePUBCOMP (m : Nat) : PF p (handlePUBCOMP p m) := by unfold handlePUBCOMP; pfs
theorem pf_processPacket (pkt : Bytes) : PF p (processPacket p pkt) := by
  unfold processPacket
  split
  · exact pf_raise _
  · dsimp only
    split
    · exact pf_abort _
    · split
      · exact pf_abort _
      · apply pf_read; intro w
        split
        all_goals (try exact pf_abort _)
        all_goals (split <;> (try split) <;> first
          | exact pf_abort _ | exact pf_ok | exact pf_handleCONNACK _ _ | exact pf_handlePINGRESP
          | exact pf_handleSubUnsubAck _ _ _ | exact pf_handlePUBLISH _ | exact pf_handlePUBACK _
          | exact pf_handlePUBREC _ | exact pf_handlePUBREL _ | exact pf_handlePUBCOMP _)
theorem pf_accumulate (fuel : Nat) : PF p (accumulate p fuel) := by
  induction fuel with
  | zero => exact pf_ok
  | succ f ih =>
    unfold accumulate
    apply pf_read; intro w
    split
    · exact pf_ok
    · exact pf_seq (pf_processPacket _) (pf_seq (pf_setProto _) ih)
theorem pf_dataReceived (d : Bytes) : PF p (dataReceived p d) := by
  unfold dataReceived
  exact pf_seq (pf_setProto _) (pf_read fun _ => pf_accumulate _)
theorem pf_runTimer (k : TKind) (hk : k.on p) : PF p (runTimer k) := by
  cases k with
  | connack cr => unfold runTimer; pfs
  | pingLoop q => cases hk; exact pf_seq (pf_setProto _) pf_loopRun
  | pingAlarm q => cases hk; exact pf_seq (pf_setProto _) (pf_abort _)
  | retry q rid => unfold runTimer; pfs
  | onDisc q r => exact pf_emit _
theorem pf_registerSubUnsub (s : Bool) (i : Nat) (bs : Bytes) : PF p (registerSubUnsub p s i bs) := by unfold registerSubUnsub; pfs

/-- **a protocol object is written by its own handlers only**: an operation run by protocol `p` -- any API call, received bytes,
    the loss report, any of its timers -- leaves every other protocol object of the factory (of the same or another address)
    exactly as it was; `buildProtocol` adds one and touches none; the handshake timeout touches none -/
theorem step_protos (w : World) (op : Op) (q : Nat)
    (hq : match op.proto? w with | some p => q ≠ p | none => (∀ a, op = .build a → q ≠ w.nextProto)) :
    (step w op).protos.get? q = w.protos.get? q := by
  have hstep : ∀ (s : Step), (s w).1.protos.get? q = w.protos.get? q → (match s w with
      | (w', none) => w'
      | (w', some e) => { w' with log := w'.log ++ [if op.isReactor then Obs.esc e else Obs.raised e] }).protos.get? q = w.protos.get? q := by
    intro s hs
    rcases hw : s w with ⟨w', _ | e⟩ <;> (rw [hw] at hs; exact hs)
  unfold step
  refine hstep op.handler ?_
  cases op with
  | build a =>
    have hq' : q ≠ w.nextProto := by simpa [Op.proto?] using hq a rfl
    show (w.protos.set w.nextProto { addr := a }).get? q = _
    rw [Dict.get?_set, if_neg (fun h => hq' h.symm)]
  | jit v => rfl
  | setid v => rfl
  | sethandlers p m => exact pf_setProto _ w q (by simpa [Op.proto?] using hq)
  | connect p a =>
    refine (?_ : PF p (apiConnect p a)) w q (by simpa [Op.proto?] using hq)
    unfold apiConnect
    generalize a.toF.encode = E
    apply pf_read; intro w
    split
    · exact pf_emit _
    · split
      · exact pf_emit _
      · cases E with
        | error e =>
          dsimp only
          split
          · exact pf_emit _
          · exact pf_raise _
        | ok pdu => dsimp only; pfs
  | disconnect p => refine (?_ : PF p (apiDisconnect p)) w q (by simpa [Op.proto?] using hq); unfold apiDisconnect; pfs
  | publish p t pl qs r =>
    refine (?_ : PF p (apiPublish p t pl qs r)) w q (by simpa [Op.proto?] using hq)
    intro w0
    rw [apiPublish_eq]
    have hmk : ∀ pr qn m d bs, PF p (mkStep p pr qn m d bs) := by intro pr qn m d bs; unfold mkStep; pfs
    split
    · exact pf_emit _ w0
    · split
      · exact pf_emit _ w0
      · split
        · cases encodePublishPy t pl 0 r none with
          | error e => exact pf_emit _ w0
          | ok bs => exact pf_seq (hmk _ _ _ _ _) (pf_emit _) w0
        · apply pf_makeId (c := _) ?_ w0
          intro i
          cases encodePublishPy t pl qs.toNat r (some (i : Int)) with
          | error e => exact pf_emit _
          | ok bs => exact pf_newDfd fun d => pf_seq (hmk _ _ _ _ _) (pf_emit _)
  | subscribe p a qs =>
    refine (?_ : PF p (apiSubscribe p a qs)) w q (by simpa [Op.proto?] using hq)
    unfold apiSubscribe
    apply pf_read; intro w
    cases a <;> dsimp only <;> (repeat' (first | with_reducible exact pf_emit _ | split)) <;>
      (refine pf_makeId fun i => ?_
       generalize encodeWithId 0x82 _ _ = E
       cases E with
       | error e => exact pf_emit _
       | ok bs => exact pf_registerSubUnsub _ _ _)
  | unsubscribe p a =>
    refine (?_ : PF p (apiUnsubscribe p a)) w q (by simpa [Op.proto?] using hq)
    unfold apiUnsubscribe
    apply pf_read; intro w
    split
    · exact pf_emit _
    · refine pf_makeId fun _ => pf_read fun w1 => ?_
      cases a <;> dsimp only <;> (repeat' (first | with_reducible exact pf_emit _ | split)) <;>
        (refine pf_makeId fun i => ?_
         generalize encodeWithId 0xA2 _ _ = E
         cases E with
         | error e => exact pf_emit _
         | ok bs => exact pf_registerSubUnsub _ _ _)
  | setwin p n => refine (?_ : PF p (apiSetWindow p n)) w q (by simpa [Op.proto?] using hq); unfold apiSetWindow; pfs
  | settimeout p n => refine (?_ : PF p (apiSetTimeout p n)) w q (by simpa [Op.proto?] using hq); unfold apiSetTimeout; pfs
  | setbw p b f => refine (?_ : PF p (apiSetBandwith p b f)) w q (by simpa [Op.proto?] using hq); unfold apiSetBandwith; pfs
  | recv p d => exact pf_dataReceived d w q (by simpa [Op.proto?] using hq)
  | lost p r => exact pf_connectionLost r w q (by simpa [Op.proto?] using hq)
  | fire t =>
    show (fireTimer t w).1.protos.get? q = _
    cases ht : w.timers.get? t with
    | none => simp only [fireTimer, Step.read, ht]; rfl
    | some tm =>
      have e : fireTimer t w = (if tm.status = TStatus.pending then
          Step.mod (fun w => { w with now := max w.now tm.due, timers := w.timers.set t { tm with status := .called } }) ;; runTimer tm.kind
        else emit .nofire) w := by simp only [fireTimer, Step.read, ht]
      rw [e]
      obtain ⟨p, hqp, hon⟩ : ∃ p, q ≠ p ∧ tm.kind.on p := by
        cases hop : Op.proto? w (.fire t) with
        | some p => rw [hop] at hq; exact ⟨p, hq, kind_on_of_proto? ht hop⟩
        | none =>
          refine ⟨q + 1, by omega, ?_⟩
          simp only [Op.proto?, ht] at hop
          cases hk : tm.kind <;> rw [hk] at hop <;> simp at hop
          trivial
      have : PF p (if tm.status = TStatus.pending then
          Step.mod (fun w => { w with now := max w.now tm.due, timers := w.timers.set t { tm with status := .called } }) ;; runTimer tm.kind
        else emit .nofire) := by
        split
        · exact pf_seq (pf_mod fun _ => rfl) (pf_runTimer _ hon)
        · exact pf_emit _
      exact this w q hqp

end pf

end Mqtt
