import MqttVerif.Proofs.EnvOk
/-
  "No Deferred is left hanging", continued (definitions in Proofs/Keeps.lean): every transition of the model is
  shown to keep owners (`Keeps`), so `Owned` -- every Deferred handed to the application and not yet fired is held by an
  unfinished request or handshake record -- is an invariant of every reachable world.
-/
namespace Mqtt

/-! ### acknowledgements: the entry leaves its window with its own Deferred fired (PUBACK, PUBCOMP, SUBACK, UNSUBACK) or moves,
    Deferred included, to the release window (PUBREC) -/

theorem handlePUBACK_kq {w : World} (h : WInv w) (p : Nat) (ppr : Proto) (hpp : w.protos.get? p = some ppr)
    (hlive : ppr.lost = false) (hconn : ppr.state = .connected) (m : Nat) : KQ w (handlePUBACK p m w).1 := by
  have hpa : w.paddr p = ppr.addr := by simp [World.paddr, getD_of_get? hpp]
  cases hl : Ents.lookup w.ents ppr.addr .pub m with
  | none => rw [handlePUBACK_unknown p m w (by rw [hpa]; exact hl)]; exact KQ.refl w
  | some rid =>
    by_cases hq1 : (w.req rid).qos = 1
    case neg => rw [handlePUBACK_wrong_qos p m rid w (by rw [hpa]; exact hl) hq1]; exact KQ.refl w
    obtain ⟨t, d, ht, hd, _, _, heq⟩ := handlePUBACK_effect h p ppr hpp hlive hconn m rid hl hq1
    rw [heq]
    intro hq
    have he := Ents.lookup_some hl
    have hb : (⟨ppr.addr, .pub, m, rid⟩ : Ent).box ≠ .queue := by simp
    obtain ⟨k1, q1⟩ := keeps_settle h he hb t d hd (.fired d (.ok (.int m)))
    have hS := settle_inv h he hb ht hd (.fired d (.ok (.int m)))
    obtain ⟨k2, q2⟩ := refillW_keeps p false ppr hlive _ hS hpp (q1 hq)
    exact ⟨k1.trans k2, q2⟩

theorem handlePUBCOMP_kq {w : World} (h : WInv w) (p : Nat) (ppr : Proto) (hpp : w.protos.get? p = some ppr)
    (hlive : ppr.lost = false) (hconn : ppr.state = .connected) (m : Nat) : KQ w (handlePUBCOMP p m w).1 := by
  have hpa : w.paddr p = ppr.addr := by simp [World.paddr, getD_of_get? hpp]
  cases hl : Ents.lookup w.ents ppr.addr .rel m with
  | none => rw [handlePUBCOMP_unknown p m w (by rw [hpa]; exact hl)]; exact KQ.refl w
  | some rid =>
    obtain ⟨t, d, ht, hd, _, _, heq⟩ := handlePUBCOMP_effect h p ppr hpp hlive hconn m rid hl
    rw [heq]
    intro hq
    have he := Ents.lookup_some hl
    have hb : (⟨ppr.addr, .rel, m, rid⟩ : Ent).box ≠ .queue := by simp
    obtain ⟨k1, q1⟩ := keeps_settle h he hb t d hd (.fired d (.ok (.int m)))
    have hS := settle_inv h he hb ht hd (.fired d (.ok (.int m)))
    obtain ⟨k2, q2⟩ := refillW_keeps p false ppr hlive _ hS hpp (q1 hq)
    exact ⟨k1.trans k2, q2⟩

theorem handleSubUnsubAck_kq {w : World} (h : WInv w) (p : Nat) (ppr : Proto) (hpp : w.protos.get? p = some ppr)
    (hlive : ppr.lost = false) (hconn : ppr.state = .connected) (isSub : Bool) (m : Nat) (v : Val) :
    KQ w (handleSubUnsubAck p isSub m v w).1 := by
  have hpa : w.paddr p = ppr.addr := by simp [World.paddr, getD_of_get? hpp]
  cases hl : Ents.lookup w.ents ppr.addr (if isSub then .sub else .unsub) m with
  | none => rw [handleSubUnsubAck_unknown p isSub m v w (by rw [hpa]; exact hl)]; exact KQ.refl w
  | some rid =>
    obtain ⟨t, d, ht, hd, _, _, heq⟩ := handleSubUnsubAck_effect h p ppr hpp hlive hconn isSub m rid v hl
    rw [heq]
    intro hq
    have he := Ents.lookup_some hl
    have hb : (⟨ppr.addr, if isSub then .sub else .unsub, m, rid⟩ : Ent).box ≠ .queue := by cases isSub <;> simp
    obtain ⟨k1, q1⟩ := keeps_settle h he hb t d hd (.fired d (.ok v))
    exact ⟨k1, q1 hq⟩

theorem afterPubrec_kq {w : World} (h : WInv w) (a m rid t : Nat) (bs : Bytes) (i : Nat) (he : (⟨a, .pub, m, rid⟩ : Ent) ∈ w.ents)
    (hq2 : (w.req rid).qos = 2) : KQ w (afterPubrec w a m rid t bs i) := by
  intro hq
  have hb : (⟨a, .pub, m, rid⟩ : Ent).box ≠ .queue := by simp
  have hmem := dropArmed_mem h he hb t
  have hk := h.keyId _ he hb
  -- the new request record sits at a fresh index: every request an entry refers to is untouched
  have hreq : ∀ y ∈ w.ents, (afterPubrec w a m rid t bs i).req y.rid = w.req y.rid := by
    intro y hy
    have := h.ridFresh y hy
    simp only [afterPubrec, World.req, dropArmed, Dict.get?_set]
    rw [if_neg (by omega)]
  have hnew : (afterPubrec w a m rid t bs i).req w.nextReq =
      { kind := .pubrel, msgId := m, qos := (w.req rid).qos, encoded := bs, dfd := (w.req rid).dfd, alarm := none, initial := i, ivValue := i, ivK := 1, bandwith := 1, factor := 1, seq := (w.req rid).seq } := by
    simp [afterPubrec, World.req, dropArmed, Dict.get?_set]
  have hents : ∀ y, y ∈ (afterPubrec w a m rid t bs i).ents ↔ (y ∈ w.ents ∧ y ≠ ⟨a, .pub, m, rid⟩) ∨ y = ⟨a, .rel, m, w.nextReq⟩ := by
    intro y
    simp only [afterPubrec, List.mem_append, List.mem_singleton]
    rw [hmem y]
  refine ⟨⟨fun d hd => Or.inr ?_, fun d hd => hd, Nat.le_refl _, fun d h1 h2 => absurd h2 (by simp only [afterPubrec, dropArmed]; omega)⟩, ?_⟩
  · rcases hd with ⟨y, hy, hyd⟩ | ⟨cr, c, c1, c2⟩
    · by_cases hye : y = ⟨a, .pub, m, rid⟩
      · subst hye
        exact Or.inl ⟨⟨a, .rel, m, w.nextReq⟩, (hents _).mpr (Or.inr rfl), by rw [hnew]; exact hyd⟩
      · exact Or.inl ⟨y, (hents y).mpr (Or.inl ⟨hy, hye⟩), by rw [hreq y hy]; exact hyd⟩
    · exact Or.inr ⟨cr, c, c1, c2⟩
  · intro y hy
    rcases (hents y).mp hy with ⟨hy1, _⟩ | rfl
    · exact q0_entry (by rw [hreq y hy1]) (by rw [hreq y hy1]) (by rw [hreq y hy1]) (hq y hy1)
    · refine ⟨fun hm0 => ?_, ?_⟩
      · rw [hnew] at hm0; simp only at hm0
        have := hk.2; simp only at this; omega
      · simp only [QosOk, hnew]; simp [hq2]

theorem handlePUBREC_kq {w : World} (h : WInv w) (p : Nat) (ppr : Proto) (hpp : w.protos.get? p = some ppr)
    (hlive : ppr.lost = false) (hconn : ppr.state = .connected) (m : Nat) (hm : m < 65536) : KQ w (handlePUBREC p m w).1 := by
  have hpa : w.paddr p = ppr.addr := by simp [World.paddr, getD_of_get? hpp]
  cases hl : Ents.lookup w.ents ppr.addr .pub m with
  | none => rw [handlePUBREC_unknown p m w (by rw [hpa]; exact hl)]; exact KQ.refl w
  | some rid =>
    by_cases hq2 : (w.req rid).qos = 2
    case neg => rw [handlePUBREC_wrong_qos p m rid w (by rw [hpa]; exact hl) hq2]; exact KQ.refl w
    obtain ⟨t, bs, _, _, heq⟩ := handlePUBREC_effect h p ppr hpp hlive hconn m hm rid hl hq2
    rw [heq]
    exact (afterPubrec_kq h ppr.addr m rid t bs ppr.initialT (Ents.lookup_some hl) hq2).trans (retryReleaseW_same _ _ _ _).kq

/-! ### dataReceived -/

theorem abort_same (p : Nat) (w : World) : CoreSame w (w.emit (.abort p)) := emit_same w _

theorem processPacket_kq {w : World} (h : WInv w) (p : Nat) (ppr : Proto) (hpp : w.protos.get? p = some ppr)
    (hnl : ppr.lost = false) (pkt : Bytes) (hne : pkt ≠ []) (hwf : Bytes.WF pkt) : KQ w (processPacket p pkt w).1 := by
  unfold processPacket abort
  split
  · exact absurd rfl hne
  · rename_i h0 rest
    dsimp only
    have ht := nibble_lt h0
    generalize (h0 &&& 0xF0) >>> 4 = t at ht ⊢
    split
    · exact (emit_same w _).kq
    · split
      · exact (emit_same w _).kq
      · simp only [read_apply]
        have hst := fun op hop ha => allowed_state h p ppr hpp op hop ha
        have : t = 0 ∨ t = 1 ∨ t = 2 ∨ t = 3 ∨ t = 4 ∨ t = 5 ∨ t = 6 ∨ t = 7 ∨ t = 8 ∨ t = 9 ∨ t = 10 ∨ t = 11 ∨ t = 12 ∨
            t = 13 ∨ t = 14 ∨ t = 15 := by omega
        rcases this with rfl | rfl | rfl | rfl | rfl | rfl | rfl | rfl | rfl | rfl | rfl | rfl | rfl | rfl | rfl | rfl
        all_goals (try simp only [])
        all_goals (try exact (emit_same w _).kq)
        · -- CONNACK
          cases hd : ConnackF.decode (h0 :: rest) with
          | error e => exact (emit_same w _).kq
          | ok c =>
            simp only
            by_cases ha : allowed w p 6 = true
            · simp only [ha, ↓reduceIte]
              exact (handleCONNACK_full h p ppr hpp hnl ((hst 6 (by omega) ha).2.1 rfl) _ _).2.2
            · simp only [ha, Bool.false_eq_true, ↓reduceIte]; exact KQ.refl w
        · -- PUBLISH
          cases hd : PublishD.decode (h0 :: rest) with
          | error e => exact (emit_same w _).kq
          | ok d =>
            simp only
            by_cases ha : allowed w p 10 = true
            · simp only [ha, ↓reduceIte]
              exact (cs_handlePUBLISH p _ w).kq
            · simp only [ha, Bool.false_eq_true, ↓reduceIte]; exact KQ.refl w
        · -- PUBACK
          cases hd : decodeAck (h0 :: rest) with
          | error e => exact (emit_same w _).kq
          | ok m =>
            simp only
            by_cases ha : allowed w p 11 = true
            · simp only [ha, ↓reduceIte]
              exact handlePUBACK_kq h p ppr hpp hnl ((hst 11 (by omega) ha).2.2.1 (by omega) (by omega) (by omega)) m
            · simp only [ha, Bool.false_eq_true, ↓reduceIte]; exact KQ.refl w
        · -- PUBREC
          cases hd : decodeAck (h0 :: rest) with
          | error e => exact (emit_same w _).kq
          | ok m =>
            simp only
            by_cases ha : allowed w p 12 = true
            · simp only [ha, ↓reduceIte]
              exact handlePUBREC_kq h p ppr hpp hnl ((hst 12 (by omega) ha).2.2.1 (by omega) (by omega) (by omega)) m (decodeAck_lt hwf hd)
            · simp only [ha, Bool.false_eq_true, ↓reduceIte]; exact KQ.refl w
        · -- PUBREL
          cases hd : decodePUBREL (h0 :: rest) with
          | error e => exact (emit_same w _).kq
          | ok md =>
            obtain ⟨m, dd⟩ := md
            simp only
            by_cases ha : allowed w p 13 = true
            · simp only [ha, ↓reduceIte]
              exact (cs_handlePUBREL p m w).kq
            · simp only [ha, Bool.false_eq_true, ↓reduceIte]; exact KQ.refl w
        · -- PUBCOMP
          cases hd : decodeAck (h0 :: rest) with
          | error e => exact (emit_same w _).kq
          | ok m =>
            simp only
            by_cases ha : allowed w p 14 = true
            · simp only [ha, ↓reduceIte]
              exact handlePUBCOMP_kq h p ppr hpp hnl ((hst 14 (by omega) ha).2.2.1 (by omega) (by omega) (by omega)) m
            · simp only [ha, Bool.false_eq_true, ↓reduceIte]; exact KQ.refl w
        · -- SUBACK
          cases hd : SubackF.decode (h0 :: rest) with
          | error e => exact (emit_same w _).kq
          | ok sa =>
            simp only
            by_cases ha : allowed w p 8 = true
            · simp only [ha, ↓reduceIte]
              exact handleSubUnsubAck_kq h p ppr hpp hnl ((hst 8 (by omega) ha).2.2.1 (by omega) (by omega) (by omega)) true _ _
            · simp only [ha, Bool.false_eq_true, ↓reduceIte]; exact KQ.refl w
        · -- UNSUBACK
          cases hd : decodeAck (h0 :: rest) with
          | error e => exact (emit_same w _).kq
          | ok m =>
            simp only
            by_cases ha : allowed w p 9 = true
            · simp only [ha, ↓reduceIte]
              exact handleSubUnsubAck_kq h p ppr hpp hnl ((hst 9 (by omega) ha).2.2.1 (by omega) (by omega) (by omega)) false _ _
            · simp only [ha, Bool.false_eq_true, ↓reduceIte]; exact KQ.refl w
        · -- PINGRESP
          by_cases ha : allowed w p 7 = true
          · simp only [ha, ↓reduceIte]
            exact (cs_handlePINGRESP p w).kq
          · simp only [ha, Bool.false_eq_true, ↓reduceIte]; exact KQ.refl w

theorem accumulate_kq (p : Nat) (fuel : Nat) : ∀ {w : World}, WInv w → (∃ ppr, w.protos.get? p = some ppr ∧ ppr.lost = false) →
    KQ w (accumulate p fuel w).1 := by
  induction fuel with
  | zero => intro w _ _; exact KQ.refl w
  | succ f ih =>
    intro w h ⟨ppr, hpp, hnl⟩
    simp only [accumulate, read_apply, getD_of_get? hpp]
    cases hfp : firstPacket ppr.buffer with
    | none => exact KQ.refl w
    | some pr =>
      obtain ⟨pkt, rest⟩ := pr
      simp only
      obtain ⟨hcat, hlen⟩ := firstPacket_some _ _ _ hfp
      have hbuf := h.bufOk p ppr hpp
      have hpw : Bytes.WF pkt := fun b hb => hbuf b (by rw [hcat]; exact List.mem_append_left _ hb)
      have hrw : Bytes.WF rest := fun b hb => hbuf b (by rw [hcat]; exact List.mem_append_right _ hb)
      have hne : pkt ≠ [] := by intro hc; rw [hc] at hlen; simp at hlen
      obtain ⟨a1, a2⟩ := processPacket_inv h p ppr hpp hnl pkt hne hpw
      have k1 := processPacket_kq h p ppr hpp hnl pkt hne hpw
      obtain ⟨ppr1, b1, b2, _⟩ := kl_processPacket p pkt w p ppr hpp
      obtain ⟨w1, hw1⟩ : ∃ w1, w1 = (processPacket p pkt w).1 := ⟨_, rfl⟩
      have s1 : processPacket p pkt w = (w1, none) := by rw [hw1]; exact Prod.ext rfl a1
      rw [← hw1] at a2 b1 k1
      rw [seq_ok s1]
      obtain ⟨c1, c2, c3⟩ := setBuffer_inv a2 p ppr1 b1 (fun _ => rest) hrw
      have k2 : KQ w1 (setProto p (fun pr => { pr with buffer := rest }) w1).1 := (cs_setProto p _ w1).kq
      obtain ⟨w2, hw2⟩ : ∃ w2, w2 = (setProto p (fun pr => { pr with buffer := rest }) w1).1 := ⟨_, rfl⟩
      have s2 : setProto p (fun pr => { pr with buffer := rest }) w1 = (w2, none) := by rw [hw2]; exact Prod.ext rfl c1
      rw [← hw2] at k2
      rw [seq_ok s2]
      exact (k1.trans k2).trans (ih (hw2 ▸ c2) ⟨{ ppr1 with buffer := rest }, hw2 ▸ c3, by rw [← hnl, ← b2]⟩)

theorem dataReceived_kq {w : World} (h : WInv w) (p : Nat) (ppr : Proto) (hpp : w.protos.get? p = some ppr) (hnl : ppr.lost = false)
    (data : Bytes) (hd : Bytes.WF data) : KQ w (dataReceived p data w).1 := by
  have hw : Bytes.WF (ppr.buffer ++ data) := by
    intro b hb
    rcases List.mem_append.mp hb with hb | hb
    · exact h.bufOk p ppr hpp b hb
    · exact hd b hb
  obtain ⟨c1, c2, c3⟩ := setBuffer_inv h p ppr hpp (fun b => b ++ data) hw
  have k2 : KQ w (setProto p (fun pr => { pr with buffer := pr.buffer ++ data }) w).1 := (cs_setProto p _ w).kq
  obtain ⟨w2, hw2⟩ : ∃ w2, w2 = (setProto p (fun pr => { pr with buffer := pr.buffer ++ data }) w).1 := ⟨_, rfl⟩
  have s2 : setProto p (fun pr => { pr with buffer := pr.buffer ++ data }) w = (w2, none) := by rw [hw2]; exact Prod.ext rfl c1
  rw [← hw2] at k2
  simp only [dataReceived]
  rw [seq_ok s2, read_apply]
  exact k2.trans (accumulate_kq p _ (hw2 ▸ c2) ⟨{ ppr with buffer := ppr.buffer ++ data }, hw2 ▸ c3, hnl⟩)

/-! ### timers -/

theorem cs_doPingRequest (p : Nat) : CS (doPingRequest p) := by unfold doPingRequest; cs
theorem cs_ping (p : Nat) : CS (ping p) := by
  unfold ping
  apply cs_read; intro w
  split
  · exact cs_doPingRequest p
  · exact cs_raise _

theorem cs_loopRun (p : Nat) : CS (loopRun p) := by
  intro w
  have h1 := cs_ping p w
  unfold loopRun
  rcases hp : ping p w with ⟨w1, _ | e⟩
  · rw [hp] at h1
    simp only
    refine h1.trans ?_
    have : CS (Step.read fun w =>
      match (w.proto p).pingTimer with
      | some l =>
        if l.running then
          callLater l.interval (.pingLoop p) fun tid =>
            setProto p (fun pr => { pr with pingTimer := (pr.pingTimer.map fun l => { l with call := some tid }) })
        else Step.ok
      | none => Step.ok) := by cs
    exact this w1
  · rw [hp] at h1
    simp only
    exact h1.trans (cs_setProto _ _ w1)

/-- the CONNACK deadline: the pending connect() Deferred fails and leaves its handshake record -/
theorem runTimer_connack_kq (cr : Nat) (w : World) : KQ w (runTimer (.connack cr) w).1 := by
  simp only [runTimer, read_apply]
  cases hc : w.connReqs.get? cr with
  | none => exact KQ.refl w
  | some c =>
    simp only
    cases hd : c.dfd with
    | none => exact KQ.refl w
    | some d =>
      simp only
      by_cases hf : d ∈ w.fired
      · have : fireDfd d (.fail .timeout) w = (w, some .alreadyCalledDfd) := by simp [fireDfd, hf, Step.raise]
        simp only [Step.seq, this]
        exact KQ.refl w
      · rw [seq_ok (fireDfd_unfired w d _ hf)]
        simp only [Step.seq, mod_apply, abort, emit]
        intro hq
        refine ⟨⟨fun d' hd' => ?_, fun d' hd' => by simp [fireD, World.emit]; exact Or.inr hd', Nat.le_refl _,
          fun d' h1 h2 => absurd h2 (by simp only [fireD, World.emit]; omega)⟩, fun y hy => hq y hy⟩
        rcases hd' with ⟨y, hy, hyd⟩ | ⟨cr', c', c1, c2⟩
        · exact Or.inr (Or.inl ⟨y, hy, hyd⟩)
        · by_cases hcc : cr = cr'
          · subst hcc
            rw [hc] at c1; injection c1 with c1; subst c1
            rw [hd] at c2; injection c2 with c2; subst c2
            left; simp [fireD, World.emit]
          · right; right
            refine ⟨cr', c', ?_, c2⟩
            simp only [fireD, World.emit, Dict.get?_set, hcc, ↓reduceIte]
            exact c1

theorem runTimer_kq (k : TKind) (w : World) : KQ w (runTimer k w).1 := by
  cases k with
  | connack cr => exact runTimer_connack_kq cr w
  | pingLoop p => exact (cs_seq (cs_setProto _ _) (cs_loopRun p) w).kq
  | pingAlarm p => exact (cs_seq (cs_setProto _ _) (cs_emit _) w).kq
  | retry p rid =>
    have : CS (runTimer (.retry p rid)) := by unfold runTimer; cs
    exact (this w).kq
  | onDisc p r => exact (cs_emit _ w).kq

theorem fireTimer_kq (t : Nat) (w : World) : KQ w (fireTimer t w).1 := by
  simp only [fireTimer, read_apply]
  cases ht : w.timers.get? t with
  | none => exact (cs_emit _ w).kq
  | some tm =>
    simp only
    by_cases hs : tm.status = .pending
    · simp only [hs, ↓reduceIte, Step.seq, mod_apply]
      refine KQ.trans (b := { w with now := max w.now tm.due, timers := w.timers.set t { tm with status := .called } }) ?_ (runTimer_kq _ _)
      exact CoreSame.kq ⟨rfl, rfl, rfl, rfl, fun _ => ⟨rfl, rfl, rfl⟩⟩
    · simp only [hs, ↓reduceIte]
      exact (cs_emit _ w).kq

/-! ### API calls: a new request (or handshake record) is created together with its Deferred -/

/-- a request record is added at a fresh index together with an entry that refers to it; whatever Deferreds were allocated
    since the base counter `n` are owned afterwards -/
theorem keeps_add {w w2 : World} (n rid : Nat) (hrf : ∀ y ∈ w.ents, y.rid ≠ rid)
    (hreq : ∀ r, r ≠ rid → w2.req r = w.req r) (hents : ∀ y ∈ w.ents, y ∈ w2.ents)
    (hf : w2.fired = w.fired) (hc : w2.connReqs = w.connReqs) (hn : n ≤ w2.nextDfd)
    (hnew : ∀ d, n ≤ d → d < w2.nextDfd → OwnedBy w2 d) : Keeps { w with nextDfd := n } w2 := by
  refine ⟨fun d hd => Or.inr ?_, fun d hd => by rw [hf]; exact hd, hn, fun d h1 h2 => Or.inr (hnew d h1 h2)⟩
  rcases hd with ⟨y, hy, hyd⟩ | ⟨cr, c, c1, c2⟩
  · exact Or.inl ⟨y, hents y hy, by rw [hreq _ (hrf y hy)]; exact hyd⟩
  · exact Or.inr ⟨cr, c, by rw [hc]; exact c1, c2⟩

theorem mkStep_kq {x : Option Nat} {w : World} (h : WInvX x w) (p : Nat) (ppr : Proto) (hpp : w.protos.get? p = some ppr)
    (hnl : ppr.lost = false) (pr : Proto) (qosn msgId : Nat) (dfd : Option Nat) (bs : Bytes)
    (hidf : msgId ≠ 0 → ∀ y ∈ w.ents, idOf w y ≠ msgId)
    (hsome : msgId ≠ 0 → dfd ≠ none)
    (hd : ∀ d, dfd = some d → d < w.nextDfd ∧ d ∉ w.fired ∧ (∀ y ∈ w.ents, (w.req y.rid).dfd ≠ some d) ∧
      (∀ cr c, w.connReqs.get? cr = some c → c.dfd ≠ some d))
    (n : Nat) (hn : n ≤ w.nextDfd) (hdn : ∀ d, n ≤ d → d < w.nextDfd → dfd = some d) (hm0 : msgId = 0 → dfd = none)
    (hqs : (msgId = 0 ↔ qosn = 0) ∧ qosn < 3) (hq : Q0 w) :
    Keeps { w with nextDfd := n } (mkStep p pr qosn msgId dfd bs w).1 ∧ Q0 (mkStep p pr qosn msgId dfd bs w).1 := by
  have hpa : w.paddr p = ppr.addr := by simp [World.paddr, getD_of_get? hpp]
  obtain ⟨nr, hnr⟩ : ∃ nr : Req, nr = { kind := .publish, msgId := msgId, qos := qosn, encoded := bs, dfd := dfd, alarm := none, initial := pr.initialT, ivValue := pr.initialT, ivK := 1, bandwith := pr.bandwith, factor := pr.factor, seq := w.nextSeq } := ⟨_, rfl⟩
  have hnew : ∀ y ∈ w.ents, y.rid ≠ w.nextReq := fun y hy hc => by have := h.ridFresh y hy; omega
  have hQ := addQueue_inv h ppr.addr w.nextReq nr (w.nextReq + 1) w.nextDfd (w.nextSeq + 1)
    hnew (Nat.lt_succ_self _) (Nat.le_succ _) (Nat.le_refl _) (by rw [hnr]; exact hidf) (by rw [hnr]) (by rw [hnr]; exact hsome) (by rw [hnr]; exact hd)
  simp only [mkStep, read_apply, hpa]
  have s1 : (Step.mod (fun w' : World => { w' with
      reqs := w'.reqs.set w.nextReq { kind := .publish, msgId := msgId, qos := qosn, encoded := bs, dfd := dfd, alarm := none, initial := pr.initialT, ivValue := pr.initialT, ivK := 1, bandwith := pr.bandwith, factor := pr.factor, seq := w'.nextSeq },
      nextReq := w.nextReq + 1, nextSeq := w'.nextSeq + 1 }) ;;
    setEnts (fun es => es ++ [⟨ppr.addr, .queue, 0, w.nextReq⟩])) w
      = (addQueue w ppr.addr w.nextReq nr (w.nextReq + 1) w.nextDfd (w.nextSeq + 1), none) := by rw [hnr]; rfl
  rw [← seq_assoc, seq_ok s1]
  obtain ⟨w2, hw2⟩ : ∃ w2, w2 = addQueue w ppr.addr w.nextReq nr (w.nextReq + 1) w.nextDfd (w.nextSeq + 1) := ⟨_, rfl⟩
  rw [← hw2] at hQ ⊢
  have hreq : ∀ r0, w2.req r0 = if w.nextReq = r0 then nr else w.req r0 := fun r0 => req_set w w.nextReq _ r0 _ (by rw [hw2]; rfl)
  have hmem : ∀ y, y ∈ w2.ents ↔ y ∈ w.ents ∨ y = ⟨ppr.addr, .queue, 0, w.nextReq⟩ := by intro y; rw [hw2]; simp [addQueue]
  have hnd2 : w2.nextDfd = w.nextDfd := by rw [hw2]; rfl
  have k1 : Keeps { w with nextDfd := n } w2 := by
    refine keeps_add n w.nextReq hnew (fun r hr => by rw [hreq]; rw [if_neg (fun hc => hr hc.symm)]) (fun y hy => (hmem y).mpr (Or.inl hy))
      (by rw [hw2]; rfl) (by rw [hw2]; rfl) (by rw [hnd2]; exact hn) (fun d h1 h2 => ?_)
    rw [hnd2] at h2
    exact Or.inl ⟨⟨ppr.addr, .queue, 0, w.nextReq⟩, (hmem _).mpr (Or.inr rfl), by rw [hreq]; simp only [↓reduceIte]; rw [hnr]; exact hdn d h1 h2⟩
  have q1 : Q0 w2 := by
    intro y hy
    rcases (hmem y).mp hy with hy1 | rfl
    · have hry : w2.req y.rid = w.req y.rid := by rw [hreq, if_neg (fun hc => hnew y hy1 hc.symm)]
      exact q0_entry (by rw [hry]) (by rw [hry]) (by rw [hry]) (hq y hy1)
    · have hry : w2.req w.nextReq = nr := by rw [hreq]; simp
      simp only [QosOk, hry, hnr]
      exact ⟨hm0, by simp, by simp, fun _ => hqs⟩
  have hpp2 : w2.protos.get? p = some ppr := by rw [hw2]; exact hpp
  obtain ⟨k2, q2⟩ := refillW_keeps (x := x) p false ppr hnl (Ents.count w2.ents (w2.paddr p) .queue) hQ hpp2 q1
  exact ⟨k1.trans k2, q2⟩

theorem keeps_counters (w : World) (i k : Nat) : CoreSame w { w with nextId := i, idAllocs := k } := ⟨rfl, rfl, rfl, rfl, fun _ => ⟨rfl, rfl, rfl⟩⟩

theorem q0_counters {w : World} (i k nd : Nat) (h : Q0 w) : Q0 { w with nextId := i, idAllocs := k, nextDfd := nd } := fun y hy => h y hy

theorem apiPublish_kq {w : World} (h : WInv w) (p : Nat) (topic : PyStr) (payload : Payload) (qos : Int) (retain : Bool)
    (hex : Exists w p) (hfree : FreeId w) : KQ w (apiPublish p topic payload qos retain w).1 := by
  obtain ⟨ppr, hpp⟩ := hex
  rw [apiPublish_eq]
  by_cases ha : allowed w p 4 = true
  · simp only [ha, Bool.not_true, Bool.false_eq_true, ↓reduceIte]
    obtain ⟨hnl, _⟩ := live_of_allowed h p ppr hpp 4 (by omega) (by omega) ha
    split
    · exact (emit_same w _).kq
    · split
      · -- QoS 0
        rename_i hrange hz
        cases henc : encodePublishPy topic payload 0 retain none with
        | error e => exact (emit_same w _).kq
        | ok bs =>
          simp only
          obtain ⟨a, b⟩ := mkStep_inv h p ppr hpp hnl (w.proto p) qos.toNat 0 none bs (fun hc => absurd rfl hc) (fun hc => absurd rfl hc)
            (fun d hd => by cases hd)
          intro hq
          obtain ⟨k, q⟩ := mkStep_kq h p ppr hpp hnl (w.proto p) qos.toNat 0 none bs (fun hc => absurd rfl hc) (fun hc => absurd rfl hc)
            (fun d hd => by cases hd) w.nextDfd (Nat.le_refl _) (fun d h1 h2 => absurd h2 (by omega)) (fun _ => rfl) ⟨by simp [hz], by simp [hz]⟩ hq
          rw [seq_ok (Prod.ext rfl a)]
          exact ⟨k.trans (emit_same _ _).keeps, (emit_same _ _).q0 q⟩
      · -- QoS 1, 2
        rename_i hrange hz
        have hr := Classical.not_not.mp hrange
        obtain ⟨i, hi1, hi2, hi3, hmk⟩ := C17.makeId_counter w (fun i =>
           match encodePublishPy topic payload qos.toNat retain (some (i : Int)) with
           | .error e => emit (.retFail e)
           | .ok bs => newDfd fun d => mkStep p (w.proto p) qos.toNat i (some d) bs ;; emit (.retPending d (some i)))
        erw [hmk]
        have hfr : idInUse w i = false := by rw [hi3]; exact C17.scanId_fresh w w.nextId h.idCounter hfree
        cases henc : encodePublishPy topic payload qos.toNat retain (some (i : Int)) with
        | error e => exact ((keeps_counters w i _).trans (emit_same _ _)).kq
        | ok bs =>
          simp only [newDfd, read_apply]
          have s1 : Step.mod (fun w' : World => { w' with nextDfd := w.nextDfd + 1 }) { w with nextId := i, idAllocs := w.idAllocs + 1 }
              = ({ w with nextId := i, idAllocs := w.idAllocs + 1, nextDfd := w.nextDfd + 1 }, none) := rfl
          rw [seq_ok s1]
          have h2 := counters_inv h i (w.idAllocs + 1) (w.nextDfd + 1) hi2 (Nat.le_succ _)
          have hdd : ∀ d, some w.nextDfd = some d → d < w.nextDfd + 1 ∧ d ∉ w.fired ∧ (∀ y ∈ w.ents, (w.req y.rid).dfd ≠ some d) ∧
              (∀ cr c, w.connReqs.get? cr = some c → c.dfd ≠ some d) := by
            intro d hd
            injection hd with hd; subst hd
            refine ⟨Nat.lt_succ_self _, fun hc => Nat.lt_irrefl _ (h.firedFresh _ hc), fun y hy hc => ?_, fun cr c hc hcd => ?_⟩
            · exact Nat.lt_irrefl _ (h.dfdFresh y hy _ hc).1
            · exact Nat.lt_irrefl _ (h.connReqFresh cr c _ hc hcd)
          obtain ⟨a, b⟩ := mkStep_inv h2 p ppr hpp hnl (w.proto p) qos.toNat i (some w.nextDfd) bs
            (fun _ => idInUse_false hfr) (fun _ => by simp) hdd
          intro hq
          obtain ⟨k, q⟩ := mkStep_kq h2 p ppr hpp hnl (w.proto p) qos.toNat i (some w.nextDfd) bs
            (fun _ => idInUse_false hfr) (fun _ => by simp) hdd w.nextDfd (Nat.le_succ _)
            (fun d h1 h2 => by congr 1; show w.nextDfd = d; have : d < w.nextDfd + 1 := h2; omega) (fun hc => by omega) ⟨by omega, by omega⟩ (q0_counters i _ _ hq)
          rw [seq_ok (Prod.ext rfl a)]
          have k0 : Keeps w { w with nextId := i, idAllocs := w.idAllocs + 1 } := (keeps_counters w i _).keeps
          exact ⟨(k0.trans k).trans (emit_same _ _).keeps, (emit_same _ _).q0 q⟩
  · simp only [ha, Bool.not_false, ↓reduceIte]
    exact (emit_same w _).kq

theorem registerSubUnsub_kq {x : Option Nat} {w : World} (h : WInvX x w) (p : Nat) (ppr : Proto) (hpp : w.protos.get? p = some ppr)
    (isSub : Bool) (i : Nat) (hi0 : i ≠ 0) (hfr : idInUse w i = false) (bs : Bytes) : KQ w (registerSubUnsub p isSub i bs w).1 := by
  have hpa : w.paddr p = ppr.addr := by simp [World.paddr, getD_of_get? hpp]
  have hidf := idInUse_false hfr
  generalize hbox : (if isSub then Box.sub else Box.unsub) = box
  have hbq : box ≠ .queue := by cases isSub <;> simp at hbox <;> subst hbox <;> simp
  let nr : Req := { kind := if isSub then .subscribe else .unsubscribe, msgId := i, qos := 1, encoded := bs, dfd := some w.nextDfd, alarm := none, initial := ppr.initialT, ivValue := ppr.initialT, ivK := 1, bandwith := 1, factor := 1, seq := 0 }
  have hlook : Ents.lookup w.ents ppr.addr box i = none := by
    cases hl2 : Ents.lookup w.ents ppr.addr box i with
    | none => rfl
    | some r2 => exact absurd (by simp [idOf, hbq]) (hidf _ (Ents.lookup_some hl2))
  have hins : Ents.insert w.ents ppr.addr box i w.nextReq = w.ents ++ [⟨ppr.addr, box, i, w.nextReq⟩] :=
    Ents.insert_of_lookup_none _ hlook
  let w4 : World := { w with nextDfd := w.nextDfd + 1, reqs := w.reqs.set w.nextReq nr, nextReq := w.nextReq + 1,
                             ents := w.ents ++ [⟨ppr.addr, box, i, w.nextReq⟩] }
  have hstep : registerSubUnsub p isSub i bs w = ((retrySubUnsubW p w.nextReq false isSub w4).emit (.retPending w.nextDfd (some i)), none) := by
    simp only [registerSubUnsub, read_apply, newDfd, getD_of_get? hpp, hpa, hbox]
    have s1 : Step.mod (fun w' : World => { w' with nextDfd := w.nextDfd + 1 }) w = ({ w with nextDfd := w.nextDfd + 1 }, none) := rfl
    rw [seq_ok s1]
    simp only [Step.seq, Step.mod, setEnts, World.setEnts, retrySubUnsub, emit]
    rw [hins]
  rw [hstep]
  have hnew : ∀ y ∈ w.ents, y.rid ≠ w.nextReq := fun y hy hc => by have := h.ridFresh y hy; omega
  have h4req : ∀ r, w4.req r = if w.nextReq = r then nr else w.req r := fun r => req_set w w.nextReq _ r _ rfl
  have hmem : ∀ y, y ∈ w4.ents ↔ y ∈ w.ents ∨ y = ⟨ppr.addr, box, i, w.nextReq⟩ := by intro y; simp [w4]
  intro hq
  have k1 : Keeps { w with nextDfd := w.nextDfd } w4 := by
    refine keeps_add w.nextDfd w.nextReq hnew (fun r hr => by rw [h4req]; rw [if_neg (fun hc => hr hc.symm)]) (fun y hy => (hmem y).mpr (Or.inl hy))
      rfl rfl (Nat.le_succ _) (fun d h1 h2 => ?_)
    have hd : d = w.nextDfd := by have : d < w.nextDfd + 1 := h2; omega
    subst hd
    exact Or.inl ⟨⟨ppr.addr, box, i, w.nextReq⟩, (hmem _).mpr (Or.inr rfl), by rw [h4req]; simp [nr]⟩
  have q1 : Q0 w4 := by
    intro y hy
    rcases (hmem y).mp hy with hy1 | rfl
    · have hry : w4.req y.rid = w.req y.rid := by rw [h4req, if_neg (fun hc => hnew y hy1 hc.symm)]
      exact q0_entry (by rw [hry]) (by rw [hry]) (by rw [hry]) (hq y hy1)
    · refine ⟨fun hm => ?_, ?_⟩
      · rw [h4req] at hm; simp only [↓reduceIte, nr] at hm; exact absurd hm hi0
      · have : box ≠ .rel ∧ box ≠ .pub := by cases isSub <;> simp at hbox <;> subst hbox <;> simp
        simp only [QosOk]; exact ⟨fun hc => absurd hc this.1, fun hc => absurd hc this.2, fun hc => absurd hc hbq⟩
  have c := (retrySubUnsubW_same p w.nextReq false isSub w4).trans (emit_same _ (.retPending w.nextDfd (some i)))
  exact ⟨k1.trans c.keeps, c.q0 q1⟩

theorem apiSubscribe_kq {w : World} (h : WInv w) (p : Nat) (arg : SubArg) (qos : Int) (hex : Exists w p) (hfree : FreeId w) :
    KQ w (apiSubscribe p arg qos w).1 := by
  obtain ⟨ppr, hpp⟩ := hex
  simp only [apiSubscribe, read_apply]
  by_cases ha : allowed w p 2 = true
  · simp only [ha, Bool.not_true, Bool.false_eq_true, ↓reduceIte]
    by_cases hwin : Ents.count w.ents (w.paddr p) .sub ≥ (w.proto p).window
    · simp only [hwin, ↓reduceIte]; exact (emit_same w _).kq
    · simp only [hwin, ↓reduceIte]
      cases arg with
      | other => exact (emit_same w _).kq
      | _ =>
        simp only []
        split
        · exact (emit_same w _).kq
        split
        · exact (emit_same w _).kq
        · rw [makeId_apply]
          have hi := C17.scanId_range w w.nextId
          have hfr := C17.scanId_fresh w w.nextId h.idCounter hfree
          have h1 := counters_inv h (scanId w 65535 w.nextId) (w.idAllocs + 1) w.nextDfd hi.2 (Nat.le_refl _)
          have k0 := (keeps_counters w (scanId w 65535 w.nextId) (w.idAllocs + 1)).kq
          generalize encodeWithId _ _ _ = E
          cases E with
          | error e => exact k0.trans (emit_same _ _).kq
          | ok bs => exact k0.trans (registerSubUnsub_kq h1 p ppr hpp true _ (by omega) hfr bs)
  · simp only [ha, Bool.not_false, ↓reduceIte]
    exact (emit_same w _).kq

theorem apiUnsubscribe_kq {w : World} (h : WInv w) (p : Nat) (arg : UnsubArg) (hex : Exists w p) (hfree : FreeId w) :
    KQ w (apiUnsubscribe p arg w).1 := by
  obtain ⟨ppr, hpp⟩ := hex
  simp only [apiUnsubscribe, read_apply]
  by_cases ha : allowed w p 3 = true
  · simp only [ha, Bool.not_true, Bool.false_eq_true, ↓reduceIte]
    rw [makeId_apply]
    have hi02 := (C17.scanId_range w w.nextId).2
    have h1' := counters_inv h (scanId w 65535 w.nextId) (w.idAllocs + 1) w.nextDfd hi02 (Nat.le_refl _)
    have k0 := (keeps_counters w (scanId w 65535 w.nextId) (w.idAllocs + 1)).kq
    obtain ⟨w1, hw1⟩ : ∃ w1 : World, w1 = { w with nextId := scanId w 65535 w.nextId, idAllocs := w.idAllocs + 1 } := ⟨_, rfl⟩
    rw [← hw1] at h1' k0 ⊢
    have hpp1 : w1.protos.get? p = some ppr := by rw [hw1]; exact hpp
    have hfree1 : FreeId w1 := by rw [hw1]; exact hfree
    simp only [read_apply]
    by_cases hwin : Ents.count w1.ents (w1.paddr p) .unsub ≥ (w1.proto p).window
    · simp only [hwin, ↓reduceIte]; exact k0.trans (emit_same _ _).kq
    · simp only [hwin, ↓reduceIte]
      cases arg with
      | other => exact k0.trans (emit_same _ _).kq
      | _ =>
        simp only []
        split
        · exact k0.trans (emit_same _ _).kq
        rw [makeId_apply]
        have hi := C17.scanId_range w1 w1.nextId
        have hfr := C17.scanId_fresh w1 w1.nextId h1'.idCounter hfree1
        have h2 := counters_inv h1' (scanId w1 65535 w1.nextId) (w1.idAllocs + 1) w1.nextDfd hi.2 (Nat.le_refl _)
        have k1 := (keeps_counters w1 (scanId w1 65535 w1.nextId) (w1.idAllocs + 1)).kq
        generalize encodeWithId _ _ _ = E
        cases E with
        | error e => exact (k0.trans k1).trans (emit_same _ _).kq
        | ok bs => exact (k0.trans k1).trans (registerSubUnsub_kq h2 p ppr hpp1 false _ (by omega) hfr bs)
  · simp only [ha, Bool.not_false, ↓reduceIte]
    exact (emit_same w _).kq

theorem connStartW_kq {w : World} (h : WInv w) (p : Nat) (npr : Proto) (due ka : Nat) (log' : List Obs) :
    KQ w (connStartW w p npr due ka log') := by
  intro hq
  have hcq : ∀ cr, (connStartW w p npr due ka log').connReqs.get? cr =
      if w.nextCR = cr then some ⟨p, ka, some w.nextDfd, w.nextTimer⟩ else w.connReqs.get? cr := by
    intro cr; simp only [connStartW, Dict.get?_set]
  refine ⟨⟨fun d hd => Or.inr ?_, fun d hd => hd, Nat.le_succ _, fun d h1 h2 => Or.inr (Or.inr ?_)⟩, fun y hy => hq y hy⟩
  · rcases hd with ⟨y, hy, hyd⟩ | ⟨cr, c, c1, c2⟩
    · exact Or.inl ⟨y, hy, hyd⟩
    · refine Or.inr ⟨cr, c, ?_, c2⟩
      rw [hcq, if_neg (fun hc => by have := h.crFresh cr c c1; omega)]
      exact c1
  · have hd : d = w.nextDfd := by have : d < w.nextDfd + 1 := h2; omega
    subst hd
    exact ⟨w.nextCR, ⟨p, ka, some w.nextDfd, w.nextTimer⟩, by rw [hcq]; simp, rfl⟩

theorem apiConnect_kq {w : World} (h : WInv w) (p : Nat) (a : ConnectArgs) (hlive : Live w p) : KQ w (apiConnect p a w).1 := by
  obtain ⟨ppr, hpp, hnl⟩ := hlive
  unfold apiConnect
  generalize a.toF.encode = E
  simp only [read_apply]
  by_cases ha : allowed w p 0 = true
  · simp only [ha, Bool.not_true, Bool.false_eq_true, ↓reduceIte]
    split
    · exact (emit_same w _).kq
    · cases E with
      | error e =>
        simp only
        split
        · exact (emit_same w _).kq
        · exact KQ.refl w
      | ok pdu =>
        simp only
        have hfin : (setProto p (fun pr => { pr with cleanStart := a.cleanStart, version := verOf a.version }) ;;
            write p pdu ;;
            setProto p (fun pr => { pr with state := .connecting }) ;;
            Step.read fun w =>
              let cr := w.nextCR
              let ka := a.keepalive.toNat
              callLater (if ka = 0 then 10 else ka) (.connack cr) fun tid =>
                newDfd fun d =>
                  Step.mod (fun w => { w with connReqs := w.connReqs.set cr ⟨p, ka, some d, tid⟩, nextCR := cr + 1 }) ;;
                  setProto p (fun pr => { pr with connReq := some cr }) ;;
                  emit (.retPending d none)) w
            = (connStartW w p { ppr with cleanStart := a.cleanStart, version := verOf a.version, state := .connecting, connReq := some w.nextCR }
                (w.now + ticks (if a.keepalive.toNat = 0 then 10 else (a.keepalive.toNat : Rat))) a.keepalive.toNat
                ((w.log ++ [.write p pdu]) ++ [.retPending w.nextDfd none]), none) := by
          simp only [Step.seq, setProto, Step.mod, write, emit, World.emit, Step.read, callLater, newDfd, World.callLater, World.proto,
            Dict.get?_set, ↓reduceIte, Option.getD_some, hpp, Dict.set_set, connStartW]
        rw [hfin]
        exact connStartW_kq h p _ _ _ _
  · simp only [ha, Bool.not_false, ↓reduceIte]
    exact (emit_same w _).kq

/-! ### every operation -/

/-- no operation of the model leaves a Deferred without owner: the requests' containers and the handshake records account
    for every Deferred that has been handed out and has not fired -/
theorem step_kq {w : World} (h : WInv w) (op : Op) (henv : Env w op) : KQ w (step w op) := by
  have hlog : ∀ (w' : World) (l : List Obs), CoreSame w' { w' with log := l } := fun _ _ => ⟨rfl, rfl, rfl, rfl, fun _ => ⟨rfl, rfl, rfl⟩⟩
  have hstep : ∀ (s : Step), KQ w (s w).1 → KQ w (match s w with
      | (w', none) => w'
      | (w', some e) => { w' with log := w'.log ++ [if op.isReactor then .esc e else .raised e] }) := by
    intro s hk
    rcases hs : s w with ⟨w', _ | e⟩
    · rw [hs] at hk; exact hk
    · rw [hs] at hk; exact hk.trans (hlog _ _).kq
  unfold step
  cases op with
  | build a => exact hstep (buildProtocol a) (CoreSame.kq ⟨rfl, rfl, rfl, rfl, fun _ => ⟨rfl, rfl, rfl⟩⟩)
  | sethandlers p m => exact hstep _ (cs_apiSetHandlers p m w).kq
  | connect p a => exact hstep _ (apiConnect_kq h p a henv)
  | disconnect p => exact hstep _ (cs_apiDisconnect p w).kq
  | publish p t pl q r => exact hstep _ (apiPublish_kq h p t pl q r henv.1 henv.2)
  | subscribe p a q => exact hstep _ (apiSubscribe_kq h p a q henv.1 henv.2)
  | unsubscribe p a => exact hstep _ (apiUnsubscribe_kq h p a henv.1 henv.2)
  | setwin p n => exact hstep _ (cs_apiSetWindow p n w).kq
  | settimeout p n => exact hstep _ (cs_apiSetTimeout p n w).kq
  | setbw p b f => exact hstep _ (cs_apiSetBandwith p b f w).kq
  | jit v => exact hstep (Step.mod fun w => { w with jitter := v }) (CoreSame.kq ⟨rfl, rfl, rfl, rfl, fun _ => ⟨rfl, rfl, rfl⟩⟩)
  | setid v => exact henv.elim
  | recv p d =>
    obtain ⟨⟨ppr, hpp, hnl⟩, hd⟩ := henv
    exact hstep _ (dataReceived_kq h p ppr hpp hnl d hd)
  | lost p r =>
    obtain ⟨ppr, hpp, hnl⟩ := henv
    exact hstep _ (connectionLost_owned h p ppr hpp hnl r).2.2.2.1
  | fire t => exact hstep _ (fireTimer_kq t w)

theorem run_owned : ∀ (ops : List Op) {w : World}, WInv w → Owned w → Q0 w → EnvRun w ops → Owned (run w ops) ∧ Q0 (run w ops) := by
  intro ops
  induction ops with
  | nil => intro w _ ho hq _; exact ⟨ho, hq⟩
  | cons op rest ih =>
    intro w h ho hq henv
    obtain ⟨k, q⟩ := step_kq h op henv.1 hq
    exact ih (step_inv h op henv.1) (ho.keeps k) q henv.2

/-- **No Deferred is left hanging.** After every history of API calls, received bytes, connection losses and timer expiries that
    respects `Env`, from a fresh factory of any profile: every Deferred that has been returned to the application and has not
    fired is the Deferred of a request still held in a container (transmission queue or one of the four windows) or of a
    handshake record. The other invariants say what happens to those: window entries of a connected protocol have a retry
    timer running (`WInv.connected`), a loss fails or keeps them (`connectionLost_owned`), a pending handshake has its
    deadline timer (`WInv.connecting`). -/
theorem reachable_owned (profile : Nat) (hp : profile = 1 ∨ profile = 2 ∨ profile = 3) (ops : List Op)
    (henv : EnvRun (World.init profile) ops) : Owned (run (World.init profile) ops) ∧ Q0 (run (World.init profile) ops) :=
  run_owned ops (WInv.init profile hp) (fun d hd => absurd hd (by simp [World.init])) (fun y hy => by simp [World.init] at hy) henv

/-- a clean-session loss fires every Deferred held by a request of that address (C11, C07, C16: nothing stays pending) -/
theorem lost_clean_fires_all {w : World} (h : WInv w) (hq : Q0 w) (p : Nat) (ppr : Proto) (hpp : w.protos.get? p = some ppr)
    (hnl : ppr.lost = false) (hcs : ppr.cleanStart = true) (reason : Err) :
    ∀ e ∈ w.ents, e.addr = ppr.addr → ∀ d, (w.req e.rid).dfd = some d → d ∈ (connectionLost p reason w).1.fired := by
  intro e he hea d hd
  obtain ⟨_, _, post, kq, hsub, hcr⟩ := connectionLost_owned h p ppr hpp hnl reason
  rcases (kq hq).1.own d (Or.inl ⟨e, he, hd⟩) with hf | ⟨y, hy, hyd⟩ | ⟨cr, c, c1, c2⟩
  · exact hf
  · exfalso
    have hy0 := hsub y hy
    rw [(post.req y.rid).1] at hyd
    have := h.dfdInj y hy0 e he d hyd hd
    subst this
    exact post.clean hcs y hy hea
  · exfalso
    rw [hcr] at c1
    by_cases hf : d ∈ w.fired
    · exact (h.dfdFresh e he d hd).2 hf
    · exact (h.connReq cr c d c1 c2 hf).2 e he hd

/-- under a persistent session exactly the SUBSCRIBE/UNSUBSCRIBE requests of the address are failed; the Deferred of every
    publish (held back, awaiting PUBACK/PUBREC, awaiting PUBCOMP) is still owned by its request (C12) -/
theorem lost_persistent_fires_subs {w : World} (h : WInv w) (hq : Q0 w) (p : Nat) (ppr : Proto) (hpp : w.protos.get? p = some ppr)
    (hnl : ppr.lost = false) (hcs : ppr.cleanStart = false) (reason : Err) :
    ∀ e ∈ w.ents, e.addr = ppr.addr → (e.box = .sub ∨ e.box = .unsub) → ∀ d, (w.req e.rid).dfd = some d →
      d ∈ (connectionLost p reason w).1.fired := by
  intro e he hea hb d hd
  obtain ⟨_, _, post, kq, hsub, hcr⟩ := connectionLost_owned h p ppr hpp hnl reason
  rcases (kq hq).1.own d (Or.inl ⟨e, he, hd⟩) with hf | ⟨y, hy, hyd⟩ | ⟨cr, c, c1, c2⟩
  · exact hf
  · exfalso
    have hy0 := hsub y hy
    rw [(post.req y.rid).1] at hyd
    have := h.dfdInj y hy0 e he d hyd hd
    subst this
    exact ((post.persistent hcs y).mp hy).2 ⟨hea, hb⟩
  · exfalso
    rw [hcr] at c1
    by_cases hf : d ∈ w.fired
    · exact (h.dfdFresh e he d hd).2 hf
    · exact (h.connReq cr c d c1 c2 hf).2 e he hd

end Mqtt
