import MqttVerif.Proofs.Session3
/-
  "No Deferred is left hanging": every Deferred that has been handed to the application and has not fired is still
  owned by an unfinished request (an entry of some container) or by a handshake record -- nothing is silently dropped.
  Stated as an invariant `Owned` and shown to be preserved with the help of a summary relation `Keeps w w'` between the
  world before and after a (composite) transition.
-/
namespace Mqtt

/-- some unfinished request or handshake record holds Deferred `d` -/
def OwnedBy (w : World) (d : Nat) : Prop :=
  (∃ e ∈ w.ents, (w.req e.rid).dfd = some d) ∨ (∃ cr c, w.connReqs.get? cr = some c ∧ c.dfd = some d)

/-- every allocated, unfired Deferred has an owner -/
def Owned (w : World) : Prop := ∀ d, d < w.nextDfd → d ∉ w.fired → OwnedBy w d

/-- the QoS level recorded in the request an entry refers to fits the container: only QoS 2 exchanges are in the release window, the
    publish window holds QoS 1 and QoS 2 messages, a held-back message has an identifier exactly when its QoS is not 0 -/
def QosOk (w : World) (e : Ent) : Prop :=
  (e.box = .rel → (w.req e.rid).qos = 2) ∧ (e.box = .pub → (w.req e.rid).qos = 1 ∨ (w.req e.rid).qos = 2) ∧
  (e.box = .queue → ((w.req e.rid).msgId = 0 ↔ (w.req e.rid).qos = 0) ∧ (w.req e.rid).qos < 3)

/-- requests without identifier (QoS 0) carry no Deferred; QoS levels fit the containers -/
def Q0 (w : World) : Prop := ∀ e ∈ w.ents, ((w.req e.rid).msgId = 0 → (w.req e.rid).dfd = none) ∧ QosOk w e

/-- what a transition does to Deferreds: an owned one stays owned or fires; fired ones stay fired; new ones are owned or fired -/
structure Keeps (w w' : World) : Prop where
  own : ∀ d, OwnedBy w d → d ∈ w'.fired ∨ OwnedBy w' d
  fmono : ∀ d ∈ w.fired, d ∈ w'.fired
  nd : w.nextDfd ≤ w'.nextDfd
  fresh : ∀ d, w.nextDfd ≤ d → d < w'.nextDfd → d ∈ w'.fired ∨ OwnedBy w' d

theorem Keeps.refl (w : World) : Keeps w w := ⟨fun _ h => Or.inr h, fun _ h => h, Nat.le_refl _, fun d h1 h2 => absurd h2 (by omega)⟩

theorem Keeps.trans {w1 w2 w3 : World} (a : Keeps w1 w2) (b : Keeps w2 w3) : Keeps w1 w3 := by
  refine ⟨fun d h => ?_, fun d h => b.fmono d (a.fmono d h), Nat.le_trans a.nd b.nd, fun d h1 h2 => ?_⟩
  · rcases a.own d h with h | h
    · exact Or.inl (b.fmono d h)
    · exact b.own d h
  · by_cases hd : d < w2.nextDfd
    · rcases a.fresh d h1 hd with h | h
      · exact Or.inl (b.fmono d h)
      · exact b.own d h
    · exact b.fresh d (by omega) h2

theorem Owned.keeps {w w' : World} (h : Owned w) (k : Keeps w w') : Owned w' := by
  intro d hd hnf
  by_cases hd0 : d < w.nextDfd
  · have hnf0 : d ∉ w.fired := fun hc => hnf (k.fmono d hc)
    rcases k.own d (h d hd0 hnf0) with h1 | h1
    · exact absurd h1 hnf
    · exact h1
  · rcases k.fresh d (by omega) hd with h1 | h1
    · exact absurd h1 hnf
    · exact h1

/-- nothing that concerns Deferreds changes -/
theorem keeps_core {w w' : World} (he : w'.ents = w.ents) (hr : ∀ r, (w'.req r).dfd = (w.req r).dfd) (hf : w'.fired = w.fired)
    (hc : w'.connReqs = w.connReqs) (hn : w'.nextDfd = w.nextDfd) : Keeps w w' := by
  refine ⟨fun d h => Or.inr ?_, fun d h => hf ▸ h, by rw [hn]; exact Nat.le_refl _, fun d h1 h2 => absurd h2 (by omega)⟩
  rcases h with ⟨e, he', hd⟩ | ⟨cr, c, h1, h2⟩
  · exact Or.inl ⟨e, he ▸ he', by rw [hr]; exact hd⟩
  · exact Or.inr ⟨cr, c, hc ▸ h1, h2⟩

/-- `Q0` only reads the Deferred, identifier and QoS of the requests that entries refer to -/
theorem q0_entry {w w' : World} {e : Ent} (hd : (w'.req e.rid).dfd = (w.req e.rid).dfd) (hm : (w'.req e.rid).msgId = (w.req e.rid).msgId)
    (hqs : (w'.req e.rid).qos = (w.req e.rid).qos)
    (h : ((w.req e.rid).msgId = 0 → (w.req e.rid).dfd = none) ∧ QosOk w e) :
    ((w'.req e.rid).msgId = 0 → (w'.req e.rid).dfd = none) ∧ QosOk w' e := by
  simp only [QosOk, hd, hm, hqs]; exact h

theorem q0_core {w w' : World} (he : w'.ents = w.ents)
    (hr : ∀ r, (w'.req r).dfd = (w.req r).dfd ∧ (w'.req r).msgId = (w.req r).msgId ∧ (w'.req r).qos = (w.req r).qos)
    (h : Q0 w) : Q0 w' := by
  intro e he'
  rw [he] at he'
  exact q0_entry (hr e.rid).1 (hr e.rid).2.1 (hr e.rid).2.2 (h e he')

/-- entries leave their containers, each with its Deferred fired (or without Deferred) -/
theorem keeps_removed {w w' : World} (hr : ∀ r, (w'.req r).dfd = (w.req r).dfd) (hc : w'.connReqs = w.connReqs) (hn : w'.nextDfd = w.nextDfd)
    (hf : ∀ d ∈ w.fired, d ∈ w'.fired)
    (hrem : ∀ y ∈ w.ents, y ∈ w'.ents ∨ ∀ d, (w.req y.rid).dfd = some d → d ∈ w'.fired) : Keeps w w' := by
  refine ⟨fun d h => ?_, hf, by rw [hn]; exact Nat.le_refl _, fun d h1 h2 => absurd h2 (by omega)⟩
  rcases h with ⟨e, he', hd⟩ | ⟨cr, c, h1, h2⟩
  · rcases hrem e he' with h1 | h1
    · exact Or.inr (Or.inl ⟨e, h1, by rw [hr]; exact hd⟩)
    · exact Or.inl (h1 d hd)
  · exact Or.inr (Or.inr ⟨cr, c, hc ▸ h1, h2⟩)

theorem q0_removed {w w' : World} (hr : ∀ r, (w'.req r).dfd = (w.req r).dfd ∧ (w'.req r).msgId = (w.req r).msgId ∧ (w'.req r).qos = (w.req r).qos)
    (hsub : ∀ y ∈ w'.ents, y ∈ w.ents) (h : Q0 w) : Q0 w' := by
  intro e he'
  exact q0_entry (hr e.rid).1 (hr e.rid).2.1 (hr e.rid).2.2 (h e (hsub e he'))

/-- firing a Deferred (and anything else that touches neither containers, request Deferreds, handshake records nor the Deferred
    counter) keeps every owner in place -/
theorem keeps_fire {w w' : World} (he : w'.ents = w.ents) (hr : ∀ r, (w'.req r).dfd = (w.req r).dfd)
    (hc : w'.connReqs = w.connReqs) (hn : w'.nextDfd = w.nextDfd) (hf : ∀ d ∈ w.fired, d ∈ w'.fired) : Keeps w w' := by
  refine ⟨fun d h => Or.inr ?_, hf, by rw [hn]; exact Nat.le_refl _, fun d h1 h2 => absurd h2 (by omega)⟩
  rcases h with ⟨e, he', hd⟩ | ⟨cr, c, h1, h2⟩
  · exact Or.inl ⟨e, he ▸ he', by rw [hr]; exact hd⟩
  · exact Or.inr ⟨cr, c, hc ▸ h1, h2⟩

/-- an in-flight request is settled: its entry leaves the window and its own Deferred fires -/
theorem keeps_settle {x : Option Nat} {w : World} (h : WInvX x w) {e : Ent} (he : e ∈ w.ents) (hq : e.box ≠ .queue) (t d : Nat)
    (hd : (w.req e.rid).dfd = some d) (o : Obs) : Keeps w (fireD (dropArmed w e t) d o) ∧ (Q0 w → Q0 (fireD (dropArmed w e t) d o)) := by
  have hmem := dropArmed_mem h he hq t
  refine ⟨keeps_removed (fun _ => rfl) rfl rfl (fun d' hd' => by simp only [fireD, List.mem_cons]; exact Or.inr hd') (fun y hy => ?_), fun hq0 => ?_⟩
  · by_cases hye : y = e
    · subst hye
      right; intro d' hd'
      rw [hd] at hd'; injection hd' with hd'; subst hd'
      simp [fireD]
    · left; exact (hmem y).mpr ⟨hy, hye⟩
  · exact q0_removed (w := w) (fun _ => ⟨rfl, rfl, rfl⟩) (fun y hy => ((hmem y).mp hy).1) hq0

theorem Ents.mem_insert_self (es : List Ent) (a : Nat) (b : Box) (k rid : Nat) : (⟨a, b, k, rid⟩ : Ent) ∈ Ents.insert es a b k rid := by
  induction es with
  | nil => simp [Ents.insert]
  | cons e r ih =>
    simp only [Ents.insert]
    split
    · simp
    · exact List.mem_cons_of_mem _ ih

/-- the retransmission helpers touch no container, no Deferred, no handshake record -/
theorem retryPublishW_core (p rid : Nat) (dup : Bool) (w : World) :
    (retryPublishW p rid dup w).ents = w.ents ∧ (retryPublishW p rid dup w).fired = w.fired ∧ (retryPublishW p rid dup w).connReqs = w.connReqs ∧
    (retryPublishW p rid dup w).nextDfd = w.nextDfd ∧ ∀ r, ((retryPublishW p rid dup w).req r).dfd = (w.req r).dfd ∧ ((retryPublishW p rid dup w).req r).msgId = (w.req r).msgId ∧ ((retryPublishW p rid dup w).req r).qos = (w.req r).qos := by
  refine ⟨retryPublishW_ents p rid dup w, ?_, retryPublishW_connReqs p rid dup w, ?_, fun r => ?_⟩
  · simp only [retryPublishW]; split <;> simp
  · simp only [retryPublishW]; split <;> simp
  · simp only [retryPublishW, req_setReq, ↓reduceIte]
    split <;> (simp only [emit_req, req_setReq, callLater_req]; by_cases hr : rid = r <;> simp [hr])

theorem retryReleaseW_core (p rid : Nat) (dup : Bool) (w : World) :
    (retryReleaseW p rid dup w).ents = w.ents ∧ (retryReleaseW p rid dup w).fired = w.fired ∧ (retryReleaseW p rid dup w).connReqs = w.connReqs ∧
    (retryReleaseW p rid dup w).nextDfd = w.nextDfd ∧ ∀ r, ((retryReleaseW p rid dup w).req r).dfd = (w.req r).dfd ∧ ((retryReleaseW p rid dup w).req r).msgId = (w.req r).msgId ∧ ((retryReleaseW p rid dup w).req r).qos = (w.req r).qos := by
  refine ⟨retryReleaseW_ents p rid dup w, ?_, retryReleaseW_connReqs p rid dup w, ?_, fun r => ?_⟩
  · simp only [retryReleaseW]; split <;> simp
  · simp only [retryReleaseW]; split <;> simp
  · simp only [retryReleaseW]
    split <;> (simp only [emit_req, req_setReq, callLater_req]; by_cases hr : rid = r <;> simp [hr])

theorem retrySubUnsubW_core (p rid : Nat) (dup s : Bool) (w : World) :
    (retrySubUnsubW p rid dup s w).ents = w.ents ∧ (retrySubUnsubW p rid dup s w).fired = w.fired ∧ (retrySubUnsubW p rid dup s w).connReqs = w.connReqs ∧
    (retrySubUnsubW p rid dup s w).nextDfd = w.nextDfd ∧ ∀ r, ((retrySubUnsubW p rid dup s w).req r).dfd = (w.req r).dfd ∧ ((retrySubUnsubW p rid dup s w).req r).msgId = (w.req r).msgId ∧ ((retrySubUnsubW p rid dup s w).req r).qos = (w.req r).qos := by
  refine ⟨retrySubUnsubW_ents p rid dup s w, ?_, ?_, ?_, fun r => ?_⟩
  · simp only [retrySubUnsubW]; split <;> simp
  · simp only [retrySubUnsubW]; split <;> simp
  · simp only [retrySubUnsubW]; split <;> simp
  · simp only [retrySubUnsubW]
    split <;> (simp only [emit_req, req_setReq, callLater_req]; by_cases hr : rid = r <;> simp [hr])

/-- the five facts of `keeps_core`/`q0_core`, as one record -/
structure CoreSame (w w' : World) : Prop where
  ents : w'.ents = w.ents
  fired : w'.fired = w.fired
  connReqs : w'.connReqs = w.connReqs
  nextDfd : w'.nextDfd = w.nextDfd
  req : ∀ r, (w'.req r).dfd = (w.req r).dfd ∧ (w'.req r).msgId = (w.req r).msgId ∧ (w'.req r).qos = (w.req r).qos

theorem CoreSame.refl (w : World) : CoreSame w w := ⟨rfl, rfl, rfl, rfl, fun _ => ⟨rfl, rfl, rfl⟩⟩
theorem CoreSame.trans {a b c : World} (h1 : CoreSame a b) (h2 : CoreSame b c) : CoreSame a c :=
  ⟨by rw [h2.ents, h1.ents], by rw [h2.fired, h1.fired], by rw [h2.connReqs, h1.connReqs], by rw [h2.nextDfd, h1.nextDfd],
   fun r => ⟨by rw [(h2.req r).1, (h1.req r).1], by rw [(h2.req r).2.1, (h1.req r).2.1], by rw [(h2.req r).2.2, (h1.req r).2.2]⟩⟩
theorem CoreSame.keeps {w w' : World} (h : CoreSame w w') : Keeps w w' := keeps_core h.ents (fun r => (h.req r).1) h.fired h.connReqs h.nextDfd
theorem CoreSame.q0 {w w' : World} (h : CoreSame w w') (hq : Q0 w) : Q0 w' := q0_core h.ents h.req hq

theorem emit_same (w : World) (o : Obs) : CoreSame w (w.emit o) := ⟨rfl, rfl, rfl, rfl, fun _ => ⟨rfl, rfl, rfl⟩⟩

theorem retryPublishW_same (p rid : Nat) (dup : Bool) (w : World) : CoreSame w (retryPublishW p rid dup w) := by
  obtain ⟨a, b, c, d, e⟩ := retryPublishW_core p rid dup w; exact ⟨a, b, c, d, e⟩
theorem retryReleaseW_same (p rid : Nat) (dup : Bool) (w : World) : CoreSame w (retryReleaseW p rid dup w) := by
  obtain ⟨a, b, c, d, e⟩ := retryReleaseW_core p rid dup w; exact ⟨a, b, c, d, e⟩
theorem retrySubUnsubW_same (p rid : Nat) (dup s : Bool) (w : World) : CoreSame w (retrySubUnsubW p rid dup s w) := by
  obtain ⟨a, b, c, d, e⟩ := retrySubUnsubW_core p rid dup s w; exact ⟨a, b, c, d, e⟩

theorem foldl_same (l : List Ent) (f : World → Ent → World) (hf : ∀ w e, CoreSame w (f w e)) (w : World) : CoreSame w (l.foldl f w) := by
  induction l generalizing w with
  | nil => exact CoreSame.refl w
  | cons e r ih => exact (hf w e).trans (ih _)

/-- `_syncSession` touches no container, no Deferred, no handshake record -/
theorem syncW_same (p : Nat) (w : World) : CoreSame w (syncW p w) := by
  simp only [syncW]
  refine (foldl_same _ _ (fun w e => ?_) w).trans (foldl_same _ _ (fun w e => ?_) _)
  · split
    · exact retryReleaseW_same _ _ _ _
    · exact CoreSame.refl _
  · split
    · exact retryPublishW_same _ _ _ _
    · exact CoreSame.refl _

/-! ### `_refillPublish`: a held-back request moves into the publish window (same request object) or, without identifier
    and hence without Deferred, is just written -/

theorem launch_keeps {x : Option Nat} {w : World} (h : WInvX x w) (hq0 : Q0 w) (p : Nat) (dup : Bool) (a : Nat) {e : Ent} {rest : List Ent}
    (hitems : Ents.items w.ents a .queue = e :: rest) :
    let w2 := retryPublishW p e.rid dup
      (if (w.req e.rid).msgId ≠ 0 then
        (w.setEnts fun es => Ents.dropFirst es a .queue).setEnts fun es => Ents.insert es a .pub (w.req e.rid).msgId e.rid
       else w.setEnts fun es => Ents.dropFirst es a .queue)
    Keeps w w2 ∧ Q0 w2 := by
  intro w2
  have hein : e ∈ Ents.items w.ents a .queue := by rw [hitems]; simp
  obtain ⟨he, hea, heb⟩ := Ents.mem_items.mp hein
  obtain ⟨hd1, hd2, hd3⟩ := Ents.dropFirst_spec hitems h.nodup
  obtain ⟨w1, hw1⟩ : ∃ w1 : World, w1 = (if (w.req e.rid).msgId ≠ 0 then
        (w.setEnts fun es => Ents.dropFirst es a .queue).setEnts fun es => Ents.insert es a .pub (w.req e.rid).msgId e.rid
       else w.setEnts fun es => Ents.dropFirst es a .queue) := ⟨_, rfl⟩
  have hsame := retryPublishW_same p e.rid dup w1
  have hw2 : w2 = retryPublishW p e.rid dup w1 := by rw [hw1]
  have hreq1 : ∀ r, w1.req r = w.req r := by intro r; rw [hw1]; split <;> rfl
  have hf1 : w1.fired = w.fired := by rw [hw1]; split <;> rfl
  have hc1 : w1.connReqs = w.connReqs := by rw [hw1]; split <;> rfl
  have hn1 : w1.nextDfd = w.nextDfd := by rw [hw1]; split <;> rfl
  -- entries of `w` other than `e` survive; `e` itself survives as a publish-window entry when it has an identifier
  have hsurv : ∀ y ∈ w.ents, y ≠ e → y ∈ w1.ents := by
    intro y hy hne
    have hy1 : y ∈ Ents.dropFirst w.ents a .queue := (hd1 y).mpr ⟨hy, hne⟩
    rw [hw1]
    split
    · rename_i hm0
      show y ∈ Ents.insert (Ents.dropFirst w.ents a .queue) a .pub (w.req e.rid).msgId e.rid
      -- the identifier is not a key of the publish window yet, so `insert` appends
      have hlook : Ents.lookup (Ents.dropFirst w.ents a .queue) a .pub (w.req e.rid).msgId = none := by
        cases hl : Ents.lookup (Ents.dropFirst w.ents a .queue) a .pub (w.req e.rid).msgId with
        | none => rfl
        | some rid =>
          have hm := Ents.lookup_some hl
          obtain ⟨hy', hne'⟩ := (hd1 _).mp hm
          have := h.idUnique _ hy' e he (by simp [idOf, heb]) (by simp [idOf]; exact hm0)
          exact absurd this hne'
      rw [Ents.insert_of_lookup_none _ hlook]
      exact List.mem_append_left _ hy1
    · exact hy1
  have hk1 : Keeps w w1 := by
    refine ⟨fun d hd => Or.inr ?_, fun d hd => hf1 ▸ hd, by rw [hn1]; exact Nat.le_refl _, fun d h1 h2 => absurd h2 (by omega)⟩
    rcases hd with ⟨y, hy, hyd⟩ | ⟨cr, c, c1, c2⟩
    · by_cases hye : y = e
      · subst hye
        by_cases hm0 : (w.req y.rid).msgId = 0
        · rw [(hq0 y hy).1 hm0] at hyd; cases hyd
        · refine Or.inl ⟨⟨a, .pub, (w.req y.rid).msgId, y.rid⟩, ?_, by rw [hreq1]; exact hyd⟩
          rw [hw1]; simp only [ne_eq, hm0, not_false_eq_true, ↓reduceIte]
          exact Ents.mem_insert_self _ _ _ _ _
      · exact Or.inl ⟨y, hsurv y hy hye, by rw [hreq1]; exact hyd⟩
    · exact Or.inr ⟨cr, c, hc1 ▸ c1, c2⟩
  have hq1 : Q0 w1 := by
    intro y hy
    have hold : ∀ y' ∈ w.ents, ((w1.req y'.rid).msgId = 0 → (w1.req y'.rid).dfd = none) ∧ QosOk w1 y' := fun y' hy' =>
      q0_entry (by rw [hreq1]) (by rw [hreq1]) (by rw [hreq1]) (hq0 y' hy')
    rw [hw1] at hy
    split at hy
    · rename_i hm0
      rcases Ents.mem_insert hy with hy | hy
      · exact hold y (Ents.mem_dropFirst hy)
      · subst hy
        -- the request moves from the queue to the publish window: it has an identifier, so its QoS is 1 or 2
        obtain ⟨q1, _, _, q4⟩ := hq0 e he
        obtain ⟨q5, q6⟩ := q4 heb
        refine ⟨by simp only [hreq1]; exact q1, by simp [QosOk], ?_, by simp [QosOk]⟩
        intro _
        simp only [hreq1]
        have : (w.req e.rid).qos ≠ 0 := fun hc => hm0 (q5.mpr hc)
        omega
    · exact hold y (Ents.mem_dropFirst hy)
  rw [hw2]
  exact ⟨hk1.trans hsame.keeps, hsame.q0 hq1⟩

theorem refillW_keeps {x : Option Nat} (p : Nat) (dup : Bool) (ppr : Proto) (hlive : ppr.lost = false) (fuel : Nat) :
    ∀ {w : World}, WInvX x w → w.protos.get? p = some ppr → Q0 w → Keeps w (refillW p dup fuel w) ∧ Q0 (refillW p dup fuel w) := by
  induction fuel with
  | zero => intro w _ _ hq; exact ⟨Keeps.refl w, hq⟩
  | succ f ih =>
    intro w h hpp hq
    have hpa : w.paddr p = ppr.addr := by simp [World.paddr, getD_of_get? hpp]
    simp only [refillW, hpa]
    cases hit : Ents.items w.ents ppr.addr .queue with
    | nil => exact ⟨Keeps.refl w, hq⟩
    | cons e rest =>
      simp only
      split
      · have hl := launch_inv h p dup ppr hpp hlive hit
        obtain ⟨k1, q1⟩ := launch_keeps h hq p dup ppr.addr hit
        have hp2 : (retryPublishW p e.rid dup
            (if (w.req e.rid).msgId ≠ 0 then
              (w.setEnts fun es => Ents.dropFirst es ppr.addr .queue).setEnts fun es => Ents.insert es ppr.addr .pub (w.req e.rid).msgId e.rid
             else w.setEnts fun es => Ents.dropFirst es ppr.addr .queue)).protos = w.protos := by
          rw [retryPublishW_protos]; split <;> rfl
        obtain ⟨k2, q2⟩ := ih hl (by rw [hp2]; exact hpp) q1
        exact ⟨k1.trans k2, q2⟩
      · exact ⟨Keeps.refl w, hq⟩

/-- summary of a transition for the Deferred bookkeeping, given that requests without identifier carry no Deferred -/
def KQ (w w' : World) : Prop := Q0 w → Keeps w w' ∧ Q0 w'

theorem KQ.refl (w : World) : KQ w w := fun h => ⟨Keeps.refl w, h⟩
theorem KQ.trans {a b c : World} (h1 : KQ a b) (h2 : KQ b c) : KQ a c := fun h =>
  ⟨(h1 h).1.trans (h2 (h1 h).2).1, (h2 (h1 h).2).2⟩
theorem CoreSame.kq {w w' : World} (h : CoreSame w w') : KQ w w' := fun hq => ⟨h.keeps, h.q0 hq⟩

/-! ### steps that touch nothing the Deferred bookkeeping reads -/

/-- `s` changes no container, no request's Deferred or identifier, no handshake record, fires and allocates nothing -/
def CS (s : Step) : Prop := ∀ w, CoreSame w (s w).1

theorem cs_ok : CS Step.ok := fun w => CoreSame.refl w
theorem cs_raise (e : Err) : CS (Step.raise e) := fun w => CoreSame.refl w
theorem cs_seq {a b : Step} (ha : CS a) (hb : CS b) : CS (a ;; b) := by
  intro w
  simp only [Step.seq]
  rcases hw : a w with ⟨w1, _ | e⟩
  · have := ha w; rw [hw] at this
    exact this.trans (hb w1)
  · have := ha w; rw [hw] at this; exact this
theorem cs_read {f : World → Step} (hf : ∀ w, CS (f w)) : CS (Step.read f) := fun w => hf w w
theorem cs_mod {f : World → World} (hf : ∀ w, CoreSame w (f w)) : CS (Step.mod f) := fun w => hf w
theorem cs_setProto (p : Nat) (f : Proto → Proto) : CS (setProto p f) := cs_mod fun _ => ⟨rfl, rfl, rfl, rfl, fun _ => ⟨rfl, rfl, rfl⟩⟩
theorem cs_emit (o : Obs) : CS (emit o) := cs_mod fun _ => ⟨rfl, rfl, rfl, rfl, fun _ => ⟨rfl, rfl, rfl⟩⟩
theorem cs_write (p : Nat) (b : Bytes) : CS (write p b) := cs_mod fun _ => ⟨rfl, rfl, rfl, rfl, fun _ => ⟨rfl, rfl, rfl⟩⟩
theorem cs_callLater (d : Rat) (k : TKind) {c : Nat → Step} (hc : ∀ t, CS (c t)) : CS (callLater d k c) :=
  cs_read fun _ => cs_seq (cs_mod fun _ => ⟨rfl, rfl, rfl, rfl, fun _ => ⟨rfl, rfl, rfl⟩⟩) (hc _)
theorem cs_cancelTimer (t : Nat) : CS (cancelTimer t) := by
  apply cs_read; intro w
  split
  · exact cs_raise _
  · split
    · exact cs_mod fun _ => ⟨rfl, rfl, rfl, rfl, fun _ => ⟨rfl, rfl, rfl⟩⟩
    · exact cs_raise _
    · exact cs_raise _
theorem cs_cancelAlarm (a : Option Nat) : CS (cancelAlarm a) := by
  cases a with
  | none => exact cs_raise _
  | some t => exact cs_cancelTimer t
theorem cs_retryPublish (p rid : Nat) (dup : Bool) : CS (retryPublish p rid dup) := cs_mod fun w => retryPublishW_same p rid dup w
theorem cs_retryRelease (p rid : Nat) (dup : Bool) : CS (retryRelease p rid dup) := cs_mod fun w => retryReleaseW_same p rid dup w
theorem cs_retrySubUnsub (p rid : Nat) (dup s : Bool) : CS (retrySubUnsub p rid dup s) := cs_mod fun w => retrySubUnsubW_same p rid dup s w
theorem cs_forEach {α : Type} (l : List α) {f : α → Step} (hf : ∀ a, CS (f a)) : CS (forEach l f) := by
  induction l with
  | nil => exact cs_ok
  | cons a r ih => exact cs_seq (hf a) ih

macro "cs_step" : tactic => `(tactic| first
  | with_reducible exact cs_ok | with_reducible exact cs_raise _ | with_reducible exact cs_emit _
  | with_reducible exact cs_write _ _ | with_reducible exact cs_setProto _ _
  | with_reducible exact cs_cancelTimer _ | with_reducible exact cs_cancelAlarm _
  | with_reducible exact cs_retryPublish _ _ _ | with_reducible exact cs_retryRelease _ _ _
  | with_reducible exact cs_retrySubUnsub _ _ _ _
  | (with_reducible apply cs_mod; intro w; exact ⟨rfl, rfl, rfl, rfl, fun _ => ⟨rfl, rfl, rfl⟩⟩)
  | with_reducible apply cs_seq | (with_reducible apply cs_read; intro w) | (with_reducible apply cs_callLater; intro t)
  | (with_reducible apply cs_forEach; intro e)
  | split
  | dsimp only)

macro "cs" : tactic => `(tactic| repeat cs_step)

theorem cs_deliver (p : Nat) (m : RxMsg) : CS (deliver p m) := by unfold deliver; cs
theorem cs_handlePUBLISH (p : Nat) (m : RxMsg) : CS (handlePUBLISH p m) := by
  unfold handlePUBLISH
  split
  · exact cs_deliver p m
  · split
    · split
      · exact cs_seq (cs_write _ _) (cs_deliver p m)
      · exact cs_raise _
    · cs
theorem cs_handlePUBREL (p m : Nat) : CS (handlePUBREL p m) := by
  unfold handlePUBREL
  apply cs_read; intro w
  apply cs_seq
  · split
    · exact cs_ok
    · exact cs_seq (cs_mod fun _ => ⟨rfl, rfl, rfl, rfl, fun _ => ⟨rfl, rfl, rfl⟩⟩) (cs_deliver p _)
  · cs
theorem cs_loopStop (p : Nat) : CS (loopStop p) := by unfold loopStop; cs
theorem cs_handlePINGRESP (p : Nat) : CS (handlePINGRESP p) := by unfold handlePINGRESP; cs
theorem cs_apiDisconnect (p : Nat) : CS (apiDisconnect p) := by unfold apiDisconnect; cs
theorem cs_apiSetWindow (p : Nat) (n : PyNum) : CS (apiSetWindow p n) := by unfold apiSetWindow; cs
theorem cs_apiSetTimeout (p : Nat) (n : PyNum) : CS (apiSetTimeout p n) := by unfold apiSetTimeout; cs
theorem cs_apiSetBandwith (p : Nat) (a b : Rat) : CS (apiSetBandwith p a b) := by unfold apiSetBandwith; cs
theorem cs_apiSetHandlers (p m : Nat) : CS (apiSetHandlers p m) := by unfold apiSetHandlers; cs


end Mqtt
