import MqttVerif.Proofs.Fire
import MqttVerif.Props.C17
/-
  The application-facing operations preserve the invariant (whether they return, fail their
  Deferred or raise).
-/
namespace Mqtt

/-! ### MQTTFactory.buildProtocol -/

theorem buildProtocol_inv {w : World} (h : WInv w) (a : Nat)
    (henv : ∀ p pr, w.protos.get? p = some pr → pr.addr = a → pr.lost = true) :
    (buildProtocol a w).2 = none ∧ WInv (buildProtocol a w).1 := by
  refine ⟨rfl, ?_⟩
  have hfresh : w.protos.get? w.nextProto = none := by
    cases hg : w.protos.get? w.nextProto with
    | none => rfl
    | some pr => exact absurd (h.protoFresh _ _ hg) (Nat.lt_irrefl _)
  have hprot : ∀ q, (buildProtocol a w).1.protos.get? q = if w.nextProto = q then some { addr := a } else w.protos.get? q := by
    intro q; simp only [buildProtocol, Step.mod, Dict.get?_set]
  have hold : ∀ q qr, w.protos.get? q = some qr → (buildProtocol a w).1.protos.get? q = some qr := by
    intro q qr hq
    rw [hprot]
    have := h.protoFresh q qr hq
    have : ¬ w.nextProto = q := by omega
    simp [this, hq]
  have hP : ∀ t k, Pending (buildProtocol a w).1 t k ↔ Pending w t k := fun _ _ => Iff.rfl
  constructor
  case nodup => exact h.nodup
  case ridFresh => exact h.ridFresh
  case ridUnique => exact h.ridUnique
  case idUnique => exact h.idUnique
  case keyId => exact h.keyId
  case queueNoAlarm => exact h.queueNoAlarm
  case idCounter => exact h.idCounter
  case timerFresh => exact h.timerFresh
  case firedFresh => exact h.firedFresh
  case crFresh => exact h.crFresh
  case protoFresh =>
    intro q qr hq
    rw [hprot] at hq
    show q < w.nextProto + 1
    split at hq
    · omega
    · exact Nat.lt_succ_of_lt (h.protoFresh q qr hq)
  case dfdFresh => exact h.dfdFresh
  case dfdSome => exact h.dfdSome
  case dfdInj => exact h.dfdInj
  case alarm =>
    intro e he t ht
    obtain ⟨a1, q, qr, a2, a3, a4⟩ := h.alarm e he t ht
    exact ⟨a1, q, qr, a2, hold q qr a3, a4⟩
  case noStale => exact h.noStale
  case connected =>
    intro q qr hq hx hl hs
    rw [hprot] at hq
    split at hq
    · injection hq with hq; subst hq; cases hs
    · exact h.connected q qr hq hx hl hs
  case oneLive =>
    intro q1 q2 r1 r2 h1 h2 l1 l2 ha
    rw [hprot] at h1 h2
    split at h1 <;> split at h2
    · rename_i e1 e2; rw [← e1, ← e2]
    · injection h1 with h1; subst h1
      have := henv q2 r2 h2 ha.symm
      rw [l2] at this; cases this
    · injection h2 with h2; subst h2
      have := henv q1 r1 h1 ha
      rw [l1] at this; cases this
    · exact h.oneLive q1 q2 r1 r2 h1 h2 l1 l2 ha
  case lostIdle =>
    intro q qr hq hl
    rw [hprot] at hq
    split at hq
    · injection hq with hq; subst hq; cases hl
    · exact h.lostIdle q qr hq hl
  case pingAlarm =>
    intro q qr t hq ht
    rw [hprot] at hq
    split at hq
    · injection hq with hq; subst hq; cases ht
    · exact h.pingAlarm q qr t hq ht
  case pingTimer =>
    intro q qr l hq hl
    rw [hprot] at hq
    split at hq
    · injection hq with hq; subst hq; cases hl
    · exact h.pingTimer q qr l hq hl
  case pingAlarmOwned =>
    intro t q hp
    obtain ⟨pr, a1, a2⟩ := h.pingAlarmOwned t q hp
    exact ⟨pr, hold q pr a1, a2⟩
  case pingLoopOwned =>
    intro t q hp
    obtain ⟨pr, l, a1, a2, a3⟩ := h.pingLoopOwned t q hp
    exact ⟨pr, l, hold q pr a1, a2, a3⟩
  case connecting =>
    intro q qr hq hs
    rw [hprot] at hq
    split at hq
    · injection hq with hq; subst hq; cases hs
    · exact h.connecting q qr hq hs
  case connReq => exact h.connReq
  case connReqInj => exact h.connReqInj
  case connReqFresh => exact h.connReqFresh
  case connackOwned =>
    intro t cr hp
    obtain ⟨c, d, a1, a2, a3, a4, pr, a5, a6⟩ := h.connackOwned t cr hp
    exact ⟨c, d, a1, a2, a3, a4, pr, hold _ pr a5, a6⟩
  case retryLive =>
    intro t q rid hp
    obtain ⟨pr, a1, a2⟩ := h.retryLive t q rid hp
    exact ⟨pr, hold q pr a1, a2⟩
  case connReqLive =>
    intro q qr cr c hq hcq
    rw [hprot] at hq
    split at hq
    · injection hq with hq; subst hq; cases hcq
    · exact h.connReqLive q qr cr c hq hcq
  case subArmed =>
    intro e he hb ha
    obtain ⟨q, qr, a1, _⟩ := h.subArmed e he hb ha
    cases a1
  case profileOk => exact h.profileOk
  case bufOk =>
    intro q qr hq
    rw [hprot] at hq
    split at hq
    · injection hq with hq; subst hq; intro b hb; cases hb
    · exact h.bufOk q qr hq

/-! ### setters, handlers, disconnect -/

theorem inertProto_inv {x : Option Nat} {w : World} (h : WInvX x w) (p : Nat) (ppr : Proto) (hpp : w.protos.get? p = some ppr)
    (f : Proto → Proto)
    (hf : (f ppr).addr = ppr.addr ∧ (f ppr).state = ppr.state ∧ (f ppr).lost = ppr.lost ∧ (f ppr).pingTimer = ppr.pingTimer ∧
      (f ppr).pingAlarm = ppr.pingAlarm ∧ (f ppr).pingKeepalive = ppr.pingKeepalive ∧ (f ppr).connReq = ppr.connReq ∧
      (f ppr).buffer = ppr.buffer) :
    (setProto p f w).2 = none ∧ WInvX x (setProto p f w).1 := by
  rw [setProto_apply]
  exact ⟨rfl, h.sameCore (setProto_sameCore p f ppr hpp h.idCounter
    ⟨hf.1, hf.2.1, hf.2.2.1, hf.2.2.2.1, hf.2.2.2.2.1, hf.2.2.2.2.2.1, hf.2.2.2.2.2.2.1, fun hb => by rw [hf.2.2.2.2.2.2.2]; exact hb⟩)⟩

theorem apiSetHandlers_inv {w : World} (h : WInv w) (p : Nat) (mask : Nat) (hex : Exists w p) :
    (apiSetHandlers p mask w).2 = none ∧ WInv (apiSetHandlers p mask w).1 := by
  obtain ⟨ppr, hpp⟩ := hex
  exact inertProto_inv h p ppr hpp _ ⟨rfl, rfl, rfl, rfl, rfl, rfl, rfl, rfl⟩

theorem apiSetWindow_inv {w : World} (h : WInv w) (p : Nat) (n : PyNum) (hex : Exists w p) : WInv (apiSetWindow p n w).1 := by
  obtain ⟨ppr, hpp⟩ := hex
  cases n with
  | none => exact h
  | int n' =>
    simp only [apiSetWindow]
    split
    · exact h
    · obtain ⟨a, b⟩ := inertProto_inv h p ppr hpp (fun pr => { pr with window := min n'.toNat Config.maxWindow }) ⟨rfl, rfl, rfl, rfl, rfl, rfl, rfl, rfl⟩
      rw [seq_ok (Prod.ext rfl a)]
      exact emit_inv b _

theorem apiSetTimeout_inv {w : World} (h : WInv w) (p : Nat) (n : PyNum) (hex : Exists w p) : WInv (apiSetTimeout p n w).1 := by
  obtain ⟨ppr, hpp⟩ := hex
  cases n with
  | none => exact h
  | int n' =>
    simp only [apiSetTimeout]
    split
    · exact h
    · obtain ⟨a, b⟩ := inertProto_inv h p ppr hpp (fun pr => { pr with initialT := n'.toNat }) ⟨rfl, rfl, rfl, rfl, rfl, rfl, rfl, rfl⟩
      rw [seq_ok (Prod.ext rfl a)]
      exact emit_inv b _

theorem apiSetBandwith_inv {w : World} (h : WInv w) (p : Nat) (bw f : Rat) (hex : Exists w p) : WInv (apiSetBandwith p bw f w).1 := by
  obtain ⟨ppr, hpp⟩ := hex
  unfold apiSetBandwith
  split
  · exact h
  · split
    · exact h
    · obtain ⟨a, b⟩ := inertProto_inv h p ppr hpp (fun pr => { pr with bandwith := bw, factor := f }) ⟨rfl, rfl, rfl, rfl, rfl, rfl, rfl, rfl⟩
      rw [seq_ok (Prod.ext rfl a)]
      exact emit_inv b _

theorem apiDisconnect_inv {w : World} (h : WInv w) (p : Nat) : WInv (apiDisconnect p w).1 := by
  simp only [apiDisconnect, read_apply]
  split
  · rw [seq_ok (write_apply p encodeDISCONNECT w), seq_ok (emit_apply (.close p) _)]
    exact emit_inv (emit_inv (emit_inv h _) _) _
  · exact h

/-! ### publish() -/

/-- the request object is created, appended to the queue of held-back messages, and the window refilled -/
def mkStep (p : Nat) (pr : Proto) (qosn : Nat) (msgId : Nat) (dfd : Option Nat) (bs : Bytes) : Step :=
  Step.read fun w =>
    let rid := w.nextReq
    Step.mod (fun w => { w with
      reqs := w.reqs.set rid { kind := .publish, msgId := msgId, qos := qosn, encoded := bs, dfd := dfd,
                               alarm := none, initial := pr.initialT, ivValue := pr.initialT, ivK := 1,
                               bandwith := pr.bandwith, factor := pr.factor, seq := w.nextSeq },
      nextReq := rid + 1, nextSeq := w.nextSeq + 1 }) ;;
    setEnts (fun es => es ++ [⟨w.paddr p, .queue, 0, rid⟩]) ;;
    refill p

theorem apiPublish_eq (p : Nat) (topic : PyStr) (payload : Payload) (qos : Int) (retain : Bool) (w : World) :
    apiPublish p topic payload qos retain w =
      (if !allowed w p 4 then emit (.retFail .state)
       else if ¬ (0 ≤ qos ∧ qos < 3) then emit (.retFail .value)
       else if qos = 0 then
         match encodePublishPy topic payload 0 retain none with
         | .error e => emit (.retFail e)
         | .ok bs => mkStep p (w.proto p) qos.toNat 0 none bs ;; emit (.retOk .none)
       else
         makeId fun i =>
           match encodePublishPy topic payload qos.toNat retain (some (i : Int)) with
           | .error e => emit (.retFail e)
           | .ok bs => newDfd fun d => mkStep p (w.proto p) qos.toNat i (some d) bs ;; emit (.retPending d (some i))) w := rfl

theorem idInUse_false {w : World} {i : Nat} (h : idInUse w i = false) : ∀ y ∈ w.ents, idOf w y ≠ i := by
  intro y hy hc
  simp only [idInUse, List.any_eq_false] at h
  have := h y hy
  simp only [idOf] at hc
  split at hc <;> simp_all

theorem mkStep_inv {x : Option Nat} {w : World} (h : WInvX x w) (p : Nat) (ppr : Proto) (hpp : w.protos.get? p = some ppr)
    (hnl : ppr.lost = false) (pr : Proto) (qosn msgId : Nat) (dfd : Option Nat) (bs : Bytes)
    (hidf : msgId ≠ 0 → ∀ y ∈ w.ents, idOf w y ≠ msgId)
    (hsome : msgId ≠ 0 → dfd ≠ none)
    (hd : ∀ d, dfd = some d → d < w.nextDfd ∧ d ∉ w.fired ∧ (∀ y ∈ w.ents, (w.req y.rid).dfd ≠ some d) ∧
      (∀ cr c, w.connReqs.get? cr = some c → c.dfd ≠ some d)) :
    (mkStep p pr qosn msgId dfd bs w).2 = none ∧ WInvX x (mkStep p pr qosn msgId dfd bs w).1 := by
  have hpa : w.paddr p = ppr.addr := by simp [World.paddr, getD_of_get? hpp]
  have hQ := addQueue_inv h ppr.addr w.nextReq
    { kind := .publish, msgId := msgId, qos := qosn, encoded := bs, dfd := dfd, alarm := none, initial := pr.initialT,
      ivValue := pr.initialT, ivK := 1, bandwith := pr.bandwith, factor := pr.factor, seq := w.nextSeq }
    (w.nextReq + 1) w.nextDfd (w.nextSeq + 1)
    (fun y hy hc => by have := h.ridFresh y hy; omega) (Nat.lt_succ_self _) (Nat.le_succ _) (Nat.le_refl _) hidf rfl hsome hd
  simp only [mkStep, read_apply, hpa]
  have s1 : (Step.mod (fun w' : World => { w' with
      reqs := w'.reqs.set w.nextReq { kind := .publish, msgId := msgId, qos := qosn, encoded := bs, dfd := dfd, alarm := none, initial := pr.initialT, ivValue := pr.initialT, ivK := 1, bandwith := pr.bandwith, factor := pr.factor, seq := w'.nextSeq },
      nextReq := w.nextReq + 1, nextSeq := w'.nextSeq + 1 }) ;;
    setEnts (fun es => es ++ [⟨ppr.addr, .queue, 0, w.nextReq⟩])) w
      = (addQueue w ppr.addr w.nextReq
          { kind := .publish, msgId := msgId, qos := qosn, encoded := bs, dfd := dfd, alarm := none, initial := pr.initialT,
            ivValue := pr.initialT, ivK := 1, bandwith := pr.bandwith, factor := pr.factor, seq := w.nextSeq }
          (w.nextReq + 1) w.nextDfd (w.nextSeq + 1), none) := rfl
  rw [← seq_assoc, seq_ok s1]
  exact ⟨rfl, (refillW_inv (x := x) p false ppr _ hQ hpp hnl).1⟩

/-- the identifier counter moves, the allocation counter counts, a Deferred id is taken -/
theorem counters_inv {x : Option Nat} {w : World} (h : WInvX x w) (i k nd : Nat) (hi : i ≤ 65535) (hnd : w.nextDfd ≤ nd) :
    WInvX x { w with nextId := i, idAllocs := k, nextDfd := nd } := by
  have hs := sameCore_fields w w rfl rfl rfl rfl rfl rfl rfl h.idCounter rfl rfl rfl rfl rfl rfl
  exact h.sameCore { hs with nextId := hi, nextDfd := hnd }

theorem live_of_allowed {x : Option Nat} {w : World} (h : WInvX x w) (p : Nat) (ppr : Proto) (hpp : w.protos.get? p = some ppr)
    (op : Nat) (hop : op < 15) (hop0 : op ≠ 0) (ha : allowed w p op = true) : ppr.lost = false ∧ ppr.state ≠ .idle := by
  have hst := allowed_state h p ppr hpp op hop ha
  have hni : ppr.state ≠ .idle := by
    by_cases h6 : op = 6
    · rw [hst.2.1 h6]; simp
    · by_cases h4 : op = 4
      · exact hst.2.2.2 h4
      · rw [hst.2.2.1 hop0 h6 h4]; simp
  refine ⟨?_, hni⟩
  cases hl : ppr.lost with
  | false => rfl
  | true => exact absurd (h.lostIdle p ppr hpp hl).1 hni

/-- MQTTProtocol.publish: never raises; the invariant is kept whatever the outcome -/
theorem apiPublish_inv {w : World} (h : WInv w) (p : Nat) (topic : PyStr) (payload : Payload) (qos : Int) (retain : Bool)
    (hex : Exists w p) (hfree : FreeId w) :
    (apiPublish p topic payload qos retain w).2 = none ∧ WInv (apiPublish p topic payload qos retain w).1 := by
  obtain ⟨ppr, hpp⟩ := hex
  rw [apiPublish_eq]
  by_cases ha : allowed w p 4 = true
  · simp only [ha, Bool.not_true, Bool.false_eq_true, ↓reduceIte]
    obtain ⟨hnl, _⟩ := live_of_allowed h p ppr hpp 4 (by omega) (by omega) ha
    split
    · exact ⟨rfl, emit_inv h _⟩
    · split
      · -- QoS 0
        cases henc : encodePublishPy topic payload 0 retain none with
        | error e => exact ⟨rfl, emit_inv h _⟩
        | ok bs =>
          simp only
          obtain ⟨a, b⟩ := mkStep_inv h p ppr hpp hnl (w.proto p) qos.toNat 0 none bs (fun hc => absurd rfl hc) (fun hc => absurd rfl hc)
            (fun d hd => by cases hd)
          rw [seq_ok (Prod.ext rfl a)]
          exact ⟨rfl, emit_inv b _⟩
      · -- QoS 1, 2
        obtain ⟨i, hi1, hi2, hi3, hmk⟩ := C17.makeId_counter w (fun i =>
           match encodePublishPy topic payload qos.toNat retain (some (i : Int)) with
           | .error e => emit (.retFail e)
           | .ok bs => newDfd fun d => mkStep p (w.proto p) qos.toNat i (some d) bs ;; emit (.retPending d (some i)))
        rw [hmk]
        have hfr : idInUse w i = false := by rw [hi3]; exact C17.scanId_fresh w w.nextId h.idCounter hfree
        cases henc : encodePublishPy topic payload qos.toNat retain (some (i : Int)) with
        | error e => exact ⟨rfl, emit_inv (counters_inv h i _ w.nextDfd hi2 (Nat.le_refl _)) _⟩
        | ok bs =>
          simp only [newDfd, read_apply]
          have s1 : Step.mod (fun w' : World => { w' with nextDfd := w.nextDfd + 1 }) { w with nextId := i, idAllocs := w.idAllocs + 1 }
              = ({ w with nextId := i, idAllocs := w.idAllocs + 1, nextDfd := w.nextDfd + 1 }, none) := rfl
          rw [seq_ok s1]
          have h2 := counters_inv h i (w.idAllocs + 1) (w.nextDfd + 1) hi2 (Nat.le_succ _)
          obtain ⟨a, b⟩ := mkStep_inv h2 p ppr hpp hnl (w.proto p) qos.toNat i (some w.nextDfd) bs
            (fun _ => idInUse_false hfr) (fun _ => by simp)
            (fun d hd => by
              injection hd with hd; subst hd
              refine ⟨Nat.lt_succ_self _, fun hc => Nat.lt_irrefl _ (h.firedFresh _ hc), fun y hy hc => ?_, fun cr c hc hcd => ?_⟩
              · exact Nat.lt_irrefl _ (h.dfdFresh y hy _ hc).1
              · exact Nat.lt_irrefl _ (h.connReqFresh cr c _ hc hcd))
          rw [seq_ok (Prod.ext rfl a)]
          exact ⟨rfl, emit_inv b _⟩
  · simp only [ha, Bool.not_false, ↓reduceIte]
    exact ⟨rfl, emit_inv h _⟩

/-! ### subscribe() / unsubscribe() -/

theorem registerSubUnsub_inv {x : Option Nat} {w : World} (h : WInvX x w) (p : Nat) (ppr : Proto) (hpp : w.protos.get? p = some ppr)
    (hnl : ppr.lost = false) (isSub : Bool) (i : Nat) (hi0 : i ≠ 0) (hfr : idInUse w i = false) (bs : Bytes) :
    (registerSubUnsub p isSub i bs w).2 = none ∧ WInvX x (registerSubUnsub p isSub i bs w).1 := by
  have hpa : w.paddr p = ppr.addr := by simp [World.paddr, getD_of_get? hpp]
  have hidf := idInUse_false hfr
  generalize hbox : (if isSub then Box.sub else Box.unsub) = box
  have hbq : box ≠ .queue := by cases isSub <;> simp at hbox <;> subst hbox <;> simp
  let nr : Req := { kind := if isSub then .subscribe else .unsubscribe, msgId := i, qos := 1, encoded := bs, dfd := some w.nextDfd, alarm := none, initial := ppr.initialT, ivValue := ppr.initialT, ivK := 1, bandwith := 1, factor := 1, seq := 0 }
  have hA := addWindow_inv h ppr.addr box i w.nextReq { nr with alarm := some w.nextTimer } p 0 (w.nextReq + 1) (w.nextDfd + 1) []
    (fun y hy hc => by have := h.ridFresh y hy; omega)
    (Nat.lt_succ_self _) (Nat.le_succ _) (Nat.le_succ _)
    (by
      intro t' q hp
      obtain ⟨y, hy, hy1, _⟩ := h.noStale t' q _ hp
      have := h.ridFresh y hy
      omega)
    hbq rfl hi0 hidf rfl w.nextDfd rfl (Nat.lt_succ_self _) (fun hc => Nat.lt_irrefl _ (h.firedFresh _ hc))
    (fun y hy hc => Nat.lt_irrefl _ (h.dfdFresh y hy _ hc).1)
    (fun cr c hc hcd => Nat.lt_irrefl _ (h.connReqFresh cr c _ hc hcd))
    ppr hpp rfl hnl
  have hlook : Ents.lookup w.ents ppr.addr box i = none := by
    cases hl2 : Ents.lookup w.ents ppr.addr box i with
    | none => rfl
    | some r2 => exact absurd (by simp [idOf, hbq]) (hidf _ (Ents.lookup_some hl2))
  have hins : Ents.insert w.ents ppr.addr box i w.nextReq = w.ents ++ [⟨ppr.addr, box, i, w.nextReq⟩] :=
    Ents.insert_of_lookup_none _ hlook
  let w4 : World := { w with nextDfd := w.nextDfd + 1, reqs := w.reqs.set w.nextReq nr, nextReq := w.nextReq + 1,
                             ents := w.ents ++ [⟨ppr.addr, box, i, w.nextReq⟩] }
  have hstep : registerSubUnsub p isSub i bs w = ((retrySubUnsubW p w.nextReq false isSub w4).emit (.retPending w.nextDfd (some i)), none) := by
    simp only [registerSubUnsub, read_apply, newDfd, getD_of_get? hpp, hpa, hbox]
    have s1 : Step.mod (fun w' : World => { w' with nextDfd := w.nextDfd + 1 }) w = ({ w with nextDfd := w.nextDfd + 1 }, none) := rfl
    rw [seq_ok s1]
    simp only [Step.seq, Step.mod, setEnts, World.setEnts, retrySubUnsub, emit]
    rw [hins]
  rw [hstep]
  refine ⟨rfl, emit_inv (hA.sameCore ?_) _⟩
  have hA1 : ∀ r, (addWindow w ppr.addr box i w.nextReq { nr with alarm := some w.nextTimer } p 0 (w.nextReq + 1) (w.nextDfd + 1) []).req r
      = if w.nextReq = r then { nr with alarm := some w.nextTimer } else w.req r := fun r => req_set w w.nextReq _ r _ rfl
  have h4req : ∀ r, w4.req r = if w.nextReq = r then nr else w.req r := fun r => req_set w w.nextReq _ r _ rfl
  apply sameCore_of
  · simp only [retrySubUnsubW]; split <;> simp [addWindow, w4]
  · intro r
    rw [hA1]
    simp only [retrySubUnsubW]
    split <;>
    · simp only [emit_req, req_setReq, callLater_req, h4req]
      by_cases hr : w.nextReq = r
      · subst hr; simp [nr, w4]
      · simp [hr]
  · intro t'
    simp only [retrySubUnsubW]
    split <;>
    · simp only [emit_timers, setReq_timers, callLater_timers, setReq_nextTimer, addWindow, addT, Dict.get?_set, w4]
      by_cases ht' : w.nextTimer = t'
      · simp [ht']
      · simp only [ht', ↓reduceIte]
  all_goals first
    | (simp only [retrySubUnsubW]; split <;> first | rfl | simp [addWindow, w4, h.idCounter])
    | exact hA.idCounter

theorem makeId_apply (k : Nat → Step) (w : World) :
    makeId k w = k (scanId w 65535 w.nextId) { w with nextId := scanId w 65535 w.nextId, idAllocs := w.idAllocs + 1 } := by
  simp [makeId, Step.read, Step.seq, Step.mod]

/-- MQTTFactory.makeId followed by anything that copes with a fresh identifier -/
theorem makeId_inv {w : World} (h : WInv w) (hfree : FreeId w) (k : Nat → Step)
    (hk : ∀ i, 1 ≤ i → i ≤ 65535 → idInUse w i = false → WInv { w with nextId := i, idAllocs := w.idAllocs + 1 } →
      (k i { w with nextId := i, idAllocs := w.idAllocs + 1 }).2 = none ∧ WInv (k i { w with nextId := i, idAllocs := w.idAllocs + 1 }).1) :
    (makeId k w).2 = none ∧ WInv (makeId k w).1 := by
  rw [makeId_apply]
  exact hk _ (C17.scanId_range w _).1 (C17.scanId_range w _).2 (C17.scanId_fresh w w.nextId h.idCounter hfree)
    (counters_inv h _ _ w.nextDfd (C17.scanId_range w _).2 (Nat.le_refl _))

/-- MQTTProtocol.subscribe: never raises; the invariant is kept whatever the outcome -/
theorem apiSubscribe_inv {w : World} (h : WInv w) (p : Nat) (arg : SubArg) (qos : Int) (hex : Exists w p) (hfree : FreeId w) :
    (apiSubscribe p arg qos w).2 = none ∧ WInv (apiSubscribe p arg qos w).1 := by
  obtain ⟨ppr, hpp⟩ := hex
  simp only [apiSubscribe, read_apply]
  by_cases ha : allowed w p 2 = true
  · simp only [ha, Bool.not_true, Bool.false_eq_true, ↓reduceIte]
    obtain ⟨hnl, _⟩ := live_of_allowed h p ppr hpp 2 (by omega) (by omega) ha
    by_cases hwin : Ents.count w.ents (w.paddr p) .sub ≥ (w.proto p).window
    · simp only [hwin, ↓reduceIte]; exact ⟨rfl, emit_inv h _⟩
    · simp only [hwin, ↓reduceIte]
      cases arg with
      | other => exact ⟨rfl, emit_inv h _⟩
      | _ =>
        simp only []
        split
        · exact ⟨rfl, emit_inv h _⟩
        · rw [makeId_apply]
          have hi := C17.scanId_range w w.nextId
          have hfr := C17.scanId_fresh w w.nextId h.idCounter hfree
          have h1 := counters_inv h (scanId w 65535 w.nextId) (w.idAllocs + 1) w.nextDfd hi.2 (Nat.le_refl _)
          generalize encodeWithId _ _ _ = E
          cases E with
          | error e => exact ⟨rfl, emit_inv h1 _⟩
          | ok bs => exact registerSubUnsub_inv h1 p ppr hpp hnl true _ (by omega) hfr bs
  · simp only [ha, Bool.not_false, ↓reduceIte]
    exact ⟨rfl, emit_inv h _⟩

/-- MQTTProtocol.unsubscribe (two identifiers are drawn): never raises; the invariant is kept -/
theorem apiUnsubscribe_inv {w : World} (h : WInv w) (p : Nat) (arg : UnsubArg) (hex : Exists w p) (hfree : FreeId w) :
    (apiUnsubscribe p arg w).2 = none ∧ WInv (apiUnsubscribe p arg w).1 := by
  obtain ⟨ppr, hpp⟩ := hex
  simp only [apiUnsubscribe, read_apply]
  by_cases ha : allowed w p 3 = true
  · simp only [ha, Bool.not_true, Bool.false_eq_true, ↓reduceIte]
    obtain ⟨hnl, _⟩ := live_of_allowed h p ppr hpp 3 (by omega) (by omega) ha
    rw [makeId_apply]
    have hi02 := (C17.scanId_range w w.nextId).2
    have h1' := counters_inv h (scanId w 65535 w.nextId) (w.idAllocs + 1) w.nextDfd hi02 (Nat.le_refl _)
    obtain ⟨w1, hw1⟩ : ∃ w1 : World, w1 = { w with nextId := scanId w 65535 w.nextId, idAllocs := w.idAllocs + 1 } := ⟨_, rfl⟩
    rw [← hw1] at h1' ⊢
    have hpp1 : w1.protos.get? p = some ppr := by rw [hw1]; exact hpp
    have hfree1 : FreeId w1 := by rw [hw1]; exact hfree
    simp only [read_apply]
    by_cases hwin : Ents.count w1.ents (w1.paddr p) .unsub ≥ (w1.proto p).window
    · simp only [hwin, ↓reduceIte]; exact ⟨rfl, emit_inv h1' _⟩
    · simp only [hwin, ↓reduceIte]
      cases arg with
      | other => exact ⟨rfl, emit_inv h1' _⟩
      | _ =>
        simp only []
        rw [makeId_apply]
        have hi := C17.scanId_range w1 w1.nextId
        have hfr := C17.scanId_fresh w1 w1.nextId h1'.idCounter hfree1
        have h2 := counters_inv h1' (scanId w1 65535 w1.nextId) (w1.idAllocs + 1) w1.nextDfd hi.2 (Nat.le_refl _)
        generalize encodeWithId _ _ _ = E
        cases E with
        | error e => exact ⟨rfl, emit_inv h2 _⟩
        | ok bs => exact registerSubUnsub_inv h2 p ppr hpp1 hnl false _ (by omega) hfr bs
  · simp only [ha, Bool.not_false, ↓reduceIte]
    exact ⟨rfl, emit_inv h _⟩

end Mqtt
