import MqttVerif.Proofs.Fire
import MqttVerif.Props.C17
/-
  The application-facing operations preserve the invariant (whether they return, fail their
  Deferred or raise).
-/
namespace Mqtt

/-! ### MQTTFactory.buildProtocol -/

theorem buildProtocol_inv {w : World} (h : WInv w) (a : Nat)
    (henv : ∀ p pr, w.protos.get? p = some pr → pr.addr = a → pr.lost = true) :
    (buildProtocol a w).2 = none ∧ WInv (buildProtocol a w).1 := by
  refine ⟨rfl, ?_⟩
  have hfresh : w.protos.get? w.nextProto = none := by
    cases hg : w.protos.get? w.nextProto with
    | none => rfl
    | some pr => exact absurd (h.protoFresh _ _ hg) (Nat.lt_irrefl _)
  have hprot : ∀ q, (buildProtocol a w).1.protos.get? q = if w.nextProto = q then some { addr := a } else w.protos.get? q := by
    intro q; simp only [buildProtocol, Step.mod, Dict.get?_set]
  have hold : ∀ q qr, w.protos.get? q = some qr → (buildProtocol a w).1.protos.get? q = some qr := by
    intro q qr hq
    rw [hprot]
    have := h.protoFresh q qr hq
    have : ¬ w.nextProto = q := by omega
    simp [this, hq]
  have hP : ∀ t k, Pending (buildProtocol a w).1 t k ↔ Pending w t k := fun _ _ => Iff.rfl
  constructor
  case nodup => exact h.nodup
  case ridFresh => exact h.ridFresh
  case ridUnique => exact h.ridUnique
  case idUnique => exact h.idUnique
  case keyId => exact h.keyId
  case queueNoAlarm => exact h.queueNoAlarm
  case idCounter => exact h.idCounter
  case timerFresh => exact h.timerFresh
  case firedFresh => exact h.firedFresh
  case crFresh => exact h.crFresh
  case protoFresh =>
    intro q qr hq
    rw [hprot] at hq
    show q < w.nextProto + 1
    split at hq
    · omega
    · exact Nat.lt_succ_of_lt (h.protoFresh q qr hq)
  case dfdFresh => exact h.dfdFresh
  case dfdSome => exact h.dfdSome
  case dfdInj => exact h.dfdInj
  case alarm =>
    intro e he t ht
    obtain ⟨a1, q, qr, a2, a3, a4⟩ := h.alarm e he t ht
    exact ⟨a1, q, qr, a2, hold q qr a3, a4⟩
  case noStale => exact h.noStale
  case connected =>
    intro q qr hq hx hl hs
    rw [hprot] at hq
    split at hq
    · injection hq with hq; subst hq; cases hs
    · exact h.connected q qr hq hx hl hs
  case oneLive =>
    intro q1 q2 r1 r2 h1 h2 l1 l2 ha
    rw [hprot] at h1 h2
    split at h1 <;> split at h2
    · rename_i e1 e2; rw [← e1, ← e2]
    · injection h1 with h1; subst h1
      have := henv q2 r2 h2 ha.symm
      rw [l2] at this; cases this
    · injection h2 with h2; subst h2
      have := henv q1 r1 h1 ha
      rw [l1] at this; cases this
    · exact h.oneLive q1 q2 r1 r2 h1 h2 l1 l2 ha
  case lostIdle =>
    intro q qr hq hl
    rw [hprot] at hq
    split at hq
    · injection hq with hq; subst hq; cases hl
    · exact h.lostIdle q qr hq hl
  case pingAlarm =>
    intro q qr t hq ht
    rw [hprot] at hq
    split at hq
    · injection hq with hq; subst hq; cases ht
    · exact h.pingAlarm q qr t hq ht
  case pingTimer =>
    intro q qr l hq hl
    rw [hprot] at hq
    split at hq
    · injection hq with hq; subst hq; cases hl
    · exact h.pingTimer q qr l hq hl
  case pingAlarmOwned =>
    intro t q hp
    obtain ⟨pr, a1, a2⟩ := h.pingAlarmOwned t q hp
    exact ⟨pr, hold q pr a1, a2⟩
  case pingLoopOwned =>
    intro t q hp
    obtain ⟨pr, l, a1, a2, a3⟩ := h.pingLoopOwned t q hp
    exact ⟨pr, l, hold q pr a1, a2, a3⟩
  case connecting =>
    intro q qr hq hs
    rw [hprot] at hq
    split at hq
    · injection hq with hq; subst hq; cases hs
    · exact h.connecting q qr hq hs
  case connReq => exact h.connReq
  case connReqInj => exact h.connReqInj
  case connReqFresh => exact h.connReqFresh
  case connackOwned =>
    intro t cr hp
    obtain ⟨c, d, a1, a2, a3, a4, pr, a5, a6⟩ := h.connackOwned t cr hp
    exact ⟨c, d, a1, a2, a3, a4, pr, hold _ pr a5, a6⟩
  case retryLive =>
    intro t q rid hp
    obtain ⟨pr, a1, a2⟩ := h.retryLive t q rid hp
    exact ⟨pr, hold q pr a1, a2⟩
  case connReqLive =>
    intro q qr cr c hq hcq
    rw [hprot] at hq
    split at hq
    · injection hq with hq; subst hq; cases hcq
    · exact h.connReqLive q qr cr c hq hcq
  case connReqRef =>
    intro q qr cr hq hcq
    rw [hprot] at hq
    split at hq
    · injection hq with hq; subst hq; cases hcq
    · exact h.connReqRef q qr cr hq hcq
  case subArmed =>
    intro e he hb ha
    obtain ⟨q, qr, a1, _⟩ := h.subArmed e he hb ha
    cases a1
  case profileOk => exact h.profileOk
  case bufOk =>
    intro q qr hq
    rw [hprot] at hq
    split at hq
    · injection hq with hq; subst hq; intro b hb; cases hb
    · exact h.bufOk q qr hq

/-! ### setters, handlers, disconnect -/

theorem inertProto_inv {x : Option Nat} {w : World} (h : WInvX x w) (p : Nat) (ppr : Proto) (hpp : w.protos.get? p = some ppr)
    (f : Proto → Proto)
    (hf : (f ppr).addr = ppr.addr ∧ (f ppr).state = ppr.state ∧ (f ppr).lost = ppr.lost ∧ (f ppr).pingTimer = ppr.pingTimer ∧
      (f ppr).pingAlarm = ppr.pingAlarm ∧ (f ppr).pingKeepalive = ppr.pingKeepalive ∧ (f ppr).connReq = ppr.connReq ∧
      (f ppr).buffer = ppr.buffer) :
    (setProto p f w).2 = none ∧ WInvX x (setProto p f w).1 := by
  rw [setProto_apply]
  exact ⟨rfl, h.sameCore (setProto_sameCore p f ppr hpp h.idCounter
    ⟨hf.1, hf.2.1, hf.2.2.1, hf.2.2.2.1, hf.2.2.2.2.1, hf.2.2.2.2.2.1, hf.2.2.2.2.2.2.1, fun hb => by rw [hf.2.2.2.2.2.2.2]; exact hb⟩)⟩

theorem apiSetHandlers_inv {w : World} (h : WInv w) (p : Nat) (mask : Nat) (hex : Exists w p) :
    (apiSetHandlers p mask w).2 = none ∧ WInv (apiSetHandlers p mask w).1 := by
  obtain ⟨ppr, hpp⟩ := hex
  exact inertProto_inv h p ppr hpp _ ⟨rfl, rfl, rfl, rfl, rfl, rfl, rfl, rfl⟩

theorem apiSetWindow_inv {w : World} (h : WInv w) (p : Nat) (n : PyNum) (hex : Exists w p) : WInv (apiSetWindow p n w).1 := by
  obtain ⟨ppr, hpp⟩ := hex
  cases n with
  | none => exact h
  | int n' =>
    simp only [apiSetWindow]
    split
    · exact h
    · obtain ⟨a, b⟩ := inertProto_inv h p ppr hpp (fun pr => { pr with window := min n'.toNat Config.maxWindow }) ⟨rfl, rfl, rfl, rfl, rfl, rfl, rfl, rfl⟩
      rw [seq_ok (Prod.ext rfl a)]
      exact emit_inv b _

theorem apiSetTimeout_inv {w : World} (h : WInv w) (p : Nat) (n : PyNum) (hex : Exists w p) : WInv (apiSetTimeout p n w).1 := by
  obtain ⟨ppr, hpp⟩ := hex
  cases n with
  | none => exact h
  | int n' =>
    simp only [apiSetTimeout]
    split
    · exact h
    · obtain ⟨a, b⟩ := inertProto_inv h p ppr hpp (fun pr => { pr with initialT := n'.toNat }) ⟨rfl, rfl, rfl, rfl, rfl, rfl, rfl, rfl⟩
      rw [seq_ok (Prod.ext rfl a)]
      exact emit_inv b _

theorem apiSetBandwith_inv {w : World} (h : WInv w) (p : Nat) (bw f : Rat) (hex : Exists w p) : WInv (apiSetBandwith p bw f w).1 := by
  obtain ⟨ppr, hpp⟩ := hex
  unfold apiSetBandwith
  split
  · exact h
  · split
    · exact h
    · obtain ⟨a, b⟩ := inertProto_inv h p ppr hpp (fun pr => { pr with bandwith := bw, factor := f }) ⟨rfl, rfl, rfl, rfl, rfl, rfl, rfl, rfl⟩
      rw [seq_ok (Prod.ext rfl a)]
      exact emit_inv b _

theorem apiDisconnect_inv {w : World} (h : WInv w) (p : Nat) : WInv (apiDisconnect p w).1 := by
  simp only [apiDisconnect, read_apply]
  split
  · rw [seq_ok (write_apply p encodeDISCONNECT w), seq_ok (emit_apply (.close p) _)]
    exact emit_inv (emit_inv (emit_inv h _) _) _
  · exact h

/-! ### publish() -/

/-- the request object is created, appended to the queue of held-back messages, and the window refilled -/
def mkStep (p : Nat) (pr : Proto) (qosn : Nat) (msgId : Nat) (dfd : Option Nat) (bs : Bytes) : Step :=
  Step.read fun w =>
    let rid := w.nextReq
    Step.mod (fun w => { w with
      reqs := w.reqs.set rid { kind := .publish, msgId := msgId, qos := qosn, encoded := bs, dfd := dfd,
                               alarm := none, initial := pr.initialT, ivValue := pr.initialT, ivK := 1,
                               bandwith := pr.bandwith, factor := pr.factor, seq := w.nextSeq },
      nextReq := rid + 1, nextSeq := w.nextSeq + 1 }) ;;
    setEnts (fun es => es ++ [⟨w.paddr p, .queue, 0, rid⟩]) ;;
    refill p

theorem apiPublish_eq (p : Nat) (topic : PyStr) (payload : Payload) (qos : Int) (retain : Bool) (w : World) :
    apiPublish p topic payload qos retain w =
      (if !allowed w p 4 then emit (.retFail .state)
       else if ¬ (0 ≤ qos ∧ qos < 3) then emit (.retFail .value)
       else if qos = 0 then
         match encodePublishPy topic payload 0 retain none with
         | .error e => emit (.retFail e)
         | .ok bs => mkStep p (w.proto p) qos.toNat 0 none bs ;; emit (.retOk .none)
       else
         makeId fun i =>
           match encodePublishPy topic payload qos.toNat retain (some (i : Int)) with
           | .error e => emit (.retFail e)
           | .ok bs => newDfd fun d => mkStep p (w.proto p) qos.toNat i (some d) bs ;; emit (.retPending d (some i))) w := rfl

theorem idInUse_false {w : World} {i : Nat} (h : idInUse w i = false) : ∀ y ∈ w.ents, idOf w y ≠ i := by
  intro y hy hc
  simp only [idInUse, List.any_eq_false] at h
  have := h y hy
  simp only [idOf] at hc
  split at hc <;> simp_all

theorem mkStep_inv {x : Option Nat} {w : World} (h : WInvX x w) (p : Nat) (ppr : Proto) (hpp : w.protos.get? p = some ppr)
    (hnl : ppr.lost = false) (pr : Proto) (qosn msgId : Nat) (dfd : Option Nat) (bs : Bytes)
    (hidf : msgId ≠ 0 → ∀ y ∈ w.ents, idOf w y ≠ msgId)
    (hsome : msgId ≠ 0 → dfd ≠ none)
    (hd : ∀ d, dfd = some d → d < w.nextDfd ∧ d ∉ w.fired ∧ (∀ y ∈ w.ents, (w.req y.rid).dfd ≠ some d) ∧
      (∀ cr c, w.connReqs.get? cr = some c → c.dfd ≠ some d)) :
    (mkStep p pr qosn msgId dfd bs w).2 = none ∧ WInvX x (mkStep p pr qosn msgId dfd bs w).1 := by
  have hpa : w.paddr p = ppr.addr := by simp [World.paddr, getD_of_get? hpp]
  have hQ := addQueue_inv h ppr.addr w.nextReq
    { kind := .publish, msgId := msgId, qos := qosn, encoded := bs, dfd := dfd, alarm := none, initial := pr.initialT,
      ivValue := pr.initialT, ivK := 1, bandwith := pr.bandwith, factor := pr.factor, seq := w.nextSeq }
    (w.nextReq + 1) w.nextDfd (w.nextSeq + 1)
    (fun y hy hc => by have := h.ridFresh y hy; omega) (Nat.lt_succ_self _) (Nat.le_succ _) (Nat.le_refl _) hidf rfl hsome hd
  simp only [mkStep, read_apply, hpa]
  have s1 : (Step.mod (fun w' : World => { w' with
      reqs := w'.reqs.set w.nextReq { kind := .publish, msgId := msgId, qos := qosn, encoded := bs, dfd := dfd, alarm := none, initial := pr.initialT, ivValue := pr.initialT, ivK := 1, bandwith := pr.bandwith, factor := pr.factor, seq := w'.nextSeq },
      nextReq := w.nextReq + 1, nextSeq := w'.nextSeq + 1 }) ;;
    setEnts (fun es => es ++ [⟨ppr.addr, .queue, 0, w.nextReq⟩])) w
      = (addQueue w ppr.addr w.nextReq
          { kind := .publish, msgId := msgId, qos := qosn, encoded := bs, dfd := dfd, alarm := none, initial := pr.initialT,
            ivValue := pr.initialT, ivK := 1, bandwith := pr.bandwith, factor := pr.factor, seq := w.nextSeq }
          (w.nextReq + 1) w.nextDfd (w.nextSeq + 1), none) := rfl
  rw [← seq_assoc, seq_ok s1]
  exact ⟨rfl, (refillW_inv (x := x) p false ppr _ hQ hpp hnl).1⟩

/-- the identifier counter moves, the allocation counter counts, a Deferred id is taken -/
theorem counters_inv {x : Option Nat} {w : World} (h : WInvX x w) (i k nd : Nat) (hi : i ≤ 65535) (hnd : w.nextDfd ≤ nd) :
    WInvX x { w with nextId := i, idAllocs := k, nextDfd := nd } := by
  have hs := sameCore_fields w w rfl rfl rfl rfl rfl rfl rfl h.idCounter rfl rfl rfl rfl rfl rfl
  exact h.sameCore { hs with nextId := hi, nextDfd := hnd }

theorem live_of_allowed {x : Option Nat} {w : World} (h : WInvX x w) (p : Nat) (ppr : Proto) (hpp : w.protos.get? p = some ppr)
    (op : Nat) (hop : op < 15) (hop0 : op ≠ 0) (ha : allowed w p op = true) : ppr.lost = false ∧ ppr.state ≠ .idle := by
  have hst := allowed_state h p ppr hpp op hop ha
  have hni : ppr.state ≠ .idle := by
    by_cases h6 : op = 6
    · rw [hst.2.1 h6]; simp
    · by_cases h4 : op = 4
      · exact hst.2.2.2 h4
      · rw [hst.2.2.1 hop0 h6 h4]; simp
  refine ⟨?_, hni⟩
  cases hl : ppr.lost with
  | false => rfl
  | true => exact absurd (h.lostIdle p ppr hpp hl).1 hni

/-- MQTTProtocol.publish: never raises; the invariant is kept whatever the outcome -/
theorem apiPublish_inv {w : World} (h : WInv w) (p : Nat) (topic : PyStr) (payload : Payload) (qos : Int) (retain : Bool)
    (hex : Exists w p) (hfree : FreeId w) :
    (apiPublish p topic payload qos retain w).2 = none ∧ WInv (apiPublish p topic payload qos retain w).1 := by
  obtain ⟨ppr, hpp⟩ := hex
  rw [apiPublish_eq]
  by_cases ha : allowed w p 4 = true
  · simp only [ha, Bool.not_true, Bool.false_eq_true, ↓reduceIte]
    obtain ⟨hnl, _⟩ := live_of_allowed h p ppr hpp 4 (by omega) (by omega) ha
    split
    · exact ⟨rfl, emit_inv h _⟩
    · split
      · -- QoS 0
        cases henc : encodePublishPy topic payload 0 retain none with
        | error e => exact ⟨rfl, emit_inv h _⟩
        | ok bs =>
          simp only
          obtain ⟨a, b⟩ := mkStep_inv h p ppr hpp hnl (w.proto p) qos.toNat 0 none bs (fun hc => absurd rfl hc) (fun hc => absurd rfl hc)
            (fun d hd => by cases hd)
          rw [seq_ok (Prod.ext rfl a)]
          exact ⟨rfl, emit_inv b _⟩
      · -- QoS 1, 2
        obtain ⟨i, hi1, hi2, hi3, hmk⟩ := C17.makeId_counter w (fun i =>
           match encodePublishPy topic payload qos.toNat retain (some (i : Int)) with
           | .error e => emit (.retFail e)
           | .ok bs => newDfd fun d => mkStep p (w.proto p) qos.toNat i (some d) bs ;; emit (.retPending d (some i)))
        rw [hmk]
        have hfr : idInUse w i = false := by rw [hi3]; exact C17.scanId_fresh w w.nextId h.idCounter hfree
        cases henc : encodePublishPy topic payload qos.toNat retain (some (i : Int)) with
        | error e => exact ⟨rfl, emit_inv (counters_inv h i _ w.nextDfd hi2 (Nat.le_refl _)) _⟩
        | ok bs =>
          simp only [newDfd, read_apply]
          have s1 : Step.mod (fun w' : World => { w' with nextDfd := w.nextDfd + 1 }) { w with nextId := i, idAllocs := w.idAllocs + 1 }
              = ({ w with nextId := i, idAllocs := w.idAllocs + 1, nextDfd := w.nextDfd + 1 }, none) := rfl
          rw [seq_ok s1]
          have h2 := counters_inv h i (w.idAllocs + 1) (w.nextDfd + 1) hi2 (Nat.le_succ _)
          obtain ⟨a, b⟩ := mkStep_inv h2 p ppr hpp hnl (w.proto p) qos.toNat i (some w.nextDfd) bs
            (fun _ => idInUse_false hfr) (fun _ => by simp)
            (fun d hd => by
              injection hd with hd; subst hd
              refine ⟨Nat.lt_succ_self _, fun hc => Nat.lt_irrefl _ (h.firedFresh _ hc), fun y hy hc => ?_, fun cr c hc hcd => ?_⟩
              · exact Nat.lt_irrefl _ (h.dfdFresh y hy _ hc).1
              · exact Nat.lt_irrefl _ (h.connReqFresh cr c _ hc hcd))
          rw [seq_ok (Prod.ext rfl a)]
          exact ⟨rfl, emit_inv b _⟩
  · simp only [ha, Bool.not_false, ↓reduceIte]
    exact ⟨rfl, emit_inv h _⟩

/-! ### subscribe() / unsubscribe() -/

theorem registerSubUnsub_inv {x : Option Nat} {w : World} (h : WInvX x w) (p : Nat) (ppr : Proto) (hpp : w.protos.get? p = some ppr)
    (hnl : ppr.lost = false) (isSub : Bool) (i : Nat) (hi0 : i ≠ 0) (hfr : idInUse w i = false) (bs : Bytes) :
    (registerSubUnsub p isSub i bs w).2 = none ∧ WInvX x (registerSubUnsub p isSub i bs w).1 := by
  have hpa : w.paddr p = ppr.addr := by simp [World.paddr, getD_of_get? hpp]
  have hidf := idInUse_false hfr
  generalize hbox : (if isSub then Box.sub else Box.unsub) = box
  have hbq : box ≠ .queue := by cases isSub <;> simp at hbox <;> subst hbox <;> simp
  let nr : Req := { kind := if isSub then .subscribe else .unsubscribe, msgId := i, qos := 1, encoded := bs, dfd := some w.nextDfd, alarm := none, initial := ppr.initialT, ivValue := ppr.initialT, ivK := 1, bandwith := 1, factor := 1, seq := 0 }
  have hA := addWindow_inv h ppr.addr box i w.nextReq { nr with alarm := some w.nextTimer } p 0 (w.nextReq + 1) (w.nextDfd + 1) []
    (fun y hy hc => by have := h.ridFresh y hy; omega)
    (Nat.lt_succ_self _) (Nat.le_succ _) (Nat.le_succ _)
    (by
      intro t' q hp
      obtain ⟨y, hy, hy1, _⟩ := h.noStale t' q _ hp
      have := h.ridFresh y hy
      omega)
    hbq rfl hi0 hidf rfl w.nextDfd rfl (Nat.lt_succ_self _) (fun hc => Nat.lt_irrefl _ (h.firedFresh _ hc))
    (fun y hy hc => Nat.lt_irrefl _ (h.dfdFresh y hy _ hc).1)
    (fun cr c hc hcd => Nat.lt_irrefl _ (h.connReqFresh cr c _ hc hcd))
    ppr hpp rfl hnl
  have hlook : Ents.lookup w.ents ppr.addr box i = none := by
    cases hl2 : Ents.lookup w.ents ppr.addr box i with
    | none => rfl
    | some r2 => exact absurd (by simp [idOf, hbq]) (hidf _ (Ents.lookup_some hl2))
  have hins : Ents.insert w.ents ppr.addr box i w.nextReq = w.ents ++ [⟨ppr.addr, box, i, w.nextReq⟩] :=
    Ents.insert_of_lookup_none _ hlook
  let w4 : World := { w with nextDfd := w.nextDfd + 1, reqs := w.reqs.set w.nextReq nr, nextReq := w.nextReq + 1,
                             ents := w.ents ++ [⟨ppr.addr, box, i, w.nextReq⟩] }
  have hstep : registerSubUnsub p isSub i bs w = ((retrySubUnsubW p w.nextReq false isSub w4).emit (.retPending w.nextDfd (some i)), none) := by
    simp only [registerSubUnsub, read_apply, newDfd, getD_of_get? hpp, hpa, hbox]
    have s1 : Step.mod (fun w' : World => { w' with nextDfd := w.nextDfd + 1 }) w = ({ w with nextDfd := w.nextDfd + 1 }, none) := rfl
    rw [seq_ok s1]
    simp only [Step.seq, Step.mod, setEnts, World.setEnts, retrySubUnsub, emit]
    rw [hins]
  rw [hstep]
  refine ⟨rfl, emit_inv (hA.sameCore ?_) _⟩
  have hA1 : ∀ r, (addWindow w ppr.addr box i w.nextReq { nr with alarm := some w.nextTimer } p 0 (w.nextReq + 1) (w.nextDfd + 1) []).req r
      = if w.nextReq = r then { nr with alarm := some w.nextTimer } else w.req r := fun r => req_set w w.nextReq _ r _ rfl
  have h4req : ∀ r, w4.req r = if w.nextReq = r then nr else w.req r := fun r => req_set w w.nextReq _ r _ rfl
  apply sameCore_of
  · simp only [retrySubUnsubW]; split <;> simp [addWindow, w4]
  · intro r
    rw [hA1]
    simp only [retrySubUnsubW]
    split <;>
    · simp only [emit_req, req_setReq, callLater_req, h4req]
      by_cases hr : w.nextReq = r
      · subst hr; simp [nr, w4]
      · simp [hr]
  · intro t'
    simp only [retrySubUnsubW]
    split <;>
    · simp only [emit_timers, setReq_timers, callLater_timers, setReq_nextTimer, addWindow, addT, Dict.get?_set, w4]
      by_cases ht' : w.nextTimer = t'
      · simp [ht']
      · simp only [ht', ↓reduceIte]
  all_goals first
    | (simp only [retrySubUnsubW]; split <;> first | rfl | simp [addWindow, w4, h.idCounter])
    | exact hA.idCounter

theorem makeId_apply (k : Nat → Step) (w : World) :
    makeId k w = k (scanId w 65535 w.nextId) { w with nextId := scanId w 65535 w.nextId, idAllocs := w.idAllocs + 1 } := by
  simp [makeId, Step.read, Step.seq, Step.mod]

/-- MQTTFactory.makeId followed by anything that copes with a fresh identifier -/
theorem makeId_inv {w : World} (h : WInv w) (hfree : FreeId w) (k : Nat → Step)
    (hk : ∀ i, 1 ≤ i → i ≤ 65535 → idInUse w i = false → WInv { w with nextId := i, idAllocs := w.idAllocs + 1 } →
      (k i { w with nextId := i, idAllocs := w.idAllocs + 1 }).2 = none ∧ WInv (k i { w with nextId := i, idAllocs := w.idAllocs + 1 }).1) :
    (makeId k w).2 = none ∧ WInv (makeId k w).1 := by
  rw [makeId_apply]
  exact hk _ (C17.scanId_range w _).1 (C17.scanId_range w _).2 (C17.scanId_fresh w w.nextId h.idCounter hfree)
    (counters_inv h _ _ w.nextDfd (C17.scanId_range w _).2 (Nat.le_refl _))

/-- MQTTProtocol.subscribe: never raises; the invariant is kept whatever the outcome -/
theorem apiSubscribe_inv {w : World} (h : WInv w) (p : Nat) (arg : SubArg) (qos : Int) (hex : Exists w p) (hfree : FreeId w) :
    (apiSubscribe p arg qos w).2 = none ∧ WInv (apiSubscribe p arg qos w).1 := by
  obtain ⟨ppr, hpp⟩ := hex
  simp only [apiSubscribe, read_apply]
  by_cases ha : allowed w p 2 = true
  · simp only [ha, Bool.not_true, Bool.false_eq_true, ↓reduceIte]
    obtain ⟨hnl, _⟩ := live_of_allowed h p ppr hpp 2 (by omega) (by omega) ha
    by_cases hwin : Ents.count w.ents (w.paddr p) .sub ≥ (w.proto p).window
    · simp only [hwin, ↓reduceIte]; exact ⟨rfl, emit_inv h _⟩
    · simp only [hwin, ↓reduceIte]
      cases arg with
      | other => exact ⟨rfl, emit_inv h _⟩
      | _ =>
        simp only []
        split
        · exact ⟨rfl, emit_inv h _⟩
        split
        · exact ⟨rfl, emit_inv h _⟩
        · rw [makeId_apply]
          have hi := C17.scanId_range w w.nextId
          have hfr := C17.scanId_fresh w w.nextId h.idCounter hfree
          have h1 := counters_inv h (scanId w 65535 w.nextId) (w.idAllocs + 1) w.nextDfd hi.2 (Nat.le_refl _)
          generalize encodeWithId _ _ _ = E
          cases E with
          | error e => exact ⟨rfl, emit_inv h1 _⟩
          | ok bs => exact registerSubUnsub_inv h1 p ppr hpp hnl true _ (by omega) hfr bs
  · simp only [ha, Bool.not_false, ↓reduceIte]
    exact ⟨rfl, emit_inv h _⟩

/-- MQTTProtocol.unsubscribe (two identifiers are drawn): never raises; the invariant is kept -/
theorem apiUnsubscribe_inv {w : World} (h : WInv w) (p : Nat) (arg : UnsubArg) (hex : Exists w p) (hfree : FreeId w) :
    (apiUnsubscribe p arg w).2 = none ∧ WInv (apiUnsubscribe p arg w).1 := by
  obtain ⟨ppr, hpp⟩ := hex
  simp only [apiUnsubscribe, read_apply]
  by_cases ha : allowed w p 3 = true
  · simp only [ha, Bool.not_true, Bool.false_eq_true, ↓reduceIte]
    obtain ⟨hnl, _⟩ := live_of_allowed h p ppr hpp 3 (by omega) (by omega) ha
    rw [makeId_apply]
    have hi02 := (C17.scanId_range w w.nextId).2
    have h1' := counters_inv h (scanId w 65535 w.nextId) (w.idAllocs + 1) w.nextDfd hi02 (Nat.le_refl _)
    obtain ⟨w1, hw1⟩ : ∃ w1 : World, w1 = { w with nextId := scanId w 65535 w.nextId, idAllocs := w.idAllocs + 1 } := ⟨_, rfl⟩
    rw [← hw1] at h1' ⊢
    have hpp1 : w1.protos.get? p = some ppr := by rw [hw1]; exact hpp
    have hfree1 : FreeId w1 := by rw [hw1]; exact hfree
    simp only [read_apply]
    by_cases hwin : Ents.count w1.ents (w1.paddr p) .unsub ≥ (w1.proto p).window
    · simp only [hwin, ↓reduceIte]; exact ⟨rfl, emit_inv h1' _⟩
    · simp only [hwin, ↓reduceIte]
      cases arg with
      | other => exact ⟨rfl, emit_inv h1' _⟩
      | _ =>
        simp only []
        split
        · exact ⟨rfl, emit_inv h1' _⟩
        rw [makeId_apply]
        have hi := C17.scanId_range w1 w1.nextId
        have hfr := C17.scanId_fresh w1 w1.nextId h1'.idCounter hfree1
        have h2 := counters_inv h1' (scanId w1 65535 w1.nextId) (w1.idAllocs + 1) w1.nextDfd hi.2 (Nat.le_refl _)
        generalize encodeWithId _ _ _ = E
        cases E with
        | error e => exact ⟨rfl, emit_inv h2 _⟩
        | ok bs => exact registerSubUnsub_inv h2 p ppr hpp1 hnl false _ (by omega) hfr bs
  · simp only [ha, Bool.not_false, ↓reduceIte]
    exact ⟨rfl, emit_inv h _⟩

/-! ### connect() -/

def connStartW (w : World) (p : Nat) (npr : Proto) (due ka : Nat) (log' : List Obs) : World :=
  { w with protos := w.protos.set p npr, log := log',
           timers := w.timers.set w.nextTimer ⟨due, .connack w.nextCR, .pending⟩, nextTimer := w.nextTimer + 1,
           nextDfd := w.nextDfd + 1, connReqs := w.connReqs.set w.nextCR ⟨p, ka, some w.nextDfd, w.nextTimer⟩, nextCR := w.nextCR + 1 }

/-- the handshake starts: CONNECT written, state CONNECTING, timeout armed, Deferred created -/
theorem connStart_inv {w : World} (h : WInv w) (p : Nat) (ppr : Proto) (hpp : w.protos.get? p = some ppr)
    (hs : ppr.state = .idle) (hnl : ppr.lost = false) (cs : Bool) (v : Version) (due ka : Nat) (log' : List Obs) :
    WInv (connStartW w p { ppr with cleanStart := cs, version := v, state := .connecting, connReq := some w.nextCR } due ka log') := by
  obtain ⟨npr, hnpr⟩ : ∃ npr : Proto, npr = { ppr with cleanStart := cs, version := v, state := .connecting, connReq := some w.nextCR } := ⟨_, rfl⟩
  rw [← hnpr]
  have n1 : npr.addr = ppr.addr := by rw [hnpr]
  have n2 : npr.lost = ppr.lost := by rw [hnpr]
  have n3 : npr.pingTimer = ppr.pingTimer := by rw [hnpr]
  have n4 : npr.pingAlarm = ppr.pingAlarm := by rw [hnpr]
  have n5 : npr.state = .connecting := by rw [hnpr]
  have n6 : npr.connReq = some w.nextCR := by rw [hnpr]
  have n7 : npr.buffer = ppr.buffer := by rw [hnpr]
  obtain ⟨w', hw'⟩ : ∃ w', w' = connStartW w p npr due ka log' := ⟨_, rfl⟩
  rw [← hw']
  have hap := fun t' k => add_pending h due (.connack w.nextCR) (w' := w') (by rw [hw']; rfl) t' k
  have hao := fun t' k hk' => add_other h due (.connack w.nextCR) (w' := w') (by rw [hw']; rfl) t' k hk'
  have hprot : ∀ q, w'.protos.get? q = if p = q then some npr else w.protos.get? q := by
    intro q; rw [hw']; simp only [connStartW, Dict.get?_set]
  have hcq : ∀ cr, w'.connReqs.get? cr = if w.nextCR = cr then some ⟨p, ka, some w.nextDfd, w.nextTimer⟩ else w.connReqs.get? cr := by
    intro cr; rw [hw']; simp only [connStartW, Dict.get?_set]
  have hcrf : w.connReqs.get? w.nextCR = none := by
    cases hg : w.connReqs.get? w.nextCR with
    | none => rfl
    | some c => exact absurd (h.crFresh _ _ hg) (Nat.lt_irrefl _)
  have he : w'.ents = w.ents := by rw [hw']; rfl
  have hr : w'.reqs = w.reqs := by rw [hw']; rfl
  have hf : w'.fired = w.fired := by rw [hw']; rfl
  have hreq := req_of_reqs hr
  have hid' : ∀ e, idOf w' e = idOf w e := by intro e; simp [idOf, hreq]
  have hnd : w'.nextDfd = w.nextDfd + 1 := by rw [hw']; rfl
  have hnofd : w.nextDfd ∉ w.fired := fun hc => Nat.lt_irrefl _ (h.firedFresh _ hc)
  -- a handshake timer that was pending before does not belong to `p`
  have hnotp : ∀ t cr, Pending w t (.connack cr) → ∀ c, w.connReqs.get? cr = some c → c.proto ≠ p := by
    intro t cr hp c hc hown
    obtain ⟨c2, d2, a1, a2, a3, a4, pr, a5, a6⟩ := h.connackOwned t cr hp
    rw [hc] at a1; injection a1 with a1; subst a1
    rw [hown, hpp] at a5; injection a5 with a5; subst a5
    rcases a6 with a6 | ⟨a6, _⟩
    · rw [hnl] at a6; cases a6
    · rw [hs] at a6; cases a6
  constructor
  case nodup => rw [he]; exact h.nodup
  case ridFresh => rw [he]; rw [hw']; exact h.ridFresh
  case ridUnique => rw [he]; exact h.ridUnique
  case idUnique => rw [he]; simp only [hid']; exact h.idUnique
  case keyId => rw [he]; simp only [hreq]; exact h.keyId
  case queueNoAlarm => rw [he]; simp only [hreq]; exact h.queueNoAlarm
  case idCounter => rw [hw']; exact h.idCounter
  case timerFresh => rw [hw']; exact add_fresh h _ rfl rfl
  case firedFresh => rw [hf, hnd]; intro d hd; exact Nat.lt_succ_of_lt (h.firedFresh d hd)
  case crFresh =>
    intro cr c hc
    rw [hcq] at hc
    rw [hw']; show cr < w.nextCR + 1
    split at hc
    · omega
    · exact Nat.lt_succ_of_lt (h.crFresh cr c hc)
  case protoFresh =>
    have hnp : w'.nextProto = w.nextProto := by rw [hw']; rfl
    rw [hnp]; simp only [hprot]
    have := h.protoFresh
    grind
  case dfdFresh =>
    rw [he, hf, hnd]; simp only [hreq]
    intro e he' d hd
    exact ⟨Nat.lt_succ_of_lt (h.dfdFresh e he' d hd).1, (h.dfdFresh e he' d hd).2⟩
  case dfdSome => rw [he]; simp only [hreq]; exact h.dfdSome
  case dfdInj => rw [he]; simp only [hreq]; exact h.dfdInj
  case alarm =>
    rw [he]; simp only [hreq, hprot]
    intro e he' t ht
    obtain ⟨a1, q, qr, a2, a3, a4⟩ := h.alarm e he' t ht
    have a2' := (hao t (.retry q e.rid) (by simp)).mpr a2
    refine ⟨a1, q, ?_⟩
    grind
  case noStale => rw [he]; simp only [hreq]; intro t q rid hp; exact h.noStale t q rid ((hao _ _ (by simp)).mp hp)
  case connected =>
    rw [he]; simp only [hreq, hprot]
    have := h.connected
    grind
  case oneLive =>
    simp only [hprot]
    have := h.oneLive
    grind
  case lostIdle =>
    simp only [hprot]
    have := h.lostIdle
    grind
  case pingAlarm =>
    simp only [hprot]
    intro q qr t hq ht
    refine (hao _ _ (by simp)).mpr ?_
    have := h.pingAlarm
    grind
  case pingTimer =>
    simp only [hprot]
    intro q qr l hq hl
    by_cases hqp : p = q
    · subst hqp
      simp only [↓reduceIte] at hq; injection hq with hq; subst hq
      rw [n3] at hl
      have := (h.pingTimer p ppr l hpp hl).2.1
      rw [hs] at this; cases this
    · simp only [hqp, ↓reduceIte] at hq
      obtain ⟨a1, a2, a3, a4⟩ := h.pingTimer q qr l hq hl
      exact ⟨a1, a2, a3, fun t ht => (hao _ _ (by simp)).mpr (a4 t ht)⟩
  case pingAlarmOwned =>
    simp only [hprot]
    intro t q hp
    obtain ⟨pr, a1, a2⟩ := h.pingAlarmOwned t q ((hao _ _ (by simp)).mp hp)
    by_cases hqp : p = q
    · subst hqp; rw [hpp] at a1; injection a1 with a1; subst a1
      exact ⟨npr, by simp, by rw [n4]; exact a2⟩
    · exact ⟨pr, by simp [hqp, a1], a2⟩
  case pingLoopOwned =>
    simp only [hprot]
    intro t q hp
    obtain ⟨pr, l, a1, a2, a3⟩ := h.pingLoopOwned t q ((hao _ _ (by simp)).mp hp)
    by_cases hqp : p = q
    · subst hqp; rw [hpp] at a1; injection a1 with a1; subst a1
      exact ⟨npr, l, by simp, by rw [n3]; exact a2, a3⟩
    · exact ⟨pr, l, by simp [hqp, a1], a2, a3⟩
  case connecting =>
    rw [hf]; simp only [hprot]
    intro q qr hq hs'
    by_cases hqp : p = q
    · subst hqp
      simp only [↓reduceIte] at hq; injection hq with hq; subst hq
      refine ⟨w.nextCR, ⟨p, ka, some w.nextDfd, w.nextTimer⟩, n6, by rw [hcq]; simp, rfl, fun d hd => ?_⟩
      injection hd with hd; subst hd
      exact ⟨hnofd, (hap _ _).mpr (Or.inr ⟨rfl, rfl⟩)⟩
    · simp only [hqp, ↓reduceIte] at hq
      obtain ⟨cr, c, i1, i2, ip, i3⟩ := h.connecting q qr hq hs'
      have hne : ¬ w.nextCR = cr := by have := h.crFresh cr c i2; omega
      refine ⟨cr, c, i1, by rw [hcq]; simp [hne, i2], ip, fun d hd => ⟨(i3 d hd).1, (hap _ _).mpr (Or.inl (i3 d hd).2)⟩⟩
  case connReq =>
    rw [hf, hnd, he]; simp only [hreq]
    intro cr c d hc hd hnf
    rw [hcq] at hc
    split at hc
    · injection hc with hc; subst hc
      injection hd with hd; subst hd
      exact ⟨Nat.lt_succ_self _, fun e he' hc' => Nat.lt_irrefl _ (h.dfdFresh e he' _ hc').1⟩
    · obtain ⟨a1, a2⟩ := h.connReq cr c d hc hd hnf
      exact ⟨Nat.lt_succ_of_lt a1, a2⟩
  case connReqInj =>
    intro cr1 cr2 c1 c2 d h1 h2 hd1 hd2
    rw [hcq] at h1 h2
    split at h1 <;> split at h2
    · rename_i e1 e2; rw [← e1, ← e2]
    · injection h1 with h1; subst h1; injection hd1 with hd1; subst hd1
      exact absurd (h.connReqFresh cr2 c2 _ h2 hd2) (Nat.lt_irrefl _)
    · injection h2 with h2; subst h2; injection hd2 with hd2; subst hd2
      exact absurd (h.connReqFresh cr1 c1 _ h1 hd1) (Nat.lt_irrefl _)
    · exact h.connReqInj cr1 cr2 c1 c2 d h1 h2 hd1 hd2
  case connReqFresh =>
    rw [hnd]
    intro cr c d hc hd
    rw [hcq] at hc
    split at hc
    · injection hc with hc; subst hc; injection hd with hd; subst hd; exact Nat.lt_succ_self _
    · exact Nat.lt_succ_of_lt (h.connReqFresh cr c d hc hd)
  case connackOwned =>
    rw [hf]
    intro t cr hp
    rcases (hap t _).mp hp with hp1 | ⟨hp1, hp2⟩
    · obtain ⟨c, d, a1, a2, a3, a4, pr, a5, a6⟩ := h.connackOwned t cr hp1
      have hne : ¬ w.nextCR = cr := by have := h.crFresh cr c a1; omega
      have hnp := hnotp t cr hp1 c a1
      refine ⟨c, d, by rw [hcq]; simp [hne, a1], a2, a3, a4, pr, ?_, a6⟩
      rw [hprot]
      have : ¬ p = c.proto := fun hc => hnp hc.symm
      simp [this, a5]
    · injection hp2 with hp2; subst hp2; subst hp1
      refine ⟨⟨p, ka, some w.nextDfd, w.nextTimer⟩, w.nextDfd, by rw [hcq]; simp, rfl, hnofd, rfl, npr, ?_, Or.inr ⟨n5, n6⟩⟩
      rw [hprot]; simp
  case retryLive =>
    simp only [hprot]
    intro t q rid hp
    obtain ⟨pr, a1, a2⟩ := h.retryLive t q rid ((hao _ _ (by simp)).mp hp)
    by_cases hqp : p = q
    · subst hqp; rw [hpp] at a1; injection a1 with a1; subst a1
      exact ⟨npr, by simp, by rw [n2]; exact a2⟩
    · exact ⟨pr, by simp [hqp, a1], a2⟩
  case connReqLive =>
    rw [hf]; simp only [hprot]
    intro q qr cr c hq hcq' hc
    rw [hcq] at hc
    by_cases hqp : p = q
    · subst hqp
      simp only [↓reduceIte] at hq; injection hq with hq; subst hq
      rw [n6] at hcq'; injection hcq' with hcq'; subst hcq'
      simp only [↓reduceIte] at hc; injection hc with hc; subst hc
      exact ⟨rfl, fun d hd => by injection hd with hd; subst hd; exact hnofd⟩
    · simp only [hqp, ↓reduceIte] at hq
      split at hc
      · rename_i heq; subst heq
        exact absurd (h.connReqRef q qr _ hq hcq') (Nat.lt_irrefl _)
      · exact h.connReqLive q qr cr c hq hcq' hc
  case connReqRef =>
    simp only [hprot]
    intro q qr cr hq hcq'
    show cr < w'.nextCR
    rw [hw']; show cr < w.nextCR + 1
    by_cases hqp : p = q
    · subst hqp
      simp only [↓reduceIte] at hq; injection hq with hq; subst hq
      rw [n6] at hcq'; injection hcq' with hcq'; omega
    · simp only [hqp, ↓reduceIte] at hq
      exact Nat.lt_succ_of_lt (h.connReqRef q qr cr hq hcq')
  case subArmed =>
    rw [he]; simp only [hreq, hprot]
    intro e he' hb ha
    obtain ⟨q, qr, a1, _⟩ := h.subArmed e he' hb ha
    cases a1
  case profileOk => rw [hw']; exact h.profileOk
  case bufOk =>
    simp only [hprot]
    have := h.bufOk
    grind

/-- MQTTBaseProtocol.connect on a protocol whose loss has not been reported -/
theorem apiConnect_inv {w : World} (h : WInv w) (p : Nat) (a : ConnectArgs) (hlive : Live w p) : WInv (apiConnect p a w).1 := by
  obtain ⟨ppr, hpp, hnl⟩ := hlive
  unfold apiConnect
  generalize a.toF.encode = E
  simp only [read_apply]
  by_cases ha : allowed w p 0 = true
  · simp only [ha, Bool.not_true, Bool.false_eq_true, ↓reduceIte]
    have hs := (allowed_state h p ppr hpp 0 (by omega) ha).1 rfl
    split
    · exact emit_inv h _
    · cases E with
      | error e =>
        simp only
        split
        · exact emit_inv h _
        · exact h
      | ok pdu =>
        simp only
        have hC := connStart_inv h p ppr hpp hs hnl a.cleanStart (verOf a.version)
          (w.now + ticks (if a.keepalive.toNat = 0 then 10 else (a.keepalive.toNat : Rat))) a.keepalive.toNat
          ((w.log ++ [.write p pdu]) ++ [.retPending w.nextDfd none])
        have hfin : (setProto p (fun pr => { pr with cleanStart := a.cleanStart, version := verOf a.version }) ;;
            write p pdu ;;
            setProto p (fun pr => { pr with state := .connecting }) ;;
            Step.read fun w =>
              let cr := w.nextCR
              let ka := a.keepalive.toNat
              callLater (if ka = 0 then 10 else ka) (.connack cr) fun tid =>
                newDfd fun d =>
                  Step.mod (fun w => { w with connReqs := w.connReqs.set cr ⟨p, ka, some d, tid⟩, nextCR := cr + 1 }) ;;
                  setProto p (fun pr => { pr with connReq := some cr }) ;;
                  emit (.retPending d none)) w
            = (connStartW w p { ppr with cleanStart := a.cleanStart, version := verOf a.version, state := .connecting, connReq := some w.nextCR }
                (w.now + ticks (if a.keepalive.toNat = 0 then 10 else (a.keepalive.toNat : Rat))) a.keepalive.toNat
                ((w.log ++ [.write p pdu]) ++ [.retPending w.nextDfd none]), none) := by
          simp only [Step.seq, setProto, Step.mod, write, emit, World.emit, Step.read, callLater, newDfd, World.callLater, World.proto,
            Dict.get?_set, ↓reduceIte, Option.getD_some, hpp, Dict.set_set, connStartW]
        rw [hfin]
        exact hC
  · simp only [ha, Bool.not_false, ↓reduceIte]
    exact emit_inv h _

end Mqtt
