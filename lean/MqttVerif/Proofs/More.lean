import MqttVerif.Proofs.Local
/-
  Further consequences of the invariant used by the property files: timers have owners, a lost
  connection is silent, the publish window is refilled as far as the window allows.
-/
namespace Mqtt

/-! ### C13/C15: every pending timer has an owner; none belongs to a lost connection except the handshake
    timeout and the notification -/

/-- a request is driven by a single retry timer -/
theorem single_retry_timer {w : World} (h : WInv w) (t1 t2 p1 p2 rid : Nat)
    (h1 : Pending w t1 (.retry p1 rid)) (h2 : Pending w t2 (.retry p2 rid)) : t1 = t2 ∧ p1 = p2 := by
  obtain ⟨e1, he1, r1, a1⟩ := h.noStale t1 p1 rid h1
  obtain ⟨e2, he2, r2, a2⟩ := h.noStale t2 p2 rid h2
  rw [a1] at a2; injection a2 with a2
  subst a2
  have := pending_kind h1 h2
  injection this with hp _
  exact ⟨rfl, hp⟩

/-- a settled request (acknowledged, failed or purged: in no container any more) has no retry timer -/
theorem settled_is_silent {w : World} (h : WInv w) (rid : Nat) (hgone : ∀ e ∈ w.ents, e.rid ≠ rid) (t p : Nat) :
    ¬ Pending w t (.retry p rid) := by
  intro hp
  obtain ⟨e, he, hr, _⟩ := h.noStale t p rid hp
  exact hgone e he hr

/-- the timers of a connection that has been reported lost: nothing but the handshake timeout and the notification -/
theorem lost_has_no_timers {w : World} (h : WInv w) (p : Nat) (pr : Proto) (hp : w.protos.get? p = some pr) (hl : pr.lost = true)
    (t : Nat) :
    (∀ rid, ¬ Pending w t (.retry p rid)) ∧ ¬ Pending w t (.pingLoop p) ∧ ¬ Pending w t (.pingAlarm p) := by
  obtain ⟨_, hpt, hpa⟩ := h.lostIdle p pr hp hl
  refine ⟨fun rid hc => ?_, fun hc => ?_, fun hc => ?_⟩
  · obtain ⟨pr', a, b⟩ := h.retryLive t p rid hc
    rw [hp] at a; injection a with a; subst a
    rw [hl] at b; cases b
  · obtain ⟨pr', l, a, b, _⟩ := h.pingLoopOwned t p hc
    rw [hp] at a; injection a with a; subst a
    rw [hpt] at b; cases b
  · obtain ⟨pr', a, b⟩ := h.pingAlarmOwned t p hc
    rw [hp] at a; injection a with a; subst a
    rw [hpa] at b; cases b

/-- every pending timer is accounted for: a retry timer belongs to an unfinished in-flight request of a live protocol,
    a keepalive timer to a protocol with keepalive running, a handshake timeout to a connecting (or lost) protocol -/
theorem timer_owners {w : World} (h : WInv w) (t : Nat) (k : TKind) (hp : Pending w t k) :
    match k with
    | .retry p rid => (∃ e ∈ w.ents, e.rid = rid ∧ (w.req rid).alarm = some t) ∧ ∃ pr, w.protos.get? p = some pr ∧ pr.lost = false
    | .pingLoop p => ∃ pr l, w.protos.get? p = some pr ∧ pr.pingTimer = some l ∧ l.call = some t
    | .pingAlarm p => ∃ pr, w.protos.get? p = some pr ∧ pr.pingAlarm = some t
    | .connack cr => ∃ c d, w.connReqs.get? cr = some c ∧ c.dfd = some d ∧ d ∉ w.fired ∧ c.alarm = t ∧
        ∃ pr, w.protos.get? c.proto = some pr ∧ (pr.lost = true ∨ (pr.state = .connecting ∧ pr.connReq = some cr))
    | .onDisc _ _ => True := by
  cases k with
  | retry p rid => exact ⟨h.noStale t p rid hp, h.retryLive t p rid hp⟩
  | pingLoop p => exact h.pingLoopOwned t p hp
  | pingAlarm p => exact h.pingAlarmOwned t p hp
  | connack cr => exact h.connackOwned t cr hp
  | onDisc _ _ => trivial

/-! ### C10: the refill loop -/

theorem items_insert_other (es : List Ent) (a : Nat) (b b' : Box) (k rid : Nat) (hb : b ≠ b') :
    Ents.items (Ents.insert es a b k rid) a b' = Ents.items es a b' := by
  induction es with
  | nil => simp [Ents.insert, Ents.items, hb]
  | cons e r ih =>
    simp only [Ents.insert]
    split
    · rename_i hm
      simp only [Ents.items]
      have h1 : ¬ ((⟨a, b, k, rid⟩ : Ent).addr = a ∧ (⟨a, b, k, rid⟩ : Ent).box = b') := by simp [hb]
      have h2 : ¬ (e.addr = a ∧ e.box = b') := by rw [hm.2.1]; simp [hb]
      simp [h2, hb]
    · simp only [Ents.items, ih]

/-- with the window full nothing is launched (window bounds in-flight publishes at the moment of each first transmission) -/
theorem refill_window_full (p : Nat) (dup : Bool) (fuel : Nat) (w : World)
    (h : ¬ Ents.count w.ents (w.paddr p) .pub < (w.proto p).window) : refillW p dup fuel w = w := by
  cases fuel with
  | zero => rfl
  | succ f =>
    simp only [refillW]
    split
    · rfl
    · simp [h]

/-- one launch: the head of the queue of held-back messages (FIFO), while the window has room -/
theorem refill_launches_head (p : Nat) (dup : Bool) (f : Nat) (w : World) (e : Ent) (rest : List Ent)
    (hq : Ents.items w.ents (w.paddr p) .queue = e :: rest) (hroom : Ents.count w.ents (w.paddr p) .pub < (w.proto p).window) :
    refillW p dup (f + 1) w = refillW p dup f (retryPublishW p e.rid dup
      (if (w.req e.rid).msgId ≠ 0 then
        (w.setEnts fun es => Ents.dropFirst es (w.paddr p) .queue).setEnts fun es => Ents.insert es (w.paddr p) .pub (w.req e.rid).msgId e.rid
       else w.setEnts fun es => Ents.dropFirst es (w.paddr p) .queue)) := by
  simp only [refillW, hq, hroom, ↓reduceIte]

theorem items_dropFirst (es : List Ent) (a : Nat) (b : Box) : Ents.items (Ents.dropFirst es a b) a b = (Ents.items es a b).tail := by
  induction es with
  | nil => rfl
  | cons e r ih =>
    simp only [Ents.dropFirst, Ents.items]
    split
    · simp
    · rename_i hm; simp [Ents.items, hm, ih]

/-- **no accepted message is left unsent while the window has room**: after `_refillPublish` either the queue of
    held-back messages of the address is empty or the publish window is full -/
theorem refill_exhausts (p : Nat) (dup : Bool) : ∀ (fuel : Nat) (w : World), (Ents.items w.ents (w.paddr p) .queue).length ≤ fuel →
    Ents.items (refillW p dup fuel w).ents (w.paddr p) .queue = [] ∨
    ¬ Ents.count (refillW p dup fuel w).ents (w.paddr p) .pub < (w.proto p).window := by
  intro fuel
  induction fuel with
  | zero =>
    intro w hl
    left
    simp only [refillW]
    exact List.eq_nil_of_length_eq_zero (Nat.le_zero.mp hl)
  | succ f ih =>
    intro w hl
    cases hq : Ents.items w.ents (w.paddr p) .queue with
    | nil => left; simp only [refillW, hq]
    | cons e rest =>
      by_cases hroom : Ents.count w.ents (w.paddr p) .pub < (w.proto p).window
      · rw [refill_launches_head p dup f w e rest hq hroom]
        obtain ⟨w2, hw2⟩ : ∃ w2, w2 = retryPublishW p e.rid dup
          (if (w.req e.rid).msgId ≠ 0 then
            (w.setEnts fun es => Ents.dropFirst es (w.paddr p) .queue).setEnts fun es => Ents.insert es (w.paddr p) .pub (w.req e.rid).msgId e.rid
           else w.setEnts fun es => Ents.dropFirst es (w.paddr p) .queue) := ⟨_, rfl⟩
        rw [← hw2]
        have hprot : w2.protos = w.protos := by rw [hw2, retryPublishW_protos]; split <;> rfl
        have hpa : w2.paddr p = w.paddr p := by simp [World.paddr, World.proto, hprot]
        have hpr : w2.proto p = w.proto p := by simp [World.proto, hprot]
        have hitems : Ents.items w2.ents (w.paddr p) .queue = rest := by
          rw [hw2, retryPublishW_ents]
          split
          · simp only [setEnts_ents]
            rw [items_insert_other _ _ _ _ _ _ (by simp), items_dropFirst, hq]; rfl
          · simp only [setEnts_ents]
            rw [items_dropFirst, hq]; rfl
        have := ih w2 (by rw [hpa, hitems]; rw [hq] at hl; simpa using hl)
        rw [hpa, hpr] at this
        exact this
      · right
        rw [refill_window_full p dup (f + 1) w hroom]
        exact hroom

/-! ### C13/C18: once a connection has been reported lost nothing more is written to its transport -/

/-- the policy requirement of a timer callback, by kind -/
def kindOK (π : Pol) : TKind → Prop
  | .retry q _ => π.w q = true
  | .pingLoop q => π.w q = true
  | .pingAlarm q => π.t q = true
  | .connack _ => ∀ q, π.t q = true
  | .onDisc _ _ => True

theorem em_runTimer {π : Pol} (k : TKind) (hk : kindOK π k) : Emits π (runTimer k) := by
  unfold runTimer
  cases k with
  | connack cr =>
    simp only []; unfold abort
    apply em_read; intro w
    split
    · em
    · apply em_seq
      · split
        · em
        · em
      · exact em_seq (by em) (em_emit _ (hk _))
  | pingLoop p => exact em_seq (by em) (em_loopRun p hk)
  | pingAlarm p => simp only []; unfold abort; exact em_seq (by em) (em_emit _ hk)
  | retry p rid =>
    simp only []
    apply em_read; intro w
    split
    · exact em_retryPublish _ _ _ hk
    · exact em_retryRelease _ _ _ hk
    · exact em_retrySubUnsub _ _ _ _ hk
    · exact em_retrySubUnsub _ _ _ _ hk
  | onDisc p r => simp only []; em

/-- what one particular run of a handler appends to the log -/
def EmitsAt (π : Pol) (s : Step) (w : World) : Prop := ∃ l, (s w).1.log = w.log ++ l ∧ ∀ o ∈ l, π.ok o = true

theorem em_fireTimer_at {π : Pol} (t : Nat) (w : World)
    (hk : ∀ tm, w.timers.get? t = some tm → tm.status = .pending → kindOK π tm.kind) : EmitsAt π (fireTimer t) w := by
  simp only [EmitsAt, fireTimer, read_apply]
  cases htm : w.timers.get? t with
  | none => exact em_emit (π := π) .nofire rfl w
  | some tm =>
    simp only
    by_cases hs : tm.status = .pending
    · simp only [hs, ↓reduceIte]
      exact em_seq (em_mod (f := fun w => { w with now := max w.now tm.due, timers := w.timers.set t { tm with status := .called } })
        fun _ => rfl) (em_runTimer tm.kind (hk tm htm hs)) w
    · simp only [hs, ↓reduceIte]
      exact em_emit (π := π) .nofire rfl w

theorem not_allowed_when_lost {w : World} (h : WInv w) (p : Nat) (pr : Proto) (hp : w.protos.get? p = some pr) (hl : pr.lost = true)
    (op : Nat) (hop : op = 1 ∨ op = 2 ∨ op = 3 ∨ op = 4) : allowed w p op = false := by
  cases ha : allowed w p op with
  | false => rfl
  | true =>
    have := live_of_allowed h p pr hp op (by omega) (by omega) ha
    rw [hl] at this; cases this.1

/-- **Once a connection has been reported lost nothing more is written to its transport** (nor is it closed again):
    whatever the next operation -- bytes for another protocol, a timer, an API call on the lost protocol itself --
    under the environment assumptions (which exclude connect() on a lost protocol: known finding KF-2) -/
theorem no_write_after_lost {w : World} (h : WInv w) (op : Op) (henv : Env w op) (p : Nat) (pr : Proto)
    (hp : w.protos.get? p = some pr) (hl : pr.lost = true) :
    EmitsAt ⟨(· != p), fun _ => true, true⟩ op.handler w := by
  have hne : ∀ q, Live w q → (q != p) = true := by
    intro q ⟨qr, hq, hql⟩
    simp only [bne_iff_ne, ne_eq]
    intro hc; subst hc
    rw [hp] at hq; injection hq with hq; subst hq
    rw [hl] at hql; cases hql
  have refused : ∀ (o : Obs) (ho : (⟨(· != p), fun _ => true, true⟩ : Pol).ok o = true), EmitsAt ⟨(· != p), fun _ => true, true⟩ (emit o) w :=
    fun o ho => em_emit o ho w
  cases op with
  | build a => exact em_mod (fun _ => rfl) w
  | sethandlers q m => exact em_setProto _ _ w
  | connect q a => exact em_apiConnect q a (hne q henv) w
  | disconnect q =>
    by_cases hq : q = p
    · subst hq
      have := C14.disconnect_refused w q (not_allowed_when_lost h q pr hp hl 1 (by omega))
      exact ⟨[], by show (apiDisconnect q w).1.log = _; rw [this]; simp, by simp⟩
    · exact em_apiDisconnect q (by simp [hq]) w
  | publish q t pl qs r =>
    by_cases hq : q = p
    · subst hq
      have := C14.publish_refused w q t pl qs r (not_allowed_when_lost h q pr hp hl 4 (by omega))
      exact ⟨[.retFail .state], by show (apiPublish q t pl qs r w).1.log = _; rw [this]; rfl, by simp [Pol.ok]⟩
    · exact em_apiPublish q t pl qs r (by simp [hq]) w
  | subscribe q a qs =>
    by_cases hq : q = p
    · subst hq
      have := C14.subscribe_refused w q a qs (not_allowed_when_lost h q pr hp hl 2 (by omega))
      exact ⟨[.retFail .state], by show (apiSubscribe q a qs w).1.log = _; rw [this]; rfl, by simp [Pol.ok]⟩
    · exact em_apiSubscribe q a qs (by simp [hq]) w
  | unsubscribe q a =>
    by_cases hq : q = p
    · subst hq
      have := C14.unsubscribe_refused w q a (not_allowed_when_lost h q pr hp hl 3 (by omega))
      exact ⟨[.retFail .state], by show (apiUnsubscribe q a w).1.log = _; rw [this]; rfl, by simp [Pol.ok]⟩
    · exact em_apiUnsubscribe q a (by simp [hq]) w
  | setwin q n => exact em_apiSetWindow q n w
  | settimeout q n => exact em_apiSetTimeout q n w
  | setbw q b f => exact em_apiSetBandwith q b f w
  | jit v => exact em_mod (fun _ => rfl) w
  | setid v => exact em_mod (fun _ => rfl) w
  | recv q d => exact em_dataReceived q d (hne q henv.1) rfl rfl w
  | lost q r => exact em_connectionLost q r w
  | fire t =>
    apply em_fireTimer_at
    intro tm htm hs
    have hpend : Pending w t tm.kind := ⟨tm, htm, hs, rfl⟩
    cases hk : tm.kind with
    | retry q rid =>
      rw [hk] at hpend
      obtain ⟨qr, a, b⟩ := h.retryLive t q rid hpend
      exact hne q ⟨qr, a, b⟩
    | pingLoop q =>
      rw [hk] at hpend
      obtain ⟨qr, l, a, b, _⟩ := h.pingLoopOwned t q hpend
      refine hne q ⟨qr, a, ?_⟩
      cases hql : qr.lost with
      | false => rfl
      | true => have := (h.lostIdle q qr a hql).2.1; rw [b] at this; cases this
    | pingAlarm q => rfl
    | connack cr => intro _; rfl
    | onDisc q r => trivial

/-! ### C09: PUBREC moves the exchange from the publish window to the release window -/

/-- the world in which the PUBREL is first transmitted: the PUBLISH entry is gone (its retry timer cancelled), a PUBREL
    request under the same identifier, with the same Deferred, sits in the release window -/
def afterPubrec (w : World) (a m rid t : Nat) (bs : Bytes) (initialT : Nat) : World :=
  { dropArmed w ⟨a, .pub, m, rid⟩ t with
    reqs := (dropArmed w ⟨a, .pub, m, rid⟩ t).reqs.set w.nextReq
      { kind := .pubrel, msgId := m, qos := (w.req rid).qos, encoded := bs, dfd := (w.req rid).dfd, alarm := none, initial := initialT, ivValue := initialT, ivK := 1, bandwith := 1, factor := 1, seq := (w.req rid).seq },
    nextReq := w.nextReq + 1,
    ents := (dropArmed w ⟨a, .pub, m, rid⟩ t).ents ++ [⟨a, .rel, m, w.nextReq⟩] }

theorem handlePUBREC_effect {w : World} (h : WInv w) (p : Nat) (ppr : Proto) (hpp : w.protos.get? p = some ppr)
    (hlive : ppr.lost = false) (hconn : ppr.state = .connected) (m : Nat) (hm : m < 65536) (rid : Nat)
    (hl : Ents.lookup w.ents ppr.addr .pub m = some rid) (hq2 : (w.req rid).qos = 2) :
    ∃ t bs, (w.req rid).alarm = some t ∧ encodePUBREL (m : Int) = .ok bs ∧
      handlePUBREC p m w = (retryReleaseW p w.nextReq false (afterPubrec w ppr.addr m rid t bs ppr.initialT), none) := by
  have hpa : w.paddr p = ppr.addr := by simp [World.paddr, getD_of_get? hpp]
  obtain ⟨bs, hbs⟩ := encodeAck_ok 0x62 m hm
  have hbs' : encodePUBREL (m : Int) = .ok bs := hbs
  have he := Ents.lookup_some hl
  have hq : (⟨ppr.addr, .pub, m, rid⟩ : Ent).box ≠ .queue := by simp
  obtain ⟨t, d, p0, ht, hpe, hd, hnf, hkey⟩ := window_entry_facts h p ppr hpp hlive hconn he rfl hq
  simp only at ht hpe hd hkey
  refine ⟨t, bs, ht, hbs', ?_⟩
  unfold handlePUBREC
  generalize hE : encodePUBREL (m : Int) = E
  rw [hbs'] at hE; subst hE
  simp only [read_apply, hpa, hl, ne_eq, hq2, not_true_eq_false, ↓reduceIte]
  have s1 : cancelAlarm (w.req rid).alarm w = ({ w with timers := cancelT w t }, none) := by
    rw [ht]; exact cancelTimer_pending w t _ hpe
  rw [seq_ok s1]
  have s2 : setEnts (fun es => Ents.remove es ppr.addr .pub m) { w with timers := cancelT w t }
      = (dropArmed w ⟨ppr.addr, .pub, m, rid⟩ t, none) := rfl
  rw [seq_ok s2]
  simp only [read_apply]
  have hmem := dropArmed_mem h he hq t
  have hk := h.keyId _ he hq
  have hidf : ∀ y ∈ (dropArmed w ⟨ppr.addr, .pub, m, rid⟩ t).ents, idOf (dropArmed w ⟨ppr.addr, .pub, m, rid⟩ t) y ≠ m := by
    intro y hy hc
    obtain ⟨hy1, hy2⟩ := (hmem y).mp hy
    exact hy2 (h.idUnique y hy1 _ he (by rw [show idOf w y = m from hc]; simp [idOf]) (by rw [show idOf w y = m from hc]; exact hk.2))
  have hlook : Ents.lookup (dropArmed w ⟨ppr.addr, .pub, m, rid⟩ t).ents ppr.addr .rel m = none := by
    cases hl2 : Ents.lookup (dropArmed w ⟨ppr.addr, .pub, m, rid⟩ t).ents ppr.addr .rel m with
    | none => rfl
    | some r2 => exact absurd (by simp [idOf]) (hidf _ (Ents.lookup_some hl2))
  have hins : Ents.insert (dropArmed w ⟨ppr.addr, .pub, m, rid⟩ t).ents ppr.addr .rel m (dropArmed w ⟨ppr.addr, .pub, m, rid⟩ t).nextReq
      = (dropArmed w ⟨ppr.addr, .pub, m, rid⟩ t).ents ++ [⟨ppr.addr, .rel, m, w.nextReq⟩] := Ents.insert_of_lookup_none _ hlook
  have hpa' : (dropArmed w ⟨ppr.addr, .pub, m, rid⟩ t).paddr p = ppr.addr := hpa
  have hpi' : ((dropArmed w ⟨ppr.addr, .pub, m, rid⟩ t).proto p).initialT = ppr.initialT := by
    show (w.proto p).initialT = _; rw [getD_of_get? hpp]
  simp only [Step.seq, mod_apply, setEnts, retryRelease, World.setEnts]
  rw [hpa', hpi', hins]
  rfl

/-- afterwards no PUBLISH entry carries the identifier any more, so nothing can resend the PUBLISH (`settled_is_silent`,
    and `_syncSession` resumes entries by the window they are in) -/
theorem afterPubrec_no_publish {w : World} (h : WInv w) (a m rid t : Nat) (bs : Bytes) (i : Nat) (he : (⟨a, .pub, m, rid⟩ : Ent) ∈ w.ents) :
    ∀ y ∈ (afterPubrec w a m rid t bs i).ents, ¬ (y.box = .pub ∧ y.key = m ∧ y.addr = a) ∧ y.rid ≠ rid := by
  intro y hy
  have hmem := dropArmed_mem h he (by simp) t
  simp only [afterPubrec, List.mem_append, List.mem_singleton] at hy
  rcases hy with hy | rfl
  · obtain ⟨hy1, hy2⟩ := (hmem y).mp hy
    refine ⟨fun hc => ?_, fun hc => hy2 (h.ridUnique y hy1 _ he hc)⟩
    have hk := h.keyId _ he (by simp)
    have hky := h.keyId y hy1 (by rw [hc.1]; simp)
    exact hy2 (h.idUnique y hy1 _ he (by simp [idOf, hc.1, hc.2.1]) (by simp [idOf, hc.1, hc.2.1]; exact hk.2))
  · refine ⟨by simp, ?_⟩
    have := h.ridFresh _ he
    simp only at this ⊢
    omega

/-! ### C06: inbound PUBLISH by QoS -/

theorem handlePUBLISH_qos0 (p : Nat) (m : RxMsg) (w : World) (h : m.qos = 0) : handlePUBLISH p m w = deliver p m w := by
  simp [handlePUBLISH, h]

/-- QoS 1: exactly one PUBACK echoing the received identifier, then the delivery -/
theorem handlePUBLISH_qos1 (p : Nat) (m : RxMsg) (w : World) (h : m.qos = 1) (i : Nat) (hi : m.msgId = some i) (hlt : i < 65536) :
    ∃ bs, encodePUBACK (i : Int) = .ok bs ∧ handlePUBLISH p m w = (write p bs ;; deliver p m) w := by
  obtain ⟨bs, hbs⟩ := encodeAck_ok 0x40 i hlt
  have hbs' : encodePUBACK (i : Int) = .ok bs := hbs
  refine ⟨bs, hbs', ?_⟩
  unfold handlePUBLISH
  rw [hi]
  generalize hE : encodePUBACK (((some i).getD 0 : Nat) : Int) = E
  have : encodePUBACK (((some i).getD 0 : Nat) : Int) = .ok bs := hbs'
  rw [this] at hE; subst hE
  simp [h]

/-- QoS 2: the message is stored under its identifier (a repeat replaces it), a PUBREC echoing the identifier is
    written, nothing is delivered yet -/
theorem handlePUBLISH_qos2 (p : Nat) (m : RxMsg) (w : World) (h : m.qos = 2) (i : Nat) (hi : m.msgId = some i) (hlt : i < 65536) :
    ∃ bs, encodePUBREC (i : Int) = .ok bs ∧
      handlePUBLISH p m w = (({ w with rx := Rx.insert w.rx (w.paddr p) i m } : World).emit (.write p bs), none) := by
  obtain ⟨bs, hbs⟩ := encodeAck_ok 0x50 i hlt
  have hbs' : encodePUBREC (i : Int) = .ok bs := hbs
  refine ⟨bs, hbs', ?_⟩
  unfold handlePUBLISH
  rw [hi]
  generalize hE : encodePUBREC (((some i).getD 0 : Nat) : Int) = E
  generalize encodePUBACK (((some i).getD 0 : Nat) : Int) = E1
  have : encodePUBREC (((some i).getD 0 : Nat) : Int) = .ok bs := hbs'
  rw [this] at hE; subst hE
  simp [h, Step.seq, Step.mod, write, emit]

/-- PUBREL for a stored message: it is removed from the store, delivered, and a PUBCOMP echoing the identifier written -/
theorem handlePUBREL_stored (p m : Nat) (w : World) (hm : m < 65536) (msg : RxMsg) (h : Rx.lookup w.rx (w.paddr p) m = some msg) :
    ∃ bs, encodePUBCOMP (m : Int) = .ok bs ∧
      handlePUBREL p m w = ((Step.mod (fun w' => { w' with rx := Rx.remove w'.rx (w'.paddr p) m }) ;; deliver p msg) ;; write p bs) w := by
  obtain ⟨bs, hbs⟩ := encodeAck_ok 0x70 m hm
  have hbs' : encodePUBCOMP (m : Int) = .ok bs := hbs
  refine ⟨bs, hbs', ?_⟩
  unfold handlePUBREL
  generalize hE : encodePUBCOMP (m : Int) = E
  rw [hbs'] at hE; subst hE
  simp [Step.read, h]

/-! ### C04/C18: what an accepted connect() does -/

/-- connect() with valid, encodable arguments on an idle protocol: exactly one packet -- the CONNECT -- is written, the
    state becomes CONNECTING, the timeout (keepalive seconds, 10 if keepalive is 0) is armed, a fresh Deferred is returned -/
theorem connect_effect (w : World) (p : Nat) (a : ConnectArgs) (ppr : Proto) (hpp : w.protos.get? p = some ppr)
    (ha : allowed w p 0 = true) (hck : checkConnect a = true) (pdu : Bytes) (henc : a.toF.encode = .ok pdu) :
    apiConnect p a w =
      (connStartW w p { ppr with cleanStart := a.cleanStart, version := verOf a.version, state := .connecting, connReq := some w.nextCR }
        (w.now + ticks (if a.keepalive.toNat = 0 then 10 else (a.keepalive.toNat : Rat))) a.keepalive.toNat
        ((w.log ++ [.write p pdu]) ++ [.retPending w.nextDfd none]), none) := by
  unfold apiConnect
  generalize hE : a.toF.encode = E
  rw [henc] at hE; subst hE
  simp only [Step.seq, setProto, Step.mod, write, emit, World.emit, Step.read, callLater, newDfd, World.callLater, World.proto,
    Dict.get?_set, ↓reduceIte, Option.getD_some, hpp, Dict.set_set, connStartW, ha, hck, Bool.not_true, Bool.false_eq_true]

end Mqtt
