import MqttVerif.Proofs.TimerFrame
/-
  C08 / C09: "nothing is repeated except on expiry or resumption", over the history of timers.  Every transmission of a request with an
  identifier creates a retry DelayedCall of kind `.retry p rid` (the timer table only grows), so "which requests get a new retry timer
  during an operation" says which requests the operation (re)transmits.  `RAx c N w w'`: between `w` and `w'` no timer was re-programmed,
  no `alarm` field went from a timer to `None` (unless `c` is false: the connection-loss handler), nothing old was put back on the queue,
  and every new retry timer is for a request in `N`.  `RA c x w0 w`: the same from the start `w0` of the operation, with `N` the
  justified requests: created during the operation, queued at its start, without a timer at its start (resumption), or `x`, the
  request whose own retry timer is expiring.
-/
namespace Mqtt

def queuedIn (w : World) (rid : Nat) : Prop := ∃ e, e ∈ w.ents ∧ e.box = .queue ∧ e.rid = rid
/-- some container of the factory still holds request `rid` -/
def hasEnt (w : World) (rid : Nat) : Prop := ∃ e, e ∈ w.ents ∧ e.rid = rid

instance (w : World) (rid : Nat) : Decidable (queuedIn w rid) := by unfold queuedIn; infer_instance
instance (w : World) (rid : Nat) : Decidable (hasEnt w rid) := by unfold hasEnt; infer_instance

/-- why request `rid` may get a retry timer during an operation that starts in `w` -/
def JustL (c : Prop) (x : Option Nat) (w : World) (rid : Nat) : Prop :=
  w.nextReq ≤ rid ∨ queuedIn w rid ∨ (c ∧ (w.req rid).alarm = none ∧ hasEnt w rid) ∨ x = some rid

structure RAx (c : Prop) (N : Nat → Prop) (w w' : World) : Prop where
  keep : TKeep w w'
  back : ∀ t tm, t < w.nextTimer → w'.timers.get? t = some tm → ∃ tm0, w.timers.get? t = some tm0 ∧ tm0.kind = tm.kind
  nt : w.nextTimer ≤ w'.nextTimer
  nr : w.nextReq ≤ w'.nextReq
  alarm : c → ∀ rid, rid < w.nextReq → (w'.req rid).alarm = none → (w.req rid).alarm = none
  queue : ∀ e, e ∈ w'.ents → e.box = .queue → e.rid < w.nextReq → queuedIn w e.rid
  old : ∀ e, e ∈ w'.ents → e.rid < w.nextReq → hasEnt w e.rid
  new : ∀ t tm, w.nextTimer ≤ t → w'.timers.get? t = some tm → ∀ q rid, tm.kind = .retry q rid → N rid

section rax
variable {c : Prop} {N M : Nat → Prop} {x : Option Nat}

theorem RAx.refl {w : World} (h : TF w) : RAx c N w w :=
  ⟨TKeep.refl h, fun t tm _ ht => ⟨tm, ht, rfl⟩, Nat.le_refl _, Nat.le_refl _, fun _ _ _ h => h,
   fun e he hq _ => ⟨e, he, hq, rfl⟩, fun e he _ => ⟨e, he, rfl⟩, fun t tm hle ht => absurd (h t tm ht) (by omega)⟩

theorem RAx.trans {w0 w1 w2 : World} (a : RAx c N w0 w1) (b : RAx c M w1 w2) (hM : ∀ r, M r → N r) : RAx c N w0 w2 := by
  refine ⟨a.keep.trans b.keep, fun t tm hlt ht => ?_, Nat.le_trans a.nt b.nt, Nat.le_trans a.nr b.nr, fun hc rid hr h2 => ?_,
    fun e he hq hr => ?_, fun e he hr => ?_, fun t tm hle ht q rid hk => ?_⟩
  · obtain ⟨tm1, h1, k1⟩ := b.back t tm (Nat.lt_of_lt_of_le hlt a.nt) ht
    obtain ⟨tm0, h0, k0⟩ := a.back t tm1 hlt h1
    exact ⟨tm0, h0, k0.trans k1⟩
  · exact a.alarm hc rid hr (b.alarm hc rid (Nat.lt_of_lt_of_le hr a.nr) h2)
  · obtain ⟨e1, he1, hq1, hr1⟩ := b.queue e he hq (Nat.lt_of_lt_of_le hr a.nr)
    have := a.queue e1 he1 hq1 (by rw [hr1]; exact hr)
    rw [hr1] at this; exact this
  · obtain ⟨e1, he1, hr1⟩ := b.old e he (Nat.lt_of_lt_of_le hr a.nr)
    have := a.old e1 he1 (by rw [hr1]; exact hr)
    rw [hr1] at this; exact this
  · by_cases hlt : t < w1.nextTimer
    · obtain ⟨tm1, h1, k1⟩ := b.back t tm hlt ht
      exact a.new t tm1 hle h1 q rid (k1.trans hk)
    · exact hM _ (b.new t tm (by omega) ht q rid hk)

theorem RAx.mono {w w' : World} (a : RAx c N w w') (hN : ∀ r, N r → M r) : RAx c M w w' :=
  ⟨a.keep, a.back, a.nt, a.nr, a.alarm, a.queue, a.old, fun t tm hle ht q rid hk => hN _ (a.new t tm hle ht q rid hk)⟩

/-- a justification at a later state of the operation is one at its start -/
theorem RAx.transport {w0 w1 : World} (a : RAx c N w0 w1) {r : Nat} (h : JustL c x w1 r) : JustL c x w0 r := by
  rcases h with h | ⟨e, he, hq, hr⟩ | ⟨hc, h, e, he, hr⟩ | h
  · exact Or.inl (Nat.le_trans a.nr h)
  · by_cases hlt : r < w0.nextReq
    · have := a.queue e he hq (by rw [hr]; exact hlt)
      rw [hr] at this; exact Or.inr (Or.inl this)
    · exact Or.inl (by omega)
  · by_cases hlt : r < w0.nextReq
    · have := a.old e he (by rw [hr]; exact hlt)
      rw [hr] at this
      exact Or.inr (Or.inr (Or.inl ⟨hc, a.alarm hc r hlt h, this⟩))
    · exact Or.inl (by omega)
  · exact Or.inr (Or.inr (Or.inr h))

end rax

def RA (c : Prop) (x : Option Nat) (w0 w : World) : Prop := RAx c (JustL c x w0) w0 w

section ra
variable {c : Prop} {x : Option Nat} {w0 : World}

theorem RA.refl {w : World} (h : TF w) : RA c x w w := RAx.refl h
theorem RA.tf {w0 w : World} (h : RA c x w0 w) : TF w := h.keep.tf
theorem RA.step {w0 w w' : World} {M : Nat → Prop} (h : RA c x w0 w) (d : RAx c M w w') (hM : ∀ r, M r → JustL c x w r ∨ JustL c x w0 r) :
    RA c x w0 w' :=
  RAx.trans h d fun r hr => (hM r hr).elim (fun j => h.transport j) id
theorem RA.frame {w0 w w' : World} (h : RA c x w0 w) (d : RAx c (fun _ => False) w w') : RA c x w0 w' := h.step d fun _ hf => hf.elim

/-- `s` keeps `RA` from wherever the operation started -/
def RJ (c : Prop) (x : Option Nat) (w0 : World) (s : Step) : Prop := ∀ w, RA c x w0 w → RA c x w0 (s w).1

theorem rj_ok : RJ c x w0 Step.ok := fun _ h => h
theorem rj_raise (e : Err) : RJ c x w0 (Step.raise e) := fun _ h => h
theorem rj_seq {a b : Step} (ha : RJ c x w0 a) (hb : RJ c x w0 b) : RJ c x w0 (a ;; b) := by
  intro w h
  have h1 := ha w h
  simp only [Step.seq]
  rcases hw : a w with ⟨w1, _ | e⟩
  · rw [hw] at h1; exact hb w1 h1
  · rw [hw] at h1; exact h1
theorem rj_read {f : World → Step} (hf : ∀ w, RA c x w0 w → RJ c x w0 (f w)) : RJ c x w0 (Step.read f) := fun w h => hf w h w h
theorem rj_frame {s : Step} (hs : ∀ w, TF w → RAx c (fun _ => False) w (s w).1) : RJ c x w0 s := fun w h => h.frame (hs w h.tf)

/-- a world function that leaves timers and requests alone and puts nothing on the queue -/
theorem rax_same {w w' : World} (h : TF w) (h1 : w'.timers = w.timers) (h2 : w'.nextTimer = w.nextTimer) (h3 : w.nextReq ≤ w'.nextReq)
    (h4 : c → ∀ rid, rid < w.nextReq → (w'.req rid).alarm = none → (w.req rid).alarm = none)
    (h5 : ∀ e, e ∈ w'.ents → e ∈ w.ents) : RAx c (fun _ => False) w w' :=
  ⟨tkeep_same h h1 h2, fun t tm _ ht => ⟨tm, by rw [← h1]; exact ht, rfl⟩, Nat.le_of_eq h2.symm, h3, h4,
   fun e he hq _ => ⟨e, h5 e he, hq, rfl⟩, fun e he _ => ⟨e, h5 e he, rfl⟩, fun t tm hle ht => absurd (h t tm (by rw [← h1]; exact ht)) (by omega)⟩

theorem rj_mod {f : World → World} (h1 : ∀ w, (f w).timers = w.timers) (h2 : ∀ w, (f w).nextTimer = w.nextTimer)
    (h3 : ∀ w, (f w).nextReq = w.nextReq) (h4 : ∀ w, (f w).reqs = w.reqs) (h5 : ∀ w, (f w).ents = w.ents) : RJ c x w0 (Step.mod f) :=
  rj_frame fun w h => rax_same h (h1 w) (h2 w) (Nat.le_of_eq (h3 w).symm)
    (fun _ rid _ ha => by have : (f w).req rid = w.req rid := by simp only [World.req, h4]
                          show (w.req rid).alarm = none; rw [← this]; exact ha)
    (fun e he => by have := he; simp only [Step.mod] at this; rw [h5] at this; exact this)
theorem rj_emit (o : Obs) : RJ c x w0 (emit o) := rj_mod (fun _ => rfl) (fun _ => rfl) (fun _ => rfl) (fun _ => rfl) (fun _ => rfl)
theorem rj_write (q : Nat) (bs : Bytes) : RJ c x w0 (write q bs) := rj_emit _
theorem rj_abort (q : Nat) : RJ c x w0 (abort q) := rj_emit _
theorem rj_setProto (q : Nat) (g : Proto → Proto) : RJ c x w0 (setProto q g) := rj_mod (fun _ => rfl) (fun _ => rfl) (fun _ => rfl) (fun _ => rfl) (fun _ => rfl)
theorem rj_setEnts (g : List Ent → List Ent) (hg : ∀ es e, e ∈ g es → e ∈ es) : RJ c x w0 (setEnts g) :=
  rj_frame fun w h => rax_same h rfl rfl (Nat.le_refl _) (fun _ _ _ ha => ha) (fun e he => hg w.ents e he)
theorem rj_remove (a : Nat) (b : Box) (k : Nat) : RJ c x w0 (setEnts fun es => Ents.remove es a b k) := rj_setEnts _ fun _ _ he => Ents.mem_remove he
theorem rj_dropFirst (a : Nat) (b : Box) : RJ c x w0 (setEnts fun es => Ents.dropFirst es a b) := rj_setEnts _ fun _ _ he => Ents.mem_dropFirst he
/-- an entry enters a window: for a request created during this operation, or one the factory already held at its start -/
theorem ra_insert {w : World} (h : RA c x w0 w) (a : Nat) (b : Box) (k rid : Nat) (hb : b ≠ .queue) (hr : w0.nextReq ≤ rid ∨ hasEnt w0 rid) :
    RA c x w0 (w.setEnts fun es => Ents.insert es a b k rid) :=
  ⟨h.keep.trans (tkeep_same h.tf rfl rfl), h.back, h.nt, h.nr, h.alarm,
   fun e he hq hlt => by
    rcases Ents.mem_insert (show e ∈ Ents.insert w.ents a b k rid from he) with he' | he'
    · exact h.queue e he' hq hlt
    · rw [he'] at hq; exact absurd hq hb,
   fun e he hlt => by
    rcases Ents.mem_insert (show e ∈ Ents.insert w.ents a b k rid from he) with he' | he'
    · exact h.old e he' hlt
    · rw [he'] at hlt ⊢
      rcases hr with hr | hr
      · exact absurd hlt (by show ¬ rid < w0.nextReq; omega)
      · exact hr,
   h.new⟩
theorem rj_insert (a : Nat) (b : Box) (k rid : Nat) (hb : b ≠ .queue) (hr : w0.nextReq ≤ rid ∨ hasEnt w0 rid) :
    RJ c x w0 (setEnts fun es => Ents.insert es a b k rid) := fun _ h => ra_insert h a b k rid hb hr
theorem rj_setReq (rid : Nat) (g : Req → Req) (hg : c → ∀ r, (g r).alarm = none → r.alarm = none) : RJ c x w0 (setReq rid g) :=
  rj_frame fun w h => rax_same h rfl rfl (Nat.le_refl _)
    (fun hc r _ ha => by
      have ha' : ((w.setReq rid g).req r).alarm = none := ha
      rw [req_setReq] at ha'
      split at ha'
      · rename_i he; subst he; exact hg hc _ ha'
      · exact ha')
    (fun e he => he)
theorem rax_status (w : World) (h : TF w) (t : Nat) (tm : Timer) (ht : w.timers.get? t = some tm) (st : TStatus) :
    RAx c (fun _ => False) w { w with timers := w.timers.set t { tm with status := st } } := by
  refine ⟨tkeep_status w h t tm ht st, fun t' tm' _ ht' => ?_, Nat.le_refl _, Nat.le_refl _, fun _ _ _ ha => ha, fun e he hq _ => ⟨e, he, hq, rfl⟩,
    fun e he _ => ⟨e, he, rfl⟩, fun t' tm' hle ht' => ?_⟩
  · simp only [Dict.get?_set] at ht'
    split at ht'
    · rename_i he; subst he
      injection ht' with ht'; subst ht'
      exact ⟨tm, ht, rfl⟩
    · exact ⟨tm', ht', rfl⟩
  · simp only [Dict.get?_set] at ht'
    split at ht'
    · rename_i he; subst he
      exact absurd (h t tm ht) (by omega)
    · exact absurd (h t' tm' ht') (by omega)
theorem rj_cancelTimer (t : Nat) : RJ c x w0 (cancelTimer t) := by
  refine rj_frame fun w h => ?_
  show RAx c _ w ((match w.timers.get? t with
    | none => Step.raise .attribute
    | some tm =>
      match tm.status with
      | .pending => Step.mod fun w => { w with timers := w.timers.set t { tm with status := .cancelled } }
      | .called => Step.raise .alreadyCalled
      | .cancelled => Step.raise .alreadyCancelled) w).1
  cases ht : w.timers.get? t with
  | none => exact RAx.refl h
  | some tm =>
    dsimp only
    cases hs : tm.status with
    | pending => exact rax_status w h t tm ht .cancelled
    | called => exact RAx.refl h
    | cancelled => exact RAx.refl h
theorem rj_cancelAlarm (a : Option Nat) : RJ c x w0 (cancelAlarm a) := by
  cases a with
  | none => exact rj_raise _
  | some t => exact rj_cancelTimer t
theorem rax_callLater (w : World) (h : TF w) (d : Rat) (k : TKind) (hk : ∀ q rid, k = .retry q rid → N rid) : RAx c N w (w.callLater d k).1 := by
  refine ⟨tkeep_callLater w h d k, fun t tm hlt ht => ?_, by simp only [callLater_nextTimer]; omega, Nat.le_refl _, fun _ _ _ ha => ha,
    fun e he hq _ => ⟨e, he, hq, rfl⟩, fun e he _ => ⟨e, he, rfl⟩, fun t tm hle ht q rid hkk => ?_⟩
  · simp only [callLater_timers, Dict.get?_set] at ht
    rw [if_neg (by omega)] at ht
    exact ⟨tm, ht, rfl⟩
  · simp only [callLater_timers, Dict.get?_set] at ht
    split at ht
    · injection ht with ht; subst ht
      exact hk q rid hkk
    · exact absurd (h t tm ht) (by omega)
theorem rj_callLater (d : Rat) (k : TKind) (hk : ∀ q rid, k ≠ .retry q rid) {f : Nat → Step} (hf : ∀ t, RJ c x w0 (f t)) : RJ c x w0 (callLater d k f) :=
  rj_read fun _ _ => rj_seq (rj_frame fun w h => rax_callLater w h d k fun q rid he => absurd he (hk q rid)) (hf _)
theorem rj_newDfd {f : Nat → Step} (hf : ∀ t, RJ c x w0 (f t)) : RJ c x w0 (newDfd f) :=
  rj_read fun _ _ => rj_seq (rj_mod (fun _ => rfl) (fun _ => rfl) (fun _ => rfl) (fun _ => rfl) (fun _ => rfl)) (hf _)
theorem rj_makeId {f : Nat → Step} (hf : ∀ t, RJ c x w0 (f t)) : RJ c x w0 (makeId f) :=
  rj_read fun _ _ => rj_seq (rj_mod (fun _ => rfl) (fun _ => rfl) (fun _ => rfl) (fun _ => rfl) (fun _ => rfl)) (hf _)
theorem rj_fireDfd (d : Nat) (o : Outcome) : RJ c x w0 (fireDfd d o) := by
  refine rj_read fun w _ => ?_
  split
  · exact rj_raise _
  · exact rj_seq (rj_mod (fun _ => rfl) (fun _ => rfl) (fun _ => rfl) (fun _ => rfl) (fun _ => rfl)) (rj_emit _)
theorem rj_fireReqDfd (d : Option Nat) (o : Outcome) : RJ c x w0 (fireReqDfd d o) := by
  cases d with
  | none => exact rj_raise _
  | some d => exact rj_fireDfd d o
theorem rj_forEach {α : Type} (l : List α) {f : α → Step} (hf : ∀ a, RJ c x w0 (f a)) : RJ c x w0 (forEach l f) := by
  induction l with
  | nil => exact rj_ok
  | cons a r ih => exact rj_seq (hf a) ih
theorem rj_deliver (q : Nat) (m : RxMsg) : RJ c x w0 (deliver q m) := by
  refine rj_read fun w _ => ?_
  split
  · exact rj_emit _
  · exact rj_ok


/-! ### the retransmission helpers: one new retry timer, for the request they are given -/

theorem rax_retry {w w' : World} (h : TF w) (p rid : Nat)
    (ht : (w'.timers = w.timers ∧ w'.nextTimer = w.nextTimer) ∨
      (∃ due, w'.timers = w.timers.set w.nextTimer ⟨due, .retry p rid, .pending⟩ ∧ w'.nextTimer = w.nextTimer + 1))
    (hn : w'.nextReq = w.nextReq) (he : w'.ents = w.ents) (ha : ∀ r, (w.req r).alarm ≠ none → (w'.req r).alarm ≠ none) :
    RAx c (· = rid) w w' := by
  have hk : TKeep w w' := tkeep_of h (ht.elim Or.inl fun ⟨due, h1, h2⟩ => Or.inr ⟨_, h1, h2⟩)
  refine ⟨hk, fun t tm hlt htm => ?_, by rcases ht with ⟨_, h2⟩ | ⟨_, _, h2⟩ <;> omega, Nat.le_of_eq hn.symm,
    fun _ r _ hr => Classical.byContradiction fun hc => ha r hc hr, fun e hm hq _ => ⟨e, by rw [← he]; exact hm, hq, rfl⟩,
    fun e hm _ => ⟨e, by rw [← he]; exact hm, rfl⟩, fun t tm hle htm q r hkk => ?_⟩
  · rcases ht with ⟨h1, _⟩ | ⟨due, h1, _⟩
    · exact ⟨tm, by rw [← h1]; exact htm, rfl⟩
    · rw [h1, Dict.get?_set, if_neg (by omega)] at htm
      exact ⟨tm, htm, rfl⟩
  · rcases ht with ⟨h1, _⟩ | ⟨due, h1, _⟩
    · exact absurd (h t tm (by rw [← h1]; exact htm)) (by omega)
    · rw [h1, Dict.get?_set] at htm
      split at htm
      · injection htm with htm; subst htm
        injection hkk with _ h2; exact h2.symm
      · exact absurd (h t tm htm) (by omega)

theorem retryPublishW_rax (p rid : Nat) (dup : Bool) (w : World) (h : TF w) : RAx c (· = rid) w (retryPublishW p rid dup w) := by
  refine rax_retry h p rid ?_ (retryPublishW_nextReq p rid dup w) (retryPublishW_ents p rid dup w) (fun r => (retryPublishW_alarm p rid dup w r).1)
  simp only [retryPublishW]
  split
  · exact Or.inr ⟨_, rfl, rfl⟩
  · exact Or.inl ⟨rfl, rfl⟩
theorem retryReleaseW_rax (p rid : Nat) (dup : Bool) (w : World) (h : TF w) : RAx c (· = rid) w (retryReleaseW p rid dup w) := by
  refine rax_retry h p rid ?_ (retryReleaseW_nextReq p rid dup w) (retryReleaseW_ents p rid dup w) (fun r => (retryReleaseW_alarm p rid dup w r).1)
  simp only [retryReleaseW]
  split <;> exact Or.inr ⟨_, rfl, rfl⟩
theorem retrySubUnsubW_alarm' (p rid : Nat) (dup s : Bool) (w : World) (r : Nat) :
    (w.req r).alarm ≠ none → ((retrySubUnsubW p rid dup s w).req r).alarm ≠ none := by
  simp only [retrySubUnsubW]
  split <;>
  · simp only [emit_req, req_setReq, callLater_req]
    by_cases hr : rid = r <;> simp [hr]
theorem retrySubUnsubW_rax (p rid : Nat) (dup s : Bool) (w : World) (h : TF w) : RAx c (· = rid) w (retrySubUnsubW p rid dup s w) := by
  refine rax_retry h p rid ?_ (retrySubUnsubW_nextReq p rid dup s w) (retrySubUnsubW_ents p rid dup s w) (retrySubUnsubW_alarm' p rid dup s w)
  simp only [retrySubUnsubW]
  split <;> exact Or.inr ⟨_, rfl, rfl⟩

/-- the helper called on a justified request -/
theorem rj_retryPublish (p rid : Nat) (dup : Bool) (hj : ∀ w, RA c x w0 w → JustL c x w rid ∨ JustL c x w0 rid) : RJ c x w0 (retryPublish p rid dup) :=
  fun w h => h.step (retryPublishW_rax p rid dup w h.tf) fun r hr => by rw [hr]; exact hj w h
theorem rj_retryRelease (p rid : Nat) (dup : Bool) (hj : ∀ w, RA c x w0 w → JustL c x w rid ∨ JustL c x w0 rid) : RJ c x w0 (retryRelease p rid dup) :=
  fun w h => h.step (retryReleaseW_rax p rid dup w h.tf) fun r hr => by rw [hr]; exact hj w h
theorem rj_retrySubUnsub (p rid : Nat) (dup s : Bool) (hj : ∀ w, RA c x w0 w → JustL c x w rid ∨ JustL c x w0 rid) : RJ c x w0 (retrySubUnsub p rid dup s) :=
  fun w h => h.step (retrySubUnsubW_rax p rid dup s w h.tf) fun r hr => by rw [hr]; exact hj w h


theorem refillW_ra (p : Nat) (dup : Bool) (fuel : Nat) : ∀ (w : World), RA c x w0 w → RA c x w0 (refillW p dup fuel w) := by
  induction fuel with
  | zero => intro w h; exact h
  | succ f ih =>
    intro w h
    simp only [refillW]
    split
    · exact h
    · rename_i e rest hitems
      split
      · have hmem : e ∈ Ents.items w.ents (w.paddr p) .queue := by rw [hitems]; exact List.mem_cons_self
        obtain ⟨he, _, hq⟩ := Ents.mem_items.mp hmem
        have hj : JustL c x w0 e.rid := h.transport (Or.inr (Or.inl ⟨e, he, hq, rfl⟩))
        have hr : w0.nextReq ≤ e.rid ∨ hasEnt w0 e.rid := by
          by_cases hlt : e.rid < w0.nextReq
          · exact Or.inr (h.old e he hlt)
          · exact Or.inl (by omega)
        have hd : RA c x w0 (w.setEnts fun es => Ents.dropFirst es (w.paddr p) .queue) := rj_dropFirst _ _ w h
        generalize hw2 : (if (w.req e.rid).msgId ≠ 0 then
            (w.setEnts fun es => Ents.dropFirst es (w.paddr p) .queue).setEnts fun es => Ents.insert es (w.paddr p) .pub (w.req e.rid).msgId e.rid
          else w.setEnts fun es => Ents.dropFirst es (w.paddr p) .queue) = w2
        have h2 : RA c x w0 w2 := by
          rw [← hw2]; split
          · exact ra_insert hd _ _ _ _ (by intro hh; cases hh) hr
          · exact hd
        exact ih _ (h2.step (retryPublishW_rax p e.rid dup w2 h2.tf) fun r hr => by rw [hr]; exact Or.inr hj)
      · exact h
theorem rj_refill (p : Nat) : RJ c x w0 (refill p) := fun w h => refillW_ra p false _ w h

theorem foldRel_ra (hc : c) (p : Nat) (l : List Ent) : ∀ (w : World), (∀ e ∈ l, e ∈ w.ents) → RA c x w0 w →
    RA c x w0 (l.foldl (fun w e => if (w.req e.rid).alarm = none then retryReleaseW p e.rid true w else w) w) := by
  induction l with
  | nil => intro w _ h; exact h
  | cons e r ih =>
    intro w hl h
    simp only [List.foldl]
    have he : e ∈ w.ents := hl e List.mem_cons_self
    split
    · rename_i ha
      refine ih _ (fun y hy => ?_) (h.step (retryReleaseW_rax p e.rid true w h.tf) fun r hr => by
        rw [hr]; exact Or.inl (Or.inr (Or.inr (Or.inl ⟨hc, ha, e, he, rfl⟩))))
      rw [retryReleaseW_ents]; exact hl y (List.mem_cons_of_mem _ hy)
    · exact ih _ (fun y hy => hl y (List.mem_cons_of_mem _ hy)) h
theorem foldPub_ra (hc : c) (p : Nat) (l : List Ent) : ∀ (w : World), (∀ e ∈ l, e ∈ w.ents) → RA c x w0 w →
    RA c x w0 (l.foldl (fun w e => if (w.req e.rid).alarm = none then retryPublishW p e.rid true w else w) w) := by
  induction l with
  | nil => intro w _ h; exact h
  | cons e r ih =>
    intro w hl h
    simp only [List.foldl]
    have he : e ∈ w.ents := hl e List.mem_cons_self
    split
    · rename_i ha
      refine ih _ (fun y hy => ?_) (h.step (retryPublishW_rax p e.rid true w h.tf) fun r hr => by
        rw [hr]; exact Or.inl (Or.inr (Or.inr (Or.inl ⟨hc, ha, e, he, rfl⟩))))
      rw [retryPublishW_ents]; exact hl y (List.mem_cons_of_mem _ hy)
    · exact ih _ (fun y hy => hl y (List.mem_cons_of_mem _ hy)) h
/-- resumption: `_syncSession` re-arms exactly the inherited requests that have no timer -/
theorem rj_syncSession (hc : c) (p : Nat) : RJ c x w0 (syncSession p) := fun w h => by
  show RA c x w0 (syncW p w)
  simp only [syncW]
  exact foldPub_ra hc p _ _ (fun e he => (Ents.mem_items.mp he).1) (foldRel_ra hc p _ w (fun e he => (Ents.mem_items.mp he).1) h)


/-- a new request object: stored under the next free number -/
theorem rj_create {f : World → World} (h1 : ∀ w, (f w).timers = w.timers) (h2 : ∀ w, (f w).nextTimer = w.nextTimer)
    (h3 : ∀ w, w.nextReq ≤ (f w).nextReq) (h4 : ∀ w r, r < w.nextReq → (f w).reqs.get? r = w.reqs.get? r) (h5 : ∀ w, (f w).ents = w.ents) :
    RJ c x w0 (Step.mod f) :=
  rj_frame fun w h => rax_same h (h1 w) (h2 w) (h3 w)
    (fun _ rid hr ha => by have : (f w).req rid = w.req rid := by simp only [World.req, h4 w rid hr]
                           show (w.req rid).alarm = none; rw [← this]; exact ha)
    (fun e he => by have := he; simp only [Step.mod] at this; rw [h5] at this; exact this)
/-- a request created during this operation joins the queue -/
theorem rj_enqueue (a rid : Nat) (hr : w0.nextReq ≤ rid) : RJ c x w0 (setEnts fun es => es ++ [⟨a, .queue, 0, rid⟩]) := fun w h =>
  ⟨h.keep.trans (tkeep_same h.tf rfl rfl), h.back, h.nt, h.nr, h.alarm, fun e he hq hlt => by
    have he' : e ∈ w.ents ++ [⟨a, .queue, 0, rid⟩] := he
    rcases List.mem_append.mp he' with he' | he'
    · exact h.queue e he' hq hlt
    · have := List.mem_singleton.mp he'
      rw [this] at hlt
      exact absurd hlt (by show ¬ rid < w0.nextReq; omega),
   fun e he hlt => by
    have he' : e ∈ w.ents ++ [⟨a, .queue, 0, rid⟩] := he
    rcases List.mem_append.mp he' with he' | he'
    · exact h.old e he' hlt
    · have := List.mem_singleton.mp he'
      rw [this] at hlt
      exact absurd hlt (by show ¬ rid < w0.nextReq; omega), h.new⟩

macro "rj_step" : tactic => `(tactic| first
  | with_reducible exact rj_ok | with_reducible exact rj_raise _ | with_reducible exact rj_emit _
  | with_reducible exact rj_write _ _ | with_reducible exact rj_abort _ | with_reducible exact rj_setProto _ _
  | with_reducible exact rj_remove _ _ _ | with_reducible exact rj_dropFirst _ _
  | with_reducible exact rj_cancelTimer _ | with_reducible exact rj_cancelAlarm _
  | with_reducible exact rj_fireDfd _ _ | with_reducible exact rj_fireReqDfd _ _
  | with_reducible exact rj_deliver _ _
  | with_reducible exact rj_refill _
  | ((with_reducible apply rj_mod) <;> (intro w; rfl))
  | with_reducible apply rj_seq | ((with_reducible apply rj_read); intro w hw)
  | ((with_reducible apply rj_callLater); (intro q rid h; cases h); intro t)
  | ((with_reducible apply rj_newDfd); intro t) | ((with_reducible apply rj_makeId); intro t)
  | ((with_reducible apply rj_forEach); intro e)
  | split
  | dsimp only)
macro "rjs" : tactic => `(tactic| repeat rj_step)

theorem rj_drainQueue (p : Nat) (r : Err) (fuel : Nat) : RJ c x w0 (drainQueue p r fuel) := by
  induction fuel with
  | zero => exact rj_ok
  | succ f ih =>
    unfold drainQueue
    refine rj_read fun w _ => ?_
    split
    · exact rj_ok
    · apply rj_seq (rj_dropFirst _ _)
      apply rj_seq
      · split
        · exact rj_fireReqDfd _ _
        · exact rj_ok
      · exact ih
theorem rj_loopStop (p : Nat) : RJ c x w0 (loopStop p) := by unfold loopStop; rjs
theorem rj_cancelWindowAlarms (l : List Ent) : RJ False x w0 (cancelWindowAlarms l) := by
  unfold cancelWindowAlarms
  refine rj_forEach _ fun e => rj_read fun w _ => ?_
  split
  · exact rj_ok
  · exact rj_seq (rj_cancelTimer _) (rj_setReq _ _ fun hc => hc.elim)
theorem rj_failWindow (p : Nat) (s : Bool) (r : Err) : RJ c x w0 (failWindow p s r) := by unfold failWindow; rjs
theorem rj_purgeSession (p : Nat) (r : Err) : RJ c x w0 (purgeSession p r) := by unfold purgeSession purgeWindow; rjs
theorem rj_doConnectionLost (p : Nat) (r : Err) : RJ False x w0 (doConnectionLost p r) := by
  unfold doConnectionLost
  refine rj_read fun w _ => ?_
  refine rj_seq (rj_cancelWindowAlarms _) (rj_seq (rj_cancelWindowAlarms _) (rj_seq (rj_cancelWindowAlarms _) (rj_seq (rj_cancelWindowAlarms _)
    (rj_seq (rj_failWindow _ _ _) (rj_seq (rj_failWindow _ _ _) ?_)))))
  refine rj_read fun w' _ => ?_
  split
  · exact rj_seq (rj_purgeSession _ _) (rj_read fun _ _ => rj_drainQueue _ _ _)
  · exact rj_ok
/-- **the loss handler transmits nothing**: no retry timer is created while the loss of a connection is handled -/
theorem rj_connectionLost (p : Nat) (r : Err) : RJ False x w0 (connectionLost p r) := by
  unfold connectionLost
  refine rj_read fun w _ => ?_
  apply rj_seq
  · split
    · exact rj_ok
    · exact rj_seq (rj_loopStop _) (rj_setProto _ _)
  apply rj_seq
  · split
    · exact rj_ok
    · exact rj_seq (rj_cancelTimer _) (rj_setProto _ _)
  apply rj_seq (rj_doConnectionLost p r)
  apply rj_seq (rj_setProto _ _)
  rjs
theorem rj_doPingRequest (p : Nat) : RJ c x w0 (doPingRequest p) := by unfold doPingRequest; rjs
theorem rj_loopRun (p : Nat) : RJ c x w0 (loopRun p) := by
  intro w h
  have h1 : RJ c x w0 (ping p) := by
    unfold ping
    refine rj_read fun w _ => ?_
    split
    · exact rj_doPingRequest p
    · exact rj_raise _
  have a := h1 w h
  unfold loopRun
  rcases hp : ping p w with ⟨w1, _ | e⟩
  · rw [hp] at a
    simp only
    have : RJ c x w0 (Step.read fun w =>
      match (w.proto p).pingTimer with
      | some l =>
        if l.running then
          callLater l.interval (.pingLoop p) fun tid =>
            setProto p (fun pr => { pr with pingTimer := (pr.pingTimer.map fun l => { l with call := some tid }) })
        else Step.ok
      | none => Step.ok) := by rjs
    exact this w1 a
  · rw [hp] at a
    simp only
    exact rj_setProto p _ w1 a


theorem rj_mqttConnectionMade (hc : c) (p : Nat) : RJ c x w0 (mqttConnectionMade p) := by
  unfold mqttConnectionMade
  refine rj_read fun w _ => ?_
  refine rj_seq ?_ (rj_seq (rj_refill _) ?_)
  · split
    · exact rj_purgeSession _ _
    · exact rj_syncSession hc _
  · rjs
theorem rj_handleCONNACK (hc : c) (p : Nat) (session : Bool) (rc : Nat) : RJ c x w0 (handleCONNACK p session rc) := by
  unfold handleCONNACK
  refine rj_read fun w _ => ?_
  split
  · exact rj_raise _
  · split
    · exact rj_raise _
    · split
      · exact rj_ok
      · refine rj_seq (rj_cancelTimer _) (rj_seq ?_ (rj_setProto _ _))
        split
        · refine rj_seq (rj_setProto _ _) (rj_seq (rj_mqttConnectionMade hc p) (rj_seq ?_ (rj_fireDfd _ _)))
          split
          · exact rj_seq (rj_setProto _ _) (rj_loopRun p)
          · exact rj_ok
        · exact rj_seq (rj_setProto _ _) (rj_fireDfd _ _)
theorem rj_handlePINGRESP (p : Nat) : RJ c x w0 (handlePINGRESP p) := by unfold handlePINGRESP; rjs
theorem rj_handleSubUnsubAck (p : Nat) (b : Bool) (m : Nat) (v : Val) : RJ c x w0 (handleSubUnsubAck p b m v) := by unfold handleSubUnsubAck; rjs
theorem rj_handlePUBACK (p m : Nat) : RJ c x w0 (handlePUBACK p m) := by unfold handlePUBACK; rjs
theorem rj_handlePUBCOMP (p m : Nat) : RJ c x w0 (handlePUBCOMP p m) := by unfold handlePUBCOMP; rjs
theorem rj_handlePUBLISH (p : Nat) (m : RxMsg) : RJ c x w0 (handlePUBLISH p m) := by
  unfold handlePUBLISH
  split
  · exact rj_deliver _ _
  · split
    · split
      · exact rj_seq (rj_write _ _) (rj_deliver _ _)
      · exact rj_raise _
    · split
      · refine rj_seq (rj_mod (fun _ => rfl) (fun _ => rfl) (fun _ => rfl) (fun _ => rfl) (fun _ => rfl)) ?_
        split
        · exact rj_write _ _
        · exact rj_raise _
      · exact rj_ok
theorem rj_handlePUBREL (p m : Nat) : RJ c x w0 (handlePUBREL p m) := by
  unfold handlePUBREL
  refine rj_read fun w _ => ?_
  refine rj_seq ?_ ?_
  · split
    · exact rj_ok
    · exact rj_seq (rj_mod (fun _ => rfl) (fun _ => rfl) (fun _ => rfl) (fun _ => rfl) (fun _ => rfl)) (rj_deliver _ _)
  · split
    · exact rj_write _ _
    · exact rj_raise _
theorem rj_read' {f : World → Step} (hf : ∀ w, RA c x w0 w → RA c x w0 ((f w) w).1) : RJ c x w0 (Step.read f) := fun w h => hf w h
theorem ra_seq {a b : Step} {w : World} (ha : RA c x w0 (a w).1) (hb : RJ c x w0 b) : RA c x w0 ((a ;; b) w).1 := by
  simp only [Step.seq]
  rcases hw : a w with ⟨w1, _ | e⟩
  · rw [hw] at ha; exact hb w1 ha
  · rw [hw] at ha; exact ha
theorem ra_create {w w' : World} (h : RA c x w0 w) (R : Req) (h1 : w'.timers = w.timers) (h2 : w'.nextTimer = w.nextTimer)
    (h3 : w'.nextReq = w.nextReq + 1) (h4 : w'.reqs = w.reqs.set w.nextReq R) (h5 : w'.ents = w.ents) : RA c x w0 w' :=
  h.frame (rax_same h.tf h1 h2 (by omega)
    (fun _ rid hr ha => by
      have : w'.req rid = w.req rid := by simp only [World.req, h4, Dict.get?_set]; rw [if_neg (by omega)]
      rw [← this]; exact ha)
    (fun e he => by rw [h5] at he; exact he))

/-- a PUBREC turns the exchange into a new request, the PUBREL, transmitted for the first time -/
theorem rj_handlePUBREC (p m : Nat) : RJ c x w0 (handlePUBREC p m) := by
  unfold handlePUBREC
  generalize encodePUBREL (m : Int) = E
  refine rj_read fun w _ => ?_
  split
  · exact rj_ok
  · split
    · exact rj_ok
    · apply rj_seq (rj_cancelAlarm _)
      apply rj_seq (rj_remove _ _ _)
      cases E with
      | error e => exact rj_raise _
      | ok bs =>
        refine rj_read' fun w' hw' => ?_
        refine ra_seq ?_ (rj_seq (rj_insert _ _ _ _ (by intro h; cases h) (Or.inl hw'.nr)) (rj_retryRelease _ _ _ fun _ _ => Or.inr (Or.inl hw'.nr)))
        exact ra_create hw' _ rfl rfl rfl rfl rfl
theorem newDfd_eq (k : Nat → Step) (w : World) : newDfd k w = k w.nextDfd { w with nextDfd := w.nextDfd + 1 } := rfl
theorem rj_registerSubUnsub (p : Nat) (s : Bool) (i : Nat) (bs : Bytes) : RJ c x w0 (registerSubUnsub p s i bs) := by
  unfold registerSubUnsub
  refine rj_read' fun w hw => ?_
  rw [newDfd_eq]
  have h1 : RA c x w0 { w with nextDfd := w.nextDfd + 1 } :=
    rj_mod (f := fun w => { w with nextDfd := w.nextDfd + 1 }) (fun _ => rfl) (fun _ => rfl) (fun _ => rfl) (fun _ => rfl) (fun _ => rfl) w hw
  refine ra_seq (ra_create h1 _ rfl rfl rfl rfl rfl) ?_
  refine rj_seq (rj_insert _ _ _ _ (by split <;> (intro h; cases h)) (Or.inl hw.nr)) (rj_seq (rj_retrySubUnsub _ _ _ _ fun _ _ => Or.inr (Or.inl hw.nr)) (rj_emit _))
theorem rj_mkStep (p : Nat) (pr : Proto) (qn m : Nat) (d : Option Nat) (bs : Bytes) : RJ c x w0 (mkStep p pr qn m d bs) := by
  unfold mkStep
  refine rj_read' fun w hw => ?_
  refine ra_seq (ra_create hw _ rfl rfl rfl rfl rfl) (rj_seq (rj_enqueue _ _ hw.nr) (rj_refill _))
theorem rj_runTimer (k : TKind) (hk : ∀ q rid, k = .retry q rid → x = some rid) : RJ c x w0 (runTimer k) := by
  cases k with
  | connack cr => unfold runTimer; rjs
  | pingLoop q => exact rj_seq (rj_setProto _ _) (rj_loopRun q)
  | pingAlarm q => exact rj_seq (rj_setProto _ _) (rj_abort _)
  | retry q rid =>
    have hx : x = some rid := hk q rid rfl
    have hj : ∀ w, RA c x w0 w → JustL c x w rid ∨ JustL c x w0 rid := fun _ _ => Or.inr (Or.inr (Or.inr (Or.inr hx)))
    unfold runTimer
    refine rj_read fun w _ => ?_
    split
    · exact rj_retryPublish _ _ _ hj
    · exact rj_retryRelease _ _ _ hj
    · exact rj_retrySubUnsub _ _ _ _ hj
    · exact rj_retrySubUnsub _ _ _ _ hj
  | onDisc q r => exact rj_emit _

section recv
variable (hc : c)
include hc
theorem rj_processPacket (p : Nat) (pkt : Bytes) : RJ c x w0 (processPacket p pkt) := by
  unfold processPacket
  split
  · exact rj_raise _
  · dsimp only
    split
    · exact rj_abort _
    · split
      · exact rj_abort _
      · refine rj_read fun w _ => ?_
        split
        all_goals (try exact rj_abort _)
        all_goals (split <;> (try split) <;> first
          | exact rj_abort _ | exact rj_ok | exact rj_handleCONNACK hc _ _ _ | exact rj_handlePINGRESP _
          | exact rj_handleSubUnsubAck _ _ _ _ | exact rj_handlePUBLISH _ _ | exact rj_handlePUBACK _ _
          | exact rj_handlePUBREC _ _ | exact rj_handlePUBREL _ _ | exact rj_handlePUBCOMP _ _)
theorem rj_accumulate (p : Nat) (fuel : Nat) : RJ c x w0 (accumulate p fuel) := by
  induction fuel with
  | zero => exact rj_ok
  | succ f ih =>
    unfold accumulate
    refine rj_read fun w _ => ?_
    split
    · exact rj_ok
    · exact rj_seq (rj_processPacket hc _ _) (rj_seq (rj_setProto _ _) ih)
theorem rj_dataReceived (p : Nat) (d : Bytes) : RJ c x w0 (dataReceived p d) := by
  unfold dataReceived
  exact rj_seq (rj_setProto _ _) (rj_read fun _ _ => rj_accumulate hc _ _)
end recv

end ra

/-! ### operations -/

/-- the request whose pending retry timer the operation runs, if that is what it does -/
def Op.expiring (w : World) : Op → Option Nat
  | .fire t =>
    match w.timers.get? t with
    | some tm =>
      (match tm.kind with
       | .retry _ rid => if tm.status = .pending then some rid else none
       | _ => none)
    | none => none
  | _ => none

/-- the processing of bytes received from the broker (the one operation during which a session can be resumed) -/
def Op.isRecv (op : Op) : Prop := ∃ p d, op = .recv p d

theorem RJ.congr {c c' : Prop} {x : Option Nat} {w0 : World} {s : Step} (hcc : c ↔ c') (h : RJ c x w0 s) : RJ c' x w0 s := by
  have : c = c' := propext hcc
  subst this; exact h

theorem rax_fired {c : Prop} {w w' : World} (h : TF w) (t : Nat) (tm : Timer) (ht : w.timers.get? t = some tm) (st : TStatus)
    (h1 : w'.timers = w.timers.set t { tm with status := st }) (h2 : w'.nextTimer = w.nextTimer) (h3 : w'.nextReq = w.nextReq)
    (h4 : w'.reqs = w.reqs) (h5 : w'.ents = w.ents) : RAx c (fun _ => False) w w' := by
  have a : RAx c (fun _ => False) w { w with timers := w.timers.set t { tm with status := st } } := rax_status w h t tm ht st
  refine ⟨⟨fun t' tm' ht' => ?_, fun t' tm' ht' => ?_⟩, fun t' tm' hlt ht' => ?_, Nat.le_of_eq h2.symm, Nat.le_of_eq h3.symm, fun _ r _ ha => ?_,
    fun e he hq _ => ⟨e, by rw [← h5]; exact he, hq, rfl⟩, fun e he _ => ⟨e, by rw [← h5]; exact he, rfl⟩, fun t' tm' hle ht' => ?_⟩
  · rw [h2]; exact a.keep.tf t' tm' (by rw [h1] at ht'; exact ht')
  · obtain ⟨tm2, k1, k2, k3⟩ := a.keep.keep t' tm' ht'
    exact ⟨tm2, by rw [h1]; exact k1, k2, k3⟩
  · exact a.back t' tm' hlt (by rw [h1] at ht'; exact ht')
  · have : w'.req r = w.req r := by simp only [World.req, h4]
    rw [← this]; exact ha
  · exact a.new t' tm' hle (by rw [h1] at ht'; exact ht')

theorem rj_handler (w : World) (op : Op) (hop : ∀ t, op ≠ .fire t) : RJ op.isRecv (op.expiring w) w op.handler := by
  cases op with
  | build a => exact rj_mod (fun _ => rfl) (fun _ => rfl) (fun _ => rfl) (fun _ => rfl) (fun _ => rfl)
  | jit v => exact rj_mod (fun _ => rfl) (fun _ => rfl) (fun _ => rfl) (fun _ => rfl) (fun _ => rfl)
  | setid v => exact rj_mod (fun _ => rfl) (fun _ => rfl) (fun _ => rfl) (fun _ => rfl) (fun _ => rfl)
  | sethandlers p m => exact rj_setProto _ _
  | connect p a =>
    show RJ _ _ w (apiConnect p a)
    unfold apiConnect
    generalize a.toF.encode = E
    refine rj_read fun w _ => ?_
    split
    · exact rj_emit _
    · split
      · exact rj_emit _
      · cases E with
        | error e => dsimp only; rjs
        | ok pdu => dsimp only; rjs
  | disconnect p => show RJ _ _ w (apiDisconnect p); unfold apiDisconnect; rjs
  | publish p t pl qs r =>
    show RJ _ _ w (apiPublish p t pl qs r)
    intro w1
    rw [apiPublish_eq]
    split
    · exact rj_emit _ w1
    · split
      · exact rj_emit _ w1
      · split
        · cases encodePublishPy t pl 0 r none with
          | error e => exact rj_emit _ w1
          | ok bs => exact rj_seq (rj_mkStep _ _ _ _ _ _) (rj_emit _) w1
        · refine rj_makeId (f := _) ?_ w1
          intro i
          cases encodePublishPy t pl qs.toNat r (some (i : Int)) with
          | error e => exact rj_emit _
          | ok bs => exact rj_newDfd fun d => rj_seq (rj_mkStep _ _ _ _ _ _) (rj_emit _)
  | subscribe p a qs =>
    show RJ _ _ w (apiSubscribe p a qs)
    unfold apiSubscribe
    refine rj_read fun w _ => ?_
    cases a <;> dsimp only <;> (repeat' (first | with_reducible exact rj_emit _ | split)) <;>
      (refine rj_makeId fun i => ?_
       generalize encodeWithId 0x82 _ _ = E
       cases E with
       | error e => exact rj_emit _
       | ok bs => exact rj_registerSubUnsub _ _ _ _)
  | unsubscribe p a =>
    show RJ _ _ w (apiUnsubscribe p a)
    unfold apiUnsubscribe
    refine rj_read fun w _ => ?_
    split
    · exact rj_emit _
    · refine rj_makeId fun _ => rj_read fun w1 _ => ?_
      cases a <;> dsimp only <;> (repeat' (first | with_reducible exact rj_emit _ | split)) <;>
        (refine rj_makeId fun i => ?_
         generalize encodeWithId 0xA2 _ _ = E
         cases E with
         | error e => exact rj_emit _
         | ok bs => exact rj_registerSubUnsub _ _ _ _)
  | setwin p n => show RJ _ _ w (apiSetWindow p n); unfold apiSetWindow; rjs
  | settimeout p n => show RJ _ _ w (apiSetTimeout p n); unfold apiSetTimeout; rjs
  | setbw p b f => show RJ _ _ w (apiSetBandwith p b f); unfold apiSetBandwith; rjs
  | recv p d => exact rj_dataReceived ⟨p, d, rfl⟩ p d
  | lost p r =>
    refine RJ.congr (c := False) ⟨fun h => h.elim, fun ⟨_, _, h⟩ => by cases h⟩ ?_
    exact rj_connectionLost p r
  | fire t => exact absurd rfl (hop t)

theorem ra_handler (w : World) (h : TF w) (op : Op) : RA op.isRecv (op.expiring w) w (op.handler w).1 := by
  by_cases hop : ∀ t, op ≠ .fire t
  · exact rj_handler w op hop w (RA.refl h)
  · have : ∃ t, op = .fire t := Classical.byContradiction fun hc => hop fun t ht => hc ⟨t, ht⟩
    obtain ⟨t, rfl⟩ := this
    show RA _ _ w (fireTimer t w).1
    cases ht : w.timers.get? t with
    | none =>
      have e : fireTimer t w = emit .nofire w := by simp only [fireTimer, Step.read, ht]
      rw [e]; exact rj_emit _ w (RA.refl h)
    | some tm =>
      have e : fireTimer t w = (if tm.status = TStatus.pending then
          Step.mod (fun w => { w with now := max w.now tm.due, timers := w.timers.set t { tm with status := .called } }) ;; runTimer tm.kind
        else emit .nofire) w := by simp only [fireTimer, Step.read, ht]
      rw [e]
      split
      · rename_i hpend
        refine ra_seq ?_ (rj_runTimer tm.kind fun q rid hk => ?_)
        · exact (RA.refl h).frame (rax_fired h t tm ht .called rfl rfl rfl rfl rfl)
        · simp only [Op.expiring, ht, hk, hpend, ↓reduceIte]
      · exact rj_emit _ w (RA.refl h)

/-- the `RA` relation does not look at the log -/
theorem RA.log {c : Prop} {x : Option Nat} {w0 w : World} (h : RA c x w0 w) (l : List Obs) : RA c x w0 { w with log := l } :=
  ⟨⟨h.keep.tf, h.keep.keep⟩, h.back, h.nt, h.nr, h.alarm, h.queue, h.old, h.new⟩

/-- **re-arming needs a reason**: every retry timer created by an operation is for a request that was created during the operation,
    was waiting on the queue when it started, was held by the factory without a timer when it started (and the operation processes received bytes:
    resumption), or is the
    request whose own pending retry timer the operation runs -/
theorem ra_step (w : World) (h : TF w) (op : Op) : RA op.isRecv (op.expiring w) w (step w op) := by
  have := ra_handler w h op
  unfold step
  rcases hw : op.handler w with ⟨w', _ | e⟩
  · rw [hw] at this; exact this
  · rw [hw] at this; exact this.log _

end Mqtt
