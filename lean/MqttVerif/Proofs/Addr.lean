import MqttVerif.Proofs.Api
/-
  C19: the six per-address dictionaries (`queuePublishTx`, `windowPublish`, `windowPubRelease`, `windowSubscribe`,
  `windowUnsubscribe` -- the entry list `ents` -- and `windowPubRx` -- the list `rx`) are only ever accessed under the address
  of the protocol that runs the handler.

  `w.only A` is the world in which every entry of an address other than `A` has been deleted from the six dictionaries.
    * `Own A p s`: a handler `s` run by a protocol `p` of address `A` cannot tell `w` from `w.only A`: it returns the same
      result, and the world it leaves is `(s w).only A`.  (Reads and writes go through `[self.addr]`.)
    * `Oth A B q s`: a handler run by a protocol `q` of an address `B ≠ A` leaves the `A`-part of the six dictionaries as it was.
  Both are closed under the `Step` combinators and proved handler by handler.  Neither needs the invariant or `Env`.
  The one exception is `makeId`, which looks at the identifiers of ALL addresses (the shared resource the property names):
  for the three calls that draw an identifier the statement is conditional on the draw being the same (`IdAgree`).
-/
namespace Mqtt

/-! ### filtering the entry lists by address -/

def onA (A : Nat) (e : Ent) : Bool := decide (e.addr = A)
def rxOnA (A : Nat) (e : RxEnt) : Bool := decide (e.addr = A)

/-- the world with the entries of every address other than `A` deleted from the six per-address dictionaries -/
def World.only (A : Nat) (w : World) : World :=
  { w with ents := w.ents.filter (onA A), rx := w.rx.filter (rxOnA A) }

namespace Ents
variable (A : Nat)

theorem lookup_filter (es : List Ent) (b : Box) (k : Nat) : lookup (es.filter (onA A)) A b k = lookup es A b k := by
  induction es with
  | nil => rfl
  | cons e r ih =>
    by_cases h : e.addr = A <;> by_cases hb : e.box = b <;> by_cases hk : e.key = k <;> simp_all [onA, lookup]

theorem items_filter (es : List Ent) (b : Box) : items (es.filter (onA A)) A b = items es A b := by
  induction es with
  | nil => rfl
  | cons e r ih => by_cases h : e.addr = A <;> by_cases hb : e.box = b <;> simp_all [onA, items]

theorem count_filter (es : List Ent) (b : Box) : count (es.filter (onA A)) A b = count es A b := by
  simp only [count, items_filter]

theorem insert_filter (es : List Ent) (b : Box) (k rid : Nat) :
    (insert es A b k rid).filter (onA A) = insert (es.filter (onA A)) A b k rid := by
  induction es with
  | nil => simp [insert, onA]
  | cons e r ih =>
    by_cases h : e.addr = A <;> by_cases hb : e.box = b <;> by_cases hk : e.key = k <;> simp_all [onA, insert]

theorem remove_filter (es : List Ent) (b : Box) (k : Nat) :
    (remove es A b k).filter (onA A) = remove (es.filter (onA A)) A b k := by
  induction es with
  | nil => rfl
  | cons e r ih =>
    by_cases h : e.addr = A <;> by_cases hb : e.box = b <;> by_cases hk : e.key = k <;> simp_all [onA, remove]

theorem dropFirst_filter (es : List Ent) (b : Box) :
    (dropFirst es A b).filter (onA A) = dropFirst (es.filter (onA A)) A b := by
  induction es with
  | nil => rfl
  | cons e r ih => by_cases h : e.addr = A <;> by_cases hb : e.box = b <;> simp_all [onA, dropFirst]

theorem append_filter (es : List Ent) (b : Box) (k rid : Nat) :
    (es ++ [(⟨A, b, k, rid⟩ : Ent)]).filter (onA A) = es.filter (onA A) ++ [⟨A, b, k, rid⟩] := by
  simp [List.filter_append, onA]

/-! the same operations under another address leave the `A`-part alone -/
variable {A} {B : Nat}

theorem insert_other (hBA : B ≠ A) (es : List Ent) (b : Box) (k rid : Nat) :
    (insert es B b k rid).filter (onA A) = es.filter (onA A) := by
  induction es with
  | nil => simp [insert, onA, hBA]
  | cons e r ih =>
    by_cases h : e.addr = B <;> by_cases hb : e.box = b <;> by_cases hk : e.key = k <;> simp_all [onA, insert, List.filter_cons]

theorem remove_other (hBA : B ≠ A) (es : List Ent) (b : Box) (k : Nat) :
    (remove es B b k).filter (onA A) = es.filter (onA A) := by
  induction es with
  | nil => rfl
  | cons e r ih =>
    by_cases h : e.addr = B <;> by_cases hb : e.box = b <;> by_cases hk : e.key = k <;> simp_all [onA, remove, List.filter_cons]

theorem dropFirst_other (hBA : B ≠ A) (es : List Ent) (b : Box) :
    (dropFirst es B b).filter (onA A) = es.filter (onA A) := by
  induction es with
  | nil => rfl
  | cons e r ih => by_cases h : e.addr = B <;> by_cases hb : e.box = b <;> simp_all [onA, dropFirst, List.filter_cons]

theorem append_other (hBA : B ≠ A) (es : List Ent) (b : Box) (k rid : Nat) :
    (es ++ [(⟨B, b, k, rid⟩ : Ent)]).filter (onA A) = es.filter (onA A) := by
  simp [List.filter_append, onA, hBA]

theorem items_addr {es : List Ent} {a : Nat} {b : Box} {e : Ent} (h : e ∈ items es a b) : e.addr = a := (mem_items.mp h).2.1
theorem items_box {es : List Ent} {a : Nat} {b : Box} {e : Ent} (h : e ∈ items es a b) : e.box = b := (mem_items.mp h).2.2

end Ents

namespace Rx
variable (A : Nat)

theorem lookup_filter (es : List RxEnt) (k : Nat) : lookup (es.filter (rxOnA A)) A k = lookup es A k := by
  induction es with
  | nil => rfl
  | cons e r ih => by_cases h : e.addr = A <;> by_cases hk : e.key = k <;> simp_all [rxOnA, lookup]

theorem insert_filter (es : List RxEnt) (k : Nat) (m : RxMsg) :
    (insert es A k m).filter (rxOnA A) = insert (es.filter (rxOnA A)) A k m := by
  induction es with
  | nil => simp [insert, rxOnA]
  | cons e r ih => by_cases h : e.addr = A <;> by_cases hk : e.key = k <;> simp_all [rxOnA, insert]

theorem remove_filter (es : List RxEnt) (k : Nat) :
    (remove es A k).filter (rxOnA A) = remove (es.filter (rxOnA A)) A k := by
  induction es with
  | nil => rfl
  | cons e r ih => by_cases h : e.addr = A <;> by_cases hk : e.key = k <;> simp_all [rxOnA, remove]

variable {A} {B : Nat}

theorem insert_other (hBA : B ≠ A) (es : List RxEnt) (k : Nat) (m : RxMsg) :
    (insert es B k m).filter (rxOnA A) = es.filter (rxOnA A) := by
  induction es with
  | nil => simp [insert, rxOnA, hBA]
  | cons e r ih => by_cases h : e.addr = B <;> by_cases hk : e.key = k <;> simp_all [rxOnA, insert, List.filter_cons]

theorem remove_other (hBA : B ≠ A) (es : List RxEnt) (k : Nat) :
    (remove es B k).filter (rxOnA A) = es.filter (rxOnA A) := by
  induction es with
  | nil => rfl
  | cons e r ih => by_cases h : e.addr = B <;> by_cases hk : e.key = k <;> simp_all [rxOnA, remove, List.filter_cons]

end Rx


/-! ### projections of `only` -/
section
variable (A : Nat) (w : World)
@[simp] theorem only_ents : (w.only A).ents = w.ents.filter (onA A) := rfl
@[simp] theorem only_rx : (w.only A).rx = w.rx.filter (rxOnA A) := rfl
@[simp] theorem only_proto (p : Nat) : (w.only A).proto p = w.proto p := rfl
@[simp] theorem only_paddr (p : Nat) : (w.only A).paddr p = w.paddr p := rfl
@[simp] theorem only_req (r : Nat) : (w.only A).req r = w.req r := rfl
@[simp] theorem only_log : (w.only A).log = w.log := rfl
@[simp] theorem only_jitter : (w.only A).jitter = w.jitter := rfl
theorem only_setReq (r : Nat) (g : Req → Req) : (w.only A).setReq r g = (w.setReq r g).only A := rfl
theorem only_emit (o : Obs) : (w.only A).emit o = (w.emit o).only A := rfl
theorem only_callLater1 (d : Rat) (k : TKind) : ((w.only A).callLater d k).1 = ((w.callLater d k).1).only A := rfl
theorem only_callLater2 (d : Rat) (k : TKind) : ((w.only A).callLater d k).2 = (w.callLater d k).2 := rfl
@[simp] theorem only_only : (w.only A).only A = w.only A := by
  simp only [World.only, List.filter_filter, Bool.and_self]
end

/-- every handler leaves the address of every protocol object as it is (only `buildProtocol` creates one) -/
def KA (s : Step) : Prop := ∀ w q, (s w).1.paddr q = w.paddr q

/-! ### `Own`: a handler of a protocol of address `A` goes through `[A]` only -/

/-- run in a world where `p` serves address `A`, `s` behaves in `w.only A` exactly as in `w` (and moves no protocol to another address) -/
def OwnAt (A p : Nat) (s : Step) (w : World) : Prop :=
  w.paddr p = A → (∀ q, (s w).1.paddr q = w.paddr q) ∧ s (w.only A) = ((s w).1.only A, (s w).2)

@[reducible] def Own (A p : Nat) (s : Step) : Prop := ∀ w, OwnAt A p s w

section own
variable {A p : Nat}

theorem own_ok : Own A p Step.ok := fun _ _ => ⟨fun _ => rfl, rfl⟩
theorem own_raise (e : Err) : Own A p (Step.raise e) := fun _ _ => ⟨fun _ => rfl, rfl⟩

theorem ownAt_seq {a b : Step} {w : World} (ha : OwnAt A p a w) (hb : OwnAt A p b (a w).1) : OwnAt A p (a ;; b) w := by
  intro hp
  obtain ⟨ha1, ha2⟩ := ha hp
  have hp1 : (a w).1.paddr p = A := by rw [ha1 p]; exact hp
  obtain ⟨hb1, hb2⟩ := hb hp1
  constructor
  · intro q
    simp only [Step.seq]
    rcases hw : a w with ⟨w1, _ | e⟩
    · rw [hw] at ha1 hb1; simp only; rw [hb1 q, ha1 q]
    · rw [hw] at ha1; exact ha1 q
  · simp only [Step.seq]
    rcases hw : a w with ⟨w1, _ | e⟩
    · rw [hw] at ha2 hb2
      simp only at ha2 hb2
      rw [ha2]
      exact hb2
    · rw [hw] at ha2; simp only at ha2; rw [ha2]

theorem own_seq {a b : Step} (ha : Own A p a) (hb : Own A p b) : Own A p (a ;; b) := fun w => ownAt_seq (ha w) (hb _)

/-- the reads made by `f` give the same values in `w.only A` (they go through `[A]`, or do not look at the dictionaries at all) -/
theorem own_read {f : World → Step} (h : ∀ w, w.paddr p = A → f (w.only A) = f w ∧ Own A p (f w)) : Own A p (Step.read f) := by
  intro w hp
  obtain ⟨h1, h2⟩ := h w hp
  obtain ⟨k1, k2⟩ := h2 w hp
  exact ⟨k1, by show f (w.only A) (w.only A) = _; rw [h1]; exact k2⟩

/-- a read that does not look at the six dictionaries -/
theorem own_read' {f : World → Step} (h2 : ∀ w, w.paddr p = A → Own A p (f w)) (h1 : ∀ w, f (w.only A) = f w := by intro w; rfl) :
    Own A p (Step.read f) := own_read fun w hp => ⟨h1 w, h2 w hp⟩
theorem own_readR {f : World → Step} (h1 : ∀ w, f (w.only A) = f w) (h2 : ∀ w, w.paddr p = A → Own A p (f w)) :
    Own A p (Step.read f) := own_read fun w hp => ⟨h1 w, h2 w hp⟩

theorem own_mod {f : World → World} (h1 : ∀ w q, (f w).paddr q = w.paddr q) (h2 : ∀ w, w.paddr p = A → f (w.only A) = (f w).only A) :
    Own A p (Step.mod f) := fun w hp => ⟨h1 w, by show (f (w.only A), none) = _; rw [h2 w hp]; rfl⟩

theorem paddr_setProto (w : World) (q : Nat) (g : Proto → Proto) (hg : ∀ pr, (g pr).addr = pr.addr) (q' : Nat) :
    ({ w with protos := w.protos.set q (g (w.proto q)) } : World).paddr q' = w.paddr q' := by
  simp only [World.paddr, World.proto, Dict.get?_set]
  split
  · rename_i h; subst h; simp [hg]
  · rfl

theorem own_setProto (q : Nat) (g : Proto → Proto) (hg : ∀ pr, (g pr).addr = pr.addr) : Own A p (setProto q g) :=
  own_mod (fun w q' => paddr_setProto w q g hg q') (fun _ _ => rfl)
theorem own_emit (o : Obs) : Own A p (emit o) := own_mod (fun _ _ => rfl) (fun _ _ => rfl)
theorem own_write (q : Nat) (b : Bytes) : Own A p (write q b) := own_emit _
theorem own_abort (q : Nat) : Own A p (abort q) := own_emit _
theorem own_setReq (r : Nat) (g : Req → Req) : Own A p (setReq r g) := own_mod (fun _ _ => rfl) (fun _ _ => rfl)

/-- a dictionary update that commutes with deleting the other addresses -/
theorem own_setEnts {g : List Ent → List Ent} (hg : ∀ es, (g es).filter (onA A) = g (es.filter (onA A))) : Own A p (setEnts g) :=
  own_mod (fun _ _ => rfl) (fun w _ => by simp only [World.setEnts, World.only, hg])

theorem own_remove (b : Box) (k : Nat) : Own A p (setEnts fun es => Ents.remove es A b k) := own_setEnts fun es => Ents.remove_filter A es b k
theorem own_insert (b : Box) (k rid : Nat) : Own A p (setEnts fun es => Ents.insert es A b k rid) := own_setEnts fun es => Ents.insert_filter A es b k rid
theorem own_dropFirst (b : Box) : Own A p (setEnts fun es => Ents.dropFirst es A b) := own_setEnts fun es => Ents.dropFirst_filter A es b
theorem own_append (b : Box) (k rid : Nat) : Own A p (setEnts fun es => es ++ [⟨A, b, k, rid⟩]) := own_setEnts fun es => Ents.append_filter A es b k rid

theorem own_callLater (d : Rat) (k : TKind) {c : Nat → Step} (hc : ∀ t, Own A p (c t)) : Own A p (callLater d k c) :=
  own_read' fun _ _ => own_seq (own_mod (fun _ _ => rfl) (fun _ _ => rfl)) (hc _)
theorem own_newDfd {c : Nat → Step} (hc : ∀ t, Own A p (c t)) : Own A p (newDfd c) :=
  own_read' fun _ _ => own_seq (own_mod (fun _ _ => rfl) (fun _ _ => rfl)) (hc _)
theorem own_cancelTimer (t : Nat) : Own A p (cancelTimer t) := by
  refine own_read' fun w _ => ?_
  split
  · exact own_raise _
  · split
    · exact own_mod (fun _ _ => rfl) (fun _ _ => rfl)
    · exact own_raise _
    · exact own_raise _
theorem own_cancelAlarm (a : Option Nat) : Own A p (cancelAlarm a) := by
  cases a with
  | none => exact own_raise _
  | some t => exact own_cancelTimer t
theorem own_fireDfd (d : Nat) (o : Outcome) : Own A p (fireDfd d o) := by
  refine own_read' fun w _ => ?_
  split
  · exact own_raise _
  · exact own_seq (own_mod (fun _ _ => rfl) (fun _ _ => rfl)) (own_emit _)
theorem own_fireReqDfd (d : Option Nat) (o : Outcome) : Own A p (fireReqDfd d o) := by
  cases d with
  | none => exact own_raise _
  | some d => exact own_fireDfd d o
theorem own_forEach {α : Type} (l : List α) {f : α → Step} (hf : ∀ a ∈ l, Own A p (f a)) : Own A p (forEach l f) := by
  induction l with
  | nil => exact own_ok
  | cons a r ih => exact own_seq (hf a (by simp)) (ih fun x hx => hf x (by simp [hx]))
theorem own_deliver (q : Nat) (m : RxMsg) : Own A p (deliver q m) := by
  refine own_read' fun w _ => ?_
  split
  · exact own_emit _
  · exact own_ok

end own


/-! ### the non-raising world functions -/
section worldfun
variable {A p : Nat}

theorem retryPublishW_paddr (p rid : Nat) (dup : Bool) (w : World) (q : Nat) : (retryPublishW p rid dup w).paddr q = w.paddr q := by
  simp only [retryPublishW]; split <;> rfl
theorem retryReleaseW_paddr (p rid : Nat) (dup : Bool) (w : World) (q : Nat) : (retryReleaseW p rid dup w).paddr q = w.paddr q := by
  simp only [retryReleaseW]; split <;> rfl
theorem retrySubUnsubW_paddr (p rid : Nat) (dup s : Bool) (w : World) (q : Nat) : (retrySubUnsubW p rid dup s w).paddr q = w.paddr q := by
  simp only [retrySubUnsubW]; split <;> rfl

theorem retryPublishW_only (A p rid : Nat) (dup : Bool) (w : World) :
    retryPublishW p rid dup (w.only A) = (retryPublishW p rid dup w).only A := by
  simp only [retryPublishW, only_setReq, only_req, only_jitter]
  rw [← only_emit, apply_ite (World.only A)]; rfl
theorem retryReleaseW_only (A p rid : Nat) (dup : Bool) (w : World) :
    retryReleaseW p rid dup (w.only A) = (retryReleaseW p rid dup w).only A := by
  by_cases hv : (w.proto p).version = v31
  · simp only [retryReleaseW, only_proto, hv, ↓reduceIte]; rfl
  · simp only [retryReleaseW, only_proto, hv, ↓reduceIte]; rfl
theorem retrySubUnsubW_only (rid : Nat) (dup s : Bool) (w : World) (hp : w.paddr p = A) :
    retrySubUnsubW p rid dup s (w.only A) = (retrySubUnsubW p rid dup s w).only A := by
  have hc : ∀ (w2 : World) (b : Box), w2.paddr p = A → Ents.count (w2.only A).ents ((w2.only A).paddr p) b = Ents.count w2.ents (w2.paddr p) b := by
    intro w2 b h2; simp only [only_ents, only_paddr, h2, Ents.count_filter]
  unfold retrySubUnsubW
  by_cases hv : (w.proto p).version = v31
  · simp only [only_proto, hv, ↓reduceIte]
    rw [show ((w.only A).setReq rid fun r => { r with encoded := patchDup r.encoded dup }) = (w.setReq rid fun r => { r with encoded := patchDup r.encoded dup }).only A from rfl]
    generalize hw1 : (w.setReq rid fun r => { r with encoded := patchDup r.encoded dup }) = w1
    have h1 : w1.paddr p = A := by rw [← hw1]; exact hp
    rw [show ((w1.only A).setReq rid fun r => { r with ivValue := ivNextValue ((w1.only A).req rid) }) = (w1.setReq rid fun r => { r with ivValue := ivNextValue (w1.req rid) }).only A from rfl]
    generalize hw2 : (w1.setReq rid fun r => { r with ivValue := ivNextValue (w1.req rid) }) = w2
    have h2 : w2.paddr p = A := by rw [← hw2]; exact h1
    simp only [hc w2 _ h2, only_req]
    rfl
  · simp only [only_proto, hv, ↓reduceIte]
    rw [show (((w.only A)).setReq rid fun r => { r with ivValue := ivNextValue ((w.only A).req rid) }) = (w.setReq rid fun r => { r with ivValue := ivNextValue (w.req rid) }).only A from rfl]
    generalize hw2 : (w.setReq rid fun r => { r with ivValue := ivNextValue (w.req rid) }) = w2
    have h2 : w2.paddr p = A := by rw [← hw2]; exact hp
    simp only [hc w2 _ h2, only_req]
    rfl

theorem refillW_paddr (p : Nat) (dup : Bool) (fuel : Nat) : ∀ (w : World) (q : Nat), (refillW p dup fuel w).paddr q = w.paddr q := by
  induction fuel with
  | zero => intro w q; rfl
  | succ f ih =>
    intro w q
    simp only [refillW]
    split
    · rfl
    · split
      · rw [ih, retryPublishW_paddr]; split <;> rfl
      · rfl

theorem refillW_only (dup : Bool) (fuel : Nat) : ∀ (w : World), w.paddr p = A →
    refillW p dup fuel (w.only A) = (refillW p dup fuel w).only A := by
  induction fuel with
  | zero => intro w _; rfl
  | succ f ih =>
    intro w hp
    simp only [refillW, only_paddr, hp, only_ents, Ents.items_filter, Ents.count_filter, only_proto, only_req]
    split
    · rfl
    · rename_i e _ _
      split
      · by_cases hm : (w.req e.rid).msgId ≠ 0
        · rw [if_pos hm, if_pos hm]
          rw [show ((w.only A).setEnts fun es => Ents.dropFirst es A .queue).setEnts (fun es => Ents.insert es A .pub (w.req e.rid).msgId e.rid)
              = ((w.setEnts fun es => Ents.dropFirst es A .queue).setEnts fun es => Ents.insert es A .pub (w.req e.rid).msgId e.rid).only A by
            simp only [World.setEnts, World.only, Ents.dropFirst_filter, Ents.insert_filter]]
          rw [retryPublishW_only, ih _ (by rw [retryPublishW_paddr]; exact hp)]
        · rw [if_neg hm, if_neg hm]
          rw [show ((w.only A).setEnts fun es => Ents.dropFirst es A .queue) = (w.setEnts fun es => Ents.dropFirst es A .queue).only A by
            simp only [World.setEnts, World.only, Ents.dropFirst_filter]]
          rw [retryPublishW_only, ih _ (by rw [retryPublishW_paddr]; exact hp)]
      · rfl

theorem own_refill : Own A p (refill p) :=
  own_mod (fun w q => refillW_paddr p false _ w q) (fun w hp => by
    show refillW p false (Ents.count (w.only A).ents ((w.only A).paddr p) .queue) (w.only A) = _
    simp only [only_ents, only_paddr, hp, Ents.count_filter]
    exact refillW_only false _ w hp)

theorem own_retryPublish (rid : Nat) (dup : Bool) : Own A p (retryPublish p rid dup) :=
  own_mod (fun w q => retryPublishW_paddr p rid dup w q) (fun w _ => retryPublishW_only A p rid dup w)
theorem own_retryRelease (rid : Nat) (dup : Bool) : Own A p (retryRelease p rid dup) :=
  own_mod (fun w q => retryReleaseW_paddr p rid dup w q) (fun w _ => retryReleaseW_only A p rid dup w)
theorem own_retrySubUnsub (rid : Nat) (dup s : Bool) : Own A p (retrySubUnsub p rid dup s) :=
  own_mod (fun w q => retrySubUnsubW_paddr p rid dup s w q) (fun w hp => retrySubUnsubW_only rid dup s w hp)

/-- `_syncSession`: two folds over windows of the address -/
theorem foldRel_paddr (p : Nat) (l : List Ent) : ∀ (w : World) (q : Nat),
    (l.foldl (fun w e => if (w.req e.rid).alarm = none then retryReleaseW p e.rid true w else w) w).paddr q = w.paddr q := by
  induction l with
  | nil => intro w q; rfl
  | cons e r ih =>
    intro w q
    simp only [List.foldl]
    rw [ih]
    split
    · exact retryReleaseW_paddr _ _ _ _ _
    · rfl
theorem foldPub_paddr (p : Nat) (l : List Ent) : ∀ (w : World) (q : Nat),
    (l.foldl (fun w e => if (w.req e.rid).alarm = none then retryPublishW p e.rid true w else w) w).paddr q = w.paddr q := by
  induction l with
  | nil => intro w q; rfl
  | cons e r ih =>
    intro w q
    simp only [List.foldl]
    rw [ih]
    split
    · exact retryPublishW_paddr _ _ _ _ _
    · rfl
theorem foldRel_ents (p : Nat) (l : List Ent) : ∀ (w : World),
    (l.foldl (fun w e => if (w.req e.rid).alarm = none then retryReleaseW p e.rid true w else w) w).ents = w.ents := by
  induction l with
  | nil => intro w; rfl
  | cons e r ih =>
    intro w
    simp only [List.foldl]
    rw [ih]
    split
    · simp only [retryReleaseW]; split <;> rfl
    · rfl
theorem foldRel_only (A p : Nat) (l : List Ent) : ∀ (w : World),
    l.foldl (fun w e => if (w.req e.rid).alarm = none then retryReleaseW p e.rid true w else w) (w.only A)
      = (l.foldl (fun w e => if (w.req e.rid).alarm = none then retryReleaseW p e.rid true w else w) w).only A := by
  induction l with
  | nil => intro w; rfl
  | cons e r ih =>
    intro w
    by_cases h : (w.req e.rid).alarm = none
    · simp only [List.foldl, only_req, h, ↓reduceIte, retryReleaseW_only, ih]
    · simp only [List.foldl, only_req, h, ↓reduceIte, ih]
theorem foldPub_only (A p : Nat) (l : List Ent) : ∀ (w : World),
    l.foldl (fun w e => if (w.req e.rid).alarm = none then retryPublishW p e.rid true w else w) (w.only A)
      = (l.foldl (fun w e => if (w.req e.rid).alarm = none then retryPublishW p e.rid true w else w) w).only A := by
  induction l with
  | nil => intro w; rfl
  | cons e r ih =>
    intro w
    by_cases h : (w.req e.rid).alarm = none
    · simp only [List.foldl, only_req, h, ↓reduceIte, retryPublishW_only, ih]
    · simp only [List.foldl, only_req, h, ↓reduceIte, ih]

theorem syncW_paddr (p : Nat) (w : World) (q : Nat) : (syncW p w).paddr q = w.paddr q := by
  simp only [syncW]; rw [foldPub_paddr, foldRel_paddr]

theorem syncW_only (w : World) (hp : w.paddr p = A) : syncW p (w.only A) = (syncW p w).only A := by
  simp only [syncW, only_ents, only_paddr, hp, Ents.items_filter]
  rw [foldRel_only]
  generalize hw1 : List.foldl (fun w e => if (w.req e.rid).alarm = none then retryReleaseW p e.rid true w else w) w (Ents.items w.ents A .rel) = w1
  have h1 : w1.paddr p = A := by rw [← hw1, foldRel_paddr]; exact hp
  simp only [only_ents, only_paddr, h1, Ents.items_filter]
  rw [foldPub_only]

theorem own_syncSession : Own A p (syncSession p) :=
  own_mod (fun w q => syncW_paddr p w q) (fun w hp => syncW_only w hp)

end worldfun


/-! ### the handlers, for the protocol's own address -/
section handlers
variable {A p : Nat}

theorem own_modrfl {f : World → World} (h1 : ∀ w q, (f w).paddr q = w.paddr q) (h2 : ∀ w, f (w.only A) = (f w).only A) :
    Own A p (Step.mod f) := own_mod h1 fun w _ => h2 w

theorem own_rxInsert (k : Nat) (m : RxMsg) : Own A p (Step.mod fun w => { w with rx := Rx.insert w.rx (w.paddr p) k m }) := by
  refine own_mod (fun _ _ => rfl) fun w hw => ?_
  show ({ (w.only A) with rx := Rx.insert (w.rx.filter (rxOnA A)) (w.paddr p) k m } : World) = _
  rw [hw, ← Rx.insert_filter]; rfl
theorem own_rxRemove (k : Nat) : Own A p (Step.mod fun w => { w with rx := Rx.remove w.rx (w.paddr p) k }) := by
  refine own_mod (fun _ _ => rfl) fun w hw => ?_
  show ({ (w.only A) with rx := Rx.remove (w.rx.filter (rxOnA A)) (w.paddr p) k } : World) = _
  rw [hw, ← Rx.remove_filter]; rfl

macro "own_step" : tactic => `(tactic| first
  | with_reducible exact own_ok | with_reducible exact own_raise _ | with_reducible exact own_emit _
  | with_reducible exact own_write _ _ | with_reducible exact own_abort _
  | ((with_reducible apply own_setProto); (intro pr; rfl))
  | with_reducible exact own_setReq _ _
  | with_reducible exact own_cancelTimer _ | with_reducible exact own_cancelAlarm _
  | with_reducible exact own_fireDfd _ _ | with_reducible exact own_fireReqDfd _ _
  | with_reducible exact own_refill | with_reducible exact own_syncSession
  | with_reducible exact own_retryPublish _ _ | with_reducible exact own_retryRelease _ _
  | with_reducible exact own_retrySubUnsub _ _ _
  | with_reducible exact own_deliver _ _
  | with_reducible exact own_remove _ _ | with_reducible exact own_insert _ _ _ | with_reducible exact own_dropFirst _
  | with_reducible exact own_append _ _ _
  | ((with_reducible refine own_modrfl (fun w q => ?h1) (fun w => ?h2)); (case h1 => rfl); (case h2 => rfl))
  | with_reducible apply own_seq
  | ((with_reducible refine own_readR (fun w => ?h1) (fun w hw => ?_)); (case h1 => rfl))
  | ((with_reducible apply own_callLater); intro t) | ((with_reducible apply own_newDfd); intro t)
  | split
  | dsimp only)
macro "owns" : tactic => `(tactic| repeat own_step)

theorem own_purgeWindow (rel : Bool) (r : Err) : Own A p (purgeWindow p rel r) := by
  unfold purgeWindow
  refine own_read fun w hw => ⟨by simp only [only_ents, only_paddr, hw, Ents.items_filter], ?_⟩
  dsimp only
  refine own_forEach _ fun e he => ?_
  have hea : e.addr = A := by rw [← hw]; exact Ents.items_addr he
  refine own_read' fun w' _ => ?_
  split
  · rw [hea]; exact own_seq (own_remove _ _) (own_fireReqDfd _ _)
  · exact own_ok

theorem own_purgeSession (r : Err) : Own A p (purgeSession p r) := own_seq (own_purgeWindow _ _) (own_purgeWindow _ _)

theorem own_mqttConnectionMade : Own A p (mqttConnectionMade p) := by
  unfold mqttConnectionMade
  refine own_read' fun w hw => ?_
  refine own_seq ?_ (own_seq own_refill ?_)
  · split
    · exact own_purgeSession _
    · exact own_syncSession
  · owns

theorem own_doPingRequest : Own A p (doPingRequest p) := by unfold doPingRequest; owns

theorem own_ping : Own A p (ping p) := by
  unfold ping
  refine own_read' fun w hw => ?_
  split
  · exact own_doPingRequest
  · exact own_raise _

theorem own_loopRun : Own A p (loopRun p) := by
  intro w hp
  obtain ⟨k1, k2⟩ := own_ping (A := A) (p := p) w hp
  have hcont : Own A p (Step.read fun w =>
      match (w.proto p).pingTimer with
      | some l =>
        if l.running then
          callLater l.interval (.pingLoop p) fun tid =>
            setProto p (fun pr => { pr with pingTimer := (pr.pingTimer.map fun l => { l with call := some tid }) })
        else Step.ok
      | none => Step.ok) := by owns
  have hstop : Own A p (setProto p (fun pr => { pr with pingTimer := (pr.pingTimer.map fun l => { l with running := false, call := none }) })) :=
    own_setProto _ _ fun _ => rfl
  unfold loopRun
  rw [k2]
  rcases hw : ping p w with ⟨w1, _ | e⟩
  · rw [hw] at k1
    have hp1 : w1.paddr p = A := by rw [k1 p]; exact hp
    obtain ⟨c1, c2⟩ := hcont w1 hp1
    simp only
    exact ⟨fun q => (c1 q).trans (k1 q), c2⟩
  · rw [hw] at k1
    have hp1 : w1.paddr p = A := by rw [k1 p]; exact hp
    obtain ⟨c1, c2⟩ := hstop w1 hp1
    simp only
    exact ⟨fun q => (c1 q).trans (k1 q), c2⟩

theorem own_loopStop : Own A p (loopStop p) := by unfold loopStop; owns

theorem own_handleCONNACK (session : Bool) (rc : Nat) : Own A p (handleCONNACK p session rc) := by
  unfold handleCONNACK
  refine own_read' fun w hw => ?_
  split
  · exact own_raise _
  · split
    · exact own_raise _
    · split
      · exact own_ok
      · refine own_seq (own_cancelTimer _) (own_seq ?_ (own_setProto _ _ fun _ => rfl))
        split
        · refine own_seq (own_setProto _ _ fun _ => rfl) (own_seq own_mqttConnectionMade (own_seq ?_ (own_fireDfd _ _)))
          split
          · exact own_seq (own_setProto _ _ fun _ => rfl) own_loopRun
          · exact own_ok
        · exact own_seq (own_setProto _ _ fun _ => rfl) (own_fireDfd _ _)

theorem own_handlePINGRESP : Own A p (handlePINGRESP p) := by unfold handlePINGRESP; owns

theorem own_handleSubUnsubAck (isSub : Bool) (m : Nat) (v : Val) : Own A p (handleSubUnsubAck p isSub m v) := by
  unfold handleSubUnsubAck
  refine own_read fun w hw => ⟨by simp only [only_ents, only_paddr, hw, Ents.lookup_filter, only_req], ?_⟩
  simp only [hw]
  split
  · exact own_ok
  · exact own_seq (own_remove _ _) (own_seq (own_cancelAlarm _) (own_fireReqDfd _ _))

theorem own_handlePUBLISH (m : RxMsg) : Own A p (handlePUBLISH p m) := by
  unfold handlePUBLISH
  split
  · exact own_deliver _ _
  · split
    · split
      · exact own_seq (own_write _ _) (own_deliver _ _)
      · exact own_raise _
    · split
      · refine own_seq ?_ ?_
        · exact own_rxInsert _ _
        · split
          · exact own_write _ _
          · exact own_raise _
      · exact own_ok

theorem own_handlePUBREL (m : Nat) : Own A p (handlePUBREL p m) := by
  unfold handlePUBREL
  refine own_read fun w hw => ⟨by simp only [only_rx, only_paddr, hw, Rx.lookup_filter], ?_⟩
  refine own_seq ?_ ?_
  · split
    · exact own_ok
    · refine own_seq ?_ (own_deliver _ _)
      exact own_rxRemove _
  · split
    · exact own_write _ _
    · exact own_raise _

theorem own_handlePUBACK (m : Nat) : Own A p (handlePUBACK p m) := by
  unfold handlePUBACK
  refine own_read fun w hw => ⟨by simp only [only_ents, only_paddr, hw, Ents.lookup_filter, only_req], ?_⟩
  simp only [hw]
  split
  · exact own_ok
  · split
    · exact own_ok
    · exact own_seq (own_cancelAlarm _) (own_seq (own_fireReqDfd _ _) (own_seq (own_remove _ _) own_refill))

theorem lookup_filter' {A a : Nat} (h : a = A) (es : List Ent) (b : Box) (k : Nat) : Ents.lookup (es.filter (onA A)) a b k = Ents.lookup es a b k := by
  subst h; exact Ents.lookup_filter _ es b k
theorem items_filter' {A a : Nat} (h : a = A) (es : List Ent) (b : Box) : Ents.items (es.filter (onA A)) a b = Ents.items es a b := by
  subst h; exact Ents.items_filter _ es b
theorem count_filter' {A a : Nat} (h : a = A) (es : List Ent) (b : Box) : Ents.count (es.filter (onA A)) a b = Ents.count es a b := by
  subst h; exact Ents.count_filter _ es b
theorem own_remove' {a : Nat} (h : a = A) (b : Box) (k : Nat) : Own A p (setEnts fun es => Ents.remove es a b k) := by subst h; exact own_remove b k
theorem own_insert' {a : Nat} (h : a = A) (b : Box) (k rid : Nat) : Own A p (setEnts fun es => Ents.insert es a b k rid) := by subst h; exact own_insert b k rid
theorem own_dropFirst' {a : Nat} (h : a = A) (b : Box) : Own A p (setEnts fun es => Ents.dropFirst es a b) := by subst h; exact own_dropFirst b
theorem own_append' {a : Nat} (h : a = A) (b : Box) (k rid : Nat) : Own A p (setEnts fun es => es ++ [⟨a, b, k, rid⟩]) := by subst h; exact own_append b k rid

theorem own_handlePUBREC (m : Nat) : Own A p (handlePUBREC p m) := by
  unfold handlePUBREC
  generalize encodePUBREL (m : Int) = E
  refine own_read fun w hw => ⟨?_, ?_⟩
  · rw [only_ents, only_paddr, lookup_filter' hw]
    rfl
  · split
    · exact own_ok
    · split
      · exact own_ok
      · refine own_seq (own_cancelAlarm _) (own_seq (own_remove' hw _ _) ?_)
        cases E with
        | error e => exact own_raise _
        | ok bs =>
          refine own_read' fun w' hw' => ?_
          exact own_seq (own_modrfl (fun _ _ => rfl) (fun _ => rfl)) (own_seq (own_insert' hw' _ _ _) (own_retryRelease _ _))

theorem own_handlePUBCOMP (m : Nat) : Own A p (handlePUBCOMP p m) := by
  unfold handlePUBCOMP
  refine own_read fun w hw => ⟨by simp only [only_ents, only_paddr, hw, Ents.lookup_filter, only_req], ?_⟩
  simp only [hw]
  split
  · exact own_ok
  · exact own_seq (own_cancelAlarm _) (own_seq (own_fireReqDfd _ _) (own_seq (own_remove _ _) own_refill))


theorem own_processPacket (pkt : Bytes) : Own A p (processPacket p pkt) := by
  unfold processPacket
  split
  · exact own_raise _
  · dsimp only
    split
    · exact own_abort _
    · split
      · exact own_abort _
      · refine own_read' fun w hw => ?_
        split
        all_goals (try exact own_abort _)
        all_goals (split <;> (try split) <;> first
          | exact own_abort _ | exact own_ok | exact own_handleCONNACK _ _ | exact own_handlePINGRESP
          | exact own_handleSubUnsubAck _ _ _ | exact own_handlePUBLISH _ | exact own_handlePUBACK _
          | exact own_handlePUBREC _ | exact own_handlePUBREL _ | exact own_handlePUBCOMP _)

theorem own_accumulate (fuel : Nat) : Own A p (accumulate p fuel) := by
  induction fuel with
  | zero => exact own_ok
  | succ f ih =>
    unfold accumulate
    refine own_read' fun w hw => ?_
    split
    · exact own_ok
    · exact own_seq (own_processPacket _) (own_seq (own_setProto _ _ fun _ => rfl) ih)

theorem own_dataReceived (d : Bytes) : Own A p (dataReceived p d) := by
  unfold dataReceived
  exact own_seq (own_setProto _ _ fun _ => rfl) (own_read' fun w _ => own_accumulate _)

theorem own_cancelWindowAlarms (l : List Ent) : Own A p (cancelWindowAlarms l) := by
  unfold cancelWindowAlarms
  refine own_forEach _ fun e _ => ?_
  refine own_read' fun w hw => ?_
  split
  · exact own_ok
  · exact own_seq (own_cancelTimer _) (own_setReq _ _)

theorem own_failWindow (isSub : Bool) (r : Err) : Own A p (failWindow p isSub r) := by
  unfold failWindow
  refine own_read fun w hw => ⟨?_, ?_⟩
  · dsimp only
    rw [only_ents, only_paddr, items_filter' hw]
  · dsimp only
    refine own_forEach _ fun e he => ?_
    have hea : e.addr = A := by rw [← hw]; exact Ents.items_addr he
    exact own_seq (own_remove' hea _ _) (own_read' fun w' _ => own_fireReqDfd _ _)

theorem own_drainQueue (r : Err) (fuel : Nat) : Own A p (drainQueue p r fuel) := by
  induction fuel with
  | zero => exact own_ok
  | succ f ih =>
    unfold drainQueue
    refine own_read fun w hw => ⟨?_, ?_⟩
    · rw [only_ents, only_paddr, items_filter' hw]
      rfl
    · split
      · exact own_ok
      · refine own_seq (own_dropFirst' hw _) (own_seq ?_ ih)
        split
        · exact own_fireReqDfd _ _
        · exact own_ok

theorem own_doConnectionLost (r : Err) : Own A p (doConnectionLost p r) := by
  unfold doConnectionLost
  refine own_read fun w hw => ⟨?_, ?_⟩
  · rw [only_ents, only_paddr, items_filter' hw, items_filter' hw, items_filter' hw, items_filter' hw]
  · refine own_seq (own_cancelWindowAlarms _) (own_seq (own_cancelWindowAlarms _) (own_seq (own_cancelWindowAlarms _)
      (own_seq (own_cancelWindowAlarms _) (own_seq (own_failWindow _ _) (own_seq (own_failWindow _ _) ?_)))))
    refine own_read' fun w' hw' => ?_
    split
    · refine own_seq (own_purgeSession _) (own_read fun w2 hw2 => ⟨?_, own_drainQueue _ _⟩)
      rw [only_ents, only_paddr, count_filter' hw2]
    · exact own_ok

theorem own_connectionLost (r : Err) : Own A p (connectionLost p r) := by
  unfold connectionLost
  refine own_read' fun w hw => ?_
  refine own_seq ?_ (own_seq ?_ (own_seq (own_doConnectionLost r) (own_seq (own_setProto _ _ fun _ => rfl) ?_)))
  · split
    · exact own_ok
    · exact own_seq own_loopStop (own_setProto _ _ fun _ => rfl)
  · split
    · exact own_ok
    · exact own_seq (own_cancelTimer _) (own_setProto _ _ fun _ => rfl)
  · owns

/-- the callback of a timer that belongs to protocol `p` (or to no protocol's dictionaries at all) -/
def TKind.on (p : Nat) : TKind → Prop
  | .connack _ => True
  | .pingLoop q | .pingAlarm q | .retry q _ | .onDisc q _ => q = p

theorem own_runTimer (k : TKind) (hk : k.on p) : Own A p (runTimer k) := by
  cases k with
  | connack cr => unfold runTimer abort; owns
  | pingLoop q => cases hk; exact own_seq (own_setProto _ _ fun _ => rfl) own_loopRun
  | pingAlarm q => cases hk; exact own_seq (own_setProto _ _ fun _ => rfl) (own_abort _)
  | retry q rid =>
    cases hk
    unfold runTimer
    refine own_read' fun w hw => ?_
    split
    · exact own_retryPublish _ _
    · exact own_retryRelease _ _
    · exact own_retrySubUnsub _ _ _
    · exact own_retrySubUnsub _ _ _
  | onDisc q r => exact own_emit _


/-! ### the application-facing calls -/

theorem ownAt_read {f : World → Step} {w : World} (h1 : f (w.only A) = f w) (h2 : OwnAt A p (f w) w) : OwnAt A p (Step.read f) w := by
  intro hp
  obtain ⟨k1, k2⟩ := h2 hp
  exact ⟨k1, by show f (w.only A) (w.only A) = _; rw [h1]; exact k2⟩

theorem ownAt_congr {s s' : Step} {w : World} (h1 : s w = s' w) (h2 : s (w.only A) = s' (w.only A)) (h : OwnAt A p s' w) : OwnAt A p s w := by
  intro hp
  obtain ⟨k1, k2⟩ := h hp
  rw [h1, h2]
  exact ⟨k1, k2⟩

theorem idInUse_congr {w w' : World} (he : w'.ents = w.ents) (hr : w'.reqs = w.reqs) (i : Nat) : idInUse w' i = idInUse w i := by
  simp only [idInUse, World.req, he, hr]

theorem scanId_congr {w w' : World} (he : w'.ents = w.ents) (hr : w'.reqs = w.reqs) : ∀ (fuel cur : Nat), scanId w' fuel cur = scanId w fuel cur := by
  intro fuel
  induction fuel with
  | zero => intro cur; rfl
  | succ f ih => intro cur; simp only [scanId, idInUse_congr he hr, ih]

/-- drawing an identifier: the one place where a handler looks at every address -/
theorem ownAt_makeId {k : Nat → Step} {w : World} (hid : scanId (w.only A) 65535 w.nextId = scanId w 65535 w.nextId)
    (hk : OwnAt A p (k (scanId w 65535 w.nextId)) { w with nextId := scanId w 65535 w.nextId, idAllocs := w.idAllocs + 1 }) :
    OwnAt A p (makeId k) w := by
  intro hp
  have e1 : makeId k w = k (scanId w 65535 w.nextId) { w with nextId := scanId w 65535 w.nextId, idAllocs := w.idAllocs + 1 } := rfl
  have e2 : makeId k (w.only A) = k (scanId (w.only A) 65535 w.nextId)
      (World.only A { w with nextId := scanId (w.only A) 65535 w.nextId, idAllocs := w.idAllocs + 1 }) := rfl
  rw [e1, e2, hid]
  exact hk hp

theorem own_mkStep (pr : Proto) (qn mid : Nat) (dfd : Option Nat) (bs : Bytes) : Own A p (mkStep p pr qn mid dfd bs) := by
  unfold mkStep
  refine own_read' fun w hw => ?_
  exact own_seq (own_modrfl (fun _ _ => rfl) (fun _ => rfl)) (own_seq (own_append' hw _ _ _) own_refill)

theorem ownAt_apiPublish (topic : PyStr) (payload : Payload) (qos : Int) (retain : Bool) (w : World)
    (hid : scanId (w.only A) 65535 w.nextId = scanId w 65535 w.nextId) : OwnAt A p (apiPublish p topic payload qos retain) w := by
  refine ownAt_congr (apiPublish_eq p topic payload qos retain w) (apiPublish_eq p topic payload qos retain (w.only A)) ?_
  show OwnAt A p (if !allowed w p 4 then emit (.retFail .state)
       else if ¬ (0 ≤ qos ∧ qos < 3) then emit (.retFail .value)
       else if qos = 0 then
         match encodePublishPy topic payload 0 retain none with
         | .error e => emit (.retFail e)
         | .ok bs => mkStep p (w.proto p) qos.toNat 0 none bs ;; emit (.retOk .none)
       else
         makeId fun i =>
           match encodePublishPy topic payload qos.toNat retain (some (i : Int)) with
           | .error e => emit (.retFail e)
           | .ok bs => newDfd fun d => mkStep p (w.proto p) qos.toNat i (some d) bs ;; emit (.retPending d (some i))) w
  split
  · exact own_emit _ w
  · split
    · exact own_emit _ w
    · split
      · cases encodePublishPy topic payload 0 retain none with
        | error e => exact own_emit _ w
        | ok bs => exact own_seq (own_mkStep _ _ _ _ _) (own_emit _) w
      · refine ownAt_makeId hid ?_
        cases encodePublishPy topic payload qos.toNat retain (some ((scanId w 65535 w.nextId : Nat) : Int)) with
        | error e => exact own_emit _ _
        | ok bs => exact own_newDfd (fun d => own_seq (own_mkStep _ _ _ _ _) (own_emit _)) _

theorem own_registerSubUnsub (isSub : Bool) (i : Nat) (bs : Bytes) : Own A p (registerSubUnsub p isSub i bs) := by
  unfold registerSubUnsub
  refine own_read' fun w hw => ?_
  refine own_newDfd fun d => ?_
  exact own_seq (own_modrfl (fun _ _ => rfl) (fun _ => rfl)) (own_seq (own_insert' hw _ _ _) (own_seq (own_retrySubUnsub _ _ _) (own_emit _)))

theorem ownAt_apiSubscribe (arg : SubArg) (qos : Int) (w : World)
    (hid : scanId (w.only A) 65535 w.nextId = scanId w 65535 w.nextId) : OwnAt A p (apiSubscribe p arg qos) w := by
  intro hp
  revert hp
  unfold apiSubscribe
  intro hp
  refine ownAt_read ?_ ?_ hp
  · rw [only_ents, only_paddr, count_filter' hp]
    rfl
  · cases arg <;> dsimp only <;> (repeat' (first | with_reducible exact own_emit _ w | split)) <;>
      (refine ownAt_makeId hid ?_
       generalize encodeWithId 0x82 _ _ = E
       cases E with
       | error e => exact own_emit _ _
       | ok bs => exact own_registerSubUnsub _ _ _ _)

theorem ownAt_apiUnsubscribe (arg : UnsubArg) (w : World)
    (hid : scanId (w.only A) 65535 w.nextId = scanId w 65535 w.nextId)
    (hid2 : scanId (w.only A) 65535 (scanId w 65535 w.nextId) = scanId w 65535 (scanId w 65535 w.nextId)) :
    OwnAt A p (apiUnsubscribe p arg) w := by
  intro hp
  revert hp
  unfold apiUnsubscribe
  intro hp
  refine ownAt_read rfl ?_ hp
  split
  · exact own_emit _ w
  · refine ownAt_makeId hid ?_
    intro hp1
    refine ownAt_read ?_ ?_ hp1
    · rw [only_ents, only_paddr, count_filter' hp1]
      rfl
    · cases arg <;> dsimp only <;> (repeat' (first | with_reducible exact own_emit _ _ | split)) <;>
        (refine ownAt_makeId ?_ ?_
         · have c1 := scanId_congr (w := w.only A) (w' := World.only A { w with nextId := scanId w 65535 w.nextId, idAllocs := w.idAllocs + 1 }) rfl rfl
           have c2 := scanId_congr (w := w) (w' := { w with nextId := scanId w 65535 w.nextId, idAllocs := w.idAllocs + 1 }) rfl rfl
           rw [c1, c2]
           exact hid2
         · generalize encodeWithId 0xA2 _ _ = E
           cases E with
           | error e => exact own_emit _ _
           | ok bs => exact own_registerSubUnsub _ _ _ _)

theorem own_apiConnect (a : ConnectArgs) : Own A p (apiConnect p a) := by
  unfold apiConnect
  generalize a.toF.encode = E
  refine own_read' fun w hw => ?_
  split
  · exact own_emit _
  · split
    · exact own_emit _
    · cases E with
      | error e =>
        dsimp only
        split
        · exact own_emit _
        · exact own_raise _
      | ok pdu =>
        refine own_seq (own_setProto _ _ fun _ => rfl) (own_seq (own_write _ _) (own_seq (own_setProto _ _ fun _ => rfl) ?_))
        refine own_read' fun w' hw' => ?_
        refine own_callLater _ _ fun tid => own_newDfd fun d => ?_
        exact own_seq (own_modrfl (fun _ _ => rfl) (fun _ => rfl)) (own_seq (own_setProto _ _ fun _ => rfl) (own_emit _))

theorem own_apiDisconnect : Own A p (apiDisconnect p) := by unfold apiDisconnect; owns
theorem own_apiSetWindow (n : PyNum) : Own A p (apiSetWindow p n) := by unfold apiSetWindow; owns
theorem own_apiSetTimeout (n : PyNum) : Own A p (apiSetTimeout p n) := by unfold apiSetTimeout; owns
theorem own_apiSetBandwith (b f : Rat) : Own A p (apiSetBandwith p b f) := by unfold apiSetBandwith; owns
theorem own_apiSetHandlers (m : Nat) : Own A p (apiSetHandlers p m) := own_setProto _ _ fun _ => rfl

end handlers


/-! ### `Oth`: a handler of a protocol of another address leaves the `A`-part of the six dictionaries alone -/

/-- the entries of address `A` in the six dictionaries are the same in `w` and `w'` -/
def SameA (A : Nat) (w w' : World) : Prop := w'.ents.filter (onA A) = w.ents.filter (onA A) ∧ w'.rx.filter (rxOnA A) = w.rx.filter (rxOnA A)

theorem SameA.refl (A : Nat) (w : World) : SameA A w w := ⟨rfl, rfl⟩
theorem SameA.trans {A : Nat} {a b c : World} (x : SameA A a b) (y : SameA A b c) : SameA A a c := ⟨y.1.trans x.1, y.2.trans x.2⟩

def OthAt (A q : Nat) (s : Step) (w : World) : Prop :=
  w.paddr q ≠ A → (∀ q', (s w).1.paddr q' = w.paddr q') ∧ SameA A w (s w).1
@[reducible] def Oth (A q : Nat) (s : Step) : Prop := ∀ w, OthAt A q s w

section oth
variable {A q : Nat}

theorem oth_ok : Oth A q Step.ok := fun w _ => ⟨fun _ => rfl, SameA.refl A w⟩
theorem oth_raise (e : Err) : Oth A q (Step.raise e) := fun w _ => ⟨fun _ => rfl, SameA.refl A w⟩

theorem othAt_seq {a b : Step} {w : World} (ha : OthAt A q a w) (hb : OthAt A q b (a w).1) : OthAt A q (a ;; b) w := by
  intro hp
  obtain ⟨ha1, ha2⟩ := ha hp
  have hp1 : (a w).1.paddr q ≠ A := by rw [ha1 q]; exact hp
  obtain ⟨hb1, hb2⟩ := hb hp1
  simp only [Step.seq]
  rcases hw : a w with ⟨w1, _ | e⟩
  · rw [hw] at ha1 ha2 hb1 hb2
    exact ⟨fun q' => (hb1 q').trans (ha1 q'), ha2.trans hb2⟩
  · rw [hw] at ha1 ha2
    exact ⟨ha1, ha2⟩

theorem oth_seq {a b : Step} (ha : Oth A q a) (hb : Oth A q b) : Oth A q (a ;; b) := fun w => othAt_seq (ha w) (hb _)
theorem oth_read {f : World → Step} (h : ∀ w, w.paddr q ≠ A → Oth A q (f w)) : Oth A q (Step.read f) := fun w hp => h w hp w hp
theorem oth_mod {f : World → World} (h1 : ∀ w q', (f w).paddr q' = w.paddr q') (h2 : ∀ w, w.paddr q ≠ A → SameA A w (f w)) : Oth A q (Step.mod f) :=
  fun w hp => ⟨h1 w, h2 w hp⟩
theorem oth_modrfl {f : World → World} (h1 : ∀ w q', (f w).paddr q' = w.paddr q') (h2 : ∀ w, (f w).ents = w.ents) (h3 : ∀ w, (f w).rx = w.rx) :
    Oth A q (Step.mod f) := oth_mod h1 fun w _ => ⟨by rw [h2], by rw [h3]⟩

theorem oth_setProto (q' : Nat) (g : Proto → Proto) (hg : ∀ pr, (g pr).addr = pr.addr) : Oth A q (setProto q' g) :=
  oth_modrfl (fun w q'' => paddr_setProto w q' g hg q'') (fun _ => rfl) (fun _ => rfl)
theorem oth_emit (o : Obs) : Oth A q (emit o) := oth_modrfl (fun _ _ => rfl) (fun _ => rfl) (fun _ => rfl)
theorem oth_write (q' : Nat) (b : Bytes) : Oth A q (write q' b) := oth_emit _
theorem oth_abort (q' : Nat) : Oth A q (abort q') := oth_emit _
theorem oth_setReq (r : Nat) (g : Req → Req) : Oth A q (setReq r g) := oth_modrfl (fun _ _ => rfl) (fun _ => rfl) (fun _ => rfl)
theorem oth_setEnts {g : List Ent → List Ent} (hg : ∀ es, (g es).filter (onA A) = es.filter (onA A)) : Oth A q (setEnts g) :=
  oth_mod (fun _ _ => rfl) fun w _ => ⟨hg w.ents, rfl⟩
theorem oth_remove {a : Nat} (h : a ≠ A) (b : Box) (k : Nat) : Oth A q (setEnts fun es => Ents.remove es a b k) := oth_setEnts fun es => Ents.remove_other h es b k
theorem oth_insert {a : Nat} (h : a ≠ A) (b : Box) (k rid : Nat) : Oth A q (setEnts fun es => Ents.insert es a b k rid) := oth_setEnts fun es => Ents.insert_other h es b k rid
theorem oth_dropFirst {a : Nat} (h : a ≠ A) (b : Box) : Oth A q (setEnts fun es => Ents.dropFirst es a b) := oth_setEnts fun es => Ents.dropFirst_other h es b
theorem oth_append {a : Nat} (h : a ≠ A) (b : Box) (k rid : Nat) : Oth A q (setEnts fun es => es ++ [⟨a, b, k, rid⟩]) := oth_setEnts fun es => Ents.append_other h es b k rid
theorem oth_rxInsert (k : Nat) (m : RxMsg) : Oth A q (Step.mod fun w => { w with rx := Rx.insert w.rx (w.paddr q) k m }) :=
  oth_mod (fun _ _ => rfl) fun w hp => ⟨rfl, Rx.insert_other hp w.rx k m⟩
theorem oth_rxRemove (k : Nat) : Oth A q (Step.mod fun w => { w with rx := Rx.remove w.rx (w.paddr q) k }) :=
  oth_mod (fun _ _ => rfl) fun w hp => ⟨rfl, Rx.remove_other hp w.rx k⟩

theorem oth_callLater (d : Rat) (k : TKind) {c : Nat → Step} (hc : ∀ t, Oth A q (c t)) : Oth A q (callLater d k c) :=
  oth_read fun _ _ => oth_seq (oth_modrfl (fun _ _ => rfl) (fun _ => rfl) (fun _ => rfl)) (hc _)
theorem oth_newDfd {c : Nat → Step} (hc : ∀ t, Oth A q (c t)) : Oth A q (newDfd c) :=
  oth_read fun _ _ => oth_seq (oth_modrfl (fun _ _ => rfl) (fun _ => rfl) (fun _ => rfl)) (hc _)
theorem oth_makeId {c : Nat → Step} (hc : ∀ t, Oth A q (c t)) : Oth A q (makeId c) :=
  oth_read fun _ _ => oth_seq (oth_modrfl (fun _ _ => rfl) (fun _ => rfl) (fun _ => rfl)) (hc _)
theorem oth_cancelTimer (t : Nat) : Oth A q (cancelTimer t) := by
  refine oth_read fun w _ => ?_
  split
  · exact oth_raise _
  · split
    · exact oth_modrfl (fun _ _ => rfl) (fun _ => rfl) (fun _ => rfl)
    · exact oth_raise _
    · exact oth_raise _
theorem oth_cancelAlarm (a : Option Nat) : Oth A q (cancelAlarm a) := by
  cases a with
  | none => exact oth_raise _
  | some t => exact oth_cancelTimer t
theorem oth_fireDfd (d : Nat) (o : Outcome) : Oth A q (fireDfd d o) := by
  refine oth_read fun w _ => ?_
  split
  · exact oth_raise _
  · exact oth_seq (oth_modrfl (fun _ _ => rfl) (fun _ => rfl) (fun _ => rfl)) (oth_emit _)
theorem oth_fireReqDfd (d : Option Nat) (o : Outcome) : Oth A q (fireReqDfd d o) := by
  cases d with
  | none => exact oth_raise _
  | some d => exact oth_fireDfd d o
theorem oth_forEach {α : Type} (l : List α) {f : α → Step} (hf : ∀ a ∈ l, Oth A q (f a)) : Oth A q (forEach l f) := by
  induction l with
  | nil => exact oth_ok
  | cons a r ih => exact oth_seq (hf a (by simp)) (ih fun x hx => hf x (by simp [hx]))
theorem oth_deliver (q' : Nat) (m : RxMsg) : Oth A q (deliver q' m) := by
  refine oth_read fun w _ => ?_
  split
  · exact oth_emit _
  · exact oth_ok

/-! world functions -/
theorem retryPublishW_rx' (p rid : Nat) (dup : Bool) (w : World) : (retryPublishW p rid dup w).rx = w.rx := by
  simp only [retryPublishW]; split <;> rfl
theorem retryReleaseW_rx' (p rid : Nat) (dup : Bool) (w : World) : (retryReleaseW p rid dup w).rx = w.rx := by
  simp only [retryReleaseW]; split <;> rfl
theorem retrySubUnsubW_rx' (p rid : Nat) (dup s : Bool) (w : World) : (retrySubUnsubW p rid dup s w).rx = w.rx := by
  simp only [retrySubUnsubW]; split <;> rfl

theorem oth_retryPublish (p rid : Nat) (dup : Bool) : Oth A q (retryPublish p rid dup) :=
  oth_modrfl (fun w q' => retryPublishW_paddr p rid dup w q') (fun w => retryPublishW_ents p rid dup w) (fun w => retryPublishW_rx' p rid dup w)
theorem oth_retryRelease (p rid : Nat) (dup : Bool) : Oth A q (retryRelease p rid dup) :=
  oth_modrfl (fun w q' => retryReleaseW_paddr p rid dup w q') (fun w => retryReleaseW_ents p rid dup w) (fun w => retryReleaseW_rx' p rid dup w)
theorem oth_retrySubUnsub (p rid : Nat) (dup s : Bool) : Oth A q (retrySubUnsub p rid dup s) :=
  oth_modrfl (fun w q' => retrySubUnsubW_paddr p rid dup s w q') (fun w => retrySubUnsubW_ents p rid dup s w) (fun w => retrySubUnsubW_rx' p rid dup s w)

theorem refillW_sameA (dup : Bool) (fuel : Nat) : ∀ (w : World), w.paddr q ≠ A → SameA A w (refillW q dup fuel w) := by
  induction fuel with
  | zero => intro w _; exact SameA.refl A w
  | succ f ih =>
    intro w hp
    simp only [refillW]
    split
    · exact SameA.refl A w
    · rename_i e _ _
      split
      · refine SameA.trans ?_ (ih _ (by rw [retryPublishW_paddr]; split <;> exact hp))
        refine ⟨?_, ?_⟩
        · rw [retryPublishW_ents]
          split
          · simp only [World.setEnts, Ents.insert_other hp, Ents.dropFirst_other hp]
          · simp only [World.setEnts, Ents.dropFirst_other hp]
        · rw [retryPublishW_rx']; split <;> rfl
      · exact SameA.refl A w

theorem oth_refill : Oth A q (refill q) := oth_mod (fun w q' => refillW_paddr q false _ w q') fun w hp => refillW_sameA false _ w hp

theorem foldPub_ents (p : Nat) (l : List Ent) : ∀ (w : World),
    (l.foldl (fun w e => if (w.req e.rid).alarm = none then retryPublishW p e.rid true w else w) w).ents = w.ents := by
  induction l with
  | nil => intro w; rfl
  | cons e r ih =>
    intro w
    simp only [List.foldl]
    rw [ih]
    split
    · exact retryPublishW_ents _ _ _ _
    · rfl
theorem foldRel_rx (p : Nat) (l : List Ent) : ∀ (w : World),
    (l.foldl (fun w e => if (w.req e.rid).alarm = none then retryReleaseW p e.rid true w else w) w).rx = w.rx := by
  induction l with
  | nil => intro w; rfl
  | cons e r ih =>
    intro w
    simp only [List.foldl]
    rw [ih]
    split
    · exact retryReleaseW_rx' _ _ _ _
    · rfl
theorem foldPub_rx (p : Nat) (l : List Ent) : ∀ (w : World),
    (l.foldl (fun w e => if (w.req e.rid).alarm = none then retryPublishW p e.rid true w else w) w).rx = w.rx := by
  induction l with
  | nil => intro w; rfl
  | cons e r ih =>
    intro w
    simp only [List.foldl]
    rw [ih]
    split
    · exact retryPublishW_rx' _ _ _ _
    · rfl

theorem oth_syncSession (p : Nat) : Oth A q (syncSession p) :=
  oth_modrfl (fun w q' => syncW_paddr p w q') (fun w => by simp only [syncW]; rw [foldPub_ents, foldRel_ents])
    (fun w => by simp only [syncW]; rw [foldPub_rx, foldRel_rx])


macro "oth_step" : tactic => `(tactic| first
  | with_reducible exact oth_ok | with_reducible exact oth_raise _ | with_reducible exact oth_emit _
  | with_reducible exact oth_write _ _ | with_reducible exact oth_abort _
  | ((with_reducible apply oth_setProto); (intro pr; rfl))
  | with_reducible exact oth_setReq _ _
  | with_reducible exact oth_cancelTimer _ | with_reducible exact oth_cancelAlarm _
  | with_reducible exact oth_fireDfd _ _ | with_reducible exact oth_fireReqDfd _ _
  | with_reducible exact oth_refill | with_reducible exact oth_syncSession _
  | with_reducible exact oth_retryPublish _ _ _ | with_reducible exact oth_retryRelease _ _ _
  | with_reducible exact oth_retrySubUnsub _ _ _ _
  | with_reducible exact oth_deliver _ _
  | ((with_reducible refine oth_modrfl (fun w q' => ?h1) (fun w => ?h2) (fun w => ?h3)); (case h1 => rfl); (case h2 => rfl); (case h3 => rfl))
  | with_reducible apply oth_seq
  | (with_reducible refine oth_read (fun w hw => ?_))
  | ((with_reducible apply oth_callLater); intro t) | ((with_reducible apply oth_newDfd); intro t)
  | ((with_reducible apply oth_makeId); intro t)
  | split
  | dsimp only)
macro "oths" : tactic => `(tactic| repeat oth_step)

theorem oth_purgeWindow (rel : Bool) (r : Err) : Oth A q (purgeWindow q rel r) := by
  unfold purgeWindow
  refine oth_read fun w hw => ?_
  dsimp only
  refine oth_forEach _ fun e he => ?_
  have hea : e.addr ≠ A := by rw [Ents.items_addr he]; exact hw
  refine oth_read fun w' _ => ?_
  split
  · exact oth_seq (oth_remove hea _ _) (oth_fireReqDfd _ _)
  · exact oth_ok

theorem oth_purgeSession (r : Err) : Oth A q (purgeSession q r) := oth_seq (oth_purgeWindow _ _) (oth_purgeWindow _ _)

theorem oth_mqttConnectionMade : Oth A q (mqttConnectionMade q) := by
  unfold mqttConnectionMade
  refine oth_read fun w hw => ?_
  refine oth_seq ?_ (oth_seq oth_refill ?_)
  · split
    · exact oth_purgeSession _
    · exact oth_syncSession _
  · oths

theorem oth_doPingRequest : Oth A q (doPingRequest q) := by unfold doPingRequest; oths

theorem oth_ping : Oth A q (ping q) := by
  unfold ping
  refine oth_read fun w hw => ?_
  split
  · exact oth_doPingRequest
  · exact oth_raise _

theorem oth_loopRun : Oth A q (loopRun q) := by
  intro w hp
  obtain ⟨k1, k2⟩ := oth_ping (A := A) (q := q) w hp
  have hcont : Oth A q (Step.read fun w =>
      match (w.proto q).pingTimer with
      | some l =>
        if l.running then
          callLater l.interval (.pingLoop q) fun tid =>
            setProto q (fun pr => { pr with pingTimer := (pr.pingTimer.map fun l => { l with call := some tid }) })
        else Step.ok
      | none => Step.ok) := by oths
  have hstop : Oth A q (setProto q (fun pr => { pr with pingTimer := (pr.pingTimer.map fun l => { l with running := false, call := none }) })) :=
    oth_setProto _ _ fun _ => rfl
  unfold loopRun
  rcases hw : ping q w with ⟨w1, _ | e⟩
  · rw [hw] at k1 k2
    have hp1 : w1.paddr q ≠ A := by rw [k1 q]; exact hp
    obtain ⟨c1, c2⟩ := hcont w1 hp1
    simp only
    exact ⟨fun q' => (c1 q').trans (k1 q'), k2.trans c2⟩
  · rw [hw] at k1 k2
    have hp1 : w1.paddr q ≠ A := by rw [k1 q]; exact hp
    obtain ⟨c1, c2⟩ := hstop w1 hp1
    simp only
    exact ⟨fun q' => (c1 q').trans (k1 q'), k2.trans c2⟩

theorem oth_loopStop : Oth A q (loopStop q) := by unfold loopStop; oths

theorem oth_handleCONNACK (session : Bool) (rc : Nat) : Oth A q (handleCONNACK q session rc) := by
  unfold handleCONNACK
  refine oth_read fun w hw => ?_
  split
  · exact oth_raise _
  · split
    · exact oth_raise _
    · split
      · exact oth_ok
      · refine oth_seq (oth_cancelTimer _) (oth_seq ?_ (oth_setProto _ _ fun _ => rfl))
        split
        · refine oth_seq (oth_setProto _ _ fun _ => rfl) (oth_seq oth_mqttConnectionMade (oth_seq ?_ (oth_fireDfd _ _)))
          split
          · exact oth_seq (oth_setProto _ _ fun _ => rfl) oth_loopRun
          · exact oth_ok
        · exact oth_seq (oth_setProto _ _ fun _ => rfl) (oth_fireDfd _ _)

theorem oth_handlePINGRESP : Oth A q (handlePINGRESP q) := by unfold handlePINGRESP; oths

theorem oth_handleSubUnsubAck (isSub : Bool) (m : Nat) (v : Val) : Oth A q (handleSubUnsubAck q isSub m v) := by
  unfold handleSubUnsubAck
  refine oth_read fun w hw => ?_
  dsimp only
  split
  · exact oth_ok
  · exact oth_seq (oth_remove hw _ _) (oth_seq (oth_cancelAlarm _) (oth_fireReqDfd _ _))

theorem oth_handlePUBLISH (m : RxMsg) : Oth A q (handlePUBLISH q m) := by
  unfold handlePUBLISH
  split
  · exact oth_deliver _ _
  · split
    · split
      · exact oth_seq (oth_write _ _) (oth_deliver _ _)
      · exact oth_raise _
    · split
      · refine oth_seq (oth_rxInsert _ _) ?_
        split
        · exact oth_write _ _
        · exact oth_raise _
      · exact oth_ok

theorem oth_handlePUBREL (m : Nat) : Oth A q (handlePUBREL q m) := by
  unfold handlePUBREL
  refine oth_read fun w hw => ?_
  refine oth_seq ?_ ?_
  · split
    · exact oth_ok
    · exact oth_seq (oth_rxRemove _) (oth_deliver _ _)
  · split
    · exact oth_write _ _
    · exact oth_raise _

theorem oth_handlePUBACK (m : Nat) : Oth A q (handlePUBACK q m) := by
  unfold handlePUBACK
  refine oth_read fun w hw => ?_
  split
  · exact oth_ok
  · split
    · exact oth_ok
    · exact oth_seq (oth_cancelAlarm _) (oth_seq (oth_fireReqDfd _ _) (oth_seq (oth_remove hw _ _) oth_refill))

theorem oth_handlePUBREC (m : Nat) : Oth A q (handlePUBREC q m) := by
  unfold handlePUBREC
  generalize encodePUBREL (m : Int) = E
  refine oth_read fun w hw => ?_
  split
  · exact oth_ok
  · split
    · exact oth_ok
    · refine oth_seq (oth_cancelAlarm _) (oth_seq (oth_remove hw _ _) ?_)
      cases E with
      | error e => exact oth_raise _
      | ok bs =>
        refine oth_read fun w' hw' => ?_
        exact oth_seq (oth_modrfl (fun _ _ => rfl) (fun _ => rfl) (fun _ => rfl)) (oth_seq (oth_insert hw' _ _ _) (oth_retryRelease _ _ _))

theorem oth_handlePUBCOMP (m : Nat) : Oth A q (handlePUBCOMP q m) := by
  unfold handlePUBCOMP
  refine oth_read fun w hw => ?_
  split
  · exact oth_ok
  · exact oth_seq (oth_cancelAlarm _) (oth_seq (oth_fireReqDfd _ _) (oth_seq (oth_remove hw _ _) oth_refill))

theorem oth_processPacket (pkt : Bytes) : Oth A q (processPacket q pkt) := by
  unfold processPacket
  split
  · exact oth_raise _
  · dsimp only
    split
    · exact oth_abort _
    · split
      · exact oth_abort _
      · refine oth_read fun w hw => ?_
        split
        all_goals (try exact oth_abort _)
        all_goals (split <;> (try split) <;> first
          | exact oth_abort _ | exact oth_ok | exact oth_handleCONNACK _ _ | exact oth_handlePINGRESP
          | exact oth_handleSubUnsubAck _ _ _ | exact oth_handlePUBLISH _ | exact oth_handlePUBACK _
          | exact oth_handlePUBREC _ | exact oth_handlePUBREL _ | exact oth_handlePUBCOMP _)

theorem oth_accumulate (fuel : Nat) : Oth A q (accumulate q fuel) := by
  induction fuel with
  | zero => exact oth_ok
  | succ f ih =>
    unfold accumulate
    refine oth_read fun w hw => ?_
    split
    · exact oth_ok
    · exact oth_seq (oth_processPacket _) (oth_seq (oth_setProto _ _ fun _ => rfl) ih)

theorem oth_dataReceived (d : Bytes) : Oth A q (dataReceived q d) := by
  unfold dataReceived
  exact oth_seq (oth_setProto _ _ fun _ => rfl) (oth_read fun w _ => oth_accumulate _)

theorem oth_cancelWindowAlarms (l : List Ent) : Oth A q (cancelWindowAlarms l) := by
  unfold cancelWindowAlarms
  refine oth_forEach _ fun e _ => ?_
  refine oth_read fun w hw => ?_
  split
  · exact oth_ok
  · exact oth_seq (oth_cancelTimer _) (oth_setReq _ _)

theorem oth_failWindow (isSub : Bool) (r : Err) : Oth A q (failWindow q isSub r) := by
  unfold failWindow
  refine oth_read fun w hw => ?_
  dsimp only
  refine oth_forEach _ fun e he => ?_
  have hea : e.addr ≠ A := by rw [Ents.items_addr he]; exact hw
  exact oth_seq (oth_remove hea _ _) (oth_read fun w' _ => oth_fireReqDfd _ _)

theorem oth_drainQueue (r : Err) (fuel : Nat) : Oth A q (drainQueue q r fuel) := by
  induction fuel with
  | zero => exact oth_ok
  | succ f ih =>
    unfold drainQueue
    refine oth_read fun w hw => ?_
    split
    · exact oth_ok
    · refine oth_seq (oth_dropFirst hw _) (oth_seq ?_ ih)
      split
      · exact oth_fireReqDfd _ _
      · exact oth_ok

theorem oth_doConnectionLost (r : Err) : Oth A q (doConnectionLost q r) := by
  unfold doConnectionLost
  refine oth_read fun w hw => ?_
  refine oth_seq (oth_cancelWindowAlarms _) (oth_seq (oth_cancelWindowAlarms _) (oth_seq (oth_cancelWindowAlarms _)
    (oth_seq (oth_cancelWindowAlarms _) (oth_seq (oth_failWindow _ _) (oth_seq (oth_failWindow _ _) ?_)))))
  refine oth_read fun w' hw' => ?_
  split
  · exact oth_seq (oth_purgeSession _) (oth_read fun w2 hw2 => oth_drainQueue _ _)
  · exact oth_ok

theorem oth_connectionLost (r : Err) : Oth A q (connectionLost q r) := by
  unfold connectionLost
  refine oth_read fun w hw => ?_
  refine oth_seq ?_ (oth_seq ?_ (oth_seq (oth_doConnectionLost r) (oth_seq (oth_setProto _ _ fun _ => rfl) ?_)))
  · split
    · exact oth_ok
    · exact oth_seq oth_loopStop (oth_setProto _ _ fun _ => rfl)
  · split
    · exact oth_ok
    · exact oth_seq (oth_cancelTimer _) (oth_setProto _ _ fun _ => rfl)
  · oths

theorem oth_runTimer (k : TKind) (hk : k.on q) : Oth A q (runTimer k) := by
  cases k with
  | connack cr => unfold runTimer abort; oths
  | pingLoop q' => cases hk; exact oth_seq (oth_setProto _ _ fun _ => rfl) oth_loopRun
  | pingAlarm q' => cases hk; exact oth_seq (oth_setProto _ _ fun _ => rfl) (oth_abort _)
  | retry q' rid =>
    cases hk
    unfold runTimer
    refine oth_read fun w hw => ?_
    split
    · exact oth_retryPublish _ _ _
    · exact oth_retryRelease _ _ _
    · exact oth_retrySubUnsub _ _ _ _
    · exact oth_retrySubUnsub _ _ _ _
  | onDisc q' r => exact oth_emit _

theorem oth_mkStep (pr : Proto) (qn mid : Nat) (dfd : Option Nat) (bs : Bytes) : Oth A q (mkStep q pr qn mid dfd bs) := by
  unfold mkStep
  refine oth_read fun w hw => ?_
  exact oth_seq (oth_modrfl (fun _ _ => rfl) (fun _ => rfl) (fun _ => rfl)) (oth_seq (oth_append hw _ _ _) oth_refill)

theorem oth_apiPublish (topic : PyStr) (payload : Payload) (qos : Int) (retain : Bool) : Oth A q (apiPublish q topic payload qos retain) := by
  intro w
  rw [OthAt, apiPublish_eq]
  split
  · exact oth_emit _ w
  · split
    · exact oth_emit _ w
    · split
      · cases encodePublishPy topic payload 0 retain none with
        | error e => exact oth_emit _ w
        | ok bs => exact oth_seq (oth_mkStep _ _ _ _ _) (oth_emit _) w
      · refine oth_makeId (fun i => ?_) w
        cases encodePublishPy topic payload qos.toNat retain (some (i : Int)) with
        | error e => exact oth_emit _
        | ok bs => exact oth_newDfd fun d => oth_seq (oth_mkStep _ _ _ _ _) (oth_emit _)

theorem oth_registerSubUnsub (isSub : Bool) (i : Nat) (bs : Bytes) : Oth A q (registerSubUnsub q isSub i bs) := by
  unfold registerSubUnsub
  refine oth_read fun w hw => ?_
  refine oth_newDfd fun d => ?_
  exact oth_seq (oth_modrfl (fun _ _ => rfl) (fun _ => rfl) (fun _ => rfl)) (oth_seq (oth_insert hw _ _ _) (oth_seq (oth_retrySubUnsub _ _ _ _) (oth_emit _)))

theorem oth_apiSubscribe (arg : SubArg) (qos : Int) : Oth A q (apiSubscribe q arg qos) := by
  unfold apiSubscribe
  refine oth_read fun w hw => ?_
  cases arg <;> dsimp only <;> (repeat' (first | with_reducible exact oth_emit _ | split)) <;>
    (refine oth_makeId fun i => ?_
     generalize encodeWithId 0x82 _ _ = E
     cases E with
     | error e => exact oth_emit _
     | ok bs => exact oth_registerSubUnsub _ _ _)

theorem oth_apiUnsubscribe (arg : UnsubArg) : Oth A q (apiUnsubscribe q arg) := by
  unfold apiUnsubscribe
  refine oth_read fun w hw => ?_
  split
  · exact oth_emit _
  · refine oth_makeId fun _ => oth_read fun w1 hw1 => ?_
    cases arg <;> dsimp only <;> (repeat' (first | with_reducible exact oth_emit _ | split)) <;>
      (refine oth_makeId fun i => ?_
       generalize encodeWithId 0xA2 _ _ = E
       cases E with
       | error e => exact oth_emit _
       | ok bs => exact oth_registerSubUnsub _ _ _)

theorem oth_apiConnect (a : ConnectArgs) : Oth A q (apiConnect q a) := by
  unfold apiConnect
  generalize a.toF.encode = E
  refine oth_read fun w hw => ?_
  split
  · exact oth_emit _
  · split
    · exact oth_emit _
    · cases E with
      | error e =>
        dsimp only
        split
        · exact oth_emit _
        · exact oth_raise _
      | ok pdu =>
        refine oth_seq (oth_setProto _ _ fun _ => rfl) (oth_seq (oth_write _ _) (oth_seq (oth_setProto _ _ fun _ => rfl) ?_))
        refine oth_read fun w' hw' => ?_
        refine oth_callLater _ _ fun tid => oth_newDfd fun d => ?_
        exact oth_seq (oth_modrfl (fun _ _ => rfl) (fun _ => rfl) (fun _ => rfl)) (oth_seq (oth_setProto _ _ fun _ => rfl) (oth_emit _))

theorem oth_apiDisconnect : Oth A q (apiDisconnect q) := by unfold apiDisconnect; oths
theorem oth_apiSetWindow (n : PyNum) : Oth A q (apiSetWindow q n) := by unfold apiSetWindow; oths
theorem oth_apiSetTimeout (n : PyNum) : Oth A q (apiSetTimeout q n) := by unfold apiSetTimeout; oths
theorem oth_apiSetBandwith (b f : Rat) : Oth A q (apiSetBandwith q b f) := by unfold apiSetBandwith; oths
theorem oth_apiSetHandlers (m : Nat) : Oth A q (apiSetHandlers q m) := oth_setProto _ _ fun _ => rfl

end oth


/-! ### operations that touch no per-address dictionary -/

/-- `s` neither reads nor writes the six dictionaries -/
def Free (s : Step) : Prop := ∀ A w, s (World.only A w) = (World.only A (s w).1, (s w).2) ∧ SameA A w (s w).1

theorem free_ok : Free Step.ok := fun A w => ⟨rfl, SameA.refl A w⟩
theorem free_raise (e : Err) : Free (Step.raise e) := fun A w => ⟨rfl, SameA.refl A w⟩
theorem free_seq {a b : Step} (ha : Free a) (hb : Free b) : Free (a ;; b) := by
  intro A w
  obtain ⟨a1, a2⟩ := ha A w
  simp only [Step.seq]
  rw [a1]
  rcases hw : a w with ⟨w1, _ | e⟩
  · rw [hw] at a2
    obtain ⟨b1, b2⟩ := hb A w1
    exact ⟨b1, a2.trans b2⟩
  · rw [hw] at a2
    exact ⟨rfl, a2⟩
theorem free_read {f : World → Step} (h1 : ∀ A w, f (World.only A w) = f w) (h2 : ∀ w, Free (f w)) : Free (Step.read f) := by
  intro A w
  show f (World.only A w) (World.only A w) = _ ∧ _
  rw [h1]
  exact h2 w A w
theorem free_mod {f : World → World} (h1 : ∀ A w, f (World.only A w) = World.only A (f w)) (h2 : ∀ w, (f w).ents = w.ents) (h3 : ∀ w, (f w).rx = w.rx) :
    Free (Step.mod f) := fun A w => ⟨by show (f (World.only A w), none) = _; rw [h1]; rfl, by show SameA A w (f w); exact ⟨by rw [h2], by rw [h3]⟩⟩
theorem free_emit (o : Obs) : Free (emit o) := free_mod (fun _ _ => rfl) (fun _ => rfl) (fun _ => rfl)
theorem free_fireDfd (d : Nat) (o : Outcome) : Free (fireDfd d o) := by
  refine free_read (fun _ _ => rfl) fun w => ?_
  split
  · exact free_raise _
  · exact free_seq (free_mod (fun _ _ => rfl) (fun _ => rfl) (fun _ => rfl)) (free_emit _)

theorem free_runConnack (cr : Nat) : Free (runTimer (.connack cr)) := by
  unfold runTimer
  refine free_read (fun _ _ => rfl) fun w => ?_
  split
  · exact free_raise _
  · refine free_seq ?_ (free_seq (free_mod (fun _ _ => rfl) (fun _ => rfl) (fun _ => rfl)) (free_emit _))
    split
    · exact free_raise _
    · exact free_fireDfd _ _

/-! ### operations -/

/-- the protocol an operation is run by; `none`: the operation touches no per-address dictionary at all (`buildProtocol`,
    the handshake timeout, firing a timer that does not exist, the harness' own `jit` / `setid`) -/
def Op.proto? (w : World) : Op → Option Nat
  | .build _ | .jit _ | .setid _ => none
  | .sethandlers p _ | .connect p _ | .disconnect p | .publish p _ _ _ _ | .subscribe p _ _ | .unsubscribe p _
  | .setwin p _ | .settimeout p _ | .setbw p _ _ | .recv p _ | .lost p _ => some p
  | .fire t =>
    match w.timers.get? t with
    | some tm =>
      (match tm.kind with
       | .connack _ => none
       | .pingLoop p | .pingAlarm p | .retry p _ | .onDisc p _ => some p)
    | none => none

/-- the identifier drawn by the operation (if it draws one) is the one it would draw if the other addresses had no
    unfinished requests: the shared counter is the only thing through which addresses see each other -/
def IdAgree (A : Nat) (w : World) : Op → Prop
  | .publish _ _ _ _ _ | .subscribe _ _ _ => scanId (w.only A) 65535 w.nextId = scanId w 65535 w.nextId
  | .unsubscribe _ _ => scanId (w.only A) 65535 w.nextId = scanId w 65535 w.nextId ∧
      scanId (w.only A) 65535 (scanId w 65535 w.nextId) = scanId w 65535 (scanId w 65535 w.nextId)
  | _ => True

theorem kind_on_of_proto? {w : World} {t : Nat} {tm : Timer} {p : Nat} (ht : w.timers.get? t = some tm)
    (hop : Op.proto? w (.fire t) = some p) : tm.kind.on p := by
  simp only [Op.proto?, ht] at hop
  cases hk : tm.kind <;> rw [hk] at hop <;> simp at hop <;> simp [TKind.on, hop]

theorem ownAt_fireTimer {A p : Nat} (t : Nat) (w : World) (hop : Op.proto? w (.fire t) = some p) : OwnAt A p (fireTimer t) w := by
  unfold fireTimer
  refine ownAt_read rfl ?_
  cases ht : w.timers.get? t with
  | none => simp [Op.proto?, ht] at hop
  | some tm =>
    dsimp only
    split
    · refine own_seq ?_ (own_runTimer _ (kind_on_of_proto? ht hop)) w
      exact own_modrfl (fun _ _ => rfl) (fun _ => rfl)
    · exact own_emit _ w

theorem othAt_fireTimer {A q : Nat} (t : Nat) (w : World) (hop : Op.proto? w (.fire t) = some q) : OthAt A q (fireTimer t) w := by
  unfold fireTimer
  show OthAt A q (match w.timers.get? t with
    | none => emit .nofire
    | some tm =>
      if tm.status = .pending then
        Step.mod (fun w => { w with now := max w.now tm.due, timers := w.timers.set t { tm with status := .called } }) ;;
        runTimer tm.kind
      else emit .nofire) w
  cases ht : w.timers.get? t with
  | none => simp [Op.proto?, ht] at hop
  | some tm =>
    dsimp only
    split
    · refine oth_seq ?_ (oth_runTimer _ (kind_on_of_proto? ht hop)) w
      exact oth_modrfl (fun _ _ => rfl) (fun _ => rfl) (fun _ => rfl)
    · exact oth_emit _ w

theorem free_fireTimer (t : Nat) (w : World) (hop : Op.proto? w (.fire t) = none) (A : Nat) :
    fireTimer t (w.only A) = ((fireTimer t w).1.only A, (fireTimer t w).2) ∧ SameA A w (fireTimer t w).1 := by
  have key : ∀ (s : Step), Free s → fireTimer t w = s w → fireTimer t (w.only A) = s (w.only A) →
      fireTimer t (w.only A) = ((fireTimer t w).1.only A, (fireTimer t w).2) ∧ SameA A w (fireTimer t w).1 := by
    intro s hs e1 e2
    rw [e1, e2]
    exact hs A w
  cases ht : w.timers.get? t with
  | none =>
    refine key (emit .nofire) (free_emit _) ?_ ?_
    · simp only [fireTimer, Step.read, ht]
    · simp only [fireTimer, Step.read]
      rw [show (w.only A).timers.get? t = none from ht]
  | some tm =>
    have hk : ∃ cr, tm.kind = .connack cr := by
      simp only [Op.proto?, ht] at hop
      cases hk : tm.kind <;> rw [hk] at hop <;> simp at hop
      exact ⟨_, rfl⟩
    obtain ⟨cr, hk⟩ := hk
    refine key (if tm.status = .pending then
        Step.mod (fun w => { w with now := max w.now tm.due, timers := w.timers.set t { tm with status := .called } }) ;;
        runTimer tm.kind
      else emit .nofire) ?_ ?_ ?_
    · split
      · rw [hk]; exact free_seq (free_mod (fun _ _ => rfl) (fun _ => rfl) (fun _ => rfl)) (free_runConnack cr)
      · exact free_emit _
    · simp only [fireTimer, Step.read, ht]
    · simp only [fireTimer, Step.read]
      rw [show (w.only A).timers.get? t = some tm from ht]

/-- the step of an operation commutes with deleting the other addresses' entries, given that its handler does -/
theorem step_only_of_handler {A : Nat} {w : World} {op : Op} (h : op.handler (w.only A) = ((op.handler w).1.only A, (op.handler w).2)) :
    step (w.only A) op = (step w op).only A := by
  unfold step
  rw [h]
  rcases op.handler w with ⟨w', _ | e⟩ <;> rfl

theorem sameA_step {A : Nat} {w : World} {op : Op} (h : SameA A w (op.handler w).1) : SameA A w (step w op) := by
  unfold step
  rcases hh : op.handler w with ⟨w', _ | e⟩ <;> (rw [hh] at h; exact h)

/-- **reads and writes go through `[self.addr]`**: an operation run by a protocol of address `A` cannot tell the world from the
    one in which every other address has empty dictionaries -- same result, same observations, same world (up to those
    entries) afterwards.  `IdAgree`: unless the identifier it draws differs, the counter being the one shared resource. -/
theorem own_step {A p : Nat} {w : World} {op : Op} (hop : op.proto? w = some p) (hp : w.paddr p = A) (hid : IdAgree A w op) :
    step (w.only A) op = (step w op).only A := by
  refine step_only_of_handler ?_
  have key : OwnAt A p op.handler w := by
    cases op with
    | build a => simp [Op.proto?] at hop
    | jit v => simp [Op.proto?] at hop
    | setid v => simp [Op.proto?] at hop
    | sethandlers q m => cases hop; exact own_apiSetHandlers m w
    | connect q a => cases hop; exact own_apiConnect a w
    | disconnect q => cases hop; exact own_apiDisconnect w
    | publish q t pl qs r => cases hop; exact ownAt_apiPublish t pl qs r w hid
    | subscribe q a qs => cases hop; exact ownAt_apiSubscribe a qs w hid
    | unsubscribe q a => cases hop; exact ownAt_apiUnsubscribe a w hid.1 hid.2
    | setwin q n => cases hop; exact own_apiSetWindow n w
    | settimeout q n => cases hop; exact own_apiSetTimeout n w
    | setbw q b f => cases hop; exact own_apiSetBandwith b f w
    | recv q d => cases hop; exact own_dataReceived d w
    | lost q r => cases hop; exact own_connectionLost r w
    | fire t => exact ownAt_fireTimer t w hop
  exact (key hp).2

/-- an operation run by a protocol of another address leaves the `A`-part of all six dictionaries as it was -/
theorem other_step {A q : Nat} {w : World} {op : Op} (hop : op.proto? w = some q) (hq : w.paddr q ≠ A) : SameA A w (step w op) := by
  refine sameA_step ?_
  have key : OthAt A q op.handler w := by
    cases op with
    | build a => simp [Op.proto?] at hop
    | jit v => simp [Op.proto?] at hop
    | setid v => simp [Op.proto?] at hop
    | sethandlers q' m => cases hop; exact oth_apiSetHandlers m w
    | connect q' a => cases hop; exact oth_apiConnect a w
    | disconnect q' => cases hop; exact oth_apiDisconnect w
    | publish q' t pl qs r => cases hop; exact oth_apiPublish t pl qs r w
    | subscribe q' a qs => cases hop; exact oth_apiSubscribe a qs w
    | unsubscribe q' a => cases hop; exact oth_apiUnsubscribe a w
    | setwin q' n => cases hop; exact oth_apiSetWindow n w
    | settimeout q' n => cases hop; exact oth_apiSetTimeout n w
    | setbw q' b f => cases hop; exact oth_apiSetBandwith b f w
    | recv q' d => cases hop; exact oth_dataReceived d w
    | lost q' r => cases hop; exact oth_connectionLost r w
    | fire t => exact othAt_fireTimer t w hop
  exact (key hq).2

/-- an operation that is run by no protocol (`buildProtocol`, the handshake timeout, ...) does both: it commutes and it changes nothing -/
theorem free_step {w : World} {op : Op} (hop : op.proto? w = none) (A : Nat) :
    step (w.only A) op = (step w op).only A ∧ SameA A w (step w op) := by
  have key : op.handler (w.only A) = ((op.handler w).1.only A, (op.handler w).2) ∧ SameA A w (op.handler w).1 := by
    cases op with
    | build a => exact ⟨rfl, rfl, rfl⟩
    | jit v => exact ⟨rfl, rfl, rfl⟩
    | setid v => exact ⟨rfl, rfl, rfl⟩
    | fire t => exact free_fireTimer t w hop A
    | sethandlers q m => simp [Op.proto?] at hop
    | connect q a => simp [Op.proto?] at hop
    | disconnect q => simp [Op.proto?] at hop
    | publish q t pl qs r => simp [Op.proto?] at hop
    | subscribe q a qs => simp [Op.proto?] at hop
    | unsubscribe q a => simp [Op.proto?] at hop
    | setwin q n => simp [Op.proto?] at hop
    | settimeout q n => simp [Op.proto?] at hop
    | setbw q b f => simp [Op.proto?] at hop
    | recv q d => simp [Op.proto?] at hop
    | lost q r => simp [Op.proto?] at hop
  exact ⟨step_only_of_handler key.1, sameA_step key.2⟩

end Mqtt
