import MqttVerif.Model.Step
/-
  Lemma library for the session-layer proofs: insertion-ordered dictionaries, the flat entry
  list, world accessors under the primitive updates, and the loop combinator.
-/
namespace Mqtt

/-! ### Dict -/
namespace Dict
variable {α : Type}

@[grind =] theorem get?_nil (k : Nat) : get? ([] : Dict α) k = none := rfl

@[grind =] theorem get?_set (d : Dict α) (k k' : Nat) (v : α) :
    get? (set d k v) k' = if k = k' then some v else get? d k' := by
  induction d with
  | nil => simp [set, get?]
  | cons hd tl ih =>
    obtain ⟨a, b⟩ := hd
    simp only [set]
    by_cases h : a = k
    · subst h
      by_cases h2 : a = k' <;> simp [get?, h2]
    · by_cases h2 : k = k'
      · subst h2; simp [get?, h, ih]
      · simp only [h, ↓reduceIte, get?, ih, h2]

@[grind =] theorem get?_erase (d : Dict α) (k k' : Nat) (hn : ∀ v, get? d k = some v → True) :
    k ≠ k' → get? (erase d k) k' = get? d k' := by
  intro hne
  induction d with
  | nil => rfl
  | cons hd tl ih =>
    obtain ⟨a, b⟩ := hd
    simp only [erase]
    by_cases h : a = k
    · subst h; simp [get?, hne]
    · simp only [h, ↓reduceIte, get?]
      by_cases h2 : a = k' <;> simp [h2, ih (fun _ _ => trivial)]

end Dict

/-! ### the entry list -/
namespace Ents

def matches' (e : Ent) (a : Nat) (b : Box) (k : Nat) : Prop := e.addr = a ∧ e.box = b ∧ e.key = k

/-- at most one entry per (address, window, key) -/
def KeyUnique (es : List Ent) : Prop :=
  ∀ e1 ∈ es, ∀ e2 ∈ es, e1.addr = e2.addr → e1.box = e2.box → e1.key = e2.key → e1.box ≠ .queue → e1 = e2

theorem lookup_some {es : List Ent} {a : Nat} {b : Box} {k rid : Nat} (h : lookup es a b k = some rid) :
    (⟨a, b, k, rid⟩ : Ent) ∈ es := by
  induction es with
  | nil => simp [lookup] at h
  | cons e r ih =>
    simp only [lookup] at h
    split at h
    · rename_i hm
      obtain ⟨h1, h2, h3⟩ := hm
      injection h with h
      have : e = ⟨a, b, k, rid⟩ := by cases e; simp_all
      simp [this]
    · exact List.mem_cons_of_mem _ (ih h)

theorem lookup_none {es : List Ent} {a : Nat} {b : Box} {k : Nat} (h : lookup es a b k = none) :
    ∀ e ∈ es, ¬ (e.addr = a ∧ e.box = b ∧ e.key = k) := by
  induction es with
  | nil => simp
  | cons e r ih =>
    simp only [lookup] at h
    split at h
    · simp at h
    · rename_i hm
      intro e' he'
      simp at he'
      rcases he' with rfl | he'
      · exact hm
      · exact ih h e' he'

theorem lookup_of_mem {es : List Ent} (hu : KeyUnique es) {e : Ent} (he : e ∈ es) (hq : e.box ≠ .queue) :
    lookup es e.addr e.box e.key = some e.rid := by
  cases h : lookup es e.addr e.box e.key with
  | none => exact absurd ⟨rfl, rfl, rfl⟩ (lookup_none h e he)
  | some rid =>
    have hm := lookup_some h
    have := hu _ hm _ he rfl rfl rfl hq
    rw [← this]

theorem mem_remove {es : List Ent} {a : Nat} {b : Box} {k : Nat} {e : Ent} (h : e ∈ remove es a b k) : e ∈ es := by
  induction es with
  | nil => simp [remove] at h
  | cons x r ih =>
    simp only [remove] at h
    split at h
    · exact List.mem_cons_of_mem _ h
    · simp at h
      rcases h with rfl | h
      · simp
      · exact List.mem_cons_of_mem _ (ih h)

theorem mem_remove_of_ne {es : List Ent} {a : Nat} {b : Box} {k : Nat} {e : Ent} (h : e ∈ es)
    (hne : ¬ (e.addr = a ∧ e.box = b ∧ e.key = k)) : e ∈ remove es a b k := by
  induction es with
  | nil => simp at h
  | cons x r ih =>
    simp only [remove]
    simp at h
    split
    · rename_i hm
      rcases h with rfl | h
      · exact absurd hm hne
      · exact h
    · rcases h with rfl | h
      · simp
      · exact List.mem_cons_of_mem _ (ih h)

/-- with unique keys, `del container[key]` removes exactly that entry -/
theorem not_mem_remove {es : List Ent} (hu : KeyUnique es) (hnd : es.Nodup) {a : Nat} {b : Box} {k : Nat} (hq : b ≠ .queue)
    {e : Ent} (h : e ∈ remove es a b k) : ¬ (e.addr = a ∧ e.box = b ∧ e.key = k) := by
  induction es with
  | nil => simp [remove] at h
  | cons x r ih =>
    simp only [remove] at h
    have hu' : KeyUnique r := fun e1 h1 e2 h2 => hu e1 (List.mem_cons_of_mem _ h1) e2 (List.mem_cons_of_mem _ h2)
    have hnd' : r.Nodup := (List.nodup_cons.mp hnd).2
    split at h
    · rename_i hm
      intro hc
      have : e = x := hu e (List.mem_cons_of_mem _ h) x (by simp) (by rw [hc.1, hm.1]) (by rw [hc.2.1, hm.2.1]) (by rw [hc.2.2, hm.2.2]) (by rw [hc.2.1]; exact hq)
      subst this
      exact (List.nodup_cons.mp hnd).1 h
    · rename_i hm
      simp at h
      rcases h with rfl | h
      · exact hm
      · exact ih hu' hnd' h

/-- a key that is not present is appended (the only case that occurs: identifiers are fresh) -/
theorem insert_of_lookup_none {es : List Ent} {a : Nat} {b : Box} {k : Nat} (rid : Nat) (h : lookup es a b k = none) :
    insert es a b k rid = es ++ [⟨a, b, k, rid⟩] := by
  induction es with
  | nil => rfl
  | cons x r ih =>
    simp only [lookup] at h
    split at h
    · simp at h
    · rename_i hm
      simp only [insert, hm, ↓reduceIte, List.cons_append, ih h]

theorem mem_items {es : List Ent} {a : Nat} {b : Box} {e : Ent} : e ∈ items es a b ↔ e ∈ es ∧ e.addr = a ∧ e.box = b := by
  induction es with
  | nil => simp [items]
  | cons x r ih =>
    simp only [items]
    split
    · rename_i hm
      simp only [List.mem_cons, ih]
      constructor
      · rintro (rfl | h)
        · exact ⟨Or.inl rfl, hm⟩
        · exact ⟨Or.inr h.1, h.2⟩
      · rintro ⟨rfl | h, h2⟩
        · left; rfl
        · right; exact ⟨h, h2⟩
    · rename_i hm
      simp only [List.mem_cons, ih]
      constructor
      · rintro h; exact ⟨Or.inr h.1, h.2⟩
      · rintro ⟨rfl | h, h2⟩
        · exact absurd h2 hm
        · exact ⟨h, h2⟩

theorem items_nodup {es : List Ent} (h : es.Nodup) (a : Nat) (b : Box) : (items es a b).Nodup := by
  induction es with
  | nil => simp [items]
  | cons x r ih =>
    have hr := (List.nodup_cons.mp h)
    simp only [items]
    split
    · refine List.nodup_cons.mpr ⟨fun hm => hr.1 (mem_items.mp hm).1, ih hr.2⟩
    · exact ih hr.2

theorem mem_dropFirst {es : List Ent} {a : Nat} {b : Box} {e : Ent} (h : e ∈ dropFirst es a b) : e ∈ es := by
  induction es with
  | nil => simp [dropFirst] at h
  | cons x r ih =>
    simp only [dropFirst] at h
    split at h
    · exact List.mem_cons_of_mem _ h
    · simp at h
      rcases h with rfl | h
      · simp
      · exact List.mem_cons_of_mem _ (ih h)

/-- `popleft()` removes exactly the first entry of the container -/
theorem dropFirst_spec {es : List Ent} {a : Nat} {b : Box} {e : Ent} {rest : List Ent} (h : items es a b = e :: rest)
    (hnd : es.Nodup) : (∀ x, x ∈ dropFirst es a b ↔ x ∈ es ∧ x ≠ e) ∧ items (dropFirst es a b) a b = rest ∧ (dropFirst es a b).Nodup := by
  induction es with
  | nil => simp [items] at h
  | cons x r ih =>
    have hr := List.nodup_cons.mp hnd
    simp only [items] at h
    simp only [dropFirst]
    split at h
    · rename_i hm
      injection h with h1 h2
      subst h1
      simp only [hm, and_self, ↓reduceIte]
      refine ⟨fun y => ?_, h2, hr.2⟩
      constructor
      · intro hy; exact ⟨List.mem_cons_of_mem _ hy, fun hc => hr.1 (hc ▸ hy)⟩
      · rintro ⟨hy, hne⟩
        simp at hy
        rcases hy with rfl | hy
        · exact absurd rfl hne
        · exact hy
    · rename_i hm
      simp only [hm, ↓reduceIte]
      obtain ⟨i1, i2, i3⟩ := ih h hr.2
      refine ⟨fun y => ?_, ?_, ?_⟩
      · simp only [List.mem_cons, i1]
        constructor
        · rintro (rfl | ⟨hy, hne⟩)
          · refine ⟨Or.inl rfl, fun hc => ?_⟩
            have : e ∈ items r a b := by rw [h]; simp
            have := (mem_items.mp this)
            rw [← hc] at this
            exact hm this.2
          · exact ⟨Or.inr hy, hne⟩
        · rintro ⟨rfl | hy, hne⟩
          · left; rfl
          · right; exact ⟨hy, hne⟩
      · simp only [items, hm, ↓reduceIte]; exact i2
      · refine List.nodup_cons.mpr ⟨fun hc => hr.1 ((i1 x).mp hc).1, i3⟩

theorem remove_nodup {es : List Ent} (h : es.Nodup) (a : Nat) (b : Box) (k : Nat) : (remove es a b k).Nodup := by
  induction es with
  | nil => simp [remove]
  | cons x r ih =>
    have hr := List.nodup_cons.mp h
    simp only [remove]
    split
    · exact hr.2
    · exact List.nodup_cons.mpr ⟨fun hc => hr.1 (mem_remove hc), ih hr.2⟩

end Ents

end Mqtt
