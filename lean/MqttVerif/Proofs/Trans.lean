import MqttVerif.Proofs.Inv
/-
  Elementary world transformations out of which the handlers are composed, each with the proof that
  it preserves the invariant (under its side conditions).
-/
namespace Mqtt

theorem pending_kind {w : World} {t : Nat} {k k' : TKind} (h1 : Pending w t k) (h2 : Pending w t k') : k = k' := by
  obtain ⟨tm, a, _, c⟩ := h1
  obtain ⟨tm', a', _, c'⟩ := h2
  rw [a] at a'; injection a' with a'; subst a'
  rw [← c, ← c']

theorem keyUnique_of {x : Option Nat} {w : World} (h : WInvX x w) : Ents.KeyUnique w.ents := by
  intro e1 h1 e2 h2 _ hb hk hq
  have k1 := h.keyId e1 h1 hq
  apply h.idUnique e1 h1 e2 h2
  · simp [idOf, hq, (by rw [← hb]; exact hq : e2.box ≠ .queue), hk]
  · simp [idOf, hq, k1.2]

/-- membership after `del window[key]` of an entry that is present -/
theorem mem_remove_iff {x : Option Nat} {w : World} (h : WInvX x w) {e : Ent} (he : e ∈ w.ents) (hq : e.box ≠ .queue) (y : Ent) :
    y ∈ Ents.remove w.ents e.addr e.box e.key ↔ y ∈ w.ents ∧ y ≠ e := by
  have hku := keyUnique_of h
  constructor
  · intro hy
    refine ⟨Ents.mem_remove hy, fun hc => ?_⟩
    subst hc
    exact Ents.not_mem_remove hku h.nodup hq hy ⟨rfl, rfl, rfl⟩
  · rintro ⟨hy, hne⟩
    apply Ents.mem_remove_of_ne hy
    intro hc
    exact hne (hku y hy e he hc.1 hc.2.1 hc.2.2 (by rw [hc.2.1]; exact hq))

/-! ### changes that the invariant does not look at -/

/-- two worlds that agree on everything the invariant mentions -/
structure SameCore (w w' : World) : Prop where
  ents : w'.ents = w.ents
  reqs : ∀ r, (w'.req r).msgId = (w.req r).msgId ∧ (w'.req r).dfd = (w.req r).dfd ∧ (w'.req r).alarm = (w.req r).alarm
  /-- the same timers up to their due times (which the invariant does not mention) -/
  timers : ∀ t, (∀ tm', w'.timers.get? t = some tm' → ∃ tm, w.timers.get? t = some tm ∧ tm'.kind = tm.kind ∧ tm'.status = tm.status) ∧
    (∀ tm, w.timers.get? t = some tm → ∃ tm', w'.timers.get? t = some tm' ∧ tm'.kind = tm.kind ∧ tm'.status = tm.status)
  fired : w'.fired = w.fired
  connReqs : w'.connReqs = w.connReqs
  nextId : w'.nextId ≤ 65535
  nextReq : w.nextReq ≤ w'.nextReq
  nextTimer : w'.nextTimer = w.nextTimer
  nextDfd : w.nextDfd ≤ w'.nextDfd
  nextCR : w'.nextCR = w.nextCR
  nextProto : w'.nextProto = w.nextProto
  profile : w'.profile = w.profile
  protos : ∀ p, (∀ pr', w'.protos.get? p = some pr' → ∃ pr, w.protos.get? p = some pr ∧ pr'.addr = pr.addr ∧ pr'.state = pr.state ∧
      pr'.lost = pr.lost ∧ pr'.pingTimer = pr.pingTimer ∧ pr'.pingAlarm = pr.pingAlarm ∧ pr'.pingKeepalive = pr.pingKeepalive ∧ pr'.connReq = pr.connReq ∧ (Bytes.WF pr.buffer → Bytes.WF pr'.buffer)) ∧
    (∀ pr, w.protos.get? p = some pr → ∃ pr', w'.protos.get? p = some pr')

theorem WInvX.sameCore {x : Option Nat} {w w' : World} (h : WInvX x w) (s : SameCore w w') : WInvX x w' := by
  have hp : ∀ t k, Pending w' t k ↔ Pending w t k := by
    intro t k
    constructor
    · rintro ⟨tm', a, b, c⟩
      obtain ⟨tm, a1, a2, a3⟩ := (s.timers t).1 tm' a
      exact ⟨tm, a1, by rw [← a3]; exact b, by rw [← a2]; exact c⟩
    · rintro ⟨tm, a, b, c⟩
      obtain ⟨tm', a1, a2, a3⟩ := (s.timers t).2 tm a
      exact ⟨tm', a1, by rw [a3]; exact b, by rw [a2]; exact c⟩
  have hid : ∀ e, idOf w' e = idOf w e := by intro e; simp [idOf, (s.reqs e.rid).1]
  have hpr : ∀ p pr', w'.protos.get? p = some pr' → ∃ pr, w.protos.get? p = some pr ∧ pr'.addr = pr.addr ∧ pr'.state = pr.state ∧
      pr'.lost = pr.lost ∧ pr'.pingTimer = pr.pingTimer ∧ pr'.pingAlarm = pr.pingAlarm ∧ pr'.pingKeepalive = pr.pingKeepalive ∧ pr'.connReq = pr.connReq ∧ (Bytes.WF pr.buffer → Bytes.WF pr'.buffer) :=
    fun p => (s.protos p).1
  constructor
  case nodup => rw [s.ents]; exact h.nodup
  case ridFresh => rw [s.ents]; intro e he; exact Nat.lt_of_lt_of_le (h.ridFresh e he) s.nextReq
  case ridUnique => rw [s.ents]; exact h.ridUnique
  case idUnique => rw [s.ents]; intro a ha b hb; rw [hid, hid]; exact h.idUnique a ha b hb
  case keyId => rw [s.ents]; intro e he hq; rw [(s.reqs e.rid).1]; exact h.keyId e he hq
  case queueNoAlarm => rw [s.ents]; intro e he hq; rw [(s.reqs e.rid).2.2]; exact h.queueNoAlarm e he hq
  case idCounter => exact s.nextId
  case timerFresh =>
    intro t tm' ht
    obtain ⟨tm, a, _⟩ := (s.timers t).1 tm' ht
    rw [s.nextTimer]; exact h.timerFresh t tm a
  case firedFresh => rw [s.fired]; intro d hd; exact Nat.lt_of_lt_of_le (h.firedFresh d hd) s.nextDfd
  case crFresh => rw [s.connReqs, s.nextCR]; exact h.crFresh
  case protoFresh =>
    intro p pr' hp'; obtain ⟨pr, a, _⟩ := hpr p pr' hp'; rw [s.nextProto]; exact h.protoFresh p pr a
  case dfdFresh =>
    rw [s.ents, s.fired]; intro e he d hd; rw [(s.reqs e.rid).2.1] at hd
    exact ⟨Nat.lt_of_lt_of_le (h.dfdFresh e he d hd).1 s.nextDfd, (h.dfdFresh e he d hd).2⟩
  case dfdSome => rw [s.ents]; intro e he; rw [(s.reqs e.rid).1, (s.reqs e.rid).2.1]; exact h.dfdSome e he
  case dfdInj =>
    rw [s.ents]; intro a ha b hb d; rw [(s.reqs a.rid).2.1, (s.reqs b.rid).2.1]; exact h.dfdInj a ha b hb d
  case alarm =>
    rw [s.ents]; intro e he t ht; rw [(s.reqs e.rid).2.2] at ht
    obtain ⟨a, p, pr, b, c, d⟩ := h.alarm e he t ht
    obtain ⟨pr', c'⟩ := (s.protos p).2 pr c
    obtain ⟨pr2, c2, d2, _⟩ := hpr p pr' c'
    rw [c] at c2; injection c2 with c2; subst c2
    exact ⟨a, p, pr', (hp _ _).mpr b, c', by rw [d2]; exact d⟩
  case noStale =>
    intro t p rid hpd
    obtain ⟨e, he, a, b⟩ := h.noStale t p rid ((hp _ _).mp hpd)
    exact ⟨e, by rw [s.ents]; exact he, a, by rw [(s.reqs rid).2.2]; exact b⟩
  case connected =>
    intro p pr' hp' hx hl hs
    obtain ⟨pr, a, b, c, d, _⟩ := hpr p pr' hp'
    rw [s.ents]; intro e he hea hq
    rw [(s.reqs e.rid).2.2]
    exact h.connected p pr a hx (by rw [← d]; exact hl) (by rw [← c]; exact hs) e he (by rw [← b]; exact hea) hq
  case oneLive =>
    intro p q pr' qr' hp' hq' hl1 hl2 ha
    obtain ⟨pr, a1, b1, _, d1, _⟩ := hpr p pr' hp'
    obtain ⟨qr, a2, b2, _, d2, _⟩ := hpr q qr' hq'
    exact h.oneLive p q pr qr a1 a2 (by rw [← d1]; exact hl1) (by rw [← d2]; exact hl2) (by rw [← b1, ← b2]; exact ha)
  case lostIdle =>
    intro p pr' hp' hl
    obtain ⟨pr, a, _, c, d, e, f, _⟩ := hpr p pr' hp'
    have := h.lostIdle p pr a (by rw [← d]; exact hl)
    rw [c, e, f]; exact this
  case pingAlarm =>
    intro p pr' t hp' ht
    obtain ⟨pr, a, _, _, _, _, f, _⟩ := hpr p pr' hp'
    exact (hp _ _).mpr (h.pingAlarm p pr t a (by rw [← f]; exact ht))
  case pingTimer =>
    intro p pr' l hp' hl
    obtain ⟨pr, a, _, c, _, e, _, g, _⟩ := hpr p pr' hp'
    obtain ⟨i1, i2, i3, i4⟩ := h.pingTimer p pr l a (by rw [← e]; exact hl)
    exact ⟨i1, by rw [c]; exact i2, by rw [g]; exact i3, fun t ht => (hp _ _).mpr (i4 t ht)⟩
  case pingAlarmOwned =>
    intro t p hpd
    obtain ⟨pr, a, b⟩ := h.pingAlarmOwned t p ((hp _ _).mp hpd)
    obtain ⟨pr', a'⟩ := (s.protos p).2 pr a
    obtain ⟨pr2, a2, _, _, _, _, f, _⟩ := hpr p pr' a'
    rw [a] at a2; injection a2 with a2; subst a2
    exact ⟨pr', a', by rw [f]; exact b⟩
  case pingLoopOwned =>
    intro t p hpd
    obtain ⟨pr, l, a, b, c⟩ := h.pingLoopOwned t p ((hp _ _).mp hpd)
    obtain ⟨pr', a'⟩ := (s.protos p).2 pr a
    obtain ⟨pr2, a2, _, _, _, e, _⟩ := hpr p pr' a'
    rw [a] at a2; injection a2 with a2; subst a2
    exact ⟨pr', l, a', by rw [e]; exact b, c⟩
  case connecting =>
    intro p pr' hp' hs
    obtain ⟨pr, a, _, c, _, _, _, _, g, _⟩ := hpr p pr' hp'
    obtain ⟨cr, cc, i1, i2, ip, i3⟩ := h.connecting p pr a (by rw [← c]; exact hs)
    exact ⟨cr, cc, by rw [g]; exact i1, by rw [s.connReqs]; exact i2, ip, fun d hd => by rw [s.fired]; exact ⟨(i3 d hd).1, (hp _ _).mpr (i3 d hd).2⟩⟩
  case connReq =>
    rw [s.connReqs, s.fired, s.ents]
    intro cr c d hc hd hnf
    obtain ⟨a, cc⟩ := h.connReq cr c d hc hd hnf
    exact ⟨Nat.lt_of_lt_of_le a s.nextDfd, fun e he => by rw [(s.reqs e.rid).2.1]; exact cc e he⟩
  case connReqInj => rw [s.connReqs]; exact h.connReqInj
  case connReqFresh => rw [s.connReqs]; intro cr c d hc hd; exact Nat.lt_of_lt_of_le (h.connReqFresh cr c d hc hd) s.nextDfd
  case connackOwned =>
    rw [s.connReqs, s.fired]
    intro t cr hpd
    obtain ⟨c, d, a1, a2, a3, a4, pr, a5, a6⟩ := h.connackOwned t cr ((hp _ _).mp hpd)
    obtain ⟨pr', b'⟩ := (s.protos c.proto).2 pr a5
    obtain ⟨pr2, b2, _, c2, d2, _, _, _, g2, _⟩ := hpr c.proto pr' b'
    rw [a5] at b2; injection b2 with b2; subst b2
    exact ⟨c, d, a1, a2, a3, a4, pr', b', by rw [d2, c2, g2]; exact a6⟩
  case retryLive =>
    intro t p rid hpd
    obtain ⟨pr, a, b⟩ := h.retryLive t p rid ((hp _ _).mp hpd)
    obtain ⟨pr', a'⟩ := (s.protos p).2 pr a
    obtain ⟨pr2, a2, _, _, d2, _⟩ := hpr p pr' a'
    rw [a] at a2; injection a2 with a2; subst a2
    exact ⟨pr', a', by rw [d2]; exact b⟩
  case connReqLive =>
    rw [s.connReqs, s.fired]
    intro p pr' cr c hp' hcq
    obtain ⟨pr, a, _, _, _, _, _, _, g, _⟩ := hpr p pr' hp'
    exact h.connReqLive p pr cr c a (by rw [← g]; exact hcq)
  case connReqRef =>
    rw [s.nextCR]
    intro p pr' cr hp' hcq
    obtain ⟨pr, a, _, _, _, _, _, _, g, _⟩ := hpr p pr' hp'
    exact h.connReqRef p pr cr a (by rw [← g]; exact hcq)
  case subArmed =>
    rw [s.ents]; intro e he hb ha; rw [(s.reqs e.rid).2.2] at ha
    obtain ⟨p, pr, a, b, c⟩ := h.subArmed e he hb ha
    obtain ⟨pr', b'⟩ := (s.protos p).2 pr b
    obtain ⟨pr2, b2, c2, _⟩ := hpr p pr' b'
    rw [b] at b2; injection b2 with b2; subst b2
    exact ⟨p, pr', a, b', by rw [c2]; exact c⟩
  case profileOk => rw [s.profile]; exact h.profileOk
  case bufOk =>
    intro p pr' hp'
    obtain ⟨pr, a, _, _, _, _, _, _, _, g⟩ := hpr p pr' hp'
    exact g (h.bufOk p pr a)

/-! ### A. an in-flight entry leaves its window: alarm cancelled, entry removed -/

def cancelT (w : World) (t : Nat) : Dict Timer :=
  w.timers.set t { (w.timers.get? t).getD default with status := .cancelled }

theorem pending_cancelT {w : World} {t : Nat} {tm : Timer} (htm : w.timers.get? t = some tm) (t' : Nat) (k : TKind) (w' : World)
    (hw : w'.timers = cancelT w t) : Pending w' t' k ↔ (Pending w t' k ∧ t' ≠ t) := by
  simp only [Pending, hw, cancelT, Dict.get?_set]
  by_cases htt : t = t'
  · subst htt; simp [htm]
  · simp [htt]; intro _ _ _ _; exact fun hc => htt hc.symm

def dropArmed (w : World) (e : Ent) (t : Nat) : World :=
  { w with timers := cancelT w t, ents := Ents.remove w.ents e.addr e.box e.key }

theorem dropArmed_inv {x : Option Nat} {w : World} (h : WInvX x w) {e : Ent} (he : e ∈ w.ents) (hq : e.box ≠ .queue) {t : Nat}
    (ht : (w.req e.rid).alarm = some t) : WInvX x (dropArmed w e t) := by
  have hmem : ∀ y, y ∈ (dropArmed w e t).ents ↔ y ∈ w.ents ∧ y ≠ e := mem_remove_iff h he hq
  obtain ⟨_, p0, _, hpe, _⟩ := h.alarm e he t ht
  have ⟨tm, htm, _, _⟩ := hpe
  have hpending : ∀ t' k, Pending (dropArmed w e t) t' k ↔ (Pending w t' k ∧ t' ≠ t) :=
    fun t' k => pending_cancelT htm t' k _ rfl
  have hne : ∀ {t' k}, Pending w t' k → k ≠ .retry p0 e.rid → t' ≠ t := by
    intro t' k hp hk hc; subst hc; exact hk (pending_kind hp hpe)
  constructor
  case nodup => exact Ents.remove_nodup h.nodup _ _ _
  case ridFresh => intro y hy; exact h.ridFresh y ((hmem y).mp hy).1
  case ridUnique => intro y hy z hz; exact h.ridUnique y ((hmem y).mp hy).1 z ((hmem z).mp hz).1
  case idUnique => intro y hy z hz; exact h.idUnique y ((hmem y).mp hy).1 z ((hmem z).mp hz).1
  case keyId => intro y hy; exact h.keyId y ((hmem y).mp hy).1
  case queueNoAlarm => intro y hy; exact h.queueNoAlarm y ((hmem y).mp hy).1
  case idCounter => exact h.idCounter
  case timerFresh =>
    intro t' tm' ht'
    simp only [dropArmed, cancelT, Dict.get?_set] at ht'
    split at ht'
    · rename_i heq; subst heq; exact h.timerFresh t tm htm
    · exact h.timerFresh t' tm' ht'
  case firedFresh => exact h.firedFresh
  case crFresh => exact h.crFresh
  case protoFresh => exact h.protoFresh
  case dfdFresh => intro y hy; exact h.dfdFresh y ((hmem y).mp hy).1
  case dfdSome => intro y hy; exact h.dfdSome y ((hmem y).mp hy).1
  case dfdInj => intro y hy z hz; exact h.dfdInj y ((hmem y).mp hy).1 z ((hmem z).mp hz).1
  case alarm =>
    intro y hy t' ht'
    obtain ⟨hy1, hy2⟩ := (hmem y).mp hy
    obtain ⟨a1, p, pr, a2, a3⟩ := h.alarm y hy1 t' ht'
    refine ⟨a1, p, pr, (hpending _ _).mpr ⟨a2, hne a2 (fun hc => ?_)⟩, a3⟩
    injection hc with _ hrid
    exact hy2 (h.ridUnique y hy1 e he hrid)
  case noStale =>
    intro t' p rid hp
    obtain ⟨hp1, hp2⟩ := (hpending _ _).mp hp
    obtain ⟨y, hy, hy1, hy2⟩ := h.noStale t' p rid hp1
    refine ⟨y, (hmem y).mpr ⟨hy, fun hc => ?_⟩, hy1, hy2⟩
    subst hc; subst hy1
    rw [ht] at hy2; injection hy2 with hy2; exact hp2 hy2.symm
  case connected => intro p pr hp hx hl hs y hy; exact h.connected p pr hp hx hl hs y ((hmem y).mp hy).1
  case oneLive => exact h.oneLive
  case lostIdle => exact h.lostIdle
  case pingAlarm =>
    intro p pr t' hp ht'
    have := h.pingAlarm p pr t' hp ht'
    exact (hpending _ _).mpr ⟨this, hne this (by simp)⟩
  case pingTimer =>
    intro p pr l hp hl
    obtain ⟨a1, a2, a3, a4⟩ := h.pingTimer p pr l hp hl
    exact ⟨a1, a2, a3, fun t' ht' => (hpending _ _).mpr ⟨a4 t' ht', hne (a4 t' ht') (by simp)⟩⟩
  case pingAlarmOwned => intro t' p hp; exact h.pingAlarmOwned t' p ((hpending _ _).mp hp).1
  case pingLoopOwned => intro t' p hp; exact h.pingLoopOwned t' p ((hpending _ _).mp hp).1
  case connecting =>
    intro p pr hp hs
    obtain ⟨cr, c, i1, i2, ip, i3⟩ := h.connecting p pr hp hs
    exact ⟨cr, c, i1, i2, ip, fun d hd => ⟨(i3 d hd).1, (hpending _ _).mpr ⟨(i3 d hd).2, hne (i3 d hd).2 (by simp)⟩⟩⟩
  case connReq =>
    intro cr c d hc hd hnf
    obtain ⟨a1, a3⟩ := h.connReq cr c d hc hd hnf
    exact ⟨a1, fun y hy => a3 y ((hmem y).mp hy).1⟩
  case connReqInj => exact h.connReqInj
  case connReqFresh => exact h.connReqFresh
  case connackOwned => intro t' cr hp; exact h.connackOwned t' cr ((hpending _ _).mp hp).1
  case retryLive => intro t' p rid hp; exact h.retryLive t' p rid ((hpending _ _).mp hp).1
  case connReqLive => exact h.connReqLive
  case connReqRef => exact h.connReqRef
  case subArmed => intro y hy; exact h.subArmed y ((hmem y).mp hy).1
  case profileOk => exact h.profileOk
  case bufOk => exact h.bufOk

theorem dropArmed_mem {x : Option Nat} {w : World} (h : WInvX x w) {e : Ent} (he : e ∈ w.ents) (hq : e.box ≠ .queue) (t : Nat) (y : Ent) :
    y ∈ (dropArmed w e t).ents ↔ y ∈ w.ents ∧ y ≠ e := mem_remove_iff h he hq y

/-! ### B. a Deferred that no unfinished request and no pending handshake owns is fired -/

def fireD (w : World) (d : Nat) (o : Obs) : World := { w with fired := d :: w.fired, log := w.log ++ [o] }

theorem fireD_inv {x : Option Nat} {w : World} (h : WInvX x w) {d : Nat} (hd : d < w.nextDfd)
    (hfree : ∀ e ∈ w.ents, (w.req e.rid).dfd ≠ some d)
    (hcr : ∀ t cr c, Pending w t (.connack cr) → w.connReqs.get? cr = some c → c.dfd ≠ some d)
    (hcl : ∀ p pr cr c, w.protos.get? p = some pr → pr.connReq = some cr → w.connReqs.get? cr = some c → c.dfd ≠ some d) (o : Obs) :
    WInvX x (fireD w d o) := by
  have hp : ∀ t k, Pending (fireD w d o) t k ↔ Pending w t k := fun _ _ => Iff.rfl
  constructor
  case nodup => exact h.nodup
  case ridFresh => exact h.ridFresh
  case ridUnique => exact h.ridUnique
  case idUnique => exact h.idUnique
  case keyId => exact h.keyId
  case queueNoAlarm => exact h.queueNoAlarm
  case idCounter => exact h.idCounter
  case timerFresh => exact h.timerFresh
  case firedFresh =>
    intro y hy; simp only [fireD, List.mem_cons] at hy
    rcases hy with rfl | hy
    · exact hd
    · exact h.firedFresh y hy
  case crFresh => exact h.crFresh
  case protoFresh => exact h.protoFresh
  case dfdFresh =>
    intro e he d' hd'
    have := h.dfdFresh e he d' hd'
    refine ⟨this.1, fun hc => ?_⟩
    simp only [fireD, List.mem_cons] at hc
    rcases hc with rfl | hc
    · exact hfree e he hd'
    · exact this.2 hc
  case dfdSome => exact h.dfdSome
  case dfdInj => exact h.dfdInj
  case alarm => exact h.alarm
  case noStale => exact h.noStale
  case connected => exact h.connected
  case oneLive => exact h.oneLive
  case lostIdle => exact h.lostIdle
  case pingAlarm => exact h.pingAlarm
  case pingTimer => exact h.pingTimer
  case pingAlarmOwned => exact h.pingAlarmOwned
  case pingLoopOwned => exact h.pingLoopOwned
  case connecting =>
    intro p pr hp' hs
    obtain ⟨cr, c, i1, i2, ip, i3⟩ := h.connecting p pr hp' hs
    refine ⟨cr, c, i1, i2, ip, fun d' hd' => ⟨fun hmem => ?_, (i3 d' hd').2⟩⟩
    simp only [fireD, List.mem_cons] at hmem
    rcases hmem with rfl | hmem
    · exact hcr _ cr c (i3 d' hd').2 i2 hd'
    · exact (i3 d' hd').1 hmem
  case connReq =>
    intro cr c d' hc hd' hnf
    exact h.connReq cr c d' hc hd' (fun hc' => hnf (by simp [fireD, hc']))
  case connReqInj => exact h.connReqInj
  case connReqFresh => exact h.connReqFresh
  case connackOwned =>
    intro t cr hpd
    obtain ⟨c, d', a1, a2, a3, a4⟩ := h.connackOwned t cr hpd
    refine ⟨c, d', a1, a2, fun hc => ?_, a4⟩
    simp only [fireD, List.mem_cons] at hc
    rcases hc with rfl | hc
    · exact hcr t cr c hpd a1 a2
    · exact a3 hc
  case retryLive => exact h.retryLive
  case connReqLive =>
    intro p pr cr c hp' hcq hc
    refine ⟨(h.connReqLive p pr cr c hp' hcq hc).1, fun d' hd' hmem => ?_⟩
    simp only [fireD, List.mem_cons] at hmem
    rcases hmem with rfl | hmem
    · exact hcl p pr cr c hp' hcq hc hd'
    · exact (h.connReqLive p pr cr c hp' hcq hc).2 d' hd' hmem
  case connReqRef => exact h.connReqRef
  case subArmed => exact h.subArmed
  case profileOk => exact h.profileOk
  case bufOk => exact h.bufOk

/-! ### C. an entry without alarm leaves its container -/

theorem dropQuiet_inv {x : Option Nat} {w : World} (h : WInvX x w) {e : Ent} (hal : (w.req e.rid).alarm = none)
    (es' : List Ent) (hnd : es'.Nodup) (hmem : ∀ y, y ∈ es' ↔ y ∈ w.ents ∧ y ≠ e) :
    WInvX x { w with ents := es' } := by
  have hp : ∀ t k, Pending ({ w with ents := es' } : World) t k ↔ Pending w t k := fun _ _ => Iff.rfl
  constructor
  case nodup => exact hnd
  case ridFresh => intro y hy; exact h.ridFresh y ((hmem y).mp hy).1
  case ridUnique => intro y hy z hz; exact h.ridUnique y ((hmem y).mp hy).1 z ((hmem z).mp hz).1
  case idUnique => intro y hy z hz; exact h.idUnique y ((hmem y).mp hy).1 z ((hmem z).mp hz).1
  case keyId => intro y hy; exact h.keyId y ((hmem y).mp hy).1
  case queueNoAlarm => intro y hy; exact h.queueNoAlarm y ((hmem y).mp hy).1
  case idCounter => exact h.idCounter
  case timerFresh => exact h.timerFresh
  case firedFresh => exact h.firedFresh
  case crFresh => exact h.crFresh
  case protoFresh => exact h.protoFresh
  case dfdFresh => intro y hy; exact h.dfdFresh y ((hmem y).mp hy).1
  case dfdSome => intro y hy; exact h.dfdSome y ((hmem y).mp hy).1
  case dfdInj => intro y hy z hz; exact h.dfdInj y ((hmem y).mp hy).1 z ((hmem z).mp hz).1
  case alarm => intro y hy; exact h.alarm y ((hmem y).mp hy).1
  case noStale =>
    intro t p rid hpd
    obtain ⟨y, hy, hy1, hy2⟩ := h.noStale t p rid hpd
    refine ⟨y, (hmem y).mpr ⟨hy, fun hc => ?_⟩, hy1, hy2⟩
    subst hc; subst hy1
    rw [hal] at hy2; cases hy2
  case connected => intro p pr hp' hx hl hs y hy; exact h.connected p pr hp' hx hl hs y ((hmem y).mp hy).1
  case oneLive => exact h.oneLive
  case lostIdle => exact h.lostIdle
  case pingAlarm => exact h.pingAlarm
  case pingTimer => exact h.pingTimer
  case pingAlarmOwned => exact h.pingAlarmOwned
  case pingLoopOwned => exact h.pingLoopOwned
  case connecting => exact h.connecting
  case connReq =>
    intro cr c d hc hd hnf
    obtain ⟨a1, a3⟩ := h.connReq cr c d hc hd hnf
    exact ⟨a1, fun y hy => a3 y ((hmem y).mp hy).1⟩
  case connReqInj => exact h.connReqInj
  case connReqFresh => exact h.connReqFresh
  case connackOwned => exact h.connackOwned
  case retryLive => exact h.retryLive
  case connReqLive => exact h.connReqLive
  case connReqRef => exact h.connReqRef
  case subArmed => intro y hy; exact h.subArmed y ((hmem y).mp hy).1
  case profileOk => exact h.profileOk
  case bufOk => exact h.bufOk

/-! ### world accessors under updates of the request heap -/

theorem req_set (w : World) (r : Nat) (v : Req) (r' : Nat) (w' : World) (hw : w'.reqs = w.reqs.set r v) :
    w'.req r' = if r = r' then v else w.req r' := by
  simp only [World.req, hw, Dict.get?_set]; split <;> simp

/-! ### D. the alarm of an in-flight entry is cancelled and cleared (connection loss) -/

def disarm (w : World) (e : Ent) (t : Nat) : World :=
  { w with timers := cancelT w t, reqs := w.reqs.set e.rid { w.req e.rid with alarm := none } }

theorem disarm_inv {x : Option Nat} {w : World} (h : WInvX x w) {e : Ent} (he : e ∈ w.ents) {t : Nat}
    (ht : (w.req e.rid).alarm = some t)
    (hconn : ∀ p pr, w.protos.get? p = some pr → some p ≠ x → pr.lost = false → pr.state = .connected → pr.addr ≠ e.addr)
    (hsub : (e.box = .sub ∨ e.box = .unsub) → ∃ p pr, x = some p ∧ w.protos.get? p = some pr ∧ pr.addr = e.addr) :
    WInvX x (disarm w e t) := by
  obtain ⟨hq, p0, _, hpe, _⟩ := h.alarm e he t ht
  have ⟨tm, htm, _, _⟩ := hpe
  have hpending : ∀ t' k, Pending (disarm w e t) t' k ↔ (Pending w t' k ∧ t' ≠ t) :=
    fun t' k => pending_cancelT htm t' k _ rfl
  have hne : ∀ {t' k}, Pending w t' k → k ≠ .retry p0 e.rid → t' ≠ t := by
    intro t' k hp hk hc; subst hc; exact hk (pending_kind hp hpe)
  have hreq : ∀ r, (disarm w e t).req r = if e.rid = r then { w.req e.rid with alarm := none } else w.req r :=
    fun r => req_set w e.rid _ r _ rfl
  have hreq' : ∀ y ∈ w.ents, y ≠ e → (disarm w e t).req y.rid = w.req y.rid := by
    intro y hy hne'
    rw [hreq]; split
    · rename_i heq; exact absurd (h.ridUnique e he y hy heq) (Ne.symm hne')
    · rfl
  have hreqe : (disarm w e t).req e.rid = { w.req e.rid with alarm := none } := by rw [hreq]; simp
  have hmsg : ∀ r, ((disarm w e t).req r).msgId = (w.req r).msgId ∧ ((disarm w e t).req r).dfd = (w.req r).dfd := by
    intro r; rw [hreq]; split
    · rename_i heq; subst heq; exact ⟨rfl, rfl⟩
    · exact ⟨rfl, rfl⟩
  have hid : ∀ y, idOf (disarm w e t) y = idOf w y := by intro y; simp [idOf, (hmsg y.rid).1]
  constructor
  case nodup => exact h.nodup
  case ridFresh => exact h.ridFresh
  case ridUnique => exact h.ridUnique
  case idUnique => intro y hy z hz; rw [hid, hid]; exact h.idUnique y hy z hz
  case keyId => intro y hy hq'; rw [(hmsg y.rid).1]; exact h.keyId y hy hq'
  case queueNoAlarm =>
    intro y hy hq'
    by_cases hye : y = e
    · subst hye; rw [hreqe]
    · rw [hreq' y hy hye]; exact h.queueNoAlarm y hy hq'
  case idCounter => exact h.idCounter
  case timerFresh =>
    intro t' tm' ht'
    simp only [disarm, cancelT, Dict.get?_set] at ht'
    split at ht'
    · rename_i heq; subst heq; exact h.timerFresh t tm htm
    · exact h.timerFresh t' tm' ht'
  case firedFresh => exact h.firedFresh
  case crFresh => exact h.crFresh
  case protoFresh => exact h.protoFresh
  case dfdFresh => intro y hy d hd; rw [(hmsg y.rid).2] at hd; exact h.dfdFresh y hy d hd
  case dfdSome => intro y hy; rw [(hmsg y.rid).1, (hmsg y.rid).2]; exact h.dfdSome y hy
  case dfdInj => intro y hy z hz d; rw [(hmsg y.rid).2, (hmsg z.rid).2]; exact h.dfdInj y hy z hz d
  case alarm =>
    intro y hy t' ht'
    by_cases hye : y = e
    · subst hye; rw [hreqe] at ht'; cases ht'
    · rw [hreq' y hy hye] at ht'
      obtain ⟨a1, p, pr, a2, a3⟩ := h.alarm y hy t' ht'
      refine ⟨a1, p, pr, (hpending _ _).mpr ⟨a2, hne a2 (fun hc => ?_)⟩, a3⟩
      injection hc with _ hrid
      exact hye (h.ridUnique y hy e he hrid)
  case noStale =>
    intro t' p rid hp
    obtain ⟨hp1, hp2⟩ := (hpending _ _).mp hp
    obtain ⟨y, hy, hy1, hy2⟩ := h.noStale t' p rid hp1
    by_cases hye : y = e
    · subst hye; subst hy1
      rw [ht] at hy2; injection hy2 with hy2; exact absurd hy2.symm hp2
    · refine ⟨y, hy, hy1, ?_⟩
      subst hy1; rw [hreq' y hy hye]; exact hy2
  case connected =>
    intro p pr hp hx hl hs y hy hya hq'
    by_cases hye : y = e
    · subst hye; exact absurd hya.symm (hconn p pr hp hx hl hs)
    · rw [hreq' y hy hye]; exact h.connected p pr hp hx hl hs y hy hya hq'
  case oneLive => exact h.oneLive
  case lostIdle => exact h.lostIdle
  case pingAlarm =>
    intro p pr t' hp ht'
    have := h.pingAlarm p pr t' hp ht'
    exact (hpending _ _).mpr ⟨this, hne this (by simp)⟩
  case pingTimer =>
    intro p pr l hp hl
    obtain ⟨a1, a2, a3, a4⟩ := h.pingTimer p pr l hp hl
    exact ⟨a1, a2, a3, fun t' ht' => (hpending _ _).mpr ⟨a4 t' ht', hne (a4 t' ht') (by simp)⟩⟩
  case pingAlarmOwned => intro t' p hp; exact h.pingAlarmOwned t' p ((hpending _ _).mp hp).1
  case pingLoopOwned => intro t' p hp; exact h.pingLoopOwned t' p ((hpending _ _).mp hp).1
  case connecting =>
    intro p pr hp hs
    obtain ⟨cr, c, i1, i2, ip, i3⟩ := h.connecting p pr hp hs
    exact ⟨cr, c, i1, i2, ip, fun d hd => ⟨(i3 d hd).1, (hpending _ _).mpr ⟨(i3 d hd).2, hne (i3 d hd).2 (by simp)⟩⟩⟩
  case connReq =>
    intro cr c d hc hd hnf
    obtain ⟨a1, a3⟩ := h.connReq cr c d hc hd hnf
    exact ⟨a1, fun y hy => by rw [(hmsg y.rid).2]; exact a3 y hy⟩
  case connReqInj => exact h.connReqInj
  case connReqFresh => exact h.connReqFresh
  case connackOwned => intro t' cr hp; exact h.connackOwned t' cr ((hpending _ _).mp hp).1
  case retryLive => intro t' p rid hp; exact h.retryLive t' p rid ((hpending _ _).mp hp).1
  case connReqLive => exact h.connReqLive
  case connReqRef => exact h.connReqRef
  case subArmed =>
    intro y hy hb ha
    by_cases hye : y = e
    · subst hye; exact hsub hb
    · rw [hreq' y hy hye] at ha; exact h.subArmed y hy hb ha
  case profileOk => exact h.profileOk
  case bufOk => exact h.bufOk

/-! ### E/F. a retry timer is armed for an in-flight entry (first transmission, resumption, or re-arming on expiry) -/

/-- the timers after `callLater` -/
def addT (ts : Dict Timer) (tid due : Nat) (k : TKind) : Dict Timer := ts.set tid ⟨due, k, .pending⟩

/-- `old`: the entry's previous alarm, which has just fired (status `called`), if any -/
def armed (w : World) (e : Ent) (r' : Req) (p due : Nat) (old : Option Nat) (now' : Nat) (log' : List Obs) : World :=
  { w with
    timers := addT (match old with
                    | none => w.timers
                    | some t => w.timers.set t { (w.timers.get? t).getD default with status := .called })
                   w.nextTimer due (.retry p e.rid),
    nextTimer := w.nextTimer + 1,
    reqs := w.reqs.set e.rid r', now := now', log := log' }

theorem armed_inv {x : Option Nat} {w : World} (h : WInvX x w) {e : Ent} (he : e ∈ w.ents) (hq : e.box ≠ .queue)
    (r' : Req) (p due : Nat) (old : Option Nat) (now' : Nat) (log' : List Obs)
    (hr1 : r'.msgId = (w.req e.rid).msgId) (hr2 : r'.dfd = (w.req e.rid).dfd) (hr3 : r'.alarm = some w.nextTimer)
    (hold : (w.req e.rid).alarm = old) (ppr : Proto) (hpp : w.protos.get? p = some ppr) (haddr : ppr.addr = e.addr)
    (hlive : ppr.lost = false) :
    WInvX x (armed w e r' p due old now' log') := by
  let w' := armed w e r' p due old now' log'
  have hfresh : w.timers.get? w.nextTimer = none := by
    cases hg : w.timers.get? w.nextTimer with
    | none => rfl
    | some tm => exact absurd (h.timerFresh _ _ hg) (Nat.lt_irrefl _)
  -- the old alarm (if any) was this entry's own pending timer
  have hown : ∀ t0, old = some t0 → ∃ p0, Pending w t0 (.retry p0 e.rid) := by
    intro t0 h0; obtain ⟨_, p0, _, a, _⟩ := h.alarm e he t0 (by rw [hold, h0]); exact ⟨p0, a⟩
  have hpending : ∀ t' k, Pending w' t' k ↔ (Pending w t' k ∧ old ≠ some t') ∨ (t' = w.nextTimer ∧ k = .retry p e.rid) := by
    intro t' k
    simp only [w', armed, addT, Pending, Dict.get?_set]
    by_cases h1 : w.nextTimer = t'
    · subst h1
      simp only [↓reduceIte, hfresh]
      constructor
      · rintro ⟨tm, a, b, c⟩; injection a with a; subst a; exact Or.inr ⟨trivial, c.symm⟩
      · rintro (⟨⟨tm, a, _⟩, _⟩ | ⟨_, c⟩)
        · cases a
        · exact ⟨_, rfl, rfl, c.symm⟩
    · simp only [h1, ↓reduceIte]
      cases old with
      | none =>
        constructor
        · intro hh; exact Or.inl ⟨hh, by simp⟩
        · rintro (⟨hh, _⟩ | ⟨hc, _⟩)
          · exact hh
          · exact absurd hc.symm h1
      | some t0 =>
        simp only [Dict.get?_set]
        by_cases h2 : t0 = t'
        · subst h2
          simp only [↓reduceIte]
          constructor
          · rintro ⟨tm, a, b, _⟩; injection a with a; subst a; cases b
          · rintro (⟨_, hc⟩ | ⟨hc, _⟩)
            · exact absurd rfl hc
            · exact absurd hc.symm h1
        · simp only [h2, ↓reduceIte]
          constructor
          · intro hh; exact Or.inl ⟨hh, fun hc => h2 (by injection hc)⟩
          · rintro (⟨hh, _⟩ | ⟨hc, _⟩)
            · exact hh
            · exact absurd hc.symm h1
  have hpold : ∀ {t' k}, Pending w t' k → (∀ p0, k ≠ .retry p0 e.rid) → (Pending w' t' k) := by
    intro t' k hp hk
    refine (hpending _ _).mpr (Or.inl ⟨hp, fun hc => ?_⟩)
    obtain ⟨p0, a⟩ := hown t' hc
    exact hk p0 (pending_kind hp a)
  have hreq : ∀ r, w'.req r = if e.rid = r then r' else w.req r := fun r => req_set w e.rid _ r _ rfl
  have hreq' : ∀ y ∈ w.ents, y ≠ e → w'.req y.rid = w.req y.rid := by
    intro y hy hne'
    rw [hreq]; split
    · rename_i heq; exact absurd (h.ridUnique e he y hy heq) (Ne.symm hne')
    · rfl
  have hreqe : w'.req e.rid = r' := by rw [hreq]; simp
  have hmsg : ∀ r, (w'.req r).msgId = (w.req r).msgId ∧ (w'.req r).dfd = (w.req r).dfd := by
    intro r; rw [hreq]; split
    · rename_i heq; subst heq; exact ⟨hr1, hr2⟩
    · exact ⟨rfl, rfl⟩
  have hid : ∀ y, idOf w' y = idOf w y := by intro y; simp [idOf, (hmsg y.rid).1]
  constructor
  case nodup => exact h.nodup
  case ridFresh => exact h.ridFresh
  case ridUnique => exact h.ridUnique
  case idUnique => intro y hy z hz; rw [hid, hid]; exact h.idUnique y hy z hz
  case keyId => intro y hy hq'; rw [(hmsg y.rid).1]; exact h.keyId y hy hq'
  case queueNoAlarm =>
    intro y hy hq'
    have hye : y ≠ e := fun hc => hq (hc ▸ hq')
    rw [hreq' y hy hye]; exact h.queueNoAlarm y hy hq'
  case idCounter => exact h.idCounter
  case timerFresh =>
    intro t' tm' ht'
    show t' < w.nextTimer + 1
    simp only [w', armed, addT, Dict.get?_set] at ht'
    split at ht'
    · rename_i heq; omega
    · cases old with
      | none => exact Nat.lt_succ_of_lt (h.timerFresh t' tm' ht')
      | some t0 =>
        simp only [Dict.get?_set] at ht'
        split at ht'
        · rename_i heq; subst heq
          obtain ⟨p0, tm0, a, _⟩ := hown t0 rfl
          exact Nat.lt_succ_of_lt (h.timerFresh _ _ a)
        · exact Nat.lt_succ_of_lt (h.timerFresh t' tm' ht')
  case firedFresh => exact h.firedFresh
  case crFresh => exact h.crFresh
  case protoFresh => exact h.protoFresh
  case dfdFresh => intro y hy d hd; rw [(hmsg y.rid).2] at hd; exact h.dfdFresh y hy d hd
  case dfdSome => intro y hy; rw [(hmsg y.rid).1, (hmsg y.rid).2]; exact h.dfdSome y hy
  case dfdInj => intro y hy z hz d; rw [(hmsg y.rid).2, (hmsg z.rid).2]; exact h.dfdInj y hy z hz d
  case alarm =>
    intro y hy t' ht'
    by_cases hye : y = e
    · subst hye
      rw [hreqe, hr3] at ht'; injection ht' with ht'; subst ht'
      exact ⟨hq, p, ppr, (hpending _ _).mpr (Or.inr ⟨rfl, rfl⟩), hpp, haddr⟩
    · rw [hreq' y hy hye] at ht'
      obtain ⟨a1, q, qr, a2, a3⟩ := h.alarm y hy t' ht'
      refine ⟨a1, q, qr, (hpending _ _).mpr (Or.inl ⟨a2, fun hc => ?_⟩), a3⟩
      obtain ⟨p0, a⟩ := hown t' hc
      have := pending_kind a2 a
      injection this with _ hrid
      exact hye (h.ridUnique y hy e he hrid)
  case noStale =>
    intro t' q rid hp
    rcases (hpending _ _).mp hp with ⟨hp1, hp2⟩ | ⟨hp1, hp2⟩
    · obtain ⟨y, hy, hy1, hy2⟩ := h.noStale t' q rid hp1
      by_cases hye : y = e
      · subst hye; subst hy1
        rw [hold] at hy2; exact absurd hy2 hp2
      · refine ⟨y, hy, hy1, ?_⟩
        subst hy1; rw [hreq' y hy hye]; exact hy2
    · injection hp2 with _ hrid
      subst hp1; subst hrid
      exact ⟨e, he, rfl, by rw [hreqe]; exact hr3⟩
  case connected =>
    intro q pr hp hx hl hs y hy hya hq'
    by_cases hye : y = e
    · subst hye; rw [hreqe, hr3]; simp
    · rw [hreq' y hy hye]; exact h.connected q pr hp hx hl hs y hy hya hq'
  case oneLive => exact h.oneLive
  case lostIdle => exact h.lostIdle
  case pingAlarm => intro q pr t' hp ht'; exact hpold (h.pingAlarm q pr t' hp ht') (by simp)
  case pingTimer =>
    intro q pr l hp hl
    obtain ⟨a1, a2, a3, a4⟩ := h.pingTimer q pr l hp hl
    exact ⟨a1, a2, a3, fun t' ht' => hpold (a4 t' ht') (by simp)⟩
  case pingAlarmOwned =>
    intro t' q hp
    rcases (hpending _ _).mp hp with ⟨hp1, _⟩ | ⟨_, hp2⟩
    · exact h.pingAlarmOwned t' q hp1
    · cases hp2
  case pingLoopOwned =>
    intro t' q hp
    rcases (hpending _ _).mp hp with ⟨hp1, _⟩ | ⟨_, hp2⟩
    · exact h.pingLoopOwned t' q hp1
    · cases hp2
  case connecting =>
    intro q pr hp hs
    obtain ⟨cr, c, i1, i2, ip, i3⟩ := h.connecting q pr hp hs
    exact ⟨cr, c, i1, i2, ip, fun d hd => ⟨(i3 d hd).1, hpold (i3 d hd).2 (by simp)⟩⟩
  case connReq =>
    intro cr c d hc hd hnf
    obtain ⟨a1, a3⟩ := h.connReq cr c d hc hd hnf
    exact ⟨a1, fun y hy => by rw [(hmsg y.rid).2]; exact a3 y hy⟩
  case connReqInj => exact h.connReqInj
  case connReqFresh => exact h.connReqFresh
  case connackOwned =>
    intro t' cr hp
    rcases (hpending _ _).mp hp with ⟨hp1, _⟩ | ⟨_, hp2⟩
    · exact h.connackOwned t' cr hp1
    · cases hp2
  case retryLive =>
    intro t' q rid hp
    rcases (hpending _ _).mp hp with ⟨hp1, _⟩ | ⟨_, hp2⟩
    · exact h.retryLive t' q rid hp1
    · injection hp2 with hq' _; subst hq'; exact ⟨ppr, hpp, hlive⟩
  case connReqLive => exact h.connReqLive
  case connReqRef => exact h.connReqRef
  case subArmed =>
    intro y hy hb ha
    by_cases hye : y = e
    · subst hye; rw [hreqe, hr3] at ha; cases ha
    · rw [hreq' y hy hye] at ha; exact h.subArmed y hy hb ha
  case profileOk => exact h.profileOk
  case bufOk => exact h.bufOk

/-! ### G/I. a request object enters a container -/

/-- a new entry in a window, armed at once (SUBSCRIBE/UNSUBSCRIBE registration, PUBREL after PUBREC, a held-back
    PUBLISH moving into the publish window) -/
def addWindow (w : World) (a : Nat) (box : Box) (key rid : Nat) (r : Req) (p due nr' nd' : Nat) (log' : List Obs) : World :=
  { w with reqs := w.reqs.set rid r, ents := w.ents ++ [⟨a, box, key, rid⟩],
           timers := addT w.timers w.nextTimer due (.retry p rid), nextTimer := w.nextTimer + 1,
           nextReq := nr', nextDfd := nd', log := log' }

theorem addWindow_inv {x : Option Nat} {w : World} (h : WInvX x w) (a : Nat) (box : Box) (key rid : Nat) (r : Req)
    (p due nr' nd' : Nat) (log' : List Obs)
    (hnew : ∀ y ∈ w.ents, y.rid ≠ rid) (hlt : rid < nr') (hnr : w.nextReq ≤ nr') (hnd : w.nextDfd ≤ nd')
    (hnostale : ∀ t q, ¬ Pending w t (.retry q rid)) (hbox : box ≠ .queue)
    (hkey : r.msgId = key) (hk0 : key ≠ 0) (hidf : ∀ y ∈ w.ents, idOf w y ≠ key)
    (hal : r.alarm = some w.nextTimer)
    (d : Nat) (hd : r.dfd = some d) (hd1 : d < nd') (hd2 : d ∉ w.fired)
    (hd3 : ∀ y ∈ w.ents, (w.req y.rid).dfd ≠ some d) (hd4 : ∀ cr c, w.connReqs.get? cr = some c → c.dfd ≠ some d)
    (ppr : Proto) (hpp : w.protos.get? p = some ppr) (haddr : ppr.addr = a) (hlive : ppr.lost = false) :
    WInvX x (addWindow w a box key rid r p due nr' nd' log') := by
  let w' := addWindow w a box key rid r p due nr' nd' log'
  let ne : Ent := ⟨a, box, key, rid⟩
  have hfresh : w.timers.get? w.nextTimer = none := by
    cases hg : w.timers.get? w.nextTimer with
    | none => rfl
    | some tm => exact absurd (h.timerFresh _ _ hg) (Nat.lt_irrefl _)
  have hmem : ∀ y, y ∈ w'.ents ↔ y ∈ w.ents ∨ y = ne := by intro y; simp [w', addWindow, ne]
  have hpending : ∀ t' k, Pending w' t' k ↔ Pending w t' k ∨ (t' = w.nextTimer ∧ k = .retry p rid) := by
    intro t' k
    simp only [w', addWindow, addT, Pending, Dict.get?_set]
    by_cases h1 : w.nextTimer = t'
    · subst h1
      simp only [↓reduceIte, hfresh]
      constructor
      · rintro ⟨tm, a, b, c⟩; injection a with a; subst a; exact Or.inr ⟨trivial, c.symm⟩
      · rintro (⟨tm, a, _⟩ | ⟨_, c⟩)
        · cases a
        · exact ⟨_, rfl, rfl, c.symm⟩
    · simp only [h1, ↓reduceIte]
      constructor
      · intro hh; exact Or.inl hh
      · rintro (hh | ⟨hc, _⟩)
        · exact hh
        · exact absurd hc.symm h1
  have hreq : ∀ r0, w'.req r0 = if rid = r0 then r else w.req r0 := fun r0 => req_set w rid _ r0 _ rfl
  have hreqo : ∀ y ∈ w.ents, w'.req y.rid = w.req y.rid := by
    intro y hy; rw [hreq]; split
    · rename_i heq; exact absurd heq.symm (hnew y hy)
    · rfl
  have hreqn : w'.req rid = r := by rw [hreq]; simp
  have hido : ∀ y ∈ w.ents, idOf w' y = idOf w y := by intro y hy; simp only [idOf, hreqo y hy]
  have hidn : idOf w' ne = key := by simp [idOf, ne, hbox]
  constructor
  case nodup =>
    show (w.ents ++ [ne]).Nodup
    rw [List.nodup_append]
    refine ⟨h.nodup, by simp, ?_⟩
    intro y hy z hz
    simp at hz; subst hz
    intro hc; subst hc
    exact hnew _ hy rfl
  case ridFresh =>
    intro y hy
    rcases (hmem y).mp hy with hy | rfl
    · exact Nat.lt_of_lt_of_le (h.ridFresh y hy) hnr
    · exact hlt
  case ridUnique =>
    intro y hy z hz hyz
    rcases (hmem y).mp hy with hy | rfl <;> rcases (hmem z).mp hz with hz | rfl
    · exact h.ridUnique y hy z hz hyz
    · exact absurd hyz (hnew y hy)
    · exact absurd hyz.symm (hnew z hz)
    · rfl
  case idUnique =>
    intro y hy z hz hyz hne0
    rcases (hmem y).mp hy with hy | rfl <;> rcases (hmem z).mp hz with hz | rfl
    · rw [hido y hy, hido z hz] at hyz; rw [hido y hy] at hne0; exact h.idUnique y hy z hz hyz hne0
    · rw [hido y hy, hidn] at hyz; exact absurd hyz (hidf y hy)
    · rw [hido z hz, hidn] at hyz; exact absurd hyz.symm (hidf z hz)
    · rfl
  case keyId =>
    intro y hy hq'
    rcases (hmem y).mp hy with hy | rfl
    · rw [hreqo y hy]; exact h.keyId y hy hq'
    · show (w'.req rid).msgId = key ∧ key ≠ 0
      rw [hreqn]; exact ⟨hkey, hk0⟩
  case queueNoAlarm =>
    intro y hy hq'
    rcases (hmem y).mp hy with hy | rfl
    · rw [hreqo y hy]; exact h.queueNoAlarm y hy hq'
    · exact absurd hq' hbox
  case idCounter => exact h.idCounter
  case timerFresh =>
    intro t' tm' ht'
    show t' < w.nextTimer + 1
    simp only [w', addWindow, addT, Dict.get?_set] at ht'
    split at ht'
    · omega
    · exact Nat.lt_succ_of_lt (h.timerFresh t' tm' ht')
  case firedFresh => intro y hy; exact Nat.lt_of_lt_of_le (h.firedFresh y hy) hnd
  case crFresh => exact h.crFresh
  case protoFresh => exact h.protoFresh
  case dfdFresh =>
    intro y hy d' hd'
    rcases (hmem y).mp hy with hy | rfl
    · rw [hreqo y hy] at hd'
      exact ⟨Nat.lt_of_lt_of_le (h.dfdFresh y hy d' hd').1 hnd, (h.dfdFresh y hy d' hd').2⟩
    · have : (w'.req rid).dfd = some d' := hd'
      rw [hreqn, hd] at this; injection this with this; subst this
      exact ⟨hd1, hd2⟩
  case dfdSome =>
    intro y hy
    rcases (hmem y).mp hy with hy | rfl
    · rw [hreqo y hy]; exact h.dfdSome y hy
    · intro _; show (w'.req rid).dfd ≠ none; rw [hreqn, hd]; simp
  case dfdInj =>
    intro y hy z hz d' h1 h2
    rcases (hmem y).mp hy with hy | rfl <;> rcases (hmem z).mp hz with hz | rfl
    · rw [hreqo y hy] at h1; rw [hreqo z hz] at h2; exact h.dfdInj y hy z hz d' h1 h2
    · rw [hreqo y hy] at h1
      have : (w'.req rid).dfd = some d' := h2
      rw [hreqn, hd] at this; injection this with this; subst this
      exact absurd h1 (hd3 y hy)
    · rw [hreqo z hz] at h2
      have : (w'.req rid).dfd = some d' := h1
      rw [hreqn, hd] at this; injection this with this; subst this
      exact absurd h2 (hd3 z hz)
    · rfl
  case alarm =>
    intro y hy t' ht'
    rcases (hmem y).mp hy with hy | rfl
    · rw [hreqo y hy] at ht'
      obtain ⟨a1, q, qr, a2, a3⟩ := h.alarm y hy t' ht'
      exact ⟨a1, q, qr, (hpending _ _).mpr (Or.inl a2), a3⟩
    · have : (w'.req rid).alarm = some t' := ht'
      rw [hreqn, hal] at this; injection this with this; subst this
      exact ⟨hbox, p, ppr, (hpending _ _).mpr (Or.inr ⟨rfl, rfl⟩), hpp, haddr⟩
  case noStale =>
    intro t' q rid' hp
    rcases (hpending _ _).mp hp with hp1 | ⟨hp1, hp2⟩
    · obtain ⟨y, hy, hy1, hy2⟩ := h.noStale t' q rid' hp1
      refine ⟨y, (hmem y).mpr (Or.inl hy), hy1, ?_⟩
      subst hy1; rw [hreqo y hy]; exact hy2
    · injection hp2 with _ hrid
      subst hp1; subst hrid
      exact ⟨ne, (hmem ne).mpr (Or.inr rfl), rfl, by rw [hreqn]; exact hal⟩
  case connected =>
    intro q pr hp hx hl hs y hy hya hq'
    rcases (hmem y).mp hy with hy | rfl
    · rw [hreqo y hy]; exact h.connected q pr hp hx hl hs y hy hya hq'
    · show (w'.req rid).alarm ≠ none; rw [hreqn, hal]; simp
  case oneLive => exact h.oneLive
  case lostIdle => exact h.lostIdle
  case pingAlarm => intro q pr t' hp ht'; exact (hpending _ _).mpr (Or.inl (h.pingAlarm q pr t' hp ht'))
  case pingTimer =>
    intro q pr l hp hl
    obtain ⟨a1, a2, a3, a4⟩ := h.pingTimer q pr l hp hl
    exact ⟨a1, a2, a3, fun t' ht' => (hpending _ _).mpr (Or.inl (a4 t' ht'))⟩
  case pingAlarmOwned =>
    intro t' q hp
    rcases (hpending _ _).mp hp with hp1 | ⟨_, hp2⟩
    · exact h.pingAlarmOwned t' q hp1
    · cases hp2
  case pingLoopOwned =>
    intro t' q hp
    rcases (hpending _ _).mp hp with hp1 | ⟨_, hp2⟩
    · exact h.pingLoopOwned t' q hp1
    · cases hp2
  case connecting =>
    intro q pr hp hs
    obtain ⟨cr, c, i1, i2, ip, i3⟩ := h.connecting q pr hp hs
    exact ⟨cr, c, i1, i2, ip, fun d hd => ⟨(i3 d hd).1, (hpending _ _).mpr (Or.inl (i3 d hd).2)⟩⟩
  case connReq =>
    intro cr c d' hc hd' hnf
    obtain ⟨a1, a3⟩ := h.connReq cr c d' hc hd' hnf
    refine ⟨Nat.lt_of_lt_of_le a1 hnd, fun y hy => ?_⟩
    rcases (hmem y).mp hy with hy | rfl
    · rw [hreqo y hy]; exact a3 y hy
    · show (w'.req rid).dfd ≠ some d'
      rw [hreqn, hd]; intro hcc; injection hcc with hcc; subst hcc
      exact hd4 cr c hc hd'
  case connReqInj => exact h.connReqInj
  case connReqFresh => intro cr c d' hc hd'; exact Nat.lt_of_lt_of_le (h.connReqFresh cr c d' hc hd') hnd
  case connackOwned =>
    intro t' cr hp
    rcases (hpending _ _).mp hp with hp1 | ⟨_, hp2⟩
    · exact h.connackOwned t' cr hp1
    · cases hp2
  case retryLive =>
    intro t' q rid' hp
    rcases (hpending _ _).mp hp with hp1 | ⟨_, hp2⟩
    · exact h.retryLive t' q rid' hp1
    · injection hp2 with hq' _; subst hq'; exact ⟨ppr, hpp, hlive⟩
  case connReqLive => exact h.connReqLive
  case connReqRef => exact h.connReqRef
  case subArmed =>
    intro y hy hb ha
    rcases (hmem y).mp hy with hy | rfl
    · rw [hreqo y hy] at ha; exact h.subArmed y hy hb ha
    · have : (w'.req rid).alarm = none := ha
      rw [hreqn, hal] at this; cases this
  case profileOk => exact h.profileOk
  case bufOk => exact h.bufOk

/-- an accepted publish() is appended to the queue of held-back messages -/
def addQueue (w : World) (a rid : Nat) (r : Req) (nr' nd' ns' : Nat) : World :=
  { w with reqs := w.reqs.set rid r, ents := w.ents ++ [⟨a, .queue, 0, rid⟩], nextReq := nr', nextDfd := nd', nextSeq := ns' }

theorem addQueue_inv {x : Option Nat} {w : World} (h : WInvX x w) (a rid : Nat) (r : Req) (nr' nd' ns' : Nat)
    (hnew : ∀ y ∈ w.ents, y.rid ≠ rid) (hlt : rid < nr') (hnr : w.nextReq ≤ nr') (hnd : w.nextDfd ≤ nd')
    (hidf : r.msgId ≠ 0 → ∀ y ∈ w.ents, idOf w y ≠ r.msgId)
    (hal : r.alarm = none)
    (hsome : r.msgId ≠ 0 → r.dfd ≠ none)
    (hd : ∀ d, r.dfd = some d → d < nd' ∧ d ∉ w.fired ∧ (∀ y ∈ w.ents, (w.req y.rid).dfd ≠ some d) ∧
      (∀ cr c, w.connReqs.get? cr = some c → c.dfd ≠ some d)) :
    WInvX x (addQueue w a rid r nr' nd' ns') := by
  let w' := addQueue w a rid r nr' nd' ns'
  let ne : Ent := ⟨a, .queue, 0, rid⟩
  have hmem : ∀ y, y ∈ w'.ents ↔ y ∈ w.ents ∨ y = ne := by intro y; simp [w', addQueue, ne]
  have hpending : ∀ t' k, Pending w' t' k ↔ Pending w t' k := fun _ _ => Iff.rfl
  have hreq : ∀ r0, w'.req r0 = if rid = r0 then r else w.req r0 := fun r0 => req_set w rid _ r0 _ rfl
  have hreqo : ∀ y ∈ w.ents, w'.req y.rid = w.req y.rid := by
    intro y hy; rw [hreq]; split
    · rename_i heq; exact absurd heq.symm (hnew y hy)
    · rfl
  have hreqn : w'.req rid = r := by rw [hreq]; simp
  have hido : ∀ y ∈ w.ents, idOf w' y = idOf w y := by intro y hy; simp only [idOf, hreqo y hy]
  have hidn : idOf w' ne = r.msgId := by simp only [idOf, ne, ↓reduceIte]; rw [hreqn]
  constructor
  case nodup =>
    show (w.ents ++ [ne]).Nodup
    rw [List.nodup_append]
    refine ⟨h.nodup, by simp, ?_⟩
    intro y hy z hz
    simp at hz; subst hz
    intro hc; subst hc
    exact hnew _ hy rfl
  case ridFresh =>
    intro y hy
    rcases (hmem y).mp hy with hy | rfl
    · exact Nat.lt_of_lt_of_le (h.ridFresh y hy) hnr
    · exact hlt
  case ridUnique =>
    intro y hy z hz hyz
    rcases (hmem y).mp hy with hy | rfl <;> rcases (hmem z).mp hz with hz | rfl
    · exact h.ridUnique y hy z hz hyz
    · exact absurd hyz (hnew y hy)
    · exact absurd hyz.symm (hnew z hz)
    · rfl
  case idUnique =>
    intro y hy z hz hyz hne0
    rcases (hmem y).mp hy with hy | rfl <;> rcases (hmem z).mp hz with hz | rfl
    · rw [hido y hy, hido z hz] at hyz; rw [hido y hy] at hne0; exact h.idUnique y hy z hz hyz hne0
    · rw [hido y hy, hidn] at hyz; rw [hido y hy] at hne0
      exact absurd hyz (hidf (by rw [← hyz]; exact hne0) y hy)
    · rw [hido z hz, hidn] at hyz; rw [hidn] at hne0
      exact absurd hyz.symm (hidf hne0 z hz)
    · rfl
  case keyId =>
    intro y hy hq'
    rcases (hmem y).mp hy with hy | rfl
    · rw [hreqo y hy]; exact h.keyId y hy hq'
    · exact absurd rfl hq'
  case queueNoAlarm =>
    intro y hy hq'
    rcases (hmem y).mp hy with hy | rfl
    · rw [hreqo y hy]; exact h.queueNoAlarm y hy hq'
    · show (w'.req rid).alarm = none; rw [hreqn]; exact hal
  case idCounter => exact h.idCounter
  case timerFresh => exact h.timerFresh
  case firedFresh => intro y hy; exact Nat.lt_of_lt_of_le (h.firedFresh y hy) hnd
  case crFresh => exact h.crFresh
  case protoFresh => exact h.protoFresh
  case dfdFresh =>
    intro y hy d' hd'
    rcases (hmem y).mp hy with hy | rfl
    · rw [hreqo y hy] at hd'
      exact ⟨Nat.lt_of_lt_of_le (h.dfdFresh y hy d' hd').1 hnd, (h.dfdFresh y hy d' hd').2⟩
    · have : (w'.req rid).dfd = some d' := hd'
      rw [hreqn] at this
      exact ⟨(hd d' this).1, (hd d' this).2.1⟩
  case dfdSome =>
    intro y hy
    rcases (hmem y).mp hy with hy | rfl
    · rw [hreqo y hy]; exact h.dfdSome y hy
    · show (w'.req rid).msgId ≠ 0 → (w'.req rid).dfd ≠ none; rw [hreqn]; exact hsome
  case dfdInj =>
    intro y hy z hz d' h1 h2
    rcases (hmem y).mp hy with hy | rfl <;> rcases (hmem z).mp hz with hz | rfl
    · rw [hreqo y hy] at h1; rw [hreqo z hz] at h2; exact h.dfdInj y hy z hz d' h1 h2
    · rw [hreqo y hy] at h1
      have : (w'.req rid).dfd = some d' := h2
      rw [hreqn] at this
      exact absurd h1 ((hd d' this).2.2.1 y hy)
    · rw [hreqo z hz] at h2
      have : (w'.req rid).dfd = some d' := h1
      rw [hreqn] at this
      exact absurd h2 ((hd d' this).2.2.1 z hz)
    · rfl
  case alarm =>
    intro y hy t' ht'
    rcases (hmem y).mp hy with hy | rfl
    · rw [hreqo y hy] at ht'; exact h.alarm y hy t' ht'
    · have : (w'.req rid).alarm = some t' := ht'
      rw [hreqn, hal] at this; cases this
  case noStale =>
    intro t' q rid' hp
    obtain ⟨y, hy, hy1, hy2⟩ := h.noStale t' q rid' hp
    refine ⟨y, (hmem y).mpr (Or.inl hy), hy1, ?_⟩
    subst hy1; rw [hreqo y hy]; exact hy2
  case connected =>
    intro q pr hp hx hl hs y hy hya hq'
    rcases (hmem y).mp hy with hy | rfl
    · rw [hreqo y hy]; exact h.connected q pr hp hx hl hs y hy hya hq'
    · exact absurd rfl hq'
  case oneLive => exact h.oneLive
  case lostIdle => exact h.lostIdle
  case pingAlarm => exact h.pingAlarm
  case pingTimer => exact h.pingTimer
  case pingAlarmOwned => exact h.pingAlarmOwned
  case pingLoopOwned => exact h.pingLoopOwned
  case connecting => exact h.connecting
  case connReq =>
    intro cr c d' hc hd' hnf
    obtain ⟨a1, a3⟩ := h.connReq cr c d' hc hd' hnf
    refine ⟨Nat.lt_of_lt_of_le a1 hnd, fun y hy => ?_⟩
    rcases (hmem y).mp hy with hy | rfl
    · rw [hreqo y hy]; exact a3 y hy
    · show (w'.req rid).dfd ≠ some d'
      rw [hreqn]; intro hcc
      exact (hd d' hcc).2.2.2 cr c hc hd'
  case connReqInj => exact h.connReqInj
  case connReqFresh => intro cr c d' hc hd'; exact Nat.lt_of_lt_of_le (h.connReqFresh cr c d' hc hd') hnd
  case connackOwned => exact h.connackOwned
  case retryLive => exact h.retryLive
  case connReqLive => exact h.connReqLive
  case connReqRef => exact h.connReqRef
  case subArmed =>
    intro y hy hb ha
    rcases (hmem y).mp hy with hy | rfl
    · rw [hreqo y hy] at ha; exact h.subArmed y hy hb ha
    · rcases hb with hb | hb <;> cases hb
  case profileOk => exact h.profileOk
  case bufOk => exact h.bufOk

end Mqtt
