import MqttVerif.Proofs.Keepalive
import MqttVerif.Props.ConfigOk
/-
  C15, the deadline: `KDInv` -- a protocol that is not connected has no PINGRESP deadline; the deadline a protocol has exists on the timer
  table and is due at most `keepalive` seconds from now (it was armed `keepalive` seconds ahead when a PINGREQ went out with none pending;
  the clock only moves forward; timers are never re-programmed; the keepalive value changes only when a CONNACK is accepted, and then the
  protocol was connecting and had no deadline).  Structural, like `KAInv`: every operation preserves it, without `WInv` or `Env`.
-/
namespace Mqtt

theorem table_row (i : Nat) : Config.dispatchTable.getD i [] = Spec.dispatchTable.getD i [] := by rw [ConfigOk.dispatch_ok]

/-- which state the dispatch table requires for `connect` (0), `ping` (5) and CONNACK (6) -- for every value of `profile`, also outside 1..3 -/
theorem allowed_needs_state (w : World) (p : Nat) :
    (allowed w p 0 = true → (w.proto p).state = .idle) ∧ (allowed w p 5 = true → (w.proto p).state = .connected) ∧
    (allowed w p 6 = true → (w.proto p).state = .connecting) := by
  unfold allowed
  rw [table_row]
  have hrow : w.profile - 1 = 0 ∨ w.profile - 1 = 1 ∨ w.profile - 1 = 2 ∨ 3 ≤ w.profile - 1 := by omega
  rcases hrow with h | h | h | h
  · rw [h]; cases (w.proto p).state <;> decide
  · rw [h]; cases (w.proto p).state <;> decide
  · rw [h]; cases (w.proto p).state <;> decide
  · have : Spec.dispatchTable.getD (w.profile - 1) [] = [] := by
      unfold Spec.dispatchTable
      simp only [List.getD_eq_getElem?_getD, List.map_cons, List.map_nil]
      have : ∀ (l : List (List (List Bool))), l.length = 3 → l[w.profile - 1]?.getD [] = [] := by
        intro l hl; rw [List.getElem?_eq_none (by omega)]; rfl
      exact this _ rfl
    rw [this]; simp

structure KDInv (w : World) : Prop where
  tf : TF w
  alarmExists : ∀ p pr t, w.protos.get? p = some pr → pr.pingAlarm = some t → ∃ tm, w.timers.get? t = some tm
  alarmDue : ∀ p pr t tm k, w.protos.get? p = some pr → pr.pingAlarm = some t → pr.pingKeepalive = some k → w.timers.get? t = some tm →
    tm.due ≤ w.now + ticks k
  idleNoAlarm : ∀ p pr, w.protos.get? p = some pr → pr.state ≠ .connected → pr.pingAlarm = none

def KDS (s : Step) : Prop := ∀ w, KDInv w → KDInv (s w).1

theorem kds_ok : KDS Step.ok := fun _ h => h
theorem kds_raise (e : Err) : KDS (Step.raise e) := fun _ h => h
theorem kds_seq {a b : Step} (ha : KDS a) (hb : KDS b) : KDS (a ;; b) := by
  intro w h
  have h1 := ha w h
  simp only [Step.seq]
  rcases hw : a w with ⟨w1, _ | e⟩
  · rw [hw] at h1; exact hb w1 h1
  · rw [hw] at h1; exact h1
theorem kds_read {f : World → Step} (hf : ∀ w, KDInv w → KDS (f w)) : KDS (Step.read f) := fun w h => hf w h w h

theorem kds_world {w w' : World} (h : KDInv w) (h1 : w'.protos = w.protos) (hk : TKeep w w') (h4 : w.now ≤ w'.now) : KDInv w' := by
  refine ⟨hk.tf, fun p pr t hp ha => ?_, fun p pr t tm k hp ha hkk ht => ?_, fun p pr hp hs => ?_⟩
  · rw [h1] at hp
    obtain ⟨tm0, ht0⟩ := h.alarmExists p pr t hp ha
    obtain ⟨tm', ht', _, _⟩ := hk.keep t tm0 ht0
    exact ⟨tm', ht'⟩
  · rw [h1] at hp
    obtain ⟨tm0, ht0⟩ := h.alarmExists p pr t hp ha
    obtain ⟨tm', ht', hd, _⟩ := hk.keep t tm0 ht0
    rw [ht] at ht'; injection ht' with ht'; subst ht'
    have := h.alarmDue p pr t tm0 k hp ha hkk ht0
    omega
  · rw [h1] at hp; exact h.idleNoAlarm p pr hp hs

theorem kds_mod {f : World → World} (h1 : ∀ w, (f w).protos = w.protos) (h2 : ∀ w, (f w).timers = w.timers) (h3 : ∀ w, (f w).nextTimer = w.nextTimer)
    (h4 : ∀ w, (f w).now = w.now) : KDS (Step.mod f) := fun w h =>
  kds_world (w' := f w) h (h1 w) (tkeep_same h.tf (h2 w) (h3 w)) (by rw [h4 w])
theorem kds_of_ts {s : Step} (hts : TS s) (hp : ∀ w, (s w).1.protos = w.protos) (hn : ∀ w, (s w).1.now = w.now) : KDS s := fun w h =>
  kds_world h (hp w) (hts w h.tf) (by rw [hn w])

/-- what a write to the protocol object `q` may do, seen from the old object `pr0`: leave the three fields alone; clear the deadline;
    move to CONNECTED keeping the rest; or anything to state and keepalive provided there was no deadline -/
def AlarmOk (pr pr' : Proto) : Prop :=
  (pr'.pingAlarm = pr.pingAlarm ∧ pr'.pingKeepalive = pr.pingKeepalive ∧ (pr'.state = pr.state ∨ pr'.state = .connected)) ∨
  pr'.pingAlarm = none

theorem kds_setProto (q : Nat) (g : Proto → Proto) (hg : ∀ pr, AlarmOk pr (g pr)) : KDS (setProto q g) := by
  intro w h
  have hdef : ∀ p, w.protos.get? p = none → (w.proto p).pingAlarm = none := by
    intro p hp; simp [World.proto, hp]; rfl
  have key : ∀ p pr, (setProto q g w).1.protos.get? p = some pr →
      pr.pingAlarm = none ∨ ∃ pr0, w.protos.get? p = some pr0 ∧ pr.pingAlarm = pr0.pingAlarm ∧ pr.pingKeepalive = pr0.pingKeepalive ∧
        (pr.state = pr0.state ∨ pr.state = .connected) := by
    intro p pr hp
    rcases protos_setProto w q g p pr hp with ⟨_, h0⟩ | ⟨he, hpr⟩
    · exact Or.inr ⟨pr, h0, rfl, rfl, Or.inl rfl⟩
    · subst he; subst hpr
      rcases hg (w.proto p) with ⟨e1, e2, e3⟩ | e1
      · by_cases hex : ∃ pr0, w.protos.get? p = some pr0
        · obtain ⟨pr0, h0⟩ := hex
          have hpq : w.proto p = pr0 := by simp [World.proto, h0]
          rw [hpq] at e1 e2 e3 ⊢
          exact Or.inr ⟨pr0, h0, e1, e2, e3⟩
        · have hn : w.protos.get? p = none := by
            cases hq' : w.protos.get? p with
            | none => rfl
            | some y => exact absurd ⟨y, hq'⟩ hex
          exact Or.inl (by rw [e1]; exact hdef p hn)
      · exact Or.inl e1
  refine ⟨h.tf, fun p pr t hp ha => ?_, fun p pr t tm k hp ha hkk ht => ?_, fun p pr hp hs => ?_⟩
  · rcases key p pr hp with hn | ⟨pr0, h0, e1, _, _⟩
    · rw [hn] at ha; cases ha
    · exact h.alarmExists p pr0 t h0 (e1 ▸ ha)
  · rcases key p pr hp with hn | ⟨pr0, h0, e1, e2, _⟩
    · rw [hn] at ha; cases ha
    · exact h.alarmDue p pr0 t tm k h0 (e1 ▸ ha) (e2 ▸ hkk) ht
  · rcases key p pr hp with hn | ⟨pr0, h0, e1, _, e3⟩
    · exact hn
    · rcases e3 with e3 | e3
      · rw [e1]; exact h.idleNoAlarm p pr0 h0 (e3 ▸ hs)
      · exact absurd e3 hs

/-- a write to `q` that keeps the deadline field, in a world where `q` has no deadline: whatever it does to state and keepalive is fine -/
theorem kds_setProto_at (q : Nat) (g : Proto → Proto) (hg : ∀ pr, (g pr).pingAlarm = pr.pingAlarm) (w : World) (h : KDInv w)
    (hnone : (w.proto q).pingAlarm = none) : KDInv (setProto q g w).1 := by
  refine ⟨h.tf, fun p pr t hp ha => ?_, fun p pr t tm k hp ha hkk ht => ?_, fun p pr hp hs => ?_⟩
  all_goals (rcases protos_setProto w q g p pr hp with ⟨_, h0⟩ | ⟨he, hpr⟩)
  · exact h.alarmExists p pr t h0 ha
  · subst hpr; rw [hg, hnone] at ha; cases ha
  · exact h.alarmDue p pr t tm k h0 ha hkk ht
  · subst hpr; rw [hg, hnone] at ha; cases ha
  · exact h.idleNoAlarm p pr h0 hs
  · subst hpr; rw [hg]; exact hnone


theorem kds_emit (o : Obs) : KDS (emit o) := kds_mod (fun _ => rfl) (fun _ => rfl) (fun _ => rfl) (fun _ => rfl)
theorem kds_write (p : Nat) (b : Bytes) : KDS (write p b) := kds_emit _
theorem kds_abort (p : Nat) : KDS (abort p) := kds_emit _
theorem kds_setEnts (f : List Ent → List Ent) : KDS (setEnts f) := kds_mod (fun _ => rfl) (fun _ => rfl) (fun _ => rfl) (fun _ => rfl)
theorem kds_setReq (r : Nat) (f : Req → Req) : KDS (setReq r f) := kds_mod (fun _ => rfl) (fun _ => rfl) (fun _ => rfl) (fun _ => rfl)
theorem kds_callLater (d : Rat) (k : TKind) {c : Nat → Step} (hc : ∀ t, KDS (c t)) : KDS (callLater d k c) := by
  refine kds_read fun w0 _ => kds_seq (fun w h => ?_) (hc _)
  exact kds_world (w' := (w.callLater d k).1) h rfl (tkeep_callLater w h.tf d k) (Nat.le_refl _)
theorem kds_newDfd {c : Nat → Step} (hc : ∀ t, KDS (c t)) : KDS (newDfd c) :=
  kds_read fun _ _ => kds_seq (kds_mod (fun _ => rfl) (fun _ => rfl) (fun _ => rfl) (fun _ => rfl)) (hc _)
theorem kds_makeId {c : Nat → Step} (hc : ∀ t, KDS (c t)) : KDS (makeId c) :=
  kds_read fun _ _ => kds_seq (kds_mod (fun _ => rfl) (fun _ => rfl) (fun _ => rfl) (fun _ => rfl)) (hc _)
theorem kds_cancelTimer (t : Nat) : KDS (cancelTimer t) :=
  kds_of_ts (ts_cancelTimer t) (fun w => (cancelTimer_frame t w).1) (fun w => (cancelTimer_frame t w).2)
theorem kds_cancelAlarm (a : Option Nat) : KDS (cancelAlarm a) := by
  cases a with
  | none => exact kds_raise _
  | some t => exact kds_cancelTimer t
theorem kds_fireDfd (d : Nat) (o : Outcome) : KDS (fireDfd d o) := by
  refine kds_read fun w _ => ?_
  split
  · exact kds_raise _
  · exact kds_seq (kds_mod (fun _ => rfl) (fun _ => rfl) (fun _ => rfl) (fun _ => rfl)) (kds_emit _)
theorem kds_fireReqDfd (d : Option Nat) (o : Outcome) : KDS (fireReqDfd d o) := by
  cases d with
  | none => exact kds_raise _
  | some d => exact kds_fireDfd d o
theorem kds_forEach {α : Type} (l : List α) {f : α → Step} (hf : ∀ a, KDS (f a)) : KDS (forEach l f) := by
  induction l with
  | nil => exact kds_ok
  | cons a r ih => exact kds_seq (hf a) ih
theorem kds_retryPublish (p rid : Nat) (dup : Bool) : KDS (retryPublish p rid dup) :=
  kds_of_ts (ts_retryPublish p rid dup) (fun w => retryPublishW_protos p rid dup w) (fun w => retryPublishW_now p rid dup w)
theorem kds_retryRelease (p rid : Nat) (dup : Bool) : KDS (retryRelease p rid dup) :=
  kds_of_ts (ts_retryRelease p rid dup) (fun w => retryReleaseW_protos p rid dup w) (fun w => retryReleaseW_now p rid dup w)
theorem kds_retrySubUnsub (p rid : Nat) (dup s : Bool) : KDS (retrySubUnsub p rid dup s) :=
  kds_of_ts (ts_retrySubUnsub p rid dup s) (fun w => retrySubUnsubW_protos p rid dup s w) (fun w => retrySubUnsubW_now p rid dup s w)
theorem kds_refill (p : Nat) : KDS (refill p) :=
  kds_of_ts (ts_refill p) (fun w => refillW_protos p false _ w) (fun w => refillW_now p false _ w)
theorem kds_syncSession (p : Nat) : KDS (syncSession p) :=
  kds_of_ts (ts_syncSession p) (fun w => by show (syncW p w).protos = _; simp only [syncW]; rw [foldPub_protos, foldRel_protos])
    (fun w => by show (syncW p w).now = _; simp only [syncW]; rw [foldPub_now, foldRel_now])

macro "kds_step" : tactic => `(tactic| first
  | with_reducible exact kds_ok | with_reducible exact kds_raise _ | with_reducible exact kds_emit _
  | with_reducible exact kds_write _ _ | with_reducible exact kds_abort _ | with_reducible exact kds_setEnts _
  | with_reducible exact kds_setReq _ _
  | ((with_reducible apply kds_setProto); (intro pr; exact Or.inl ⟨rfl, rfl, Or.inl rfl⟩))
  | with_reducible exact kds_cancelTimer _ | with_reducible exact kds_cancelAlarm _
  | with_reducible exact kds_fireDfd _ _ | with_reducible exact kds_fireReqDfd _ _
  | with_reducible exact kds_refill _ | with_reducible exact kds_syncSession _
  | with_reducible exact kds_retryPublish _ _ _ | with_reducible exact kds_retryRelease _ _ _
  | with_reducible exact kds_retrySubUnsub _ _ _ _
  | ((with_reducible refine kds_mod (fun w => ?h1) (fun w => ?h2) (fun w => ?h3) (fun w => ?h4)); (case h1 => rfl); (case h2 => rfl); (case h3 => rfl); (case h4 => rfl))
  | with_reducible apply kds_seq | ((with_reducible apply kds_read); intro w hw) | ((with_reducible apply kds_callLater); intro t)
  | ((with_reducible apply kds_newDfd); intro t) | ((with_reducible apply kds_makeId); intro t)
  | ((with_reducible apply kds_forEach); intro e)
  | split
  | dsimp only)
macro "kdss" : tactic => `(tactic| repeat kds_step)

/-! steps that write no protocol object at all -/
def PS (s : Step) : Prop := ∀ w, (s w).1.protos = w.protos
theorem ps_ok : PS Step.ok := fun _ => rfl
theorem ps_raise (e : Err) : PS (Step.raise e) := fun _ => rfl
theorem ps_seq {a b : Step} (ha : PS a) (hb : PS b) : PS (a ;; b) := by
  intro w
  simp only [Step.seq]
  rcases hw : a w with ⟨w1, _ | e⟩
  · have := ha w; rw [hw] at this
    simp only; rw [hb w1]; exact this
  · have := ha w; rw [hw] at this; exact this
theorem ps_read {f : World → Step} (hf : ∀ w, PS (f w)) : PS (Step.read f) := fun w => hf w w
theorem ps_mod {f : World → World} (hf : ∀ w, (f w).protos = w.protos) : PS (Step.mod f) := fun w => hf w
theorem ps_emit (o : Obs) : PS (emit o) := ps_mod fun _ => rfl
theorem ps_setEnts (f : List Ent → List Ent) : PS (setEnts f) := ps_mod fun _ => rfl
theorem ps_setReq (r : Nat) (f : Req → Req) : PS (setReq r f) := ps_mod fun _ => rfl
theorem ps_cancelTimer (t : Nat) : PS (cancelTimer t) := fun w => (cancelTimer_frame t w).1
theorem ps_cancelAlarm (a : Option Nat) : PS (cancelAlarm a) := by
  cases a with
  | none => exact ps_raise _
  | some t => exact ps_cancelTimer t
theorem ps_fireDfd (d : Nat) (o : Outcome) : PS (fireDfd d o) := by
  apply ps_read; intro w
  split
  · exact ps_raise _
  · exact ps_seq (ps_mod fun _ => rfl) (ps_emit _)
theorem ps_fireReqDfd (d : Option Nat) (o : Outcome) : PS (fireReqDfd d o) := by
  cases d with
  | none => exact ps_raise _
  | some d => exact ps_fireDfd d o
theorem ps_forEach {α : Type} (l : List α) {f : α → Step} (hf : ∀ a, PS (f a)) : PS (forEach l f) := by
  induction l with
  | nil => exact ps_ok
  | cons a r ih => exact ps_seq (hf a) ih
theorem ps_refill (p : Nat) : PS (refill p) := ps_mod fun w => refillW_protos p false _ w
theorem ps_syncSession (p : Nat) : PS (syncSession p) := ps_mod fun w => by simp only [syncW]; rw [foldPub_protos, foldRel_protos]
macro "ps_step" : tactic => `(tactic| first
  | with_reducible exact ps_ok | with_reducible exact ps_raise _ | with_reducible exact ps_emit _ | with_reducible exact ps_setEnts _
  | with_reducible exact ps_setReq _ _ | with_reducible exact ps_cancelTimer _ | with_reducible exact ps_cancelAlarm _
  | with_reducible exact ps_fireDfd _ _ | with_reducible exact ps_fireReqDfd _ _ | with_reducible exact ps_refill _
  | with_reducible exact ps_syncSession _
  | with_reducible apply ps_seq | ((with_reducible apply ps_read); intro w) | ((with_reducible apply ps_forEach); intro e)
  | split | dsimp only)
macro "pss" : tactic => `(tactic| repeat ps_step)
theorem ps_purgeSession (p : Nat) (r : Err) : PS (purgeSession p r) := by unfold purgeSession purgeWindow; pss
theorem ps_mqttConnectionMade (p : Nat) : PS (mqttConnectionMade p) := by
  unfold mqttConnectionMade
  apply ps_read; intro w
  refine ps_seq ?_ (ps_seq (ps_refill _) ?_)
  · split
    · exact ps_purgeSession _ _
    · exact ps_syncSession _
  · pss
theorem ps_drainQueue (p : Nat) (r : Err) (fuel : Nat) : PS (drainQueue p r fuel) := by
  induction fuel with
  | zero => exact ps_ok
  | succ f ih =>
    unfold drainQueue
    apply ps_read; intro w
    split
    · exact ps_ok
    · apply ps_seq (ps_setEnts _)
      apply ps_seq
      · split
        · exact ps_fireReqDfd _ _
        · exact ps_ok
      · exact ih
theorem ps_cancelWindowAlarms (l : List Ent) : PS (cancelWindowAlarms l) := by unfold cancelWindowAlarms; pss
theorem ps_failWindow (p : Nat) (s : Bool) (r : Err) : PS (failWindow p s r) := by unfold failWindow; pss
theorem ps_doConnectionLost (p : Nat) (r : Err) : PS (doConnectionLost p r) := by
  unfold doConnectionLost
  apply ps_read; intro w
  refine ps_seq (ps_cancelWindowAlarms _) (ps_seq (ps_cancelWindowAlarms _) (ps_seq (ps_cancelWindowAlarms _) (ps_seq (ps_cancelWindowAlarms _)
    (ps_seq (ps_failWindow _ _ _) (ps_seq (ps_failWindow _ _ _) ?_)))))
  apply ps_read; intro w'
  split
  · exact ps_seq (ps_purgeSession _ _) (ps_read fun _ => ps_drainQueue _ _ _)
  · exact ps_ok


/-! ### the handlers that arm the deadline or move the state -/

def KDAt (s : Step) (w : World) : Prop := KDInv w → KDInv (s w).1

theorem kdat_seq {a b : Step} {w : World} (ha : KDAt a w) (hb : ∀ w1, a w = (w1, none) → KDAt b w1) : KDAt (a ;; b) w := by
  intro h
  have h1 := ha h
  simp only [Step.seq]
  rcases hw : a w with ⟨w1, _ | e⟩
  · rw [hw] at h1; exact hb w1 hw h1
  · rw [hw] at h1; exact h1

theorem proto_setProto_self (w : World) (p : Nat) (g : Proto → Proto) : (setProto p g w).1.proto p = g (w.proto p) := by
  simp [setProto, Step.mod, World.proto, Dict.get?_set]
theorem proto_setProto_other (w : World) (q p : Nat) (g : Proto → Proto) (h : q ≠ p) : (setProto q g w).1.proto p = w.proto p := by
  simp [setProto, Step.mod, World.proto, Dict.get?_set, h]

/-- `ping()`: the PINGREQ goes out; if no deadline is pending one is armed `keepalive` seconds ahead -- on a CONNECTED protocol, since no
    other state has the method -/
theorem kds_ping (p : Nat) : KDS (ping p) := by
  intro w h
  unfold ping
  show KDInv ((if allowed w p 5 then doPingRequest p else Step.raise .attribute) w).1
  by_cases ha : allowed w p 5 = true
  · rw [if_pos ha]
    have hs : (w.proto p).state = .connected := (allowed_needs_state w p).2.1 ha
    unfold doPingRequest
    have h1 : KDInv (w.emit (.write p encodePINGREQ)) := kds_emit _ w h
    show KDInv ((Step.read fun w =>
      if (w.proto p).pingAlarm = none then
        match (w.proto p).pingKeepalive with
        | none => Step.raise .attribute
        | some k => callLater k (.pingAlarm p) fun tid => setProto p (fun pr => { pr with pingAlarm := some tid })
      else Step.ok) (w.emit (.write p encodePINGREQ))).1
    generalize hw1 : w.emit (.write p encodePINGREQ) = w1 at h1
    have hp1 : w1.protos = w.protos := by rw [← hw1]; rfl
    have hpr1 : w1.proto p = w.proto p := by rw [← hw1]; rfl
    show KDInv ((if (w1.proto p).pingAlarm = none then
        match (w1.proto p).pingKeepalive with
        | none => Step.raise .attribute
        | some k => callLater k (.pingAlarm p) fun tid => setProto p (fun pr => { pr with pingAlarm := some tid })
      else Step.ok) w1).1
    by_cases hal : (w1.proto p).pingAlarm = none
    · rw [if_pos hal]
      cases hk : (w1.proto p).pingKeepalive with
      | none => exact h1
      | some k =>
        dsimp only
        have hres : (callLater (k : Rat) (.pingAlarm p) (fun tid => setProto p (fun pr => { pr with pingAlarm := some tid })) w1).1
            = (setProto p (fun pr => { pr with pingAlarm := some w1.nextTimer }) (w1.callLater (k : Rat) (.pingAlarm p)).1).1 := rfl
        rw [hres]
        have hkeep := tkeep_callLater w1 h1.tf (k : Rat) (.pingAlarm p)
        generalize hwc : (w1.callLater (k : Rat) (.pingAlarm p)).1 = wc at hkeep ⊢
        have hcp : wc.protos = w1.protos := by rw [← hwc]; rfl
        have hcn : wc.now = w1.now := by rw [← hwc]; rfl
        have hct : wc.timers.get? w1.nextTimer = some ⟨w1.now + ticks (k : Rat), .pingAlarm p, .pending⟩ := by
          rw [← hwc]; simp [Dict.get?_set]
        have hc1 : KDInv wc := kds_world h1 hcp hkeep (by rw [hcn])
        have hwp : wc.proto p = w1.proto p := by simp [World.proto, hcp]
        refine ⟨hc1.tf, fun q pr t hq haq => ?_, fun q pr t tm k' hq haq hkq ht => ?_, fun q pr hq hsq => ?_⟩
        all_goals (rcases protos_setProto wc p _ q pr hq with ⟨_, h0⟩ | ⟨he, hpr⟩)
        · exact hc1.alarmExists q pr t h0 haq
        · subst hpr; simp only at haq; injection haq with haq; subst haq; exact ⟨_, hct⟩
        · exact hc1.alarmDue q pr t tm k' h0 haq hkq ht
        · subst hpr; simp only at haq hkq; injection haq with haq; subst haq
          rw [hwp, hk] at hkq; injection hkq with hkq; subst hkq
          have : tm = ⟨w1.now + ticks (k : Rat), .pingAlarm p, .pending⟩ := by
            have := ht; simp only [setProto, Step.mod] at this; rw [hct] at this; injection this with this; exact this.symm
          rw [this]; simp only
          show w1.now + ticks (k : Rat) ≤ wc.now + ticks (k : Rat)
          rw [hcn]
        · exact hc1.idleNoAlarm q pr h0 hsq
        · subst he; subst hpr; simp only at hsq
          rw [hwp, hpr1] at hsq; exact absurd hs hsq
    · rw [if_neg hal]; exact h1
  · rw [if_neg ha]; exact h

theorem kds_loopRun (p : Nat) : KDS (loopRun p) := by
  intro w h
  have h1 := kds_ping p w h
  unfold loopRun
  rcases hp : ping p w with ⟨w1, _ | e⟩
  · rw [hp] at h1
    simp only at h1 ⊢
    have : KDS (Step.read fun w =>
      match (w.proto p).pingTimer with
      | some l =>
        if l.running then
          callLater l.interval (.pingLoop p) fun tid =>
            setProto p (fun pr => { pr with pingTimer := (pr.pingTimer.map fun (l : Loop) => { l with call := some tid }) })
        else Step.ok
      | none => Step.ok) := by kdss
    exact this w1 h1
  · rw [hp] at h1
    simp only at h1 ⊢
    exact kds_setProto p _ (by intro pr; exact Or.inl ⟨rfl, rfl, Or.inl rfl⟩) w1 h1

theorem kds_mqttConnectionMade (p : Nat) : KDS (mqttConnectionMade p) := by
  unfold mqttConnectionMade
  apply kds_read; intro w hw
  refine kds_seq ?_ (kds_seq (kds_refill _) ?_)
  · split
    · unfold purgeSession purgeWindow; kdss
    · exact kds_syncSession _
  · kdss

/-- CONNACK on a CONNECTING protocol (the only state whose object handles it): such a protocol has no deadline, so the new keepalive value
    and the new state disturb nothing -/
theorem kdat_handleCONNACK (p : Nat) (session : Bool) (rc : Nat) (w : World) (hs : (w.proto p).state = .connecting) :
    KDAt (handleCONNACK p session rc) w := by
  intro h
  -- `p` has no deadline: it exists and is not connected, or it does not exist (the default object has none)
  have hnone : (w.proto p).pingAlarm = none := by
    cases hq : w.protos.get? p with
    | none => simp [World.proto, hq]; rfl
    | some pr =>
      have hpq : w.proto p = pr := by simp [World.proto, hq]
      rw [hpq] at hs ⊢
      exact h.idleNoAlarm p pr hq (by rw [hs]; decide)
  unfold handleCONNACK
  show KDInv ((match (w.proto p).connReq with
    | none => Step.raise .attribute
    | some cr =>
      match w.connReqs.get? cr with
      | none => Step.raise .attribute
      | some c =>
        match c.dfd with
        | none => Step.ok
        | some d =>
          cancelTimer c.alarm ;;
          (if rc = 0 then
            setProto p (fun pr => { pr with state := .connected }) ;;
            mqttConnectionMade p ;;
            (if c.keepalive ≠ 0 then
              setProto p (fun pr => { pr with pingKeepalive := some c.keepalive, pingTimer := some ⟨true, c.keepalive, none⟩ }) ;;
              loopRun p
             else Step.ok) ;;
            fireDfd d (.ok (.bool session))
           else
            setProto p (fun pr => { pr with state := .idle }) ;;
            fireDfd d (.fail .state)) ;;
          setProto p (fun pr => { pr with connReq := none })) w).1
  cases (w.proto p).connReq with
  | none => exact h
  | some cr =>
    dsimp only
    cases w.connReqs.get? cr with
    | none => exact h
    | some c =>
      dsimp only
      cases c.dfd with
      | none => exact h
      | some d =>
        dsimp only
        refine kdat_seq (kds_cancelTimer _ w) (fun w1 hw1 => ?_) h
        have hp1 : w1.protos = w.protos := by
          have := ps_cancelTimer c.alarm w; rw [hw1] at this; exact this
        have hn1 : (w1.proto p).pingAlarm = none := by simp only [World.proto, hp1]; exact hnone
        refine kdat_seq ?_ (fun w9 _ => kds_setProto _ _ (by intro pr; exact Or.inl ⟨rfl, rfl, Or.inl rfl⟩) w9)
        by_cases hrc : rc = 0
        · rw [if_pos hrc]
          refine kdat_seq (kds_setProto _ _ (by intro pr; exact Or.inl ⟨rfl, rfl, Or.inr rfl⟩) w1) (fun w2 hw2 => ?_)
          have hw2' : w2 = (setProto p (fun pr => { pr with state := .connected }) w1).1 := by rw [hw2]
          have hn2 : (w2.proto p).pingAlarm = none := by rw [hw2', proto_setProto_self]; exact hn1
          refine kdat_seq (kds_mqttConnectionMade p w2) (fun w3 hw3 => ?_)
          have hp3 : w3.protos = w2.protos := by
            have := ps_mqttConnectionMade p w2; rw [hw3] at this; exact this
          have hn3 : (w3.proto p).pingAlarm = none := by simp only [World.proto, hp3]; exact hn2
          refine kdat_seq ?_ (fun w5 _ => kds_fireDfd _ _ w5)
          by_cases hka : c.keepalive ≠ 0
          · rw [if_pos hka]
            refine kdat_seq (fun h3 => kds_setProto_at p _ (by intro pr; rfl) w3 h3 hn3) (fun w4 _ => kds_loopRun p w4)
          · rw [if_neg hka]; exact fun h3 => h3
        · rw [if_neg hrc]
          refine kdat_seq (fun h1 => kds_setProto_at p _ (by intro pr; rfl) w1 h1 hn1) (fun w2 _ => kds_fireDfd _ _ w2)


theorem kds_deliver (p : Nat) (m : RxMsg) : KDS (deliver p m) := by unfold deliver; kdss
theorem kds_drainQueue (p : Nat) (r : Err) (fuel : Nat) : KDS (drainQueue p r fuel) := by
  induction fuel with
  | zero => exact kds_ok
  | succ f ih =>
    unfold drainQueue
    apply kds_read; intro w hw
    split
    · exact kds_ok
    · apply kds_seq (kds_setEnts _)
      apply kds_seq
      · split
        · exact kds_fireReqDfd _ _
        · exact kds_ok
      · exact ih
theorem kds_cancelWindowAlarms (l : List Ent) : KDS (cancelWindowAlarms l) := by unfold cancelWindowAlarms; kdss
theorem kds_failWindow (p : Nat) (s : Bool) (r : Err) : KDS (failWindow p s r) := by unfold failWindow; kdss
theorem kds_purgeSession (p : Nat) (r : Err) : KDS (purgeSession p r) := by unfold purgeSession purgeWindow; kdss
theorem kds_doConnectionLost (p : Nat) (r : Err) : KDS (doConnectionLost p r) := by
  unfold doConnectionLost
  apply kds_read; intro w hw
  refine kds_seq (kds_cancelWindowAlarms _) (kds_seq (kds_cancelWindowAlarms _) (kds_seq (kds_cancelWindowAlarms _) (kds_seq (kds_cancelWindowAlarms _)
    (kds_seq (kds_failWindow _ _ _) (kds_seq (kds_failWindow _ _ _) ?_)))))
  apply kds_read; intro w' hw'
  split
  · exact kds_seq (kds_purgeSession _ _) (kds_read fun _ _ => kds_drainQueue _ _ _)
  · exact kds_ok
theorem kds_handlePINGRESP (p : Nat) : KDS (handlePINGRESP p) := by
  unfold handlePINGRESP
  apply kds_read; intro w hw
  split
  · exact kds_ok
  · exact kds_seq (kds_cancelTimer _) (kds_setProto _ _ (by intro pr; exact Or.inr rfl))
theorem kds_handleSubUnsubAck (p : Nat) (b : Bool) (m : Nat) (v : Val) : KDS (handleSubUnsubAck p b m v) := by unfold handleSubUnsubAck; kdss
theorem kds_handlePUBLISH (p : Nat) (m : RxMsg) : KDS (handlePUBLISH p m) := by
  unfold handlePUBLISH
  split
  · exact kds_deliver _ _
  · split
    · split
      · exact kds_seq (kds_write _ _) (kds_deliver _ _)
      · exact kds_raise _
    · split
      · refine kds_seq (kds_mod (fun _ => rfl) (fun _ => rfl) (fun _ => rfl) (fun _ => rfl)) ?_
        split
        · exact kds_write _ _
        · exact kds_raise _
      · exact kds_ok
theorem kds_handlePUBREL (p : Nat) (m : Nat) : KDS (handlePUBREL p m) := by
  unfold handlePUBREL
  apply kds_read; intro w hw
  refine kds_seq ?_ ?_
  · split
    · exact kds_ok
    · exact kds_seq (kds_mod (fun _ => rfl) (fun _ => rfl) (fun _ => rfl) (fun _ => rfl)) (kds_deliver _ _)
  · split
    · exact kds_write _ _
    · exact kds_raise _
theorem kds_handlePUBACK (p : Nat) (m : Nat) : KDS (handlePUBACK p m) := by unfold handlePUBACK; kdss
theorem kds_handlePUBREC (p : Nat) (m : Nat) : KDS (handlePUBREC p m) := by
  unfold handlePUBREC
  generalize encodePUBREL (m : Int) = E
  apply kds_read; intro w hw
  split
  · exact kds_ok
  · split
    · exact kds_ok
    · apply kds_seq (kds_cancelAlarm _)
      apply kds_seq (kds_setEnts _)
      cases E with
      | error e => exact kds_raise _
      | ok bs =>
        refine kds_read fun w' _ => ?_
        exact kds_seq (kds_mod (fun _ => rfl) (fun _ => rfl) (fun _ => rfl) (fun _ => rfl)) (kds_seq (kds_setEnts _) (kds_retryRelease _ _ _))
theorem kds_handlePUBCOMP (p : Nat) (m : Nat) : KDS (handlePUBCOMP p m) := by unfold handlePUBCOMP; kdss
theorem kds_registerSubUnsub (p : Nat) (s : Bool) (i : Nat) (bs : Bytes) : KDS (registerSubUnsub p s i bs) := by unfold registerSubUnsub; kdss

theorem kdat_read {f : World → Step} {w : World} (h : KDAt (f w) w) : KDAt (Step.read f) w := h

theorem kds_processPacket (p : Nat) (pkt : Bytes) : KDS (processPacket p pkt) := by
  intro w
  show KDAt (processPacket p pkt) w
  unfold processPacket
  split
  · exact kds_raise _ w
  · dsimp only
    split
    · exact kds_abort _ w
    · split
      · exact kds_abort _ w
      · refine kdat_read ?_
        split
        all_goals (try exact kds_abort _ w)
        all_goals (split <;> (try split) <;> first
          | exact kds_abort _ w | exact kds_ok w | exact kds_handlePINGRESP _ w
          | exact kds_handleSubUnsubAck _ _ _ _ w | exact kds_handlePUBLISH _ _ w | exact kds_handlePUBACK _ _ w
          | exact kds_handlePUBREC _ _ w | exact kds_handlePUBREL _ _ w | exact kds_handlePUBCOMP _ _ w
          | (rename_i hal; exact kdat_handleCONNACK p _ _ w ((allowed_needs_state w p).2.2 hal)))


theorem kds_accumulate (p : Nat) (fuel : Nat) : KDS (accumulate p fuel) := by
  induction fuel with
  | zero => exact kds_ok
  | succ f ih =>
    unfold accumulate
    apply kds_read; intro w hw
    split
    · exact kds_ok
    · exact kds_seq (kds_processPacket _ _) (kds_seq (kds_setProto _ _ (by intro pr; exact Or.inl ⟨rfl, rfl, Or.inl rfl⟩)) ih)
theorem kds_dataReceived (p : Nat) (d : Bytes) : KDS (dataReceived p d) := by
  unfold dataReceived
  exact kds_seq (kds_setProto _ _ (by intro pr; exact Or.inl ⟨rfl, rfl, Or.inl rfl⟩)) (kds_read fun _ _ => kds_accumulate _ _)

/-- connect(): honoured only by the IDLE state object, and an idle protocol has no deadline -/
theorem kds_apiConnect (p : Nat) (a : ConnectArgs) : KDS (apiConnect p a) := by
  intro w
  show KDAt (apiConnect p a) w
  unfold apiConnect
  generalize a.toF.encode = E
  refine kdat_read ?_
  by_cases hal : allowed w p 0 = true
  · have hs : (w.proto p).state = .idle := (allowed_needs_state w p).1 hal
    simp only [hal, Bool.not_true, Bool.false_eq_true, ↓reduceIte]
    split
    · exact kds_emit _ w
    · cases E with
      | error e =>
        dsimp only
        split
        · exact kds_emit _ w
        · exact kds_raise _ w
      | ok pdu =>
        dsimp only
        intro h
        have hnone : (w.proto p).pingAlarm = none := by
          cases hq : w.protos.get? p with
          | none => simp [World.proto, hq]; rfl
          | some pr =>
            have hpq : w.proto p = pr := by simp [World.proto, hq]
            rw [hpq] at hs ⊢
            exact h.idleNoAlarm p pr hq (by rw [hs]; decide)
        refine kdat_seq (kds_setProto _ _ (by intro pr; exact Or.inl ⟨rfl, rfl, Or.inl rfl⟩) w) (fun w1 hw1 => ?_) h
        have hw1' : w1 = (setProto p (fun pr => { pr with cleanStart := a.cleanStart, version := verOf a.version }) w).1 := by rw [hw1]
        have hn1 : (w1.proto p).pingAlarm = none := by rw [hw1', proto_setProto_self]; exact hnone
        refine kdat_seq (kds_write _ _ w1) (fun w2 hw2 => ?_)
        have hw2' : w2 = (write p pdu w1).1 := by rw [hw2]
        have hn2 : (w2.proto p).pingAlarm = none := by rw [hw2']; exact hn1
        refine kdat_seq (fun h2 => kds_setProto_at p _ (by intro pr; rfl) w2 h2 hn2) (fun w3 _ => ?_)
        have : KDS (Step.read fun w =>
            let cr := w.nextCR
            let ka := a.keepalive.toNat
            callLater (if ka = 0 then 10 else ka) (.connack cr) fun tid =>
              newDfd fun d =>
                Step.mod (fun w => { w with connReqs := w.connReqs.set cr ⟨p, ka, some d, tid⟩, nextCR := cr + 1 }) ;;
                setProto p (fun pr => { pr with connReq := some cr }) ;;
                emit (.retPending d none)) := by kdss
        exact this w3
  · simp only [hal, Bool.not_false, ↓reduceIte]
    exact kds_emit _ w

/-- steps that leave the deadline field of `p` alone -/
def AF (p : Nat) (s : Step) : Prop := ∀ w, ((s w).1.proto p).pingAlarm = (w.proto p).pingAlarm
theorem af_ok (p : Nat) : AF p Step.ok := fun _ => rfl
theorem af_raise (p : Nat) (e : Err) : AF p (Step.raise e) := fun _ => rfl
theorem af_seq {p : Nat} {a b : Step} (ha : AF p a) (hb : AF p b) : AF p (a ;; b) := by
  intro w
  simp only [Step.seq]
  rcases hw : a w with ⟨w1, _ | e⟩
  · have := ha w; rw [hw] at this
    simp only; rw [hb w1]; exact this
  · have := ha w; rw [hw] at this; exact this
theorem af_read {p : Nat} {f : World → Step} (hf : ∀ w, AF p (f w)) : AF p (Step.read f) := fun w => hf w w
theorem af_of_ps {p : Nat} {s : Step} (h : PS s) : AF p s := fun w => by simp only [World.proto, h w]
theorem af_setProto (p q : Nat) (g : Proto → Proto) (hg : ∀ pr, (g pr).pingAlarm = pr.pingAlarm) : AF p (setProto q g) := by
  intro w
  by_cases h : q = p
  · subst h; rw [proto_setProto_self, hg]
  · rw [proto_setProto_other w q p g h]
theorem af_loopStop (p : Nat) : AF p (loopStop p) := by
  unfold loopStop
  refine af_read fun w => ?_
  split
  · exact af_ok p
  · split
    · exact af_raise p _
    · refine af_seq (af_setProto p p _ (by intro pr; rfl)) ?_
      split
      · exact af_ok p
      · exact af_seq (af_of_ps (ps_cancelTimer _)) (af_setProto p p _ (by intro pr; rfl))

/-- connectionLost: the deadline is cancelled and cleared before the protocol goes back to IDLE -/
theorem kds_connectionLost (p : Nat) (r : Err) : KDS (connectionLost p r) := by
  intro w
  show KDAt (connectionLost p r) w
  unfold connectionLost
  refine kdat_read ?_
  have hA : KDS (match (w.proto p).pingTimer with
     | none => Step.ok
     | some _ => loopStop p ;; setProto p (fun pr => { pr with pingTimer := none })) := by
    split
    · exact kds_ok
    · refine kds_seq ?_ (kds_setProto _ _ (by intro pr; exact Or.inl ⟨rfl, rfl, Or.inl rfl⟩))
      unfold loopStop; kdss
  have hAf : AF p (match (w.proto p).pingTimer with
     | none => Step.ok
     | some _ => loopStop p ;; setProto p (fun pr => { pr with pingTimer := none })) := by
    split
    · exact af_ok p
    · exact af_seq (af_loopStop p) (af_setProto p p _ (by intro pr; rfl))
  refine kdat_seq (hA w) (fun wA hwA => ?_)
  have hnA : (wA.proto p).pingAlarm = (w.proto p).pingAlarm :=
    (congrArg (fun r => (r.1.proto p).pingAlarm) hwA).symm.trans (hAf w)
  -- the deadline part: afterwards `p` has none
  have hB : KDS (match (w.proto p).pingAlarm with
     | none => Step.ok
     | some tid => cancelTimer tid ;; setProto p (fun pr => { pr with pingAlarm := none })) := by
    split
    · exact kds_ok
    · exact kds_seq (kds_cancelTimer _) (kds_setProto _ _ (by intro pr; exact Or.inr rfl))
  refine kdat_seq (hB wA) (fun wB hwB => ?_)
  have hnB : (wB.proto p).pingAlarm = none := by
    cases hal : (w.proto p).pingAlarm with
    | none =>
      rw [hal] at hwB
      have : wB = wA := by have := hwB; simp only [Step.ok] at this; injection this with this; exact this.symm
      rw [this, hnA, hal]
    | some tid =>
      rw [hal] at hwB
      simp only [Step.seq] at hwB
      rcases hct : cancelTimer tid wA with ⟨w', _ | e⟩
      · rw [hct] at hwB
        simp only at hwB
        have : wB = (setProto p (fun pr => { pr with pingAlarm := none }) w').1 := (congrArg Prod.fst hwB).symm
        rw [this, proto_setProto_self]
      · rw [hct] at hwB; injection hwB with _ h2; cases h2
  refine kdat_seq (kds_doConnectionLost p r wB) (fun wC hwC => ?_)
  have hnC : (wC.proto p).pingAlarm = none := by
    have hps := ps_doConnectionLost p r wB; rw [hwC] at hps
    have : wC.proto p = wB.proto p := by simp only [World.proto]; rw [hps]
    rw [this]; exact hnB
  refine kdat_seq (fun hC => kds_setProto_at p _ (by intro pr; rfl) wC hC hnC) (fun wD _ => ?_)
  have : KDS (Step.read fun w => if (w.proto p).onDisc then callLater (1 / 10 : Rat) (.onDisc p r) fun _ => Step.ok else Step.ok) := by kdss
  exact this wD

theorem kds_runTimer (k : TKind) : KDS (runTimer k) := by
  cases k with
  | connack cr => unfold runTimer; kdss
  | pingLoop q => exact kds_seq (kds_setProto _ _ (by intro pr; exact Or.inl ⟨rfl, rfl, Or.inl rfl⟩)) (kds_loopRun q)
  | pingAlarm q => exact kds_seq (kds_setProto _ _ (by intro pr; exact Or.inr rfl)) (kds_abort _)
  | retry q rid => unfold runTimer; kdss
  | onDisc q r => exact kds_emit _

theorem kds_fireTimer (t : Nat) : KDS (fireTimer t) := by
  intro w h
  cases ht : w.timers.get? t with
  | none =>
    have e : fireTimer t w = emit .nofire w := by simp only [fireTimer, Step.read, ht]
    rw [e]; exact kds_emit _ w h
  | some tm =>
    have e : fireTimer t w = (if tm.status = TStatus.pending then
        Step.mod (fun w => { w with now := max w.now tm.due, timers := w.timers.set t { tm with status := .called } }) ;; runTimer tm.kind
      else emit .nofire) w := by simp only [fireTimer, Step.read, ht]
    rw [e]
    by_cases hs : tm.status = .pending
    · rw [if_pos hs]
      have k1 : KDInv { w with now := max w.now tm.due, timers := w.timers.set t { tm with status := .called } } := by
        have hk := tkeep_status w h.tf t tm ht .called
        exact kds_world (w' := { w with now := max w.now tm.due, timers := w.timers.set t { tm with status := .called } }) h rfl
          ⟨hk.tf, hk.keep⟩ (Nat.le_max_left _ _)
      simp only [Step.seq, Step.mod]
      exact kds_runTimer tm.kind _ k1
    · rw [if_neg hs]; exact kds_emit _ w h

theorem KDInv.congr {w w' : World} (h : KDInv w) (h1 : w'.protos = w.protos) (h2 : w'.timers = w.timers)
    (h3 : w'.nextTimer = w.nextTimer) (h4 : w'.now = w.now) : KDInv w' :=
  kds_world h h1 (tkeep_same h.tf h2 h3) (by rw [h4])

/-- **every operation keeps `KDInv`** -- no `Env`, no `WInv` -/
theorem kd_step (w : World) (h : KDInv w) (op : Op) : KDInv (step w op) := by
  have hstep : ∀ (s : Step), KDS s → KDInv (match s w with
      | (w', none) => w'
      | (w', some e) => { w' with log := w'.log ++ [if op.isReactor then Obs.esc e else Obs.raised e] }) := by
    intro s hs
    have := hs w h
    rcases hw : s w with ⟨w', _ | e⟩
    · rw [hw] at this; exact this
    · rw [hw] at this; exact this.congr rfl rfl rfl rfl
  unfold step
  cases op with
  | build a =>
    refine hstep (buildProtocol a) fun w h => ?_
    have h1 := kds_setProto w.nextProto (fun _ => ({ addr := a } : Proto)) (by intro pr; exact Or.inr rfl) w h
    exact h1.congr rfl rfl rfl rfl
  | sethandlers p m => exact hstep (apiSetHandlers p m) (kds_setProto _ _ (by intro pr; exact Or.inl ⟨rfl, rfl, Or.inl rfl⟩))
  | connect p a => exact hstep (apiConnect p a) (kds_apiConnect p a)
  | disconnect p => refine hstep (apiDisconnect p) ?_; unfold apiDisconnect; kdss
  | publish p t pl qs r =>
    refine hstep (apiPublish p t pl qs r) ?_
    intro w0
    rw [apiPublish_eq]
    have hmk : ∀ pr qn m d bs, KDS (mkStep p pr qn m d bs) := by intro pr qn m d bs; unfold mkStep; kdss
    split
    · exact kds_emit _ w0
    · split
      · exact kds_emit _ w0
      · split
        · cases encodePublishPy t pl 0 r none with
          | error e => exact kds_emit _ w0
          | ok bs => exact kds_seq (hmk _ _ _ _ _) (kds_emit _) w0
        · apply kds_makeId (c := _) ?_ w0
          intro i
          cases encodePublishPy t pl qs.toNat r (some (i : Int)) with
          | error e => exact kds_emit _
          | ok bs => exact kds_newDfd fun d => kds_seq (hmk _ _ _ _ _) (kds_emit _)
  | subscribe p a qs =>
    refine hstep (apiSubscribe p a qs) ?_
    unfold apiSubscribe
    apply kds_read; intro w hw
    cases a <;> dsimp only <;> (repeat' (first | with_reducible exact kds_emit _ | split)) <;>
      (refine kds_makeId fun i => ?_
       generalize encodeWithId 0x82 _ _ = E
       cases E with
       | error e => exact kds_emit _
       | ok bs => exact kds_registerSubUnsub _ _ _ _)
  | unsubscribe p a =>
    refine hstep (apiUnsubscribe p a) ?_
    unfold apiUnsubscribe
    apply kds_read; intro w hw
    split
    · exact kds_emit _
    · refine kds_makeId fun _ => kds_read fun w1 _ => ?_
      cases a <;> dsimp only <;> (repeat' (first | with_reducible exact kds_emit _ | split)) <;>
        (refine kds_makeId fun i => ?_
         generalize encodeWithId 0xA2 _ _ = E
         cases E with
         | error e => exact kds_emit _
         | ok bs => exact kds_registerSubUnsub _ _ _ _)
  | setwin p n => refine hstep (apiSetWindow p n) ?_; unfold apiSetWindow; kdss
  | settimeout p n => refine hstep (apiSetTimeout p n) ?_; unfold apiSetTimeout; kdss
  | setbw p b f => refine hstep (apiSetBandwith p b f) ?_; unfold apiSetBandwith; kdss
  | jit v => exact hstep (Step.mod fun w => { w with jitter := v }) (kds_mod (fun _ => rfl) (fun _ => rfl) (fun _ => rfl) (fun _ => rfl))
  | setid v => exact hstep (Step.mod fun w => { w with nextId := v }) (kds_mod (fun _ => rfl) (fun _ => rfl) (fun _ => rfl) (fun _ => rfl))
  | recv p d => exact hstep (dataReceived p d) (kds_dataReceived p d)
  | lost p r => exact hstep (connectionLost p r) (kds_connectionLost p r)
  | fire t => exact hstep (fireTimer t) (kds_fireTimer t)

theorem KDInv.init (profile : Nat) : KDInv (World.init profile) :=
  ⟨fun t tm h => by simp [World.init, Dict.get?] at h, fun p pr t h => by simp [World.init, Dict.get?] at h,
   fun p pr t tm k h => by simp [World.init, Dict.get?] at h, fun p pr h => by simp [World.init, Dict.get?] at h⟩

theorem run_kd (ops : List Op) : ∀ w, KDInv w → KDInv (run w ops) := by
  induction ops with
  | nil => intro w h; exact h
  | cons op r ih => intro w h; exact ih _ (kd_step w h op)

end Mqtt
