import MqttVerif.Proofs.Owned
import MqttVerif.Proofs.Fifo
/-
  FIFO, continued: every operation of the model is a `QStep` (it only drops queue elements or appends freshly numbered ones),
  so `Fifo` holds in every reachable world.
-/
namespace Mqtt

theorem qs_of_cs {s : Step} (h : ∀ w, QSame w (s w).1) : QS s := fun w => (h w).qstep

theorem qs_handlePUBLISH (p : Nat) (m : RxMsg) : QS (handlePUBLISH p m) := by
  unfold handlePUBLISH
  split
  · exact qs_deliver p m
  · split
    · split
      · exact qs_seq (qs_write _ _) (qs_deliver p m)
      · exact qs_raise _
    · qs
theorem qs_handlePUBREL (p m : Nat) : QS (handlePUBREL p m) := by
  unfold handlePUBREL
  apply qs_read; intro w
  apply qs_seq
  · split
    · exact qs_ok
    · exact qs_seq (qs_mod fun _ => ⟨rfl, rfl, fun _ => rfl⟩) (qs_deliver p _)
  · qs
theorem qs_handlePINGRESP (p : Nat) : QS (handlePINGRESP p) := by unfold handlePINGRESP; qs
theorem qs_handlePUBACK (p m : Nat) : QS (handlePUBACK p m) := by unfold handlePUBACK; qs
theorem qs_handlePUBCOMP (p m : Nat) : QS (handlePUBCOMP p m) := by unfold handlePUBCOMP; qs
theorem qs_handleSubUnsubAck (p : Nat) (s : Bool) (m : Nat) (v : Val) : QS (handleSubUnsubAck p s m v) := by unfold handleSubUnsubAck; qs
theorem qs_loopStop (p : Nat) : QS (loopStop p) := by unfold loopStop; qs
theorem qs_doPingRequest (p : Nat) : QS (doPingRequest p) := by unfold doPingRequest; qs
theorem qs_ping (p : Nat) : QS (ping p) := by
  unfold ping
  apply qs_read; intro w
  split
  · exact qs_doPingRequest p
  · exact qs_raise _
theorem qs_loopRun (p : Nat) : QS (loopRun p) := by
  intro w
  have h1 := qs_ping p w
  unfold loopRun
  rcases hp : ping p w with ⟨w1, _ | e⟩
  · rw [hp] at h1
    simp only
    refine h1.trans ?_
    have : QS (Step.read fun w =>
      match (w.proto p).pingTimer with
      | some l =>
        if l.running then
          callLater l.interval (.pingLoop p) fun tid =>
            setProto p (fun pr => { pr with pingTimer := (pr.pingTimer.map fun l => { l with call := some tid }) })
        else Step.ok
      | none => Step.ok) := by qs
    exact this w1
  · rw [hp] at h1
    simp only
    exact h1.trans (qs_setProto _ _ w1)

theorem qs_handleCONNACK (p : Nat) (session : Bool) (rc : Nat) : QS (handleCONNACK p session rc) := by
  unfold handleCONNACK
  apply qs_read; intro w
  split
  · exact qs_raise _
  · split
    · exact qs_raise _
    · split
      · exact qs_ok
      · apply qs_seq (qs_cancelTimer _)
        apply qs_seq
        · split
          · apply qs_seq (qs_setProto _ _)
            apply qs_seq (qs_mqttConnectionMade p)
            apply qs_seq
            · split
              · exact qs_seq (qs_setProto _ _) (qs_loopRun p)
              · exact qs_ok
            · exact qs_fireDfd _ _
          · exact qs_seq (qs_setProto _ _) (qs_fireDfd _ _)
        · exact qs_setProto _ _

/-- PUBREC: the only handler on the receive path that creates a request record; it sits at a fresh index, so no queue entry
    refers to it -/
theorem handlePUBREC_qstep {w : World} (h : WInv w) (p : Nat) (ppr : Proto) (hpp : w.protos.get? p = some ppr)
    (hlive : ppr.lost = false) (hconn : ppr.state = .connected) (m : Nat) (hm : m < 65536) : QStep w (handlePUBREC p m w).1 := by
  have hpa : w.paddr p = ppr.addr := by simp [World.paddr, getD_of_get? hpp]
  cases hl : Ents.lookup w.ents ppr.addr .pub m with
  | none => rw [handlePUBREC_unknown p m w (by rw [hpa]; exact hl)]; exact QStep.refl w
  | some rid =>
    by_cases hq2 : (w.req rid).qos = 2
    case neg => rw [handlePUBREC_wrong_qos p m rid w (by rw [hpa]; exact hl) hq2]; exact QStep.refl w
    obtain ⟨t, bs, _, _, heq⟩ := handlePUBREC_effect h p ppr hpp hlive hconn m hm rid hl hq2
    rw [heq]
    refine QStep.trans ?_ (retryReleaseW_qsame _ _ _ _).qstep
    refine qstep_same rfl (fun a => ?_)
    have hitems : Ents.items (afterPubrec w ppr.addr m rid t bs ppr.initialT).ents a .queue = Ents.items w.ents a .queue := by
      show Ents.items (Ents.remove w.ents ppr.addr .pub m ++ [_]) a .queue = _
      rw [Ents.items_append, Ents.items_remove_other _ _ _ _ _ _ (by simp)]
      simp
    simp only [QSeqs, hitems]
    apply List.map_congr_left
    intro e he
    have := h.ridFresh e (Ents.mem_items.mp he).1
    simp only [afterPubrec, World.req, dropArmed, Dict.get?_set]
    rw [if_neg (by omega)]

theorem processPacket_qstep {w : World} (h : WInv w) (p : Nat) (ppr : Proto) (hpp : w.protos.get? p = some ppr)
    (hnl : ppr.lost = false) (pkt : Bytes) (hne : pkt ≠ []) (hwf : Bytes.WF pkt) : QStep w (processPacket p pkt w).1 := by
  unfold processPacket abort
  split
  · exact absurd rfl hne
  · rename_i h0 rest
    dsimp only
    have ht := nibble_lt h0
    generalize (h0 &&& 0xF0) >>> 4 = t at ht ⊢
    split
    · exact qs_emit _ w
    · split
      · exact qs_emit _ w
      · simp only [read_apply]
        have hst := fun op hop ha => allowed_state h p ppr hpp op hop ha
        have : t = 0 ∨ t = 1 ∨ t = 2 ∨ t = 3 ∨ t = 4 ∨ t = 5 ∨ t = 6 ∨ t = 7 ∨ t = 8 ∨ t = 9 ∨ t = 10 ∨ t = 11 ∨ t = 12 ∨
            t = 13 ∨ t = 14 ∨ t = 15 := by omega
        rcases this with rfl | rfl | rfl | rfl | rfl | rfl | rfl | rfl | rfl | rfl | rfl | rfl | rfl | rfl | rfl | rfl
        all_goals (try simp only [])
        all_goals (try exact qs_emit _ w)
        · cases hd : ConnackF.decode (h0 :: rest) with
          | error e => exact qs_emit _ w
          | ok c =>
            simp only
            split
            · exact qs_handleCONNACK p _ _ w
            · exact QStep.refl w
        · cases hd : PublishD.decode (h0 :: rest) with
          | error e => exact qs_emit _ w
          | ok d =>
            simp only
            split
            · exact qs_handlePUBLISH p _ w
            · exact QStep.refl w
        · cases hd : decodeAck (h0 :: rest) with
          | error e => exact qs_emit _ w
          | ok m =>
            simp only
            split
            · exact qs_handlePUBACK p m w
            · exact QStep.refl w
        · cases hd : decodeAck (h0 :: rest) with
          | error e => exact qs_emit _ w
          | ok m =>
            simp only
            by_cases ha : allowed w p 12 = true
            · simp only [ha, ↓reduceIte]
              exact handlePUBREC_qstep h p ppr hpp hnl ((hst 12 (by omega) ha).2.2.1 (by omega) (by omega) (by omega)) m (decodeAck_lt hwf hd)
            · simp only [ha, Bool.false_eq_true, ↓reduceIte]; exact QStep.refl w
        · cases hd : decodePUBREL (h0 :: rest) with
          | error e => exact qs_emit _ w
          | ok md =>
            obtain ⟨m, dd⟩ := md
            simp only
            split
            · exact qs_handlePUBREL p m w
            · exact QStep.refl w
        · cases hd : decodeAck (h0 :: rest) with
          | error e => exact qs_emit _ w
          | ok m =>
            simp only
            split
            · exact qs_handlePUBCOMP p m w
            · exact QStep.refl w
        · cases hd : SubackF.decode (h0 :: rest) with
          | error e => exact qs_emit _ w
          | ok sa =>
            simp only
            split
            · exact qs_handleSubUnsubAck p true _ _ w
            · exact QStep.refl w
        · cases hd : decodeAck (h0 :: rest) with
          | error e => exact qs_emit _ w
          | ok m =>
            simp only
            split
            · exact qs_handleSubUnsubAck p false _ _ w
            · exact QStep.refl w
        · split
          · exact qs_handlePINGRESP p w
          · exact QStep.refl w

theorem accumulate_qstep (p : Nat) (fuel : Nat) : ∀ {w : World}, WInv w → (∃ ppr, w.protos.get? p = some ppr ∧ ppr.lost = false) →
    QStep w (accumulate p fuel w).1 := by
  induction fuel with
  | zero => intro w _ _; exact QStep.refl w
  | succ f ih =>
    intro w h ⟨ppr, hpp, hnl⟩
    simp only [accumulate, read_apply, getD_of_get? hpp]
    cases hfp : firstPacket ppr.buffer with
    | none => exact QStep.refl w
    | some pr =>
      obtain ⟨pkt, rest⟩ := pr
      simp only
      obtain ⟨hcat, hlen⟩ := firstPacket_some _ _ _ hfp
      have hbuf := h.bufOk p ppr hpp
      have hpw : Bytes.WF pkt := fun b hb => hbuf b (by rw [hcat]; exact List.mem_append_left _ hb)
      have hrw : Bytes.WF rest := fun b hb => hbuf b (by rw [hcat]; exact List.mem_append_right _ hb)
      have hne : pkt ≠ [] := by intro hc; rw [hc] at hlen; simp at hlen
      obtain ⟨a1, a2⟩ := processPacket_inv h p ppr hpp hnl pkt hne hpw
      have k1 := processPacket_qstep h p ppr hpp hnl pkt hne hpw
      obtain ⟨ppr1, b1, b2, _⟩ := kl_processPacket p pkt w p ppr hpp
      obtain ⟨w1, hw1⟩ : ∃ w1, w1 = (processPacket p pkt w).1 := ⟨_, rfl⟩
      have s1 : processPacket p pkt w = (w1, none) := by rw [hw1]; exact Prod.ext rfl a1
      rw [← hw1] at a2 b1 k1
      rw [seq_ok s1]
      obtain ⟨c1, c2, c3⟩ := setBuffer_inv a2 p ppr1 b1 (fun _ => rest) hrw
      have k2 : QStep w1 (setProto p (fun pr => { pr with buffer := rest }) w1).1 := qs_setProto p _ w1
      obtain ⟨w2, hw2⟩ : ∃ w2, w2 = (setProto p (fun pr => { pr with buffer := rest }) w1).1 := ⟨_, rfl⟩
      have s2 : setProto p (fun pr => { pr with buffer := rest }) w1 = (w2, none) := by rw [hw2]; exact Prod.ext rfl c1
      rw [← hw2] at k2
      rw [seq_ok s2]
      exact (k1.trans k2).trans (ih (hw2 ▸ c2) ⟨{ ppr1 with buffer := rest }, hw2 ▸ c3, by rw [← hnl, ← b2]⟩)

theorem dataReceived_qstep {w : World} (h : WInv w) (p : Nat) (ppr : Proto) (hpp : w.protos.get? p = some ppr) (hnl : ppr.lost = false)
    (data : Bytes) (hd : Bytes.WF data) : QStep w (dataReceived p data w).1 := by
  have hw : Bytes.WF (ppr.buffer ++ data) := by
    intro b hb
    rcases List.mem_append.mp hb with hb | hb
    · exact h.bufOk p ppr hpp b hb
    · exact hd b hb
  obtain ⟨c1, c2, c3⟩ := setBuffer_inv h p ppr hpp (fun b => b ++ data) hw
  have k2 : QStep w (setProto p (fun pr => { pr with buffer := pr.buffer ++ data }) w).1 := qs_setProto p _ w
  obtain ⟨w2, hw2⟩ : ∃ w2, w2 = (setProto p (fun pr => { pr with buffer := pr.buffer ++ data }) w).1 := ⟨_, rfl⟩
  have s2 : setProto p (fun pr => { pr with buffer := pr.buffer ++ data }) w = (w2, none) := by rw [hw2]; exact Prod.ext rfl c1
  rw [← hw2] at k2
  simp only [dataReceived]
  rw [seq_ok s2, read_apply]
  exact k2.trans (accumulate_qstep p _ (hw2 ▸ c2) ⟨{ ppr with buffer := ppr.buffer ++ data }, hw2 ▸ c3, hnl⟩)

/-! ### loss and timers: unconditional -/

theorem qs_cancelWindowAlarms (l : List Ent) : QS (cancelWindowAlarms l) := by unfold cancelWindowAlarms; qs
theorem qs_failWindow (p : Nat) (s : Bool) (r : Err) : QS (failWindow p s r) := by unfold failWindow; qs
theorem qs_drainQueue (p : Nat) (r : Err) (fuel : Nat) : QS (drainQueue p r fuel) := by
  induction fuel with
  | zero => exact qs_ok
  | succ f ih =>
    unfold drainQueue
    apply qs_read; intro w
    split
    · exact qs_ok
    · apply qs_seq (qs_setEnts_dropFirst _ _)
      apply qs_seq
      · split
        · exact qs_fireReqDfd _ _
        · exact qs_ok
      · exact ih
theorem qs_doConnectionLost (p : Nat) (r : Err) : QS (doConnectionLost p r) := by
  unfold doConnectionLost
  apply qs_read; intro w
  refine qs_seq (qs_cancelWindowAlarms _) (qs_seq (qs_cancelWindowAlarms _) (qs_seq (qs_cancelWindowAlarms _) (qs_seq (qs_cancelWindowAlarms _)
    (qs_seq (qs_failWindow _ _ _) (qs_seq (qs_failWindow _ _ _) ?_)))))
  apply qs_read; intro w'
  split
  · exact qs_seq (qs_purgeSession _ _) (qs_read fun _ => qs_drainQueue _ _ _)
  · exact qs_ok
theorem qs_connectionLost (p : Nat) (r : Err) : QS (connectionLost p r) := by
  unfold connectionLost
  apply qs_read; intro w
  apply qs_seq
  · split
    · exact qs_ok
    · exact qs_seq (qs_loopStop p) (qs_setProto _ _)
  apply qs_seq
  · split
    · exact qs_ok
    · exact qs_seq (qs_cancelTimer _) (qs_setProto _ _)
  apply qs_seq (qs_doConnectionLost p r)
  apply qs_seq (qs_setProto _ _)
  qs

theorem qs_runTimer (k : TKind) : QS (runTimer k) := by
  cases k with
  | connack cr => unfold runTimer abort; qs
  | pingLoop p => exact qs_seq (qs_setProto _ _) (qs_loopRun p)
  | pingAlarm p => exact qs_seq (qs_setProto _ _) (qs_emit _)
  | retry p rid => unfold runTimer; qs
  | onDisc p r => exact qs_emit _
theorem qs_fireTimer (t : Nat) : QS (fireTimer t) := by
  unfold fireTimer
  apply qs_read; intro w
  split
  · exact qs_emit _
  · split
    · exact qs_seq (qs_mod fun _ => ⟨rfl, rfl, fun _ => rfl⟩) (qs_runTimer _)
    · exact qs_emit _

/-! ### API calls -/

/-- publish(): the new message joins the end of the queue of its address under the next sequence number, then
    `_refillPublish` takes heads -/
theorem mkStep_qstep {x : Option Nat} {w : World} (h : WInvX x w) (p : Nat) (pr : Proto) (qosn msgId : Nat) (dfd : Option Nat) (bs : Bytes) :
    QStep w (mkStep p pr qosn msgId dfd bs w).1 := by
  obtain ⟨nr, hnr⟩ : ∃ nr : Req, nr = { kind := .publish, msgId := msgId, qos := qosn, encoded := bs, dfd := dfd, alarm := none, initial := pr.initialT, ivValue := pr.initialT, ivK := 1, bandwith := pr.bandwith, factor := pr.factor, seq := w.nextSeq } := ⟨_, rfl⟩
  simp only [mkStep, read_apply]
  have s1 : (Step.mod (fun w' : World => { w' with
      reqs := w'.reqs.set w.nextReq { kind := .publish, msgId := msgId, qos := qosn, encoded := bs, dfd := dfd, alarm := none, initial := pr.initialT, ivValue := pr.initialT, ivK := 1, bandwith := pr.bandwith, factor := pr.factor, seq := w'.nextSeq },
      nextReq := w.nextReq + 1, nextSeq := w'.nextSeq + 1 }) ;;
    setEnts (fun es => es ++ [⟨w.paddr p, .queue, 0, w.nextReq⟩])) w
      = (addQueue w (w.paddr p) w.nextReq nr (w.nextReq + 1) w.nextDfd (w.nextSeq + 1), none) := by rw [hnr]; rfl
  rw [← seq_assoc, seq_ok s1]
  refine QStep.trans ?_ (qs_refill p _)
  have hreq : ∀ r0, (addQueue w (w.paddr p) w.nextReq nr (w.nextReq + 1) w.nextDfd (w.nextSeq + 1)).req r0 = if w.nextReq = r0 then nr else w.req r0 :=
    fun r0 => req_set w w.nextReq _ r0 _ rfl
  refine ⟨Nat.le_succ _, fun a => ?_⟩
  have hn : (addQueue w (w.paddr p) w.nextReq nr (w.nextReq + 1) w.nextDfd (w.nextSeq + 1)).nextSeq - w.nextSeq = 1 := by
    show w.nextSeq + 1 - w.nextSeq = 1; omega
  rw [hn]
  show (QSeqs _ a).Sublist (QSeqs w a ++ [w.nextSeq])
  have hold : ∀ e ∈ Ents.items w.ents a .queue,
      ((addQueue w (w.paddr p) w.nextReq nr (w.nextReq + 1) w.nextDfd (w.nextSeq + 1)).req e.rid).seq = (w.req e.rid).seq := by
    intro e he
    have := h.ridFresh e (Ents.mem_items.mp he).1
    rw [hreq, if_neg (by omega)]
  simp only [QSeqs]
  show (List.map _ (Ents.items (w.ents ++ [_]) a .queue)).Sublist _
  rw [Ents.items_append, List.map_append, List.map_congr_left hold]
  apply List.Sublist.append (List.Sublist.refl _)
  split
  · have : ((addQueue w (w.paddr p) w.nextReq nr (w.nextReq + 1) w.nextDfd (w.nextSeq + 1)).req w.nextReq).seq = w.nextSeq := by
      rw [hreq]; simp [hnr]
    simp only [List.map_cons, List.map_nil, this]
    exact List.Sublist.refl _
  · simp

theorem apiPublish_qstep {w : World} (h : WInv w) (p : Nat) (topic : PyStr) (payload : Payload) (qos : Int) (retain : Bool) :
    QStep w (apiPublish p topic payload qos retain w).1 := by
  rw [apiPublish_eq]
  split
  · exact qs_emit _ w
  · split
    · exact qs_emit _ w
    · split
      · cases henc : encodePublishPy topic payload 0 retain none with
        | error e => exact qs_emit _ w
        | ok bs =>
          simp only
          have k := mkStep_qstep h p (w.proto p) qos.toNat 0 none bs
          simp only [Step.seq]
          rcases hm : mkStep p (w.proto p) qos.toNat 0 none bs w with ⟨w1, _ | e⟩
          · rw [hm] at k; exact k.trans (qs_emit _ w1)
          · rw [hm] at k; exact k
      · rw [makeId_apply]
        have h1 := counters_inv h (scanId w 65535 w.nextId) (w.idAllocs + 1) w.nextDfd (C17.scanId_range w w.nextId).2 (Nat.le_refl _)
        have k0 : QStep w { w with nextId := scanId w 65535 w.nextId, idAllocs := w.idAllocs + 1 } :=
          QSame.qstep (w := w) (w' := { w with nextId := scanId w 65535 w.nextId, idAllocs := w.idAllocs + 1 }) ⟨rfl, rfl, fun _ => rfl⟩
        refine k0.trans ?_
        generalize encodePublishPy topic payload qos.toNat retain _ = E
        cases E with
        | error e => exact qs_emit _ _
        | ok bs =>
          simp only [newDfd, read_apply]
          have s1 : Step.mod (fun w' : World => { w' with nextDfd := w.nextDfd + 1 }) { w with nextId := scanId w 65535 w.nextId, idAllocs := w.idAllocs + 1 }
              = ({ w with nextId := scanId w 65535 w.nextId, idAllocs := w.idAllocs + 1, nextDfd := w.nextDfd + 1 }, none) := rfl
          rw [seq_ok s1]
          have h2 := counters_inv h (scanId w 65535 w.nextId) (w.idAllocs + 1) (w.nextDfd + 1) (C17.scanId_range w w.nextId).2 (Nat.le_succ _)
          have k1 : QStep { w with nextId := scanId w 65535 w.nextId, idAllocs := w.idAllocs + 1 }
              { w with nextId := scanId w 65535 w.nextId, idAllocs := w.idAllocs + 1, nextDfd := w.nextDfd + 1 } :=
            QSame.qstep (w := { w with nextId := scanId w 65535 w.nextId, idAllocs := w.idAllocs + 1 })
              (w' := { w with nextId := scanId w 65535 w.nextId, idAllocs := w.idAllocs + 1, nextDfd := w.nextDfd + 1 }) ⟨rfl, rfl, fun _ => rfl⟩
          refine k1.trans ?_
          have k := mkStep_qstep h2 p (w.proto p) qos.toNat (scanId w 65535 w.nextId) (some w.nextDfd) bs
          simp only [Step.seq]
          rcases hm : mkStep p (w.proto p) qos.toNat (scanId w 65535 w.nextId) (some w.nextDfd) bs
              { w with nextId := scanId w 65535 w.nextId, idAllocs := w.idAllocs + 1, nextDfd := w.nextDfd + 1 } with ⟨w1, _ | e⟩
          · rw [hm] at k; exact k.trans (qs_emit _ w1)
          · rw [hm] at k; exact k

theorem qstep_seq_at {a b : Step} {w : World} (ha : QStep w (a w).1) (hb : QS b) : QStep w ((a ;; b) w).1 := by
  simp only [Step.seq]
  rcases hw : a w with ⟨w1, _ | e⟩
  · rw [hw] at ha; exact ha.trans (hb w1)
  · rw [hw] at ha; exact ha

theorem qs_setEnts_insert (a : Nat) (b : Box) (k rid : Nat) (hb : b ≠ .queue) : QS (setEnts fun es => Ents.insert es a b k rid) := by
  intro w
  refine qstep_sublist rfl rfl fun a' => ?_
  show (Ents.items (Ents.insert w.ents a b k rid) a' .queue).Sublist _
  rw [Ents.items_insert_other _ _ _ _ _ _ _ hb]
  exact List.Sublist.refl _

/-- a request record created at the fresh index `w.nextReq` is referred to by no queue entry -/
theorem qstep_newReq {x : Option Nat} {w : World} (h : WInvX x w) (w' : World) (r : Req) (he : w'.ents = w.ents)
    (hr : w'.reqs = w.reqs.set w.nextReq r) (hn : w'.nextSeq = w.nextSeq) : QStep w w' := by
  refine qstep_same hn (fun a => ?_)
  simp only [QSeqs, he]
  apply List.map_congr_left
  intro e hein
  have := h.ridFresh e (Ents.mem_items.mp hein).1
  rw [req_set w w.nextReq r e.rid w' hr, if_neg (by omega)]

theorem registerSubUnsub_qstep {x : Option Nat} {w : World} (h : WInvX x w) (p : Nat) (isSub : Bool) (i : Nat) (bs : Bytes) :
    QStep w (registerSubUnsub p isSub i bs w).1 := by
  simp only [registerSubUnsub, read_apply, newDfd]
  have s1 : Step.mod (fun w' : World => { w' with nextDfd := w.nextDfd + 1 }) w = ({ w with nextDfd := w.nextDfd + 1 }, none) := rfl
  rw [seq_ok s1]
  have k0 : QStep w { w with nextDfd := w.nextDfd + 1 } :=
    QSame.qstep (w := w) (w' := { w with nextDfd := w.nextDfd + 1 }) ⟨rfl, rfl, fun _ => rfl⟩
  refine k0.trans ?_
  have h1 : WInvX x { w with nextDfd := w.nextDfd + 1 } := counters_inv h w.nextId w.idAllocs (w.nextDfd + 1) h.idCounter (Nat.le_succ _)
  apply qstep_seq_at
  · exact qstep_newReq h1 _ _ rfl rfl rfl
  · apply qs_seq
    · exact qs_setEnts_insert _ _ _ _ (by cases isSub <;> simp)
    · exact qs_seq (qs_retrySubUnsub _ _ _ _) (qs_emit _)

theorem apiSubscribe_qstep {w : World} (h : WInv w) (p : Nat) (arg : SubArg) (qos : Int) : QStep w (apiSubscribe p arg qos w).1 := by
  simp only [apiSubscribe, read_apply]
  by_cases ha : allowed w p 2 = true
  · simp only [ha, Bool.not_true, Bool.false_eq_true, ↓reduceIte]
    by_cases hwin : Ents.count w.ents (w.paddr p) .sub ≥ (w.proto p).window
    · simp only [hwin, ↓reduceIte]; exact qs_emit _ w
    · simp only [hwin, ↓reduceIte]
      cases arg with
      | other => exact qs_emit _ w
      | _ =>
        simp only []
        split
        · exact qs_emit _ w
        split
        · exact qs_emit _ w
        · rw [makeId_apply]
          have h1 := counters_inv h (scanId w 65535 w.nextId) (w.idAllocs + 1) w.nextDfd (C17.scanId_range w w.nextId).2 (Nat.le_refl _)
          have k0 : QStep w { w with nextId := scanId w 65535 w.nextId, idAllocs := w.idAllocs + 1 } :=
            QSame.qstep (w := w) (w' := { w with nextId := scanId w 65535 w.nextId, idAllocs := w.idAllocs + 1 }) ⟨rfl, rfl, fun _ => rfl⟩
          refine k0.trans ?_
          generalize encodeWithId _ _ _ = E
          cases E with
          | error e => exact qs_emit _ _
          | ok bs => exact registerSubUnsub_qstep h1 p true _ bs
  · simp only [ha, Bool.not_false, ↓reduceIte]
    exact qs_emit _ w

theorem apiUnsubscribe_qstep {w : World} (h : WInv w) (p : Nat) (arg : UnsubArg) : QStep w (apiUnsubscribe p arg w).1 := by
  simp only [apiUnsubscribe, read_apply]
  by_cases ha : allowed w p 3 = true
  · simp only [ha, Bool.not_true, Bool.false_eq_true, ↓reduceIte]
    rw [makeId_apply]
    have h1 := counters_inv h (scanId w 65535 w.nextId) (w.idAllocs + 1) w.nextDfd (C17.scanId_range w w.nextId).2 (Nat.le_refl _)
    have k0 : QStep w { w with nextId := scanId w 65535 w.nextId, idAllocs := w.idAllocs + 1 } :=
      QSame.qstep (w := w) (w' := { w with nextId := scanId w 65535 w.nextId, idAllocs := w.idAllocs + 1 }) ⟨rfl, rfl, fun _ => rfl⟩
    refine k0.trans ?_
    obtain ⟨w1, hw1⟩ : ∃ w1 : World, w1 = { w with nextId := scanId w 65535 w.nextId, idAllocs := w.idAllocs + 1 } := ⟨_, rfl⟩
    rw [← hw1] at h1 ⊢
    simp only [read_apply]
    by_cases hwin : Ents.count w1.ents (w1.paddr p) .unsub ≥ (w1.proto p).window
    · simp only [hwin, ↓reduceIte]; exact qs_emit _ w1
    · simp only [hwin, ↓reduceIte]
      cases arg with
      | other => exact qs_emit _ w1
      | _ =>
        simp only []
        split
        · exact qs_emit _ w1
        rw [makeId_apply]
        have h2 := counters_inv h1 (scanId w1 65535 w1.nextId) (w1.idAllocs + 1) w1.nextDfd (C17.scanId_range w1 w1.nextId).2 (Nat.le_refl _)
        have k1 : QStep w1 { w1 with nextId := scanId w1 65535 w1.nextId, idAllocs := w1.idAllocs + 1 } :=
          QSame.qstep (w := w1) (w' := { w1 with nextId := scanId w1 65535 w1.nextId, idAllocs := w1.idAllocs + 1 }) ⟨rfl, rfl, fun _ => rfl⟩
        refine k1.trans ?_
        generalize encodeWithId _ _ _ = E
        cases E with
        | error e => exact qs_emit _ _
        | ok bs => exact registerSubUnsub_qstep h2 p false _ bs
  · simp only [ha, Bool.not_false, ↓reduceIte]
    exact qs_emit _ w

theorem qs_apiConnect (p : Nat) (a : ConnectArgs) : QS (apiConnect p a) := by
  unfold apiConnect
  generalize a.toF.encode = E
  apply qs_read; intro w
  split
  · exact qs_emit _
  · split
    · exact qs_emit _
    · cases E with
      | error e =>
        dsimp only
        split
        · exact qs_emit _
        · exact qs_raise _
      | ok pdu => dsimp only; qs

theorem qs_apiDisconnect (p : Nat) : QS (apiDisconnect p) := by unfold apiDisconnect; qs
theorem qs_apiSetWindow (p : Nat) (n : PyNum) : QS (apiSetWindow p n) := by unfold apiSetWindow; qs
theorem qs_apiSetTimeout (p : Nat) (n : PyNum) : QS (apiSetTimeout p n) := by unfold apiSetTimeout; qs
theorem qs_apiSetBandwith (p : Nat) (a b : Rat) : QS (apiSetBandwith p a b) := by unfold apiSetBandwith; qs
theorem qs_apiSetHandlers (p m : Nat) : QS (apiSetHandlers p m) := by unfold apiSetHandlers; qs

/-! ### every operation -/

theorem step_qstep {w : World} (h : WInv w) (op : Op) (henv : Env w op) : QStep w (step w op) := by
  have hstep : ∀ (s : Step), QStep w (s w).1 → QStep w (match s w with
      | (w', none) => w'
      | (w', some e) => { w' with log := w'.log ++ [if op.isReactor then .esc e else .raised e] }) := by
    intro s hk
    rcases hs : s w with ⟨w', _ | e⟩
    · rw [hs] at hk; exact hk
    · rw [hs] at hk
      exact hk.trans (QSame.qstep (w := w') (w' := { w' with log := w'.log ++ [if op.isReactor then .esc e else .raised e] }) ⟨rfl, rfl, fun _ => rfl⟩)
  unfold step
  cases op with
  | build a => exact hstep (buildProtocol a) (QSame.qstep ⟨rfl, rfl, fun _ => rfl⟩)
  | sethandlers p m => exact hstep _ (qs_apiSetHandlers p m w)
  | connect p a => exact hstep _ (qs_apiConnect p a w)
  | disconnect p => exact hstep _ (qs_apiDisconnect p w)
  | publish p t pl q r => exact hstep _ (apiPublish_qstep h p t pl q r)
  | subscribe p a q => exact hstep _ (apiSubscribe_qstep h p a q)
  | unsubscribe p a => exact hstep _ (apiUnsubscribe_qstep h p a)
  | setwin p n => exact hstep _ (qs_apiSetWindow p n w)
  | settimeout p n => exact hstep _ (qs_apiSetTimeout p n w)
  | setbw p b f => exact hstep _ (qs_apiSetBandwith p b f w)
  | jit v => exact hstep (Step.mod fun w => { w with jitter := v }) (QSame.qstep ⟨rfl, rfl, fun _ => rfl⟩)
  | setid v => exact henv.elim
  | recv p d =>
    obtain ⟨⟨ppr, hpp, hnl⟩, hd⟩ := henv
    exact hstep _ (dataReceived_qstep h p ppr hpp hnl d hd)
  | lost p r => exact hstep _ (qs_connectionLost p r w)
  | fire t => exact hstep _ (qs_fireTimer t w)

theorem run_fifo : ∀ (ops : List Op) {w : World}, WInv w → Fifo w → EnvRun w ops → Fifo (run w ops) := by
  intro ops
  induction ops with
  | nil => intro w _ hf _; exact hf
  | cons op rest ih =>
    intro w h hf henv
    exact ih (step_inv h op henv.1) (hf.step (step_qstep h op henv.1)) henv.2

/-- **the queue of held-back publishes is in publish() order, in every reachable world** -/
theorem reachable_fifo (profile : Nat) (hp : profile = 1 ∨ profile = 2 ∨ profile = 3) (ops : List Op)
    (henv : EnvRun (World.init profile) ops) : Fifo (run (World.init profile) ops) :=
  run_fifo ops (WInv.init profile hp) (fun a => by simp [QSeqs, World.init, Ents.items]) henv

end Mqtt
