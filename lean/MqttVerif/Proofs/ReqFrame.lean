import MqttVerif.Proofs.ProtoFrame
/-
  C19, the object layer: a handler writes to no request object but those its own address's dictionaries refer to (and those it
  creates).  `S` is a set of protected request ids, all allocated before `N0`; `RGood`: no entry of `q`'s address refers to one.
  `RQ S N0 q s`: run by protocol `q`, `s` keeps `RGood` and leaves every protected request object -- packet bytes, identifier,
  QoS, Deferred, retry timer reference, retry interval -- exactly as it was.  Instantiated with `S` = the requests that the
  dictionaries of another address refer to (disjoint from `q`'s by `WInv.ridUnique`) this is `other_step_requests`.
-/
namespace Mqtt

structure RGood (S : Nat → Prop) (N0 q : Nat) (w : World) : Prop where
  ents : ∀ e ∈ w.ents, e.addr = w.paddr q → ¬ S e.rid
  bound : ∀ r, S r → r < N0
  next : N0 ≤ w.nextReq

def RQ (S : Nat → Prop) (N0 q : Nat) (s : Step) : Prop :=
  ∀ w, RGood S N0 q w → RGood S N0 q (s w).1 ∧ (∀ q', (s w).1.paddr q' = w.paddr q') ∧ ∀ r, S r → (s w).1.reqs.get? r = w.reqs.get? r


section rq
variable {S : Nat → Prop} {N0 q : Nat}

theorem rq_ok : RQ S N0 q Step.ok := fun _ h => ⟨h, fun _ => rfl, fun _ _ => rfl⟩
theorem rq_raise (e : Err) : RQ S N0 q (Step.raise e) := fun _ h => ⟨h, fun _ => rfl, fun _ _ => rfl⟩
theorem rq_seq {a b : Step} (ha : RQ S N0 q a) (hb : RQ S N0 q b) : RQ S N0 q (a ;; b) := by
  intro w h
  obtain ⟨a1, a2, a3⟩ := ha w h
  simp only [Step.seq]
  rcases hw : a w with ⟨w1, _ | e⟩
  · rw [hw] at a1 a2 a3
    obtain ⟨b1, b2, b3⟩ := hb w1 a1
    exact ⟨b1, fun q' => (b2 q').trans (a2 q'), fun r hr => (b3 r hr).trans (a3 r hr)⟩
  · rw [hw] at a1 a2 a3
    exact ⟨a1, a2, a3⟩
theorem rq_read {f : World → Step} (h : ∀ w, RGood S N0 q w → RQ S N0 q (f w)) : RQ S N0 q (Step.read f) := fun w hw => h w hw w hw
/-- a step that touches neither the dictionaries, nor the request table, nor a protocol's address -/
theorem rq_modrfl {f : World → World} (h1 : ∀ w, (f w).ents = w.ents) (h2 : ∀ w, (f w).reqs = w.reqs) (h3 : ∀ w, (f w).nextReq = w.nextReq)
    (h4 : ∀ w q', (f w).paddr q' = w.paddr q') : RQ S N0 q (Step.mod f) := by
  intro w h
  refine ⟨⟨fun e he ha => ?_, h.bound, ?_⟩, h4 w, fun r _ => ?_⟩
  · have he' : e ∈ w.ents := by have := he; simp only [Step.mod] at this; rw [h1] at this; exact this
    exact h.ents e he' (by rw [← h4 w q]; exact ha)
  · show N0 ≤ (f w).nextReq; rw [h3]; exact h.next
  · show (f w).reqs.get? r = _; rw [h2]
theorem rq_setProto (q' : Nat) (g : Proto → Proto) (hg : ∀ pr, (g pr).addr = pr.addr) : RQ S N0 q (setProto q' g) :=
  rq_modrfl (fun _ => rfl) (fun _ => rfl) (fun _ => rfl) (fun w q'' => paddr_setProto w q' g hg q'')
theorem rq_emit (o : Obs) : RQ S N0 q (emit o) := rq_modrfl (fun _ => rfl) (fun _ => rfl) (fun _ => rfl) (fun _ _ => rfl)
theorem rq_write (q' : Nat) (b : Bytes) : RQ S N0 q (write q' b) := rq_emit _
theorem rq_abort (q' : Nat) : RQ S N0 q (abort q') := rq_emit _

/-- the only primitive that writes a request object -/
theorem rq_setReqW (w : World) (h : RGood S N0 q w) (rid : Nat) (g : Req → Req) (hr : ¬ S rid) :
    RGood S N0 q (w.setReq rid g) ∧ ∀ r, S r → (w.setReq rid g).reqs.get? r = w.reqs.get? r :=
  ⟨⟨h.ents, h.bound, h.next⟩, fun r hs => by
    simp only [World.setReq, Dict.get?_set]
    rw [if_neg (fun (hc : rid = r) => hr (hc ▸ hs))]⟩
theorem rq_setReq (rid : Nat) (g : Req → Req) (hr : ¬ S rid) : RQ S N0 q (setReq rid g) := fun w h =>
  ⟨(rq_setReqW w h rid g hr).1, fun _ => rfl, (rq_setReqW w h rid g hr).2⟩

theorem rq_setEnts {g : List Ent → List Ent} (hg : ∀ es e, e ∈ g es → e ∈ es ∨ ¬ S e.rid) : RQ S N0 q (setEnts g) := by
  intro w h
  refine ⟨⟨fun e he ha => ?_, h.bound, h.next⟩, fun _ => rfl, fun _ _ => rfl⟩
  rcases hg w.ents e he with h1 | h1
  · exact h.ents e h1 ha
  · exact h1
theorem rq_remove (a : Nat) (b : Box) (k : Nat) : RQ S N0 q (setEnts fun es => Ents.remove es a b k) := rq_setEnts fun _ _ he => Or.inl (Ents.mem_remove he)
theorem rq_dropFirst (a : Nat) (b : Box) : RQ S N0 q (setEnts fun es => Ents.dropFirst es a b) := rq_setEnts fun _ _ he => Or.inl (Ents.mem_dropFirst he)
theorem rq_insert (a : Nat) (b : Box) (k rid : Nat) (hr : ¬ S rid) : RQ S N0 q (setEnts fun es => Ents.insert es a b k rid) :=
  rq_setEnts fun _ e he => by
    rcases Ents.mem_insert he with h | h
    · exact Or.inl h
    · exact Or.inr (by rw [h]; exact hr)
theorem rq_append (a : Nat) (b : Box) (k rid : Nat) (hr : ¬ S rid) : RQ S N0 q (setEnts fun es => es ++ [⟨a, b, k, rid⟩]) :=
  rq_setEnts fun _ e he => by
    simp only [List.mem_append, List.mem_singleton] at he
    rcases he with h | h
    · exact Or.inl h
    · exact Or.inr (by rw [h]; exact hr)

/-- a new request object at an index that was free when the protected set was fixed -/
theorem rq_newReq {f : World → World} (nid : Nat) (hn : N0 ≤ nid) (h1 : ∀ w, (f w).ents = w.ents) (h2 : ∀ w, ∃ R, (f w).reqs = w.reqs.set nid R)
    (h3 : ∀ w, (f w).nextReq = nid + 1) (h4 : ∀ w q', (f w).paddr q' = w.paddr q') : RQ S N0 q (Step.mod f) := by
  intro w h
  refine ⟨⟨fun e he ha => ?_, h.bound, ?_⟩, h4 w, fun r hs => ?_⟩
  · have he' : e ∈ w.ents := by have := he; simp only [Step.mod] at this; rw [h1] at this; exact this
    exact h.ents e he' (by rw [← h4 w q]; exact ha)
  · show N0 ≤ (f w).nextReq; rw [h3]; omega
  · obtain ⟨R, hR⟩ := h2 w
    show (f w).reqs.get? r = _
    rw [hR, Dict.get?_set, if_neg (by have := h.bound r hs; omega)]

theorem rq_callLater (d : Rat) (k : TKind) {c : Nat → Step} (hc : ∀ t, RQ S N0 q (c t)) : RQ S N0 q (callLater d k c) :=
  rq_read fun _ _ => rq_seq (rq_modrfl (fun _ => rfl) (fun _ => rfl) (fun _ => rfl) (fun _ _ => rfl)) (hc _)
theorem rq_newDfd {c : Nat → Step} (hc : ∀ t, RQ S N0 q (c t)) : RQ S N0 q (newDfd c) :=
  rq_read fun _ _ => rq_seq (rq_modrfl (fun _ => rfl) (fun _ => rfl) (fun _ => rfl) (fun _ _ => rfl)) (hc _)
theorem rq_makeId {c : Nat → Step} (hc : ∀ t, RQ S N0 q (c t)) : RQ S N0 q (makeId c) :=
  rq_read fun _ _ => rq_seq (rq_modrfl (fun _ => rfl) (fun _ => rfl) (fun _ => rfl) (fun _ _ => rfl)) (hc _)
theorem rq_cancelTimer (t : Nat) : RQ S N0 q (cancelTimer t) := by
  refine rq_read fun w _ => ?_
  split
  · exact rq_raise _
  · split
    · exact rq_modrfl (fun _ => rfl) (fun _ => rfl) (fun _ => rfl) (fun _ _ => rfl)
    · exact rq_raise _
    · exact rq_raise _
theorem rq_cancelAlarm (a : Option Nat) : RQ S N0 q (cancelAlarm a) := by
  cases a with
  | none => exact rq_raise _
  | some t => exact rq_cancelTimer t
theorem rq_fireDfd (d : Nat) (o : Outcome) : RQ S N0 q (fireDfd d o) := by
  refine rq_read fun w _ => ?_
  split
  · exact rq_raise _
  · exact rq_seq (rq_modrfl (fun _ => rfl) (fun _ => rfl) (fun _ => rfl) (fun _ _ => rfl)) (rq_emit _)
theorem rq_fireReqDfd (d : Option Nat) (o : Outcome) : RQ S N0 q (fireReqDfd d o) := by
  cases d with
  | none => exact rq_raise _
  | some d => exact rq_fireDfd d o
theorem rq_forEach {α : Type} (l : List α) {f : α → Step} (hf : ∀ a ∈ l, RQ S N0 q (f a)) : RQ S N0 q (forEach l f) := by
  induction l with
  | nil => exact rq_ok
  | cons a r ih => exact rq_seq (hf a (by simp)) (ih fun x hx => hf x (by simp [hx]))
theorem rq_deliver (q' : Nat) (m : RxMsg) : RQ S N0 q (deliver q' m) := by
  refine rq_read fun w _ => ?_
  split
  · exact rq_emit _
  · exact rq_ok

/-! ### the retry helpers write the one request they are given -/

theorem retryPublishW_nextReq (p rid : Nat) (dup : Bool) (w : World) : (retryPublishW p rid dup w).nextReq = w.nextReq := by
  simp only [retryPublishW]; split <;> rfl
theorem retryReleaseW_nextReq (p rid : Nat) (dup : Bool) (w : World) : (retryReleaseW p rid dup w).nextReq = w.nextReq := by
  simp only [retryReleaseW]; split <;> rfl
theorem retrySubUnsubW_nextReq (p rid : Nat) (dup s : Bool) (w : World) : (retrySubUnsubW p rid dup s w).nextReq = w.nextReq := by
  simp only [retrySubUnsubW]; split <;> rfl

theorem retryPublishW_reqs (p rid : Nat) (dup : Bool) (w : World) (r : Nat) (hr : r ≠ rid) : (retryPublishW p rid dup w).reqs.get? r = w.reqs.get? r := by
  have hne : ¬ rid = r := fun h => hr h.symm
  simp only [retryPublishW]
  split <;> simp only [emit_reqs, setReq_reqs, callLater_reqs, Dict.get?_set, hne, ↓reduceIte]
theorem retryReleaseW_reqs (p rid : Nat) (dup : Bool) (w : World) (r : Nat) (hr : r ≠ rid) : (retryReleaseW p rid dup w).reqs.get? r = w.reqs.get? r := by
  have hne : ¬ rid = r := fun h => hr h.symm
  simp only [retryReleaseW]
  split <;> simp only [emit_reqs, setReq_reqs, callLater_reqs, Dict.get?_set, hne, ↓reduceIte]
theorem retrySubUnsubW_reqs (p rid : Nat) (dup s : Bool) (w : World) (r : Nat) (hr : r ≠ rid) : (retrySubUnsubW p rid dup s w).reqs.get? r = w.reqs.get? r := by
  have hne : ¬ rid = r := fun h => hr h.symm
  simp only [retrySubUnsubW]
  split <;> simp only [emit_reqs, setReq_reqs, callLater_reqs, Dict.get?_set, hne, ↓reduceIte]

theorem rq_of_world {f : World → World} (rid : Nat) (hr : ¬ S rid) (h1 : ∀ w, (f w).ents = w.ents) (h2 : ∀ w r, r ≠ rid → (f w).reqs.get? r = w.reqs.get? r)
    (h3 : ∀ w, (f w).nextReq = w.nextReq) (h4 : ∀ w q', (f w).paddr q' = w.paddr q') : RQ S N0 q (Step.mod f) := by
  intro w h
  refine ⟨⟨fun e he ha => ?_, h.bound, ?_⟩, h4 w, fun r hs => h2 w r (fun hc => hr (hc ▸ hs))⟩
  · have he' : e ∈ w.ents := by have := he; simp only [Step.mod] at this; rw [h1] at this; exact this
    exact h.ents e he' (by rw [← h4 w q]; exact ha)
  · show N0 ≤ (f w).nextReq; rw [h3]; exact h.next

theorem rq_retryPublish (p rid : Nat) (dup : Bool) (hr : ¬ S rid) : RQ S N0 q (retryPublish p rid dup) :=
  rq_of_world rid hr (retryPublishW_ents p rid dup) (retryPublishW_reqs p rid dup) (retryPublishW_nextReq p rid dup) (fun w q' => retryPublishW_paddr p rid dup w q')
theorem rq_retryRelease (p rid : Nat) (dup : Bool) (hr : ¬ S rid) : RQ S N0 q (retryRelease p rid dup) :=
  rq_of_world rid hr (retryReleaseW_ents p rid dup) (retryReleaseW_reqs p rid dup) (retryReleaseW_nextReq p rid dup) (fun w q' => retryReleaseW_paddr p rid dup w q')
theorem rq_retrySubUnsub (p rid : Nat) (dup s : Bool) (hr : ¬ S rid) : RQ S N0 q (retrySubUnsub p rid dup s) :=
  rq_of_world rid hr (retrySubUnsubW_ents p rid dup s) (retrySubUnsubW_reqs p rid dup s) (retrySubUnsubW_nextReq p rid dup s) (fun w q' => retrySubUnsubW_paddr p rid dup s w q')


/-! ### loops -/

theorem RGood.items {w : World} (h : RGood S N0 q w) {b : Box} {e : Ent} (he : e ∈ Ents.items w.ents (w.paddr q) b) : ¬ S e.rid :=
  h.ents e (Ents.mem_items.mp he).1 (Ents.items_addr he)
theorem RGood.lookup {w : World} (h : RGood S N0 q w) {b : Box} {k rid : Nat} (hl : Ents.lookup w.ents (w.paddr q) b k = some rid) : ¬ S rid :=
  h.ents ⟨w.paddr q, b, k, rid⟩ (Ents.lookup_some hl) rfl
theorem RGood.fresh {w : World} (h : RGood S N0 q w) : ¬ S w.nextReq := fun hs => by have := h.bound _ hs; have := h.next; omega

theorem refillW_rq (dup : Bool) (fuel : Nat) : ∀ (w : World), RGood S N0 q w →
    RGood S N0 q (refillW q dup fuel w) ∧ ∀ r, S r → (refillW q dup fuel w).reqs.get? r = w.reqs.get? r := by
  induction fuel with
  | zero => intro w h; exact ⟨h, fun _ _ => rfl⟩
  | succ f ih =>
    intro w h
    simp only [refillW]
    split
    · exact ⟨h, fun _ _ => rfl⟩
    · rename_i e rest heq
      have he : e ∈ Ents.items w.ents (w.paddr q) .queue := by rw [heq]; simp
      have hrid : ¬ S e.rid := h.items he
      split
      · -- the world handed to retryPublishW: the entry moved from the queue to the window
        have key : ∀ (w2 : World), w2.reqs = w.reqs → w2.nextReq = w.nextReq → (∀ q', w2.paddr q' = w.paddr q') →
            (∀ x ∈ w2.ents, x ∈ w.ents ∨ ¬ S x.rid) →
            RGood S N0 q (refillW q dup f (retryPublishW q e.rid dup w2)) ∧
              ∀ r, S r → (refillW q dup f (retryPublishW q e.rid dup w2)).reqs.get? r = w.reqs.get? r := by
          intro w2 h2 h3 h4 h5
          have g2 : RGood S N0 q (retryPublishW q e.rid dup w2) :=
            ⟨fun x hx ha => by
                rw [retryPublishW_ents] at hx
                rw [retryPublishW_paddr, h4] at ha
                rcases h5 x hx with h6 | h6
                · exact h.ents x h6 ha
                · exact h6,
             h.bound, by rw [retryPublishW_nextReq, h3]; exact h.next⟩
          obtain ⟨i1, i2⟩ := ih _ g2
          refine ⟨i1, fun r hs => ?_⟩
          rw [i2 r hs, retryPublishW_reqs q e.rid dup w2 r (fun hc => hrid (hc ▸ hs)), h2]
        split
        · refine key _ rfl rfl (fun _ => rfl) fun x hx => ?_
          simp only [World.setEnts] at hx
          rcases Ents.mem_insert hx with h6 | h6
          · exact Or.inl (Ents.mem_dropFirst h6)
          · exact Or.inr (by rw [h6]; exact hrid)
        · refine key _ rfl rfl (fun _ => rfl) fun x hx => ?_
          simp only [World.setEnts] at hx
          exact Or.inl (Ents.mem_dropFirst hx)
      · exact ⟨h, fun _ _ => rfl⟩

theorem rq_refill : RQ S N0 q (refill q) := fun w h =>
  ⟨(refillW_rq false _ w h).1, fun q' => refillW_paddr q false _ w q', (refillW_rq false _ w h).2⟩

theorem foldRel_rq (l : List Ent) (hl : ∀ e ∈ l, ¬ S e.rid) : ∀ (w : World), RGood S N0 q w →
    RGood S N0 q (l.foldl (fun w e => if (w.req e.rid).alarm = none then retryReleaseW q e.rid true w else w) w) ∧
    ∀ r, S r → (l.foldl (fun w e => if (w.req e.rid).alarm = none then retryReleaseW q e.rid true w else w) w).reqs.get? r = w.reqs.get? r := by
  induction l with
  | nil => intro w h; exact ⟨h, fun _ _ => rfl⟩
  | cons e r ih =>
    intro w h
    have hr : ¬ S e.rid := hl e (by simp)
    simp only [List.foldl]
    split
    · have g : RGood S N0 q (retryReleaseW q e.rid true w) :=
        ⟨fun x hx ha => by rw [retryReleaseW_ents] at hx; rw [retryReleaseW_paddr] at ha; exact h.ents x hx ha, h.bound,
         by rw [retryReleaseW_nextReq]; exact h.next⟩
      obtain ⟨i1, i2⟩ := ih (fun x hx => hl x (by simp [hx])) _ g
      exact ⟨i1, fun r' hs => by rw [i2 r' hs, retryReleaseW_reqs q e.rid true w r' (fun hc => hr (hc ▸ hs))]⟩
    · exact ih (fun x hx => hl x (by simp [hx])) w h
theorem foldPub_rq (l : List Ent) (hl : ∀ e ∈ l, ¬ S e.rid) : ∀ (w : World), RGood S N0 q w →
    RGood S N0 q (l.foldl (fun w e => if (w.req e.rid).alarm = none then retryPublishW q e.rid true w else w) w) ∧
    ∀ r, S r → (l.foldl (fun w e => if (w.req e.rid).alarm = none then retryPublishW q e.rid true w else w) w).reqs.get? r = w.reqs.get? r := by
  induction l with
  | nil => intro w h; exact ⟨h, fun _ _ => rfl⟩
  | cons e r ih =>
    intro w h
    have hr : ¬ S e.rid := hl e (by simp)
    simp only [List.foldl]
    split
    · have g : RGood S N0 q (retryPublishW q e.rid true w) :=
        ⟨fun x hx ha => by rw [retryPublishW_ents] at hx; rw [retryPublishW_paddr] at ha; exact h.ents x hx ha, h.bound,
         by rw [retryPublishW_nextReq]; exact h.next⟩
      obtain ⟨i1, i2⟩ := ih (fun x hx => hl x (by simp [hx])) _ g
      exact ⟨i1, fun r' hs => by rw [i2 r' hs, retryPublishW_reqs q e.rid true w r' (fun hc => hr (hc ▸ hs))]⟩
    · exact ih (fun x hx => hl x (by simp [hx])) w h

theorem rq_syncSession : RQ S N0 q (syncSession q) := by
  intro w h
  have h1 := foldRel_rq (S := S) (N0 := N0) (q := q) (Ents.items w.ents (w.paddr q) .rel) (fun e he => h.items he) w h
  generalize hw1 : List.foldl (fun w e => if (w.req e.rid).alarm = none then retryReleaseW q e.rid true w else w) w (Ents.items w.ents (w.paddr q) .rel) = w1 at h1
  have h2 := foldPub_rq (S := S) (N0 := N0) (q := q) (Ents.items w1.ents (w1.paddr q) .pub) (fun e he => h1.1.items he) w1 h1.1
  refine ⟨?_, fun q' => syncW_paddr q w q', fun r hs => ?_⟩
  · show RGood S N0 q (syncW q w)
    simp only [syncW]; rw [hw1]; exact h2.1
  · show (syncW q w).reqs.get? r = _
    simp only [syncW]; rw [hw1, h2.2 r hs, h1.2 r hs]

/-! ### handlers -/

theorem rq_purgeWindow (rel : Bool) (r : Err) : RQ S N0 q (purgeWindow q rel r) := by
  unfold purgeWindow
  refine rq_read fun w hw => ?_
  dsimp only
  refine rq_forEach _ fun e _ => ?_
  refine rq_read fun w' _ => ?_
  split
  · exact rq_seq (rq_remove _ _ _) (rq_fireReqDfd _ _)
  · exact rq_ok
theorem rq_purgeSession (r : Err) : RQ S N0 q (purgeSession q r) := rq_seq (rq_purgeWindow _ _) (rq_purgeWindow _ _)

macro "rq_step" : tactic => `(tactic| first
  | with_reducible exact rq_ok | with_reducible exact rq_raise _ | with_reducible exact rq_emit _
  | with_reducible exact rq_write _ _ | with_reducible exact rq_abort _
  | ((with_reducible apply rq_setProto); (intro pr; rfl))
  | with_reducible exact rq_cancelTimer _ | with_reducible exact rq_cancelAlarm _
  | with_reducible exact rq_fireDfd _ _ | with_reducible exact rq_fireReqDfd _ _
  | with_reducible exact rq_refill | with_reducible exact rq_syncSession
  | with_reducible exact rq_deliver _ _
  | with_reducible exact rq_remove _ _ _ | with_reducible exact rq_dropFirst _ _
  | ((with_reducible refine rq_modrfl (fun w => ?h1) (fun w => ?h2) (fun w => ?h3) (fun w q' => ?h4)); (case h1 => rfl); (case h2 => rfl); (case h3 => rfl); (case h4 => rfl))
  | with_reducible apply rq_seq
  | (with_reducible refine rq_read (fun w hw => ?_))
  | ((with_reducible apply rq_callLater); intro t) | ((with_reducible apply rq_newDfd); intro t)
  | ((with_reducible apply rq_makeId); intro t)
  | split
  | dsimp only)
macro "rqs" : tactic => `(tactic| repeat rq_step)

theorem rq_mqttConnectionMade : RQ S N0 q (mqttConnectionMade q) := by
  unfold mqttConnectionMade
  refine rq_read fun w hw => ?_
  refine rq_seq ?_ (rq_seq rq_refill ?_)
  · split
    · exact rq_purgeSession _
    · exact rq_syncSession
  · rqs
theorem rq_doPingRequest : RQ S N0 q (doPingRequest q) := by unfold doPingRequest; rqs
theorem rq_ping : RQ S N0 q (ping q) := by
  unfold ping
  refine rq_read fun w hw => ?_
  split
  · exact rq_doPingRequest
  · exact rq_raise _
theorem rq_loopRun : RQ S N0 q (loopRun q) := by
  intro w hg
  obtain ⟨k1, k2, k3⟩ := rq_ping (S := S) (N0 := N0) (q := q) w hg
  have hcont : RQ S N0 q (Step.read fun w =>
      match (w.proto q).pingTimer with
      | some l =>
        if l.running then
          callLater l.interval (.pingLoop q) fun tid =>
            setProto q (fun pr => { pr with pingTimer := (pr.pingTimer.map fun l => { l with call := some tid }) })
        else Step.ok
      | none => Step.ok) := by rqs
  have hstop : RQ S N0 q (setProto q (fun pr => { pr with pingTimer := (pr.pingTimer.map fun l => { l with running := false, call := none }) })) :=
    rq_setProto _ _ fun _ => rfl
  unfold loopRun
  rcases hw : ping q w with ⟨w1, _ | e⟩
  · rw [hw] at k1 k2 k3
    obtain ⟨c1, c2, c3⟩ := hcont w1 k1
    simp only
    exact ⟨c1, fun q' => (c2 q').trans (k2 q'), fun r hs => (c3 r hs).trans (k3 r hs)⟩
  · rw [hw] at k1 k2 k3
    obtain ⟨c1, c2, c3⟩ := hstop w1 k1
    simp only
    exact ⟨c1, fun q' => (c2 q').trans (k2 q'), fun r hs => (c3 r hs).trans (k3 r hs)⟩
theorem rq_loopStop : RQ S N0 q (loopStop q) := by unfold loopStop; rqs
theorem rq_handleCONNACK (session : Bool) (rc : Nat) : RQ S N0 q (handleCONNACK q session rc) := by
  unfold handleCONNACK
  refine rq_read fun w hw => ?_
  split
  · exact rq_raise _
  · split
    · exact rq_raise _
    · split
      · exact rq_ok
      · refine rq_seq (rq_cancelTimer _) (rq_seq ?_ (rq_setProto _ _ fun _ => rfl))
        split
        · refine rq_seq (rq_setProto _ _ fun _ => rfl) (rq_seq rq_mqttConnectionMade (rq_seq ?_ (rq_fireDfd _ _)))
          split
          · exact rq_seq (rq_setProto _ _ fun _ => rfl) rq_loopRun
          · exact rq_ok
        · exact rq_seq (rq_setProto _ _ fun _ => rfl) (rq_fireDfd _ _)
theorem rq_handlePINGRESP : RQ S N0 q (handlePINGRESP q) := by unfold handlePINGRESP; rqs
theorem rq_handleSubUnsubAck (isSub : Bool) (m : Nat) (v : Val) : RQ S N0 q (handleSubUnsubAck q isSub m v) := by unfold handleSubUnsubAck; rqs
theorem rq_handlePUBLISH (m : RxMsg) : RQ S N0 q (handlePUBLISH q m) := by
  unfold handlePUBLISH
  split
  · exact rq_deliver _ _
  · split
    · split
      · exact rq_seq (rq_write _ _) (rq_deliver _ _)
      · exact rq_raise _
    · split
      · refine rq_seq (rq_modrfl (fun _ => rfl) (fun _ => rfl) (fun _ => rfl) (fun _ _ => rfl)) ?_
        split
        · exact rq_write _ _
        · exact rq_raise _
      · exact rq_ok
theorem rq_handlePUBREL (m : Nat) : RQ S N0 q (handlePUBREL q m) := by
  unfold handlePUBREL
  refine rq_read fun w hw => ?_
  refine rq_seq ?_ ?_
  · split
    · exact rq_ok
    · exact rq_seq (rq_modrfl (fun _ => rfl) (fun _ => rfl) (fun _ => rfl) (fun _ _ => rfl)) (rq_deliver _ _)
  · split
    · exact rq_write _ _
    · exact rq_raise _
theorem rq_handlePUBACK (m : Nat) : RQ S N0 q (handlePUBACK q m) := by unfold handlePUBACK; rqs
theorem rq_handlePUBCOMP (m : Nat) : RQ S N0 q (handlePUBCOMP q m) := by unfold handlePUBCOMP; rqs
theorem rq_handlePUBREC (m : Nat) : RQ S N0 q (handlePUBREC q m) := by
  unfold handlePUBREC
  generalize encodePUBREL (m : Int) = E
  refine rq_read fun w hw => ?_
  split
  · exact rq_ok
  · split
    · exact rq_ok
    · refine rq_seq (rq_cancelAlarm _) (rq_seq (rq_remove _ _ _) ?_)
      cases E with
      | error e => exact rq_raise _
      | ok bs =>
        refine rq_read fun w' hw' => ?_
        have hf : ¬ S w'.nextReq := hw'.fresh
        refine rq_seq (rq_newReq w'.nextReq hw'.next (fun _ => rfl) (fun _ => ⟨_, rfl⟩) (fun _ => rfl) (fun _ _ => rfl)) ?_
        exact rq_seq (rq_insert _ _ _ _ hf) (rq_retryRelease _ _ _ hf)
theorem rq_processPacket (pkt : Bytes) : RQ S N0 q (processPacket q pkt) := by
  unfold processPacket
  split
  · exact rq_raise _
  · dsimp only
    split
    · exact rq_abort _
    · split
      · exact rq_abort _
      · refine rq_read fun w hw => ?_
        split
        all_goals (try exact rq_abort _)
        all_goals (split <;> (try split) <;> first
          | exact rq_abort _ | exact rq_ok | exact rq_handleCONNACK _ _ | exact rq_handlePINGRESP
          | exact rq_handleSubUnsubAck _ _ _ | exact rq_handlePUBLISH _ | exact rq_handlePUBACK _
          | exact rq_handlePUBREC _ | exact rq_handlePUBREL _ | exact rq_handlePUBCOMP _)
theorem rq_accumulate (fuel : Nat) : RQ S N0 q (accumulate q fuel) := by
  induction fuel with
  | zero => exact rq_ok
  | succ f ih =>
    unfold accumulate
    refine rq_read fun w hw => ?_
    split
    · exact rq_ok
    · exact rq_seq (rq_processPacket _) (rq_seq (rq_setProto _ _ fun _ => rfl) ih)
theorem rq_dataReceived (d : Bytes) : RQ S N0 q (dataReceived q d) := by
  unfold dataReceived
  exact rq_seq (rq_setProto _ _ fun _ => rfl) (rq_read fun w _ => rq_accumulate _)

theorem rq_cancelWindowAlarms (l : List Ent) (hl : ∀ e ∈ l, ¬ S e.rid) : RQ S N0 q (cancelWindowAlarms l) := by
  unfold cancelWindowAlarms
  refine rq_forEach _ fun e he => ?_
  refine rq_read fun w hw => ?_
  split
  · exact rq_ok
  · exact rq_seq (rq_cancelTimer _) (rq_setReq _ _ (hl e he))
theorem rq_failWindow (isSub : Bool) (r : Err) : RQ S N0 q (failWindow q isSub r) := by
  unfold failWindow
  refine rq_read fun w hw => ?_
  dsimp only
  refine rq_forEach _ fun e _ => ?_
  exact rq_seq (rq_remove _ _ _) (rq_read fun w' _ => rq_fireReqDfd _ _)
theorem rq_drainQueue (r : Err) (fuel : Nat) : RQ S N0 q (drainQueue q r fuel) := by
  induction fuel with
  | zero => exact rq_ok
  | succ f ih =>
    unfold drainQueue
    refine rq_read fun w hw => ?_
    split
    · exact rq_ok
    · refine rq_seq (rq_dropFirst _ _) (rq_seq ?_ ih)
      split
      · exact rq_fireReqDfd _ _
      · exact rq_ok
theorem rq_doConnectionLost (r : Err) : RQ S N0 q (doConnectionLost q r) := by
  unfold doConnectionLost
  refine rq_read fun w hw => ?_
  refine rq_seq (rq_cancelWindowAlarms _ fun e he => hw.items he) (rq_seq (rq_cancelWindowAlarms _ fun e he => hw.items he)
    (rq_seq (rq_cancelWindowAlarms _ fun e he => hw.items he) (rq_seq (rq_cancelWindowAlarms _ fun e he => hw.items he)
    (rq_seq (rq_failWindow _ _) (rq_seq (rq_failWindow _ _) ?_)))))
  refine rq_read fun w' hw' => ?_
  split
  · exact rq_seq (rq_purgeSession _) (rq_read fun w2 hw2 => rq_drainQueue _ _)
  · exact rq_ok
theorem rq_connectionLost (r : Err) : RQ S N0 q (connectionLost q r) := by
  unfold connectionLost
  refine rq_read fun w hw => ?_
  refine rq_seq ?_ (rq_seq ?_ (rq_seq (rq_doConnectionLost r) (rq_seq (rq_setProto _ _ fun _ => rfl) ?_)))
  · split
    · exact rq_ok
    · exact rq_seq rq_loopStop (rq_setProto _ _ fun _ => rfl)
  · split
    · exact rq_ok
    · exact rq_seq (rq_cancelTimer _) (rq_setProto _ _ fun _ => rfl)
  · rqs
theorem rq_runTimer (k : TKind) (hk : k.on q) (hrid : ∀ rid, k = .retry q rid → ¬ S rid) : RQ S N0 q (runTimer k) := by
  cases k with
  | connack cr => unfold runTimer abort; rqs
  | pingLoop q' => cases hk; exact rq_seq (rq_setProto _ _ fun _ => rfl) rq_loopRun
  | pingAlarm q' => cases hk; exact rq_seq (rq_setProto _ _ fun _ => rfl) (rq_abort _)
  | retry q' rid =>
    cases hk
    have hr := hrid rid rfl
    unfold runTimer
    refine rq_read fun w hw => ?_
    split
    · exact rq_retryPublish _ _ _ hr
    · exact rq_retryRelease _ _ _ hr
    · exact rq_retrySubUnsub _ _ _ _ hr
    · exact rq_retrySubUnsub _ _ _ _ hr
  | onDisc q' r => exact rq_emit _
theorem rq_mkStep (pr : Proto) (qn mid : Nat) (dfd : Option Nat) (bs : Bytes) : RQ S N0 q (mkStep q pr qn mid dfd bs) := by
  unfold mkStep
  refine rq_read fun w hw => ?_
  refine rq_seq (rq_newReq w.nextReq hw.next (fun _ => rfl) (fun _ => ⟨_, rfl⟩) (fun _ => rfl) (fun _ _ => rfl)) ?_
  exact rq_seq (rq_append _ _ _ _ hw.fresh) rq_refill
theorem rq_apiPublish (topic : PyStr) (payload : Payload) (qos : Int) (retain : Bool) : RQ S N0 q (apiPublish q topic payload qos retain) := by
  intro w
  rw [apiPublish_eq]
  split
  · exact rq_emit _ w
  · split
    · exact rq_emit _ w
    · split
      · cases encodePublishPy topic payload 0 retain none with
        | error e => exact rq_emit _ w
        | ok bs => exact rq_seq (rq_mkStep _ _ _ _ _) (rq_emit _) w
      · refine rq_makeId (fun i => ?_) w
        cases encodePublishPy topic payload qos.toNat retain (some (i : Int)) with
        | error e => exact rq_emit _
        | ok bs => exact rq_newDfd fun d => rq_seq (rq_mkStep _ _ _ _ _) (rq_emit _)
theorem rq_registerSubUnsub (isSub : Bool) (i : Nat) (bs : Bytes) : RQ S N0 q (registerSubUnsub q isSub i bs) := by
  unfold registerSubUnsub
  refine rq_read fun w hw => ?_
  refine rq_newDfd fun d => ?_
  refine rq_seq (rq_newReq w.nextReq hw.next (fun _ => rfl) (fun _ => ⟨_, rfl⟩) (fun _ => rfl) (fun _ _ => rfl)) ?_
  exact rq_seq (rq_insert _ _ _ _ hw.fresh) (rq_seq (rq_retrySubUnsub _ _ _ _ hw.fresh) (rq_emit _))
theorem rq_apiSubscribe (arg : SubArg) (qos : Int) : RQ S N0 q (apiSubscribe q arg qos) := by
  unfold apiSubscribe
  refine rq_read fun w hw => ?_
  cases arg <;> dsimp only <;> (repeat' (first | with_reducible exact rq_emit _ | split)) <;>
    (refine rq_makeId fun i => ?_
     generalize encodeWithId 0x82 _ _ = E
     cases E with
     | error e => exact rq_emit _
     | ok bs => exact rq_registerSubUnsub _ _ _)
theorem rq_apiUnsubscribe (arg : UnsubArg) : RQ S N0 q (apiUnsubscribe q arg) := by
  unfold apiUnsubscribe
  refine rq_read fun w hw => ?_
  split
  · exact rq_emit _
  · refine rq_makeId fun _ => rq_read fun w1 hw1 => ?_
    cases arg <;> dsimp only <;> (repeat' (first | with_reducible exact rq_emit _ | split)) <;>
      (refine rq_makeId fun i => ?_
       generalize encodeWithId 0xA2 _ _ = E
       cases E with
       | error e => exact rq_emit _
       | ok bs => exact rq_registerSubUnsub _ _ _)
theorem rq_apiConnect (a : ConnectArgs) : RQ S N0 q (apiConnect q a) := by
  unfold apiConnect
  generalize a.toF.encode = E
  refine rq_read fun w hw => ?_
  split
  · exact rq_emit _
  · split
    · exact rq_emit _
    · cases E with
      | error e =>
        dsimp only
        split
        · exact rq_emit _
        · exact rq_raise _
      | ok pdu =>
        refine rq_seq (rq_setProto _ _ fun _ => rfl) (rq_seq (rq_write _ _) (rq_seq (rq_setProto _ _ fun _ => rfl) ?_))
        refine rq_read fun w' hw' => ?_
        refine rq_callLater _ _ fun tid => rq_newDfd fun d => ?_
        exact rq_seq (rq_modrfl (fun _ => rfl) (fun _ => rfl) (fun _ => rfl) (fun _ _ => rfl)) (rq_seq (rq_setProto _ _ fun _ => rfl) (rq_emit _))
theorem rq_apiDisconnect : RQ S N0 q (apiDisconnect q) := by unfold apiDisconnect; rqs
theorem rq_apiSetWindow (n : PyNum) : RQ S N0 q (apiSetWindow q n) := by unfold apiSetWindow; rqs
theorem rq_apiSetTimeout (n : PyNum) : RQ S N0 q (apiSetTimeout q n) := by unfold apiSetTimeout; rqs
theorem rq_apiSetBandwith (b f : Rat) : RQ S N0 q (apiSetBandwith q b f) := by unfold apiSetBandwith; rqs
theorem rq_apiSetHandlers (m : Nat) : RQ S N0 q (apiSetHandlers q m) := rq_setProto _ _ fun _ => rfl

end rq


/-- **request objects**: an operation run by a protocol of another address leaves every request object that the dictionaries of
    address `A` refer to exactly as it was -- packet bytes, identifier, QoS, Deferred, retry-timer reference, retry interval.
    (`WInv`: the two addresses' entries refer to different request objects, `ridUnique`; a retry timer belongs to an entry of its
    protocol's address, `noStale` + `alarm`.) -/
theorem other_step_requests {w : World} (hw : WInv w) {op : Op} {q A : Nat} (hop : op.proto? w = some q) (hq : w.paddr q ≠ A) :
    ∀ e ∈ w.ents, e.addr = A → (step w op).reqs.get? e.rid = w.reqs.get? e.rid := by
  let S : Nat → Prop := fun r => ∃ e ∈ w.ents, e.addr = A ∧ e.rid = r
  have hgood : RGood S w.nextReq q w :=
    ⟨fun e he ha ⟨e', he', ha', hr'⟩ => by
        have := hw.ridUnique e' he' e he hr'
        subst this
        exact hq (ha.symm.trans ha'),
     fun r ⟨e, he, _, hr⟩ => hr ▸ hw.ridFresh e he, Nat.le_refl _⟩
  have key : RQ S w.nextReq q op.handler ∨ (∃ t, op = .fire t) := by
    cases op with
    | build a => simp [Op.proto?] at hop
    | jit v => simp [Op.proto?] at hop
    | setid v => simp [Op.proto?] at hop
    | sethandlers q' m => cases hop; exact Or.inl (rq_apiSetHandlers m)
    | connect q' a => cases hop; exact Or.inl (rq_apiConnect a)
    | disconnect q' => cases hop; exact Or.inl rq_apiDisconnect
    | publish q' t pl qs r => cases hop; exact Or.inl (rq_apiPublish t pl qs r)
    | subscribe q' a qs => cases hop; exact Or.inl (rq_apiSubscribe a qs)
    | unsubscribe q' a => cases hop; exact Or.inl (rq_apiUnsubscribe a)
    | setwin q' n => cases hop; exact Or.inl (rq_apiSetWindow n)
    | settimeout q' n => cases hop; exact Or.inl (rq_apiSetTimeout n)
    | setbw q' b f => cases hop; exact Or.inl (rq_apiSetBandwith b f)
    | recv q' d => cases hop; exact Or.inl (rq_dataReceived d)
    | lost q' r => cases hop; exact Or.inl (rq_connectionLost r)
    | fire t => exact Or.inr ⟨t, rfl⟩
  have fin : ∀ r, S r → (op.handler w).1.reqs.get? r = w.reqs.get? r := by
    rcases key with key | ⟨t, rfl⟩
    · exact (key w hgood).2.2
    · show ∀ r, S r → (fireTimer t w).1.reqs.get? r = w.reqs.get? r
      cases ht : w.timers.get? t with
      | none => simp [Op.proto?, ht] at hop
      | some tm =>
        have e : fireTimer t w = (if tm.status = TStatus.pending then
            Step.mod (fun w => { w with now := max w.now tm.due, timers := w.timers.set t { tm with status := .called } }) ;; runTimer tm.kind
          else emit .nofire) w := by simp only [fireTimer, Step.read, ht]
        rw [e]
        by_cases hs : tm.status = .pending
        · rw [if_pos hs]
          have hon := kind_on_of_proto? ht hop
          have hrid : ∀ rid, tm.kind = .retry q rid → ¬ S rid := by
            intro rid hk ⟨e', he', ha', hr'⟩
            have hpend : Pending w t (.retry q rid) := ⟨tm, ht, hs, hk⟩
            obtain ⟨e0, he0, hr0, hal⟩ := hw.noStale t q rid hpend
            obtain ⟨_, p, pr, hp2, hpp, hpa⟩ := hw.alarm e0 he0 t (by rw [hr0]; exact hal)
            have hk2 := pending_kind hp2 hpend
            injection hk2 with hpq _
            subst hpq
            have := hw.ridUnique e' he' e0 he0 (hr'.trans hr0.symm)
            subst this
            have hpad : w.paddr p = pr.addr := by simp [World.paddr, getD_of_get? hpp]
            exact hq (by rw [hpad, hpa]; exact ha')
          have : RQ S w.nextReq q (Step.mod (fun w => { w with now := max w.now tm.due, timers := w.timers.set t { tm with status := .called } }) ;; runTimer tm.kind) :=
            rq_seq (rq_modrfl (fun _ => rfl) (fun _ => rfl) (fun _ => rfl) (fun _ _ => rfl)) (rq_runTimer _ hon hrid)
          exact (this w hgood).2.2
        · rw [if_neg hs]
          exact (rq_emit (S := S) (N0 := w.nextReq) (q := q) _ w hgood).2.2
  intro e he ha
  have := fin e.rid ⟨e, he, ha, rfl⟩
  unfold step
  rcases hh : op.handler w with ⟨w', _ | err⟩ <;> (rw [hh] at this; exact this)

end Mqtt
