import MqttVerif.Proofs.Lost
/-
  Timer expiry: each kind of DelayedCall callback preserves the invariant and raises nothing.
-/
namespace Mqtt

/-- a world that differs from `w` only in timers the invariant does not mention (and in clock and log) -/
theorem timerStep_inv {x : Option Nat} {w : World} (h : WInvX x w) (w' : World)
    (he : w'.ents = w.ents) (hr : w'.reqs = w.reqs) (hf : w'.fired = w.fired) (hc : w'.connReqs = w.connReqs)
    (hid : w'.nextId = w.nextId) (hnr : w'.nextReq = w.nextReq) (hnd : w'.nextDfd = w.nextDfd) (hncr : w'.nextCR = w.nextCR)
    (hnp : w'.nextProto = w.nextProto) (hprofile : w'.profile = w.profile) (hprot : w'.protos = w.protos)
    (hP : ∀ t k, (∀ q r, k ≠ .onDisc q r) → (Pending w' t k ↔ Pending w t k))
    (htf : ∀ t tm, w'.timers.get? t = some tm → t < w'.nextTimer) : WInvX x w' := by
  have hreq := req_of_reqs hr
  have hid' : ∀ e, idOf w' e = idOf w e := by intro e; simp [idOf, hreq]
  constructor
  case nodup => rw [he]; exact h.nodup
  case ridFresh => rw [he, hnr]; exact h.ridFresh
  case ridUnique => rw [he]; exact h.ridUnique
  case idUnique => rw [he]; simp only [hid']; exact h.idUnique
  case keyId => rw [he]; simp only [hreq]; exact h.keyId
  case queueNoAlarm => rw [he]; simp only [hreq]; exact h.queueNoAlarm
  case idCounter => rw [hid]; exact h.idCounter
  case timerFresh => exact htf
  case firedFresh => rw [hf, hnd]; exact h.firedFresh
  case crFresh => rw [hc, hncr]; exact h.crFresh
  case protoFresh => rw [hprot, hnp]; exact h.protoFresh
  case dfdFresh => rw [he, hf, hnd]; simp only [hreq]; exact h.dfdFresh
  case dfdSome => rw [he]; simp only [hreq]; exact h.dfdSome
  case dfdInj => rw [he]; simp only [hreq]; exact h.dfdInj
  case alarm =>
    rw [he, hprot]; simp only [hreq]
    intro e he' t ht
    obtain ⟨a1, q, qr, a2, a3⟩ := h.alarm e he' t ht
    exact ⟨a1, q, qr, (hP _ _ (by simp)).mpr a2, a3⟩
  case noStale => rw [he]; simp only [hreq]; intro t p rid hp; exact h.noStale t p rid ((hP _ _ (by simp)).mp hp)
  case connected => rw [he, hprot]; simp only [hreq]; exact h.connected
  case oneLive => rw [hprot]; exact h.oneLive
  case lostIdle => rw [hprot]; exact h.lostIdle
  case pingAlarm => rw [hprot]; intro p pr t hp ht; exact (hP _ _ (by simp)).mpr (h.pingAlarm p pr t hp ht)
  case pingTimer =>
    rw [hprot]; intro p pr l hp hl
    obtain ⟨a1, a2, a3, a4⟩ := h.pingTimer p pr l hp hl
    exact ⟨a1, a2, a3, fun t ht => (hP _ _ (by simp)).mpr (a4 t ht)⟩
  case pingAlarmOwned => rw [hprot]; intro t p hp; exact h.pingAlarmOwned t p ((hP _ _ (by simp)).mp hp)
  case pingLoopOwned => rw [hprot]; intro t p hp; exact h.pingLoopOwned t p ((hP _ _ (by simp)).mp hp)
  case connecting =>
    rw [hprot, hc, hf]; intro p pr hp hs
    obtain ⟨cr, c, i1, i2, ip, i3⟩ := h.connecting p pr hp hs
    exact ⟨cr, c, i1, i2, ip, fun d hd => ⟨(i3 d hd).1, (hP _ _ (by simp)).mpr (i3 d hd).2⟩⟩
  case connReq => rw [hc, hf, hnd, he]; simp only [hreq]; exact h.connReq
  case connReqInj => rw [hc]; exact h.connReqInj
  case connReqFresh => rw [hc, hnd]; exact h.connReqFresh
  case connackOwned => rw [hc, hf, hprot]; intro t cr hp; exact h.connackOwned t cr ((hP _ _ (by simp)).mp hp)
  case retryLive => rw [hprot]; intro t p rid hp; exact h.retryLive t p rid ((hP _ _ (by simp)).mp hp)
  case connReqLive => rw [hprot, hc, hf]; exact h.connReqLive
  case connReqRef => rw [hprot, hncr]; exact h.connReqRef
  case subArmed => rw [he, hprot]; simp only [hreq]; exact h.subArmed
  case profileOk => rw [hprofile]; exact h.profileOk
  case bufOk => rw [hprot]; exact h.bufOk

/-! ### the handshake times out -/

def connTimeoutW (w : World) (t : Nat) (tm : Timer) (cr : Nat) (c : ConnReq) (d : Nat) (now' : Nat) (log' : List Obs) : World :=
  { w with now := now', timers := w.timers.set t { tm with status := .called }, fired := d :: w.fired, log := log',
           connReqs := w.connReqs.set cr { c with dfd := none } }

theorem connTimeout_inv {x : Option Nat} {w : World} (h : WInvX x w) (t : Nat) (tm : Timer) (htm : w.timers.get? t = some tm)
    (hts : tm.status = .pending) (cr : Nat) (hk : tm.kind = .connack cr) (c : ConnReq) (hc : w.connReqs.get? cr = some c)
    (d : Nat) (hd : c.dfd = some d) (hnf : d ∉ w.fired) (hal : c.alarm = t) (now' : Nat) (log' : List Obs) :
    WInvX x (connTimeoutW w t tm cr c d now' log') := by
  have hpe : Pending w t (.connack cr) := ⟨tm, htm, hts, hk⟩
  have hkp := fun t' k => kill_pending htm .called (by simp) (w' := connTimeoutW w t tm cr c d now' log') rfl t' k
  have hko := fun t' k hk' => kill_other htm .called (by simp) (w' := connTimeoutW w t tm cr c d now' log') rfl hpe t' k hk'
  have hcq : ∀ cr', (connTimeoutW w t tm cr c d now' log').connReqs.get? cr' = if cr = cr' then some { c with dfd := none } else w.connReqs.get? cr' := by
    intro cr'; simp only [connTimeoutW, Dict.get?_set]
  have hfd : ∀ d', d' ∈ (connTimeoutW w t tm cr c d now' log').fired ↔ d' = d ∨ d' ∈ w.fired := by
    intro d'; simp [connTimeoutW]
  have hd1 := h.connReq cr c d hc hd hnf
  -- another handshake record does not carry `d`
  have hother : ∀ cr' c' d', cr ≠ cr' → w.connReqs.get? cr' = some c' → c'.dfd = some d' → d' ≠ d := by
    intro cr' c' d' hne hc' hd' hdd
    subst hdd
    exact hne (h.connReqInj cr cr' c c' d' hc hc' hd hd')
  constructor
  case nodup => exact h.nodup
  case ridFresh => exact h.ridFresh
  case ridUnique => exact h.ridUnique
  case idUnique => exact h.idUnique
  case keyId => exact h.keyId
  case queueNoAlarm => exact h.queueNoAlarm
  case idCounter => exact h.idCounter
  case timerFresh => exact kill_fresh h htm _ rfl rfl
  case firedFresh =>
    intro d' hd'
    rcases (hfd d').mp hd' with rfl | hd'
    · exact hd1.1
    · exact h.firedFresh d' hd'
  case crFresh =>
    intro cr' c' hc'
    rw [hcq] at hc'
    split at hc'
    · rename_i heq; subst heq; exact h.crFresh _ _ hc
    · exact h.crFresh _ _ hc'
  case protoFresh => exact h.protoFresh
  case dfdFresh =>
    intro e he d' hd'
    refine ⟨(h.dfdFresh e he d' hd').1, fun hm => ?_⟩
    rcases (hfd d').mp hm with rfl | hm
    · exact hd1.2 e he hd'
    · exact (h.dfdFresh e he d' hd').2 hm
  case dfdSome => exact h.dfdSome
  case dfdInj => exact h.dfdInj
  case alarm =>
    intro e he t' ht'
    obtain ⟨a1, q, qr, a2, a3⟩ := h.alarm e he t' ht'
    exact ⟨a1, q, qr, (hko _ _ (by simp)).mpr a2, a3⟩
  case noStale => intro t' p rid hp; exact h.noStale t' p rid ((hko _ _ (by simp)).mp hp)
  case connected => exact h.connected
  case oneLive => exact h.oneLive
  case lostIdle => exact h.lostIdle
  case pingAlarm => intro p pr t' hp ht'; exact (hko _ _ (by simp)).mpr (h.pingAlarm p pr t' hp ht')
  case pingTimer =>
    intro p pr l hp hl
    obtain ⟨a1, a2, a3, a4⟩ := h.pingTimer p pr l hp hl
    exact ⟨a1, a2, a3, fun t' ht' => (hko _ _ (by simp)).mpr (a4 t' ht')⟩
  case pingAlarmOwned => intro t' p hp; exact h.pingAlarmOwned t' p ((hko _ _ (by simp)).mp hp)
  case pingLoopOwned => intro t' p hp; exact h.pingLoopOwned t' p ((hko _ _ (by simp)).mp hp)
  case connecting =>
    intro p pr hp hs
    obtain ⟨cr', c', i1, i2, ip, i3⟩ := h.connecting p pr hp hs
    by_cases hcc : cr = cr'
    · subst hcc
      rw [hc] at i2; injection i2 with i2; subst i2
      exact ⟨cr, { c with dfd := none }, i1, by rw [hcq]; simp, ip, fun d' hd' => by cases hd'⟩
    · refine ⟨cr', c', i1, by rw [hcq]; simp [hcc, i2], ip, fun d' hd' => ⟨fun hm => ?_, (hko _ _ (by simp; exact fun hx => hcc hx.symm)).mpr (i3 d' hd').2⟩⟩
      rcases (hfd d').mp hm with rfl | hm
      · exact hother cr' c' d' hcc i2 hd' rfl
      · exact (i3 d' hd').1 hm
  case connReq =>
    intro cr' c' d' hc' hd' hnf'
    rw [hcq] at hc'
    split at hc'
    · injection hc' with hc'; subst hc'; cases hd'
    · exact h.connReq cr' c' d' hc' hd' (fun hm => hnf' ((hfd d').mpr (Or.inr hm)))
  case connReqInj =>
    intro cr1 cr2 c1 c2 d' h1 h2 hd1' hd2'
    rw [hcq] at h1 h2
    split at h1
    · injection h1 with h1; subst h1; cases hd1'
    · split at h2
      · injection h2 with h2; subst h2; cases hd2'
      · exact h.connReqInj cr1 cr2 c1 c2 d' h1 h2 hd1' hd2'
  case connReqFresh =>
    intro cr' c' d' hc' hd'
    rw [hcq] at hc'
    split at hc'
    · injection hc' with hc'; subst hc'; cases hd'
    · exact h.connReqFresh cr' c' d' hc' hd'
  case connackOwned =>
    intro t' cr' hp
    have hp2 := (hkp t' _).mp hp
    obtain ⟨c', d', a1, a2, a3, a4, a5⟩ := h.connackOwned t' cr' hp2.1
    by_cases hcc : cr = cr'
    · subst hcc
      rw [hc] at a1; injection a1 with a1; subst a1
      exact absurd (a4.symm.trans hal) hp2.2
    · refine ⟨c', d', by rw [hcq]; simp [hcc, a1], a2, fun hm => ?_, a4, a5⟩
      rcases (hfd d').mp hm with rfl | hm
      · exact hother cr' c' d' hcc a1 a2 rfl
      · exact a3 hm
  case retryLive => intro t' p rid hp; exact h.retryLive t' p rid ((hko _ _ (by simp)).mp hp)
  case connReqLive =>
    intro p pr cr' c' hp hcq' hc'
    rw [hcq] at hc'
    split at hc'
    · rename_i heq; subst heq
      injection hc' with hc'; subst hc'
      exact ⟨(h.connReqLive p pr cr c hp hcq' hc).1, fun d' hd' => by cases hd'⟩
    · rename_i hne
      refine ⟨(h.connReqLive p pr cr' c' hp hcq' hc').1, fun d' hd' hm => ?_⟩
      rcases (hfd d').mp hm with rfl | hm
      · exact hother cr' c' d' hne hc' hd' rfl
      · exact (h.connReqLive p pr cr' c' hp hcq' hc').2 d' hd' hm
  case connReqRef => exact h.connReqRef
  case subArmed => exact h.subArmed
  case profileOk => exact h.profileOk
  case bufOk => exact h.bufOk

/-! ### a DelayedCall runs -/

theorem marked_eq (w : World) (t : Nat) (tm : Timer) (htm : w.timers.get? t = some tm) (n : Nat) :
    marked w (some t) n = { w with now := n, timers := w.timers.set t { tm with status := .called } } := by
  simp [marked, htm]

/-- the reactor runs a DelayedCall: no exception escapes, the invariant is kept -/
theorem fireTimer_inv {w : World} (h : WInv w) (t : Nat) : (fireTimer t w).2 = none ∧ WInv (fireTimer t w).1 := by
  simp only [fireTimer, read_apply]
  cases htm : w.timers.get? t with
  | none => exact ⟨rfl, emit_inv h _⟩
  | some tm =>
    simp only
    obtain ⟨due, kind, st⟩ := tm
    by_cases hts : st = .pending
    · subst hts
      simp only [↓reduceIte]
      have s0 : Step.mod (fun w => { w with now := max w.now due, timers := w.timers.set t ⟨due, kind, .called⟩ }) w
          = ({ w with now := max w.now due, timers := w.timers.set t ⟨due, kind, .called⟩ }, none) := rfl
      rw [seq_ok s0]
      have hpe : Pending w t kind := ⟨_, htm, rfl, rfl⟩
      cases kind with
      | connack cr =>
        obtain ⟨c, d, a1, a2, a3, a4, _⟩ := h.connackOwned t cr hpe
        have hT := connTimeout_inv h t _ htm rfl cr rfl c a1 d a2 a3 a4 (max w.now due)
          ((w.log ++ [.fired d (.fail .timeout)]) ++ [.abort c.proto])
        have : runTimer (.connack cr) { w with now := max w.now due, timers := w.timers.set t ⟨due, .connack cr, .called⟩ }
            = (connTimeoutW w t ⟨due, .connack cr, .pending⟩ cr c d (max w.now due) ((w.log ++ [.fired d (.fail .timeout)]) ++ [.abort c.proto]), none) := by
          simp only [runTimer, read_apply, a1, a2]
          have s1 := fireDfd_unfired ({ w with now := max w.now due, timers := w.timers.set t ⟨due, .connack cr, .called⟩ } : World) d (.fail .timeout) a3
          rw [seq_ok s1]
          rfl
        rw [this]
        exact ⟨rfl, hT⟩
      | pingLoop p =>
        obtain ⟨pr, l, hpp, hl, hcall⟩ := h.pingLoopOwned t p hpe
        obtain ⟨tm', htm', _, hK⟩ := loopKill_inv h p pr hpp l hl t hcall .called (by simp) (some { l with call := none }) (Or.inr rfl) (max w.now due)
        rw [htm] at htm'; injection htm' with htm'; subst htm'
        have hnl : pr.lost = false := by
          cases hl' : pr.lost with
          | false => rfl
          | true => have := (h.lostIdle p pr hpp hl').2.1; rw [hl] at this; cases this
        have s1 : setProto p (fun pr => { pr with pingTimer := (pr.pingTimer.map fun l => { l with call := none }) })
            { w with now := max w.now due, timers := w.timers.set t ⟨due, .pingLoop p, .called⟩ }
            = (loopKillW w p pr t ⟨due, .pingLoop p, .pending⟩ .called (some { l with call := none }) (max w.now due), none) := by
          rw [setProto_apply]
          have : ({ w with now := max w.now due, timers := w.timers.set t ⟨due, .pingLoop p, .called⟩ } : World).proto p = pr := getD_of_get? hpp
          rw [this, hl]; rfl
        simp only [runTimer]
        rw [seq_ok s1]
        have hpp' : (loopKillW w p pr t ⟨due, .pingLoop p, .pending⟩ .called (some { l with call := none }) (max w.now due)).protos.get? p =
            some { pr with pingTimer := some { l with call := none } } := by simp [loopKillW, Dict.get?_set]
        obtain ⟨r1, r2, _⟩ := loopRun_inv hK p _ hpp' hnl { l with call := none } rfl rfl
        exact ⟨r1, r2⟩
      | pingAlarm p =>
        obtain ⟨pr, hpp, hpa⟩ := h.pingAlarmOwned t p hpe
        obtain ⟨tm', htm', _, hO⟩ := pingOff_inv h p pr hpp t hpa .called (by simp) (max w.now due) (w.log ++ [.abort p])
        rw [htm] at htm'; injection htm' with htm'; subst htm'
        have : runTimer (.pingAlarm p) { w with now := max w.now due, timers := w.timers.set t ⟨due, .pingAlarm p, .called⟩ }
            = (pingOffW w p pr t ⟨due, .pingAlarm p, .pending⟩ .called (max w.now due) (w.log ++ [.abort p]), none) := by
          simp only [runTimer, abort]
          have s1 := setProto_apply p (fun pr => { pr with pingAlarm := none }) ({ w with now := max w.now due, timers := w.timers.set t ⟨due, .pingAlarm p, .called⟩ } : World)
          rw [seq_ok s1]
          have : ({ w with now := max w.now due, timers := w.timers.set t ⟨due, .pingAlarm p, .called⟩ } : World).proto p = pr := getD_of_get? hpp
          rw [this]; rfl
        rw [this]
        exact ⟨rfl, hO⟩
      | retry p rid =>
        obtain ⟨e, he, hrid, hal⟩ := h.noStale t p rid hpe
        subst hrid
        obtain ⟨hq, p', ppr, hp', hpp, haddr⟩ := h.alarm e he t hal
        have := pending_kind hpe hp'
        injection this with hpp' _
        subst hpp'
        obtain ⟨ppr', hpp2, hnl⟩ := h.retryLive t p e.rid hp'
        rw [hpp] at hpp2; injection hpp2 with hpp2; subst hpp2
        have hm := marked_eq w t _ htm (max w.now due)
        simp only at hm
        rw [← hm]
        simp only [runTimer, read_apply, marked_req]
        cases (w.req e.rid).kind with
        | publish => exact ⟨rfl, retryPublishW_inv h he hq p true (some t) _ hal ppr hpp haddr hnl⟩
        | pubrel => exact ⟨rfl, retryReleaseW_inv h he hq p true (some t) _ hal ppr hpp haddr hnl⟩
        | subscribe => exact ⟨rfl, retrySubUnsubW_inv h he hq p true true (some t) _ hal ppr hpp haddr hnl⟩
        | unsubscribe => exact ⟨rfl, retrySubUnsubW_inv h he hq p true false (some t) _ hal ppr hpp haddr hnl⟩
      | onDisc p reason =>
        simp only [runTimer]
        refine ⟨rfl, ?_⟩
        apply timerStep_inv h (emit (Obs.onDisc p reason)
          { w with now := max w.now due, timers := w.timers.set t ⟨due, .onDisc p reason, .called⟩ }).1 rfl rfl rfl rfl rfl rfl rfl rfl rfl rfl rfl
        · intro t' k hk'
          exact kill_other htm .called (by simp) rfl hpe t' k (hk' p reason)
        · exact kill_fresh h htm _ rfl rfl
    · simp only [hts, ↓reduceIte]
      exact ⟨rfl, emit_inv h _⟩

end Mqtt
