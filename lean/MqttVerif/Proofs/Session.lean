import MqttVerif.Proofs.Trans
import MqttVerif.Proofs.Simp
/-
  The handlers of the session layer preserve the invariant and raise nothing.
-/
namespace Mqtt

theorem protos_refl (w w' : World) (hp : w'.protos = w.protos) :
    ∀ p, (∀ pr', w'.protos.get? p = some pr' → ∃ pr, w.protos.get? p = some pr ∧ pr'.addr = pr.addr ∧ pr'.state = pr.state ∧
      pr'.lost = pr.lost ∧ pr'.pingTimer = pr.pingTimer ∧ pr'.pingAlarm = pr.pingAlarm ∧ pr'.pingKeepalive = pr.pingKeepalive ∧ pr'.connReq = pr.connReq) ∧
    (∀ pr, w.protos.get? p = some pr → ∃ pr', w'.protos.get? p = some pr') := by
  intro p; rw [hp]
  exact ⟨fun pr' h => ⟨pr', h, rfl, rfl, rfl, rfl, rfl, rfl, rfl⟩, fun pr h => ⟨pr, h⟩⟩

/-- two worlds with the same core (everything but log, clock, ghost counters, inbound store, and the fields of
    request objects other than msgId/dfd/alarm) -/
theorem sameCore_of (w w' : World) (hents : w'.ents = w.ents)
    (hreqs : ∀ r, (w'.req r).msgId = (w.req r).msgId ∧ (w'.req r).dfd = (w.req r).dfd ∧ (w'.req r).alarm = (w.req r).alarm)
    (htimers : ∀ t, (w'.timers.get? t).map (fun tm => (tm.kind, tm.status)) = (w.timers.get? t).map (fun tm => (tm.kind, tm.status))) (hfired : w'.fired = w.fired) (hcr : w'.connReqs = w.connReqs)
    (hprotos : w'.protos = w.protos) (hid : w'.nextId = w.nextId) (hidle : w.nextId ≤ 65535) (h1 : w'.nextReq = w.nextReq) (h2 : w'.nextTimer = w.nextTimer)
    (h3 : w'.nextDfd = w.nextDfd) (h4 : w'.nextCR = w.nextCR) (h5 : w'.nextProto = w.nextProto) : SameCore w w' :=
  { ents := hents, reqs := hreqs,
    timers := by
      intro t
      have := htimers t
      constructor
      · intro tm' h'
        rw [h'] at this
        cases hw : w.timers.get? t with
        | none => rw [hw] at this; simp at this
        | some tm =>
          rw [hw] at this; simp at this
          exact ⟨tm, rfl, this.1, this.2⟩
      · intro tm h'
        rw [h'] at this
        cases hw : w'.timers.get? t with
        | none => rw [hw] at this; simp at this
        | some tm' =>
          rw [hw] at this; simp at this
          exact ⟨tm', rfl, this.1, this.2⟩,
    fired := hfired, connReqs := hcr, nextId := by rw [hid]; exact hidle,
    nextReq := by rw [h1]; exact Nat.le_refl _, nextTimer := h2, nextDfd := by rw [h3]; exact Nat.le_refl _, nextCR := h4, nextProto := h5,
    protos := protos_refl w w' hprotos }

/-! ### the retransmission helpers arm the entry they are applied to -/

/-- the world in which the retry helper runs: as is (first transmission, resumption) or, on expiry, with the
    entry's old alarm marked as called and the clock advanced by `fireTimer` -/
def marked (w : World) (old : Option Nat) (n : Nat) : World :=
  { w with now := n,
           timers := match old with
                     | none => w.timers
                     | some t => w.timers.set t { (w.timers.get? t).getD default with status := .called } }

theorem marked_none (w : World) : marked w none w.now = w := rfl

/-- any world that looks like "entry `e` armed with a fresh retry timer of protocol `p`" satisfies the invariant -/
theorem armedLike_inv {x : Option Nat} {w : World} (h : WInvX x w) {e : Ent} (he : e ∈ w.ents) (hq : e.box ≠ .queue)
    (p : Nat) (old : Option Nat) (n : Nat) (hal : (w.req e.rid).alarm = old)
    (ppr : Proto) (hpp : w.protos.get? p = some ppr) (haddr : ppr.addr = e.addr) (w' : World)
    (hents : w'.ents = w.ents)
    (hreq : ∀ r, r ≠ e.rid → (w'.req r).msgId = (w.req r).msgId ∧ (w'.req r).dfd = (w.req r).dfd ∧ (w'.req r).alarm = (w.req r).alarm)
    (hreqe : (w'.req e.rid).msgId = (w.req e.rid).msgId ∧ (w'.req e.rid).dfd = (w.req e.rid).dfd ∧ (w'.req e.rid).alarm = some w.nextTimer)
    (htim : ∀ t, (w'.timers.get? t).map (fun tm => (tm.kind, tm.status)) =
        ((addT (marked w old n).timers w.nextTimer 0 (.retry p e.rid)).get? t).map (fun tm => (tm.kind, tm.status)))
    (hfired : w'.fired = w.fired) (hcr : w'.connReqs = w.connReqs) (hprotos : w'.protos = w.protos)
    (hid : w'.nextId = w.nextId) (h1 : w'.nextReq = w.nextReq) (h2 : w'.nextTimer = w.nextTimer + 1)
    (h3 : w'.nextDfd = w.nextDfd) (h4 : w'.nextCR = w.nextCR) (h5 : w'.nextProto = w.nextProto) : WInvX x w' := by
  let r' : Req := { (w.req e.rid) with alarm := some w.nextTimer }
  have hA := armed_inv h he hq r' p 0 old 0 [] rfl rfl rfl hal ppr hpp haddr
  refine hA.sameCore ?_
  have hA1 : ∀ r, (armed w e r' p 0 old 0 []).req r = if e.rid = r then r' else w.req r := fun r => req_set w e.rid _ r _ rfl
  apply sameCore_of
  · rw [hents]; rfl
  · intro r
    rw [hA1]
    by_cases hr : e.rid = r
    · subst hr; simp only [↓reduceIte]; exact hreqe
    · simp only [hr, ↓reduceIte]; exact hreq r (fun hc => hr hc.symm)
  · intro t; rw [htim t]; rfl
  · rw [hfired]; rfl
  · rw [hcr]; rfl
  · rw [hprotos]; rfl
  · rw [hid]; rfl
  · exact h.idCounter
  · rw [h1]; rfl
  · rw [h2]; rfl
  · rw [h3]; rfl
  · rw [h4]; rfl
  · rw [h5]; rfl

theorem marked_req (w : World) (old : Option Nat) (n r : Nat) : (marked w old n).req r = w.req r := rfl
theorem marked_proto (w : World) (old : Option Nat) (n p : Nat) : (marked w old n).proto p = w.proto p := rfl

/-- what `marked` leaves unchanged -/
structure MarkedFacts (w : World) (old : Option Nat) (n : Nat) (w0 : World) : Prop where
  ents : w0.ents = w.ents
  req : ∀ r, w0.req r = w.req r
  proto : ∀ p, w0.proto p = w.proto p
  paddr : ∀ p, w0.paddr p = w.paddr p
  timers : w0.timers = (marked w old n).timers
  nextTimer : w0.nextTimer = w.nextTimer
  fired : w0.fired = w.fired
  connReqs : w0.connReqs = w.connReqs
  protos : w0.protos = w.protos
  nextId : w0.nextId = w.nextId
  nextReq : w0.nextReq = w.nextReq
  nextDfd : w0.nextDfd = w.nextDfd
  nextCR : w0.nextCR = w.nextCR
  nextProto : w0.nextProto = w.nextProto

theorem markedFacts (w : World) (old : Option Nat) (n : Nat) : MarkedFacts w old n (marked w old n) := by
  constructor <;> intros <;> rfl

theorem retryPublishW_inv {x : Option Nat} {w : World} (h : WInvX x w) {e : Ent} (he : e ∈ w.ents) (hq : e.box ≠ .queue)
    (p : Nat) (dup : Bool) (old : Option Nat) (n : Nat) (hal : (w.req e.rid).alarm = old)
    (ppr : Proto) (hpp : w.protos.get? p = some ppr) (haddr : ppr.addr = e.addr) :
    WInvX x (retryPublishW p e.rid dup (marked w old n)) := by
  have hm := h.keyId e he hq
  obtain ⟨w0, hw0⟩ : ∃ w0, w0 = marked w old n := ⟨_, rfl⟩
  have f := hw0 ▸ markedFacts w old n
  rw [← hw0]
  have hm0 : (w0.req e.rid).msgId ≠ 0 := by rw [f.req, hm.1]; exact hm.2
  have hm0w : (w.req e.rid).msgId ≠ 0 := by rw [hm.1]; exact hm.2
  apply armedLike_inv h he hq p old n hal ppr hpp haddr
  · simp [retryPublishW, hm0, f.ents]
  · intro r hr
    have : ¬ e.rid = r := fun hc => hr hc.symm
    simp [retryPublishW, hm0, hm0w, this, f.req]
  · simp [retryPublishW, hm0, hm0w, f.req, f.nextTimer]
  · intro t
    simp only [retryPublishW, req_setReq, ↓reduceIte, hm0, ne_eq, not_false_eq_true, emit_timers, setReq_timers, callLater_timers,
      setReq_nextTimer, setReq_now, addT, Dict.get?_set, f.timers, f.nextTimer]
    by_cases ht : w.nextTimer = t
    · simp [ht]
    · simp only [ht, ↓reduceIte]
  all_goals simp [retryPublishW, hm0, f.fired, f.connReqs, f.protos, f.nextId, f.nextReq, f.nextTimer, f.nextDfd, f.nextCR, f.nextProto]

theorem retryReleaseW_inv {x : Option Nat} {w : World} (h : WInvX x w) {e : Ent} (he : e ∈ w.ents) (hq : e.box ≠ .queue)
    (p : Nat) (dup : Bool) (old : Option Nat) (n : Nat) (hal : (w.req e.rid).alarm = old)
    (ppr : Proto) (hpp : w.protos.get? p = some ppr) (haddr : ppr.addr = e.addr) :
    WInvX x (retryReleaseW p e.rid dup (marked w old n)) := by
  obtain ⟨w0, hw0⟩ : ∃ w0, w0 = marked w old n := ⟨_, rfl⟩
  have f := hw0 ▸ markedFacts w old n
  rw [← hw0]
  apply armedLike_inv h he hq p old n hal ppr hpp haddr
  · simp only [retryReleaseW]; split <;> simp [f.ents]
  · intro r hr
    have : ¬ e.rid = r := fun hc => hr hc.symm
    simp only [retryReleaseW]; split <;> simp [this, f.req]
  · simp only [retryReleaseW]; split <;> simp [f.req, f.nextTimer]
  · intro t
    simp only [retryReleaseW]
    split <;>
    · simp only [emit_timers, setReq_timers, callLater_timers, setReq_nextTimer, setReq_now, addT, Dict.get?_set, f.timers, f.nextTimer]
      by_cases ht : w.nextTimer = t
      · simp [ht]
      · simp only [ht, ↓reduceIte]
  all_goals (simp only [retryReleaseW]; split <;> simp [f.fired, f.connReqs, f.protos, f.nextId, f.nextReq, f.nextTimer, f.nextDfd, f.nextCR, f.nextProto])

theorem retrySubUnsubW_inv {x : Option Nat} {w : World} (h : WInvX x w) {e : Ent} (he : e ∈ w.ents) (hq : e.box ≠ .queue)
    (p : Nat) (dup isSub : Bool) (old : Option Nat) (n : Nat) (hal : (w.req e.rid).alarm = old)
    (ppr : Proto) (hpp : w.protos.get? p = some ppr) (haddr : ppr.addr = e.addr) :
    WInvX x (retrySubUnsubW p e.rid dup isSub (marked w old n)) := by
  obtain ⟨w0, hw0⟩ : ∃ w0, w0 = marked w old n := ⟨_, rfl⟩
  have f := hw0 ▸ markedFacts w old n
  rw [← hw0]
  apply armedLike_inv h he hq p old n hal ppr hpp haddr
  · simp only [retrySubUnsubW]; split <;> simp [f.ents]
  · intro r hr
    have : ¬ e.rid = r := fun hc => hr hc.symm
    simp only [retrySubUnsubW]; split <;> simp [this, f.req]
  · simp only [retrySubUnsubW]; split <;> simp [f.req, f.nextTimer]
  · intro t
    simp only [retrySubUnsubW]
    split <;>
    · simp only [emit_timers, setReq_timers, callLater_timers, setReq_nextTimer, setReq_now, addT, Dict.get?_set, f.timers, f.nextTimer]
      by_cases ht : w.nextTimer = t
      · simp [ht]
      · simp only [ht, ↓reduceIte]
  all_goals (simp only [retrySubUnsubW]; split <;> simp [f.fired, f.connReqs, f.protos, f.nextId, f.nextReq, f.nextTimer, f.nextDfd, f.nextCR, f.nextProto])

/-! ### `_refillPublish`: held-back messages move into the publish window -/

theorem getD_of_get? {w : World} {p : Nat} {pr : Proto} (h : w.protos.get? p = some pr) : w.proto p = pr := by
  simp [World.proto, h]

/-- one iteration of the refill loop -/
theorem launch_inv {x : Option Nat} {w : World} (h : WInvX x w) (p : Nat) (dup : Bool) (ppr : Proto)
    (hpp : w.protos.get? p = some ppr) {e : Ent} {rest : List Ent} (hitems : Ents.items w.ents ppr.addr .queue = e :: rest) :
    WInvX x (retryPublishW p e.rid dup
      (if (w.req e.rid).msgId ≠ 0 then
        (w.setEnts fun es => Ents.dropFirst es ppr.addr .queue).setEnts fun es => Ents.insert es ppr.addr .pub (w.req e.rid).msgId e.rid
       else w.setEnts fun es => Ents.dropFirst es ppr.addr .queue)) := by
  have hein : e ∈ Ents.items w.ents ppr.addr .queue := by rw [hitems]; simp
  obtain ⟨he, hea, heb⟩ := Ents.mem_items.mp hein
  obtain ⟨hd1, hd2, hd3⟩ := Ents.dropFirst_spec hitems h.nodup
  have hal := h.queueNoAlarm e he heb
  -- the world after `popleft()`
  have h1 : WInvX x (w.setEnts fun es => Ents.dropFirst es ppr.addr .queue) := dropQuiet_inv h hal _ hd3 hd1
  by_cases hm0 : (w.req e.rid).msgId = 0
  · -- QoS 0: written, nothing else
    simp only [hm0, ne_eq, not_true_eq_false, ↓reduceIte]
    refine h1.sameCore ?_
    have hm0' : ((w.setEnts fun es => Ents.dropFirst es ppr.addr .queue).req e.rid).msgId = 0 := hm0
    apply sameCore_of
    · simp [retryPublishW, hm0', hm0]
    · intro r
      simp only [retryPublishW, hm0', ne_eq, not_true_eq_false, ↓reduceIte, emit_req, req_setReq]
      by_cases hr : e.rid = r
      · subst hr; simp [hm0]
      · simp [hr]
    · intro t; simp [retryPublishW, hm0', hm0]
    all_goals simp [retryPublishW, hm0', hm0, h.idCounter]
  · simp only [ne_eq, hm0, not_false_eq_true, ↓reduceIte]
    let w1 := w.setEnts fun es => Ents.dropFirst es ppr.addr .queue
    have hw1mem : ∀ y, y ∈ w1.ents ↔ y ∈ w.ents ∧ y ≠ e := hd1
    -- the identifier of the message is not a key of the publish window yet
    have hlook : Ents.lookup w1.ents ppr.addr .pub (w.req e.rid).msgId = none := by
      cases hl : Ents.lookup w1.ents ppr.addr .pub (w.req e.rid).msgId with
      | none => rfl
      | some rid =>
        have hm := Ents.lookup_some hl
        obtain ⟨hy, hne⟩ := (hw1mem _).mp hm
        have := h.idUnique _ hy e he (by simp [idOf, heb]) (by simp [idOf]; exact hm0)
        exact absurd this hne
    have hins : Ents.insert w1.ents ppr.addr .pub (w.req e.rid).msgId e.rid = w1.ents ++ [⟨ppr.addr, .pub, (w.req e.rid).msgId, e.rid⟩] :=
      Ents.insert_of_lookup_none _ hlook
    obtain ⟨d, hd⟩ : ∃ d, (w.req e.rid).dfd = some d := by
      cases hdd : (w.req e.rid).dfd with
      | none => exact absurd hdd (h.dfdSome e he hm0)
      | some d => exact ⟨d, rfl⟩
    have hdf := h.dfdFresh e he d hd
    let r' : Req := { (w.req e.rid) with encoded := patchDup (w.req e.rid).encoded dup,
                                         ivK := (w.req e.rid).ivK * (w.req e.rid).factor, alarm := some w.nextTimer }
    have hA := addWindow_inv h1 ppr.addr .pub (w.req e.rid).msgId e.rid r' p 0 w.nextReq w.nextDfd []
      (fun y hy hc => ((hw1mem y).mp hy).2 (h.ridUnique y ((hw1mem y).mp hy).1 e he hc))
      (h.ridFresh e he) (Nat.le_refl _) (Nat.le_refl _)
      (by
        intro t q hp
        obtain ⟨y, hy, hy1, hy2⟩ := h.noStale t q e.rid hp
        have := h.ridUnique y hy e he hy1
        subst this; rw [hal] at hy2; cases hy2)
      (by simp) rfl hm0
      (by
        intro y hy hc
        obtain ⟨hy1, hy2⟩ := (hw1mem y).mp hy
        have hc' : idOf w y = (w.req e.rid).msgId := hc
        exact hy2 (h.idUnique y hy1 e he (by rw [hc']; simp [idOf, heb]) (by rw [hc']; exact hm0)))
      rfl d hd hdf.1 hdf.2
      (by
        intro y hy hc
        obtain ⟨hy1, hy2⟩ := (hw1mem y).mp hy
        exact hy2 (h.dfdInj y hy1 e he d hc hd))
      (by
        intro cr c hc hcd
        exact (h.connReq cr c d hc hcd hdf.2).2.2 e he hd)
      ppr hpp rfl
    refine hA.sameCore ?_
    have hA1 : ∀ r, (addWindow w1 ppr.addr .pub (w.req e.rid).msgId e.rid r' p 0 w.nextReq w.nextDfd []).req r
        = if e.rid = r then r' else w.req r := fun r => req_set w1 e.rid _ r _ rfl
    have hm0' : (((w.setEnts fun es => Ents.dropFirst es ppr.addr .queue).setEnts fun es =>
        Ents.insert es ppr.addr .pub (w.req e.rid).msgId e.rid).req e.rid).msgId ≠ 0 := hm0
    apply sameCore_of
    · simp only [retryPublishW, req_setReq, setEnts_req, hm0, ne_eq, not_false_eq_true, ↓reduceIte, emit_ents, setReq_ents, callLater_ents, setEnts_ents, addWindow]
      exact hins
    · intro r
      rw [hA1]
      simp only [retryPublishW, req_setReq, setEnts_req, hm0, ne_eq, not_false_eq_true, ↓reduceIte, emit_req, callLater_req]
      by_cases hr : e.rid = r
      · subst hr; simp [r']
      · simp [hr]
    · intro t
      simp only [retryPublishW, req_setReq, setEnts_req, hm0, ne_eq, not_false_eq_true, ↓reduceIte, emit_timers, setReq_timers, callLater_timers,
        setReq_nextTimer, setEnts_timers, setEnts_nextTimer, addWindow, addT, Dict.get?_set, w1]
      by_cases ht : w.nextTimer = t
      · simp [ht]
      · simp only [ht, ↓reduceIte]
    all_goals simp [retryPublishW, hm0', hm0, addWindow, h.idCounter, w1]

/-- the protocols are untouched by the retransmission helpers -/
theorem retryPublishW_protos (p rid : Nat) (dup : Bool) (w : World) : (retryPublishW p rid dup w).protos = w.protos := by
  simp only [retryPublishW]; split <;> simp

theorem refillW_inv {x : Option Nat} (p : Nat) (dup : Bool) (ppr : Proto) (fuel : Nat) :
    ∀ {w : World}, WInvX x w → w.protos.get? p = some ppr → WInvX x (refillW p dup fuel w) ∧ (refillW p dup fuel w).protos = w.protos := by
  induction fuel with
  | zero => intro w h _; exact ⟨h, rfl⟩
  | succ f ih =>
    intro w h hpp
    have hpa : w.paddr p = ppr.addr := by simp [World.paddr, getD_of_get? hpp]
    simp only [refillW, hpa]
    cases hit : Ents.items w.ents ppr.addr .queue with
    | nil => exact ⟨h, rfl⟩
    | cons e rest =>
      simp only
      split
      · have hl := launch_inv h p dup ppr hpp hit
        have hpr : ∀ (w2 : World), w2.protos = w.protos → (retryPublishW p e.rid dup w2).protos = w.protos := by
          intro w2 h2; rw [retryPublishW_protos, h2]
        by_cases hm0 : (w.req e.rid).msgId = 0
        · simp only [hm0, ne_eq, not_true_eq_false, ↓reduceIte] at hl ⊢
          have hp2 := hpr (w.setEnts fun es => Ents.dropFirst es ppr.addr .queue) rfl
          have := ih hl (by rw [hp2]; exact hpp)
          exact ⟨this.1, by rw [this.2, hp2]⟩
        · simp only [ne_eq, hm0, not_false_eq_true, ↓reduceIte] at hl ⊢
          have hp2 := hpr ((w.setEnts fun es => Ents.dropFirst es ppr.addr .queue).setEnts fun es =>
            Ents.insert es ppr.addr .pub (w.req e.rid).msgId e.rid) rfl
          have := ih hl (by rw [hp2]; exact hpp)
          exact ⟨this.1, by rw [this.2, hp2]⟩
      · exact ⟨h, rfl⟩

end Mqtt
