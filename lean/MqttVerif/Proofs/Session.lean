import MqttVerif.Proofs.Trans
import MqttVerif.Proofs.Simp
import MqttVerif.Proofs.Prim
/-
  The handlers of the session layer preserve the invariant and raise nothing.
-/
namespace Mqtt

theorem protos_refl (w w' : World) (hp : w'.protos = w.protos) :
    ∀ p, (∀ pr', w'.protos.get? p = some pr' → ∃ pr, w.protos.get? p = some pr ∧ pr'.addr = pr.addr ∧ pr'.state = pr.state ∧
      pr'.lost = pr.lost ∧ pr'.pingTimer = pr.pingTimer ∧ pr'.pingAlarm = pr.pingAlarm ∧ pr'.pingKeepalive = pr.pingKeepalive ∧ pr'.connReq = pr.connReq ∧ (Bytes.WF pr.buffer → Bytes.WF pr'.buffer)) ∧
    (∀ pr, w.protos.get? p = some pr → ∃ pr', w'.protos.get? p = some pr') := by
  intro p; rw [hp]
  exact ⟨fun pr' h => ⟨pr', h, rfl, rfl, rfl, rfl, rfl, rfl, rfl, id⟩, fun pr h => ⟨pr, h⟩⟩

/-- two worlds with the same core (everything but log, clock, ghost counters, inbound store, and the fields of
    request objects other than msgId/dfd/alarm) -/
theorem sameCore_of (w w' : World) (hents : w'.ents = w.ents)
    (hreqs : ∀ r, (w'.req r).msgId = (w.req r).msgId ∧ (w'.req r).dfd = (w.req r).dfd ∧ (w'.req r).alarm = (w.req r).alarm)
    (htimers : ∀ t, (w'.timers.get? t).map (fun tm => (tm.kind, tm.status)) = (w.timers.get? t).map (fun tm => (tm.kind, tm.status))) (hfired : w'.fired = w.fired) (hcr : w'.connReqs = w.connReqs)
    (hprotos : w'.protos = w.protos) (hid : w'.nextId = w.nextId) (hidle : w.nextId ≤ 65535) (h1 : w'.nextReq = w.nextReq) (h2 : w'.nextTimer = w.nextTimer)
    (h3 : w'.nextDfd = w.nextDfd) (h4 : w'.nextCR = w.nextCR) (h5 : w'.nextProto = w.nextProto) (h6 : w'.profile = w.profile) : SameCore w w' :=
  { ents := hents, reqs := hreqs,
    timers := by
      intro t
      have := htimers t
      constructor
      · intro tm' h'
        rw [h'] at this
        cases hw : w.timers.get? t with
        | none => rw [hw] at this; simp at this
        | some tm =>
          rw [hw] at this; simp at this
          exact ⟨tm, rfl, this.1, this.2⟩
      · intro tm h'
        rw [h'] at this
        cases hw : w'.timers.get? t with
        | none => rw [hw] at this; simp at this
        | some tm' =>
          rw [hw] at this; simp at this
          exact ⟨tm', rfl, this.1, this.2⟩,
    fired := hfired, connReqs := hcr, nextId := by rw [hid]; exact hidle,
    nextReq := by rw [h1]; exact Nat.le_refl _, nextTimer := h2, nextDfd := by rw [h3]; exact Nat.le_refl _, nextCR := h4, nextProto := h5, profile := h6,
    protos := protos_refl w w' hprotos }

/-! ### the retransmission helpers arm the entry they are applied to -/

/-- the world in which the retry helper runs: as is (first transmission, resumption) or, on expiry, with the
    entry's old alarm marked as called and the clock advanced by `fireTimer` -/
def marked (w : World) (old : Option Nat) (n : Nat) : World :=
  { w with now := n,
           timers := match old with
                     | none => w.timers
                     | some t => w.timers.set t { (w.timers.get? t).getD default with status := .called } }

theorem marked_none (w : World) : marked w none w.now = w := rfl

/-- any world that looks like "entry `e` armed with a fresh retry timer of protocol `p`" satisfies the invariant -/
theorem armedLike_inv {x : Option Nat} {w : World} (h : WInvX x w) {e : Ent} (he : e ∈ w.ents) (hq : e.box ≠ .queue)
    (p : Nat) (old : Option Nat) (n : Nat) (hal : (w.req e.rid).alarm = old)
    (ppr : Proto) (hpp : w.protos.get? p = some ppr) (haddr : ppr.addr = e.addr) (hlive : ppr.lost = false) (w' : World)
    (hents : w'.ents = w.ents)
    (hreq : ∀ r, r ≠ e.rid → (w'.req r).msgId = (w.req r).msgId ∧ (w'.req r).dfd = (w.req r).dfd ∧ (w'.req r).alarm = (w.req r).alarm)
    (hreqe : (w'.req e.rid).msgId = (w.req e.rid).msgId ∧ (w'.req e.rid).dfd = (w.req e.rid).dfd ∧ (w'.req e.rid).alarm = some w.nextTimer)
    (htim : ∀ t, (w'.timers.get? t).map (fun tm => (tm.kind, tm.status)) =
        ((addT (marked w old n).timers w.nextTimer 0 (.retry p e.rid)).get? t).map (fun tm => (tm.kind, tm.status)))
    (hfired : w'.fired = w.fired) (hcr : w'.connReqs = w.connReqs) (hprotos : w'.protos = w.protos)
    (hid : w'.nextId = w.nextId) (h1 : w'.nextReq = w.nextReq) (h2 : w'.nextTimer = w.nextTimer + 1)
    (h3 : w'.nextDfd = w.nextDfd) (h4 : w'.nextCR = w.nextCR) (h5 : w'.nextProto = w.nextProto) (h6 : w'.profile = w.profile) : WInvX x w' := by
  let r' : Req := { (w.req e.rid) with alarm := some w.nextTimer }
  have hA := armed_inv h he hq r' p 0 old 0 [] rfl rfl rfl hal ppr hpp haddr hlive
  refine hA.sameCore ?_
  have hA1 : ∀ r, (armed w e r' p 0 old 0 []).req r = if e.rid = r then r' else w.req r := fun r => req_set w e.rid _ r _ rfl
  apply sameCore_of
  · rw [hents]; rfl
  · intro r
    rw [hA1]
    by_cases hr : e.rid = r
    · subst hr; simp only [↓reduceIte]; exact hreqe
    · simp only [hr, ↓reduceIte]; exact hreq r (fun hc => hr hc.symm)
  · intro t; rw [htim t]; rfl
  · rw [hfired]; rfl
  · rw [hcr]; rfl
  · rw [hprotos]; rfl
  · rw [hid]; rfl
  · exact h.idCounter
  · rw [h1]; rfl
  · rw [h2]; rfl
  · rw [h3]; rfl
  · rw [h4]; rfl
  · rw [h5]; rfl
  · rw [h6]; rfl

theorem marked_req (w : World) (old : Option Nat) (n r : Nat) : (marked w old n).req r = w.req r := rfl
theorem marked_proto (w : World) (old : Option Nat) (n p : Nat) : (marked w old n).proto p = w.proto p := rfl

/-- what `marked` leaves unchanged -/
structure MarkedFacts (w : World) (old : Option Nat) (n : Nat) (w0 : World) : Prop where
  ents : w0.ents = w.ents
  req : ∀ r, w0.req r = w.req r
  proto : ∀ p, w0.proto p = w.proto p
  paddr : ∀ p, w0.paddr p = w.paddr p
  timers : w0.timers = (marked w old n).timers
  nextTimer : w0.nextTimer = w.nextTimer
  fired : w0.fired = w.fired
  connReqs : w0.connReqs = w.connReqs
  protos : w0.protos = w.protos
  nextId : w0.nextId = w.nextId
  nextReq : w0.nextReq = w.nextReq
  nextDfd : w0.nextDfd = w.nextDfd
  nextCR : w0.nextCR = w.nextCR
  nextProto : w0.nextProto = w.nextProto
  profile : w0.profile = w.profile

theorem markedFacts (w : World) (old : Option Nat) (n : Nat) : MarkedFacts w old n (marked w old n) := by
  constructor <;> intros <;> rfl

theorem retryPublishW_inv {x : Option Nat} {w : World} (h : WInvX x w) {e : Ent} (he : e ∈ w.ents) (hq : e.box ≠ .queue)
    (p : Nat) (dup : Bool) (old : Option Nat) (n : Nat) (hal : (w.req e.rid).alarm = old)
    (ppr : Proto) (hpp : w.protos.get? p = some ppr) (haddr : ppr.addr = e.addr) (hlive : ppr.lost = false) :
    WInvX x (retryPublishW p e.rid dup (marked w old n)) := by
  have hm := h.keyId e he hq
  obtain ⟨w0, hw0⟩ : ∃ w0, w0 = marked w old n := ⟨_, rfl⟩
  have f := hw0 ▸ markedFacts w old n
  rw [← hw0]
  have hm0 : (w0.req e.rid).msgId ≠ 0 := by rw [f.req, hm.1]; exact hm.2
  have hm0w : (w.req e.rid).msgId ≠ 0 := by rw [hm.1]; exact hm.2
  apply armedLike_inv h he hq p old n hal ppr hpp haddr hlive
  · simp [retryPublishW, hm0, f.ents]
  · intro r hr
    have : ¬ e.rid = r := fun hc => hr hc.symm
    simp [retryPublishW, hm0, hm0w, this, f.req]
  · simp [retryPublishW, hm0, hm0w, f.req, f.nextTimer]
  · intro t
    simp only [retryPublishW, req_setReq, ↓reduceIte, hm0, ne_eq, not_false_eq_true, emit_timers, setReq_timers, callLater_timers,
      setReq_nextTimer, setReq_now, addT, Dict.get?_set, f.timers, f.nextTimer]
    by_cases ht : w.nextTimer = t
    · simp [ht]
    · simp only [ht, ↓reduceIte]
  all_goals simp [retryPublishW, hm0, f.fired, f.connReqs, f.protos, f.nextId, f.nextReq, f.nextTimer, f.nextDfd, f.nextCR, f.nextProto, f.profile]

theorem retryReleaseW_inv {x : Option Nat} {w : World} (h : WInvX x w) {e : Ent} (he : e ∈ w.ents) (hq : e.box ≠ .queue)
    (p : Nat) (dup : Bool) (old : Option Nat) (n : Nat) (hal : (w.req e.rid).alarm = old)
    (ppr : Proto) (hpp : w.protos.get? p = some ppr) (haddr : ppr.addr = e.addr) (hlive : ppr.lost = false) :
    WInvX x (retryReleaseW p e.rid dup (marked w old n)) := by
  obtain ⟨w0, hw0⟩ : ∃ w0, w0 = marked w old n := ⟨_, rfl⟩
  have f := hw0 ▸ markedFacts w old n
  rw [← hw0]
  apply armedLike_inv h he hq p old n hal ppr hpp haddr hlive
  · simp only [retryReleaseW]; split <;> simp [f.ents]
  · intro r hr
    have : ¬ e.rid = r := fun hc => hr hc.symm
    simp only [retryReleaseW]; split <;> simp [this, f.req]
  · simp only [retryReleaseW]; split <;> simp [f.req, f.nextTimer]
  · intro t
    simp only [retryReleaseW]
    split <;>
    · simp only [emit_timers, setReq_timers, callLater_timers, setReq_nextTimer, setReq_now, addT, Dict.get?_set, f.timers, f.nextTimer]
      by_cases ht : w.nextTimer = t
      · simp [ht]
      · simp only [ht, ↓reduceIte]
  all_goals (simp only [retryReleaseW]; split <;> simp [f.fired, f.connReqs, f.protos, f.nextId, f.nextReq, f.nextTimer, f.nextDfd, f.nextCR, f.nextProto, f.profile])

theorem retrySubUnsubW_inv {x : Option Nat} {w : World} (h : WInvX x w) {e : Ent} (he : e ∈ w.ents) (hq : e.box ≠ .queue)
    (p : Nat) (dup isSub : Bool) (old : Option Nat) (n : Nat) (hal : (w.req e.rid).alarm = old)
    (ppr : Proto) (hpp : w.protos.get? p = some ppr) (haddr : ppr.addr = e.addr) (hlive : ppr.lost = false) :
    WInvX x (retrySubUnsubW p e.rid dup isSub (marked w old n)) := by
  obtain ⟨w0, hw0⟩ : ∃ w0, w0 = marked w old n := ⟨_, rfl⟩
  have f := hw0 ▸ markedFacts w old n
  rw [← hw0]
  apply armedLike_inv h he hq p old n hal ppr hpp haddr hlive
  · simp only [retrySubUnsubW]; split <;> simp [f.ents]
  · intro r hr
    have : ¬ e.rid = r := fun hc => hr hc.symm
    simp only [retrySubUnsubW]; split <;> simp [this, f.req]
  · simp only [retrySubUnsubW]; split <;> simp [f.req, f.nextTimer]
  · intro t
    simp only [retrySubUnsubW]
    split <;>
    · simp only [emit_timers, setReq_timers, callLater_timers, setReq_nextTimer, setReq_now, addT, Dict.get?_set, f.timers, f.nextTimer]
      by_cases ht : w.nextTimer = t
      · simp [ht]
      · simp only [ht, ↓reduceIte]
  all_goals (simp only [retrySubUnsubW]; split <;> simp [f.fired, f.connReqs, f.protos, f.nextId, f.nextReq, f.nextTimer, f.nextDfd, f.nextCR, f.nextProto, f.profile])

/-! ### `_refillPublish`: held-back messages move into the publish window -/

theorem getD_of_get? {w : World} {p : Nat} {pr : Proto} (h : w.protos.get? p = some pr) : w.proto p = pr := by
  simp [World.proto, h]

/-- one iteration of the refill loop -/
theorem launch_inv {x : Option Nat} {w : World} (h : WInvX x w) (p : Nat) (dup : Bool) (ppr : Proto)
    (hpp : w.protos.get? p = some ppr) (hlive : ppr.lost = false) {e : Ent} {rest : List Ent} (hitems : Ents.items w.ents ppr.addr .queue = e :: rest) :
    WInvX x (retryPublishW p e.rid dup
      (if (w.req e.rid).msgId ≠ 0 then
        (w.setEnts fun es => Ents.dropFirst es ppr.addr .queue).setEnts fun es => Ents.insert es ppr.addr .pub (w.req e.rid).msgId e.rid
       else w.setEnts fun es => Ents.dropFirst es ppr.addr .queue)) := by
  have hein : e ∈ Ents.items w.ents ppr.addr .queue := by rw [hitems]; simp
  obtain ⟨he, hea, heb⟩ := Ents.mem_items.mp hein
  obtain ⟨hd1, hd2, hd3⟩ := Ents.dropFirst_spec hitems h.nodup
  have hal := h.queueNoAlarm e he heb
  -- the world after `popleft()`
  have h1 : WInvX x (w.setEnts fun es => Ents.dropFirst es ppr.addr .queue) := dropQuiet_inv h hal _ hd3 hd1
  by_cases hm0 : (w.req e.rid).msgId = 0
  · -- QoS 0: written, nothing else
    simp only [hm0, ne_eq, not_true_eq_false, ↓reduceIte]
    refine h1.sameCore ?_
    have hm0' : ((w.setEnts fun es => Ents.dropFirst es ppr.addr .queue).req e.rid).msgId = 0 := hm0
    apply sameCore_of
    · simp [retryPublishW, hm0', hm0]
    · intro r
      simp only [retryPublishW, hm0', ne_eq, not_true_eq_false, ↓reduceIte, emit_req, req_setReq]
      by_cases hr : e.rid = r
      · subst hr; simp [hm0]
      · simp [hr]
    · intro t; simp [retryPublishW, hm0', hm0]
    all_goals simp [retryPublishW, hm0', hm0, h.idCounter]
  · simp only [ne_eq, hm0, not_false_eq_true, ↓reduceIte]
    let w1 := w.setEnts fun es => Ents.dropFirst es ppr.addr .queue
    have hw1mem : ∀ y, y ∈ w1.ents ↔ y ∈ w.ents ∧ y ≠ e := hd1
    -- the identifier of the message is not a key of the publish window yet
    have hlook : Ents.lookup w1.ents ppr.addr .pub (w.req e.rid).msgId = none := by
      cases hl : Ents.lookup w1.ents ppr.addr .pub (w.req e.rid).msgId with
      | none => rfl
      | some rid =>
        have hm := Ents.lookup_some hl
        obtain ⟨hy, hne⟩ := (hw1mem _).mp hm
        have := h.idUnique _ hy e he (by simp [idOf, heb]) (by simp [idOf]; exact hm0)
        exact absurd this hne
    have hins : Ents.insert w1.ents ppr.addr .pub (w.req e.rid).msgId e.rid = w1.ents ++ [⟨ppr.addr, .pub, (w.req e.rid).msgId, e.rid⟩] :=
      Ents.insert_of_lookup_none _ hlook
    obtain ⟨d, hd⟩ : ∃ d, (w.req e.rid).dfd = some d := by
      cases hdd : (w.req e.rid).dfd with
      | none => exact absurd hdd (h.dfdSome e he hm0)
      | some d => exact ⟨d, rfl⟩
    have hdf := h.dfdFresh e he d hd
    let r' : Req := { (w.req e.rid) with encoded := patchDup (w.req e.rid).encoded dup,
                                         ivK := (w.req e.rid).ivK * (w.req e.rid).factor, alarm := some w.nextTimer }
    have hA := addWindow_inv h1 ppr.addr .pub (w.req e.rid).msgId e.rid r' p 0 w.nextReq w.nextDfd []
      (fun y hy hc => ((hw1mem y).mp hy).2 (h.ridUnique y ((hw1mem y).mp hy).1 e he hc))
      (h.ridFresh e he) (Nat.le_refl _) (Nat.le_refl _)
      (by
        intro t q hp
        obtain ⟨y, hy, hy1, hy2⟩ := h.noStale t q e.rid hp
        have := h.ridUnique y hy e he hy1
        subst this; rw [hal] at hy2; cases hy2)
      (by simp) rfl hm0
      (by
        intro y hy hc
        obtain ⟨hy1, hy2⟩ := (hw1mem y).mp hy
        have hc' : idOf w y = (w.req e.rid).msgId := hc
        exact hy2 (h.idUnique y hy1 e he (by rw [hc']; simp [idOf, heb]) (by rw [hc']; exact hm0)))
      rfl d hd hdf.1 hdf.2
      (by
        intro y hy hc
        obtain ⟨hy1, hy2⟩ := (hw1mem y).mp hy
        exact hy2 (h.dfdInj y hy1 e he d hc hd))
      (by
        intro cr c hc hcd
        exact (h.connReq cr c d hc hcd hdf.2).2 e he hd)
      ppr hpp rfl hlive
    refine hA.sameCore ?_
    have hA1 : ∀ r, (addWindow w1 ppr.addr .pub (w.req e.rid).msgId e.rid r' p 0 w.nextReq w.nextDfd []).req r
        = if e.rid = r then r' else w.req r := fun r => req_set w1 e.rid _ r _ rfl
    have hm0' : (((w.setEnts fun es => Ents.dropFirst es ppr.addr .queue).setEnts fun es =>
        Ents.insert es ppr.addr .pub (w.req e.rid).msgId e.rid).req e.rid).msgId ≠ 0 := hm0
    apply sameCore_of
    · simp only [retryPublishW, req_setReq, setEnts_req, hm0, ne_eq, not_false_eq_true, ↓reduceIte, emit_ents, setReq_ents, callLater_ents, setEnts_ents, addWindow]
      exact hins
    · intro r
      rw [hA1]
      simp only [retryPublishW, req_setReq, setEnts_req, hm0, ne_eq, not_false_eq_true, ↓reduceIte, emit_req, callLater_req]
      by_cases hr : e.rid = r
      · subst hr; simp [r']
      · simp [hr]
    · intro t
      simp only [retryPublishW, req_setReq, setEnts_req, hm0, ne_eq, not_false_eq_true, ↓reduceIte, emit_timers, setReq_timers, callLater_timers,
        setReq_nextTimer, setEnts_timers, setEnts_nextTimer, addWindow, addT, Dict.get?_set, w1]
      by_cases ht : w.nextTimer = t
      · simp [ht]
      · simp only [ht, ↓reduceIte]
    all_goals simp [retryPublishW, hm0', hm0, addWindow, h.idCounter, w1]

/-- the protocols are untouched by the retransmission helpers -/
theorem retryPublishW_protos (p rid : Nat) (dup : Bool) (w : World) : (retryPublishW p rid dup w).protos = w.protos := by
  simp only [retryPublishW]; split <;> simp

theorem refillW_inv {x : Option Nat} (p : Nat) (dup : Bool) (ppr : Proto) (fuel : Nat) :
    ∀ {w : World}, WInvX x w → w.protos.get? p = some ppr → ppr.lost = false →
      WInvX x (refillW p dup fuel w) ∧ (refillW p dup fuel w).protos = w.protos := by
  induction fuel with
  | zero => intro w h _ _; exact ⟨h, rfl⟩
  | succ f ih =>
    intro w h hpp hlive
    have hpa : w.paddr p = ppr.addr := by simp [World.paddr, getD_of_get? hpp]
    simp only [refillW, hpa]
    cases hit : Ents.items w.ents ppr.addr .queue with
    | nil => exact ⟨h, rfl⟩
    | cons e rest =>
      simp only
      split
      · have hl := launch_inv h p dup ppr hpp hlive hit
        have hpr : ∀ (w2 : World), w2.protos = w.protos → (retryPublishW p e.rid dup w2).protos = w.protos := by
          intro w2 h2; rw [retryPublishW_protos, h2]
        by_cases hm0 : (w.req e.rid).msgId = 0
        · simp only [hm0, ne_eq, not_true_eq_false, ↓reduceIte] at hl ⊢
          have hp2 := hpr (w.setEnts fun es => Ents.dropFirst es ppr.addr .queue) rfl
          have := ih hl (by rw [hp2]; exact hpp) hlive
          exact ⟨this.1, by rw [this.2, hp2]⟩
        · simp only [ne_eq, hm0, not_false_eq_true, ↓reduceIte] at hl ⊢
          have hp2 := hpr ((w.setEnts fun es => Ents.dropFirst es ppr.addr .queue).setEnts fun es =>
            Ents.insert es ppr.addr .pub (w.req e.rid).msgId e.rid) rfl
          have := ih hl (by rw [hp2]; exact hpp) hlive
          exact ⟨this.1, by rw [this.2, hp2]⟩
      · exact ⟨h, rfl⟩

/-! ### evaluation of the Step combinators -/

theorem seq_ok {a b : Step} {w w1 : World} (h : a w = (w1, none)) : (a ;; b) w = b w1 := by
  simp [Step.seq, h]

@[simp] theorem read_apply (f : World → Step) (w : World) : Step.read f w = f w w := rfl
@[simp] theorem mod_apply (f : World → World) (w : World) : Step.mod f w = (f w, none) := rfl
@[simp] theorem ok_apply (w : World) : Step.ok w = (w, none) := rfl

theorem cancelTimer_pending (w : World) (t : Nat) (k : TKind) (h : Pending w t k) :
    cancelTimer t w = ({ w with timers := cancelT w t }, none) := by
  obtain ⟨tm, a, b, _⟩ := h
  simp [cancelTimer, a, b, cancelT]

theorem fireDfd_unfired (w : World) (d : Nat) (o : Outcome) (h : d ∉ w.fired) :
    fireDfd d o w = (fireD w d (.fired d o), none) := by
  simp [fireDfd, h, Step.seq, emit, fireD, World.emit]

/-- an in-flight request is settled: alarm cancelled, Deferred fired, entry removed (in any order) -/
theorem settle_inv {x : Option Nat} {w : World} (h : WInvX x w) {e : Ent} (he : e ∈ w.ents) (hq : e.box ≠ .queue) {t d : Nat}
    (ht : (w.req e.rid).alarm = some t) (hd : (w.req e.rid).dfd = some d) (o : Obs) :
    WInvX x (fireD (dropArmed w e t) d o) := by
  have h1 := dropArmed_inv h he hq ht
  have hmem := dropArmed_mem h he hq t
  have hdf := h.dfdFresh e he d hd
  apply fireD_inv h1 hdf.1
  · intro y hy hc
    obtain ⟨hy1, hy2⟩ := (hmem y).mp hy
    exact hy2 (h.dfdInj y hy1 e he d hc hd)
  · intro t' cr c hp hc hcd
    have hp' : Pending w t' (.connack cr) := by
      obtain ⟨_, _, _, hpe, _⟩ := h.alarm e he t ht
      obtain ⟨tm, htm, _, _⟩ := hpe
      exact ((pending_cancelT htm t' _ _ rfl).mp hp).1
    obtain ⟨c', d', a1, a2, a3, _⟩ := h.connackOwned t' cr hp'
    have hc' : w.connReqs.get? cr = some c := hc
    rw [a1] at hc'; injection hc' with hc'; subst hc'
    rw [a2] at hcd; injection hcd with hcd; subst hcd
    exact (h.connReq cr c' d' a1 a2 a3).2 e he hd
  · intro p pr cr c hp' hcq hc hcd
    have hnf := (h.connReqLive p pr cr c hp' hcq hc).2 d hcd
    exact (h.connReq cr c d hc hcd hnf).2 e he hd

/-- MQTTProtocol.handlePUBACK on a connected, live protocol: no exception, invariant preserved -/
theorem handlePUBACK_inv {w : World} (h : WInv w) (p : Nat) (ppr : Proto) (hpp : w.protos.get? p = some ppr)
    (hlive : ppr.lost = false) (hconn : ppr.state = .connected) (m : Nat) :
    (handlePUBACK p m w).2 = none ∧ WInv (handlePUBACK p m w).1 := by
  have hpa : w.paddr p = ppr.addr := by simp [World.paddr, getD_of_get? hpp]
  simp only [handlePUBACK, read_apply, hpa]
  cases hl : Ents.lookup w.ents ppr.addr .pub m with
  | none => exact ⟨rfl, h⟩
  | some rid =>
    simp only
    by_cases hq1 : (w.req rid).qos = 1
    case neg => simp only [ne_eq, hq1, not_false_eq_true, ↓reduceIte]; exact ⟨rfl, h⟩
    simp only [ne_eq, hq1, not_true_eq_false, ↓reduceIte]
    have he := Ents.lookup_some hl
    have hq : (⟨ppr.addr, .pub, m, rid⟩ : Ent).box ≠ .queue := by simp
    have hal := h.connected p ppr hpp (by simp) hlive hconn _ he rfl hq
    obtain ⟨t, ht⟩ : ∃ t, (w.req rid).alarm = some t := by
      cases ha : (w.req rid).alarm with
      | none => exact absurd ha hal
      | some t => exact ⟨t, rfl⟩
    obtain ⟨_, p0, _, hpe, _⟩ := h.alarm _ he t ht
    have hk := h.keyId _ he hq
    obtain ⟨d, hd⟩ : ∃ d, (w.req rid).dfd = some d := by
      cases hdd : (w.req rid).dfd with
      | none => exact absurd hdd (h.dfdSome _ he (by rw [hk.1]; exact hk.2))
      | some d => exact ⟨d, rfl⟩
    have hdf := h.dfdFresh _ he d hd
    have s1 : cancelAlarm (w.req rid).alarm w = ({ w with timers := cancelT w t }, none) := by
      rw [ht]; exact cancelTimer_pending w t _ hpe
    rw [seq_ok s1]
    have s2 : fireReqDfd (w.req rid).dfd (.ok (.int (w.req rid).msgId)) { w with timers := cancelT w t }
        = (fireD { w with timers := cancelT w t } d (.fired d (.ok (.int (w.req rid).msgId))), none) := by
      rw [hd]; exact fireDfd_unfired _ d _ hdf.2
    rw [seq_ok s2]
    have s3 : setEnts (fun es => Ents.remove es ppr.addr .pub m) (fireD { w with timers := cancelT w t } d (.fired d (.ok (.int (w.req rid).msgId))))
        = (fireD (dropArmed w ⟨ppr.addr, .pub, m, rid⟩ t) d (.fired d (.ok (.int (w.req rid).msgId))), none) := rfl
    rw [seq_ok s3]
    have hS := settle_inv h he hq ht hd (.fired d (.ok (.int (w.req rid).msgId)))
    exact ⟨rfl, (refillW_inv (x := none) p false ppr _ hS hpp hlive).1⟩

/-- what is known about an entry found in a window of a connected, live protocol -/
theorem window_entry_facts {w : World} (h : WInv w) (p : Nat) (ppr : Proto) (hpp : w.protos.get? p = some ppr)
    (hlive : ppr.lost = false) (hconn : ppr.state = .connected) {e : Ent} (he : e ∈ w.ents) (hea : e.addr = ppr.addr)
    (hq : e.box ≠ .queue) :
    ∃ t d p0, (w.req e.rid).alarm = some t ∧ Pending w t (.retry p0 e.rid) ∧ (w.req e.rid).dfd = some d ∧ d ∉ w.fired ∧
      (w.req e.rid).msgId = e.key := by
  have hal := h.connected p ppr hpp (by simp) hlive hconn e he hea hq
  obtain ⟨t, ht⟩ : ∃ t, (w.req e.rid).alarm = some t := by
    cases ha : (w.req e.rid).alarm with
    | none => exact absurd ha hal
    | some t => exact ⟨t, rfl⟩
  obtain ⟨_, p0, _, hpe, _⟩ := h.alarm e he t ht
  have hk := h.keyId e he hq
  obtain ⟨d, hd⟩ : ∃ d, (w.req e.rid).dfd = some d := by
    cases hdd : (w.req e.rid).dfd with
    | none => exact absurd hdd (h.dfdSome e he (by rw [hk.1]; exact hk.2))
    | some d => exact ⟨d, rfl⟩
  exact ⟨t, d, p0, ht, hpe, hd, (h.dfdFresh e he d hd).2, hk.1⟩

/-- MQTTProtocol.handlePUBCOMP -/
theorem handlePUBCOMP_inv {w : World} (h : WInv w) (p : Nat) (ppr : Proto) (hpp : w.protos.get? p = some ppr)
    (hlive : ppr.lost = false) (hconn : ppr.state = .connected) (m : Nat) :
    (handlePUBCOMP p m w).2 = none ∧ WInv (handlePUBCOMP p m w).1 := by
  have hpa : w.paddr p = ppr.addr := by simp [World.paddr, getD_of_get? hpp]
  simp only [handlePUBCOMP, read_apply, hpa]
  cases hl : Ents.lookup w.ents ppr.addr .rel m with
  | none => exact ⟨rfl, h⟩
  | some rid =>
    simp only
    have he := Ents.lookup_some hl
    have hq : (⟨ppr.addr, .rel, m, rid⟩ : Ent).box ≠ .queue := by simp
    obtain ⟨t, d, p0, ht, hpe, hd, hnf, hkey⟩ := window_entry_facts h p ppr hpp hlive hconn he rfl hq
    simp only at ht hpe hd hkey
    have s1 : cancelAlarm (w.req rid).alarm w = ({ w with timers := cancelT w t }, none) := by
      rw [ht]; exact cancelTimer_pending w t _ hpe
    rw [seq_ok s1]
    have s2 : fireReqDfd (w.req rid).dfd (.ok (.int (w.req rid).msgId)) { w with timers := cancelT w t }
        = (fireD { w with timers := cancelT w t } d (.fired d (.ok (.int (w.req rid).msgId))), none) := by
      rw [hd]; exact fireDfd_unfired _ d _ hnf
    rw [seq_ok s2]
    have s3 : setEnts (fun es => Ents.remove es ppr.addr .rel (w.req rid).msgId) (fireD { w with timers := cancelT w t } d (.fired d (.ok (.int (w.req rid).msgId))))
        = (fireD (dropArmed w ⟨ppr.addr, .rel, m, rid⟩ t) d (.fired d (.ok (.int (w.req rid).msgId))), none) := by
      rw [hkey]; rfl
    rw [seq_ok s3]
    have hS := settle_inv h he hq ht hd (.fired d (.ok (.int (w.req rid).msgId)))
    exact ⟨rfl, (refillW_inv (x := none) p false ppr _ hS hpp hlive).1⟩

/-- MQTTProtocol.handleSUBACK / handleUNSUBACK -/
theorem handleSubUnsubAck_inv {w : World} (h : WInv w) (p : Nat) (ppr : Proto) (hpp : w.protos.get? p = some ppr)
    (hlive : ppr.lost = false) (hconn : ppr.state = .connected) (isSub : Bool) (m : Nat) (v : Val) :
    (handleSubUnsubAck p isSub m v w).2 = none ∧ WInv (handleSubUnsubAck p isSub m v w).1 := by
  have hpa : w.paddr p = ppr.addr := by simp [World.paddr, getD_of_get? hpp]
  simp only [handleSubUnsubAck, read_apply, hpa]
  generalize hbox : (if isSub = true then Box.sub else Box.unsub) = box
  have hbq : box ≠ .queue := by cases isSub <;> simp at hbox <;> subst hbox <;> simp
  cases hl : Ents.lookup w.ents ppr.addr box m with
  | none => exact ⟨rfl, h⟩
  | some rid =>
    simp only
    have he := Ents.lookup_some hl
    have hq : (⟨ppr.addr, box, m, rid⟩ : Ent).box ≠ .queue := hbq
    obtain ⟨t, d, p0, ht, hpe, hd, hnf, hkey⟩ := window_entry_facts h p ppr hpp hlive hconn he rfl hq
    simp only at ht hpe hd hkey
    have s1 : setEnts (fun es => Ents.remove es ppr.addr box m) w = (w.setEnts fun es => Ents.remove es ppr.addr box m, none) := rfl
    rw [seq_ok s1]
    have hp1 : Pending (w.setEnts fun es => Ents.remove es ppr.addr box m) t (.retry p0 rid) := hpe
    have s2 : cancelAlarm (w.req rid).alarm (w.setEnts fun es => Ents.remove es ppr.addr box m)
        = (dropArmed w ⟨ppr.addr, box, m, rid⟩ t, none) := by
      rw [ht]; exact cancelTimer_pending _ t _ hp1
    rw [seq_ok s2]
    have s3 : fireReqDfd (w.req rid).dfd (.ok v) (dropArmed w ⟨ppr.addr, box, m, rid⟩ t)
        = (fireD (dropArmed w ⟨ppr.addr, box, m, rid⟩ t) d (.fired d (.ok v)), none) := by
      rw [hd]; exact fireDfd_unfired _ d _ hnf
    rw [s3]
    exact ⟨rfl, settle_inv h he hq ht hd _⟩

theorem encodeAck_ok (hdr m : Nat) (hm : m < 65536) : ∃ bs, encodeAck hdr (m : Int) = .ok bs := by
  refine ⟨[hdr] ++ encodeLength 2 ++ enc16 m, ?_⟩
  unfold encodeAck; rw [encode16_ok m hm]; rfl

/-- MQTTProtocol.handlePUBREC: the QoS 2 exchange moves from the publish window to the release window -/
theorem handlePUBREC_inv {w : World} (h : WInv w) (p : Nat) (ppr : Proto) (hpp : w.protos.get? p = some ppr)
    (hlive : ppr.lost = false) (hconn : ppr.state = .connected) (m : Nat) (hm : m < 65536) :
    (handlePUBREC p m w).2 = none ∧ WInv (handlePUBREC p m w).1 := by
  have hpa : w.paddr p = ppr.addr := by simp [World.paddr, getD_of_get? hpp]
  obtain ⟨bs, hbs⟩ := encodeAck_ok 0x62 m hm
  have hbs' : encodePUBREL (m : Int) = .ok bs := hbs
  -- (the encoder call is abstracted before any rewriting: the kernel must never evaluate `m > 65535`)
  unfold handlePUBREC
  generalize hE : encodePUBREL (m : Int) = E
  rw [hbs'] at hE; subst hE
  simp only [read_apply, hpa]
  cases hl : Ents.lookup w.ents ppr.addr .pub m with
  | none => exact ⟨rfl, h⟩
  | some rid =>
    simp only
    by_cases hq2 : (w.req rid).qos = 2
    case neg => simp only [ne_eq, hq2, not_false_eq_true, ↓reduceIte]; exact ⟨rfl, h⟩
    simp only [ne_eq, hq2, not_true_eq_false, ↓reduceIte]
    have he := Ents.lookup_some hl
    have hq : (⟨ppr.addr, .pub, m, rid⟩ : Ent).box ≠ .queue := by simp
    obtain ⟨t, d, p0, ht, hpe, hd, hnf, hkey⟩ := window_entry_facts h p ppr hpp hlive hconn he rfl hq
    simp only at ht hpe hd hkey
    have s1 : cancelAlarm (w.req rid).alarm w = ({ w with timers := cancelT w t }, none) := by
      rw [ht]; exact cancelTimer_pending w t _ hpe
    rw [seq_ok s1]
    have s2 : setEnts (fun es => Ents.remove es ppr.addr .pub m) { w with timers := cancelT w t }
        = (dropArmed w ⟨ppr.addr, .pub, m, rid⟩ t, none) := rfl
    rw [seq_ok s2]
    simp only [read_apply]
    let wd := dropArmed w ⟨ppr.addr, .pub, m, rid⟩ t
    have hwd := dropArmed_inv h he hq ht
    have hmem := dropArmed_mem h he hq t
    have hk := h.keyId _ he hq
    have hdf := h.dfdFresh _ he d hd
    let nr : Req := { kind := .pubrel, msgId := m, qos := (w.req rid).qos, encoded := bs, dfd := (w.req rid).dfd, alarm := none,
                      initial := ppr.initialT, ivValue := ppr.initialT, ivK := 1, bandwith := 1, factor := 1, seq := (w.req rid).seq }
    have hidf : ∀ y ∈ wd.ents, idOf wd y ≠ m := by
      intro y hy hc
      obtain ⟨hy1, hy2⟩ := (hmem y).mp hy
      exact hy2 (h.idUnique y hy1 _ he (by rw [show idOf w y = m from hc]; simp [idOf]) (by rw [show idOf w y = m from hc]; exact hk.2))
    have hA := addWindow_inv hwd ppr.addr .rel m w.nextReq { nr with alarm := some w.nextTimer } p 0 (w.nextReq + 1) w.nextDfd []
      (fun y hy hc => by have := h.ridFresh y ((hmem y).mp hy).1; omega)
      (Nat.lt_succ_self _) (Nat.le_succ _) (Nat.le_refl _)
      (by
        intro t' q hp
        obtain ⟨y, hy, hy1, _⟩ := hwd.noStale t' q _ hp
        have := h.ridFresh y ((hmem y).mp hy).1
        omega)
      (by simp) rfl hk.2 hidf rfl d hd hdf.1 hdf.2
      (by
        intro y hy hc
        obtain ⟨hy1, hy2⟩ := (hmem y).mp hy
        exact hy2 (h.dfdInj y hy1 _ he d hc hd))
      (by
        intro cr c hc hcd
        exact (h.connReq cr c d hc hcd hdf.2).2 _ he hd)
      ppr hpp rfl hlive
    -- the release window has no entry under this identifier yet
    have hlook : Ents.lookup wd.ents ppr.addr .rel m = none := by
      cases hl2 : Ents.lookup wd.ents ppr.addr .rel m with
      | none => rfl
      | some r2 => exact absurd (by simp [idOf]) (hidf _ (Ents.lookup_some hl2))
    have hins : Ents.insert wd.ents ppr.addr .rel m w.nextReq = wd.ents ++ [⟨ppr.addr, .rel, m, w.nextReq⟩] :=
      Ents.insert_of_lookup_none _ hlook
    -- the world the PUBREL is first transmitted in
    let w4 : World := { wd with reqs := wd.reqs.set w.nextReq nr, nextReq := w.nextReq + 1,
                                ents := wd.ents ++ [⟨ppr.addr, .rel, m, w.nextReq⟩] }
    have key : ∀ (X : World × Option Err), X = (retryReleaseW p w.nextReq false w4, none) →
        SameCore (addWindow wd ppr.addr .rel m w.nextReq { nr with alarm := some w.nextTimer } p 0 (w.nextReq + 1) w.nextDfd []) (retryReleaseW p w.nextReq false w4) →
        X.2 = none ∧ WInv X.1 := by
      intro X hX hs; subst hX; exact ⟨rfl, hA.sameCore hs⟩
    apply key
    · have hpi : (wd.proto p).initialT = ppr.initialT := by
        show (w.proto p).initialT = _; rw [getD_of_get? hpp]
      have hpa' : (dropArmed w ⟨ppr.addr, .pub, m, rid⟩ t).paddr p = ppr.addr := hpa
      have hpi' : ((dropArmed w ⟨ppr.addr, .pub, m, rid⟩ t).proto p).initialT = ppr.initialT := hpi
      have hins' : Ents.insert (dropArmed w ⟨ppr.addr, .pub, m, rid⟩ t).ents ppr.addr .rel m (dropArmed w ⟨ppr.addr, .pub, m, rid⟩ t).nextReq
          = (dropArmed w ⟨ppr.addr, .pub, m, rid⟩ t).ents ++ [⟨ppr.addr, .rel, m, w.nextReq⟩] := hins
      simp only [Step.seq, mod_apply, setEnts, retryRelease, World.setEnts]
      rw [hpa', hpi', hins']
      rfl
    have hA1 : ∀ r, (addWindow wd ppr.addr .rel m w.nextReq { nr with alarm := some w.nextTimer } p 0 (w.nextReq + 1) w.nextDfd []).req r
        = if w.nextReq = r then { nr with alarm := some w.nextTimer } else w.req r := fun r => req_set wd w.nextReq _ r _ rfl
    have h4req : ∀ r, w4.req r = if w.nextReq = r then nr else w.req r := fun r => req_set wd w.nextReq _ r _ rfl
    apply sameCore_of
    · simp only [retryReleaseW]; split <;> simp [addWindow, w4]
    · intro r
      rw [hA1]
      simp only [retryReleaseW]
      split <;>
      · simp only [emit_req, req_setReq, callLater_req, h4req]
        by_cases hr : w.nextReq = r
        · subst hr; simp [nr, w4]; rfl
        · simp [hr]
    · intro t'
      simp only [retryReleaseW]
      split <;>
      · simp only [emit_timers, setReq_timers, callLater_timers, setReq_nextTimer, addWindow, addT, Dict.get?_set, w4]
        by_cases ht' : w.nextTimer = t'
        · have : wd.nextTimer = t' := ht'
          simp [ht', this]
        · have : ¬ wd.nextTimer = t' := ht'
          simp only [ht', this, ↓reduceIte]
    all_goals first
      | (simp only [retryReleaseW]; split <;> first | rfl | simp [addWindow, w4, wd, dropArmed, h.idCounter])
      | exact hA.idCounter

end Mqtt
