import MqttVerif.Proofs.Lib
/-
  The master invariant `WInv` of the session model and the environment assumptions `Env`.
-/
namespace Mqtt

/-- timer `t` is pending and its callback is `k` -/
def Pending (w : World) (t : Nat) (k : TKind) : Prop :=
  ∃ tm, w.timers.get? t = some tm ∧ tm.status = .pending ∧ tm.kind = k

/-- the packet identifier an entry occupies (0: none, a held-back QoS 0 message) -/
def idOf (w : World) (e : Ent) : Nat := if e.box = .queue then (w.req e.rid).msgId else e.key

/-- `x`: a protocol that is in the middle of handling CONNACK or connectionLost (the `connected`
    clause is suspended for it until the handler has finished); `none` between operations -/
structure WInvX (x : Option Nat) (w : World) : Prop where
  /- containers -/
  nodup : w.ents.Nodup
  ridFresh : ∀ e ∈ w.ents, e.rid < w.nextReq
  ridUnique : ∀ e1 ∈ w.ents, ∀ e2 ∈ w.ents, e1.rid = e2.rid → e1 = e2
  /-- C17: no two unfinished requests of the factory share a packet identifier -/
  idUnique : ∀ e1 ∈ w.ents, ∀ e2 ∈ w.ents, idOf w e1 = idOf w e2 → idOf w e1 ≠ 0 → e1 = e2
  keyId : ∀ e ∈ w.ents, e.box ≠ .queue → (w.req e.rid).msgId = e.key ∧ e.key ≠ 0
  queueNoAlarm : ∀ e ∈ w.ents, e.box = .queue → (w.req e.rid).alarm = none
  idCounter : w.nextId ≤ 65535
  /- freshness of allocated names -/
  timerFresh : ∀ t tm, w.timers.get? t = some tm → t < w.nextTimer
  firedFresh : ∀ d ∈ w.fired, d < w.nextDfd
  crFresh : ∀ cr c, w.connReqs.get? cr = some c → cr < w.nextCR
  protoFresh : ∀ p pr, w.protos.get? p = some pr → p < w.nextProto
  /- Deferreds of unfinished requests: present, unfired, one owner each (C05/C07/C11) -/
  dfdFresh : ∀ e ∈ w.ents, ∀ d, (w.req e.rid).dfd = some d → d < w.nextDfd ∧ d ∉ w.fired
  dfdSome : ∀ e ∈ w.ents, (w.req e.rid).msgId ≠ 0 → (w.req e.rid).dfd ≠ none
  dfdInj : ∀ e1 ∈ w.ents, ∀ e2 ∈ w.ents, ∀ d, (w.req e1.rid).dfd = some d → (w.req e2.rid).dfd = some d → e1 = e2
  /- retry timers (C13/C08): the alarm of an in-flight request is pending and is its own; no other retry timer exists -/
  alarm : ∀ e ∈ w.ents, ∀ t, (w.req e.rid).alarm = some t →
      e.box ≠ .queue ∧ ∃ p pr, Pending w t (.retry p e.rid) ∧ w.protos.get? p = some pr ∧ pr.addr = e.addr
  noStale : ∀ t p rid, Pending w t (.retry p rid) → ∃ e ∈ w.ents, e.rid = rid ∧ (w.req rid).alarm = some t
  /- connections -/
  connected : ∀ p pr, w.protos.get? p = some pr → some p ≠ x → pr.lost = false → pr.state = .connected →
      ∀ e ∈ w.ents, e.addr = pr.addr → e.box ≠ .queue → (w.req e.rid).alarm ≠ none
  oneLive : ∀ p q pr qr, w.protos.get? p = some pr → w.protos.get? q = some qr → pr.lost = false → qr.lost = false →
      pr.addr = qr.addr → p = q
  lostIdle : ∀ p pr, w.protos.get? p = some pr → pr.lost = true →
      pr.state = .idle ∧ pr.pingTimer = none ∧ pr.pingAlarm = none
  /- keepalive (C15) -/
  pingAlarm : ∀ p pr t, w.protos.get? p = some pr → pr.pingAlarm = some t → Pending w t (.pingAlarm p)
  pingTimer : ∀ p pr l, w.protos.get? p = some pr → pr.pingTimer = some l →
      l.running = true ∧ pr.state = .connected ∧ pr.pingKeepalive ≠ none ∧ ∀ t, l.call = some t → Pending w t (.pingLoop p)
  pingAlarmOwned : ∀ t p, Pending w t (.pingAlarm p) → ∃ pr, w.protos.get? p = some pr ∧ pr.pingAlarm = some t
  pingLoopOwned : ∀ t p, Pending w t (.pingLoop p) → ∃ pr l, w.protos.get? p = some pr ∧ pr.pingTimer = some l ∧ l.call = some t
  /- handshake (C04) -/
  /-- a connecting protocol waits for a handshake whose Deferred has not fired and whose timeout is running
      (unless the timeout has already failed it: `dfd = none`) -/
  connecting : ∀ p pr, w.protos.get? p = some pr → pr.state = .connecting →
      ∃ cr c, pr.connReq = some cr ∧ w.connReqs.get? cr = some c ∧ c.proto = p ∧
        ∀ d, c.dfd = some d → d ∉ w.fired ∧ Pending w c.alarm (.connack cr)
  connReq : ∀ cr c d, w.connReqs.get? cr = some c → c.dfd = some d → d ∉ w.fired →
      d < w.nextDfd ∧ ∀ e ∈ w.ents, (w.req e.rid).dfd ≠ some d
  connReqInj : ∀ cr cr' c c' d, w.connReqs.get? cr = some c → w.connReqs.get? cr' = some c' →
      c.dfd = some d → c'.dfd = some d → cr = cr'
  connReqFresh : ∀ cr c d, w.connReqs.get? cr = some c → c.dfd = some d → d < w.nextDfd
  /-- a running handshake timeout belongs to an unfired handshake whose protocol is still connecting (or lost) -/
  connackOwned : ∀ t cr, Pending w t (.connack cr) →
      ∃ c d, w.connReqs.get? cr = some c ∧ c.dfd = some d ∧ d ∉ w.fired ∧ c.alarm = t ∧
        ∃ pr, w.protos.get? c.proto = some pr ∧ (pr.lost = true ∨ (pr.state = .connecting ∧ pr.connReq = some cr))
  /-- C13/C18: a pending retry timer belongs to a protocol whose loss has not been reported -/
  retryLive : ∀ t p rid, Pending w t (.retry p rid) → ∃ pr, w.protos.get? p = some pr ∧ pr.lost = false
  /-- the Deferred of the handshake a protocol object still refers to has not fired -/
  connReqLive : ∀ p pr cr c, w.protos.get? p = some pr → pr.connReq = some cr → w.connReqs.get? cr = some c →
      c.proto = p ∧ ∀ d, c.dfd = some d → d ∉ w.fired
  /-- a protocol object refers only to handshake records that have been allocated -/
  connReqRef : ∀ p pr cr, w.protos.get? p = some pr → pr.connReq = some cr → cr < w.nextCR
  /-- SUBSCRIBE/UNSUBSCRIBE requests exist only with a running retry timer (they never survive a connection) -/
  subArmed : ∀ e ∈ w.ents, (e.box = .sub ∨ e.box = .unsub) → (w.req e.rid).alarm = none →
      ∃ p pr, x = some p ∧ w.protos.get? p = some pr ∧ pr.addr = e.addr
  /-- the factory was made for one of the three profiles (subscriber, publisher, both) -/
  profileOk : w.profile = 1 ∨ w.profile = 2 ∨ w.profile = 3
  /-- receive buffers hold bytes -/
  bufOk : ∀ p pr, w.protos.get? p = some pr → Bytes.WF pr.buffer

/-- the invariant that holds between operations -/
abbrev WInv (w : World) : Prop := WInvX none w

/-- some packet identifier is free (fewer than 65535 requests are unfinished) -/
def FreeId (w : World) : Prop := ∃ j, 1 ≤ j ∧ j ≤ 65535 ∧ idInUse w j = false

def Exists (w : World) (p : Nat) : Prop := ∃ pr, w.protos.get? p = some pr
def Live (w : World) (p : Nat) : Prop := ∃ pr, w.protos.get? p = some pr ∧ pr.lost = false

/-- the environment assumptions under which every theorem about histories is stated -/
def Env (w : World) : Op → Prop
  | .build a => ∀ p pr, w.protos.get? p = some pr → pr.addr = a → pr.lost = true     -- one live protocol per address
  | .recv p d => Live w p ∧ ∀ b ∈ d, b < 256          -- bytes; nothing is received after the loss is reported
  | .lost p _ => Live w p                              -- connectionLost at most once per protocol
  | .connect p _ => Live w p                           -- no connect() on a protocol whose loss has been reported
  | .fire _ => True
  | .setid _ => False                                  -- harness-only operation (moves the identifier counter)
  | .jit v => 0 ≤ v ∧ v < 1
  | .sethandlers p _ => Exists w p
  | .disconnect p => Exists w p
  | .publish p _ _ _ _ => Exists w p ∧ FreeId w
  | .subscribe p _ _ => Exists w p ∧ FreeId w
  | .unsubscribe p _ => Exists w p ∧ FreeId w
  | .setwin p _ => Exists w p
  | .settimeout p _ => Exists w p
  | .setbw p _ _ => Exists w p

theorem WInv.init (profile : Nat) (hp : profile = 1 ∨ profile = 2 ∨ profile = 3) : WInv (World.init profile) := by
  constructor <;> first | exact hp | simp [World.init, Pending, Dict.get?]

theorem WInvX.weaken {x : Option Nat} {w : World} (h : WInv w) : WInvX x w :=
  { h with connected := fun p pr hp _ => h.connected p pr hp (by simp),
           subArmed := fun e he hb ha => by obtain ⟨p, pr, hx, _⟩ := h.subArmed e he hb ha; cases hx }

/-- the suspended clause can be reinstated once it holds again for the protocol concerned -/
theorem WInvX.close {p : Nat} {w : World} (h : WInvX (some p) w)
    (hp : ∀ pr, w.protos.get? p = some pr → pr.lost = false → pr.state = .connected →
      ∀ e ∈ w.ents, e.addr = pr.addr → e.box ≠ .queue → (w.req e.rid).alarm ≠ none)
    (hsu : ∀ pr, w.protos.get? p = some pr → ∀ e ∈ w.ents, (e.box = .sub ∨ e.box = .unsub) → e.addr = pr.addr →
      (w.req e.rid).alarm ≠ none) : WInv w := by
  have hc : ∀ q qr, w.protos.get? q = some qr → some q ≠ (none : Option Nat) → qr.lost = false → qr.state = .connected →
      ∀ e ∈ w.ents, e.addr = qr.addr → e.box ≠ .queue → (w.req e.rid).alarm ≠ none := by
    intro q qr hq _ hl hs
    by_cases hqp : q = p
    · subst hqp; exact hp qr hq hl hs
    · exact h.connected q qr hq (by simp [hqp]) hl hs
  have hsub : ∀ e ∈ w.ents, (e.box = .sub ∨ e.box = .unsub) → (w.req e.rid).alarm = none →
      ∃ p pr, (none : Option Nat) = some p ∧ w.protos.get? p = some pr ∧ pr.addr = e.addr := by
    intro e he hb ha
    obtain ⟨q, qr, hx, hq, hqa⟩ := h.subArmed e he hb ha
    injection hx with hx; subst hx
    exact absurd ha (hsu qr hq e he hb hqa.symm)
  exact { h with connected := hc, subArmed := hsub }

end Mqtt
