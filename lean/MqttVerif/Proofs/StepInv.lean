import MqttVerif.Proofs.Api
/-
  The main theorem of the session layer: under the environment assumptions `Env`, every operation
  preserves the invariant `WInv`, and the entry points driven by the reactor (dataReceived,
  connectionLost, timer callbacks) never let an exception escape.  By induction the same holds in
  every state reachable from a fresh factory.
-/
namespace Mqtt

theorem log_inv {w : World} (h : WInv w) (l : List Obs) : WInv { w with log := l } :=
  h.sameCore (sameCore_fields w _ rfl rfl rfl rfl rfl rfl rfl h.idCounter rfl rfl rfl rfl rfl rfl)

/-- what `step` makes of a handler's result -/
theorem step_of_handler {w : World} {op : Op} (hw : WInv (op.handler w).1) : WInv (step w op) := by
  simp only [step]
  rcases hr : op.handler w with ⟨w', _ | e⟩
  · rw [hr] at hw; exact hw
  · rw [hr] at hw; exact log_inv hw _

/-- C16 (first half): under the environment assumptions no exception escapes from the data-receiving entry
    point, from connectionLost or from a timer -/
theorem no_escape {w : World} (h : WInv w) (op : Op) (henv : Env w op) (hr : op.isReactor = true) : (op.handler w).2 = none := by
  cases op with
  | recv p d =>
    obtain ⟨⟨ppr, hpp, hnl⟩, hd⟩ := henv
    exact (dataReceived_inv h p ppr hpp hnl d hd).1
  | lost p r =>
    obtain ⟨ppr, hpp, hnl⟩ := henv
    exact (connectionLost_inv h p ppr hpp hnl r).1
  | fire t => exact (fireTimer_inv h t).1
  | _ => cases hr

/-- every operation preserves the invariant -/
theorem step_inv {w : World} (h : WInv w) (op : Op) (henv : Env w op) : WInv (step w op) := by
  apply step_of_handler
  cases op with
  | build a => exact (buildProtocol_inv h a henv).2
  | sethandlers p m => exact (apiSetHandlers_inv h p m henv).2
  | connect p a => exact apiConnect_inv h p a henv
  | disconnect p => exact apiDisconnect_inv h p
  | publish p t pl q r => exact (apiPublish_inv h p t pl q r henv.1 henv.2).2
  | subscribe p a q => exact (apiSubscribe_inv h p a q henv.1 henv.2).2
  | unsubscribe p a => exact (apiUnsubscribe_inv h p a henv.1 henv.2).2
  | setwin p n => exact apiSetWindow_inv h p n henv
  | settimeout p n => exact apiSetTimeout_inv h p n henv
  | setbw p b f => exact apiSetBandwith_inv h p b f henv
  | jit v => exact h.sameCore (sameCore_fields w _ rfl rfl rfl rfl rfl rfl rfl h.idCounter rfl rfl rfl rfl rfl rfl)
  | setid v => exact absurd henv id
  | recv p d =>
    obtain ⟨⟨ppr, hpp, hnl⟩, hd⟩ := henv
    exact (dataReceived_inv h p ppr hpp hnl d hd).2
  | lost p r =>
    obtain ⟨ppr, hpp, hnl⟩ := henv
    exact (connectionLost_inv h p ppr hpp hnl r).2
  | fire t => exact (fireTimer_inv h t).2

/-- histories that respect the environment assumptions at every operation -/
def EnvRun : World → List Op → Prop
  | _, [] => True
  | w, op :: rest => Env w op ∧ EnvRun (step w op) rest

/-- the invariant holds after every such history ... -/
theorem run_inv : ∀ (ops : List Op) {w : World}, WInv w → EnvRun w ops → WInv (run w ops) := by
  intro ops
  induction ops with
  | nil => intro w h _; exact h
  | cons op rest ih => intro w h henv; exact ih (step_inv h op henv.1) henv.2

/-- ... in particular from a fresh factory of any of the three profiles -/
theorem reachable_inv (profile : Nat) (hp : profile = 1 ∨ profile = 2 ∨ profile = 3) (ops : List Op)
    (henv : EnvRun (World.init profile) ops) : WInv (run (World.init profile) ops) :=
  run_inv ops (WInv.init profile hp) henv

/-- and no exception escapes from a reactor-driven entry point at any point of such a history -/
theorem reachable_no_escape (profile : Nat) (hp : profile = 1 ∨ profile = 2 ∨ profile = 3) (ops : List Op) (op : Op)
    (henv : EnvRun (World.init profile) (ops ++ [op])) (hr : op.isReactor = true) :
    (op.handler (run (World.init profile) ops)).2 = none := by
  have hsplit : ∀ (l : List Op) (w : World), EnvRun w (l ++ [op]) → EnvRun w l ∧ Env (run w l) op := by
    intro l
    induction l with
    | nil => intro w h; exact ⟨trivial, h.1⟩
    | cons o r ih => intro w h; exact ⟨⟨h.1, (ih _ h.2).1⟩, (ih _ h.2).2⟩
  obtain ⟨h1, h2⟩ := hsplit ops _ henv
  exact no_escape (reachable_inv profile hp ops h1) op h2 hr

end Mqtt
