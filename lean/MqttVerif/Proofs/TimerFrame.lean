import MqttVerif.Proofs.ReqFrame
import MqttVerif.Proofs.StepInv
import MqttVerif.Proofs.OnDisc
/-
  C19, the object layer, timers.  (1) `TS`: a DelayedCall is never re-programmed -- whatever runs, every timer of the table keeps its
  due time and its callback; only its status moves (pending → called / cancelled) and new ones get fresh identifiers.  (2) With the
  invariant before and after the step: a retransmission or keepalive timer of address `A` that is pending stays exactly as it is
  (same due time, same callback, still pending) through any operation run by a protocol of another address.
-/
namespace Mqtt

structure TKeep (w w' : World) : Prop where
  tf : TF w'
  keep : ∀ t tm, w.timers.get? t = some tm → ∃ tm', w'.timers.get? t = some tm' ∧ tm'.due = tm.due ∧ tm'.kind = tm.kind

theorem TKeep.refl {w : World} (h : TF w) : TKeep w w := ⟨h, fun _ tm ht => ⟨tm, ht, rfl, rfl⟩⟩
theorem TKeep.trans {a b c : World} (x : TKeep a b) (y : TKeep b c) : TKeep a c :=
  ⟨y.tf, fun t tm ht => by
    obtain ⟨t1, h1, d1, k1⟩ := x.keep t tm ht
    obtain ⟨t2, h2, d2, k2⟩ := y.keep t t1 h1
    exact ⟨t2, h2, d2.trans d1, k2.trans k1⟩⟩

def TS (s : Step) : Prop := ∀ w, TF w → TKeep w (s w).1

theorem ts_ok : TS Step.ok := fun _ h => TKeep.refl h
theorem ts_raise (e : Err) : TS (Step.raise e) := fun _ h => TKeep.refl h
theorem ts_seq {a b : Step} (ha : TS a) (hb : TS b) : TS (a ;; b) := by
  intro w h
  have h1 := ha w h
  simp only [Step.seq]
  rcases hw : a w with ⟨w1, _ | e⟩
  · rw [hw] at h1
    exact h1.trans (hb w1 h1.tf)
  · rw [hw] at h1; exact h1
theorem ts_read {f : World → Step} (hf : ∀ w, TS (f w)) : TS (Step.read f) := fun w => hf w w
theorem ts_mod {f : World → World} (h1 : ∀ w, (f w).timers = w.timers) (h2 : ∀ w, (f w).nextTimer = w.nextTimer) : TS (Step.mod f) := by
  intro w h
  refine ⟨fun t tm ht => ?_, fun t tm ht => ⟨tm, ?_, rfl, rfl⟩⟩
  · have : w.timers.get? t = some tm := by have := ht; simp only [Step.mod] at this; rw [h1] at this; exact this
    show t < (f w).nextTimer; rw [h2]; exact h t tm this
  · show (f w).timers.get? t = some tm; rw [h1]; exact ht

theorem tkeep_callLater (w : World) (h : TF w) (d : Rat) (k : TKind) : TKeep w (w.callLater d k).1 := by
  have hfresh : w.timers.get? w.nextTimer = none := by
    cases hg : w.timers.get? w.nextTimer with
    | none => rfl
    | some tm => exact absurd (h _ _ hg) (Nat.lt_irrefl _)
  refine ⟨fun t tm ht => ?_, fun t tm ht => ⟨tm, ?_, rfl, rfl⟩⟩
  · simp only [callLater_timers, Dict.get?_set] at ht
    simp only [callLater_nextTimer]
    split at ht
    · rename_i he; omega
    · have := h t tm ht; omega
  · simp only [callLater_timers, Dict.get?_set]
    rw [if_neg (fun he => by rw [← he, hfresh] at ht; cases ht)]
    exact ht
theorem tkeep_status (w : World) (h : TF w) (t : Nat) (tm : Timer) (ht : w.timers.get? t = some tm) (st : TStatus) :
    TKeep w { w with timers := w.timers.set t { tm with status := st } } := by
  refine ⟨fun t' tm' ht' => ?_, fun t' tm' ht' => ?_⟩
  · simp only [Dict.get?_set] at ht'
    split at ht'
    · rename_i he; subst he; exact h t tm ht
    · exact h t' tm' ht'
  · simp only [Dict.get?_set]
    by_cases he : t = t'
    · subst he
      rw [ht] at ht'; injection ht' with ht'; subst ht'
      exact ⟨{ tm with status := st }, by rw [if_pos rfl], rfl, rfl⟩
    · exact ⟨tm', by rw [if_neg he]; exact ht', rfl, rfl⟩
theorem tkeep_same {w w' : World} (h : TF w) (h1 : w'.timers = w.timers) (h2 : w'.nextTimer = w.nextTimer) : TKeep w w' :=
  ⟨fun t tm ht => by rw [h2]; exact h t tm (by rw [← h1]; exact ht), fun t tm ht => ⟨tm, by rw [h1]; exact ht, rfl, rfl⟩⟩

theorem ts_setProto (p : Nat) (f : Proto → Proto) : TS (setProto p f) := ts_mod (fun _ => rfl) (fun _ => rfl)
theorem ts_emit (o : Obs) : TS (emit o) := ts_mod (fun _ => rfl) (fun _ => rfl)
theorem ts_write (p : Nat) (b : Bytes) : TS (write p b) := ts_emit _
theorem ts_abort (p : Nat) : TS (abort p) := ts_emit _
theorem ts_setEnts (f : List Ent → List Ent) : TS (setEnts f) := ts_mod (fun _ => rfl) (fun _ => rfl)
theorem ts_setReq (r : Nat) (f : Req → Req) : TS (setReq r f) := ts_mod (fun _ => rfl) (fun _ => rfl)
theorem ts_callLater (d : Rat) (k : TKind) {c : Nat → Step} (hc : ∀ t, TS (c t)) : TS (callLater d k c) := by
  refine ts_read fun w0 => ts_seq (fun w h => ?_) (hc _)
  exact tkeep_callLater w h d k
theorem ts_newDfd {c : Nat → Step} (hc : ∀ t, TS (c t)) : TS (newDfd c) :=
  ts_read fun _ => ts_seq (ts_mod (fun _ => rfl) (fun _ => rfl)) (hc _)
theorem ts_makeId {c : Nat → Step} (hc : ∀ t, TS (c t)) : TS (makeId c) :=
  ts_read fun _ => ts_seq (ts_mod (fun _ => rfl) (fun _ => rfl)) (hc _)
theorem ts_cancelTimer (t : Nat) : TS (cancelTimer t) := by
  intro w h
  show TKeep w ((match w.timers.get? t with
    | none => Step.raise .attribute
    | some tm =>
      match tm.status with
      | .pending => Step.mod fun w => { w with timers := w.timers.set t { tm with status := .cancelled } }
      | .called => Step.raise .alreadyCalled
      | .cancelled => Step.raise .alreadyCancelled) w).1
  cases ht : w.timers.get? t with
  | none => exact TKeep.refl h
  | some tm =>
    dsimp only
    cases hs : tm.status with
    | pending => exact tkeep_status w h t tm ht .cancelled
    | called => exact TKeep.refl h
    | cancelled => exact TKeep.refl h
theorem ts_cancelAlarm (a : Option Nat) : TS (cancelAlarm a) := by
  cases a with
  | none => exact ts_raise _
  | some t => exact ts_cancelTimer t
theorem ts_fireDfd (d : Nat) (o : Outcome) : TS (fireDfd d o) := by
  refine ts_read fun w => ?_
  split
  · exact ts_raise _
  · exact ts_seq (ts_mod (fun _ => rfl) (fun _ => rfl)) (ts_emit _)
theorem ts_fireReqDfd (d : Option Nat) (o : Outcome) : TS (fireReqDfd d o) := by
  cases d with
  | none => exact ts_raise _
  | some d => exact ts_fireDfd d o
theorem ts_forEach {α : Type} (l : List α) {f : α → Step} (hf : ∀ a, TS (f a)) : TS (forEach l f) := by
  induction l with
  | nil => exact ts_ok
  | cons a r ih => exact ts_seq (hf a) ih

theorem tkeep_of {w w' : World} (h : TF w)
    (hc : (w'.timers = w.timers ∧ w'.nextTimer = w.nextTimer) ∨ (∃ v, w'.timers = w.timers.set w.nextTimer v ∧ w'.nextTimer = w.nextTimer + 1)) :
    TKeep w w' := by
  rcases hc with ⟨h1, h2⟩ | ⟨v, h1, h2⟩
  · exact tkeep_same h h1 h2
  · have hfresh : w.timers.get? w.nextTimer = none := by
      cases hg : w.timers.get? w.nextTimer with
      | none => rfl
      | some tm => exact absurd (h _ _ hg) (Nat.lt_irrefl _)
    refine ⟨fun t tm ht => ?_, fun t tm ht => ⟨tm, ?_, rfl, rfl⟩⟩
    · rw [h1, Dict.get?_set] at ht
      rw [h2]
      split at ht
      · rename_i he; omega
      · have := h t tm ht; omega
    · rw [h1, Dict.get?_set, if_neg (fun he => by rw [← he, hfresh] at ht; cases ht)]
      exact ht

theorem retryPublishW_tkeep (p rid : Nat) (dup : Bool) (w : World) (h : TF w) : TKeep w (retryPublishW p rid dup w) := by
  refine tkeep_of h ?_
  simp only [retryPublishW]
  split
  · exact Or.inr ⟨_, rfl, rfl⟩
  · exact Or.inl ⟨rfl, rfl⟩
theorem retryReleaseW_tkeep (p rid : Nat) (dup : Bool) (w : World) (h : TF w) : TKeep w (retryReleaseW p rid dup w) := by
  refine tkeep_of h ?_
  simp only [retryReleaseW]
  split <;> exact Or.inr ⟨_, rfl, rfl⟩
theorem retrySubUnsubW_tkeep (p rid : Nat) (dup s : Bool) (w : World) (h : TF w) : TKeep w (retrySubUnsubW p rid dup s w) := by
  refine tkeep_of h ?_
  simp only [retrySubUnsubW]
  split <;> exact Or.inr ⟨_, rfl, rfl⟩

theorem ts_retryPublish (p rid : Nat) (dup : Bool) : TS (retryPublish p rid dup) := fun w h => retryPublishW_tkeep p rid dup w h
theorem ts_retryRelease (p rid : Nat) (dup : Bool) : TS (retryRelease p rid dup) := fun w h => retryReleaseW_tkeep p rid dup w h
theorem ts_retrySubUnsub (p rid : Nat) (dup s : Bool) : TS (retrySubUnsub p rid dup s) := fun w h => retrySubUnsubW_tkeep p rid dup s w h

theorem refillW_tkeep (p : Nat) (dup : Bool) (fuel : Nat) : ∀ (w : World), TF w → TKeep w (refillW p dup fuel w) := by
  induction fuel with
  | zero => intro w h; exact TKeep.refl h
  | succ f ih =>
    intro w h
    simp only [refillW]
    split
    · exact TKeep.refl h
    · split
      · rename_i e _ _ _
        generalize hw2 : (if (w.req e.rid).msgId ≠ 0 then
            (w.setEnts fun es => Ents.dropFirst es (w.paddr p) .queue).setEnts fun es => Ents.insert es (w.paddr p) .pub (w.req e.rid).msgId e.rid
          else w.setEnts fun es => Ents.dropFirst es (w.paddr p) .queue) = w2
        have hs : w2.timers = w.timers ∧ w2.nextTimer = w.nextTimer := by rw [← hw2]; split <;> exact ⟨rfl, rfl⟩
        have k1 : TKeep w w2 := tkeep_same h hs.1 hs.2
        have k2 := retryPublishW_tkeep p e.rid dup w2 k1.tf
        exact (k1.trans k2).trans (ih _ k2.tf)
      · exact TKeep.refl h
theorem ts_refill (p : Nat) : TS (refill p) := fun w h => refillW_tkeep p false _ w h

theorem foldRel_tkeep (p : Nat) (l : List Ent) : ∀ (w : World), TF w →
    TKeep w (l.foldl (fun w e => if (w.req e.rid).alarm = none then retryReleaseW p e.rid true w else w) w) := by
  induction l with
  | nil => intro w h; exact TKeep.refl h
  | cons e r ih =>
    intro w h
    simp only [List.foldl]
    split
    · have k := retryReleaseW_tkeep p e.rid true w h
      exact k.trans (ih _ k.tf)
    · exact ih w h
theorem foldPub_tkeep (p : Nat) (l : List Ent) : ∀ (w : World), TF w →
    TKeep w (l.foldl (fun w e => if (w.req e.rid).alarm = none then retryPublishW p e.rid true w else w) w) := by
  induction l with
  | nil => intro w h; exact TKeep.refl h
  | cons e r ih =>
    intro w h
    simp only [List.foldl]
    split
    · have k := retryPublishW_tkeep p e.rid true w h
      exact k.trans (ih _ k.tf)
    · exact ih w h
theorem ts_syncSession (p : Nat) : TS (syncSession p) := fun w h => by
  show TKeep w (syncW p w)
  simp only [syncW]
  have k1 := foldRel_tkeep p (Ents.items w.ents (w.paddr p) .rel) w h
  exact k1.trans (foldPub_tkeep p _ _ k1.tf)


macro "ts_step" : tactic => `(tactic| first
  | with_reducible exact ts_ok | with_reducible exact ts_raise _ | with_reducible exact ts_emit _
  | with_reducible exact ts_write _ _ | with_reducible exact ts_abort _ | with_reducible exact ts_setProto _ _ | with_reducible exact ts_setEnts _
  | with_reducible exact ts_setReq _ _
  | with_reducible exact ts_cancelTimer _ | with_reducible exact ts_cancelAlarm _
  | with_reducible exact ts_fireDfd _ _ | with_reducible exact ts_fireReqDfd _ _
  | with_reducible exact ts_refill _ | with_reducible exact ts_syncSession _
  | with_reducible exact ts_retryPublish _ _ _ | with_reducible exact ts_retryRelease _ _ _
  | with_reducible exact ts_retrySubUnsub _ _ _ _
  | ((with_reducible refine ts_mod (fun w => ?h1) (fun w => ?h2)); (case h1 => rfl); (case h2 => rfl))
  | with_reducible apply ts_seq | ((with_reducible apply ts_read); intro w) | ((with_reducible apply ts_callLater); intro t)
  | ((with_reducible apply ts_newDfd); intro t) | ((with_reducible apply ts_makeId); intro t)
  | ((with_reducible apply ts_forEach); intro e)
  | split
  | dsimp only)
macro "tss" : tactic => `(tactic| repeat ts_step)

theorem ts_deliver (p : Nat) (m : RxMsg) : TS (deliver p m) := by unfold deliver; tss
theorem ts_drainQueue (p : Nat) (r : Err) (fuel : Nat) : TS (drainQueue p r fuel) := by
  induction fuel with
  | zero => exact ts_ok
  | succ f ih =>
    unfold drainQueue
    apply ts_read; intro w
    split
    · exact ts_ok
    · apply ts_seq (ts_setEnts _)
      apply ts_seq
      · split
        · exact ts_fireReqDfd _ _
        · exact ts_ok
      · exact ih
theorem ts_loopStop (p : Nat) : TS (loopStop p) := by unfold loopStop; tss
theorem ts_cancelWindowAlarms (l : List Ent) : TS (cancelWindowAlarms l) := by unfold cancelWindowAlarms; tss
theorem ts_failWindow (p : Nat) (s : Bool) (r : Err) : TS (failWindow p s r) := by unfold failWindow; tss
theorem ts_purgeSession (p : Nat) (r : Err) : TS (purgeSession p r) := by unfold purgeSession purgeWindow; tss
theorem ts_doConnectionLost (p : Nat) (r : Err) : TS (doConnectionLost p r) := by
  unfold doConnectionLost
  apply ts_read; intro w
  refine ts_seq (ts_cancelWindowAlarms _) (ts_seq (ts_cancelWindowAlarms _) (ts_seq (ts_cancelWindowAlarms _) (ts_seq (ts_cancelWindowAlarms _)
    (ts_seq (ts_failWindow _ _ _) (ts_seq (ts_failWindow _ _ _) ?_)))))
  apply ts_read; intro w'
  split
  · exact ts_seq (ts_purgeSession _ _) (ts_read fun _ => ts_drainQueue _ _ _)
  · exact ts_ok
theorem ts_connectionLost (p : Nat) (r : Err) : TS (connectionLost p r) := by
  unfold connectionLost
  apply ts_read; intro w
  apply ts_seq
  · split
    · exact ts_ok
    · exact ts_seq (ts_loopStop p) (ts_setProto _ _)
  apply ts_seq
  · split
    · exact ts_ok
    · exact ts_seq (ts_cancelTimer _) (ts_setProto _ _)
  apply ts_seq (ts_doConnectionLost p r)
  apply ts_seq (ts_setProto _ _)
  tss
theorem ts_doPingRequest (p : Nat) : TS (doPingRequest p) := by unfold doPingRequest; tss
theorem ts_loopRun (p : Nat) : TS (loopRun p) := by
  intro w h
  have h1 : TS (ping p) := by
    unfold ping
    apply ts_read; intro w
    split
    · exact ts_doPingRequest p
    · exact ts_raise _
  have h1w := h1 w h
  unfold loopRun
  rcases hp : ping p w with ⟨w1, _ | e⟩
  · rw [hp] at h1w
    simp only
    have : TS (Step.read fun w =>
      match (w.proto p).pingTimer with
      | some l =>
        if l.running then
          callLater l.interval (.pingLoop p) fun tid =>
            setProto p (fun pr => { pr with pingTimer := (pr.pingTimer.map fun l => { l with call := some tid }) })
        else Step.ok
      | none => Step.ok) := by tss
    exact h1w.trans (this w1 h1w.tf)
  · rw [hp] at h1w
    simp only
    exact h1w.trans (ts_setProto _ _ w1 h1w.tf)
theorem ts_mqttConnectionMade (p : Nat) : TS (mqttConnectionMade p) := by
  unfold mqttConnectionMade
  apply ts_read; intro w
  refine ts_seq ?_ (ts_seq (ts_refill _) ?_)
  · split
    · exact ts_purgeSession _ _
    · exact ts_syncSession _
  · tss
theorem ts_handleCONNACK (p : Nat) (session : Bool) (rc : Nat) : TS (handleCONNACK p session rc) := by
  unfold handleCONNACK
  apply ts_read; intro w
  split
  · exact ts_raise _
  · split
    · exact ts_raise _
    · split
      · exact ts_ok
      · refine ts_seq (ts_cancelTimer _) (ts_seq ?_ (ts_setProto _ _))
        split
        · refine ts_seq (ts_setProto _ _) (ts_seq (ts_mqttConnectionMade p) (ts_seq ?_ (ts_fireDfd _ _)))
          split
          · exact ts_seq (ts_setProto _ _) (ts_loopRun p)
          · exact ts_ok
        · exact ts_seq (ts_setProto _ _) (ts_fireDfd _ _)
theorem ts_handlePINGRESP (p : Nat) : TS (handlePINGRESP p) := by unfold handlePINGRESP; tss
theorem ts_handleSubUnsubAck (p : Nat) (b : Bool) (m : Nat) (v : Val) : TS (handleSubUnsubAck p b m v) := by unfold handleSubUnsubAck; tss
theorem ts_handlePUBLISH (p : Nat) (m : RxMsg) : TS (handlePUBLISH p m) := by
  unfold handlePUBLISH
  split
  · exact ts_deliver _ _
  · split
    · split
      · exact ts_seq (ts_write _ _) (ts_deliver _ _)
      · exact ts_raise _
    · split
      · refine ts_seq (ts_mod (fun _ => rfl) (fun _ => rfl)) ?_
        split
        · exact ts_write _ _
        · exact ts_raise _
      · exact ts_ok
theorem ts_handlePUBREL (p : Nat) (m : Nat) : TS (handlePUBREL p m) := by
  unfold handlePUBREL
  apply ts_read; intro w
  refine ts_seq ?_ ?_
  · split
    · exact ts_ok
    · exact ts_seq (ts_mod (fun _ => rfl) (fun _ => rfl)) (ts_deliver _ _)
  · split
    · exact ts_write _ _
    · exact ts_raise _
theorem ts_handlePUBACK (p : Nat) (m : Nat) : TS (handlePUBACK p m) := by unfold handlePUBACK; tss
theorem ts_handlePUBREC (p : Nat) (m : Nat) : TS (handlePUBREC p m) := by
  unfold handlePUBREC
  generalize encodePUBREL (m : Int) = E
  apply ts_read; intro w
  split
  · exact ts_ok
  · split
    · exact ts_ok
    · apply ts_seq (ts_cancelAlarm _)
      apply ts_seq (ts_setEnts _)
      cases E with
      | error e => exact ts_raise _
      | ok bs =>
        refine ts_read fun w' => ?_
        exact ts_seq (ts_mod (fun _ => rfl) (fun _ => rfl)) (ts_seq (ts_setEnts _) (ts_retryRelease _ _ _))
theorem ts_handlePUBCOMP (p : Nat) (m : Nat) : TS (handlePUBCOMP p m) := by unfold handlePUBCOMP; tss
theorem ts_processPacket (p : Nat) (pkt : Bytes) : TS (processPacket p pkt) := by
  unfold processPacket
  split
  · exact ts_raise _
  · dsimp only
    split
    · exact ts_abort _
    · split
      · exact ts_abort _
      · apply ts_read; intro w
        split
        all_goals (try exact ts_abort _)
        all_goals (split <;> (try split) <;> first
          | exact ts_abort _ | exact ts_ok | exact ts_handleCONNACK _ _ _ | exact ts_handlePINGRESP _
          | exact ts_handleSubUnsubAck _ _ _ _ | exact ts_handlePUBLISH _ _ | exact ts_handlePUBACK _ _
          | exact ts_handlePUBREC _ _ | exact ts_handlePUBREL _ _ | exact ts_handlePUBCOMP _ _)
theorem ts_accumulate (p : Nat) (fuel : Nat) : TS (accumulate p fuel) := by
  induction fuel with
  | zero => exact ts_ok
  | succ f ih =>
    unfold accumulate
    apply ts_read; intro w
    split
    · exact ts_ok
    · exact ts_seq (ts_processPacket _ _) (ts_seq (ts_setProto _ _) ih)
theorem ts_dataReceived (p : Nat) (d : Bytes) : TS (dataReceived p d) := by
  unfold dataReceived
  exact ts_seq (ts_setProto _ _) (ts_read fun _ => ts_accumulate _ _)
theorem ts_runTimer (k : TKind) : TS (runTimer k) := by
  cases k with
  | connack cr => unfold runTimer; tss
  | pingLoop q => exact ts_seq (ts_setProto _ _) (ts_loopRun q)
  | pingAlarm q => exact ts_seq (ts_setProto _ _) (ts_abort _)
  | retry q rid => unfold runTimer; tss
  | onDisc q r => exact ts_emit _
theorem ts_fireTimer (t : Nat) : TS (fireTimer t) := by
  intro w h
  cases ht : w.timers.get? t with
  | none =>
    have e : fireTimer t w = emit .nofire w := by simp only [fireTimer, Step.read, ht]
    rw [e]; exact ts_emit _ w h
  | some tm =>
    have e : fireTimer t w = (if tm.status = TStatus.pending then
        Step.mod (fun w => { w with now := max w.now tm.due, timers := w.timers.set t { tm with status := .called } }) ;; runTimer tm.kind
      else emit .nofire) w := by simp only [fireTimer, Step.read, ht]
    rw [e]
    by_cases hs : tm.status = .pending
    · rw [if_pos hs]
      have k1 : TKeep w { w with now := max w.now tm.due, timers := w.timers.set t { tm with status := .called } } := by
        have := tkeep_status w h t tm ht .called
        exact ⟨this.tf, this.keep⟩
      have : TS (runTimer tm.kind) := ts_runTimer _
      simp only [Step.seq, Step.mod]
      exact k1.trans (this _ k1.tf)
    · rw [if_neg hs]; exact ts_emit _ w h
theorem ts_registerSubUnsub (p : Nat) (s : Bool) (i : Nat) (bs : Bytes) : TS (registerSubUnsub p s i bs) := by unfold registerSubUnsub; tss

/-- **a DelayedCall is never re-programmed**: whatever operation runs, every timer that exists keeps its due time and its callback -/
theorem step_timers_keep (w : World) (h : TF w) (op : Op) : TKeep w (step w op) := by
  have hstep : ∀ (s : Step), TS s → TKeep w (match s w with
      | (w', none) => w'
      | (w', some e) => { w' with log := w'.log ++ [if op.isReactor then Obs.esc e else Obs.raised e] }) := by
    intro s hs
    have := hs w h
    rcases hw : s w with ⟨w', _ | e⟩
    · rw [hw] at this; exact this
    · rw [hw] at this; exact ⟨this.tf, this.keep⟩
  unfold step
  cases op with
  | build a => exact hstep (buildProtocol a) (ts_mod (fun _ => rfl) (fun _ => rfl))
  | sethandlers p m => exact hstep (apiSetHandlers p m) (ts_setProto _ _)
  | connect p a =>
    refine hstep (apiConnect p a) ?_
    unfold apiConnect
    generalize a.toF.encode = E
    apply ts_read; intro w
    split
    · exact ts_emit _
    · split
      · exact ts_emit _
      · cases E with
        | error e =>
          dsimp only
          split
          · exact ts_emit _
          · exact ts_raise _
        | ok pdu => dsimp only; tss
  | disconnect p => refine hstep (apiDisconnect p) ?_; unfold apiDisconnect; tss
  | publish p t pl qs r =>
    refine hstep (apiPublish p t pl qs r) ?_
    intro w0
    rw [apiPublish_eq]
    have hmk : ∀ pr qn m d bs, TS (mkStep p pr qn m d bs) := by intro pr qn m d bs; unfold mkStep; tss
    split
    · exact ts_emit _ w0
    · split
      · exact ts_emit _ w0
      · split
        · cases encodePublishPy t pl 0 r none with
          | error e => exact ts_emit _ w0
          | ok bs => exact ts_seq (hmk _ _ _ _ _) (ts_emit _) w0
        · apply ts_makeId (c := _) ?_ w0
          intro i
          cases encodePublishPy t pl qs.toNat r (some (i : Int)) with
          | error e => exact ts_emit _
          | ok bs => exact ts_newDfd fun d => ts_seq (hmk _ _ _ _ _) (ts_emit _)
  | subscribe p a qs =>
    refine hstep (apiSubscribe p a qs) ?_
    unfold apiSubscribe
    apply ts_read; intro w
    cases a <;> dsimp only <;> (repeat' (first | with_reducible exact ts_emit _ | split)) <;>
      (refine ts_makeId fun i => ?_
       generalize encodeWithId 0x82 _ _ = E
       cases E with
       | error e => exact ts_emit _
       | ok bs => exact ts_registerSubUnsub _ _ _ _)
  | unsubscribe p a =>
    refine hstep (apiUnsubscribe p a) ?_
    unfold apiUnsubscribe
    apply ts_read; intro w
    split
    · exact ts_emit _
    · refine ts_makeId fun _ => ts_read fun w1 => ?_
      cases a <;> dsimp only <;> (repeat' (first | with_reducible exact ts_emit _ | split)) <;>
        (refine ts_makeId fun i => ?_
         generalize encodeWithId 0xA2 _ _ = E
         cases E with
         | error e => exact ts_emit _
         | ok bs => exact ts_registerSubUnsub _ _ _ _)
  | setwin p n => refine hstep (apiSetWindow p n) ?_; unfold apiSetWindow; tss
  | settimeout p n => refine hstep (apiSetTimeout p n) ?_; unfold apiSetTimeout; tss
  | setbw p b f => refine hstep (apiSetBandwith p b f) ?_; unfold apiSetBandwith; tss
  | jit v => exact hstep (Step.mod fun w => { w with jitter := v }) (ts_mod (fun _ => rfl) (fun _ => rfl))
  | setid v => exact hstep (Step.mod fun w => { w with nextId := v }) (ts_mod (fun _ => rfl) (fun _ => rfl))
  | recv p d => exact hstep (dataReceived p d) (ts_dataReceived p d)
  | lost p r => exact hstep (connectionLost p r) (ts_connectionLost p r)
  | fire t => exact hstep (fireTimer t) (ts_fireTimer t)


theorem timer_ext {a b : Timer} (h1 : a.due = b.due) (h2 : a.kind = b.kind) (h3 : a.status = b.status) : a = b := by
  cases a; cases b; simp_all

/-- **retransmission and keepalive timers**: in a reachable state, through any operation run by a protocol of another address, a pending
    retry timer of a request of address `A` and the pending keepalive timers (PINGREQ loop, PINGRESP deadline) of a protocol of address `A`
    stay exactly as they are: same due time, same callback, still pending -/
theorem other_step_timers {w : World} (hw : WInv w) {op : Op} (henv : Env w op) {q A : Nat} (hop : op.proto? w = some q) (hq : w.paddr q ≠ A)
    (t p : Nat) (hp : w.paddr p = A) (k : TKind) (hk : (∃ rid, k = .retry p rid) ∨ k = .pingAlarm p ∨ k = .pingLoop p)
    (hpend : Pending w t k) : (step w op).timers.get? t = w.timers.get? t := by
  have hw' : WInv (step w op) := step_inv hw op henv
  have keep := step_timers_keep w (fun t tm h => hw.timerFresh t tm h) op
  obtain ⟨tm, ht, hst, hkind⟩ := hpend
  obtain ⟨tm', ht', hd, hk'⟩ := keep.keep t tm ht
  have hpq : p ≠ q := fun h => hq (h ▸ hp)
  have hproto : (step w op).protos.get? p = w.protos.get? p := step_protos w op p (by rw [hop]; exact hpq)
  suffices hs : tm'.status = .pending by
    rw [ht', ht, timer_ext hd hk' (hs.trans hst.symm)]
  have fin : ∀ k', Pending (step w op) t k' → tm'.status = .pending := by
    rintro k' ⟨tm2, h2, hs2, _⟩
    rw [ht'] at h2; injection h2 with h2; rw [h2]; exact hs2
  rcases hk with ⟨rid, rfl⟩ | rfl | rfl
  · obtain ⟨e, he, hrid, hal⟩ := hw.noStale t p rid ⟨tm, ht, hst, hkind⟩
    obtain ⟨_, p', pr', hpend', hpp', hpa'⟩ := hw.alarm e he t (by rw [hrid]; exact hal)
    have hkk := pending_kind hpend' ⟨tm, ht, hst, hkind⟩
    injection hkk with hpp2 _
    subst hpp2
    have hea : e.addr = A := by
      rw [← hpa', ← hp]; simp [World.paddr, getD_of_get? hpp']
    have hsame := Mqtt.other_step hop hq
    have he' : e ∈ (step w op).ents := by
      have : e ∈ w.ents.filter (onA A) := List.mem_filter.mpr ⟨he, by simp [onA, hea]⟩
      rw [← hsame.1] at this
      exact (List.mem_filter.mp this).1
    have hreq : (step w op).req e.rid = w.req e.rid := by
      simp only [World.req, Mqtt.other_step_requests hw hop hq e he hea]
    obtain ⟨_, p2, pr2, hpend2, _, _⟩ := hw'.alarm e he' t (by rw [hreq, hrid]; exact hal)
    exact fin _ hpend2
  · obtain ⟨pr, hpr, hpa⟩ := hw.pingAlarmOwned t p ⟨tm, ht, hst, hkind⟩
    exact fin _ (hw'.pingAlarm p pr t (by rw [hproto]; exact hpr) hpa)
  · obtain ⟨pr, l, hpr, hpt, hlc⟩ := hw.pingLoopOwned t p ⟨tm, ht, hst, hkind⟩
    exact fin _ ((hw'.pingTimer p pr l (by rw [hproto]; exact hpr) hpt).2.2.2 t hlc)

end Mqtt
