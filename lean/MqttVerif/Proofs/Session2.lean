import MqttVerif.Proofs.Session
/-
  Invariant preservation, continued: inbound PUBLISH/PUBREL, keepalive, CONNACK with session
  resumption, packet dispatch and the receive loop.
-/
namespace Mqtt

/-! ### changes outside the core -/

/-- a world that agrees with `w` on every field the invariant mentions -/
theorem sameCore_fields (w w' : World) (hents : w'.ents = w.ents) (hreqs : w'.reqs = w.reqs) (htimers : w'.timers = w.timers)
    (hfired : w'.fired = w.fired) (hcr : w'.connReqs = w.connReqs) (hprotos : w'.protos = w.protos) (hid : w'.nextId = w.nextId)
    (hidle : w.nextId ≤ 65535) (h1 : w'.nextReq = w.nextReq) (h2 : w'.nextTimer = w.nextTimer)
    (h3 : w'.nextDfd = w.nextDfd) (h4 : w'.nextCR = w.nextCR) (h5 : w'.nextProto = w.nextProto) (h6 : w'.profile = w.profile) : SameCore w w' :=
  sameCore_of w w' hents (fun r => by simp [World.req, hreqs]) (fun t => by rw [htimers]) hfired hcr hprotos hid hidle
    h1 h2 h3 h4 h5 h6

theorem emit_inv {x : Option Nat} {w : World} (h : WInvX x w) (o : Obs) : WInvX x (w.emit o) :=
  h.sameCore (sameCore_fields w _ rfl rfl rfl rfl rfl rfl rfl h.idCounter rfl rfl rfl rfl rfl rfl)

theorem rx_inv {x : Option Nat} {w : World} (h : WInvX x w) (rx' : List RxEnt) : WInvX x { w with rx := rx' } :=
  h.sameCore (sameCore_fields w _ rfl rfl rfl rfl rfl rfl rfl h.idCounter rfl rfl rfl rfl rfl rfl)

/-- an update of a protocol object that leaves alone the fields the invariant mentions -/
theorem setProto_sameCore {w : World} (p : Nat) (f : Proto → Proto) (ppr : Proto) (hpp : w.protos.get? p = some ppr)
    (hid : w.nextId ≤ 65535)
    (hf : (f ppr).addr = ppr.addr ∧ (f ppr).state = ppr.state ∧ (f ppr).lost = ppr.lost ∧ (f ppr).pingTimer = ppr.pingTimer ∧
      (f ppr).pingAlarm = ppr.pingAlarm ∧ (f ppr).pingKeepalive = ppr.pingKeepalive ∧ (f ppr).connReq = ppr.connReq ∧
      (Bytes.WF ppr.buffer → Bytes.WF (f ppr).buffer)) :
    SameCore w { w with protos := w.protos.set p (f (w.proto p)) } := by
  have hsame := sameCore_fields w w rfl rfl rfl rfl rfl rfl rfl hid rfl rfl rfl rfl rfl rfl
  refine { hsame with protos := ?_ }
  intro q
  rw [getD_of_get? hpp]
  simp only [Dict.get?_set]
  by_cases hq : p = q
  · subst hq
    simp only [↓reduceIte]
    exact ⟨fun pr' h' => by injection h' with h'; subst h'; exact ⟨ppr, hpp, hf⟩, fun pr _ => ⟨_, rfl⟩⟩
  · simp only [hq, ↓reduceIte]
    exact ⟨fun pr' h' => ⟨pr', h', rfl, rfl, rfl, rfl, rfl, rfl, rfl, id⟩, fun pr h' => ⟨pr, h'⟩⟩

theorem setProto_apply (p : Nat) (f : Proto → Proto) (w : World) :
    setProto p f w = ({ w with protos := w.protos.set p (f (w.proto p)) }, none) := rfl

theorem emit_apply (o : Obs) (w : World) : emit o w = (w.emit o, none) := rfl
theorem write_apply (p : Nat) (bs : Bytes) (w : World) : write p bs w = (w.emit (.write p bs), none) := rfl

/-! ### inbound PUBLISH and PUBREL: nothing the invariant mentions changes -/

theorem deliver_inv {x : Option Nat} {w : World} (h : WInvX x w) (p : Nat) (m : RxMsg) :
    (deliver p m w).2 = none ∧ WInvX x (deliver p m w).1 ∧ (deliver p m w).1.protos = w.protos := by
  simp only [deliver, read_apply]
  split
  · exact ⟨rfl, emit_inv h _, rfl⟩
  · exact ⟨rfl, h, rfl⟩

/-- MQTTProtocol.handlePUBLISH (the identifier was read from two bytes) -/
theorem handlePUBLISH_inv {x : Option Nat} {w : World} (h : WInvX x w) (p : Nat) (m : RxMsg) (hm : m.msgId.getD 0 < 65536) :
    (handlePUBLISH p m w).2 = none ∧ WInvX x (handlePUBLISH p m w).1 ∧ (handlePUBLISH p m w).1.protos = w.protos := by
  obtain ⟨b1, hb1⟩ := encodeAck_ok 0x40 _ hm
  obtain ⟨b2, hb2⟩ := encodeAck_ok 0x50 _ hm
  have hb1' : encodePUBACK ((m.msgId.getD 0 : Nat) : Int) = .ok b1 := hb1
  have hb2' : encodePUBREC ((m.msgId.getD 0 : Nat) : Int) = .ok b2 := hb2
  unfold handlePUBLISH
  generalize hE1 : encodePUBACK ((m.msgId.getD 0 : Nat) : Int) = E1
  generalize hE2 : encodePUBREC ((m.msgId.getD 0 : Nat) : Int) = E2
  rw [hb1'] at hE1; rw [hb2'] at hE2; subst hE1; subst hE2
  split
  · exact deliver_inv h p m
  · split
    · simp only
      rw [seq_ok (write_apply p b1 w)]
      obtain ⟨a, b, c⟩ := deliver_inv (emit_inv h (.write p b1)) p m
      exact ⟨a, b, c⟩
    · split
      · simp only
        have s1 : Step.mod (fun w => { w with rx := Rx.insert w.rx (w.paddr p) (m.msgId.getD 0) m }) w
            = ({ w with rx := Rx.insert w.rx (w.paddr p) (m.msgId.getD 0) m }, none) := rfl
        rw [seq_ok s1]
        exact ⟨rfl, emit_inv (rx_inv h _) _, rfl⟩
      · exact ⟨rfl, h, rfl⟩

/-- MQTTProtocol.handlePUBREL -/
theorem handlePUBREL_inv {x : Option Nat} {w : World} (h : WInvX x w) (p : Nat) (m : Nat) (hm : m < 65536) :
    (handlePUBREL p m w).2 = none ∧ WInvX x (handlePUBREL p m w).1 ∧ (handlePUBREL p m w).1.protos = w.protos := by
  obtain ⟨b1, hb1⟩ := encodeAck_ok 0x70 m hm
  have hb1' : encodePUBCOMP (m : Int) = .ok b1 := hb1
  unfold handlePUBREL
  generalize hE1 : encodePUBCOMP (m : Int) = E1
  rw [hb1'] at hE1; subst hE1
  simp only [read_apply]
  cases hl : Rx.lookup w.rx (w.paddr p) m with
  | none =>
    simp only
    have s1 : Step.ok w = (w, none) := rfl
    rw [seq_ok s1]
    exact ⟨rfl, emit_inv h _, rfl⟩
  | some msg =>
    simp only
    have s1 : Step.mod (fun w' => { w' with rx := Rx.remove w'.rx (w'.paddr p) m }) w = ({ w with rx := Rx.remove w.rx (w.paddr p) m }, none) := rfl
    obtain ⟨a, b, c⟩ := deliver_inv (rx_inv h (Rx.remove w.rx (w.paddr p) m)) p msg
    have s2 : (Step.mod (fun w' => { w' with rx := Rx.remove w'.rx (w'.paddr p) m }) ;; deliver p msg) w
        = ((deliver p msg { w with rx := Rx.remove w.rx (w.paddr p) m }).1, none) := by
      rw [seq_ok s1]; exact Prod.ext rfl a
    rw [seq_ok s2]
    exact ⟨rfl, emit_inv b _, c⟩

end Mqtt
