import MqttVerif.Proofs.ProtoFrame
/-
  C10: every protocol object has a window of at least one message (the constructor's 1, `setWindowSize` accepts 1..16 only) -- the premise
  under which a refill that stops with messages still held back has filled the window.  A structural pass; no invariant, no `Env`.
-/
namespace Mqtt

/-- every protocol object has a window of at least one message -/
def WPos (w : World) : Prop := ∀ p, 1 ≤ (w.proto p).window
/-- `s` keeps that -/
def WP (s : Step) : Prop := ∀ w, WPos w → WPos (s w).1

section wp
variable {p : Nat}

theorem wp_ok : WP Step.ok := fun _ h => h
theorem wp_raise (e : Err) : WP (Step.raise e) := fun _ h => h
theorem wp_seq {a b : Step} (ha : WP a) (hb : WP b) : WP (a ;; b) := by
  intro w h
  have h1 := ha w h
  simp only [Step.seq]
  rcases hw : a w with ⟨w1, _ | e⟩
  · rw [hw] at h1; exact hb w1 h1
  · rw [hw] at h1; exact h1
theorem wp_read {f : World → Step} (hf : ∀ w, WP (f w)) : WP (Step.read f) := fun w => hf w w
theorem wp_mod {f : World → World} (hf : ∀ w, (f w).protos = w.protos) : WP (Step.mod f) := fun w h p => by
  show 1 ≤ ((f w).proto p).window
  simp only [World.proto, hf]; exact h p
theorem wp_setProto (q : Nat) (g : Proto → Proto) (hg : ∀ pr, 1 ≤ pr.window → 1 ≤ (g pr).window) : WP (setProto q g) := by
  intro w h p
  show 1 ≤ (({ w with protos := w.protos.set q (g (w.proto q)) } : World).proto p).window
  simp only [World.proto, Dict.get?_set]
  split
  · exact hg _ (h q)
  · exact h p
theorem wp_emit (o : Obs) : WP (emit o) := wp_mod fun _ => rfl
theorem wp_write (q : Nat) (b : Bytes) : WP (write q b) := wp_mod fun _ => rfl
theorem wp_abort (q : Nat) : WP (abort q) := wp_mod fun _ => rfl
theorem wp_setEnts (f : List Ent → List Ent) : WP (setEnts f) := wp_mod fun _ => rfl
theorem wp_setReq (r : Nat) (f : Req → Req) : WP (setReq r f) := wp_mod fun _ => rfl
theorem wp_callLater (d : Rat) (k : TKind) {c : Nat → Step} (hc : ∀ t, WP (c t)) : WP (callLater d k c) :=
  wp_read fun _ => wp_seq (wp_mod fun _ => rfl) (hc _)
theorem wp_newDfd {c : Nat → Step} (hc : ∀ t, WP (c t)) : WP (newDfd c) :=
  wp_read fun _ => wp_seq (wp_mod fun _ => rfl) (hc _)
theorem wp_makeId {c : Nat → Step} (hc : ∀ t, WP (c t)) : WP (makeId c) :=
  wp_read fun _ => wp_seq (wp_mod fun _ => rfl) (hc _)
theorem wp_cancelTimer (t : Nat) : WP (cancelTimer t) := by
  apply wp_read; intro w
  split
  · exact wp_raise _
  · split
    · exact wp_mod fun _ => rfl
    · exact wp_raise _
    · exact wp_raise _
theorem wp_cancelAlarm (a : Option Nat) : WP (cancelAlarm a) := by
  cases a with
  | none => exact wp_raise _
  | some t => exact wp_cancelTimer t
theorem wp_fireDfd (d : Nat) (o : Outcome) : WP (fireDfd d o) := by
  apply wp_read; intro w
  split
  · exact wp_raise _
  · exact wp_seq (wp_mod fun _ => rfl) (wp_emit _)
theorem wp_fireReqDfd (d : Option Nat) (o : Outcome) : WP (fireReqDfd d o) := by
  cases d with
  | none => exact wp_raise _
  | some d => exact wp_fireDfd d o
theorem wp_forEach {α : Type} (l : List α) {f : α → Step} (hf : ∀ a, WP (f a)) : WP (forEach l f) := by
  induction l with
  | nil => exact wp_ok
  | cons a r ih => exact wp_seq (hf a) ih
theorem wp_retryPublish (q rid : Nat) (dup : Bool) : WP (retryPublish q rid dup) := wp_mod fun w => retryPublishW_protos q rid dup w
theorem wp_retryRelease (q rid : Nat) (dup : Bool) : WP (retryRelease q rid dup) := wp_mod fun w => retryReleaseW_protos q rid dup w
theorem wp_retrySubUnsub (q rid : Nat) (dup s : Bool) : WP (retrySubUnsub q rid dup s) := wp_mod fun w => retrySubUnsubW_protos q rid dup s w
theorem wp_refill (q : Nat) : WP (refill q) := wp_mod fun w => refillW_protos q false _ w
theorem wp_syncSession (q : Nat) : WP (syncSession q) := wp_mod fun w => by simp only [syncW]; rw [foldPub_protos, foldRel_protos]

macro "wp_step" : tactic => `(tactic| first
  | with_reducible exact wp_ok | with_reducible exact wp_raise _ | with_reducible exact wp_emit _
  | with_reducible exact wp_write _ _ | with_reducible exact wp_abort _ | with_reducible exact wp_setProto _ _ (by intro pr h; exact h) | with_reducible exact wp_setEnts _
  | with_reducible exact wp_setReq _ _
  | with_reducible exact wp_cancelTimer _ | with_reducible exact wp_cancelAlarm _
  | with_reducible exact wp_fireDfd _ _ | with_reducible exact wp_fireReqDfd _ _
  | with_reducible exact wp_refill _ | with_reducible exact wp_syncSession _
  | with_reducible exact wp_retryPublish _ _ _ | with_reducible exact wp_retryRelease _ _ _
  | with_reducible exact wp_retrySubUnsub _ _ _ _
  | ((with_reducible apply wp_mod); (intro w; rfl))
  | with_reducible apply wp_seq | ((with_reducible apply wp_read); intro w) | ((with_reducible apply wp_callLater); intro t)
  | ((with_reducible apply wp_newDfd); intro t) | ((with_reducible apply wp_makeId); intro t)
  | ((with_reducible apply wp_forEach); intro e)
  | split
  | dsimp only)
macro "wps" : tactic => `(tactic| repeat wp_step)

theorem wp_deliver (m : RxMsg) : WP (deliver p m) := by unfold deliver; wps
theorem wp_drainQueue (r : Err) (fuel : Nat) : WP (drainQueue p r fuel) := by
  induction fuel with
  | zero => exact wp_ok
  | succ f ih =>
    unfold drainQueue
    apply wp_read; intro w
    split
    · exact wp_ok
    · apply wp_seq (wp_setEnts _)
      apply wp_seq
      · split
        · exact wp_fireReqDfd _ _
        · exact wp_ok
      · exact ih
theorem wp_loopStop : WP (loopStop p) := by unfold loopStop; wps
theorem wp_cancelWindowAlarms (l : List Ent) : WP (cancelWindowAlarms l) := by unfold cancelWindowAlarms; wps
theorem wp_failWindow (s : Bool) (r : Err) : WP (failWindow p s r) := by unfold failWindow; wps
theorem wp_purgeSession (r : Err) : WP (purgeSession p r) := by unfold purgeSession purgeWindow; wps
theorem wp_doConnectionLost (r : Err) : WP (doConnectionLost p r) := by
  unfold doConnectionLost
  apply wp_read; intro w
  refine wp_seq (wp_cancelWindowAlarms _) (wp_seq (wp_cancelWindowAlarms _) (wp_seq (wp_cancelWindowAlarms _) (wp_seq (wp_cancelWindowAlarms _)
    (wp_seq (wp_failWindow _ _) (wp_seq (wp_failWindow _ _) ?_)))))
  apply wp_read; intro w'
  split
  · exact wp_seq (wp_purgeSession _) (wp_read fun _ => wp_drainQueue _ _)
  · exact wp_ok
theorem wp_connectionLost (r : Err) : WP (connectionLost p r) := by
  unfold connectionLost
  apply wp_read; intro w
  apply wp_seq
  · split
    · exact wp_ok
    · exact wp_seq wp_loopStop (wp_setProto _ _ (by intro pr h; exact h))
  apply wp_seq
  · split
    · exact wp_ok
    · exact wp_seq (wp_cancelTimer _) (wp_setProto _ _ (by intro pr h; exact h))
  apply wp_seq (wp_doConnectionLost r)
  apply wp_seq (wp_setProto _ _ (by intro pr h; exact h))
  wps

theorem wp_doPingRequest : WP (doPingRequest p) := by unfold doPingRequest; wps
theorem wp_loopRun : WP (loopRun p) := by
  intro w h
  have h1 : WP (ping p) := by
    unfold ping
    apply wp_read; intro w
    split
    · exact wp_doPingRequest
    · exact wp_raise _
  have a := h1 w h
  unfold loopRun
  rcases hp : ping p w with ⟨w1, _ | e⟩
  · rw [hp] at a
    simp only
    have : WP (Step.read fun w =>
      match (w.proto p).pingTimer with
      | some l =>
        if l.running then
          callLater l.interval (.pingLoop p) fun tid =>
            setProto p (fun pr => { pr with pingTimer := (pr.pingTimer.map fun l => { l with call := some tid }) })
        else Step.ok
      | none => Step.ok) := by wps
    exact this w1 a
  · rw [hp] at a
    simp only
    exact wp_setProto p _ (by intro pr h; exact h) w1 a
theorem wp_mqttConnectionMade : WP (mqttConnectionMade p) := by
  unfold mqttConnectionMade
  apply wp_read; intro w
  refine wp_seq ?_ (wp_seq (wp_refill _) ?_)
  · split
    · exact wp_purgeSession _
    · exact wp_syncSession _
  · wps
theorem wp_handleCONNACK (session : Bool) (rc : Nat) : WP (handleCONNACK p session rc) := by
  unfold handleCONNACK
  apply wp_read; intro w
  split
  · exact wp_raise _
  · split
    · exact wp_raise _
    · split
      · exact wp_ok
      · refine wp_seq (wp_cancelTimer _) (wp_seq ?_ (wp_setProto _ _ (by intro pr h; exact h)))
        split
        · refine wp_seq (wp_setProto _ _ (by intro pr h; exact h)) (wp_seq wp_mqttConnectionMade (wp_seq ?_ (wp_fireDfd _ _)))
          split
          · exact wp_seq (wp_setProto _ _ (by intro pr h; exact h)) wp_loopRun
          · exact wp_ok
        · exact wp_seq (wp_setProto _ _ (by intro pr h; exact h)) (wp_fireDfd _ _)
theorem wp_handlePINGRESP : WP (handlePINGRESP p) := by unfold handlePINGRESP; wps
theorem wp_handleSubUnsubAck (b : Bool) (m : Nat) (v : Val) : WP (handleSubUnsubAck p b m v) := by unfold handleSubUnsubAck; wps
theorem wp_handlePUBLISH (m : RxMsg) : WP (handlePUBLISH p m) := by
  unfold handlePUBLISH
  split
  · exact wp_deliver _
  · split
    · split
      · exact wp_seq (wp_write _ _) (wp_deliver _)
      · exact wp_raise _
    · split
      · refine wp_seq (wp_mod fun _ => rfl) ?_
        split
        · exact wp_write _ _
        · exact wp_raise _
      · exact wp_ok
theorem wp_handlePUBREL (m : Nat) : WP (handlePUBREL p m) := by
  unfold handlePUBREL
  apply wp_read; intro w
  refine wp_seq ?_ ?_
  · split
    · exact wp_ok
    · exact wp_seq (wp_mod fun _ => rfl) (wp_deliver _)
  · split
    · exact wp_write _ _
    · exact wp_raise _
theorem wp_handlePUBACK (m : Nat) : WP (handlePUBACK p m) := by unfold handlePUBACK; wps
theorem wp_handlePUBREC (m : Nat) : WP (handlePUBREC p m) := by
  unfold handlePUBREC
  generalize encodePUBREL (m : Int) = E
  apply wp_read; intro w
  split
  · exact wp_ok
  · split
    · exact wp_ok
    · apply wp_seq (wp_cancelAlarm _)
      apply wp_seq (wp_setEnts _)
      cases E with
      | error e => exact wp_raise _
      | ok bs =>
        refine wp_read fun w' => ?_
        exact wp_seq (wp_mod fun _ => rfl) (wp_seq (wp_setEnts _) (wp_retryRelease _ _ _))
theorem wp_handlePUBCOMP (m : Nat) : WP (handlePUBCOMP p m) := by unfold handlePUBCOMP; wps
theorem wp_processPacket (pkt : Bytes) : WP (processPacket p pkt) := by
  unfold processPacket
  split
  · exact wp_raise _
  · dsimp only
    split
    · exact wp_abort _
    · split
      · exact wp_abort _
      · apply wp_read; intro w
        split
        all_goals (try exact wp_abort _)
        all_goals (split <;> (try split) <;> first
          | with_reducible exact wp_abort _ | with_reducible exact wp_ok | with_reducible exact wp_handleCONNACK _ _ | with_reducible exact wp_handlePINGRESP
          | with_reducible exact wp_handleSubUnsubAck _ _ _ | with_reducible exact wp_handlePUBLISH _ | with_reducible exact wp_handlePUBACK _
          | with_reducible exact wp_handlePUBREC _ | with_reducible exact wp_handlePUBREL _ | with_reducible exact wp_handlePUBCOMP _)
theorem wp_accumulate (fuel : Nat) : WP (accumulate p fuel) := by
  induction fuel with
  | zero => exact wp_ok
  | succ f ih =>
    unfold accumulate
    apply wp_read; intro w
    split
    · exact wp_ok
    · exact wp_seq (wp_processPacket _) (wp_seq (wp_setProto _ _ (by intro pr h; exact h)) ih)
theorem wp_dataReceived (d : Bytes) : WP (dataReceived p d) := by
  unfold dataReceived
  exact wp_seq (wp_setProto _ _ (by intro pr h; exact h)) (wp_read fun _ => wp_accumulate _)
theorem wp_runTimer (k : TKind) (hk : k.on p) : WP (runTimer k) := by
  cases k with
  | connack cr => unfold runTimer; wps
  | pingLoop q => cases hk; exact wp_seq (wp_setProto _ _ (by intro pr h; exact h)) wp_loopRun
  | pingAlarm q => cases hk; exact wp_seq (wp_setProto _ _ (by intro pr h; exact h)) (wp_abort _)
  | retry q rid => unfold runTimer; wps
  | onDisc q r => exact wp_emit _
theorem wp_registerSubUnsub (s : Bool) (i : Nat) (bs : Bytes) : WP (registerSubUnsub p s i bs) := by unfold registerSubUnsub; wps


end wp

theorem wp_runTimer' (k : TKind) : WP (runTimer k) := by
  cases k with
  | connack cr => exact wp_runTimer (p := 0) _ trivial
  | pingLoop q => exact wp_runTimer (p := q) _ rfl
  | pingAlarm q => exact wp_runTimer (p := q) _ rfl
  | retry q rid => exact wp_runTimer (p := q) _ rfl
  | onDisc q r => exact wp_runTimer (p := q) _ rfl

theorem maxWindow_pos : 1 ≤ Config.maxWindow := by decide

theorem wp_handler (op : Op) : WP op.handler := by
  cases op with
  | build a =>
    intro w h p
    show 1 ≤ (({ w with protos := w.protos.set w.nextProto { addr := a }, nextProto := w.nextProto + 1 } : World).proto p).window
    simp only [World.proto, Dict.get?_set]
    split
    · exact Nat.le_refl 1
    · exact h p
  | jit v => exact wp_mod fun _ => rfl
  | setid v => exact wp_mod fun _ => rfl
  | sethandlers p m => exact wp_setProto _ _ (by intro pr h; exact h)
  | connect p a =>
    show WP (apiConnect p a)
    unfold apiConnect
    generalize a.toF.encode = E
    apply wp_read; intro w
    split
    · exact wp_emit _
    · split
      · exact wp_emit _
      · cases E with
        | error e =>
          dsimp only
          split
          · exact wp_emit _
          · exact wp_raise _
        | ok pdu => dsimp only; wps
  | disconnect p => show WP (apiDisconnect p); unfold apiDisconnect; wps
  | publish p t pl qs r =>
    show WP (apiPublish p t pl qs r)
    intro w0
    rw [apiPublish_eq]
    have hmk : ∀ pr qn m d bs, WP (mkStep p pr qn m d bs) := by intro pr qn m d bs; unfold mkStep; wps
    split
    · exact wp_emit _ w0
    · split
      · exact wp_emit _ w0
      · split
        · cases encodePublishPy t pl 0 r none with
          | error e => exact wp_emit _ w0
          | ok bs => exact wp_seq (hmk _ _ _ _ _) (wp_emit _) w0
        · apply wp_makeId (c := _) ?_ w0
          intro i
          cases encodePublishPy t pl qs.toNat r (some (i : Int)) with
          | error e => exact wp_emit _
          | ok bs => exact wp_newDfd fun d => wp_seq (hmk _ _ _ _ _) (wp_emit _)
  | subscribe p a qs =>
    show WP (apiSubscribe p a qs)
    unfold apiSubscribe
    apply wp_read; intro w
    cases a <;> dsimp only <;> (repeat' (first | with_reducible exact wp_emit _ | split)) <;>
      (refine wp_makeId fun i => ?_
       generalize encodeWithId 0x82 _ _ = E
       cases E with
       | error e => exact wp_emit _
       | ok bs => exact wp_registerSubUnsub _ _ _)
  | unsubscribe p a =>
    show WP (apiUnsubscribe p a)
    unfold apiUnsubscribe
    apply wp_read; intro w
    split
    · exact wp_emit _
    · refine wp_makeId fun _ => wp_read fun w1 => ?_
      cases a <;> dsimp only <;> (repeat' (first | with_reducible exact wp_emit _ | split)) <;>
        (refine wp_makeId fun i => ?_
         generalize encodeWithId 0xA2 _ _ = E
         cases E with
         | error e => exact wp_emit _
         | ok bs => exact wp_registerSubUnsub _ _ _)
  | setwin p n =>
    show WP (apiSetWindow p n)
    unfold apiSetWindow
    split
    · exact wp_raise _
    · rename_i n
      split
      · exact wp_raise _
      · rename_i hn
        refine wp_seq (wp_setProto _ _ fun pr _ => ?_) (wp_emit _)
        have := maxWindow_pos
        show 1 ≤ min n.toNat Config.maxWindow
        omega
  | settimeout p n => show WP (apiSetTimeout p n); unfold apiSetTimeout; wps
  | setbw p b f => show WP (apiSetBandwith p b f); unfold apiSetBandwith; wps
  | recv p d => exact wp_dataReceived d
  | lost p r => exact wp_connectionLost r
  | fire t =>
    show WP (fireTimer t)
    unfold fireTimer
    apply wp_read; intro w
    split
    · exact wp_emit _
    · split
      · exact wp_seq (wp_mod fun _ => rfl) (wp_runTimer' _)
      · exact wp_emit _

theorem wpos_step (w : World) (h : WPos w) (op : Op) : WPos (step w op) := by
  have := wp_handler op w h
  unfold step
  rcases hw : op.handler w with ⟨w', _ | e⟩
  · rw [hw] at this; exact this
  · rw [hw] at this; exact this
theorem wpos_init (profile : Nat) : WPos (World.init profile) := fun p => by
  show 1 ≤ ((default : Proto)).window
  exact Nat.le_refl 1
theorem wpos_run (ops : List Op) : ∀ w, WPos w → WPos (run w ops) := by
  induction ops with
  | nil => intro w h; exact h
  | cons op r ih => intro w h; exact ih _ (wpos_step w h op)

end Mqtt
