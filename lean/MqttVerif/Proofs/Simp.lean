import MqttVerif.Proofs.Inv
/-  GENERATED boilerplate: projections of the pure primitives (all `rfl`). -/
namespace Mqtt

@[simp] theorem setReq_profile (w : World) (r : Nat) (g : Req → Req) : (w.setReq r g).profile = w.profile := rfl
@[simp] theorem setEnts_profile (w : World) (g : List Ent → List Ent) : (w.setEnts g).profile = w.profile := rfl
@[simp] theorem emit_profile (w : World) (o : Obs) : (w.emit o).profile = w.profile := rfl
@[simp] theorem callLater_profile (w : World) (d : Rat) (k : TKind) : (w.callLater d k).1.profile = w.profile := rfl
@[simp] theorem setReq_nextId (w : World) (r : Nat) (g : Req → Req) : (w.setReq r g).nextId = w.nextId := rfl
@[simp] theorem setEnts_nextId (w : World) (g : List Ent → List Ent) : (w.setEnts g).nextId = w.nextId := rfl
@[simp] theorem emit_nextId (w : World) (o : Obs) : (w.emit o).nextId = w.nextId := rfl
@[simp] theorem callLater_nextId (w : World) (d : Rat) (k : TKind) : (w.callLater d k).1.nextId = w.nextId := rfl
@[simp] theorem setReq_ents (w : World) (r : Nat) (g : Req → Req) : (w.setReq r g).ents = w.ents := rfl
@[simp] theorem emit_ents (w : World) (o : Obs) : (w.emit o).ents = w.ents := rfl
@[simp] theorem callLater_ents (w : World) (d : Rat) (k : TKind) : (w.callLater d k).1.ents = w.ents := rfl
@[simp] theorem setReq_rx (w : World) (r : Nat) (g : Req → Req) : (w.setReq r g).rx = w.rx := rfl
@[simp] theorem setEnts_rx (w : World) (g : List Ent → List Ent) : (w.setEnts g).rx = w.rx := rfl
@[simp] theorem emit_rx (w : World) (o : Obs) : (w.emit o).rx = w.rx := rfl
@[simp] theorem callLater_rx (w : World) (d : Rat) (k : TKind) : (w.callLater d k).1.rx = w.rx := rfl
@[simp] theorem setReq_protos (w : World) (r : Nat) (g : Req → Req) : (w.setReq r g).protos = w.protos := rfl
@[simp] theorem setEnts_protos (w : World) (g : List Ent → List Ent) : (w.setEnts g).protos = w.protos := rfl
@[simp] theorem emit_protos (w : World) (o : Obs) : (w.emit o).protos = w.protos := rfl
@[simp] theorem callLater_protos (w : World) (d : Rat) (k : TKind) : (w.callLater d k).1.protos = w.protos := rfl
@[simp] theorem setReq_nextProto (w : World) (r : Nat) (g : Req → Req) : (w.setReq r g).nextProto = w.nextProto := rfl
@[simp] theorem setEnts_nextProto (w : World) (g : List Ent → List Ent) : (w.setEnts g).nextProto = w.nextProto := rfl
@[simp] theorem emit_nextProto (w : World) (o : Obs) : (w.emit o).nextProto = w.nextProto := rfl
@[simp] theorem callLater_nextProto (w : World) (d : Rat) (k : TKind) : (w.callLater d k).1.nextProto = w.nextProto := rfl
@[simp] theorem setEnts_reqs (w : World) (g : List Ent → List Ent) : (w.setEnts g).reqs = w.reqs := rfl
@[simp] theorem emit_reqs (w : World) (o : Obs) : (w.emit o).reqs = w.reqs := rfl
@[simp] theorem callLater_reqs (w : World) (d : Rat) (k : TKind) : (w.callLater d k).1.reqs = w.reqs := rfl
@[simp] theorem setReq_nextReq (w : World) (r : Nat) (g : Req → Req) : (w.setReq r g).nextReq = w.nextReq := rfl
@[simp] theorem setEnts_nextReq (w : World) (g : List Ent → List Ent) : (w.setEnts g).nextReq = w.nextReq := rfl
@[simp] theorem emit_nextReq (w : World) (o : Obs) : (w.emit o).nextReq = w.nextReq := rfl
@[simp] theorem callLater_nextReq (w : World) (d : Rat) (k : TKind) : (w.callLater d k).1.nextReq = w.nextReq := rfl
@[simp] theorem setReq_connReqs (w : World) (r : Nat) (g : Req → Req) : (w.setReq r g).connReqs = w.connReqs := rfl
@[simp] theorem setEnts_connReqs (w : World) (g : List Ent → List Ent) : (w.setEnts g).connReqs = w.connReqs := rfl
@[simp] theorem emit_connReqs (w : World) (o : Obs) : (w.emit o).connReqs = w.connReqs := rfl
@[simp] theorem callLater_connReqs (w : World) (d : Rat) (k : TKind) : (w.callLater d k).1.connReqs = w.connReqs := rfl
@[simp] theorem setReq_nextCR (w : World) (r : Nat) (g : Req → Req) : (w.setReq r g).nextCR = w.nextCR := rfl
@[simp] theorem setEnts_nextCR (w : World) (g : List Ent → List Ent) : (w.setEnts g).nextCR = w.nextCR := rfl
@[simp] theorem emit_nextCR (w : World) (o : Obs) : (w.emit o).nextCR = w.nextCR := rfl
@[simp] theorem callLater_nextCR (w : World) (d : Rat) (k : TKind) : (w.callLater d k).1.nextCR = w.nextCR := rfl
@[simp] theorem setReq_timers (w : World) (r : Nat) (g : Req → Req) : (w.setReq r g).timers = w.timers := rfl
@[simp] theorem setEnts_timers (w : World) (g : List Ent → List Ent) : (w.setEnts g).timers = w.timers := rfl
@[simp] theorem emit_timers (w : World) (o : Obs) : (w.emit o).timers = w.timers := rfl
@[simp] theorem setReq_nextTimer (w : World) (r : Nat) (g : Req → Req) : (w.setReq r g).nextTimer = w.nextTimer := rfl
@[simp] theorem setEnts_nextTimer (w : World) (g : List Ent → List Ent) : (w.setEnts g).nextTimer = w.nextTimer := rfl
@[simp] theorem emit_nextTimer (w : World) (o : Obs) : (w.emit o).nextTimer = w.nextTimer := rfl
@[simp] theorem setReq_nextDfd (w : World) (r : Nat) (g : Req → Req) : (w.setReq r g).nextDfd = w.nextDfd := rfl
@[simp] theorem setEnts_nextDfd (w : World) (g : List Ent → List Ent) : (w.setEnts g).nextDfd = w.nextDfd := rfl
@[simp] theorem emit_nextDfd (w : World) (o : Obs) : (w.emit o).nextDfd = w.nextDfd := rfl
@[simp] theorem callLater_nextDfd (w : World) (d : Rat) (k : TKind) : (w.callLater d k).1.nextDfd = w.nextDfd := rfl
@[simp] theorem setReq_fired (w : World) (r : Nat) (g : Req → Req) : (w.setReq r g).fired = w.fired := rfl
@[simp] theorem setEnts_fired (w : World) (g : List Ent → List Ent) : (w.setEnts g).fired = w.fired := rfl
@[simp] theorem emit_fired (w : World) (o : Obs) : (w.emit o).fired = w.fired := rfl
@[simp] theorem callLater_fired (w : World) (d : Rat) (k : TKind) : (w.callLater d k).1.fired = w.fired := rfl
@[simp] theorem setReq_now (w : World) (r : Nat) (g : Req → Req) : (w.setReq r g).now = w.now := rfl
@[simp] theorem setEnts_now (w : World) (g : List Ent → List Ent) : (w.setEnts g).now = w.now := rfl
@[simp] theorem emit_now (w : World) (o : Obs) : (w.emit o).now = w.now := rfl
@[simp] theorem callLater_now (w : World) (d : Rat) (k : TKind) : (w.callLater d k).1.now = w.now := rfl
@[simp] theorem setReq_jitter (w : World) (r : Nat) (g : Req → Req) : (w.setReq r g).jitter = w.jitter := rfl
@[simp] theorem setEnts_jitter (w : World) (g : List Ent → List Ent) : (w.setEnts g).jitter = w.jitter := rfl
@[simp] theorem emit_jitter (w : World) (o : Obs) : (w.emit o).jitter = w.jitter := rfl
@[simp] theorem callLater_jitter (w : World) (d : Rat) (k : TKind) : (w.callLater d k).1.jitter = w.jitter := rfl
@[simp] theorem setReq_log (w : World) (r : Nat) (g : Req → Req) : (w.setReq r g).log = w.log := rfl
@[simp] theorem setEnts_log (w : World) (g : List Ent → List Ent) : (w.setEnts g).log = w.log := rfl
@[simp] theorem callLater_log (w : World) (d : Rat) (k : TKind) : (w.callLater d k).1.log = w.log := rfl
@[simp] theorem setReq_nextSeq (w : World) (r : Nat) (g : Req → Req) : (w.setReq r g).nextSeq = w.nextSeq := rfl
@[simp] theorem setEnts_nextSeq (w : World) (g : List Ent → List Ent) : (w.setEnts g).nextSeq = w.nextSeq := rfl
@[simp] theorem emit_nextSeq (w : World) (o : Obs) : (w.emit o).nextSeq = w.nextSeq := rfl
@[simp] theorem callLater_nextSeq (w : World) (d : Rat) (k : TKind) : (w.callLater d k).1.nextSeq = w.nextSeq := rfl
@[simp] theorem setReq_idAllocs (w : World) (r : Nat) (g : Req → Req) : (w.setReq r g).idAllocs = w.idAllocs := rfl
@[simp] theorem setEnts_idAllocs (w : World) (g : List Ent → List Ent) : (w.setEnts g).idAllocs = w.idAllocs := rfl
@[simp] theorem emit_idAllocs (w : World) (o : Obs) : (w.emit o).idAllocs = w.idAllocs := rfl
@[simp] theorem callLater_idAllocs (w : World) (d : Rat) (k : TKind) : (w.callLater d k).1.idAllocs = w.idAllocs := rfl
@[simp] theorem setEnts_ents (w : World) (g : List Ent → List Ent) : (w.setEnts g).ents = g w.ents := rfl
@[simp] theorem emit_log (w : World) (o : Obs) : (w.emit o).log = w.log ++ [o] := rfl
@[simp] theorem callLater_timers (w : World) (d : Rat) (k : TKind) : (w.callLater d k).1.timers = w.timers.set w.nextTimer ⟨w.now + ticks d, k, .pending⟩ := rfl
@[simp] theorem callLater_nextTimer (w : World) (d : Rat) (k : TKind) : (w.callLater d k).1.nextTimer = w.nextTimer + 1 := rfl
@[simp] theorem callLater_id (w : World) (d : Rat) (k : TKind) : (w.callLater d k).2 = w.nextTimer := rfl
@[simp] theorem setReq_reqs (w : World) (r : Nat) (g : Req → Req) : (w.setReq r g).reqs = w.reqs.set r (g (w.req r)) := rfl
@[simp] theorem setReq_proto (w : World) (r : Nat) (g : Req → Req) (p : Nat) : (w.setReq r g).proto p = w.proto p := rfl
@[simp] theorem setReq_paddr (w : World) (r : Nat) (g : Req → Req) (p : Nat) : (w.setReq r g).paddr p = w.paddr p := rfl
@[simp] theorem setEnts_proto (w : World) (g : List Ent → List Ent) (p : Nat) : (w.setEnts g).proto p = w.proto p := rfl
@[simp] theorem setEnts_paddr (w : World) (g : List Ent → List Ent) (p : Nat) : (w.setEnts g).paddr p = w.paddr p := rfl
@[simp] theorem setEnts_req (w : World) (g : List Ent → List Ent) (r0 : Nat) : (w.setEnts g).req r0 = w.req r0 := rfl
@[simp] theorem emit_proto (w : World) (o : Obs) (p : Nat) : (w.emit o).proto p = w.proto p := rfl
@[simp] theorem emit_paddr (w : World) (o : Obs) (p : Nat) : (w.emit o).paddr p = w.paddr p := rfl
@[simp] theorem emit_req (w : World) (o : Obs) (r0 : Nat) : (w.emit o).req r0 = w.req r0 := rfl
@[simp] theorem callLater_proto (w : World) (d : Rat) (k : TKind) (p : Nat) : ((w.callLater d k).1).proto p = w.proto p := rfl
@[simp] theorem callLater_paddr (w : World) (d : Rat) (k : TKind) (p : Nat) : ((w.callLater d k).1).paddr p = w.paddr p := rfl
@[simp] theorem callLater_req (w : World) (d : Rat) (k : TKind) (r0 : Nat) : ((w.callLater d k).1).req r0 = w.req r0 := rfl

@[simp] theorem req_setReq (w : World) (r : Nat) (f : Req → Req) (r' : Nat) :
    (w.setReq r f).req r' = if r = r' then f (w.req r) else w.req r' := by
  simp only [World.setReq, World.req, Dict.get?_set]; split <;> simp

end Mqtt
