import MqttVerif.Proofs.Frame
import MqttVerif.Proofs.Framing
/-
  `dataReceived`: the decoders read identifiers below 65536 from byte buffers, every packet
  is handled without raising and with the invariant preserved, and so is the whole receive loop.
-/
namespace Mqtt

/-! ### identifiers decoded from bytes -/

theorem skipLen_WF {l r : Bytes} (hl : Bytes.WF l) (h : skipLen l = .ok r) : Bytes.WF r := by
  induction l with
  | nil => simp [skipLen] at h
  | cons b t ih =>
    have ht : Bytes.WF t := fun x hx => hl x (List.mem_cons_of_mem _ hx)
    simp only [skipLen] at h
    split at h
    · exact ih ht h
    · injection h with h; subst h; exact ht

theorem body_WF {pkt r : Bytes} (hp : Bytes.WF pkt) (h : body pkt = .ok r) : Bytes.WF r :=
  skipLen_WF (fun x hx => hp x (List.mem_of_mem_drop hx)) h

theorem decode16Int_lt {l : Bytes} (hl : Bytes.WF l) {m : Nat} (h : decode16Int l = .ok m) : m < 65536 := by
  match l, h with
  | a :: b :: _, h =>
    simp only [decode16Int] at h
    injection h with h
    have ha := hl a (by simp)
    have hb := hl b (by simp)
    omega

theorem decodeAck_lt {pkt : Bytes} (hp : Bytes.WF pkt) {m : Nat} (h : decodeAck pkt = .ok m) : m < 65536 := by
  simp only [decodeAck, bind, Except.bind] at h
  split at h
  · cases h
  · rename_i r hr
    exact decode16Int_lt (body_WF hp hr) h

theorem decodePUBREL_lt {pkt : Bytes} (hp : Bytes.WF pkt) {m : Nat} {d : Bool} (h : decodePUBREL pkt = .ok (m, d)) : m < 65536 := by
  simp only [decodePUBREL, bind, Except.bind] at h
  split at h
  · cases h
  · rename_i r hr
    split at h
    · cases h
    · rename_i m' hm'
      split at h
      · cases h
      · simp only [pure, Except.pure] at h
        injection h with h; injection h with h1 _; subst h1
        exact decode16Int_lt (body_WF hp hr) hm'

theorem PublishD_msgId_lt {pkt : Bytes} (hp : Bytes.WF pkt) {d : PublishD} (h : PublishD.decode pkt = .ok d) : d.msgId.getD 0 < 65536 := by
  simp only [PublishD.decode, bind, Except.bind] at h
  split at h
  · cases h
  · rename_i r hr
    have hr' := body_WF hp hr
    split at h
    · cases h
    · split at h
      · cases h
      · split at h
        · cases h
        · split at h
          · split at h
            · cases h
            · rename_i m hm
              simp only [pure, Except.pure] at h
              injection h with h; subst h
              simp only [Option.getD_some]
              refine decode16Int_lt ?_ hm
              intro x hx
              exact hr' x (List.mem_of_mem_drop (List.mem_of_mem_take hx))
          · simp only [pure, Except.pure] at h
            injection h with h; subst h
            simp

/-! ### what the state objects allow -/

theorem honoured_state (prof st op : Nat) (hp : prof = 1 ∨ prof = 2 ∨ prof = 3) (hst : st < 3) (hop : op < 15)
    (h : Spec.honoured prof st op = true) :
    (op = 0 → st = 0) ∧ (op = 6 → st = 1) ∧ (op ≠ 0 → op ≠ 6 → op ≠ 4 → st = 2) ∧ (op = 4 → st ≠ 0) := by
  have h1 : op = 0 ∨ op = 1 ∨ op = 2 ∨ op = 3 ∨ op = 4 ∨ op = 5 ∨ op = 6 ∨ op = 7 ∨ op = 8 ∨ op = 9 ∨ op = 10 ∨ op = 11 ∨
      op = 12 ∨ op = 13 ∨ op = 14 := by omega
  have h2 : st = 0 ∨ st = 1 ∨ st = 2 := by omega
  rcases hp with rfl | rfl | rfl <;> rcases h2 with rfl | rfl | rfl <;>
    rcases h1 with rfl | rfl | rfl | rfl | rfl | rfl | rfl | rfl | rfl | rfl | rfl | rfl | rfl | rfl | rfl <;>
    first | (exact absurd h (by decide)) | decide

theorem allowed_state {x : Option Nat} {w : World} (h : WInvX x w) (p : Nat) (ppr : Proto) (hpp : w.protos.get? p = some ppr)
    (op : Nat) (hop : op < 15) (ha : allowed w p op = true) :
    (op = 0 → ppr.state = .idle) ∧ (op = 6 → ppr.state = .connecting) ∧ (op ≠ 0 → op ≠ 6 → op ≠ 4 → ppr.state = .connected) ∧
    (op = 4 → ppr.state ≠ .idle) := by
  rw [C14.allowed_eq_honoured w p op h.profileOk hop, getD_of_get? hpp] at ha
  have := honoured_state w.profile (stateIdx ppr.state) op h.profileOk (by cases ppr.state <;> simp [stateIdx]) hop ha
  cases hs : ppr.state <;> simp only [hs, stateIdx] at this <;> simp_all

/-! ### one packet -/

/-- MQTTBaseProtocol._processPacket on a live protocol: nothing is raised, the invariant is kept -/
theorem processPacket_inv {w : World} (h : WInv w) (p : Nat) (ppr : Proto) (hpp : w.protos.get? p = some ppr)
    (hnl : ppr.lost = false) (pkt : Bytes) (hne : pkt ≠ []) (hwf : Bytes.WF pkt) :
    (processPacket p pkt w).2 = none ∧ WInv (processPacket p pkt w).1 := by
  unfold processPacket abort
  split
  · exact absurd rfl hne
  · rename_i h0 rest
    dsimp only
    have ht := nibble_lt h0
    generalize (h0 &&& 0xF0) >>> 4 = t at ht ⊢
    split
    · exact ⟨rfl, emit_inv h _⟩
    · split
      · exact ⟨rfl, emit_inv h _⟩
      · simp only [read_apply]
        have hst := fun op hop ha => allowed_state h p ppr hpp op hop ha
        have : t = 0 ∨ t = 1 ∨ t = 2 ∨ t = 3 ∨ t = 4 ∨ t = 5 ∨ t = 6 ∨ t = 7 ∨ t = 8 ∨ t = 9 ∨ t = 10 ∨ t = 11 ∨ t = 12 ∨
            t = 13 ∨ t = 14 ∨ t = 15 := by omega
        rcases this with rfl | rfl | rfl | rfl | rfl | rfl | rfl | rfl | rfl | rfl | rfl | rfl | rfl | rfl | rfl | rfl
        all_goals (try simp only [])
        all_goals (try exact ⟨rfl, emit_inv h _⟩)
        · -- CONNACK
          cases hd : ConnackF.decode (h0 :: rest) with
          | error e => exact ⟨rfl, emit_inv h _⟩
          | ok c =>
            simp only
            by_cases ha : allowed w p 6 = true
            · simp only [ha, ↓reduceIte]
              exact handleCONNACK_inv h p ppr hpp hnl ((hst 6 (by omega) ha).2.1 rfl) _ _
            · simp only [ha, Bool.false_eq_true, ↓reduceIte]; exact ⟨rfl, h⟩
        · -- PUBLISH
          cases hd : PublishD.decode (h0 :: rest) with
          | error e => exact ⟨rfl, emit_inv h _⟩
          | ok d =>
            simp only
            by_cases ha : allowed w p 10 = true
            · simp only [ha, ↓reduceIte]
              obtain ⟨a, b, _⟩ := handlePUBLISH_inv h p ⟨d.topic, d.payload, d.qos, d.dup, d.retain, d.msgId⟩ (PublishD_msgId_lt hwf hd)
              exact ⟨a, b⟩
            · simp only [ha, Bool.false_eq_true, ↓reduceIte]; exact ⟨rfl, h⟩
        · -- PUBACK
          cases hd : decodeAck (h0 :: rest) with
          | error e => exact ⟨rfl, emit_inv h _⟩
          | ok m =>
            simp only
            by_cases ha : allowed w p 11 = true
            · simp only [ha, ↓reduceIte]
              exact handlePUBACK_inv h p ppr hpp hnl ((hst 11 (by omega) ha).2.2.1 (by omega) (by omega) (by omega)) m
            · simp only [ha, Bool.false_eq_true, ↓reduceIte]; exact ⟨rfl, h⟩
        · -- PUBREC
          cases hd : decodeAck (h0 :: rest) with
          | error e => exact ⟨rfl, emit_inv h _⟩
          | ok m =>
            simp only
            by_cases ha : allowed w p 12 = true
            · simp only [ha, ↓reduceIte]
              exact handlePUBREC_inv h p ppr hpp hnl ((hst 12 (by omega) ha).2.2.1 (by omega) (by omega) (by omega)) m (decodeAck_lt hwf hd)
            · simp only [ha, Bool.false_eq_true, ↓reduceIte]; exact ⟨rfl, h⟩
        · -- PUBREL
          cases hd : decodePUBREL (h0 :: rest) with
          | error e => exact ⟨rfl, emit_inv h _⟩
          | ok md =>
            obtain ⟨m, dd⟩ := md
            simp only
            by_cases ha : allowed w p 13 = true
            · simp only [ha, ↓reduceIte]
              obtain ⟨a, b, _⟩ := handlePUBREL_inv h p m (decodePUBREL_lt hwf hd)
              exact ⟨a, b⟩
            · simp only [ha, Bool.false_eq_true, ↓reduceIte]; exact ⟨rfl, h⟩
        · -- PUBCOMP
          cases hd : decodeAck (h0 :: rest) with
          | error e => exact ⟨rfl, emit_inv h _⟩
          | ok m =>
            simp only
            by_cases ha : allowed w p 14 = true
            · simp only [ha, ↓reduceIte]
              exact handlePUBCOMP_inv h p ppr hpp hnl ((hst 14 (by omega) ha).2.2.1 (by omega) (by omega) (by omega)) m
            · simp only [ha, Bool.false_eq_true, ↓reduceIte]; exact ⟨rfl, h⟩
        · -- SUBACK
          cases hd : SubackF.decode (h0 :: rest) with
          | error e => exact ⟨rfl, emit_inv h _⟩
          | ok sa =>
            simp only
            by_cases ha : allowed w p 8 = true
            · simp only [ha, ↓reduceIte]
              exact handleSubUnsubAck_inv h p ppr hpp hnl ((hst 8 (by omega) ha).2.2.1 (by omega) (by omega) (by omega)) true _ _
            · simp only [ha, Bool.false_eq_true, ↓reduceIte]; exact ⟨rfl, h⟩
        · -- UNSUBACK
          cases hd : decodeAck (h0 :: rest) with
          | error e => exact ⟨rfl, emit_inv h _⟩
          | ok m =>
            simp only
            by_cases ha : allowed w p 9 = true
            · simp only [ha, ↓reduceIte]
              exact handleSubUnsubAck_inv h p ppr hpp hnl ((hst 9 (by omega) ha).2.2.1 (by omega) (by omega) (by omega)) false _ _
            · simp only [ha, Bool.false_eq_true, ↓reduceIte]; exact ⟨rfl, h⟩
        · -- PINGRESP
          by_cases ha : allowed w p 7 = true
          · simp only [ha, ↓reduceIte]
            exact handlePINGRESP_inv h p ppr hpp
          · simp only [ha, Bool.false_eq_true, ↓reduceIte]; exact ⟨rfl, h⟩

/-! ### the receive loop -/

theorem setBuffer_inv {x : Option Nat} {w : World} (h : WInvX x w) (p : Nat) (ppr : Proto) (hpp : w.protos.get? p = some ppr)
    (f : Bytes → Bytes) (hwf : Bytes.WF (f ppr.buffer)) :
    (setProto p (fun pr => { pr with buffer := f pr.buffer }) w).2 = none ∧
    WInvX x (setProto p (fun pr => { pr with buffer := f pr.buffer }) w).1 ∧
    (setProto p (fun pr => { pr with buffer := f pr.buffer }) w).1.protos.get? p = some { ppr with buffer := f ppr.buffer } := by
  rw [setProto_apply]
  refine ⟨rfl, h.sameCore (setProto_sameCore p (fun pr => { pr with buffer := f pr.buffer }) ppr hpp h.idCounter ⟨rfl, rfl, rfl, rfl, rfl, rfl, rfl, fun _ => hwf⟩), ?_⟩
  simp [Dict.get?_set, getD_of_get? hpp]

theorem accumulate_inv (p : Nat) (fuel : Nat) : ∀ {w : World}, WInv w → (∃ ppr, w.protos.get? p = some ppr ∧ ppr.lost = false) →
    (accumulate p fuel w).2 = none ∧ WInv (accumulate p fuel w).1 := by
  induction fuel with
  | zero => intro w h _; exact ⟨rfl, h⟩
  | succ f ih =>
    intro w h ⟨ppr, hpp, hnl⟩
    simp only [accumulate, read_apply, getD_of_get? hpp]
    cases hfp : firstPacket ppr.buffer with
    | none => exact ⟨rfl, h⟩
    | some pr =>
      obtain ⟨pkt, rest⟩ := pr
      simp only
      obtain ⟨hcat, hlen⟩ := firstPacket_some _ _ _ hfp
      have hbuf := h.bufOk p ppr hpp
      have hpw : Bytes.WF pkt := fun b hb => hbuf b (by rw [hcat]; exact List.mem_append_left _ hb)
      have hrw : Bytes.WF rest := fun b hb => hbuf b (by rw [hcat]; exact List.mem_append_right _ hb)
      have hne : pkt ≠ [] := by intro hc; rw [hc] at hlen; simp at hlen
      obtain ⟨a1, a2⟩ := processPacket_inv h p ppr hpp hnl pkt hne hpw
      obtain ⟨ppr1, b1, b2, _⟩ := kl_processPacket p pkt w p ppr hpp
      obtain ⟨w1, hw1⟩ : ∃ w1, w1 = (processPacket p pkt w).1 := ⟨_, rfl⟩
      have s1 : processPacket p pkt w = (w1, none) := by rw [hw1]; exact Prod.ext rfl a1
      rw [← hw1] at a2 b1
      rw [seq_ok s1]
      obtain ⟨c1, c2, c3⟩ := setBuffer_inv a2 p ppr1 b1 (fun _ => rest) hrw
      obtain ⟨w2, hw2⟩ : ∃ w2, w2 = (setProto p (fun pr => { pr with buffer := rest }) w1).1 := ⟨_, rfl⟩
      have s2 : setProto p (fun pr => { pr with buffer := rest }) w1 = (w2, none) := by rw [hw2]; exact Prod.ext rfl c1
      rw [seq_ok s2]
      exact ih (hw2 ▸ c2) ⟨{ ppr1 with buffer := rest }, hw2 ▸ c3, by rw [← hnl, ← b2]⟩

/-- Protocol.dataReceived on a live protocol: no exception escapes, the invariant is kept -/
theorem dataReceived_inv {w : World} (h : WInv w) (p : Nat) (ppr : Proto) (hpp : w.protos.get? p = some ppr) (hnl : ppr.lost = false)
    (data : Bytes) (hd : Bytes.WF data) :
    (dataReceived p data w).2 = none ∧ WInv (dataReceived p data w).1 := by
  have hw : Bytes.WF (ppr.buffer ++ data) := by
    intro b hb
    rcases List.mem_append.mp hb with hb | hb
    · exact h.bufOk p ppr hpp b hb
    · exact hd b hb
  obtain ⟨c1, c2, c3⟩ := setBuffer_inv h p ppr hpp (fun b => b ++ data) hw
  obtain ⟨w2, hw2⟩ : ∃ w2, w2 = (setProto p (fun pr => { pr with buffer := pr.buffer ++ data }) w).1 := ⟨_, rfl⟩
  have s2 : setProto p (fun pr => { pr with buffer := pr.buffer ++ data }) w = (w2, none) := by rw [hw2]; exact Prod.ext rfl c1
  simp only [dataReceived]
  rw [seq_ok s2, read_apply]
  exact accumulate_inv p _ (hw2 ▸ c2) ⟨{ ppr with buffer := ppr.buffer ++ data }, hw2 ▸ c3, hnl⟩

end Mqtt
