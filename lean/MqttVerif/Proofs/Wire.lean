import MqttVerif.Spec.Wire
import MqttVerif.Proofs.Pdu
/-
  Refinement of the transcription of pdu.py to the reference wire format (C02).
-/
namespace Mqtt
open Spec

theorem u16_eq (n : Nat) : Spec.u16 n = enc16 n := by
  simp [Spec.u16, enc16, shr8, and255]

theorem str_eq (s : String) (h : s.utf8ByteSize ≤ 65535) : Spec.str s = some (encS s) := by
  unfold Spec.str encS
  have : (utf8 s).length ≤ 65535 := by rw [utf8_length]; exact h
  simp [this, u16_eq, enc16]

theorem str_none (s : String) (h : 65535 < s.utf8ByteSize) : Spec.str s = none := by
  unfold Spec.str
  have : ¬ (utf8 s).length ≤ 65535 := by rw [utf8_length]; omega
  simp [this]

theorem encodeLengthF_small (f v : Nat) (h : v < 128) : encodeLengthF f v = [v] := by
  have h0 : ¬ v / 128 > 0 := by omega
  have hm : v % 128 = v := Nat.mod_eq_of_lt h
  cases f <;> simp [encodeLengthF, h0, hm]

theorem encodeLengthF_big (f v : Nat) (h : 128 ≤ v) :
    encodeLengthF (f + 1) v = (v % 128 + 128) :: encodeLengthF f (v / 128) := by
  have h0 : v / 128 > 0 := by omega
  rw [encodeLengthF]
  simp only [h0, ↓reduceIte]
  rw [or128 _ (Nat.mod_lt _ (by decide))]

/-- the remaining-length field of pdu.py is the one of Table 2.4 -/
theorem remLen_eq (n : Nat) (h : n < 268435456) : Spec.remLen n = some (encodeLength n) := by
  unfold Spec.remLen encodeLength
  by_cases h1 : n < 128
  · simp [h1, encodeLengthF_small _ _ h1]
  · obtain ⟨f, rfl⟩ : ∃ f, n = f + 4 := ⟨n - 4, by omega⟩
    by_cases h2 : f + 4 < 16384
    · have : (f + 4) / 128 < 128 := by omega
      simp only [h1, ↓reduceIte, h2]
      rw [encodeLengthF_big _ _ (by omega), encodeLengthF_small _ _ this]
    · by_cases h3 : f + 4 < 2097152
      · have : (f + 4) / 128 / 128 < 128 := by omega
        simp only [h1, ↓reduceIte, h2, h3]
        rw [encodeLengthF_big _ _ (by omega), encodeLengthF_big _ _ (by omega), encodeLengthF_small _ _ this]
        have : (f + 4) / 128 / 128 = (f + 4) / 16384 := by omega
        rw [this]
      · have : (f + 4) / 128 / 128 / 128 < 128 := by omega
        simp only [h1, ↓reduceIte, h2, h3, h]
        rw [encodeLengthF_big _ _ (by omega), encodeLengthF_big _ _ (by omega),
          encodeLengthF_big _ _ (by omega), encodeLengthF_small _ _ this]
        have e1 : (f + 4) / 128 / 128 = (f + 4) / 16384 := by omega
        have e2 : (f + 4) / 128 / 128 / 128 = (f + 4) / 2097152 := by omega
        rw [e2, e1]

theorem fixedHeader_eq (type flags : Nat) (body : Bytes) (h : body.length < 268435456) :
    Spec.fixedHeader type flags body = some ([type * 16 + flags] ++ encodeLength body.length ++ body) := by
  unfold Spec.fixedHeader
  rw [remLen_eq _ h]
  rfl

/-- protocol version of the model as the standard's version -/
def specVer (v : Version) : Spec.Ver := if v.level == 3 then .v31 else .v311

/-! ## identifier-only packets the client sends: PUBACK, PUBREC, PUBCOMP; PUBREL -/

theorem validId_of (m : Nat) (h1 : 1 ≤ m) (h2 : m < 65536) : Spec.validId m = true := by
  simp [Spec.validId]; omega

theorem ack_refines (v : Spec.Ver) (m : Nat) (h1 : 1 ≤ m) (h2 : m < 65536) :
    (∃ bs, encodePUBACK (m : Int) = .ok bs ∧ Spec.encode v (.puback m) = some bs) ∧
    (∃ bs, encodePUBREC (m : Int) = .ok bs ∧ Spec.encode v (.pubrec m) = some bs) ∧
    (∃ bs, encodePUBCOMP (m : Int) = .ok bs ∧ Spec.encode v (.pubcomp m) = some bs) ∧
    (∃ bs, encodePUBREL (m : Int) = .ok bs ∧ Spec.encode v (.pubrel false m) = some bs) ∧
    (∃ bs, encodeUNSUBACK (m : Int) = .ok bs ∧ Spec.encode v (.unsuback m) = some bs) := by
  have hv := validId_of m h1 h2
  have he : ∀ hdr, encodeAck hdr (m : Int) = .ok ([hdr] ++ encodeLength 2 ++ enc16 m) := by
    intro hdr; unfold encodeAck; rw [encode16_ok m h2]; rfl
  have hf : ∀ t fl, Spec.fixedHeader t fl (Spec.u16 m) = some ([t * 16 + fl] ++ encodeLength 2 ++ enc16 m) := by
    intro t fl
    rw [fixedHeader_eq _ _ _ (by simp [Spec.u16]), u16_eq]; rfl
  have hflags : Spec.ackFlags v false = some 2 := by cases v <;> rfl
  refine ⟨⟨_, he _, ?_⟩, ⟨_, he _, ?_⟩, ⟨_, he _, ?_⟩, ⟨_, he _, ?_⟩, ⟨_, he _, ?_⟩⟩
  · simp only [Spec.encode, hv, ↓reduceIte, hf]
  · simp only [Spec.encode, hv, ↓reduceIte, hf]
  · simp only [Spec.encode, hv, ↓reduceIte, hf]
  · simp only [Spec.encode, hflags, hv, ↓reduceIte, hf, bind, Option.bind]
  · simp only [Spec.encode, hv, ↓reduceIte, hf]

/-- PINGREQ and DISCONNECT (no variable header, no payload) -/
theorem fixed_refines (v : Spec.Ver) :
    Spec.encode v .pingreq = some encodePINGREQ ∧ Spec.encode v .disconnect = some encodeDISCONNECT ∧
    Spec.encode v .pingresp = some encodePINGRES := by
  refine ⟨?_, ?_, ?_⟩ <;> simp only [Spec.encode] <;> rw [fixedHeader_eq _ _ _ (by simp)] <;> decide

/-! ## PUBLISH -/

theorem toBytes_ok (p : Payload) (h : p ≠ .other) : p.toBytes = .ok p.bytes := by
  cases p <;> simp_all [Payload.bytes, Payload.toBytes]

/-- the bytes PUBLISH.encode produces for a valid assignment, explicitly -/
theorem PublishF.encode_eq (f : PublishF) (hv : f.Valid) :
    f.encode = .ok ([0x30 ||| b2n f.retain ||| (f.qos <<< 1) ||| (b2n f.dup <<< 3)] ++
      encodeLength ((encS f.topic ++ (match f.msgId with | some i => enc16 i.toNat | none => [])).length
        + f.payload.bytes.length) ++
      ((encS f.topic ++ (match f.msgId with | some i => enc16 i.toNat | none => [])) ++ f.payload.bytes)) := by
  obtain ⟨topic, payload, qos, dup, retain, msgId⟩ := f
  obtain ⟨hq, ht, hn, hi, hp, htot⟩ := hv
  simp only at hq ht hn hi hp htot
  have hpe := toBytes_ok payload hp
  by_cases h0 : qos = 0
  · subst h0
    obtain ⟨rfl, rfl⟩ := hn rfl
    unfold PublishF.encode
    simp only [bne_self_eq_false, Bool.false_eq_true, ↓reduceIte, encodeString_ok topic ht, ok_bind, pure_ok, hpe,
      encS_length]
    simp only at htot
    have : ¬ (2 + topic.utf8ByteSize + payload.bytes.length > 268435455) := by omega
    simp only [this, ↓reduceIte, List.append_nil, encS_length]
    have : 0x30 ||| b2n retain = 0x30 ||| b2n retain ||| (0 <<< 1) ||| (b2n false <<< 3) := by
      cases retain <;> decide
    rw [← this]
    simp only [List.append_assoc]
  · obtain ⟨m, rfl, hm⟩ := hi h0
    have hq12 : qos = 1 ∨ qos = 2 := by omega
    obtain ⟨hlt, _⟩ := pubHeader retain dup qos hq12
    unfold PublishF.encode byte
    have hne : (qos != 0) = true := by simp [h0]
    simp only [hne, ↓reduceIte, hlt, encodeString_ok topic ht, ok_bind, pure_ok, hpe, encode16_ok m hm,
      List.length_append, encS_length, enc16_length]
    simp only [h0, ↓reduceIte] at htot
    have : ¬ (2 + topic.utf8ByteSize + 2 + payload.bytes.length > 268435455) := by omega
    simp only [this, ↓reduceIte, Int.toNat_natCast, List.append_assoc]

/-- the standard's view of a PUBLISH request -/
def PublishF.abs (f : PublishF) : Spec.Packet :=
  .publish f.dup f.qos f.retain f.topic (f.msgId.map Int.toNat) f.payload.bytes

theorem pubHeader_spec (retain dup : Bool) (q : Nat) (hq : q < 3) (hd : q = 0 → dup = false) :
    0x30 ||| b2n retain ||| (q <<< 1) ||| (b2n dup <<< 3) = 3 * 16 + (Spec.bit dup * 8 + q * 2 + Spec.bit retain) := by
  have : q = 0 ∨ q = 1 ∨ q = 2 := by omega
  rcases this with rfl | rfl | rfl <;> cases retain <;> cases dup <;> first | decide | simp at hd

/-- C02 for PUBLISH: the bytes are the standard's encoding of the same packet -/
theorem PublishF.refines (v : Spec.Ver) (f : PublishF) (hv : f.Valid)
    (hid : ∀ i, f.msgId = some i → 1 ≤ i) :
    ∃ bs, f.encode = .ok bs ∧ Spec.encode v f.abs = some bs := by
  refine ⟨_, PublishF.encode_eq f hv, ?_⟩
  obtain ⟨topic, payload, qos, dup, retain, msgId⟩ := f
  obtain ⟨hq, ht, hn, hi, hp, htot⟩ := hv
  simp only at hq ht hn hi hp htot hid
  have hq2 : ¬ qos > 2 := by omega
  by_cases h0 : qos = 0
  · subst h0
    obtain ⟨rfl, rfl⟩ := hn rfl
    simp only [PublishF.abs, Spec.encode, str_eq topic ht, Option.map_none, bind, Option.bind, hq2, ↓reduceIte,
      Bool.false_eq_true, List.append_nil]
    rw [fixedHeader_eq _ _ _ (by simp at htot ⊢; omega)]
    simp only [List.length_append]
    congr 3
    cases retain <;> decide
  · obtain ⟨m, rfl, hm⟩ := hi h0
    have hm1 : 1 ≤ m := by have := hid m rfl; omega
    have hvid := validId_of m hm1 hm
    have hhdr := pubHeader_spec retain dup qos hq (fun h => absurd h h0)
    simp only [PublishF.abs, Spec.encode, str_eq topic ht, Option.map_some, Int.toNat_natCast, bind, Option.bind,
      hq2, ↓reduceIte]
    rcases qos with _ | q
    · exact absurd rfl h0
    · simp only [hvid, ↓reduceIte, u16_eq]
      rw [fixedHeader_eq _ _ _ (by simp at htot ⊢; omega), hhdr]
      simp only [List.length_append, List.append_assoc, Nat.add_assoc]

theorem byte_err {x : Nat} {e : Err} (h : byte x = .error e) : e = .value := by
  unfold byte at h; split at h <;> simp_all

theorem encodeString_err {s : String} {e : Err} (h : encodeString s = .error e) : e = .value := by
  unfold encodeString at h; simp only at h; split at h <;> simp_all

theorem encode16_err {i : Int} {e : Err} (h : encode16Int i = .error e) : e = .value := by
  unfold encode16Int at h; split at h <;> simp_all

/-- unsupported payload type: TypeError (or the ValueError of an earlier field), nothing encoded -/
theorem PublishF.encode_other (f : PublishF) (h : f.payload = .other) :
    ∃ e, f.encode = .error e ∧ e.isValueOrType = true := by
  unfold PublishF.encode
  split <;> rename_i hq
  · cases hb : byte (0x30 ||| b2n f.retain ||| f.qos <<< 1 ||| b2n f.dup <<< 3) with
    | error e => exact ⟨e, by simp, by rw [byte_err hb]; rfl⟩
    | ok hh =>
      cases ht : encodeString f.topic with
      | error e => exact ⟨e, by simp, by rw [encodeString_err ht]; rfl⟩
      | ok tt =>
        cases hmi : f.msgId with
        | none => exact ⟨.type, by simp, rfl⟩
        | some i =>
          cases hm : encode16Int i with
          | error e => exact ⟨e, by simp [hm], by rw [encode16_err hm]; rfl⟩
          | ok mm => exact ⟨.type, by simp [hm, h, Payload.toBytes], rfl⟩
  · cases ht : encodeString f.topic with
    | error e => exact ⟨e, by simp, by rw [encodeString_err ht]; rfl⟩
    | ok tt => exact ⟨.type, by simp [h, Payload.toBytes], rfl⟩

/-- over-long topic: ValueError -/
theorem PublishF.encode_long_topic (f : PublishF) (h : 65535 < f.topic.utf8ByteSize) (hq : f.qos < 3) :
    f.encode = .error .value := by
  have ht := encodeString_too_long f.topic h
  unfold PublishF.encode byte
  have : 0x30 ||| b2n f.retain ||| f.qos <<< 1 ||| b2n f.dup <<< 3 < 256 := by
    have : f.qos = 0 ∨ f.qos = 1 ∨ f.qos = 2 := by omega
    rcases this with h | h | h <;> rw [h] <;> cases f.retain <;> cases f.dup <;> decide
  split <;> simp [ht, this]

/-! ## SUBSCRIBE / UNSUBSCRIBE -/

def FiltersQValid (ts : List (String × Nat)) : Prop := ∀ p ∈ ts, p.1.utf8ByteSize ≤ 65535 ∧ p.2 < 3

theorem encTopicsQ_refines (ts : List (String × Nat)) (h : FiltersQValid ts) :
    ∃ bs, encTopicsQ ts = .ok bs ∧ Spec.filtersQ ts = some bs := by
  induction ts with
  | nil => exact ⟨[], rfl, rfl⟩
  | cons p t ih =>
    obtain ⟨s, q⟩ := p
    have hp := h (s, q) (by simp)
    obtain ⟨bs, he, hs⟩ := ih (fun p hp => h p (by simp [hp]))
    refine ⟨encS s ++ [q] ++ bs, ?_, ?_⟩
    · unfold encTopicsQ byte
      have : q < 256 := by omega
      simp [encodeString_ok s hp.1, this, he]
    · unfold Spec.filtersQ
      have : q ≤ 2 := by omega
      simp [str_eq s hp.1, hs, this, bind, Option.bind]

theorem encTopics_refines (ts : List String) (h : TopicsValid ts) :
    ∃ bs, encTopics ts = .ok bs ∧ Spec.filters ts = some bs := by
  induction ts with
  | nil => exact ⟨[], rfl, rfl⟩
  | cons s t ih =>
    have hp := h s (by simp)
    obtain ⟨bs, he, hs⟩ := ih (fun p hp => h p (by simp [hp]))
    refine ⟨encS s ++ bs, ?_, ?_⟩
    · unfold encTopics
      simp [encodeString_ok s hp, he]
    · unfold Spec.filters
      simp [str_eq s hp, hs, bind, Option.bind]

/-- C02 for SUBSCRIBE (first transmission; total length within the protocol limit) -/
theorem SubscribeF.refines (v : Spec.Ver) (m : Nat) (ts : List (String × Nat)) (h1 : 1 ≤ m) (hm : m < 65536)
    (ht : FiltersQValid ts) (hne : ts ≠ [])
    (hlen : ∀ bs, encTopicsQ ts = .ok bs → 2 + bs.length < 268435456) :
    ∃ bs, (SubscribeF.mk m ts).encode = .ok bs ∧ Spec.encode v (.subscribe false m ts) = some bs := by
  obtain ⟨tb, he, hs⟩ := encTopicsQ_refines ts ht
  have hl := hlen tb he
  have hflags : Spec.ackFlags v false = some 2 := by cases v <;> rfl
  have hemp : ts.isEmpty = false := by cases ts <;> simp_all
  refine ⟨[0x82] ++ encodeLength (2 + tb.length) ++ (enc16 m ++ tb), ?_, ?_⟩
  · unfold SubscribeF.encode
    simp only [encode16_ok m hm, he, ok_bind, pure_ok, enc16_length, List.append_assoc]
  · simp only [Spec.encode, hflags, hs, validId_of m h1 hm, hemp, bind, Option.bind, Bool.not_false, Bool.and_self,
      ↓reduceIte, u16_eq]
    rw [fixedHeader_eq _ _ _ (by simpa using hl)]
    simp

/-- C02 for UNSUBSCRIBE -/
theorem UnsubscribeF.refines (v : Spec.Ver) (m : Nat) (ts : List String) (h1 : 1 ≤ m) (hm : m < 65536)
    (ht : TopicsValid ts) (hne : ts ≠ [])
    (hlen : ∀ bs, encTopics ts = .ok bs → 2 + bs.length < 268435456) :
    ∃ bs, (UnsubscribeF.mk m ts).encode = .ok bs ∧ Spec.encode v (.unsubscribe false m ts) = some bs := by
  obtain ⟨tb, he, hs⟩ := encTopics_refines ts ht
  have hl := hlen tb he
  have hflags : Spec.ackFlags v false = some 2 := by cases v <;> rfl
  have hemp : ts.isEmpty = false := by cases ts <;> simp_all
  refine ⟨[0xA2] ++ encodeLength (2 + tb.length) ++ (enc16 m ++ tb), ?_, ?_⟩
  · unfold UnsubscribeF.encode
    simp only [encode16_ok m hm, he, ok_bind, pure_ok, enc16_length, List.append_assoc]
  · simp only [Spec.encode, hflags, hs, validId_of m h1 hm, hemp, bind, Option.bind, Bool.not_false, Bool.and_self,
      ↓reduceIte, u16_eq]
    rw [fixedHeader_eq _ _ _ (by simpa using hl)]
    simp

/-! ## retransmission: the DUP bit patched into the first byte (`encoded[0] |= dup << 3`) -/

/-- PUBLISH: patching DUP into an encoded QoS>0 packet gives the encoding of the same packet with DUP set -/
theorem dup_patch_publish (retain dup0 dup : Bool) (q : Nat) (hq : q = 1 ∨ q = 2) :
    (0x30 ||| b2n retain ||| (q <<< 1) ||| (b2n dup0 <<< 3)) ||| (b2n dup <<< 3) =
      0x30 ||| b2n retain ||| (q <<< 1) ||| (b2n (dup0 || dup) <<< 3) := by
  rcases hq with rfl | rfl <;> cases retain <;> cases dup0 <;> cases dup <;> decide

/-- SUBSCRIBE (0x82), UNSUBSCRIBE (0xA2), PUBREL (0x62) under 3.1: the patched byte is the 3.1
    header with DUP; under 3.1.1 the byte is never patched (see `Handlers`). -/
theorem dup_patch_v31 (dup0 dup : Bool) :
    (((0x82 : Nat) ||| (b2n dup0 <<< 3)) ||| (b2n dup <<< 3) = 8 * 16 + (Spec.bit (dup0 || dup) * 8 + 2)) ∧
    (((0xA2 : Nat) ||| (b2n dup0 <<< 3)) ||| (b2n dup <<< 3) = 10 * 16 + (Spec.bit (dup0 || dup) * 8 + 2)) ∧
    (((0x62 : Nat) ||| (b2n dup0 <<< 3)) ||| (b2n dup <<< 3) = 6 * 16 + (Spec.bit (dup0 || dup) * 8 + 2)) := by
  cases dup0 <;> cases dup <;> decide

/-! ## CONNECT -/

theorem connFlags_spec (cs hw wr u p : Bool) (wq : Nat) (hwq : wq < 3) :
    (let f0 := b2n cs <<< 1
     let f1 := if hw then f0 ||| (0x04 ||| (b2n wr <<< 5) ||| (wq <<< 3)) else f0
     let f2 := if u then f1 ||| 0x80 else f1
     if p then f2 ||| 0x40 else f2) =
    Spec.bit cs * 2 + (if hw then 4 + wq * 8 + Spec.bit wr * 32 else 0) + Spec.bit p * 64 + Spec.bit u * 128 := by
  have : wq = 0 ∨ wq = 1 ∨ wq = 2 := by omega
  rcases this with rfl | rfl | rfl <;> cases cs <;> cases hw <;> cases wr <;> cases u <;> cases p <;> decide

theorem ConnectF.flags_spec (f : ConnectF) (h : f.willQoS < 3) :
    f.flags = Spec.bit f.cleanStart * 2 + (if f.hasWill then 4 + f.willQoS * 8 + Spec.bit f.willRetain * 32 else 0)
      + Spec.bit f.password.isSome * 64 + Spec.bit f.username.isSome * 128 :=
  connFlags_spec f.cleanStart f.hasWill f.willRetain f.username.isSome f.password.isSome f.willQoS h

/-- the standard's view of a CONNECT request -/
def ConnectF.abs (f : ConnectF) : Spec.Packet :=
  .connect f.clientId f.keepalive.toNat f.cleanStart
    (match f.willTopic, f.willMessage with
     | some t, some m => some ⟨t, m, f.willQoS, f.willRetain⟩
     | _, _ => none)
    f.username (f.password.map utf8)

/-- the bytes CONNECT.encode produces for a valid assignment, explicitly -/
theorem ConnectF.encode_eq (f : ConnectF) (hv : f.Valid) :
    f.encode = .ok ([0x10] ++ encodeLength ((encS f.version.tag ++ ([f.version.level] ++ ([f.flags] ++ enc16 f.keepalive.toNat))).length +
      (encS f.clientId ++ ((if f.hasWill = true then encOpt f.willTopic ++ encOpt f.willMessage else []) ++
        (encOpt f.username ++ encOpt f.password))).length) ++
      ((encS f.version.tag ++ ([f.version.level] ++ ([f.flags] ++ enc16 f.keepalive.toNat))) ++
       (encS f.clientId ++ ((if f.hasWill = true then encOpt f.willTopic ++ encOpt f.willMessage else []) ++
        (encOpt f.username ++ encOpt f.password))))) := by
  obtain ⟨hver, hka, hcid, hwq, hwill, hwt, hwm, hu, hp⟩ := hv
  obtain ⟨htag, hlvl, hvdec⟩ := version_facts f.version hver
  have hkan : f.keepalive = ((f.keepalive.toNat : Nat) : Int) := by omega
  have hka' : f.keepalive.toNat < 65536 := by omega
  obtain ⟨hfl, _⟩ := ConnectF.flags_facts f (by omega)
  unfold ConnectF.encode byte
  rw [encodeString_ok _ htag]
  simp only [ok_bind, hlvl, hfl, ↓reduceIte, pure_ok]
  rw [hkan, encode16_ok _ hka', ← hkan]
  simp only [ok_bind, encodeString_ok f.clientId hcid, encOptString_ok f.username hu, encOptString_ok f.password hp]
  by_cases hw : f.hasWill = true
  · simp only [hw, ↓reduceIte, encOptString_ok f.willTopic hwt, encOptString_ok f.willMessage hwm, ok_bind,
      List.append_assoc]
  · simp only [hw, Bool.false_eq_true, ↓reduceIte, List.append_assoc, List.nil_append]

theorem optStr_eq (o : Option String) (h : optSize o ≤ 65535) : Spec.optStr o = some (encOpt o) := by
  cases o with
  | none => rfl
  | some s => exact str_eq s h

theorem optBin_eq (o : Option String) (h : optSize o ≤ 65535) : Spec.optBin (o.map utf8) = some (encOpt o) := by
  cases o with
  | none => rfl
  | some s =>
    simp only [Option.map_some, Spec.optBin, Spec.bin, encOpt, encS]
    have : (utf8 s).length ≤ 65535 := by rw [utf8_length]; exact h
    simp [this, u16_eq, enc16]

theorem specVer_facts (v : Version) (h : v = v31 ∨ v = v311) :
    Spec.protocolName (specVer v) = v.tag ∧ Spec.protocolLevel (specVer v) = v.level := by
  rcases h with rfl | rfl <;> decide

theorem encOpt_some (s : String) : encOpt (some s) = encS s := rfl
theorem encOpt_none : encOpt none = [] := rfl

/-- variable header and payload of a CONNECT, right-nested -/
def ConnectF.body (f : ConnectF) : Bytes :=
  encS f.version.tag ++ ([f.version.level] ++ ([f.flags] ++ (enc16 f.keepalive.toNat ++
    (encS f.clientId ++ ((if f.hasWill = true then encOpt f.willTopic ++ encOpt f.willMessage else []) ++
      (encOpt f.username ++ encOpt f.password))))))

theorem ConnectF.encode_eq' (f : ConnectF) (hv : f.Valid) :
    f.encode = .ok ([0x10] ++ encodeLength f.body.length ++ f.body) := by
  rw [ConnectF.encode_eq f hv, ← List.length_append]
  simp only [ConnectF.body, List.append_assoc]

/-- C02 for CONNECT: valid arguments (as `_checkConnect` admits them) give the standard's bytes -/
theorem ConnectF.refines (f : ConnectF) (hv : f.Valid) (hup : f.password.isSome → f.username.isSome)
    (hlen : f.body.length < 268435456) :
    ∃ bs, f.encode = .ok bs ∧ Spec.encode (specVer f.version) f.abs = some bs := by
  refine ⟨_, ConnectF.encode_eq' f hv, ?_⟩
  have hfs := ConnectF.flags_spec f hv.willQoS
  obtain ⟨hver, hka, hcid, hwq, hwill, hwt, hwm, hu, hp⟩ := hv
  obtain ⟨htag, hlvl, hvdec⟩ := version_facts f.version hver
  obtain ⟨hname, hlevel⟩ := specVer_facts f.version hver
  have hka' : ¬ f.keepalive.toNat > 65535 := by omega
  have hupb : (f.username.isNone && (f.password.map utf8).isSome) = false := by
    cases hu' : f.username <;> cases hp' : f.password <;> simp_all
  generalize hb : f.body = body at hlen ⊢
  obtain ⟨cid, ka, wt, wm, wq, wr, user, pass, cs, ver⟩ := f
  simp only at *
  simp only [ConnectF.abs, Spec.encode, hname, hlevel, str_eq _ htag, hka', hupb, bind, Option.bind, ↓reduceIte,
    Bool.false_eq_true, str_eq cid hcid, optStr_eq user hu, optBin_eq pass hp]
  rcases wt with _ | wt <;> rcases wm with _ | wm <;> simp at hwill
  · simp only [ConnectF.hasWill, Option.isSome_none, Bool.and_self, Bool.false_eq_true, ↓reduceIte, Nat.add_zero,
      Option.isSome_map] at hfs ⊢
    rw [← hfs, u16_eq]
    have : body = _ := hb.symm
    simp only [ConnectF.body, ConnectF.hasWill, Option.isSome_none, Bool.and_self, Bool.false_eq_true, ↓reduceIte,
      List.nil_append] at this
    simp only [List.append_assoc, List.nil_append, ← this]
    rw [fixedHeader_eq _ _ _ hlen]
    simp
  · have hq2 : wq ≤ 2 := by omega
    simp only [optSize] at hwt hwm
    simp only [ConnectF.hasWill, Option.isSome_some, Bool.and_self, ↓reduceIte, hq2, str_eq wt hwt, str_eq wm hwm,
      Option.isSome_map] at hfs ⊢
    rw [← hfs, u16_eq]
    have : body = _ := hb.symm
    simp only [ConnectF.body, ConnectF.hasWill, Option.isSome_some, Bool.and_self, ↓reduceIte, encOpt_some,
      List.append_assoc] at this
    simp only [pure, List.append_assoc, ← this]
    rw [fixedHeader_eq _ _ _ hlen]
    simp

/-! ## packets the broker sends: the standard's bytes decode to the standard's fields -/

theorem remLen_some {n : Nat} {bs : Bytes} (h : Spec.remLen n = some bs) : n < 268435456 := by
  unfold Spec.remLen at h
  by_cases h4 : n < 268435456
  · exact h4
  · have h1 : ¬ n < 128 := by omega
    have h2 : ¬ n < 16384 := by omega
    have h3 : ¬ n < 2097152 := by omega
    simp [h1, h2, h3, h4] at h

theorem fixedHeader_some {t f : Nat} {body bs : Bytes} (h : Spec.fixedHeader t f body = some bs) :
    bs = [t * 16 + f] ++ encodeLength body.length ++ body := by
  have hl : body.length < 268435456 := by
    unfold Spec.fixedHeader at h
    cases hr : Spec.remLen body.length with
    | none => simp [hr, bind, Option.bind] at h
    | some r => exact remLen_some hr
  rw [fixedHeader_eq _ _ _ hl] at h
  injection h with h; exact h.symm

theorem validId_lt {i : Nat} (h : Spec.validId i = true) : 1 ≤ i ∧ i < 65536 := by
  simp [Spec.validId] at h; omega

theorem CONNACK_from_spec (v : Spec.Ver) (sp : Bool) (rc : Nat) (bs : Bytes)
    (h : Spec.encode v (.connack sp rc) = some bs) : ConnackF.decode bs = .ok ⟨sp, rc⟩ := by
  simp only [Spec.encode] at h
  split at h
  · have := fixedHeader_some h
    subst this
    unfold ConnackF.decode
    rw [body_encoded]
    cases sp <;> simp [first, Spec.bit]
  · simp at h

theorem ack_from_spec (v : Spec.Ver) (i : Nat) (bs : Bytes) :
    (Spec.encode v (.puback i) = some bs → decodeAck bs = .ok i) ∧
    (Spec.encode v (.pubrec i) = some bs → decodeAck bs = .ok i) ∧
    (Spec.encode v (.pubcomp i) = some bs → decodeAck bs = .ok i) ∧
    (Spec.encode v (.unsuback i) = some bs → decodeAck bs = .ok i) := by
  have key : ∀ t, (if Spec.validId i = true then Spec.fixedHeader t 0 (Spec.u16 i) else none) = some bs →
      decodeAck bs = .ok i := by
    intro t h
    split at h
    · rename_i hv
      have := fixedHeader_some h
      subst this
      unfold decodeAck
      rw [body_encoded, u16_eq]
      have := decode16_enc16 i (validId_lt hv).2 []
      simpa using this
    · simp at h
  exact ⟨key 4, key 5, key 7, key 11⟩

theorem PUBREL_from_spec (v : Spec.Ver) (dup : Bool) (i : Nat) (bs : Bytes)
    (h : Spec.encode v (.pubrel dup i) = some bs) : decodePUBREL bs = .ok (i, dup) := by
  simp only [Spec.encode, bind, Option.bind] at h
  cases hf : Spec.ackFlags v dup with
  | none => simp [hf] at h
  | some fl =>
    simp only [hf] at h
    split at h
    · rename_i hv
      have := fixedHeader_some h
      subst this
      unfold decodePUBREL
      rw [body_encoded, u16_eq]
      have hd := decode16_enc16 i (validId_lt hv).2 []
      simp only [List.append_nil] at hd
      simp only [ok_bind, hd, List.cons_append, List.nil_append, first, pure_ok]
      have : ((6 * 16 + fl) &&& 0x08 == 0x08) = dup := by
        cases v <;> cases dup <;> simp [Spec.ackFlags, Spec.bit] at hf <;> subst hf <;> decide
      rw [this]
    · simp at h

theorem granted_of_codes (codes : List Nat) (h : codes.all (fun c => c ≤ 2 || c == 128) = true) :
    codes.map (fun b => (b &&& 0x7F, (b &&& 0x80) == 0x80)) = codes.map (fun c => if c = 128 then (0, true) else (c, false)) := by
  induction codes with
  | nil => rfl
  | cons c t ih =>
    simp only [List.all_cons, Bool.and_eq_true, Bool.or_eq_true, decide_eq_true_eq, beq_iff_eq] at h
    simp only [List.map_cons, ih h.2]
    congr 1
    rcases h.1 with hc | hc
    · have : c = 0 ∨ c = 1 ∨ c = 2 := by omega
      rcases this with rfl | rfl | rfl <;> decide
    · subst hc; decide

/-- SUBACK: granted QoS 0/1/2 come back as (q, False), the failure code 0x80 as (0, True) -/
theorem SUBACK_from_spec (v : Spec.Ver) (i : Nat) (codes : List Nat) (bs : Bytes)
    (h : Spec.encode v (.suback i codes) = some bs) :
    SubackF.decode bs = .ok ⟨i, codes.map (fun c => if c = 128 then (0, true) else (c, false))⟩ := by
  simp only [Spec.encode] at h
  split at h
  · rename_i hv
    simp only [Bool.and_eq_true] at hv
    have := fixedHeader_some h
    subst this
    unfold SubackF.decode
    rw [body_encoded, u16_eq]
    have hd := decode16_enc16 i (validId_lt hv.1).2 codes
    have h2 : (enc16 i ++ codes).drop 2 = codes := by simp [enc16]
    simp only [ok_bind, hd, pure_ok, h2, granted_of_codes codes hv.2]
  · simp at h

theorem pubHeader_from_spec (dup retain : Bool) (qos : Nat) (hq : qos ≤ 2) :
    let h := 3 * 16 + (Spec.bit dup * 8 + qos * 2 + Spec.bit retain)
    ((h &&& 0x08) == 0x08) = dup ∧ ((h &&& 0x06) >>> 1) = qos ∧ ((h &&& 0x01) == 0x01) = retain := by
  have : qos = 0 ∨ qos = 1 ∨ qos = 2 := by omega
  rcases this with rfl | rfl | rfl <;> cases dup <;> cases retain <;> decide

/-- PUBLISH: the standard's bytes decode to the standard's fields -/
theorem PUBLISH_from_spec (v : Spec.Ver) (dup retain : Bool) (qos : Nat) (topic : String) (pid : Option Nat)
    (payload bs : Bytes) (h : Spec.encode v (.publish dup qos retain topic pid payload) = some bs) :
    PublishD.decode bs = .ok ⟨topic, payload, qos, dup, retain, pid⟩ := by
  simp only [Spec.encode, bind, Option.bind] at h
  cases hs : Spec.str topic with
  | none => simp [hs] at h
  | some tb =>
    have ht : topic.utf8ByteSize ≤ 65535 := by
      by_cases hh : topic.utf8ByteSize ≤ 65535
      · exact hh
      · rw [str_none topic (by omega)] at hs; simp at hs
    have hstr := str_eq topic ht
    simp only [hstr] at h
    by_cases hq : qos > 2
    · simp [hq] at h
    · simp only [hq, ↓reduceIte] at h
      obtain ⟨hdup, hqos, hret⟩ := pubHeader_from_spec dup retain qos (by omega)
      rcases qos with _ | q
      · -- QoS 0
        cases pid with
        | some i => simp at h
        | none =>
          cases dup with
          | true => simp at h
          | false =>
            simp only [Bool.false_eq_true, ↓reduceIte] at h
            have := fixedHeader_some h
            subst this
            unfold PublishD.decode
            rw [body_encoded]
            simp only [ok_bind, List.cons_append, List.nil_append, first, hdup, hqos, hret, List.append_nil,
              decodeString_encS topic ht, decode16_encS topic ht, bne_self_eq_false, Bool.false_eq_true, ↓reduceIte,
              pure_ok]
            have := encS_rest topic payload
            rw [Nat.add_comm] at this
            rw [this]
      · cases pid with
        | none => simp at h
        | some i =>
          simp only at h
          split at h
          · rename_i hv
            have := fixedHeader_some h
            subst this
            have hi := (validId_lt hv).2
            unfold PublishD.decode
            rw [body_encoded, u16_eq]
            have hne : ((q + 1) != 0) = true := by simp
            simp only [ok_bind, List.cons_append, List.nil_append, first, hdup, hqos, hret, List.append_assoc,
              decodeString_encS topic ht, decode16_encS topic ht, hne, ↓reduceIte, pure_ok]
            have h1 := encS_rest topic (enc16 i ++ payload)
            rw [Nat.add_comm] at h1
            have h2 : (encS topic ++ (enc16 i ++ payload)).drop (topic.utf8ByteSize + 4) = payload := by
              have : topic.utf8ByteSize + 4 = (encS topic ++ enc16 i).length := by simp; omega
              rw [this, ← List.append_assoc]; exact drop_append_self _ _
            rw [h1, h2]
            have h3 : (enc16 i ++ payload).take 2 = enc16 i := by simp [enc16]
            have h4 := decode16_enc16 i hi []
            simp only [List.append_nil] at h4
            rw [h3, h4]
            rfl
          · simp at h

end Mqtt
