import MqttVerif.Proofs.More
/-
  A decidable check of the environment assumptions, so that concrete histories can be shown to satisfy the
  hypotheses of the session theorems (non-vacuity) by kernel evaluation.
-/
namespace Mqtt

theorem Dict.mem_of_get? {α : Type} {d : Dict α} {k : Nat} {v : α} (h : d.get? k = some v) : (k, v) ∈ d := by
  induction d with
  | nil => simp [Dict.get?] at h
  | cons hd tl ih =>
    obtain ⟨a, b⟩ := hd
    simp only [Dict.get?] at h
    split at h
    · rename_i heq; injection h with h; subst h; subst heq; simp
    · exact List.mem_cons_of_mem _ (ih h)

def existsB (w : World) (p : Nat) : Bool := (w.protos.get? p).isSome
def liveB (w : World) (p : Nat) : Bool := match w.protos.get? p with | some pr => !pr.lost | none => false
def freeIdB (w : World) : Bool := (List.range 65536).any fun j => decide (1 ≤ j) && !idInUse w j

/-- a sufficient, computable version of `Env` (identifier freedom is checked on the first 64 identifiers only) -/
def envOk (w : World) : Op → Bool
  | .build a => w.protos.all fun kv => decide (kv.2.addr ≠ a) || kv.2.lost
  | .recv p d => liveB w p && d.all (fun b => decide (b < 256))
  | .lost p _ => liveB w p
  | .connect p _ => liveB w p
  | .fire _ => true
  | .setid _ => false
  | .jit v => decide (0 ≤ v) && decide (v < 1)
  | .sethandlers p _ => existsB w p
  | .disconnect p => existsB w p
  | .publish p _ _ _ _ => existsB w p && (List.range 64).any fun j => decide (1 ≤ j) && !idInUse w j
  | .subscribe p _ _ => existsB w p && (List.range 64).any fun j => decide (1 ≤ j) && !idInUse w j
  | .unsubscribe p _ => existsB w p && (List.range 64).any fun j => decide (1 ≤ j) && !idInUse w j
  | .setwin p _ => existsB w p
  | .settimeout p _ => existsB w p
  | .setbw p _ _ => existsB w p

theorem existsB_sound {w : World} {p : Nat} (h : existsB w p = true) : Exists w p := by
  simp only [existsB] at h
  cases hg : w.protos.get? p with
  | none => rw [hg] at h; cases h
  | some pr => exact ⟨pr, hg⟩

theorem liveB_sound {w : World} {p : Nat} (h : liveB w p = true) : Live w p := by
  simp only [liveB] at h
  cases hg : w.protos.get? p with
  | none => rw [hg] at h; cases h
  | some pr => rw [hg] at h; exact ⟨pr, hg, by simpa using h⟩

theorem freeId_sound {w : World} (h : ((List.range 64).any fun j => decide (1 ≤ j) && !idInUse w j) = true) : FreeId w := by
  simp only [List.any_eq_true, List.mem_range, Bool.and_eq_true, decide_eq_true_eq, Bool.not_eq_true'] at h
  obtain ⟨j, hj, h1, h2⟩ := h
  exact ⟨j, h1, by omega, h2⟩

theorem envOk_sound {w : World} {op : Op} (h : envOk w op = true) : Env w op := by
  cases op with
  | build a =>
    simp only [envOk, List.all_eq_true, Bool.or_eq_true, decide_eq_true_eq] at h
    intro p pr hp ha
    rcases h (p, pr) (Dict.mem_of_get? hp) with h1 | h1
    · exact absurd ha h1
    · exact h1
  | recv p d =>
    simp only [envOk, Bool.and_eq_true, List.all_eq_true, decide_eq_true_eq] at h
    exact ⟨liveB_sound h.1, h.2⟩
  | lost p r => exact liveB_sound h
  | connect p a => exact liveB_sound h
  | fire t => trivial
  | setid v => cases h
  | jit v => simp only [envOk, Bool.and_eq_true, decide_eq_true_eq] at h; exact h
  | sethandlers p m => exact existsB_sound h
  | disconnect p => exact existsB_sound h
  | publish p t pl q r => simp only [envOk, Bool.and_eq_true] at h; exact ⟨existsB_sound h.1, freeId_sound h.2⟩
  | subscribe p a q => simp only [envOk, Bool.and_eq_true] at h; exact ⟨existsB_sound h.1, freeId_sound h.2⟩
  | unsubscribe p a => simp only [envOk, Bool.and_eq_true] at h; exact ⟨existsB_sound h.1, freeId_sound h.2⟩
  | setwin p n => exact existsB_sound h
  | settimeout p n => exact existsB_sound h
  | setbw p b f => exact existsB_sound h

def envRunOk : World → List Op → Bool
  | _, [] => true
  | w, op :: rest => envOk w op && envRunOk (step w op) rest

theorem envRunOk_sound : ∀ (ops : List Op) (w : World), envRunOk w ops = true → EnvRun w ops := by
  intro ops
  induction ops with
  | nil => intro w _; trivial
  | cons op rest ih =>
    intro w h
    simp only [envRunOk, Bool.and_eq_true] at h
    exact ⟨envOk_sound h.1, ih _ h.2⟩

/-! ### a concrete history with requests of every kind in flight, a refused and an accepted handshake, retransmissions,
    garbage, a persistent reconnect and a clean loss: it satisfies the environment assumptions (so the hypotheses of the
    session theorems are satisfiable along it) and, as `no_escape` demands, its log contains no escaped exception -/

def cargs (ka : Int) (clean : Bool) : ConnectArgs := { clientId := "c", keepalive := ka, version := .v311, cleanStart := clean }

def demo : List Op :=
  [ .build 0, .sethandlers 0 7, .connect 0 (cargs 5 false), .recv 0 [0x20, 2, 0, 5],           -- refused
    .connect 0 (cargs 5 false), .publish 0 (.str "a") (.bytearray [1]) 1 false,                -- publish while connecting
    .recv 0 [0x20, 2, 0, 0],                                                                    -- accepted: keepalive on
    .setwin 0 (.int 2), .publish 0 (.str "b") (.bytearray [2]) 2 false, .publish 0 (.str "c") (.str "x") 1 true,
    .publish 0 (.str "q0") (.bytearray []) 0 false,
    .subscribe 0 (.tuple (.str "s/#") 1) 0, .unsubscribe 0 (.list [.str "u"]),
    .recv 0 [0x40, 2, 0], .recv 0 [1],                                                          -- PUBACK 1 in two chunks
    .recv 0 [0x50, 2, 0, 2],                                                                    -- PUBREC 2
    .fire 3, .fire 9,                                                                           -- some timers (whatever they are)
    .recv 0 [0xF0, 0, 0x90, 3, 0, 4, 1],                                                        -- garbage, then SUBACK 4
    .recv 0 [0x32, 5, 0, 1, 0x74, 0, 9, 0x41], .recv 0 [0x62, 2, 0, 9], .recv 0 [0x62, 2, 0, 9], -- inbound QoS 1 id 9, PUBREL twice
    .lost 0 .connLost,                                                                          -- persistent loss
    .build 0, .connect 1 (cargs 0 false), .recv 1 [0x20, 2, 1, 0],                              -- resume
    .recv 1 [0x70, 2, 0, 2], .disconnect 1, .lost 1 .connDone,
    .build 0, .connect 2 (cargs 0 true), .recv 2 [0x20, 2, 0, 0], .publish 2 (.str "z") (.bytearray [3]) 1 false,
    .lost 2 .connAborted ]                                                                      -- clean loss

theorem demo_env : EnvRun (World.init 3) demo := envRunOk_sound demo (World.init 3) (by decide +kernel)

theorem demo_inv : WInv (run (World.init 3) demo) := reachable_inv 3 (Or.inr (Or.inr rfl)) demo demo_env

/-- what the theorems promise is visible on this history: no escaped exception, requests really were in flight, Deferreds fired,
    the clean loss left nothing behind -/
example : ((run (World.init 3) demo).log.filter fun o => match o with | .esc _ => true | _ => false) = [] ∧
    (run (World.init 3) demo).ents = [] ∧ 8 ≤ (run (World.init 3) demo).fired.length ∧
    18 ≤ ((run (World.init 3) demo).log.filter fun o => match o with | .write _ _ => true | _ => false).length := by decide +kernel

end Mqtt
