import MqttVerif.Proofs.Trace
/-
  What a handler may append to the observation log, as a policy: which transports it may write to
  or close (`w`), which protocols it may abort / deliver to / notify (`t`), and whether it may make a
  Deferred succeed (`succ`).  Proven compositionally for every handler, with no invariant and no
  environment assumption.
-/
namespace Mqtt

structure Pol where
  w : Nat → Bool
  t : Nat → Bool
  succ : Bool

def Pol.ok (π : Pol) : Obs → Bool
  | .write q _ => π.w q
  | .close q => π.w q
  | .abort q => π.t q
  | .pub q _ => π.t q
  | .onConn q => π.t q
  | .fired _ (.ok _) => π.succ
  | _ => true

/-- the log only grows, and by observations the policy allows -/
def Emits (π : Pol) (s : Step) : Prop := ∀ w, ∃ l, (s w).1.log = w.log ++ l ∧ ∀ o ∈ l, π.ok o = true

variable {π : Pol}

theorem em_ok : Emits π Step.ok := fun _ => ⟨[], by simp [Step.ok], by simp⟩
theorem em_raise (e : Err) : Emits π (Step.raise e) := fun _ => ⟨[], by simp [Step.raise], by simp⟩
theorem em_seq {a b : Step} (ha : Emits π a) (hb : Emits π b) : Emits π (a ;; b) := by
  intro w
  obtain ⟨l1, a1, a2⟩ := ha w
  simp only [Step.seq]
  rcases hw : a w with ⟨w1, _ | e⟩
  · rw [hw] at a1
    obtain ⟨l2, b1, b2⟩ := hb w1
    refine ⟨l1 ++ l2, by rw [b1, a1, List.append_assoc], fun o ho => ?_⟩
    rcases List.mem_append.mp ho with ho | ho
    · exact a2 o ho
    · exact b2 o ho
  · rw [hw] at a1; exact ⟨l1, a1, a2⟩
theorem em_read {f : World → Step} (hf : ∀ w, Emits π (f w)) : Emits π (Step.read f) := fun w => hf w w
theorem em_mod {f : World → World} (hf : ∀ w, (f w).log = w.log) : Emits π (Step.mod f) :=
  fun w => ⟨[], by simp [Step.mod, hf w], by simp⟩
theorem em_writes {p : Nat} {f : World → World} (hf : WritesOn p f) (hp : π.w p = true) : Emits π (Step.mod f) := by
  intro w
  obtain ⟨_, l, f2, f3⟩ := hf w
  refine ⟨l, f2, fun o ho => ?_⟩
  obtain ⟨bs, rfl⟩ := f3 o ho
  exact hp
theorem em_emit (o : Obs) (ho : π.ok o = true) : Emits π (emit o) :=
  fun _ => ⟨[o], rfl, fun o' ho' => by rw [List.mem_singleton.mp ho']; exact ho⟩
theorem em_setProto (p : Nat) (f : Proto → Proto) : Emits π (setProto p f) := em_mod fun _ => rfl
theorem em_setEnts (f : List Ent → List Ent) : Emits π (setEnts f) := em_mod fun _ => rfl
theorem em_setReq (r : Nat) (f : Req → Req) : Emits π (setReq r f) := em_mod fun _ => rfl
theorem em_write (p : Nat) (b : Bytes) (hp : π.w p = true) : Emits π (write p b) := em_emit _ hp
theorem em_callLater (d : Rat) (k : TKind) {c : Nat → Step} (hc : ∀ t, Emits π (c t)) : Emits π (callLater d k c) :=
  em_read fun _ => em_seq (em_mod fun _ => rfl) (hc _)
theorem em_newDfd {c : Nat → Step} (hc : ∀ t, Emits π (c t)) : Emits π (newDfd c) :=
  em_read fun _ => em_seq (em_mod fun _ => rfl) (hc _)
theorem em_makeId {c : Nat → Step} (hc : ∀ t, Emits π (c t)) : Emits π (makeId c) :=
  em_read fun _ => em_seq (em_mod fun _ => rfl) (hc _)
theorem em_cancelTimer (t : Nat) : Emits π (cancelTimer t) := by
  apply em_read; intro w
  split
  · exact em_raise _
  · split
    · exact em_mod fun _ => rfl
    · exact em_raise _
    · exact em_raise _
theorem em_cancelAlarm (a : Option Nat) : Emits π (cancelAlarm a) := by
  cases a with
  | none => exact em_raise _
  | some t => exact em_cancelTimer t
theorem em_fireDfd (d : Nat) (o : Outcome) (ho : π.ok (.fired d o) = true) : Emits π (fireDfd d o) := by
  apply em_read; intro w
  split
  · exact em_raise _
  · exact em_seq (em_mod fun _ => rfl) (em_emit _ ho)
theorem em_fireReqDfd (d : Option Nat) (o : Outcome) (ho : ∀ d, π.ok (.fired d o) = true) : Emits π (fireReqDfd d o) := by
  cases d with
  | none => exact em_raise _
  | some d => exact em_fireDfd d o (ho d)
theorem em_forEach {α : Type} (l : List α) {f : α → Step} (hf : ∀ a, Emits π (f a)) : Emits π (forEach l f) := by
  induction l with
  | nil => exact em_ok
  | cons a r ih => exact em_seq (hf a) ih
theorem em_refill (p : Nat) (hp : π.w p = true) : Emits π (refill p) := by
  intro w
  exact em_writes (refillW_writes p false _) hp w
theorem em_retryPublish (p rid : Nat) (dup : Bool) (hp : π.w p = true) : Emits π (retryPublish p rid dup) := em_writes (retryPublishW_writes p rid dup) hp
theorem em_retryRelease (p rid : Nat) (dup : Bool) (hp : π.w p = true) : Emits π (retryRelease p rid dup) := em_writes (retryReleaseW_writes p rid dup) hp
theorem em_retrySubUnsub (p rid : Nat) (dup s : Bool) (hp : π.w p = true) : Emits π (retrySubUnsub p rid dup s) := em_writes (retrySubUnsubW_writes p rid dup s) hp
theorem em_syncSession (p : Nat) (hp : π.w p = true) : Emits π (syncSession p) := em_writes (syncW_writes p) hp

/-- structural descent; what it cannot settle (side conditions on the policy) is left to the caller -/
macro "em_step" : tactic => `(tactic| first
  | with_reducible exact em_ok | with_reducible exact em_raise _
  | with_reducible exact em_setEnts _ | with_reducible exact em_setReq _ _ | with_reducible exact em_setProto _ _
  | with_reducible exact em_cancelTimer _ | with_reducible exact em_cancelAlarm _
  | with_reducible apply em_emit | with_reducible apply em_write | with_reducible apply em_fireDfd
  | (with_reducible apply em_fireReqDfd; intro d)
  | with_reducible apply em_refill | with_reducible apply em_retryPublish | with_reducible apply em_retryRelease
  | with_reducible apply em_retrySubUnsub | with_reducible apply em_syncSession
  | (with_reducible apply em_mod; intro w; rfl)
  | with_reducible apply em_seq | (with_reducible apply em_read; intro w) | (with_reducible apply em_callLater; intro t)
  | (with_reducible apply em_newDfd; intro t) | (with_reducible apply em_makeId; intro t)
  | (with_reducible apply em_forEach; intro e)
  | split
  | dsimp only)

/-- side conditions: the policy allows the observation -/
macro "em_side" : tactic => `(tactic| first | (with_reducible rfl) | (simp only [Pol.ok, *]))

macro "em" : tactic => `(tactic| (repeat' em_step) <;> em_side)

/-! ### the handlers -/

theorem em_deliver (p : Nat) (m : RxMsg) (ht : π.t p = true) : Emits π (deliver p m) := by unfold deliver; em
theorem em_purgeSession (p : Nat) (r : Err) : Emits π (purgeSession p r) := by unfold purgeSession purgeWindow; em
theorem em_mqttConnectionMade (p : Nat) (hw : π.w p = true) (ht : π.t p = true) : Emits π (mqttConnectionMade p) := by
  unfold mqttConnectionMade
  apply em_read; intro w
  apply em_seq
  · split
    · exact em_purgeSession _ _
    · exact em_syncSession _ hw
  · em
theorem em_doPingRequest (p : Nat) (hw : π.w p = true) : Emits π (doPingRequest p) := by unfold doPingRequest; em
theorem em_ping (p : Nat) (hw : π.w p = true) : Emits π (ping p) := by
  unfold ping; apply em_read; intro w; split
  · exact em_doPingRequest p hw
  · exact em_raise _
theorem em_loopRun (p : Nat) (hw : π.w p = true) : Emits π (loopRun p) := by
  intro w
  obtain ⟨l1, a1, a2⟩ := em_ping (π := π) p hw w
  simp only [loopRun]
  rcases hr : ping p w with ⟨w1, _ | e⟩
  · rw [hr] at a1
    simp only []
    have : Emits π (Step.read fun w =>
      match (w.proto p).pingTimer with
      | some l =>
        if l.running then
          callLater l.interval (.pingLoop p) fun tid =>
            setProto p (fun pr => { pr with pingTimer := (pr.pingTimer.map fun l => { l with call := some tid }) })
        else Step.ok
      | none => Step.ok) := by em
    obtain ⟨l2, b1, b2⟩ := this w1
    refine ⟨l1 ++ l2, b1.trans (by rw [a1, List.append_assoc]), fun o ho => ?_⟩
    rcases List.mem_append.mp ho with ho | ho
    · exact a2 o ho
    · exact b2 o ho
  · rw [hr] at a1
    simp only []
    obtain ⟨l2, b1, b2⟩ := em_setProto (π := π) p (fun pr => { pr with pingTimer := (pr.pingTimer.map fun l => { l with running := false, call := none }) }) w1
    refine ⟨l1 ++ l2, b1.trans (by rw [a1, List.append_assoc]), fun o ho => ?_⟩
    rcases List.mem_append.mp ho with ho | ho
    · exact a2 o ho
    · exact b2 o ho
theorem em_loopStop (p : Nat) : Emits π (loopStop p) := by unfold loopStop; em
theorem em_handleCONNACK (p : Nat) (s : Bool) (rc : Nat) (hw : π.w p = true) (ht : π.t p = true) (hs : π.succ = true) :
    Emits π (handleCONNACK p s rc) := by
  unfold handleCONNACK
  apply em_read; intro w
  split
  · em
  · split
    · em
    · split
      · em
      · apply em_seq (em_cancelTimer _)
        apply em_seq
        · split
          · apply em_seq (by em)
            apply em_seq (em_mqttConnectionMade p hw ht)
            apply em_seq
            · split
              · exact em_seq (by em) (em_loopRun p hw)
              · exact em_ok
            · em
          · em
        · em
theorem em_handlePINGRESP (p : Nat) : Emits π (handlePINGRESP p) := by unfold handlePINGRESP; em
theorem em_handleSubUnsubAck (p : Nat) (b : Bool) (m : Nat) (v : Val) (hs : π.succ = true) : Emits π (handleSubUnsubAck p b m v) := by
  unfold handleSubUnsubAck; em
theorem em_handlePUBLISH (p : Nat) (m : RxMsg) (hw : π.w p = true) (ht : π.t p = true) : Emits π (handlePUBLISH p m) := by
  unfold handlePUBLISH
  split
  · exact em_deliver p m ht
  · split
    · split
      · exact em_seq (em_write _ _ hw) (em_deliver p m ht)
      · em
    · em
theorem em_handlePUBREL (p : Nat) (m : Nat) (hw : π.w p = true) (ht : π.t p = true) : Emits π (handlePUBREL p m) := by
  unfold handlePUBREL
  apply em_read; intro w
  apply em_seq
  · split
    · em
    · exact em_seq (by em) (em_deliver p _ ht)
  · em
theorem em_handlePUBACK (p : Nat) (m : Nat) (hw : π.w p = true) (hs : π.succ = true) : Emits π (handlePUBACK p m) := by
  unfold handlePUBACK; em
theorem em_handlePUBREC (p : Nat) (m : Nat) (hw : π.w p = true) : Emits π (handlePUBREC p m) := by unfold handlePUBREC; em
theorem em_handlePUBCOMP (p : Nat) (m : Nat) (hw : π.w p = true) (hs : π.succ = true) : Emits π (handlePUBCOMP p m) := by
  unfold handlePUBCOMP; em

theorem em_processPacket (p : Nat) (pkt : Bytes) (hw : π.w p = true) (ht : π.t p = true) (hs : π.succ = true) :
    Emits π (processPacket p pkt) := by
  unfold processPacket abort
  split
  · em
  · rename_i h0 rest
    dsimp only
    have hnib := nibble_lt h0
    generalize (h0 &&& 0xF0) >>> 4 = t at hnib ⊢
    split
    · em
    · split
      · em
      · apply em_read; intro w
        have : t = 0 ∨ t = 1 ∨ t = 2 ∨ t = 3 ∨ t = 4 ∨ t = 5 ∨ t = 6 ∨ t = 7 ∨ t = 8 ∨ t = 9 ∨ t = 10 ∨ t = 11 ∨ t = 12 ∨
            t = 13 ∨ t = 14 ∨ t = 15 := by omega
        rcases this with rfl | rfl | rfl | rfl | rfl | rfl | rfl | rfl | rfl | rfl | rfl | rfl | rfl | rfl | rfl | rfl
        all_goals (try simp only [])
        all_goals (try (with_reducible split))
        all_goals (try (with_reducible split))
        all_goals first
          | ((with_reducible refine em_emit (Obs.abort p) ?_); exact ht)
          | with_reducible first
          | exact em_ok | exact em_handleCONNACK _ _ _ hw ht hs | exact em_handlePINGRESP _
          | exact em_handleSubUnsubAck _ _ _ _ hs
          | exact em_handlePUBLISH _ _ hw ht | exact em_handlePUBACK _ _ hw hs | exact em_handlePUBREC _ _ hw
          | exact em_handlePUBREL _ _ hw ht | exact em_handlePUBCOMP _ _ hw hs

theorem em_accumulate (p : Nat) (fuel : Nat) (hw : π.w p = true) (ht : π.t p = true) (hs : π.succ = true) :
    Emits π (accumulate p fuel) := by
  induction fuel with
  | zero => exact em_ok
  | succ f ih =>
    unfold accumulate
    apply em_read; intro w
    split
    · exact em_ok
    · exact em_seq (em_processPacket _ _ hw ht hs) (em_seq (by em) ih)

/-- **dataReceived on protocol `p` writes to, aborts, and delivers to `p` only** -/
theorem em_dataReceived (p : Nat) (d : Bytes) (hw : π.w p = true) (ht : π.t p = true) (hs : π.succ = true) :
    Emits π (dataReceived p d) := by
  unfold dataReceived
  apply em_seq (by em)
  apply em_read; intro w
  exact em_accumulate _ _ hw ht hs

theorem em_drainQueue (p : Nat) (r : Err) (fuel : Nat) : Emits π (drainQueue p r fuel) := by
  induction fuel with
  | zero => exact em_ok
  | succ f ih =>
    unfold drainQueue
    apply em_read; intro w
    split
    · exact em_ok
    · exact em_seq (by em) (em_seq (by em) ih)

/-- **connectionLost writes nothing, touches no transport and makes no Deferred succeed** (whatever the policy) -/
theorem em_connectionLost (p : Nat) (r : Err) : Emits π (connectionLost p r) := by
  unfold connectionLost
  apply em_read; intro w
  apply em_seq
  · split
    · exact em_ok
    · exact em_seq (em_loopStop p) (by em)
  apply em_seq (by em)
  apply em_seq
  · unfold doConnectionLost cancelWindowAlarms failWindow
    apply em_read; intro w
    apply em_seq (by em)
    apply em_seq (by em)
    apply em_seq (by em)
    apply em_seq (by em)
    apply em_seq (by em)
    apply em_seq (by em)
    apply em_read; intro w
    split
    · apply em_seq (em_purgeSession _ _)
      apply em_read; intro w
      exact em_drainQueue _ _ _
    · exact em_ok
  · em

/-- **a timer callback never makes a Deferred succeed** (it may write, abort and fail) -/
theorem em_fireTimer (t : Nat) (hw : ∀ q, π.w q = true) (ht : ∀ q, π.t q = true) : Emits π (fireTimer t) := by
  unfold fireTimer
  apply em_read; intro w
  split
  · em
  · split
    · apply em_seq (by em)
      rename_i tm _ _
      unfold runTimer
      cases tm.kind with
      | connack cr =>
        simp only []; unfold abort
        apply em_read; intro w
        split
        · em
        · apply em_seq
          · split
            · em
            · em
          · exact em_seq (by em) (em_emit _ (ht _))
      | pingLoop p => exact em_seq (by em) (em_loopRun p (hw p))
      | pingAlarm p => simp only []; unfold abort; exact em_seq (by em) (em_emit _ (ht p))
      | retry p rid =>
        simp only []
        apply em_read; intro w
        split
        · exact em_retryPublish _ _ _ (hw p)
        · exact em_retryRelease _ _ _ (hw p)
        · exact em_retrySubUnsub _ _ _ _ (hw p)
        · exact em_retrySubUnsub _ _ _ _ (hw p)
      | onDisc p r => simp only []; em
    · em

/-! ### the application-facing operations -/

theorem em_apiConnect (p : Nat) (a : ConnectArgs) (hw : π.w p = true) : Emits π (apiConnect p a) := by
  unfold apiConnect
  generalize a.toF.encode = E
  em
theorem em_apiDisconnect (p : Nat) (hw : π.w p = true) : Emits π (apiDisconnect p) := by unfold apiDisconnect; em
theorem em_apiPublish (p : Nat) (t : PyStr) (pl : Payload) (q : Int) (r : Bool) (hw : π.w p = true) : Emits π (apiPublish p t pl q r) := by
  unfold apiPublish; em
theorem em_registerSubUnsub (p : Nat) (s : Bool) (i : Nat) (bs : Bytes) (hw : π.w p = true) : Emits π (registerSubUnsub p s i bs) := by
  unfold registerSubUnsub; em
theorem em_apiSubscribe (p : Nat) (a : SubArg) (q : Int) (hw : π.w p = true) : Emits π (apiSubscribe p a q) := by
  unfold apiSubscribe
  apply em_read; intro w
  split
  · em
  · dsimp only
    split
    · em
    · split
      · em
      · split
        · em
        · split
          · em
          · apply em_makeId; intro i
            generalize encodeWithId _ i _ = E
            cases E with
            | error e => em
            | ok bs => exact em_registerSubUnsub _ _ _ _ hw
theorem em_apiUnsubscribe (p : Nat) (a : UnsubArg) (hw : π.w p = true) : Emits π (apiUnsubscribe p a) := by
  unfold apiUnsubscribe
  apply em_read; intro w
  split
  · em
  · apply em_makeId; intro _
    apply em_read; intro w
    dsimp only
    split
    · em
    · split
      · em
      · split
        · em
        · apply em_makeId; intro i
          generalize encodeWithId _ i _ = E
          cases E with
          | error e => em
          | ok bs => exact em_registerSubUnsub _ _ _ _ hw
theorem em_apiSetWindow (p : Nat) (n : PyNum) : Emits π (apiSetWindow p n) := by unfold apiSetWindow; em
theorem em_apiSetTimeout (p : Nat) (n : PyNum) : Emits π (apiSetTimeout p n) := by unfold apiSetTimeout; em
theorem em_apiSetBandwith (p : Nat) (b f : Rat) : Emits π (apiSetBandwith p b f) := by unfold apiSetBandwith; em

/-! ### statements over operations -/

/-- **C04/C05/C07: a Deferred succeeds only while bytes from the broker are being processed.** Every other
    operation -- API calls, timer expiries, connection loss -- may write, abort and fail Deferreds, but
    never fires one with a success. -/
theorem success_only_on_recv (op : Op) (hop : ∀ p d, op ≠ .recv p d) :
    Emits ⟨fun _ => true, fun _ => true, false⟩ op.handler := by
  cases op with
  | build a => exact em_mod fun _ => rfl
  | sethandlers p m => exact em_setProto _ _
  | connect p a => exact em_apiConnect p a rfl
  | disconnect p => exact em_apiDisconnect p rfl
  | publish p t pl q r => exact em_apiPublish p t pl q r rfl
  | subscribe p a q => exact em_apiSubscribe p a q rfl
  | unsubscribe p a => exact em_apiUnsubscribe p a rfl
  | setwin p n => exact em_apiSetWindow p n
  | settimeout p n => exact em_apiSetTimeout p n
  | setbw p b f => exact em_apiSetBandwith p b f
  | jit v => exact em_mod fun _ => rfl
  | setid v => exact em_mod fun _ => rfl
  | recv p d => exact absurd rfl (hop p d)
  | lost p r => exact em_connectionLost p r
  | fire t => exact em_fireTimer t (fun _ => rfl) (fun _ => rfl)

/-- **C18/C19: bytes received on protocol `p` make the client write to, abort and deliver to `p` only.** -/
theorem recv_confined (p : Nat) (d : Bytes) : Emits ⟨(· == p), (· == p), true⟩ (dataReceived p d) :=
  em_dataReceived p d (by simp) (by simp) rfl

/-- **C13/C18: reporting a connection lost writes nothing to any transport**, aborts nothing, delivers nothing, and
    makes no Deferred succeed -/
theorem lost_silent (p : Nat) (r : Err) : Emits ⟨fun _ => false, fun _ => false, false⟩ (connectionLost p r) :=
  em_connectionLost p r

/-- **C19: an API call on protocol `p` writes to `p`'s transport only**, aborts nothing, delivers nothing, and never
    makes a Deferred succeed -/
theorem api_confined (op : Op) (p : Nat)
    (hop : (∃ a, op = .connect p a) ∨ op = .disconnect p ∨ (∃ t pl q r, op = .publish p t pl q r) ∨ (∃ a q, op = .subscribe p a q) ∨
      (∃ a, op = .unsubscribe p a) ∨ (∃ n, op = .setwin p n) ∨ (∃ n, op = .settimeout p n) ∨ (∃ b f, op = .setbw p b f) ∨
      (∃ m, op = .sethandlers p m)) :
    Emits ⟨(· == p), fun _ => false, false⟩ op.handler := by
  rcases hop with ⟨a, rfl⟩ | rfl | ⟨t, pl, q, r, rfl⟩ | ⟨a, q, rfl⟩ | ⟨a, rfl⟩ | ⟨n, rfl⟩ | ⟨n, rfl⟩ | ⟨b, f, rfl⟩ | ⟨m, rfl⟩
  · exact em_apiConnect p a (by simp)
  · exact em_apiDisconnect p (by simp)
  · exact em_apiPublish p t pl q r (by simp)
  · exact em_apiSubscribe p a q (by simp)
  · exact em_apiUnsubscribe p a (by simp)
  · exact em_apiSetWindow p n
  · exact em_apiSetTimeout p n
  · exact em_apiSetBandwith p b f
  · exact em_setProto _ _

end Mqtt
